#!/bin/bash
# Builds the verification framework from files on disk only (offline).
set -e
cd "$(dirname "$0")"
export GOFLAGS=-mod=mod GOPROXY=off GOSUMDB=off GOTOOLCHAIN=local CGO_ENABLED=0
mkdir -p .bin .work evidence replays
cp /repo/go.sum harness/go.sum
(cd harness && go build -tags verif -o ../.bin/sfimpl ./cmd/sfimpl)
(cd facts && go build -o ../.bin/sffacts ./cmd/sffacts)
./.bin/sffacts -repo /repo -out lean/SF/Gen
# SF imports every model, proof and property module (110 kLoC: about 6 minutes on 16 cores from scratch)
(cd lean && lake build SF SF.GenCheck sfmodel)
echo setup ok
