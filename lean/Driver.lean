/-
  Driver — `sfmodel`: reads "<n>\t<op line>\t=>\t<implementation observation>" lines,
  evaluates the executable Lean model (correspondence) and the specification-level oracle
  (the property evaluated on the implementation's observation) for each, and prints
     <n> ok
     <n> DIFF <model observation>
     <n> FAIL <property> <sig> <detail>          (zero or more per line)
  Core Lean only: no Mathlib anywhere below this file.
-/
import SF.Ops.Main

open SF

partial def loop (h : IO.FS.Stream) (out : IO.FS.Stream) : IO Unit := do
  let line ← h.getLine
  if line.isEmpty then return ()
  let line := (line.dropEndWhile (fun c => c == '\n' || c == '\r')).toString
  match line.splitOn "\t" with
  | [n, op, "=>", impl] =>
    let r := Ops.runLine op impl
    match r.model with
    | none => out.putStrLn s!"{n} SKIP"
    | some m =>
      if m == impl then out.putStrLn s!"{n} ok" else out.putStrLn s!"{n} DIFF {m}"
    for f in r.fails do
      out.putStrLn s!"{n} FAIL {f}"
  | _ => out.putStrLn s!"? BADLINE"
  loop h out

def main : IO Unit := do
  let stdin ← IO.getStdin
  let stdout ← IO.getStdout
  loop stdin stdout
