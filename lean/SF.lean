import SF.Basic
import SF.Event
import SF.Proto
import SF.Gotype.Symbols
import SF.Proofs.Symbols
import SF.Props.C20
import SF.Ops
