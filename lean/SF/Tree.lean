/-
  SF.Tree — event trees: the common shape of everything a producer may emit for one value.
  Specification-level helper: `events`, `value`, the side condition `wf` of the Visitor
  contract (announced length = -1 or the real count; a typed container holds only matching
  scalars), and the two generic theorems
      build (events t) = value t                 (Proofs/Tree.lean)
      wf t → WF1 (events t)                      (Proofs/Tree.lean)
  so that per-format proofs only have to exhibit the tree.
-/
import SF.Event
namespace SF

inductive ETree
  | null
  | bool (b : Bool)
  | str (s : Bytes)
  | num (k : NumKind) (v : Int)
  | f32 (bits : UInt32)
  | f64 (bits : UInt64)
  | arr (len : Int) (bt : Nat) (xs : List ETree)
  | obj (len : Int) (bt : Nat) (ms : List (Bytes × ETree))
  deriving Repr, Inhabited

namespace ETree

mutual
def events : ETree → List Ev
  | .null => [.null]
  | .bool b => [.bool b]
  | .str s => [.str s]
  | .num k v => [.num k v]
  | .f32 b => [.f32 b]
  | .f64 b => [.f64 b]
  | .arr len bt xs => .arrStart len bt :: eventsList xs ++ [.arrEnd]
  | .obj len bt ms => .objStart len bt :: eventsMems ms ++ [.objEnd]
def eventsList : List ETree → List Ev
  | [] => []
  | x :: xs => x.events ++ eventsList xs
def eventsMems : List (Bytes × ETree) → List Ev
  | [] => []
  | (k, v) :: ms => .key k :: v.events ++ eventsMems ms
end

mutual
def value : ETree → Val
  | .null => .null
  | .bool b => .bool b
  | .str s => .str s
  | .num _ v => .int v
  | .f32 b => .f32 b
  | .f64 b => .f64 b
  | .arr _ _ xs => .arr (valueList xs)
  | .obj _ _ ms => .obj (valueMems ms)
def valueList : List ETree → List Val
  | [] => []
  | x :: xs => x.value :: valueList xs
def valueMems : List (Bytes × ETree) → List (Bytes × Val)
  | [] => []
  | (k, v) :: ms => (k, v.value) :: valueMems ms
end

def isContainer : ETree → Bool
  | .arr .. | .obj .. => true
  | _ => false

/-- the (scalar) event of a leaf matches an announced element type -/
def matchesBT (bt : Nat) : ETree → Bool
  | .null => Ev.matchesBT bt .null
  | .bool b => Ev.matchesBT bt (.bool b)
  | .str s => Ev.matchesBT bt (.str s)
  | .num k v => Ev.matchesBT bt (.num k v)
  | .f32 b => Ev.matchesBT bt (.f32 b)
  | .f64 b => Ev.matchesBT bt (.f64 b)
  | _ => bt == BT.any

def lenOkFor (len : Int) (n : Nat) : Bool := len == -1 || len == (n : Int)

mutual
def wf : ETree → Bool
  | .arr len bt xs => lenOkFor len xs.length && wfList bt xs
  | .obj len bt ms => lenOkFor len ms.length && wfMems bt ms
  | _ => true
def wfList (bt : Nat) : List ETree → Bool
  | [] => true
  | x :: xs => x.matchesBT bt && x.wf && wfList bt xs
def wfMems (bt : Nat) : List (Bytes × ETree) → Bool
  | [] => true
  | (_, v) :: ms => v.matchesBT bt && v.wf && wfMems bt ms
end

end ETree
end SF
