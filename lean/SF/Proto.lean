/-
  SF.Proto — token-level line protocol shared with the Go harness (DESIGN appendix C).
  Printing and parsing of events; no logic.
-/
import SF.Event
namespace SF

def hexN (digits : Nat) (n : Nat) : String :=
  toHex (beBytes (digits / 2) n)

def Ev.toTok : Ev → String
  | .null => "N"
  | .bool true => "T"
  | .bool false => "F"
  | .str s => "S:" ++ toHex s
  | .key s => "K:" ++ toHex s
  | .num k v => k.name ++ ":" ++ intToDec v
  | .f32 b => "f32:" ++ hexN 8 b.toNat
  | .f64 b => "f64:" ++ hexN 16 b.toNat
  | .arrStart l bt => "[" ++ intToDec l ++ ":" ++ toString bt
  | .arrEnd => "]"
  | .objStart l bt => "{" ++ intToDec l ++ ":" ++ toString bt
  | .objEnd => "}"

def evsToString (evs : List Ev) : String :=
  if evs.isEmpty then "-" else ",".intercalate (evs.map Ev.toTok)

def splitOnce (s : String) (sep : Char) : String × String :=
  let cs := s.toList
  (String.ofList (cs.takeWhile (· != sep)), String.ofList ((cs.dropWhile (· != sep)).drop 1))

def parseLenBt (s : String) : Option (Int × Nat) :=
  let (a, b) := splitOnce s ':'
  match decToInt? a, decToNat? b with
  | some l, some bt => some (l, bt)
  | _, _ => none

def ofHexN (s : String) : Option Nat := (ofHex s).map beNat

def Ev.ofTok? (t : String) : Option Ev :=
  if t == "N" then some .null
  else if t == "T" then some (.bool true)
  else if t == "F" then some (.bool false)
  else if t == "]" then some .arrEnd
  else if t == "}" then some .objEnd
  else if t.startsWith "[" then (parseLenBt (t.drop 1).toString).map fun (l, bt) => .arrStart l bt
  else if t.startsWith "{" then (parseLenBt (t.drop 1).toString).map fun (l, bt) => .objStart l bt
  else
    let (h, r) := splitOnce t ':'
    if h == "S" || h == "R" then (ofHex r).map .str
    else if h == "K" || h == "Q" then (ofHex r).map .key
    else if h == "f32" then (ofHexN r).map fun n => .f32 (UInt32.ofNat n)
    else if h == "f64" then (ofHexN r).map fun n => .f64 (UInt64.ofNat n)
    else match NumKind.ofName? h, decToInt? r with
      | some k, some v => some (.num k v)
      | _, _ => none

def allSome {α : Type} : List (Option α) → Option (List α)
  | [] => some []
  | none :: _ => none
  | some a :: r => (allSome r).map (a :: ·)

/-- split `n:e1/e2/…` into exactly `n` element strings -/
def splitElems (s : String) : Option (List String) :=
  let (ns, rest) := splitOnce s ':'
  match decToNat? ns with
  | none => none
  | some 0 => some []
  | some n =>
    let parts := rest.splitOn "/"
    if parts.length == n then some parts else none

def parseKV (s : String) : Option (Bytes × String) :=
  let (k, v) := splitOnce s '='
  (ofHex k).map fun kb => (kb, v)

def XEv.ofTok? (t : String) : Option XEv :=
  if t.startsWith "A" then
    let (h, r) := splitOnce (t.drop 1).toString ':'
    match splitElems r with
    | none => none
    | some es =>
      if h == "bool" then (allSome (es.map fun e => if e == "T" then some true else if e == "F" then some false else none)).map .boolArr
      else if h == "str" then (allSome (es.map ofHex)).map .strArr
      else if h == "f32" then (allSome (es.map ofHexN)).map fun xs => .f32Arr (xs.map UInt32.ofNat)
      else if h == "f64" then (allSome (es.map ofHexN)).map fun xs => .f64Arr (xs.map UInt64.ofNat)
      else match NumKind.ofName? h with
        | some k => (allSome (es.map decToInt?)).map (.numArr k)
        | none => none
  else if t.startsWith "O" then
    let (h, r) := splitOnce (t.drop 1).toString ':'
    match (splitElems r).bind (fun es => allSome (es.map parseKV)) with
    | none => none
    | some kvs =>
      let conv {β : Type} (f : String → Option β) : Option (List (Bytes × β)) :=
        allSome (kvs.map fun (k, v) => (f v).map fun x => (k, x))
      if h == "bool" then (conv fun e => if e == "T" then some true else if e == "F" then some false else none).map .boolObj
      else if h == "str" then (conv ofHex).map .strObj
      else if h == "f32" then (conv ofHexN).map fun xs => .f32Obj (xs.map fun (k, n) => (k, UInt32.ofNat n))
      else if h == "f64" then (conv ofHexN).map fun xs => .f64Obj (xs.map fun (k, n) => (k, UInt64.ofNat n))
      else match NumKind.ofName? h with
        | some k => (conv decToInt?).map (.numObj k)
        | none => none
  else
    let (h, r) := splitOnce t ':'
    if h == "R" then (ofHex r).map .strRef
    else if h == "Q" then (ofHex r).map .keyRef
    else (Ev.ofTok? t).map .ev

def parseEvs (s : String) : Option (List Ev) :=
  if s == "-" then some [] else allSome ((s.splitOn ",").map Ev.ofTok?)

def parseXEvs (s : String) : Option (List XEv) :=
  if s == "-" then some [] else allSome ((s.splitOn ",").map XEv.ofTok?)

/-- `chunks := chunk ("," chunk)* | "-"`; chunk = hex | "_" (the empty chunk) -/
def parseChunks (s : String) : Option (List Bytes) :=
  if s == "-" then some [] else allSome ((s.splitOn ",").map fun c => if c == "_" then some [] else ofHex c)

def parseNats (s : String) : Option (List Nat) :=
  if s == "-" then some [] else allSome ((s.splitOn ",").map decToNat?)

end SF
