/-
  SF.Gotype.Types — the universe of Go types and values that replaces `reflect` in the
  gotype models (Fold, later Unfold), the line-protocol grammar for them, and the Lean
  descriptors of the harness MENAGERIE (harness/sfh/gotypes.go).  Core Lean only.

  GRAMMAR (shared with harness/sfh/gotypes.go; tokens contain no spaces; hex = lowercase)

    type   := "bool" | "string" | "int" | "int8" | "int16" | "int32" | "int64"
            | "uint" | "uint8" | "uint16" | "uint32" | "uint64" | "float32" | "float64"
            | "any"                                   interface{}
            | "[]" type | "[" n "]" type              slice, array
            | "map[" type "]" type                    map (any scalar key type is representable;
                                                      gotype supports string kinds only)
            | "*" type
            | "struct{" [field (";" field)*] "}"
            | "@" Name                                menagerie member
            | "uintptr" | "complex64" | "complex128" | "func" | "chan:" type   (unsupported kinds)
    field  := ["!"] Name ":" type [ "`" tag "`" ]     "!" = embedded (anonymous) field, menagerie only;
                                                      tag = content of the `struct:"…"` tag, bytes
                                                      outside [A-Za-z0-9_,.-] written %XX (ASCII only)
    value  := "nil"                                   nil slice / map / pointer / interface / chan / func
            | "true" | "false" | decimal
            | "f:" hex                                float32 (8 digits) / float64 (16 digits), IEEE bits
            | "c:" hex                                complex (opaque here)
            | "s:" hex                                string bytes
            | "[" [value ("," value)*] "]"            non-nil slice; array
            | "{" [value "=" value ("," …)*] "}"      non-nil map, key "=" element, in the order given
            | "(" [value ("," value)*] ")"            struct: ALL fields in declaration order
            | "&" value                               non-nil pointer
            | "<" type ">" value                      non-nil interface value with its dynamic type

  Values are trees: cyclic / shared pointers are not representable (out of scope).
  A `GoVal` is untyped; it is always read together with a `GoType` (`RV` below).
  Field names: `exported`/`lower` implement unicode.IsUpper / strings.ToLower for ASCII and
  Latin-1 only (the generators use nothing else).
-/
import SF.Event
import SF.Proto
namespace SF.Gotype
open SF

/-- receiver a method is declared on -/
inductive Recv | none | value | pointer
  deriving DecidableEq, Repr, Inhabited

/-- the part of a named type's method set gotype looks at -/
structure Methods where
  folder : Recv := .none      -- `Fold(structform.ExtVisitor) error` (gotype.Folder)
  isZero : Recv := .none      -- `IsZero() bool` (gotype.IsZeroer)
  deriving DecidableEq, Repr, Inhabited

mutual
/-- Go types.  Integer kinds reuse `NumKind` (`.byte` is never used: byte = uint8). -/
inductive GoType
  | bool | string
  | int (k : NumKind)
  | float32 | float64
  | iface                                   -- interface{}
  | slice (e : GoType)
  | array (n : Nat) (e : GoType)
  | map (k e : GoType)
  | ptr (e : GoType)
  | struct (fs : List Field)
  | named (name : String) (m : Methods) (under : GoType)   -- menagerie member, with its underlying type
  | ref (name : String)                     -- the menagerie member `name`, mentioned inside its own declaration
  | chan (e : GoType)
  | other (kind : String)                   -- uintptr, complex64, complex128, func
  deriving Repr, Inhabited
/-- struct field: name, type, raw `struct:"…"` tag content, embedded? -/
inductive Field
  | mk (name : String) (typ : GoType) (tag : String) (anonymous : Bool)
  deriving Repr, Inhabited
end

def Field.name : Field → String | .mk n _ _ _ => n
def Field.typ : Field → GoType | .mk _ t _ _ => t
def Field.tag : Field → String | .mk _ _ t _ => t
def Field.anonymous : Field → Bool | .mk _ _ _ a => a

/-- unicode.IsUpper (ASCII + Latin-1) -/
def isUpperRune (c : Char) : Bool :=
  ('A' ≤ c && c ≤ 'Z') || (0xC0 ≤ c.toNat && c.toNat ≤ 0xDE && c.toNat != 0xD7)

/-- unicode.ToLower (ASCII + Latin-1) -/
def toLowerRune (c : Char) : Char := if isUpperRune c then Char.ofNat (c.toNat + 32) else c

/-- strings.ToLower -/
def toLower (s : String) : String := String.ofList (s.toList.map toLowerRune)

/-- gotype's notion of an exported field: first rune is upper case -/
def Field.exported (f : Field) : Bool :=
  match f.name.toList with
  | c :: _ => isUpperRune c
  | [] => false

def strBytes (s : String) : Bytes := s.toUTF8.toList

/-- Go values; nil-ness explicit; maps are association lists in iteration order. -/
inductive GoVal
  | bool (b : Bool)
  | int (v : Int)
  | f32 (bits : UInt32)
  | f64 (bits : UInt64)
  | cplx (bits : Bytes)
  | str (s : Bytes)
  | nilSlice
  | slice (xs : List GoVal)
  | array (xs : List GoVal)
  | nilMap
  | map (ms : List (GoVal × GoVal))
  | nilPtr
  | ptr (v : GoVal)
  | nilIface
  | iface (t : GoType) (v : GoVal)          -- dynamic type and value
  | struct (fs : List GoVal)
  | nilOther                                -- nil chan / func
  deriving Repr, Inhabited

/-! ## The menagerie: named types declared in harness/sfh/gotypes.go

Descriptors are written in the type grammar (checked against `reflect` by the `typeinfo`
op for every member on every sweep).  `@X` inside the declaration of `X` becomes `ref X`. -/

def menagerieDecls : List (String × Methods × String) := [
  ("FV",        { folder := .value },   "struct{A:int;S:string}"),
  ("FP",        { folder := .pointer }, "struct{A:int}"),
  ("FPN",       { folder := .pointer }, "struct{A:int}"),   -- nil receiver emits a non-null value
  ("FS",        { folder := .value },   "int"),
  ("FInts",     { folder := .value },   "[]int"),
  ("FMap",      { folder := .value },   "map[string]int"),
  ("FOpen",     { folder := .value },   "struct{A:int}"),
  ("ZV",        { isZero := .value },   "struct{N:int}"),
  ("ZP",        { isZero := .pointer }, "struct{N:int}"),
  ("ZInt",      { isZero := .value },   "int"),
  ("ZStr",      { isZero := .value },   "string"),
  ("TimeLike",  { isZero := .value },   "struct{wall:uint64;ext:int64}"),
  ("ZInts",     { isZero := .value },   "[]int"),
  ("ZMapP",     { isZero := .pointer }, "map[string]int"),
  ("ZArr",      { isZero := .value },   "[2]int"),
  ("NBool", {}, "bool"), ("NStr", {}, "string"), ("NInt", {}, "int"), ("NU8", {}, "uint8"),
  ("NF32", {}, "float32"), ("NInts", {}, "[]int"), ("NBytes", {}, "[]uint8"), ("NStrs", {}, "[]string"),
  ("NAnys", {}, "[]any"), ("NArr", {}, "[2]int"), ("NMap", {}, "map[string]int"),
  ("NMapAny", {}, "map[string]any"), ("NPtr", {}, "*int"),
  ("Unexp",     {}, "struct{A:int;b:string;C:bool;_d:int;Ünï:string}"),
  ("Inner",     {}, "struct{X:int;Y:string`why`}"),
  ("inner2",    {}, "struct{X:int}"),
  ("EmbInline", {}, "struct{!Inner:@Inner`,inline`;Z:int}"),
  ("EmbPlain",  {}, "struct{!Inner:@Inner;Z:int}"),
  ("EmbPtr",    {}, "struct{!Inner:*@Inner`,inline`;Z:int}"),
  ("EmbPtrPlain", {}, "struct{!Inner:*@Inner;Z:int}"),
  ("EmbUnexp",  {}, "struct{!inner2:@inner2;Z:int}"),
  ("EmbZ",      { isZero := .value },   "struct{!ZV:@ZV;K:int}"),          -- IsZero promoted from ZV
  ("EmbF",      { folder := .value },   "struct{!FV:@FV`,inline`;K:int}"), -- Fold promoted from FV
  ("UF", {}, "struct{D:int}"), ("UO", {}, "struct{D:int;E:string}"), ("UD", {}, "int64"),
  ("UFM", {}, "map[string]int"), ("UFP", {}, "struct{P:*int}"),   -- pointer-shaped, registered fold function
  ("Ifc",   {}, "struct{A:any;B:any`b,omitempty`;C:any`,inline`}"),
  ("Mixed", {}, "struct{M:map[string]any;L:[]any}"),
  ("N",  {}, "struct{V:int;Next:*@N}"),
  ("NI", {}, "struct{V:int;Next:any}"),
  ("Tree", {}, "struct{V:int;Kids:[]@Tree;M:map[string]*@Tree}"),
  ("MA", {}, "struct{V:int;B:*@MB}"),
  ("MB", {}, "struct{S:string;A:*@MA;As:[]@MA}"),
  ("NIn", {}, "struct{V:int;Next:*@NIn`,inline`}"),
  ("NII", {}, "struct{V:int;Next:any`,inline`}"),
  ("NO", {}, "struct{V:int;Next:*@NO`,omitempty`}"),
  ("NBad", {}, "struct{V:int;Next:*@NBad;C:chan:int}"),
  ("L", {}, "[]@L"),
  ("MM", {}, "map[string]@MM")
]

/-- types with a user fold function registered through `gotype.Folders` (harness: UserFolders) -/
def userFoldTypes : List String := ["UF", "UO", "UD", "UFM", "UFP"]

/-! ## type parser -/

abbrev P (α : Type) := List Char → Option (α × List Char)

def eat (pre : String) (cs : List Char) : Option (List Char) :=
  let p := pre.toList
  if cs.take p.length == p then some (cs.drop p.length) else none

def isIdentChar (c : Char) : Bool :=
  c == '_' || c.isAlphanum || (0xC0 ≤ c.toNat && c.toNat ≤ 0xFF && c.toNat != 0xD7 && c.toNat != 0xF7)

def ident (cs : List Char) : String × List Char :=
  (String.ofList (cs.takeWhile isIdentChar), cs.dropWhile isIdentChar)

def basicType? : String → Option GoType
  | "bool" => some .bool | "string" => some .string
  | "int" => some (.int .int) | "int8" => some (.int .i8) | "int16" => some (.int .i16)
  | "int32" => some (.int .i32) | "int64" => some (.int .i64)
  | "uint" => some (.int .uint) | "uint8" => some (.int .u8) | "uint16" => some (.int .u16)
  | "uint32" => some (.int .u32) | "uint64" => some (.int .u64)
  | "float32" => some .float32 | "float64" => some .float64
  | "any" => some .iface
  | "uintptr" => some (.other "uintptr") | "complex64" => some (.other "complex64")
  | "complex128" => some (.other "complex128") | "func" => some (.other "func")
  | _ => none

/-- bytes of an escaped tag: `%XX` is one byte, any other character its UTF-8 bytes -/
def unescapeTagBytes : List Char → Bytes
  | '%' :: a :: b :: rest =>
    match hexVal a, hexVal b with
    | some x, some y => UInt8.ofNat (x * 16 + y) :: unescapeTagBytes rest
    | _, _ => strBytes "%" ++ unescapeTagBytes (a :: b :: rest)
  | c :: rest => strBytes (String.singleton c) ++ unescapeTagBytes rest
  | [] => []

/-- the tag as a string (UTF-8; bytes that are no valid UTF-8 are read as Latin-1) -/
def unescapeTag (cs : List Char) : String :=
  let bs := unescapeTagBytes cs
  match String.fromUTF8? (ByteArray.mk bs.toArray) with
  | some s => s
  | none => String.ofList (bs.map fun b => Char.ofNat b.toNat)

def escapeTag (s : String) : String :=
  String.ofList ((strBytes s).flatMap fun b =>
    let c := Char.ofNat b.toNat
    if b.toNat < 128 && (c.isAlphanum || c == '_' || c == ',' || c == '.' || c == '-') then [c]
    else ['%', hexDigit (b.toNat / 16), hexDigit (b.toNat % 16)])

mutual
/-- `open_` = menagerie members whose declaration is being expanded (→ `ref`) -/
def parseTypeF : Nat → List String → P GoType
  | 0, _, _ => none
  | fuel + 1, open_, cs =>
    match eat "[]" cs with
    | some r => (parseTypeF fuel open_ r).map fun (t, r) => (.slice t, r)
    | none =>
    match eat "map[" cs with
    | some r =>
      match parseTypeF fuel open_ r with
      | some (k, r) =>
        match eat "]" r with
        | some r => (parseTypeF fuel open_ r).map fun (e, r) => (.map k e, r)
        | none => none
      | none => none
    | none =>
    match eat "[" cs with
    | some r =>
      let ds := r.takeWhile Char.isDigit
      match decToNat? (String.ofList ds), eat "]" (r.dropWhile Char.isDigit) with
      | some n, some r => (parseTypeF fuel open_ r).map fun (e, r) => (.array n e, r)
      | _, _ => none
    | none =>
    match eat "*" cs with
    | some r => (parseTypeF fuel open_ r).map fun (t, r) => (.ptr t, r)
    | none =>
    match eat "chan:" cs with
    | some r => (parseTypeF fuel open_ r).map fun (t, r) => (.chan t, r)
    | none =>
    match eat "struct{" cs with
    | some r =>
      match eat "}" r with
      | some r => some (.struct [], r)
      | none => (parseFieldsF fuel open_ r).map fun (fs, r) => (.struct fs, r)
    | none =>
    match eat "@" cs with
    | some r =>
      let (name, r) := ident r
      if open_.contains name then some (.ref name, r) else
      match menagerieDecls.find? (·.1 == name) with
      | some (_, m, decl) =>
        match parseTypeF fuel (name :: open_) decl.toList with
        | some (u, []) => some (.named name m u, r)
        | _ => none
      | none => none
    | none =>
      let (name, r) := ident cs
      (basicType? name).map fun t => (t, r)
/-- one or more fields up to and including the closing brace -/
def parseFieldsF : Nat → List String → P (List Field)
  | 0, _, _ => none
  | fuel + 1, open_, cs =>
    let (anon, cs) := match eat "!" cs with | some r => (true, r) | none => (false, cs)
    let (name, cs) := ident cs
    if name.isEmpty then none else
    match eat ":" cs with
    | none => none
    | some cs =>
      match parseTypeF fuel open_ cs with
      | none => none
      | some (t, cs) =>
        let (tag, cs) := match eat "`" cs with
          | some r => (unescapeTag (r.takeWhile (· != '`')), (r.dropWhile (· != '`')).drop 1)
          | none => ("", cs)
        let f := Field.mk name t tag anon
        match eat "}" cs with
        | some r => some ([f], r)
        | none =>
          match eat ";" cs with
          | some r => (parseFieldsF fuel open_ r).map fun (fs, r) => (f :: fs, r)
          | none => none
end

def parseTypeP : P GoType := fun cs => parseTypeF (cs.length + 50) [] cs

def GoType.parse? (s : String) : Option GoType :=
  match parseTypeP s.toList with
  | some (t, []) => some t
  | _ => none

/-- all menagerie members, parsed once -/
def menagerie : List (String × GoType) :=
  menagerieDecls.filterMap fun (n, _, _) => (GoType.parse? ("@" ++ n)).map fun t => (n, t)

/-- head-normal form: a `ref` is replaced by the menagerie member it names -/
def GoType.whnf : GoType → GoType
  | .ref name => (menagerie.lookup name).getD (.other ("unknown:" ++ name))
  | t => t

/-- the type with names at the head stripped: what `reflect.Type.Kind()` etc. look at -/
def GoType.under : GoType → GoType
  | .named _ _ u => u
  | .ref name => match menagerie.lookup name with
    | some (.named _ _ u) => u
    | _ => .other ("unknown:" ++ name)
  | t => t

def GoType.isNamed : GoType → Bool
  | .named .. => true | .ref _ => true | _ => false

def GoType.menagerieName? : GoType → Option String
  | .named n _ _ => some n | .ref n => some n | _ => none

def GoType.methods (t : GoType) : Methods :=
  match t.whnf with
  | .named _ m _ => m
  | _ => {}

/-- reflect.Kind.String() -/
def GoType.kindName (t : GoType) : String :=
  match t.under with
  | .bool => "bool" | .string => "string"
  | .int k => (match k with
    | .int => "int" | .i8 => "int8" | .i16 => "int16" | .i32 => "int32" | .i64 => "int64"
    | .uint => "uint" | .u8 => "uint8" | .u16 => "uint16" | .u32 => "uint32" | .u64 => "uint64"
    | .byte => "uint8")
  | .float32 => "float32" | .float64 => "float64"
  | .iface => "interface" | .slice _ => "slice" | .array _ _ => "array" | .map _ _ => "map"
  | .ptr _ => "ptr" | .struct _ => "struct" | .chan _ => "chan"
  | .other k => k
  | .named .. => "?" | .ref _ => "?"

/-- does the method set of `t` contain `Fold` (t.Implements(tFolder))?  T: value-receiver
methods; *T: value- and pointer-receiver methods; anything else: none. -/
def implementsFolder (t : GoType) : Bool :=
  match t.whnf with
  | .named _ m _ => m.folder == .value
  | .ptr e => (match e.whnf with | .named _ m _ => m.folder != .none | _ => false)
  | _ => false
def implementsPtrFolder (t : GoType) : Bool := implementsFolder (.ptr t)

def implementsIsZeroer (t : GoType) : Bool :=
  match t.whnf with
  | .named _ m _ => m.isZero == .value
  | .ptr e => (match e.whnf with | .named _ m _ => m.isZero != .none | _ => false)
  | _ => false
def implementsPtrIsZeroer (t : GoType) : Bool := implementsIsZeroer (.ptr t)

/-! ## type printer -/

def intKindName : NumKind → String
  | .int => "int" | .i8 => "int8" | .i16 => "int16" | .i32 => "int32" | .i64 => "int64"
  | .uint => "uint" | .u8 => "uint8" | .u16 => "uint16" | .u32 => "uint32" | .u64 => "uint64"
  | .byte => "uint8"

mutual
def printTypeF : Nat → GoType → String
  | 0, _ => "?"
  | fuel + 1, t =>
    match t with
    | .named n _ _ => "@" ++ n
    | .ref n => "@" ++ n
    | t => printStructuralF fuel t
/-- one level structurally (names below print as @Name) -/
def printStructuralF : Nat → GoType → String
  | 0, _ => "?"
  | fuel + 1, t =>
    match t with
    | .named _ _ u => printStructuralF fuel u
    | .ref n => (match menagerie.lookup n with
      | some (.named _ _ u) => printStructuralF fuel u
      | _ => "?")
    | .bool => "bool" | .string => "string" | .int k => intKindName k
    | .float32 => "float32" | .float64 => "float64" | .iface => "any"
    | .slice e => "[]" ++ printTypeF fuel e
    | .array n e => "[" ++ toString n ++ "]" ++ printTypeF fuel e
    | .map k e => "map[" ++ printTypeF fuel k ++ "]" ++ printTypeF fuel e
    | .ptr e => "*" ++ printTypeF fuel e
    | .chan e => "chan:" ++ printTypeF fuel e
    | .other k => k
    | .struct fs =>
      "struct{" ++ ";".intercalate (fs.map fun f =>
        (if f.anonymous then "!" else "") ++ f.name ++ ":" ++ printTypeF fuel f.typ ++
        (if f.tag.isEmpty then "" else "`" ++ escapeTag f.tag ++ "`")) ++ "}"
end

def GoType.print (t : GoType) : String := printTypeF 1000 t
def GoType.printStructural (t : GoType) : String := printStructuralF 1000 t

/-- the `typeinfo` view (same canonical form as harness TypeInfo) -/
def GoType.info (t : GoType) : String :=
  let recv (impl : GoType → Bool) : String := if impl t then "v" else if impl (.ptr t) then "p" else "-"
  let name := match t with | .named n _ _ => n | .ref n => n | _ => "-"
  let base := s!"{t.print} kind={t.kindName} name={name} folder={recv implementsFolder} iszero={recv implementsIsZeroer} under={t.printStructural}"
  match t.under with
  | .struct fs =>
    base ++ " fields=" ++ ",".intercalate (fs.map fun f =>
      s!"{f.name}/{toHex (strBytes (toLower f.name))}/{f.exported}/{f.anonymous}")
  | _ => base

/-! ## value parser / printer -/

/-- a scalar token: up to one of `, ] } ) =` or the end -/
def scalarTok (cs : List Char) : String × List Char :=
  let stop (c : Char) : Bool := c == ',' || c == ']' || c == '}' || c == ')' || c == '='
  (String.ofList (cs.takeWhile (! stop ·)), cs.dropWhile (! stop ·))

def stripPrefix (pre : String) (s : String) : Option String :=
  if s.startsWith pre then some (String.ofList (s.toList.drop pre.length)) else none

mutual
def parseValF : Nat → GoType → P GoVal
  | 0, _, _ => none
  | fuel + 1, t, cs =>
    match t.under with
    | .bool =>
      let (tk, r) := scalarTok cs
      if tk == "true" then some (.bool true, r) else if tk == "false" then some (.bool false, r) else none
    | .int k =>
      let (tk, r) := scalarTok cs
      (decToInt? tk).bind fun v => if k.inRange v then some (.int v, r) else none
    | .other "uintptr" =>
      let (tk, r) := scalarTok cs
      (decToInt? tk).map fun v => (.int v, r)
    | .float32 =>
      let (tk, r) := scalarTok cs
      ((stripPrefix "f:" tk).bind ofHexN).map fun n => (.f32 (UInt32.ofNat n), r)
    | .float64 =>
      let (tk, r) := scalarTok cs
      ((stripPrefix "f:" tk).bind ofHexN).map fun n => (.f64 (UInt64.ofNat n), r)
    | .other "complex64" | .other "complex128" =>
      let (tk, r) := scalarTok cs
      ((stripPrefix "c:" tk).bind ofHex).map fun b => (.cplx b, r)
    | .string =>
      let (tk, r) := scalarTok cs
      ((stripPrefix "s:" tk).bind ofHex).map fun b => (.str b, r)
    | .slice e =>
      match eat "nil" cs with
      | some r => some (.nilSlice, r)
      | none =>
        match eat "[" cs with
        | none => none
        | some r =>
          match eat "]" r with
          | some r => some (.slice [], r)
          | none => (parseSeqF fuel e ']' r).map fun (xs, r) => (.slice xs, r)
    | .array n e =>
      match eat "[" cs with
      | none => none
      | some r =>
        match eat "]" r with
        | some r => if n == 0 then some (.array [], r) else none
        | none => (parseSeqF fuel e ']' r).bind fun (xs, r) => if xs.length == n then some (.array xs, r) else none
    | .map k e =>
      match eat "nil" cs with
      | some r => some (.nilMap, r)
      | none =>
        match eat "{" cs with
        | none => none
        | some r =>
          match eat "}" r with
          | some r => some (.map [], r)
          | none => (parseEntriesF fuel k e r).map fun (ms, r) => (.map ms, r)
    | .ptr e =>
      match eat "nil" cs with
      | some r => some (.nilPtr, r)
      | none =>
        match eat "&" cs with
        | none => none
        | some r => (parseValF fuel e r).map fun (v, r) => (.ptr v, r)
    | .iface =>
      match eat "nil" cs with
      | some r => some (.nilIface, r)
      | none =>
        match eat "<" cs with
        | none => none
        | some r =>
          match GoType.parse? (String.ofList (r.takeWhile (· != '>'))) with
          | none => none
          | some dt => (parseValF fuel dt ((r.dropWhile (· != '>')).drop 1)).map fun (v, r) => (.iface dt v, r)
    | .struct fs =>
      match eat "(" cs with
      | none => none
      | some r =>
        match eat ")" r with
        | some r => if fs.isEmpty then some (.struct [], r) else none
        | none => (parseFieldValsF fuel fs r).map fun (vs, r) => (.struct vs, r)
    | .chan _ | .other "func" => (eat "nil" cs).map fun r => (.nilOther, r)
    | _ => none
/-- one or more values of type `e`, comma separated, up to and including `close` -/
def parseSeqF : Nat → GoType → Char → P (List GoVal)
  | 0, _, _, _ => none
  | fuel + 1, e, close, cs =>
    match parseValF fuel e cs with
    | none => none
    | some (v, r) =>
      match r with
      | c :: r' =>
        if c == close then some ([v], r')
        else if c == ',' then (parseSeqF fuel e close r').map fun (vs, r) => (v :: vs, r)
        else none
      | [] => none
def parseEntriesF : Nat → GoType → GoType → P (List (GoVal × GoVal))
  | 0, _, _, _ => none
  | fuel + 1, k, e, cs =>
    match parseValF fuel k cs with
    | none => none
    | some (kv, r) =>
      match eat "=" r with
      | none => none
      | some r =>
        match parseValF fuel e r with
        | none => none
        | some (v, r) =>
          match r with
          | '}' :: r' => some ([(kv, v)], r')
          | ',' :: r' => (parseEntriesF fuel k e r').map fun (ms, r) => ((kv, v) :: ms, r)
          | _ => none
/-- the values of the fields `fs` (non-empty), up to and including the closing parenthesis -/
def parseFieldValsF : Nat → List Field → P (List GoVal)
  | 0, _, _ => none
  | _ + 1, [], _ => none
  | fuel + 1, f :: fs, cs =>
    match parseValF fuel f.typ cs with
    | none => none
    | some (v, r) =>
      match fs, r with
      | [], ')' :: r' => some ([v], r')
      | _ :: _, ',' :: r' => (parseFieldValsF fuel fs r').map fun (vs, r) => (v :: vs, r)
      | _, _ => none
end

def GoVal.parse? (t : GoType) (s : String) : Option GoVal :=
  match parseValF (2 * s.length + 50) t s.toList with
  | some (v, []) => some v
  | _ => none

def sortStrings (xs : List String) : List String := (xs.toArray.qsort (· < ·)).toList

def printValF : Nat → GoVal → String
  | 0, _ => "?"
  | fuel + 1, v =>
    match v with
    | .bool b => if b then "true" else "false"
    | .int v => intToDec v
    | .f32 b => "f:" ++ hexN 8 b.toNat
    | .f64 b => "f:" ++ hexN 16 b.toNat
    | .cplx b => "c:" ++ toHex b
    | .str s => "s:" ++ toHex s
    | .nilSlice | .nilMap | .nilPtr | .nilIface | .nilOther => "nil"
    | .slice xs | .array xs => "[" ++ ",".intercalate (xs.map (printValF fuel)) ++ "]"
    | .map ms =>
      "{" ++ ",".intercalate (sortStrings (ms.map fun (k, x) => printValF fuel k ++ "=" ++ printValF fuel x)) ++ "}"
    | .ptr x => "&" ++ printValF fuel x
    | .iface t x => "<" ++ t.print ++ ">" ++ printValF fuel x
    | .struct fs => "(" ++ ",".intercalate (fs.map (printValF fuel)) ++ ")"

/-- canonical print (maps sorted by printed entry, like harness PrintValue) -/
def GoVal.print (v : GoVal) : String := printValF 100000 v

/-! ## reflect.Value stand-in: a value read at a type -/

structure RV where
  t : GoType
  v : GoVal
  deriving Inhabited

/-- reflect.Value.Field(i); none = reflect would panic -/
def RV.field (rv : RV) (i : Nat) : Option RV :=
  match rv.t.under, rv.v with
  | .struct fs, .struct vs =>
    match fs[i]?, vs[i]? with
    | some f, some v => some ⟨f.typ, v⟩
    | _, _ => none
  | _, _ => none

/-- element type of a slice / array / pointer / map / chan type -/
def GoType.elem (t : GoType) : GoType :=
  match t.under with
  | .slice e | .array _ e | .ptr e | .map _ e | .chan e => e
  | _ => .other "invalid"

def GoType.key (t : GoType) : GoType :=
  match t.under with
  | .map k _ => k
  | _ => .other "invalid"

/-- baseType (fold_reflect.go): strip pointers, count them -/
def baseTypeF : Nat → GoType → Nat × GoType
  | 0, t => (0, t)
  | fuel + 1, t =>
    match t.under with
    | .ptr e => let (n, b) := baseTypeF fuel e; (n + 1, b)
    | _ => (0, t)
def baseType (t : GoType) : Nat × GoType := baseTypeF 1000 t

/-! ## The menagerie's code: what the custom folders emit, what IsZero returns -/

def decBytes (i : Int) : Bytes := strBytes (intToDec i)

/-- events a `Fold` method / registered fold function calls on its visitor, in order, when
every call succeeds (all of them stop at the first error).  `recv` is the receiver: the
value for value receivers, the pointer (`nilPtr` / `ptr v`) for pointer receivers and user
fold functions.  none = the receiver has the wrong shape. -/
def customEvents : String → GoVal → Option (List XEv)
  | "FV", .struct [.int a, .str s] =>
    some [.ev (.objStart 3 BT.any), .ev (.key (strBytes "fa")), .ev (.num .int a),
          .keyRef (strBytes "fs"), .strRef s, .ev (.key (strBytes "fl")), .numArr .int [a, 7], .ev .objEnd]
  | "EmbF", .struct [fv, _] => customEvents "FV" fv
  | "FS", .int n => some [.ev (.str (strBytes "fs" ++ decBytes n))]
  | "FInts", .nilSlice => some [.ev (.str (strBytes "fi0"))]
  | "FInts", .slice xs => some [.ev (.str (strBytes "fi" ++ decBytes xs.length))]
  | "FMap", .nilMap => some [.ev (.num .int 0)]
  | "FMap", .map ms => some [.ev (.num .int ms.length)]
  | "FOpen", .struct [.int a] => some [.ev (.objStart 1 BT.any), .ev (.key (strBytes "oa")), .ev (.num .int a)]
  | "FP", .nilPtr => some [.ev .null]
  | "FP", .ptr (.struct [.int a]) =>
    some [.ev (.objStart (-1) BT.any), .ev (.key (strBytes "pa")), .ev (.num .i64 a), .ev (.key (strBytes "po")),
          .ev (.objStart 1 BT.any), .ev (.key (strBytes "x")), .ev (.bool true), .ev .objEnd, .ev .objEnd]
  | "FPN", .nilPtr => some [.ev (.str (strBytes "unlimited"))]
  | "FPN", .ptr (.struct [.int a]) => some [.ev (.num .int a)]
  | "UF", .nilPtr => some [.ev .null]
  | "UF", .ptr (.struct [.int d]) => some [.ev (.str (strBytes "uf" ++ decBytes d))]
  | "UO", .nilPtr => some [.ev .null]
  | "UO", .ptr (.struct [.int d, .str _]) =>
    some [.ev (.objStart 1 BT.any), .ev (.key (strBytes "ud")), .ev (.num .int d), .ev .objEnd]
  | "UD", .nilPtr => some [.ev .null]
  | "UD", .ptr (.int n) => some [.ev (.str (strBytes "ud" ++ decBytes n))]
  | "UFM", .nilPtr => some [.ev .null]
  | "UFM", .ptr .nilMap => some [.ev (.str (strBytes "um0"))]
  | "UFM", .ptr (.map ms) => some [.ev (.str (strBytes "um" ++ decBytes ms.length))]
  | "UFP", .nilPtr => some [.ev .null]
  | "UFP", .ptr (.struct [.nilPtr]) => some [.ev (.str (strBytes "up-nil"))]
  | "UFP", .ptr (.struct [.ptr (.int n)]) => some [.ev (.str (strBytes "up" ++ decBytes n))]
  | _, _ => none

/-- `IsZero()` of the menagerie's IsZeroers; `recv` as for `customEvents`. -/
def customIsZero : String → GoVal → Option Bool
  | "ZV", .struct [.int n] => some (n == 0)
  | "EmbZ", .struct [zv, _] => customIsZero "ZV" zv
  | "ZP", .nilPtr => some true
  | "ZP", .ptr (.struct [.int n]) => some (n == 0)
  | "ZInt", .int n => some (n == 0)
  | "ZStr", .str s => some (s == strBytes "zero")
  | "TimeLike", .struct [.int w, .int e] => some (w == 0 && e == 0)
  | "ZInts", .nilSlice => some true
  | "ZInts", .slice [] => some true
  | "ZInts", .slice (.int x :: _) => some (x == 0)
  | "ZMapP", .nilPtr => some true
  | "ZMapP", .ptr .nilMap => some false
  | "ZMapP", .ptr (.map ms) => some (ms.length == 1)
  | "ZArr", .array [.int a, .int b] => some (a == 0 && b == 0)
  | _, _ => none

end SF.Gotype
