/-
  SF.Gotype.Translate — from the type universe of the Fold mirror (`SF.Gotype.GoType`:
  structs with tags, arrays, named menagerie types with method sets, unsupported kinds) into
  the universe of the Unfold mirror (`SF.Unf.GoType`), for the op `fu` (property C11), whose
  one type / value grammar is the one of harness/sfh/gotypes.go.

  * `trType`   : total up to fuel; `none` = outside the common universe (an unknown name) —
                 the model then answers UNMODELLED.  Method sets are dropped (the unfolder
                 never looks at them: no Expander / UnfoldState types in the menagerie), map key
                 types are reduced to "string kind or not", chan / func / complex / uintptr to
                 `other`.
  * `fuTable`  : the named types of the fold menagerie, translated (resolves `ref`).
  * `printFu`  : an unfold-side value in the value syntax of gotypes.go (maps `{s:6b=v}`,
                 sorted by the printed entry; dynamic types `map[string]any`, `[]int8`, …).
-/
import SF.Gotype.Types
import SF.Gotype.UTypes
namespace SF.Unf.Tr
open SF

def isStringKind (t : Gotype.GoType) : Bool := match t.under with | .string => true | _ => false

def trTypeF : Nat → Gotype.GoType → Option Unf.GoType
  | 0, _ => none
  | fuel + 1, t =>
    match t with
    | .bool => some .bool
    | .string => some .string
    | .int k => some (.int (normKind k))
    | .float32 => some .float32
    | .float64 => some .float64
    | .iface => some .ifc
    | .slice e => (trTypeF fuel e).map .slice
    | .array n e => (trTypeF fuel e).map (.array n)
    | .map k e => (trTypeF fuel e).map fun e' => if isStringKind k then .map e' else .imap e'
    | .ptr e => (trTypeF fuel e).map .ptr
    | .struct fs =>
      (fs.mapM fun f => (trTypeF fuel f.typ).map fun t' => (f.name, f.tag, t')).map (.struct "")
    | .named n _ u =>
      match u with
      | .struct fs =>
        (fs.mapM fun f => (trTypeF fuel f.typ).map fun t' => (f.name, f.tag, t')).map (.struct n)
      | u => (trTypeF fuel u).map (.named n)
    | .ref n => some (.ref n)
    | .chan _ => some (.other "chan")
    | .other k => if k.startsWith "unknown" || k == "invalid" then none else some (.other k)

def trType (t : Gotype.GoType) : Option Unf.GoType := trTypeF 200 t

/-- the named types of the fold menagerie -/
def fuTable : TypeTable := fun n => (Gotype.menagerie.lookup n).bind trType

def fuTypeName : Unf.GoType → String
  | .bool => "bool" | .string => "string" | .int k => kindTypeName k
  | .float32 => "float32" | .float64 => "float64" | .ifc => "any"
  | .slice e => "[]" ++ fuTypeName e
  | .map e => "map[string]" ++ fuTypeName e
  | .ptr e => "*" ++ fuTypeName e
  | .array n e => "[" ++ toString n ++ "]" ++ fuTypeName e
  | .imap e => "map[?]" ++ fuTypeName e
  | .other k => k
  | .struct n _ => if n.isEmpty then "struct{…}" else "@" ++ n
  | .named n _ => "@" ++ n
  | .ref n => "@" ++ n

def sortStrs (xs : List String) : List String := (xs.toArray.qsort (· < ·)).toList

mutual
/-- harness PrintValue of the value an unfold-side `GoVal` stands for -/
def printFu : Unf.GoVal → String
  | .bool b => if b then "true" else "false"
  | .str s => "s:" ++ toHex s
  | .int _ v => intToDec v
  | .f32 b => "f:" ++ hexN 8 b.toNat
  | .f64 b => "f:" ++ hexN 16 b.toNat
  | .ifcNil => "nil"
  | .ifc v => "<" ++ fuTypeName v.dynType ++ ">" ++ printFu v
  | .sliceNil _ => "nil"
  | .slice _ es _ => "[" ++ ",".intercalate (printFuList es) ++ "]"
  | .mapNil _ => "nil"
  | .map _ ms => "{" ++ ",".intercalate (sortStrs (printFuMems ms)) ++ "}"
  | .ptrNil _ => "nil"
  | .ptr _ v => "&" ++ printFu v
  | .struct fs => "(" ++ ",".intercalate (printFuList fs) ++ ")"
  | .opaque p => p
  | .invalid => "?"
def printFuList : List Unf.GoVal → List String
  | [] => []
  | v :: r => printFu v :: printFuList r
def printFuMems : List (Bytes × Unf.GoVal) → List String
  | [] => []
  | (k, v) :: r => ("s:" ++ toHex k ++ "=" ++ printFu v) :: printFuMems r
end

end SF.Unf.Tr
