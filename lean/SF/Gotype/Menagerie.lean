/-
  SF.Gotype.Menagerie — hand-written descriptors of the struct types declared in the Go
  harness (harness/sfh/ops_unfold.go: UIn, UIn2, US1, US2, US3, UBadInline, UDup, UArr,
  UIMap).  Op `unf-type` compares `GoType.describe` with what `reflect` reports, on every run.
-/
import SF.Gotype.UTypes
namespace SF.Unf

def tInt : GoType := .int .int

/-- type UIn struct { X int; Y string `struct:"why"` } -/
def tIn : GoType := .struct "In" [("X", "", tInt), ("Y", "why", .string)]

/-- type UIn2 struct { P uint8; Q []interface{}; R map[string]interface{} } -/
def tIn2 : GoType := .struct "In2" [("P", "", .int .u8), ("Q", "", .slice .ifc), ("R", "", .map .ifc)]

def tS1 : GoType := .struct "S1" [
  ("A", "", tInt),
  ("B", "bee", .string),
  ("C", "", .slice (.int .i16)),
  ("D", "", .map (.int .u8)),
  ("E", "", .ifc),
  ("F", "", .float32),
  ("G", "", .bool),
  ("hidden", "", tInt),
  ("H", "", .ptr tInt),
  ("I", "", tIn),
  ("J", "", .ptr tIn),
  ("K", "-", tInt),
  ("L", ",omitempty", .int .u64),
  ("M", "m2,omit", tInt)]

def tS2 : GoType := .struct "S2" [
  ("Ins", "ins", .slice tIn),
  ("Inm", "inm", .map tIn),
  ("PP", "pp", .ptr (.ptr tIn)),
  ("Ps", "ps", .slice (.ptr tIn)),
  ("Pm", "pm", .map (.ptr tIn)),
  ("SS", "ss", .slice (.slice tInt)),
  ("MS", "ms", .map (.slice .string)),
  ("SM", "sm", .slice (.map .ifc)),
  ("MM", "mm", .map (.map tInt))]

def tS3 : GoType := .struct "S3" [
  ("A", "", tInt),
  ("UIn", ",inline", tIn),
  ("Z", ",squash", tIn2),
  ("B", " b2 , omitempty ", .string)]

def tGeo : GoType := .struct "Geo" [("Lat", "", .int .i64), ("Lon", "lon", .int .i32)]
def tMid : GoType := .struct "Mid" [("Port", "", .int .u16), ("Geo", ",inline", tGeo), ("Tail", "tail", .string)]
/-- two levels of inlining, neither inlined struct at offset 0 -/
def tS4 : GoType := .struct "S4" [("ID", "", .int .i64), ("Count", "", .int .i8), ("Mid", ",inline", tMid), ("Last", "", .bool)]

def tEmpty : GoType := .struct "Empty" []

def tBadInline : GoType := .struct "BadInline" [("P", ",inline", .ptr tIn)]
def tDup : GoType := .struct "Dup" [("A", "", tInt), ("B", "a", tInt)]
def tArr : GoType := .struct "Arr" [("A", "", .array 3 tInt)]
def tIMap : GoType := .struct "IMap" [("M", "", .imap .string)]

/-! ### named and self-referential types (phase 2) -/

/-- type UList struct { V int; Next *UList } -/
def tList : GoType := .struct "List" [("V", "", tInt), ("Next", "", .ptr (.ref "List"))]

/-- type UTree struct { Name string; Kids []UTree; M map[string]*UTree; Up **UTree `struct:"up"` } -/
def tTree : GoType := .struct "Tree" [
  ("Name", "", .string), ("Kids", "", .slice (.ref "Tree")), ("M", "", .map (.ptr (.ref "Tree"))),
  ("Up", "up", .ptr (.ptr (.ref "Tree")))]

/-- mutually recursive pair: type UA struct { B *UB; N int }; type UB struct { A *UA; S string; As []UA } -/
def tA : GoType := .struct "A" [("B", "", .ptr (.ref "B")), ("N", "", tInt)]
def tB : GoType := .struct "B" [("A", "", .ptr (.ref "A")), ("S", "", .string), ("As", "", .slice (.ref "A"))]

/-- recursive slice / map types: type URL []URL; type URM map[string]URM -/
def tRL : GoType := .named "RL" (.slice (.ref "RL"))
def tRM : GoType := .named "RM" (.map (.ref "RM"))

/-- a self-referential type that must be refused, and one that has only seen it:
type UBadA struct { B *UBadB; Bad [3]int }; type UBadB struct { A *UBadA; X int } -/
def tBadA : GoType := .struct "BadA" [("B", "", .ptr (.ref "BadB")), ("Bad", "", .array 3 tInt)]
def tBadB : GoType := .struct "BadB" [("A", "", .ptr (.ref "BadA")), ("X", "", tInt)]

/-- named scalars, slices, maps, pointers -/
def tMyInt : GoType := .named "MyInt" (.int .i32)
def tMyStr : GoType := .named "MyStr" .string
def tMyBool : GoType := .named "MyBool" .bool
def tMyF : GoType := .named "MyF" .float64
def tMyU8 : GoType := .named "MyU8" (.int .u8)
def tStrs : GoType := .named "Strs" (.slice .string)
def tMyInts : GoType := .named "MyInts" (.slice (.ref "MyInt"))
def tM : GoType := .named "M" (.map (.ref "MyInt"))
def tMAny : GoType := .named "MAny" (.map .ifc)
def tAnys : GoType := .named "Anys" (.slice .ifc)
def tPInt : GoType := .named "PInt" (.ptr tInt)
def tMyAny : GoType := .named "MyAny" .ifc
def tMyIn : GoType := .named "MyIn" (.ref "In")          -- type UMyIn UIn: a struct type under a second name
def tKM : GoType := .named "KM" (.map tInt)              -- type UKM map[UMyStr]int: a named string key is fine
def tKMS : GoType := .named "KMS" (.map (.ptr (.ref "In")))   -- type UKMS map[UMyStr]*UIn: through the reflection map unfolder

/-- a struct with fields of the named types -/
def tNamed : GoType := .struct "Named" [
  ("I", "", .ref "MyInt"), ("S", "", .ref "MyStr"), ("B", "", .ref "MyBool"), ("F", "", .ref "MyF"),
  ("L", "", .ref "Strs"), ("Is", "", .ref "MyInts"), ("M", "", .ref "M"), ("A", "", .ref "MAny"),
  ("P", "", .ref "PInt"), ("PI", "", .ptr (.ref "MyInt")), ("LI", "", .slice (.ref "MyInt")),
  ("MI", "", .map (.ref "MyU8")), ("Ay", "", .ref "MyAny"), ("In", ",inline", .ref "MyIn"),
  ("K", "", .ref "KM"), ("LL", "", .slice (.ref "Strs"))]

def structTable : StructTable
  | "In" => some tIn | "In2" => some tIn2
  | "S1" => some tS1 | "S2" => some tS2 | "S3" => some tS3 | "S4" => some tS4 | "Empty" => some tEmpty | "Geo" => some tGeo | "Mid" => some tMid
  | "BadInline" => some tBadInline | "Dup" => some tDup | "Arr" => some tArr | "IMap" => some tIMap
  | "List" => some tList | "Tree" => some tTree | "A" => some tA | "B" => some tB
  | "RL" => some tRL | "RM" => some tRM | "BadA" => some tBadA | "BadB" => some tBadB
  | "MyInt" => some tMyInt | "MyStr" => some tMyStr | "MyBool" => some tMyBool | "MyF" => some tMyF
  | "MyU8" => some tMyU8 | "Strs" => some tStrs | "MyInts" => some tMyInts | "M" => some tM
  | "MAny" => some tMAny | "Anys" => some tAnys | "PInt" => some tPInt | "MyAny" => some tMyAny
  | "MyIn" => some tMyIn | "KM" => some tKM | "KMS" => some tKMS | "Named" => some tNamed
  | _ => none

end SF.Unf
