/-
  SF.Gotype.Menagerie — hand-written descriptors of the struct types declared in the Go
  harness (harness/sfh/ops_unfold.go: UIn, UIn2, US1, US2, US3, UBadInline, UDup, UArr,
  UIMap).  Op `unf-type` compares `GoType.describe` with what `reflect` reports, on every run.
-/
import SF.Gotype.UTypes
namespace SF.Unf

def tInt : GoType := .int .int

/-- type UIn struct { X int; Y string `struct:"why"` } -/
def tIn : GoType := .struct "In" [("X", "", tInt), ("Y", "why", .string)]

/-- type UIn2 struct { P uint8; Q []interface{}; R map[string]interface{} } -/
def tIn2 : GoType := .struct "In2" [("P", "", .int .u8), ("Q", "", .slice .ifc), ("R", "", .map .ifc)]

def tS1 : GoType := .struct "S1" [
  ("A", "", tInt),
  ("B", "bee", .string),
  ("C", "", .slice (.int .i16)),
  ("D", "", .map (.int .u8)),
  ("E", "", .ifc),
  ("F", "", .float32),
  ("G", "", .bool),
  ("hidden", "", tInt),
  ("H", "", .ptr tInt),
  ("I", "", tIn),
  ("J", "", .ptr tIn),
  ("K", "-", tInt),
  ("L", ",omitempty", .int .u64),
  ("M", "m2,omit", tInt)]

def tS2 : GoType := .struct "S2" [
  ("Ins", "ins", .slice tIn),
  ("Inm", "inm", .map tIn),
  ("PP", "pp", .ptr (.ptr tIn)),
  ("Ps", "ps", .slice (.ptr tIn)),
  ("Pm", "pm", .map (.ptr tIn)),
  ("SS", "ss", .slice (.slice tInt)),
  ("MS", "ms", .map (.slice .string)),
  ("SM", "sm", .slice (.map .ifc)),
  ("MM", "mm", .map (.map tInt))]

def tS3 : GoType := .struct "S3" [
  ("A", "", tInt),
  ("UIn", ",inline", tIn),
  ("Z", ",squash", tIn2),
  ("B", " b2 , omitempty ", .string)]

def tBadInline : GoType := .struct "BadInline" [("P", ",inline", .ptr tIn)]
def tDup : GoType := .struct "Dup" [("A", "", tInt), ("B", "a", tInt)]
def tArr : GoType := .struct "Arr" [("A", "", .array 3 tInt)]
def tIMap : GoType := .struct "IMap" [("M", "", .imap .string)]

def structTable : StructTable
  | "In" => some tIn | "In2" => some tIn2
  | "S1" => some tS1 | "S2" => some tS2 | "S3" => some tS3
  | "BadInline" => some tBadInline | "Dup" => some tDup | "Arr" => some tArr | "IMap" => some tIMap
  | _ => none

end SF.Unf
