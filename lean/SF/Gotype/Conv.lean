/-
  SF.Gotype.Conv — Go's numeric conversions `T(v)` as the total functions they are on
  amd64 (go1.23), used by the primitive unfolder templates
  (unfold_primitive / unfold_arr / unfold_map .generated.go: `u.assign(ctx, int8(v))` …).

  * integer → integer: two's-complement truncation (`wrapTo`).
  * float → integer (the Go spec leaves out-of-range results implementation-defined; this is
    what the amd64 back end emits, established by probing and tied by the exhaustive
    kind × event enumeration of the correspondence):
      int64/int     CVTTSD2SQ           : trunc(x), or -2^63 if out of range / NaN
      int32         CVTTSD2SL           : trunc(x), or -2^31 if out of range / NaN
      int8/16, uint8/16                 : the int32 result, truncated
      uint32                            : the int64 result, truncated
      uint64/uint   x < 2^63 ? int64(x) : int64(x - 2^63) | 2^63
  * integer → float: correctly rounded (ties to even) — `roundRat`.
  * float64 → float32: correctly rounded, overflow to ±Inf, NaN quieted and payload truncated
    (CVTSD2SS); float32 → float64 exact, NaN quieted (CVTSS2SD).
-/
import SF.Event
import SF.Json.Float
namespace SF.Unf
open SF SF.Json.Float

def kindBits : NumKind → Nat
  | .i8 | .u8 | .byte => 8
  | .i16 | .u16 => 16
  | .i32 | .u32 => 32
  | _ => 64

/-- Go `T(v)` between integer types: keep the low bits, reinterpret -/
def wrapTo (k : NumKind) (v : Int) : Int :=
  let m : Int := (2 : Int) ^ kindBits k
  let r := v % m
  if k.signed && r ≥ m / 2 then r - m else r

/-- a float as an exact value -/
inductive FV
  | nan
  | inf (neg : Bool)
  | fin (neg : Bool) (num den : Nat)        -- (-1)^neg * num/den, den > 0
  deriving Repr, Inhabited

def mkFin (neg : Bool) (m : Nat) (e : Int) : FV :=
  if e ≥ 0 then .fin neg (m <<< e.toNat) 1 else .fin neg m (1 <<< (-e).toNat)

def f64Val (b : UInt64) : FV :=
  let n := b.toNat
  let neg := n >>> 63 == 1
  let e := (n >>> 52) % 2048
  let m := n % 2 ^ 52
  if e == 2047 then (if m == 0 then .inf neg else .nan)
  else if e == 0 then mkFin neg m (-1074)
  else mkFin neg (2 ^ 52 + m) ((e : Int) - 1075)

def f32Val (b : UInt32) : FV :=
  let n := b.toNat
  let neg := n >>> 31 == 1
  let e := (n >>> 23) % 256
  let m := n % 2 ^ 23
  if e == 255 then (if m == 0 then .inf neg else .nan)
  else if e == 0 then mkFin neg m (-149)
  else mkFin neg (2 ^ 23 + m) ((e : Int) - 150)

/-- truncation toward zero; `none` for NaN / ±Inf -/
def FV.trunc : FV → Option Int
  | .nan => none
  | .inf _ => none
  | .fin neg n d => some (if neg then -((n / d : Nat) : Int) else ((n / d : Nat) : Int))

/-- CVTTSD2SQ -/
def cvt64 (x : FV) : Int :=
  match x.trunc with
  | some t => if -9223372036854775808 ≤ t ∧ t ≤ 9223372036854775807 then t else -9223372036854775808
  | none => -9223372036854775808

/-- CVTTSD2SL -/
def cvt32 (x : FV) : Int :=
  match x.trunc with
  | some t => if -2147483648 ≤ t ∧ t ≤ 2147483647 then t else -2147483648
  | none => -2147483648

/-- `x < 2^63` as the hardware comparison sees it (false for NaN) -/
def FV.ltTwo63 : FV → Bool
  | .nan => false
  | .inf neg => neg
  | .fin neg n d => neg || n < 9223372036854775808 * d

/-- Go `T(x)` for a float `x` and an integer type `T` -/
def floatToInt (k : NumKind) (x : FV) : Int :=
  match k with
  | .i64 | .int => cvt64 x
  | .i32 => cvt32 x
  | .i16 | .i8 | .u8 | .byte | .u16 => wrapTo k (cvt32 x)
  | .u32 => wrapTo .u32 (cvt64 x)
  | .u64 | .uint =>
    if x.ltTwo63 then wrapTo .u64 (cvt64 x)
    else
      -- int64(x - 2^63) | 2^63
      match x.trunc with
      | some t => if t < 18446744073709551616 then t else 9223372036854775808
      | none => 9223372036854775808

/-- Go `float64(v)` for an integer v -/
def intToF64 (v : Int) : UInt64 :=
  if v == 0 then 0 else
  let (bits, _) := roundRat float64info v.natAbs 1
  UInt64.ofNat (bits + (if v < 0 then 2 ^ 63 else 0))

/-- Go `float32(v)` for an integer v -/
def intToF32 (v : Int) : UInt32 :=
  if v == 0 then 0 else
  let (bits, _) := roundRat float32info v.natAbs 1
  UInt32.ofNat (bits + (if v < 0 then 2 ^ 31 else 0))

/-- Go `float64(x)` for a float32 x (CVTSS2SD) -/
def f32ToF64 (b : UInt32) : UInt64 :=
  let n := b.toNat
  let sign := if n >>> 31 == 1 then 2 ^ 63 else 0
  match f32Val b with
  | .nan => UInt64.ofNat (sign + 0x7ff8000000000000 + (n % 2 ^ 22) * 2 ^ 29)
  | .inf _ => UInt64.ofNat (sign + 0x7ff0000000000000)
  | .fin _ num den =>
    if num == 0 then UInt64.ofNat sign else
    UInt64.ofNat (sign + (roundRat float64info num den).1)

/-- Go `float32(x)` for a float64 x (CVTSD2SS) -/
def f64ToF32 (b : UInt64) : UInt32 :=
  let n := b.toNat
  let sign := if n >>> 63 == 1 then 2 ^ 31 else 0
  match f64Val b with
  | .nan => UInt32.ofNat (sign + 0x7fc00000 + ((n % 2 ^ 52) >>> 29) % 2 ^ 22)
  | .inf _ => UInt32.ofNat (sign + 0x7f800000)
  | .fin _ num den =>
    if num == 0 then UInt32.ofNat sign else
    UInt32.ofNat (sign + (roundRat float32info num den).1)

end SF.Unf
