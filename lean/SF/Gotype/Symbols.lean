/-
  SF.Gotype.Symbols — mirror of gotype/symbols.go (the unfolder's key cache).

  Go: `symbolCache{m map[string]*symbol; lst symbolList; max int}`; `lst` is an intrusive
  doubly linked ring, oldest entry first.  The model keeps the ring as the list of cached
  keys, oldest first (`lst`), and the map as its key set (`m`); the two are separate fields
  because the Go code updates them separately (their agreement is invariant `Inv`, a
  theorem, not a definition).

  `init max`: after the fix of F28 a capacity `max ≤ 0` leaves the cache disabled
  (`m == nil`).  `enabled` mirrors `c.m != nil`.
-/
import SF.Basic
namespace SF.Symbols

structure Cache where
  enabled : Bool := false          -- c.m != nil
  m : List Bytes := []             -- key set of the map (order irrelevant; kept as inserted)
  lst : List Bytes := []           -- recency ring, oldest first
  max : Int := 0
  deriving Repr, Inhabited, DecidableEq

/-- symbolCache.init -/
def init (max : Int) : Cache :=
  if max ≤ 0 then {} else { enabled := true, m := [], lst := [], max := max }

/-- symbolCache.lookup: a hit moves the entry to the back of the ring -/
def lookup (c : Cache) (k : Bytes) : Cache × Option Bytes :=
  if c.m.contains k then
    ({ c with lst := c.lst.erase k ++ [k] }, some k)
  else (c, none)

/-- symbolList.pop: remove and return the oldest entry (nil on an empty ring) -/
def pop (c : Cache) : Cache × Option Bytes :=
  match c.lst with
  | [] => (c, none)
  | old :: rest => ({ c with lst := rest }, some old)

inductive Outcome (α : Type)
  | ok (a : α)
  | panic
  deriving Repr, DecidableEq

/-- symbolCache.add: at capacity, evict the oldest; `old.value` dereferences nil if the
ring was empty (the F28 crash) -/
def add (c : Cache) (k : Bytes) : Outcome Cache :=
  if (c.m.length : Int) == c.max then
    match pop c with
    | (_, none) => .panic
    | (c', some old) => .ok { c' with m := c'.m.erase old ++ [k], lst := c'.lst ++ [k] }
  else .ok { c with m := c.m ++ [k], lst := c.lst ++ [k] }

/-- symbolCache.get: the string handed to `OnKey` for a by-reference key -/
def get (c : Cache) (k : Bytes) : Outcome (Cache × Bytes) :=
  if !c.enabled then .ok (c, k) else
  match lookup c k with
  | (c', some v) => .ok (c', v)
  | (_, none) =>
    match add c k with
    | .ok c' => .ok (c', k)
    | .panic => .panic

/-- a history of `get`s from a fresh cache: returned strings and final cache -/
def run (c : Cache) : List Bytes → Outcome (Cache × List Bytes)
  | [] => .ok (c, [])
  | k :: ks =>
    match get c k with
    | .panic => .panic
    | .ok (c', v) =>
      match run c' ks with
      | .panic => .panic
      | .ok (c'', vs) => .ok (c'', v :: vs)

/-! ## Specification: the textbook LRU over a list, oldest first -/

def specGet (cap : Nat) (l : List Bytes) (k : Bytes) : List Bytes :=
  if cap = 0 then l
  else if l.contains k then l.erase k ++ [k]
  else if l.length < cap then l ++ [k]
  else l.tail ++ [k]

def specRun (cap : Nat) (l : List Bytes) : List Bytes → List Bytes
  | [] => l
  | k :: ks => specRun cap (specGet cap l k) ks

end SF.Symbols
