/-
  SF.Gotype.UnfoldSpec — SPECIFICATION side of C13 (independent of the mirror in Unfold.lean):

  * `STree`   : the value an event stream describes, keeping what `Val` erases but A.8 needs
                (the Go type of each number event, announced element types).
  * `generic` : DESIGN A.8 — the Go value an `interface{}` target must hold.
  * `assign`  : "assign what matches, convert numbers that fit, leave the rest, skip unknown
                members" as a direct recursion over the target type.  Where the wording leaves
                two readings (an existing element / pointee / map entry is updated in place, or
                replaced by a fresh one) the function takes the reading as a parameter and the
                oracle only claims a result when both readings agree.  `none` = no claim.
  Values are compared up to nil ≙ empty for slices and maps (`norm`).
-/
import SF.Gotype.UTypes
import SF.Gotype.Conv
import SF.Gotype.Unfold
namespace SF.Unf.Spec
open SF SF.Unf

inductive STree
  | sc (s : Sc)
  | arr (bt : Nat) (xs : List STree)
  | obj (bt : Nat) (ms : List (Bytes × STree))
  deriving Inhabited

inductive SFrame
  | arr (bt : Nat) (acc : List STree)
  | obj (bt : Nat) (acc : List (Bytes × STree)) (key : Option Bytes)

structure SState where
  stack : List SFrame := []
  done : List STree := []

def SState.put (st : SState) (v : STree) : Option SState :=
  match st.stack with
  | [] => some { st with done := v :: st.done }
  | .arr bt acc :: rest => some { st with stack := .arr bt (v :: acc) :: rest }
  | .obj bt acc (some k) :: rest => some { st with stack := .obj bt ((k, v) :: acc) none :: rest }
  | .obj _ _ none :: _ => none

def SState.step (st : SState) : Ev → Option SState
  | .null => st.put (.sc .nil)
  | .bool b => st.put (.sc (.bool b))
  | .str s => st.put (.sc (.str s))
  | .num k v => st.put (.sc (.num k v))
  | .f32 b => st.put (.sc (.f32 b))
  | .f64 b => st.put (.sc (.f64 b))
  | .key k =>
    match st.stack with
    | .obj bt acc none :: rest => some { st with stack := .obj bt acc (some k) :: rest }
    | _ => none
  | .arrStart _ bt => some { st with stack := .arr bt [] :: st.stack }
  | .objStart _ bt => some { st with stack := .obj bt [] none :: st.stack }
  | .arrEnd =>
    match st.stack with
    | .arr bt acc :: rest => ({ st with stack := rest } : SState).put (.arr bt acc.reverse)
    | _ => none
  | .objEnd =>
    match st.stack with
    | .obj bt acc none :: rest => ({ st with stack := rest } : SState).put (.obj bt acc.reverse)
    | _ => none

/-- the single document an event stream describes -/
def sbuild (evs : List Ev) : Option STree :=
  let rec go (st : SState) : List Ev → Option SState
    | [] => some st
    | e :: es => match st.step e with
      | none => none
      | some st' => go st' es
  match go {} evs with
  | some st => match st.stack, st.done with
    | [], [v] => some v
    | _, _ => none
  | none => none

/-- the Go element type an announced BaseType stands for (A.8); `none` = interface{} -/
def btElem (bt : Nat) : Option GoType :=
  if bt == BT.byte || bt == BT.uint8 then some (.int .u8)
  else if bt == BT.string then some .string
  else if bt == BT.bool then some .bool
  else if bt == BT.int then some (.int .int)
  else if bt == BT.int8 then some (.int .i8)
  else if bt == BT.int16 then some (.int .i16)
  else if bt == BT.int32 then some (.int .i32)
  else if bt == BT.int64 then some (.int .i64)
  else if bt == BT.uint then some (.int .uint)
  else if bt == BT.uint16 then some (.int .u16)
  else if bt == BT.uint32 then some (.int .u32)
  else if bt == BT.uint64 then some (.int .u64)
  else if bt == BT.float32 then some .float32
  else if bt == BT.float64 then some .float64
  else none

/-- a scalar as a value of exactly its own Go type -/
def scVal : Sc → GoVal
  | .nil => .ifcNil
  | .bool b => .bool b
  | .str s => .str s
  | .num k v => .int (normKind k) v
  | .f32 b => .f32 b
  | .f64 b => .f64 b

def putMember (ms : List (Bytes × GoVal)) (k : Bytes) (v : GoVal) : List (Bytes × GoVal) :=
  if ms.any (·.1 == k) then ms.map fun kv => if kv.1 == k then (k, v) else kv else ms ++ [(k, v)]

mutual
/-- A.8 -/
def generic : STree → GoVal
  | .sc .nil => .ifcNil
  | .sc s => .ifc (scVal s)
  | .arr bt xs =>
    match btElem bt with
    | none => .ifc (.slice .ifc (genericList xs) [])
    | some t => .ifc (.slice t (typedList xs) [])
  | .obj bt ms =>
    match btElem bt with
    | none => .ifc (.map .ifc (genericMems ms []))
    | some t => .ifc (.map t (typedMems ms []))
def genericList : List STree → List GoVal
  | [] => []
  | x :: r => generic x :: genericList r
def genericMems : List (Bytes × STree) → List (Bytes × GoVal) → List (Bytes × GoVal)
  | [], acc => acc
  | (k, x) :: r, acc => genericMems r (putMember acc k (generic x))
/-- elements of a typed container: a well-formed stream delivers only scalars of that type -/
def typedList : List STree → List GoVal
  | [] => []
  | .sc s :: r => scVal s :: typedList r
  | _ :: r => .invalid :: typedList r
def typedMems : List (Bytes × STree) → List (Bytes × GoVal) → List (Bytes × GoVal)
  | [], acc => acc
  | (k, .sc s) :: r, acc => typedMems r (putMember acc k (scVal s))
  | (k, _) :: r, acc => typedMems r (putMember acc k .invalid)
end

mutual
/-- nil ≙ empty; hidden capacity is not part of a value -/
def norm : GoVal → GoVal
  | .ifc v => .ifc (norm v)
  | .slice et es _ => if es.isEmpty then .sliceNil et else .slice et (normList es) []
  | .map et ms => if ms.isEmpty then .mapNil et else .map et (normMems ms)
  | .ptr et v => .ptr et (norm v)
  | .struct fs => .struct (normList fs)
  | v => v
def normList : List GoVal → List GoVal
  | [] => []
  | v :: r => norm v :: normList r
def normMems : List (Bytes × GoVal) → List (Bytes × GoVal)
  | [] => []
  | (k, v) :: r => (k, norm v) :: normMems r
end

def sameVal (a b : GoVal) : Bool := (norm a).print == (norm b).print

/-! ## the struct tag rules for unfolding (tags.go comment, README): exported fields only;
`-` / `omit` drop the field; `inline`/`squash` splices the fields of a struct-typed field;
the member name is the tag name, else the lower-cased field name; `omitempty` has no effect. -/

def specTagName (tag : String) : String := trimSpace ((tag.splitOn ",").headD "")
def specTagOpts (tag : String) : List String := ((tag.splitOn ",").drop 1).map trimSpace

/-- member name ↦ (field index path, type) -/
def specFields (tbl : TypeTable) : Nat → List (String × String × GoType) → Nat → List (Bytes × List Nat × GoType)
  | 0, _, _ => []
  | _ + 1, [], _ => []
  | fuel + 1, (name, tag, t) :: rest, i =>
    let more := specFields tbl fuel rest (i + 1)
    let opts := specTagOpts tag
    if !startsUpper name || specTagName tag == "-" || opts.contains "omit" then more
    else if opts.contains "inline" || opts.contains "squash" then
      match t.un tbl with
      | .struct _ sfs => (specFields tbl fuel sfs 0).map (fun (n, p, ft) => (n, i :: p, ft)) ++ more
      | _ => more
    else
      let n := if specTagName tag != "" then specTagName tag else toLowerAscii name
      (strBytes n, [i], t) :: more

def inRangeOf (k : NumKind) (v : Int) : Bool := k.inRange v

mutual
/-- `assign inPlace t old s`: the value a variable of type `t` holding `old` must hold after
the document `s` was unfolded into it; `inPlace` selects the reading for existing elements /
pointees / entries. -/
def assign (tbl : TypeTable) (inPlace : Bool) : Nat → GoType → GoVal → STree → Option GoVal
  | 0, _, _, _ => none
  | fuel + 1, t, old, s =>
    match t.un tbl, s with
    | .ifc, s => some (generic s)
    | .bool, .sc (.bool b) => some (.bool b)
    | .string, .sc (.str x) => some (.str x)
    | .int k, .sc (.num ek v) => if inRangeOf k v && inRangeOf ek v then some (.int k v) else none
    | .float32, .sc (.f32 b) => some (.f32 b)
    | .float32, .sc (.num _ v) => if v.natAbs ≤ 2 ^ 24 then some (.f32 (intToF32 v)) else none
    | .float64, .sc (.f64 b) => some (.f64 b)
    | .float64, .sc (.f32 b) =>
      match f32Val b with
      | .nan => none
      | _ => some (.f64 (f32ToF64 b))
    | .float64, .sc (.num _ v) => if v.natAbs ≤ 2 ^ 53 then some (.f64 (intToF64 v)) else none
    | .ptr e, .sc .nil => some (.ptrNil e)
    | .ptr e, s =>
      let base := match old with
        | .ptr _ v => if inPlace then v else zero tbl e
        | _ => zero tbl e
      (assign tbl inPlace fuel e base s).map (.ptr e)
    | .slice e, .arr _ xs =>
      let olds := match old with
        | .slice _ es _ => if inPlace then es else []
        | _ => []
      (assignElems tbl inPlace fuel e olds xs).map fun es => .slice e es []
    | .map e, .obj _ ms =>
      let olds := match old with
        | .map _ oms => oms
        | _ => []
      (assignEntries tbl inPlace fuel e olds ms).map (.map e)
    | .struct _ fs, .obj _ ms =>
      match old with
      | .struct ofs => (assignMembers tbl inPlace fuel (specFields tbl (fs.length + 64) fs 0) (.struct ofs) ms)
      | _ => none
    | _, _ => none
def assignElems (tbl : TypeTable) (inPlace : Bool) : Nat → GoType → List GoVal → List STree → Option (List GoVal)
  | 0, _, _, _ => none
  | _ + 1, _, _, [] => some []
  | fuel + 1, e, olds, x :: r =>
    let base := olds.headD (zero tbl e)
    match assign tbl inPlace fuel e base x, assignElems tbl inPlace fuel e (olds.drop 1) r with
    | some v, some vs => some (v :: vs)
    | _, _ => none
def assignEntries (tbl : TypeTable) (inPlace : Bool) : Nat → GoType → List (Bytes × GoVal) → List (Bytes × STree) → Option (List (Bytes × GoVal))
  | 0, _, _, _ => none
  | _ + 1, _, acc, [] => some acc
  | fuel + 1, e, acc, (k, x) :: r =>
    let base := match acc.find? (·.1 == k) with
      | some (_, v) => if inPlace then v else zero tbl e
      | none => zero tbl e
    match assign tbl inPlace fuel e base x with
    | some v => assignEntries tbl inPlace fuel e (putMember acc k v) r
    | none => none
/-- members of an object into a struct value, in stream order; unknown members are skipped -/
def assignMembers (tbl : TypeTable) (inPlace : Bool) : Nat → List (Bytes × List Nat × GoType) → GoVal → List (Bytes × STree) → Option GoVal
  | 0, _, _, _ => none
  | _ + 1, _, cur, [] => some cur
  | fuel + 1, fields, cur, (k, x) :: r =>
    match fields.find? (·.1 == k) with
    | none => assignMembers tbl inPlace fuel fields cur r
    | some (_, path, ft) =>
      let steps := path.map Step.field
      match cur.get steps with
      | none => none
      | some oldF =>
        match assign tbl inPlace fuel ft oldF x with
        | none => none
        | some nv =>
          match cur.set steps nv with
          | none => none
          | some cur' => assignMembers tbl inPlace fuel fields cur' r
end

/-- the claim of C13 for a target of type `t` holding `old`: defined only where both readings
agree -/
def expected (tbl : TypeTable) (t : GoType) (old : GoVal) (s : STree) : Option GoVal :=
  match assign tbl true 100000 t old s, assign tbl false 100000 t old s with
  | some a, some b => if sameVal a b then some a else none
  | _, _ => none

end SF.Unf.Spec
