/-
  SF.Gotype.Rules — the SPECIFICATION of what `gotype.Fold` must emit (property C12),
  written from the documentation only: the comment of `gotype/tags.go` (options
  squash/inline, omit, omitempty, IsZeroer), the README (`struct:"a"`, `struct:",omit"`,
  custom folders), the CHANGELOG (omitempty, IsZeroer #32, Folder on the pointer type #32)
  and the statement of C12 / DESIGN appendix A.7.  It is a recursive definition of the
  VALUE a Go value folds to; it knows nothing of events, fast paths, registries or the
  structure of the mirror (SF.Gotype.Fold).  The only shared pieces are the type / value
  universe and the menagerie's own code (`customEvents`, `customIsZero`: what the user's
  Fold methods / fold functions / IsZero methods do is a parameter of the rules).

  THE RULES
   1. nil pointer / nil interface ↦ null; otherwise a pointer / interface folds as its target.
   2. A type with a registered fold function, or implementing `Folder` on the value or on
      the pointer receiver (whether reached by value or through a pointer), folds to exactly
      what that code emits.
   3. bool, string, integers, floats ↦ the same scalar, numbers exact.  Named types fold as
      their underlying type.
   4. slice / array ↦ array of the folded elements (nil slice = empty); `[]byte` is an array
      of its bytes.
   5. map with a string key kind ↦ object, member order unspecified (nil map = empty);
      any other key type is refused with an error.
   6. struct ↦ object of its fields in declaration order, where a field
        a. is dropped if its name does not start with an upper-case rune, if its tag name is
           `-`, or if it has the option `omit`;
        b. with `inline`/`squash` AND `omitempty` is an error;
        c. with `inline`/`squash` contributes — through pointers, nil ⇒ nothing — the members
           of its struct (by these rules), of its `map[string]T`, or of the object its
           interface value / custom folder folds to (nil interface ⇒ nothing); any other
           kind, and a value that does not fold to an object, is an error;
        d. otherwise is the member `name: value` with name = tag name if non-empty, else
           strings.ToLower(field name);
        e. with `omitempty` is dropped iff it is empty: after following pointers (nil at any
           level ⇒ empty) and interfaces (nil ⇒ empty, else the dynamic value is judged), it
           is a string / slice / array / map of length 0, or its type implements `IsZero()`
           (value or pointer receiver) and IsZero() is true.  Numbers and booleans are never
           empty.
   7. chan, func, complex, uintptr (anywhere in the static type that is not dropped, or as
      a dynamic type) are refused with an error — never a crash (C11).

  READINGS of points the documentation leaves open (each follows the code; recorded here so
  that the oracle demands no more than the documentation says):
   * Tag syntax `name,opt,opt`: white space around the name and the options is ignored; the
     name `-` is recognised only when written exactly `-` (options after it are ignored).
   * 6a/6b precedence: an unexported field and a `-` field are dropped whatever else the tag
     says; `omit` together with inline+omitempty is still the declaration error 6b.
   * 7 is judged on the static type (an empty `[]chan int` is refused), on dynamic types
     when the interface value is reached.  The inside of a type with a custom folder
     (rule 2) is never looked at.
   * NaN payloads: any NaN of the same width counts as "the same number" (Go conversions do
     not promise to keep payloads; the reflection path quiets signalling float32 NaNs).
   * An embedded (anonymous) struct field without tag is an ordinary field named after its
     type; promoted methods count as methods of the embedding type (Go semantics).
   * A custom folder whose output is not one well-formed value (`userCode`) puts no demand
     on Fold.
   * Rule 1 versus rule 2 for a NIL pointer `(*T)(nil)` when the custom folder belongs to the
     POINTER type (a `Fold` method declared on the pointer receiver, or a registered
     `func(*T, ExtVisitor) error`): the documentation says both "nil ⇒ null" and "a value with a
     custom folder folds exactly as that folder emits it".  The code calls the folder with the
     nil pointer (a nil-safe folder may give nil a meaning, e.g. "unlimited"); rule 2 decides.
     For a folder declared on the VALUE receiver the method cannot be called on nil: rule 1.
     A nil `*T` reached by dereferencing another pointer (`**T` holding `&nil`) is reported as
     null by the code ("nil at any level"); both clauses apply, the oracle demands nothing there
     (SF/Ops/Fold.lean `foldOracle`).
   * 6c for a NIL slice / map whose type has a custom folder: the code inlines nothing (nil
     is tested before the folder is called), the documentation is silent: no demand.
  NOT readings: points where the code used to differ from the documentation.  They were kept
  as documented, reported as findings, and are repaired on branch `fold-fixes`:
   * 6e for a string / slice / map / array type with IsZero: `IsZero()==true` ⇒ empty.
   * 6c for a type with a registered fold function: the members of the object that
     function emits (rule 2 decides what the type folds to).
   * rule 1 for a nil pointer to a type whose Folder is declared on the value receiver.
-/
import SF.Gotype.Types
namespace SF.Gotype.Rules
open SF SF.Gotype

inductive RuleErr
  | unsupported | nonStringKey | inlineAndOmitEmpty | inlineNeedsObject
  | userCode               -- a custom folder emitted something that is not one value
  | fuel                   -- the specification's own recursion bound (never reached on sweeps)
  deriving Repr, DecidableEq, Inhabited

/-- a `Val` whose objects remember which runs of members come from a Go map (order
unspecified): an object is a list of segments `(unordered?, members)`. -/
inductive RVal
  | null
  | bool (b : Bool)
  | int (v : Int)
  | f32 (bits : UInt32)
  | f64 (bits : UInt64)
  | str (s : Bytes)
  | arr (xs : List RVal)
  | obj (segs : List (Bool × List (Bytes × RVal)))
  deriving Repr, Inhabited

abbrev Seg := Bool × List (Bytes × RVal)

/-! ## erasure to `Val` (members of unordered segments in the order of the GoVal) -/

def toValF : Nat → RVal → Val
  | 0, _ => .null
  | fuel + 1, v =>
    match v with
    | .null => .null | .bool b => .bool b | .int v => .int v | .f32 b => .f32 b | .f64 b => .f64 b
    | .str s => .str s
    | .arr xs => .arr (xs.map (toValF fuel))
    | .obj segs => .obj (segs.flatMap fun seg => seg.2.map fun (k, x) => (k, toValF fuel x))

def RVal.toVal (v : RVal) : Val := toValF 100000 v

/-- a plain value, all members ordered (what a custom folder emitted) -/
def ofValF : Nat → Val → RVal
  | 0, _ => .null
  | fuel + 1, v =>
    match v with
    | .null => .null | .bool b => .bool b | .int v => .int v | .f32 b => .f32 b | .f64 b => .f64 b
    | .str s => .str s
    | .arr xs => .arr (xs.map (ofValF fuel))
    | .obj ms => .obj (ms.map fun (k, x) => (false, [(k, ofValF fuel x)]))

/-! ## tags -/

structure Tag where
  name : String := ""
  dash : Bool := false
  omit' : Bool := false
  inline : Bool := false
  omitEmpty : Bool := false
  deriving Repr, Inhabited

def trim (s : String) : String :=
  let ws (c : Char) : Bool := c == ' ' || c == '\t' || c == '\n' || c == '\r' || c.toNat == 11 || c.toNat == 12
  String.ofList ((s.toList.dropWhile ws).reverse.dropWhile ws).reverse

def parseTag (raw : String) : Tag :=
  let parts := raw.splitOn ","
  let first := parts.headD ""
  if first == "-" then { dash := true } else
  let opts := (parts.drop 1).map trim
  { name := trim first,
    omit' := opts.contains "omit",
    inline := opts.contains "inline" || opts.contains "squash",
    omitEmpty := opts.contains "omitempty" }

/-! ## custom code (rule 2) -/

/-- the menagerie member whose own code decides what a value of type `t` folds to -/
def customOf (reg : Bool) (t : GoType) : Option (String × Bool) :=      -- (name, code takes the pointer)
  match t.whnf with
  | .named n m _ =>
    if reg && userFoldTypes.contains n then some (n, true)
    else if m.folder == .value then some (n, false)
    else if m.folder == .pointer then some (n, true)
    else none
  | _ => none

/-- what the custom code of `name` emits when it is handed a NIL pointer -/
def customNil (name : String) : Except RuleErr RVal :=
  match customEvents name .nilPtr with
  | none => .error .userCode
  | some xevs =>
    if !WF1 (expandAll xevs) then .error .userCode else
    match build (expandAll xevs) with
    | some val => .ok (ofValF 100000 val)
    | none => .error .userCode

def customValue (name : String) (byPtr : Bool) (v : GoVal) : Except RuleErr RVal :=
  match customEvents name (if byPtr then .ptr v else v) with
  | none => .error .userCode
  | some xevs =>
    if !WF1 (expandAll xevs) then .error .userCode else
    match build (expandAll xevs) with
    | some val => .ok (ofValF 100000 val)
    | none => .error .userCode

def hasIsZero (t : GoType) : Option (String × Bool) :=
  match t.whnf with
  | .named n m _ =>
    if m.isZero == .value then some (n, false)
    else if m.isZero == .pointer then some (n, true)
    else none
  | _ => none

/-! ## rule 7 and the declaration errors, on the static type -/

def isStringKind (t : GoType) : Bool := match t.under with | .string => true | _ => false

mutual
def typeOkF : Nat → Bool → List String → GoType → Except RuleErr Unit
  | 0, _, _, _ => .error .fuel
  | fuel + 1, reg, seen, t =>
    if (customOf reg t).isSome then .ok () else
    match t.menagerieName? with
    | some n =>
      if seen.contains n then .ok () else typeOkF fuel reg (n :: seen) t.under
    | none =>
    match t with
    | .bool | .string | .int _ | .float32 | .float64 | .iface => .ok ()
    | .slice e | .array _ e | .ptr e => typeOkF fuel reg seen e
    | .map k e => if isStringKind k then typeOkF fuel reg seen e else .error .nonStringKey
    | .struct fs => fs.forM (fun f => fieldOkF fuel reg seen f)
    | _ => .error .unsupported
def fieldOkF : Nat → Bool → List String → Field → Except RuleErr Unit
  | 0, _, _, _ => .error .fuel
  | fuel + 1, reg, seen, f =>
    let tag := parseTag f.tag
    if !f.exported || tag.dash then .ok () else
    if tag.inline && tag.omitEmpty then .error .inlineAndOmitEmpty else
    if tag.omit' then .ok () else
    if tag.inline then inlineOkF fuel reg seen f.typ else typeOkF fuel reg seen f.typ
def inlineOkF : Nat → Bool → List String → GoType → Except RuleErr Unit
  | 0, _, _, _ => .error .fuel
  | fuel + 1, reg, seen, t =>
    if (customOf reg t).isSome then .ok () else
    match t.under with
    | .ptr e => inlineOkF fuel reg seen e
    | .struct _ | .map _ _ => typeOkF fuel reg seen t
    | .iface => .ok ()
    | _ => .error .inlineNeedsObject
end

def typeOk (reg : Bool) (t : GoType) : Except RuleErr Unit := typeOkF 1000 reg [] t

/-! ## the value -/

def keyOf : GoVal → Except RuleErr Bytes
  | .str s => .ok s
  | _ => .error .nonStringKey

def lenOf : GoVal → Option Nat
  | .str s => some s.length
  | .nilSlice | .nilMap => some 0
  | .slice xs | .array xs => some xs.length
  | .map ms => some ms.length
  | _ => none

/-- rule 6e -/
def isEmptyF : Nat → GoType → GoVal → Bool
  | 0, _, _ => false
  | fuel + 1, t, v =>
    match t.under, v with
    | .ptr _, .nilPtr => true
    | .ptr e, .ptr x => isEmptyF fuel e x
    | .iface, .nilIface => true
    | .iface, .iface dt dv => isEmptyF fuel dt dv
    | _, _ =>
      (match hasIsZero t with
       | some (n, byPtr) => (customIsZero n (if byPtr then .ptr v else v)).getD false
       | none => false) ||
      (match t.under with
       | .string | .slice _ | .array _ _ | .map _ _ => lenOf v == some 0
       | _ => false)

mutual
def foldF : Nat → Bool → GoType → GoVal → Except RuleErr RVal
  | 0, _, _, _ => .error .fuel
  | fuel + 1, reg, t, v =>
    match customOf reg t with
    | some (n, byPtr) => customValue n byPtr v                     -- rule 2
    | none =>
    match t.under, v with
    | .bool, .bool b => .ok (.bool b)
    | .string, .str s => .ok (.str s)
    | .int _, .int i => .ok (.int i)
    | .float32, .f32 b => .ok (.f32 b)
    | .float64, .f64 b => .ok (.f64 b)
    | .slice _, .nilSlice => .ok (.arr [])
    | .slice e, .slice xs => (xs.mapM (foldF fuel reg e)).map .arr
    | .array _ e, .array xs => (xs.mapM (foldF fuel reg e)).map .arr
    | .map k _, .nilMap => if isStringKind k then .ok (.obj []) else .error .nonStringKey
    | .map k e, .map ms =>
      if !isStringKind k then .error .nonStringKey else
      (ms.mapM fun (kv, x) => do
        let kb ← keyOf kv
        let r ← foldF fuel reg e x
        pure (kb, r)).map fun mems => .obj [(true, mems)]
    | .ptr e, .nilPtr =>
      -- rule 1 — unless the POINTER type itself carries the custom folder (Fold declared on the
      -- pointer receiver, or a registered `func(*T, ExtVisitor)`): then rule 2 decides, the
      -- folder is called with the nil pointer (reading, see the header)
      (match customOf reg e with
       | some (n, true) => customNil n
       | _ => .ok .null)
    | .ptr e, .ptr x => foldF fuel reg e x
    | .iface, .nilIface => .ok .null
    | .iface, .iface dt dv =>
      match typeOk reg dt with
      | .error e => .error e
      | .ok () => foldF fuel reg dt dv
    | .struct fs, .struct vs =>
      ((fs.zip vs).mapM fun (f, x) => fieldF fuel reg f x).map fun (segs : List (List Seg)) => .obj segs.flatten
    | _, _ => .error .unsupported
/-- the segments one struct field contributes (rule 6) -/
def fieldF : Nat → Bool → Field → GoVal → Except RuleErr (List Seg)
  | 0, _, _, _ => .error .fuel
  | fuel + 1, reg, f, v =>
    let tag := parseTag f.tag
    if !f.exported || tag.dash then .ok [] else
    if tag.inline && tag.omitEmpty then .error .inlineAndOmitEmpty else
    if tag.omit' then .ok [] else
    if tag.inline then inlineF fuel reg f.typ v else
    if tag.omitEmpty && isEmptyF 100000 f.typ v then .ok [] else
    let name := if tag.name != "" then strBytes tag.name else strBytes (toLower f.name)
    (foldF fuel reg f.typ v).map fun r => [(false, [(name, r)])]
/-- rule 6c -/
def inlineF : Nat → Bool → GoType → GoVal → Except RuleErr (List Seg)
  | 0, _, _, _ => .error .fuel
  | fuel + 1, reg, t, v =>
    let asObject (r : Except RuleErr RVal) : Except RuleErr (List Seg) :=
      match r with
      | .ok (.obj segs) => .ok segs
      | .ok _ => .error .inlineNeedsObject
      | .error e => .error e
    match customOf reg t with
    | some (n, byPtr) =>
      -- reading: a NIL slice / map of a type with a custom folder in inline position — the
      -- documentation says neither "nothing" (as for a nil pointer / nil map) nor "what the
      -- folder emits": no demand
      (match v with
       | .nilSlice | .nilMap => .error .userCode
       | _ => asObject (customValue n byPtr v))
    | none =>
    match t.under, v with
    | .ptr _, .nilPtr => .ok []
    | .ptr e, .ptr x => inlineF fuel reg e x
    | .struct fs, .struct vs => ((fs.zip vs).mapM fun (f, x) => fieldF fuel reg f x).map List.flatten
    | .map _ _, _ => asObject (foldF fuel reg t v)
    | .iface, .nilIface => .ok []
    | .iface, .iface _ _ => asObject (foldF fuel reg t v)
    | _, _ => .error .inlineNeedsObject
end

/-- the value a Go value of type `T` folds to, object segments kept.  `reg`: the harness'
user fold functions (`userFoldTypes`) are registered with the iterator. -/
def foldR (T : GoType) (v : GoVal) (reg : Bool := true) : Except RuleErr RVal :=
  match typeOk reg T with
  | .error e => .error e
  | .ok () => foldF 100000 reg T v

/-- the specification of C12 -/
def fold (T : GoType) (v : GoVal) (reg : Bool := true) : Except RuleErr Val := (foldR T v reg).map RVal.toVal

/-! ## comparison with the value of the emitted events -/

def isNaN32 (b : UInt32) : Bool := (b &&& 0x7f800000) == 0x7f800000 && (b &&& 0x007fffff) != 0
def isNaN64 (b : UInt64) : Bool :=
  (b &&& 0x7ff0000000000000) == 0x7ff0000000000000 && (b &&& 0x000fffffffffffff) != 0

/-- remove the first element satisfying `p` -/
def takeFirst {α : Type} (p : α → Bool) : List α → Option (List α)
  | [] => none
  | x :: xs => if p x then some xs else (takeFirst p xs).map (x :: ·)

mutual
/-- `want ≃ got`: equal, members of unordered segments as multisets -/
def matchesF : Nat → RVal → Val → Bool
  | 0, _, _ => false
  | fuel + 1, w, g =>
    match w, g with
    | .null, .null => true
    | .bool a, .bool b => a == b
    | .int a, .int b => a == b
    | .f32 a, .f32 b => a == b || (isNaN32 a && isNaN32 b)
    | .f64 a, .f64 b => a == b || (isNaN64 a && isNaN64 b)
    | .str a, .str b => a == b
    | .arr xs, .arr ys => xs.length == ys.length && (xs.zip ys).all fun (x, y) => matchesF fuel x y
    | .obj segs, .obj ms => matchSegsF fuel segs ms
    | _, _ => false
def matchSegsF : Nat → List Seg → List (Bytes × Val) → Bool
  | 0, _, _ => false
  | fuel + 1, segs, ms =>
    match segs with
    | [] => ms.isEmpty
    | (unordered, mems) :: rest =>
      let n := mems.length
      if ms.length < n then false else
      let mine := ms.take n
      (if unordered then bagF fuel mems mine
       else (mems.zip mine).all fun ((k, w), (l, g)) => k == l && matchesF fuel w g) &&
      matchSegsF fuel rest (ms.drop n)
/-- every observed member uses up one wanted member with the same key and a matching value -/
def bagF : Nat → List (Bytes × RVal) → List (Bytes × Val) → Bool
  | 0, _, _ => false
  | fuel + 1, want, got =>
    match got with
    | [] => want.isEmpty
    | (l, g) :: gs =>
      match takeFirst (fun (k, w) => k == l && matchesF fuel w g) want with
      | some want' => bagF fuel want' gs
      | none => false
end

def agrees (want : RVal) (got : Val) : Bool := matchesF 100000 want got

mutual
/-- equality of two values up to the order of object members at every level (used only to
compare two runs whose Go map iteration orders differ) -/
def sameF : Nat → Val → Val → Bool
  | 0, _, _ => false
  | fuel + 1, a, b =>
    match a, b with
    | .arr xs, .arr ys => xs.length == ys.length && (xs.zip ys).all fun (x, y) => sameF fuel x y
    | .obj xs, .obj ys => sameBagF fuel xs ys
    | .f32 x, .f32 y => x == y || (isNaN32 x && isNaN32 y)
    | .f64 x, .f64 y => x == y || (isNaN64 x && isNaN64 y)
    | a, b => a == b
def sameBagF : Nat → List (Bytes × Val) → List (Bytes × Val) → Bool
  | 0, _, _ => false
  | fuel + 1, xs, ys =>
    match ys with
    | [] => xs.isEmpty
    | (l, g) :: gs =>
      match takeFirst (fun (k, w) => k == l && sameF fuel w g) xs with
      | some xs' => sameBagF fuel xs' gs
      | none => false
end

def sameUpToMapOrder (a b : Val) : Bool := sameF 100000 a b

end SF.Gotype.Rules
