/-
  SF.Gotype.Fold — executable mirror of `gotype.Fold` (gotype/fold.go, fold_reflect.go,
  fold_inline.go, fold_map.go, fold_arr.go, fold_primitives.go, fold_user.go, fold_opts.go,
  fold_map_inline.generated.go, fold_refl_sel.generated.go, tags.go, visitors/expect_obj.go,
  and the adapters array.go / map.go / string.go as far as fold reaches them), as of the
  tree with the fixes F18, F32, F33 and the fold fixes of branch `fold-fixes`:
  IsZero on the pointer receiver (resolveIsZeroerPtr reports the value), IsZero honoured for
  string / slice / map / array kinds, nil pointer to a value-receiver Folder folds as nil
  (isNilValueFolder), embeddObjReFold allocates its ExpectObjVisitor per use, the registered
  fold function decides what an inline field contributes (fieldFoldGenInline), forwarding
  registry entries make recursive types compile (getReflectFold, buildFieldFoldInline).

  Structure of the mirror
  * `reflect` is replaced by the universe of SF.Gotype.Types; a `reflect.Value` is an `RV`
    (value read at a type).  Every reflect call that would panic on a value of the wrong
    kind is a guarded match whose fallback is `Res.panic`.
  * Go compiles a type into a closure (`reFoldFn`) first and runs the closure afterwards.
    The mirror keeps the two phases: `getReflectFold …` build a `ReFold` term (one
    constructor per Go closure-building function), `run` interprets it.  Errors of the
    compile phase therefore arrive before any event of the value, exactly as in Go.
  * The visitor is the event log in `St` plus the fault index `failAt` (the visitor returns
    an error from its k-th call on; every call — basic or extended — is ONE event).
  * `foldContext.visitor` is either the user's visitor (`VisRef.user`) or
    `EnsureExtVisitor(ExpectObjVisitor)` (`VisRef.exp id`), created by `embeddObjReFold`
    for inline fields of interface / Folder / user-folder types: one fresh visitor per use
    (`St.vss`, `St.nextVs`), whose target is the visitor of the calling context.
  * Per-iterator type registry (`typeFoldRegistry`): a cache of compiled closures keyed by
    (type, inline).  Compilation is a function of the type alone, and a failed compilation
    leaves nothing behind (failed compilations were never cached; since the F23 fix the
    entries added during a failed outermost compilation are removed again), so the cache
    cannot change what is compiled and holds no mutable state: a reused iterator behaves
    like a fresh one (op `fold-seq` checks this).  The registry is observable in one way,
    which is modelled: while a type is being compiled it already has an entry, a folder
    forwarding to the folder under construction.  That is what lets a recursive type
    compile: the mirror carries the set of types under compilation (`Open`) and compiles a
    reference to one of them to `ReFold.forward` / `ReFold.forwardInline`, which `run`
    resolves by compiling the type again (same term, compilation is deterministic).
  * Go map iteration order: the fold takes map entries in the order given by `FoldOpts.order`
    (the events the implementation was observed to deliver: guided replay), falling back to
    the order of the association list.  Comparison with the harness is therefore byte-exact
    for maps of any size.
  * Recursion that is not structural (type terms with `ref`, values, visitor chains) takes
    fuel; exhausted fuel is `Res.fatal` (a Go stack overflow).  No type of the universe and
    no finite value reaches it any more.
  Not modelled: addressability (`CanAddr`; only aliasing depends on it), the `unsafe`
  pointer casts of fold_user.go / fold_map_inline (they reinterpret, never convert),
  options errors of `NewIterator` (`Fold` swallows them).
-/
import SF.Gotype.Types
namespace SF.Gotype.Fold
open SF SF.Gotype

/-- Go error variables that fold can return -/
inductive Err
  | injected                 -- the error returned by the (failing) visitor
  | unsupported              -- errUnsupported
  | mapRequiresStringKey     -- errMapRequiresStringKey
  | squashNeedObject         -- errSquashNeedObject
  | inlineAndOmitEmpty       -- errInlineAndOmitEmpty
  | expectedObjectClose      -- errExpectedObjectClose
  | inlineNoObject           -- visitors/expect_obj.go: "inline object is no object"
  deriving DecidableEq, Repr, Inhabited

inductive Res
  | ok
  | err (e : Err)
  | panic                    -- a recoverable Go panic
  | fatal                    -- unbounded recursion: the Go runtime dies (stack overflow)
  deriving DecidableEq, Repr, Inhabited

structure Outcome where
  evs : List XEv             -- events delivered to the visitor, in order
  res : Res
  deriving Inhabited

structure FoldOpts where
  failAt : Option Nat := none      -- the visitor fails from this call index on (C16)
  order : List XEv := []           -- observed events: oracle for Go's map iteration order
  folders : Bool := true           -- gotype.Folders(foldUF, foldUO, foldUD) installed
  deriving Inhabited

/-- identity of one ExpectObjVisitor (embeddObjReFold allocates one per use) -/
abbrev VsId := Nat

/-- foldContext.visitor -/
inductive VisRef
  | user                           -- the visitor given to NewIterator
  | exp (id : VsId)                -- EnsureExtVisitor(ExpectObjVisitor id)
  deriving DecidableEq, Repr, Inhabited

/-- visitors.ExpectObjVisitor -/
structure Vs where
  active : Option VisRef := none
  depth : Int := 0
  deriving Repr, Inhabited

structure St where
  evs : List XEv := []             -- newest first
  n : Nat := 0
  failAt : Option Nat := none
  hint : List XEv := []            -- observed events not yet matched (map order oracle)
  vss : List (VsId × Vs) := []     -- the ExpectObjVisitors allocated so far
  nextVs : Nat := 0
  deriving Inhabited

def St.getVs (s : St) (id : VsId) : Vs := (s.vss.lookup id).getD { active := none, depth := 0 }
def St.setVs (s : St) (id : VsId) (v : Vs) : St :=
  { s with vss := (id, v) :: s.vss.filter (·.1 != id) }

/-! ## the visitor side -/

/-- entries reordered like `keys` (keys not mentioned keep their order, at the end) -/
def orderLike {α : Type} (keys : List Bytes) (ms : List (Bytes × α)) : List (Bytes × α) :=
  keys.filterMap (fun k => ms.find? (·.1 == k)) ++ ms.filter (fun m => !keys.contains m.1)

/-- a typed map reaches the recorder as a Go map; the recorder prints it in the order of its
own `range`: take that order from the observed token -/
def reorderByHint (s : St) (x : XEv) : XEv :=
  match x, s.hint with
  | .boolObj ms, .boolObj hs :: _ => .boolObj (orderLike (hs.map (·.1)) ms)
  | .strObj ms, .strObj hs :: _ => .strObj (orderLike (hs.map (·.1)) ms)
  | .numObj k ms, .numObj _ hs :: _ => .numObj k (orderLike (hs.map (·.1)) ms)
  | .f32Obj ms, .f32Obj hs :: _ => .f32Obj (orderLike (hs.map (·.1)) ms)
  | .f64Obj ms, .f64Obj hs :: _ => .f64Obj (orderLike (hs.map (·.1)) ms)
  | x, _ => x

/-- one call on the user's visitor: log it, fail if the fault index is reached -/
def deliver (s : St) (x : XEv) : St × Res :=
  let i := s.n
  let s' := { s with evs := reorderByHint s x :: s.evs, n := s.n + 1, hint := s.hint.drop 1 }
  match s.failAt with
  | some k => if i ≥ k then (s', .err .injected) else (s', .ok)
  | none => (s', .ok)

/-- run `step` over a list, stop at the first result that is not `ok` -/
def seqM {α : Type} (step : St → α → St × Res) : St → List α → St × Res
  | s, [] => (s, .ok)
  | s, x :: xs =>
    match step s x with
    | (s, .ok) => seqM step s xs
    | r => r

def hintKey? (s : St) : Option Bytes :=
  match s.hint with
  | .ev (.key k) :: _ => some k
  | .keyRef k :: _ => some k
  | _ => none

/-- `for k, v := range m`: the next entry is the one whose key the implementation was
observed to deliver next, else the first remaining one -/
def pickEntry {α : Type} (s : St) (es : List (Bytes × α)) : Option ((Bytes × α) × List (Bytes × α)) :=
  match es with
  | [] => none
  | e :: rest =>
    match hintKey? s with
    | some k =>
      match es.find? (·.1 == k) with
      | some e' => some (e', es.eraseP (·.1 == k))
      | none => some (e, rest)
    | none => some (e, rest)

def rangeM {α : Type} (step : St → Bytes × α → St × Res) : Nat → St → List (Bytes × α) → St × Res
  | 0, s, _ => (s, .ok)
  | n + 1, s, es =>
    match pickEntry s es with
    | none => (s, .ok)
    | some (e, rest) =>
      match step s e with
      | (s, .ok) => rangeM step n s rest
      | r => r

/-- members of a typed map as (key event, value event) pairs (map.go) -/
def objMembers : XEv → Option (Nat × List (Bytes × Ev))
  | .boolObj ms => some (BT.bool, ms.map fun m => (m.1, .bool m.2))
  | .strObj ms => some (BT.string, ms.map fun m => (m.1, .str m.2))
  | .numObj k ms => some (k.baseType, ms.map fun m => (m.1, .num k m.2))
  | .f32Obj ms => some (BT.float32, ms.map fun m => (m.1, .f32 m.2))
  | .f64Obj ms => some (BT.float64, ms.map fun m => (m.1, .f64 m.2))
  | _ => none

/-- deliver one event to a `foldContext.visitor`.
`.user`: the recorder.  `.exp id`: `extVisitor{ExpectObjVisitor}` — typed arrays / maps are
expanded by array.go / map.go into calls on the ExpectObjVisitor (visitors/expect_obj.go),
which swallows the outermost object start / finish, refuses everything else at depth 0
(`check`) and forwards the rest to `active`.  Fuel bounds the length of the forwarding
chain; a visitor that is its own target never terminates (`fatal`). -/
def visit : Nat → St → VisRef → XEv → St × Res
  | 0, s, _, _ => (s, .fatal)
  | _ + 1, s, .user, x => deliver s x
  | fuel + 1, s, .exp id, x =>
    let vs := s.getVs id
    let forward (s : St) (x : XEv) : St × Res :=
      match vs.active with
      | none => (s, .panic)                      -- nil interface method call
      | some c => visit fuel s c x
    match x with
    | .ev (.objStart _ _) =>                     -- OnObjectStart
      let s := s.setVs id { vs with depth := vs.depth + 1 }
      if vs.depth + 1 == 1 then (s, .ok) else forward s x
    | .ev .objEnd =>                             -- OnObjectFinished
      let s := s.setVs id { vs with depth := vs.depth - 1 }
      if vs.depth - 1 == 0 then (s, .ok) else forward s x
    | .ev _ | .strRef _ | .keyRef _ =>           -- every other method: check(), forward
      if vs.depth == 0 then (s, .err .inlineNoObject) else forward s x
    | x =>
      match objMembers x with
      | some (bt, ms) =>                         -- map.go extObjVisitor
        match visit fuel s (.exp id) (.ev (.objStart ms.length bt)) with
        | (s, .ok) =>
          match rangeM (fun s m =>
              match visit fuel s (.exp id) (.ev (.key m.1)) with
              | (s, .ok) => visit fuel s (.exp id) (.ev m.2)
              | r => r) ms.length s ms with
          | (s, .ok) => visit fuel s (.exp id) (.ev .objEnd)
          | r => r
        | r => r
      | none =>                                  -- array.go extArrVisitor
        seqM (fun s e => visit fuel s (.exp id) (.ev e)) s x.expand

def visitFuel : Nat := 10000

def emit (s : St) (c : VisRef) (x : XEv) : St × Res := visit visitFuel s c x

/-! ## tags.go -/

structure TagOpts where
  squash : Bool := false
  omitEmpty : Bool := false
  omitF : Bool := false          -- `omit`
  deriving Repr, Inhabited

def isSpace (c : Char) : Bool :=
  c == ' ' || c == '\t' || c == '\n' || c == '\r' || c.toNat == 0x0b || c.toNat == 0x0c

/-- strings.TrimSpace (ASCII) -/
def trimSpace (s : String) : String :=
  String.ofList ((s.toList.dropWhile isSpace).reverse.dropWhile isSpace).reverse

/-- parseTags -/
def parseTags (tag : String) : String × TagOpts :=
  match tag.splitOn "," with
  | [] => ("", {})
  | s0 :: rest =>
    if s0 == "-" then ("", { omitF := true }) else
    let opts := rest.foldl (fun (o : TagOpts) opt =>
      let t := trimSpace opt
      if t == "squash" || t == "inline" then { o with squash := true }
      else if t == "omitempty" then { o with omitEmpty := true }
      else if t == "omit" then { o with omitF := true }
      else o) {}
    (trimSpace s0, opts)

/-! ## primitives (fold_primitives.go, fold_arr.go, fold_map.go) -/

inductive Prim
  | bool | string | num (k : NumKind) | f32 | f64
  deriving DecidableEq, Repr, Inhabited

/-- the unnamed basic type itself (an exact `reflect.Type` / type-switch match) -/
def primOf? : GoType → Option Prim
  | .bool => some .bool | .string => some .string | .int k => some (.num k)
  | .float32 => some .f32 | .float64 => some .f64
  | _ => none

def isNaN32 (b : UInt32) : Bool := (b &&& 0x7f800000) == 0x7f800000 && (b &&& 0x007fffff) != 0

/-- `float32(v.Float())`: float32 → float64 → float32 quiets a signalling NaN (amd64) -/
def quiet32 (b : UInt32) : UInt32 := if isNaN32 b then b ||| 0x00400000 else b

/-- foldX (`viaReflect = false`) / reFoldX (`true`): `int` is reported through OnInt64 -/
def primEv (viaReflect : Bool) : Prim → GoVal → Option XEv
  | .bool, .bool b => some (.ev (.bool b))
  | .string, .str s => some (.ev (.str s))
  | .num k, .int v => some (.ev (.num (if k == .int then .i64 else k) v))
  | .f32, .f32 b => some (.ev (.f32 (if viaReflect then quiet32 b else b)))
  | .f64, .f64 b => some (.ev (.f64 b))
  | _, _ => none

/-- the C.OnX(v) of foldMapInlineX: `int` through OnInt -/
def elemEv : Prim → GoVal → Option XEv
  | .bool, .bool b => some (.ev (.bool b))
  | .string, .str s => some (.ev (.str s))
  | .num k, .int v => some (.ev (.num k v))
  | .f32, .f32 b => some (.ev (.f32 b))
  | .f64, .f64 b => some (.ev (.f64 b))
  | _, _ => none

def asBool : GoVal → Option Bool | .bool b => some b | _ => none
def asInt : GoVal → Option Int | .int v => some v | _ => none
def asF32 : GoVal → Option UInt32 | .f32 b => some b | _ => none
def asF64 : GoVal → Option UInt64 | .f64 b => some b | _ => none
def asStr : GoVal → Option Bytes | .str s => some s | _ => none

/-- foldArrX: OnXArray(v.([]X)); `bytes`: `[]byte` through foldBytes (OnBytes) -/
def arrEv (bytes : Bool) (p : Prim) (xs : List GoVal) : Option XEv :=
  match p with
  | .bool => (allSome (xs.map asBool)).map .boolArr
  | .string => (allSome (xs.map asStr)).map .strArr
  | .num k => (allSome (xs.map asInt)).map (.numArr (if bytes && k == .u8 then .byte else k))
  | .f32 => (allSome (xs.map asF32)).map .f32Arr
  | .f64 => (allSome (xs.map asF64)).map .f64Arr

def entries {α : Type} (f : GoVal → Option α) (ms : List (GoVal × GoVal)) : Option (List (Bytes × α)) :=
  allSome (ms.map fun (k, v) => match asStr k, f v with
    | some kb, some x => some (kb, x)
    | _, _ => none)

/-- foldMapX: OnXObject(v.(map[string]X)) -/
def objEv (p : Prim) (ms : List (GoVal × GoVal)) : Option XEv :=
  match p with
  | .bool => (entries asBool ms).map .boolObj
  | .string => (entries asStr ms).map .strObj
  | .num k => (entries asInt ms).map (.numObj k)
  | .f32 => (entries asF32 ms).map .f32Obj
  | .f64 => (entries asF64 ms).map .f64Obj

def sliceElems? : GoVal → Option (List GoVal)
  | .nilSlice => some [] | .slice xs => some xs | _ => none
def mapEntries? : GoVal → Option (List (GoVal × GoVal))
  | .nilMap => some [] | .map ms => some ms | _ => none

/-- reflect.Value.Len -/
def len? : GoVal → Option Nat
  | .str s => some s.length
  | .nilSlice | .nilMap => some 0
  | .slice xs | .array xs => some xs.length
  | .map ms => some ms.length
  | _ => none

/-- isNilValue (fold_inline.go) -/
def isNilValue (rv : RV) : Bool :=
  match rv.v with
  | .nilPtr | .nilMap | .nilSlice | .nilIface | .nilOther => true
  | _ => false

/-! ## compiled folders -/

/-- makeResolveNonEmptyValue's resolvers -/
inductive Resolver
  | bySize | isZeroer | isZeroerPtr | interfaceLazy
  | pointers (n : Nat)                       -- makeResolvePointers
  deriving Repr, Inhabited

/-- a compiled `reFoldFn`: one constructor per closure-building Go function -/
inductive ReFold
  | prim (p : Prim)                          -- reFoldBool … reFoldString
  | arrPrim (p : Prim)                       -- reFoldArrX = liftFold(foldArrX)
  | mapPrim (p : Prim)                       -- reFoldMapX = liftFold(foldMapX)
  | folderIfc                                -- reFoldFolderIfc
  | userPtr (name : String)                  -- liftUserPtrFn(f)
  | userVal (name : String)                  -- liftUserValueFn(f)
  | pointer (n : Nat) (elem : ReFold)        -- makePointerFold
  | inlinePointer (n : Nat) (elem : ReFold)  -- makeInlinePointerFold
  | structFold (fields : List ReFold) (count : Int)   -- makeStructFold
  | fieldsFold (fields : List ReFold)        -- makeFieldsFold
  | field (name : Bytes) (idx : Nat) (fn : ReFold)    -- makeFieldFold
  | fieldInline (idx : Nat) (fn : ReFold)    -- makeFieldInlineFold
  | nonEmptyField (name : Bytes) (idx : Nat) (rs : List Resolver) (fn : ReFold)  -- makeNonEmptyFieldFold
  | mapFold (iter : ReFold)                  -- closure of getReflectFoldMap
  | mapKeys (elem : ReFold)                  -- makeMapKeysFold
  | mapInline (p : Option Prim)              -- foldMapInlineX; none = foldMapInlineInterface
  | slice (elem : ReFold)                    -- closure of getReflectFoldSlice
  | ifaceElem                                -- foldInterfaceElem
  | embedd (obj : ReFold)                    -- embeddObjReFold
  | inlineIface                              -- closure of getReflectFoldInlineInterface
  | forward (t : GoType)                     -- getReflectFold: registry entry of a type under compilation
  | forwardInline (t : GoType)               -- buildFieldFoldInline: the same for the (type, inline) key
  deriving Repr, Inhabited

/-- C.userReg[t] / the entries NewIterator puts into the registry (makeUserFoldFns:
`M[*T] = liftUserPtrFn`, `M[T] = liftUserValueFn`) -/
def userReg (o : FoldOpts) (t : GoType) : Option ReFold :=
  if !o.folders then none else
  match t.whnf with
  | .named n _ _ => if userFoldTypes.contains n then some (.userVal n) else none
  | .ptr e =>
    match e.whnf with
    | .named n _ _ => if userFoldTypes.contains n then some (.userPtr n) else none
    | _ => none
  | _ => none

/-- getReflectFoldPrimitive: `_reflPrimitivesMapping[t]`, keyed by the exact type -/
def getReflectFoldPrimitive (t : GoType) : Option ReFold :=
  match t with
  | .slice e => (primOf? e).map .arrPrim
  | .map .string e => (primOf? e).map .mapPrim
  | t => (primOf? t).map .prim

/-- getReflectFoldPrimitiveKind: by kind, named types included -/
def getReflectFoldPrimitiveKind (t : GoType) : Except Res ReFold :=
  match primOf? t.under with
  | some p => .ok (.prim p)
  | none => .error (.err .unsupported)

/-- makePointerFold / makeInlinePointerFold -/
def makePointerFold (n : Nat) (elem : ReFold) : ReFold := if n == 0 then elem else .pointer n elem
def makeInlinePointerFold (n : Nat) (elem : ReFold) : ReFold := if n == 0 then elem else .inlinePointer n elem

def isPtrKind (t : GoType) : Bool := match t.under with | .ptr _ => true | _ => false

/-- makeResolveNonEmptyValue: the chain of resolvers for a field type -/
def makeResolveNonEmptyValue (st : GoType) : List Resolver :=
  let (n, bt) := baseType st
  (if isPtrKind st then [.pointers n] else []) ++
  (let isZeroers : List Resolver :=
     if implementsIsZeroer bt then [.isZeroer]
     else if implementsPtrIsZeroer bt then [.isZeroerPtr]
     else []
   match bt.under with
   | .iface => [.interfaceLazy]
   | .map _ _ | .string | .slice _ | .array _ _ => .bySize :: isZeroers   -- `fallthrough`
   | _ => isZeroers)

/-- structFoldLen: -1 when any field is (not omitted and) omitempty or inline -/
def structFoldLen (fs : List Field) (fields : Nat) : Int :=
  if fs.any (fun f => let o := (parseTags f.tag).2; !o.omitF && (o.squash || o.omitEmpty)) then -1 else fields

/-- the registry entries that exist only while a compilation is running: the types (by
menagerie name — only named types can refer to themselves) whose folder / inline folder is
under construction and reachable through a forwarding entry -/
structure Open where
  norm : List String := []        -- keys (type, inline = false)
  inl : List String := []         -- keys (type, inline = true)
  deriving Inhabited

def Open.enter (op : Open) (t : GoType) : Open :=
  match t.menagerieName? with
  | some n => { op with norm := n :: op.norm }
  | none => op

mutual
/-- getReflectFold.  `c.reg.find(t)` is a cache hit (same result) except for the user
folders, which NewIterator stores in the registry, and for a type under compilation, whose
entry forwards to the folder under construction. -/
def getReflectFold : Nat → FoldOpts → Open → GoType → Except Res ReFold
  | 0, _, _, _ => .error .fatal
  | fuel + 1, o, op, t =>
    let t := t.whnf
    match userReg o t with
    | some f => .ok f
    | none =>
    if (t.menagerieName?.map op.norm.contains).getD false then .ok (.forward t) else
    match getReflectFoldPrimitive t with
    | some f => .ok f
    | none =>
    if implementsFolder t || implementsPtrFolder t then .ok .folderIfc else
    let op := op.enter t                             -- c.reg.set(t, forwarding folder)
    match t.under with
    | .ptr _ => getFoldPointer fuel o op t
    | .struct fs => getReflectFoldStruct fuel o op fs false
    | .map _ _ => getReflectFoldMap fuel o op t
    | .slice _ | .array _ _ => getReflectFoldSlice fuel o op t
    | .iface => .ok .ifaceElem                       -- getReflectFoldElem
    | _ => getReflectFoldPrimitiveKind t

/-- getFoldPointer -/
def getFoldPointer : Nat → FoldOpts → Open → GoType → Except Res ReFold
  | 0, _, _, _ => .error .fatal
  | fuel + 1, o, op, t =>
    let (n, bt) := baseType t
    match getReflectFold fuel o op bt with
    | .error e => .error e
    | .ok elem => .ok (makePointerFold n elem)

/-- getReflectFoldStruct (with getStructFieldsFolds inlined as the `mapM`) -/
def getReflectFoldStruct : Nat → FoldOpts → Open → List Field → Bool → Except Res ReFold
  | 0, _, _, _, _ => .error .fatal
  | fuel + 1, o, op, fs, inline =>
    match fs.zipIdx.mapM (fun (f, i) => buildFieldFold fuel o op f i) with
    | .error e => .error e
    | .ok fvs =>
      let fields := fvs.filterMap id
      if inline then .ok (.fieldsFold fields)
      else .ok (.structFold fields (structFoldLen fs fields.length))

/-- buildFieldFold; `none` = the field is ignored -/
def buildFieldFold : Nat → FoldOpts → Open → Field → Nat → Except Res (Option ReFold)
  | 0, _, _, _, _ => .error .fatal
  | fuel + 1, o, op, st, idx =>
    if !st.exported then .ok none else               -- ignore non exported fields
    let (tagName, tagOpts) := parseTags st.tag
    if tagOpts.squash && tagOpts.omitEmpty then .error (.err .inlineAndOmitEmpty) else
    if tagOpts.omitF then .ok none else
    if tagOpts.squash then (buildFieldFoldInline fuel o op st idx).map some else
    let foldT := if tagOpts.omitEmpty then (baseType st.typ).2 else st.typ
    match getReflectFold fuel o op foldT with
    | .error e => .error e
    | .ok valueVisitor =>
      let name := if tagName != "" then strBytes tagName else strBytes (toLower st.name)
      if tagOpts.omitEmpty then
        -- makeNonEmptyFieldFold
        let rs := makeResolveNonEmptyValue st.typ
        if rs.isEmpty then .ok (some (.field name idx valueVisitor))
        else .ok (some (.nonEmptyField name idx rs valueVisitor))
      else .ok (some (.field name idx valueVisitor))

/-- buildFieldFoldInline.  Registry lookups are cache hits, except `findInline(bt)` for a
type whose inline folder is under construction: the forwarding entry. -/
def buildFieldFoldInline : Nat → FoldOpts → Open → Field → Nat → Except Res ReFold
  | 0, _, _, _, _ => .error .fatal
  | fuel + 1, o, op, st, idx =>
    let (n, bt) := baseType st.typ
    let name? := bt.whnf.menagerieName?
    if (name?.map op.inl.contains).getD false then
      .ok (.fieldInline idx (makeInlinePointerFold n (.forwardInline bt)))
    else
    let op := match name? with                       -- C.reg.setInline(bt, forwarding folder)
      | some nm => { op with inl := nm :: op.inl }
      | none => op
    match fieldFoldGenInline fuel o op bt with
    | .error e => .error e
    | .ok baseVisitor => .ok (.fieldInline idx (makeInlinePointerFold n baseVisitor))

/-- fieldFoldGenInline -/
def fieldFoldGenInline : Nat → FoldOpts → Open → GoType → Except Res ReFold
  | 0, _, _, _ => .error .fatal
  | fuel + 1, o, op, t =>
    let t := t.whnf
    match userReg o t with                           -- C.userReg[t]
    | some f => .ok (.embedd f)
    | none =>
    if implementsFolder t || implementsPtrFolder t then .ok (.embedd .folderIfc) else
    match t.under with
    | .struct fs => getReflectFoldStruct fuel o op fs true
    | .map _ _ => getReflectFoldMapKeys fuel o op t
    | .iface => .ok (.embedd .inlineIface)           -- getReflectFoldInlineInterface
    | _ => .error (.err .squashNeedObject)

/-- getReflectFoldMap -/
def getReflectFoldMap : Nat → FoldOpts → Open → GoType → Except Res ReFold
  | 0, _, _, _ => .error .fatal
  | fuel + 1, o, op, t =>
    match getReflectFoldMapKeys fuel o op t with
    | .error e => .error e
    | .ok iterVisitor => .ok (.mapFold iterVisitor)

/-- getReflectFoldMapKeys (fold_inline.go) with getMapInlineByPrimitiveElem -/
def getReflectFoldMapKeys : Nat → FoldOpts → Open → GoType → Except Res ReFold
  | 0, _, _, _ => .error .fatal
  | fuel + 1, o, op, t =>
    match t.key.under with
    | .string =>
      match t.elem with
      | .iface => .ok (.mapInline none)               -- t == tInterface
      | e =>
        match primOf? e with
        | some p => .ok (.mapInline (some p))         -- _mapInlineMapping[t]
        | none =>
          match getReflectFold fuel o op e with
          | .error err => .error err
          | .ok elemVisitor => .ok (.mapKeys elemVisitor)
    | _ => .error (.err .mapRequiresStringKey)

/-- getReflectFoldSlice -/
def getReflectFoldSlice : Nat → FoldOpts → Open → GoType → Except Res ReFold
  | 0, _, _, _ => .error .fatal
  | fuel + 1, o, op, t =>
    match getReflectFold fuel o op t.elem with
    | .error e => .error e
    | .ok elemVisitor => .ok (.slice elemVisitor)
end

/-- depth available to one compilation; a cyclic type term exhausts any depth -/
def compileFuel : Nat := 2000

/-! ## running compiled folders -/

inductive Walk
  | nil | val (rv : RV) | bad

/-- `for i := 0; i < N; i++ { if v.IsNil() … ; v = v.Elem() }` -/
def ptrWalk : Nat → RV → Walk
  | 0, rv => .val rv
  | n + 1, rv =>
    match rv.v with
    | .nilPtr => .nil
    | .ptr x => ptrWalk n ⟨rv.t.elem, x⟩
    | _ => .bad

/-- isNilValueFolder (fold_primitives.go): a nil pointer to a type implementing Folder on the
value receiver -/
def isNilValueFolder (rv : RV) : Bool :=
  match rv.t.under, rv.v with
  | .ptr e, .nilPtr => implementsFolder e
  | _, _ => false

/-- the receiver-dependent call `v.Interface().(Folder).Fold(visitor)` for a type whose
method set contains Fold; none = Go panics (value method through a nil pointer) -/
def folderEvents (rv : RV) : Option (List XEv) :=
  match rv.t.whnf with
  | .named n _ _ => customEvents n rv.v
  | .ptr e =>
    match e.whnf with
    | .named n m _ =>
      if m.folder == .pointer then customEvents n rv.v
      else match rv.v with
        | .ptr x => customEvents n x
        | _ => none
    | _ => none
  | _ => none

/-- `v.Interface().(IsZeroer).IsZero()` -/
def isZeroCall (rv : RV) : Option Bool :=
  match rv.t.whnf with
  | .named n _ _ => customIsZero n rv.v
  | .ptr e =>
    match e.whnf with
    | .named n m _ =>
      if m.isZero == .pointer then customIsZero n rv.v
      else match rv.v with
        | .ptr x => customIsZero n x
        | _ => none
    | _ => none
  | _ => none

inductive RRes
  | keep (rv : RV) | drop | panic

/-- the resolver closure of makeResolveNonEmptyValue applied to a field value -/
def applyResolvers : Nat → List Resolver → RV → RRes
  | 0, _, _ => .panic
  | _ + 1, [], rv => .keep rv
  | fuel + 1, r :: rs, rv =>
    let step : RRes :=
      match r with
      | .pointers n =>
        match ptrWalk n rv with
        | .nil => .drop | .val rv' => .keep rv' | .bad => .panic
      | .bySize =>                                   -- resolveBySize
        match len? rv.v with
        | some l => if l > 0 then .keep rv else .drop
        | none => .panic
      | .isZeroer =>                                 -- resolveIsZeroer
        match isZeroCall rv with
        | some empty => if empty then .drop else .keep rv
        | none => .panic
      | .isZeroerPtr =>                              -- resolveIsZeroerPtr: IsZero through v.Addr() / a copy; the VALUE is returned
        let p : RV := ⟨.ptr rv.t, .ptr rv.v⟩
        match isZeroCall p with
        | some empty => if empty then .drop else .keep rv
        | none => .panic
      | .interfaceLazy =>                            -- resolveInterfaceLazy
        match rv.v with
        | .nilIface => .drop
        | .iface dt dv =>
          let rs' := makeResolveNonEmptyValue dt
          if rs'.isEmpty then .keep rv else applyResolvers fuel rs' ⟨dt, dv⟩
        | _ => .panic
    match step with
    | .keep rv' => applyResolvers fuel rs rv'
    | r => r

/-- getFoldGoTypes: the type switch on exact (unnamed) types -/
inductive Fast
  | prim (p : Prim) | arr (p : Prim) | map (p : Prim) | arrIface | mapIface
  deriving Repr, Inhabited

def getFoldGoTypes (t : GoType) : Option Fast :=
  match t with
  | .slice .iface => some .arrIface
  | .map .string .iface => some .mapIface
  | .slice e => (primOf? e).map .arr
  | .map .string e => (primOf? e).map .map
  | t => (primOf? t).map .prim

/-- getFoldConvert: a named map / slice / array is converted to its unnamed type -/
def getFoldConvert (t : GoType) : Option Fast :=
  if !t.isNamed then none else
  match t.under with
  | .map k e => getFoldGoTypes (.map k e)
  | .slice e => getFoldGoTypes (.slice e)
  | .array n e => getFoldGoTypes (.array n e)
  | _ => none

def stringKeyed {α : Type} (ms : List (GoVal × α)) : Option (List (Bytes × α)) :=
  allSome (ms.map fun (k, v) => (asStr k).map fun kb => (kb, v))

mutual
/-- foldInterfaceValue; `i` is the interface{} value (`nilIface` / `iface t v`) -/
def foldInterfaceValue : Nat → FoldOpts → VisRef → GoVal → St → St × Res
  | 0, _, _, _, s => (s, .fatal)
  | fuel + 1, o, c, i, s =>
    match i with
    | .nilIface => emit s c (.ev .null)                        -- getFoldGoTypes: case nil → foldNil
    | .iface t v =>
      match userReg o t with
      | some f => run fuel o c f ⟨t, v⟩ s                      -- C.userReg[t]
      | none =>
      match getFoldGoTypes t.whnf with
      | some f => runFast fuel o c f v s
      | none =>
      if implementsFolder t then                               -- v.(Folder)
        if isNilValueFolder ⟨t, v⟩ then emit s c (.ev .null) else
        match folderEvents ⟨t, v⟩ with
        | some evs => seqM (fun s x => emit s c x) s evs
        | none => (s, .panic)
      else
      match getFoldConvert t.whnf with
      | some f => runFast fuel o c f v s
      | none => foldAnyReflect fuel o c ⟨t, v⟩ s
    | _ => (s, .panic)

/-- the foldFn selected by getFoldGoTypes applied to the value -/
def runFast : Nat → FoldOpts → VisRef → Fast → GoVal → St → St × Res
  | 0, _, _, _, _, s => (s, .fatal)
  | fuel + 1, o, c, f, v, s =>
    match f with
    | .prim p =>
      match primEv false p v with
      | some x => emit s c x
      | none => (s, .panic)
    | .arr p =>
      match (sliceElems? v).bind (arrEv true p) with
      | some x => emit s c x
      | none => (s, .panic)
    | .map p =>
      match (mapEntries? v).bind (objEv p) with
      | some x => emit s c x
      | none => (s, .panic)
    | .arrIface =>                                             -- foldArrInterface
      match sliceElems? v with
      | none => (s, .panic)
      | some xs =>
        match emit s c (.ev (.arrStart xs.length BT.any)) with
        | (s, .ok) =>
          match seqM (fun s x => foldInterfaceValue fuel o c x s) s xs with
          | (s, .ok) => emit s c (.ev .arrEnd)
          | r => r
        | r => r
    | .mapIface =>                                             -- foldMapInterface
      match (mapEntries? v).bind stringKeyed with
      | none => (s, .panic)
      | some ms =>
        match emit s c (.ev (.objStart ms.length BT.any)) with
        | (s, .ok) =>
          match rangeM (fun s m =>
              match emit s c (.ev (.key m.1)) with
              | (s, .ok) => foldInterfaceValue fuel o c m.2 s
              | r => r) ms.length s ms with
          | (s, .ok) => emit s c (.ev .objEnd)
          | r => r
        | r => r

/-- foldAnyReflect -/
def foldAnyReflect : Nat → FoldOpts → VisRef → RV → St → St × Res
  | 0, _, _, _, s => (s, .fatal)
  | fuel + 1, o, c, rv, s =>
    match getReflectFold compileFuel o {} rv.t with
    | .error r => (s, r)
    | .ok f => run fuel o c f rv s

/-- apply a compiled folder to a value; `c` is the run-time `foldContext.visitor` -/
def run : Nat → FoldOpts → VisRef → ReFold → RV → St → St × Res
  | 0, _, _, _, _, s => (s, .fatal)
  | fuel + 1, o, c, f, rv, s =>
    match f with
    | .prim p =>
      match primEv true p rv.v with
      | some x => emit s c x
      | none => (s, .panic)
    | .arrPrim p =>
      match (sliceElems? rv.v).bind (arrEv false p) with
      | some x => emit s c x
      | none => (s, .panic)
    | .mapPrim p =>
      match (mapEntries? rv.v).bind (objEv p) with
      | some x => emit s c x
      | none => (s, .panic)
    | .folderIfc =>                                            -- reFoldFolderIfc
      if implementsFolder rv.t then
        if isNilValueFolder rv then emit s c (.ev .null) else
        match folderEvents rv with
        | some evs => seqM (fun s x => emit s c x) s evs
        | none => (s, .panic)
      else run fuel o c .folderIfc ⟨.ptr rv.t, .ptr rv.v⟩ s    -- v.Addr() or a copy
    | .userPtr n =>                                            -- liftUserPtrFn
      match rv.v with
      | .nilPtr | .ptr _ =>
        match customEvents n rv.v with
        | some evs => seqM (fun s x => emit s c x) s evs
        | none => (s, .panic)
      | _ => (s, .panic)
    | .userVal n =>                                            -- liftUserValueFn
      match customEvents n (.ptr rv.v) with
      | some evs => seqM (fun s x => emit s c x) s evs
      | none => (s, .panic)
    | .pointer n elem =>
      match ptrWalk n rv with
      | .nil => emit s c (.ev .null)
      | .val rv' => run fuel o c elem rv' s
      | .bad => (s, .panic)
    | .inlinePointer n elem =>
      match ptrWalk n rv with
      | .nil => (s, .ok)
      | .val rv' => run fuel o c elem rv' s
      | .bad => (s, .panic)
    | .structFold fields count =>
      match emit s c (.ev (.objStart count BT.any)) with
      | (s, .ok) =>
        match seqM (fun s fv => run fuel o c fv rv s) s fields with
        | (s, .ok) => emit s c (.ev .objEnd)
        | r => r
      | r => r
    | .fieldsFold fields => seqM (fun s fv => run fuel o c fv rv s) s fields
    | .field name idx fn =>
      match emit s c (.ev (.key name)) with
      | (s, .ok) =>
        match rv.field idx with
        | some fv => run fuel o c fn fv s
        | none => (s, .panic)
      | r => r
    | .fieldInline idx fn =>
      match rv.field idx with
      | some fv => run fuel o c fn fv s
      | none => (s, .panic)
    | .nonEmptyField name idx rs fn =>
      match rv.field idx with
      | none => (s, .panic)
      | some fv =>
        match applyResolvers 1000 rs fv with
        | .panic => (s, .panic)
        | .drop => (s, .ok)
        | .keep field =>
          match emit s c (.ev (.key name)) with
          | (s, .ok) => run fuel o c fn field s
          | r => r
    | .mapFold iter =>
      match mapEntries? rv.v with
      | none => (s, .panic)
      | some ms =>
        match emit s c (.ev (.objStart ms.length BT.any)) with
        | (s, .ok) =>
          match run fuel o c iter rv s with
          | (s, .ok) => emit s c (.ev .objEnd)
          | r => r
        | r => r
    | .mapKeys elem =>
      match rv.v with
      | .nilMap => (s, .ok)
      | .map ms =>
        match stringKeyed ms with
        | none => (s, .panic)
        | some ms =>
          rangeM (fun s m =>
            match emit s c (.ev (.key m.1)) with
            | (s, .ok) => run fuel o c elem ⟨rv.t.elem, m.2⟩ s
            | r => r) ms.length s ms
      | _ => (s, .panic)
    | .mapInline p =>
      match rv.v with
      | .nilMap => (s, .ok)
      | .map ms =>
        match stringKeyed ms with
        | none => (s, .panic)
        | some ms =>
          rangeM (fun s m =>
            match emit s c (.ev (.key m.1)) with
            | (s, .ok) =>
              match p with
              | none => foldInterfaceValue fuel o c m.2 s
              | some p =>
                match elemEv p m.2 with
                | some x => emit s c x
                | none => (s, .panic)
            | r => r) ms.length s ms
      | _ => (s, .panic)
    | .slice elem =>
      match rv.v with
      | .nilSlice | .slice _ | .array _ =>
        let xs := match rv.v with | .slice xs => xs | .array xs => xs | _ => []
        match emit s c (.ev (.arrStart xs.length BT.any)) with
        | (s, .ok) =>
          match seqM (fun s x => run fuel o c elem ⟨rv.t.elem, x⟩ s) s xs with
          | (s, .ok) => emit s c (.ev .arrEnd)
          | r => r
        | r => r
      | _ => (s, .panic)
    | .ifaceElem =>                                            -- foldInterfaceElem
      match rv.t.under with
      | .iface =>
        match rv.v with
        | .nilIface => emit s c (.ev .null)
        | .iface dt dv => foldAnyReflect fuel o c ⟨dt, dv⟩ s
        | _ => (s, .panic)
      | _ => foldAnyReflect fuel o c rv s
    | .embedd obj =>                                           -- embeddObjReFold
      if isNilValue rv then (s, .ok) else
      let id := s.nextVs                                       -- NewExpectObjVisitor(C.visitor)
      let s := { s with nextVs := id + 1, vss := (id, { active := some c, depth := 0 }) :: s.vss }
      match run fuel o (.exp id) obj rv s with
      | (s, r) =>
        (s, if r == .ok && (s.getVs id).depth != 0 then .err .expectedObjectClose else r)
    | .forward t =>                                            -- `compiled(C, v)`
      match getReflectFold compileFuel o {} t with
      | .error r => (s, r)
      | .ok f => run fuel o c f rv s
    | .forwardInline t =>
      match fieldFoldGenInline compileFuel o { inl := (t.whnf.menagerieName?).toList } t with
      | .error r => (s, r)
      | .ok f => run fuel o c f rv s
    | .inlineIface =>
      match getReflectFold compileFuel o {} rv.t with
      | .error r => (s, r)
      | .ok elemVisitor => run fuel o c elemVisitor rv s
end

def runFuel : Nat := 100000

/-- `gotype.NewIterator(visitor, Folders(…)).Fold(v)` for a value `v` of type `T`
(an interface-typed `T` passes its dynamic value, as `v.Interface()` does) -/
def impl (o : FoldOpts) (T : GoType) (v : GoVal) : Outcome :=
  let i : GoVal := match T.under with
    | .iface => v
    | _ => .iface T v
  let (s, r) := foldInterfaceValue runFuel o .user i { failAt := o.failAt, hint := o.order }
  { evs := s.evs.reverse, res := r }

end SF.Gotype.Fold
