/-
  SF.Gotype.Unfold — executable mirror of the core of `gotype.Unfolder`.

  Mirrored Go sources (one Lean def per Go function / unfolder state type, same case
  structure, same order of effects):
    unfold.go                        unfoldCtx, NewUnfolder, SetTarget, Reset, event dispatch,
                                     reportChildDone, unfoldBuf, arrPreallocLen
    stacks.generated.go              the six generated stacks (`Stk`): pop on an empty stack
                                     indexes -1 = panic
    unfold_err.generated.go          unfolderNoTarget, unfolderErrUnknown/ArrayStart/ObjectStart/
                                     ExpectKey (the embedded defaults: `U.baseErr`)
    unfold_ignore.generated.go       unfolderIgnore, unfolderIgnoreArr, unfolderIgnoreObj
    unfold_primitive.generated.go    unfolderIfc/Bool/String/Uint…/Float64      = `U.prim k`
    unfold_arr.generated.go          unfolderArrX, unfoldArrStartX               = `U.arr k`, `U.arrStart k`
                                     unfoldIfcStartSubArray / FinishSubArray, makeArrayPtr
    unfold_map.generated.go          unfolderMapX, unfoldMapStartX, unfoldMapKeyX
                                                                                 = `U.mapVal k`, `U.mapStart k`, `U.mapKey k`
                                     unfoldIfcStartSubMap / FinishSubMap, makeMapPtr
    unfold_refl.go (+ .generated)    liftedReflUnfolder, unfolderReflSlice(+Start), unfolderReflMap
                                     (Start / OnKey / OnElem), unfolderReflPtr
    unfold_struct.go                 unfolderStruct, unfolderStructStart, fieldUnfolders,
                                     makeFieldUnfolder, createUnfolderReflStruct
    unfold_lookup_go.generated.go    lookupGoTypeUnfolder, lookupGoPtrUnfolder, lookupReflUnfolder,
                                     buildReflUnfolder
    tags.go                          parseTags
    symbols.go                       via `SF.Symbols` (the key cache)
  The four templates are mirrored ONCE, parametric in the kind `PK` (15 instances each).

  Not mirrored: user unfolders (unfold_user*.go), Expander.  The unfolder registry
  (`typeUnfoldRegistry`) is mirrored for NAMED types only (`Ctx.reg`): for all other types it is
  pure memoisation of `buildReflUnfolder`; for named types it is what lets a type refer to
  itself (`lazyReflUnfolder`, `RU.ref`).

  Memory: raw pointers are `Path`s into the target value tree, into `reflect.New` cells
  (`Ctx.cells`) or into the `valueBuffer` scratch slots.  Every pointer the Go code keeps is
  used in LIFO discipline, so inlining pointees into values loses no aliasing.
-/
import SF.Gotype.UTypes
import SF.Gotype.Conv
import SF.Gotype.Symbols
namespace SF.Unf
open SF

/-! ## errors (keyed by the Go error variable) -/

inductive Err
  | notInitialized | unsupported | expectedArray | expectedObject | expectedObjectKey
  | expectedObjectValue | todo
  | requiresPointer | squashNeedObject | mapRequiresStringKey | duplicateField
  deriving Repr, DecidableEq, Inhabited

/-! ## the 15 kinds the templates are instantiated with -/

inductive PK
  | ifc | bool | string
  | num (k : NumKind)          -- Uint, Uint8…Uint64, Int, Int8…Int64 (never .byte)
  | f32 | f64
  deriving Repr, DecidableEq, Inhabited

def PK.goType : PK → GoType
  | .ifc => .ifc | .bool => .bool | .string => .string
  | .num k => .int k | .f32 => .float32 | .f64 => .float64

/-- primitive kind of a Go type (`t.Kind()` switch arms of the lookup functions) -/
def PK.ofExact? : GoType → Option PK
  | .ifc => some .ifc | .bool => some .bool | .string => some .string
  | .int k => some (.num (normKind k)) | .float32 => some .f32 | .float64 => some .f64
  | _ => none

/-- by `Kind()`: names are looked through -/
def PK.ofType? (tbl : TypeTable) (t : GoType) : Option PK := PK.ofExact? (t.un tbl)

/-- scalar events: OnNil, OnBool, OnString, the 11 integer events, OnFloat32/64 -/
inductive Sc
  | nil
  | bool (b : Bool)
  | str (s : Bytes)
  | num (k : NumKind) (v : Int)
  | f32 (b : UInt32)
  | f64 (b : UInt64)
  deriving Repr, Inhabited

/-- unfold_primitive.yml (shared with unfold_arr.yml / unfold_map.yml): which scalar events
the instance for kind `k` implements, and the value `T(v)` it assigns / appends / puts.
`none` = the method is not generated, i.e. the embedded `unfolderErrUnknown` answers. -/
def PK.conv (k : PK) (s : Sc) : Option GoVal :=
  match k, s with
  -- unfolderIfc: `(interface{})(v)` keeps the event's Go type
  | .ifc, .nil => some .ifcNil
  | .ifc, .bool b => some (.ifc (.bool b))
  | .ifc, .str x => some (.ifc (.str x))
  | .ifc, .num ek v => some (.ifc (.int (normKind ek) (wrapTo ek v)))
  | .ifc, .f32 b => some (.ifc (.f32 b))
  | .ifc, .f64 b => some (.ifc (.f64 b))
  -- unfolderBool
  | .bool, .nil => some (.bool false)
  | .bool, .bool b => some (.bool b)
  | .bool, _ => none
  -- unfolderString
  | .string, .nil => some (.str [])
  | .string, .str x => some (.str x)
  | .string, _ => none
  -- unfolderUint … unfolderInt64
  | .num t, .nil => some (.int t 0)
  | .num t, .num ek v => some (.int t (wrapTo t (wrapTo ek v)))
  | .num t, .f32 b => some (.int t (floatToInt t (f32Val b)))
  | .num t, .f64 b => some (.int t (floatToInt t (f64Val b)))
  | .num _, _ => none
  -- unfolderFloat32
  | .f32, .nil => some (.f32 0)
  | .f32, .num ek v => some (.f32 (intToF32 (wrapTo ek v)))
  | .f32, .f32 b => some (.f32 b)
  | .f32, .f64 b => some (.f32 (f64ToF32 b))
  | .f32, _ => none
  -- unfolderFloat64
  | .f64, .nil => some (.f64 0)
  | .f64, .num ek v => some (.f64 (intToF64 (wrapTo ek v)))
  | .f64, .f32 b => some (.f64 (f32ToF64 b))
  | .f64, .f64 b => some (.f64 b)
  | .f64, _ => none

/-! ## unfolder descriptors (what SetTarget compiles a type into) -/

/-- the 45 `ptrUnfolder` singletons: newUnfolderX / newUnfolderArrX / newUnfolderMapX -/
inductive PUK
  | prim (k : PK) | arr (k : PK) | map (k : PK)
  deriving Repr, DecidableEq, Inhabited

/-- `reflUnfolder` values -/
inductive RU
  | lifted (p : PUK)                                      -- liftedReflUnfolder
  | slice (et : GoType) (elem : RU)                       -- unfolderReflSlice{elem}
  | map (et : GoType) (elem : RU)                         -- unfolderReflMap{waitKey, waitElem{elem}}
  | ptr (et : GoType) (elem : RU)                         -- unfolderReflPtr{elem}
  | struct (fields : List (Bytes × List Nat × RU))        -- unfolderStruct{fields}: key ↦ (offset, initState)
  | ref (name : String)                                   -- lazyReflUnfolder: the registry entry of a named type
                                                          -- that was still being built when it was looked up
  deriving Inhabited

abbrev Fields := List (Bytes × List Nat × RU)

/-- typeUnfoldRegistry, named types only -/
abbrev Reg := List (String × RU)

/-- the unfolder states that can be on `unfoldCtx.unfolder` -/
inductive U
  | noTarget
  | ignore | ignoreArr | ignoreObj
  | prim (k : PK)
  | arr (k : PK) | arrStart (k : PK)
  | mapVal (k : PK) | mapStart (k : PK) | mapKey (k : PK)
  | reflSlice (et : GoType) (elem : RU) | reflSliceStart
  | reflMapStart | reflMapOnKey (et : GoType) (elem : RU) | reflMapOnElem (et : GoType) (elem : RU)
  | reflPtr (et : GoType) (elem : RU)
  | struct (fields : Fields) | structStart
  deriving Inhabited

/-- the error unfolder a state type embeds (unfold_err.generated.go): what every method the
state type does not define itself returns.  The three reflection states that embed nothing
define all methods explicitly; for them this is never consulted. -/
def U.baseErr : U → Err
  | .noTarget => .notInitialized
  | .arrStart _ | .reflSliceStart => .expectedArray
  | .mapStart _ | .reflMapStart | .structStart => .expectedObject
  | .mapKey _ | .reflMapOnKey _ _ | .struct _ => .expectedObjectKey
  | _ => .unsupported

/-! ## stacks.generated.go -/

structure Stk (α : Type) where
  current : α
  stack : List α := []          -- head = most recently pushed
  deriving Inhabited

def Stk.init {α : Type} (v : α) : Stk α := { current := v, stack := [] }
def Stk.push {α : Type} (s : Stk α) (v : α) : Stk α := { current := v, stack := s.current :: s.stack }
/-- `s.stack[len(s.stack)-1]` panics on an empty stack -/
def Stk.pop {α : Type} (s : Stk α) : Option (α × Stk α) :=
  match s.stack with
  | [] => none
  | x :: r => some (s.current, { current := x, stack := r })

/-! ## unfoldCtx -/

abbrev Ptr := Option Path        -- nil or a path

/-- unfoldBuf -/
structure UnfoldBuf where
  arrays : Array GoVal := #[]
  mapPrimitive : Array GoVal := #[]
  mapAny : Array GoVal := #[]
  deriving Inhabited

structure Ctx where
  unfolder : Stk U := Stk.init .noTarget
  ptr : Stk Ptr := Stk.init none
  value : Stk Ptr := Stk.init none           -- reflect.Value: invalid, or a pointer
  key : Stk Bytes := Stk.init []
  idx : Stk Int := Stk.init 0
  baseType : Stk Nat := Stk.init 0
  keyCache : Symbols.Cache := {}
  valueBuffer : UnfoldBuf := {}
  -- memory
  target : GoVal := .invalid
  cells : Array GoVal := #[]                  -- reflect.New allocations
  -- types
  env : TypeTable := fun _ => none            -- the named types (stands for `reflect`)
  reg : Reg := []                             -- unfoldCtx.reg
  /-- NOT part of the mirror of the current tree: `true` evaluates the code as it was BEFORE the
  repairs of findings U1/U2 (null array element kept the old slice element; `SetLen` within
  the capacity re-exposed stale elements; /repo 777bf43, 4cf81f7).  Kept so that the replays
  recorded for those findings can still be classified (`unfx`). -/
  whatIfFixed : Bool := true
  deriving Inhabited

/-- VerifDepths: unfolder, ptr, value, key, idx, baseType -/
def Ctx.depths (c : Ctx) : List Nat :=
  [c.unfolder.stack.length, c.ptr.stack.length, c.value.stack.length,
   c.key.stack.length, c.idx.stack.length, c.baseType.stack.length]

/-! ## outcome monad: state is kept at an error / panic (the target is printed afterwards) -/

inductive R (α : Type)
  | ok (a : α) (c : Ctx)
  | err (e : Err) (c : Ctx)
  | panic (c : Ctx)
  | outOfFuel
  | gap (msg : String)            -- the model met a situation it does not cover (never `ok`)

def M (α : Type) := Ctx → R α

instance : Monad M where
  pure a := fun c => .ok a c
  bind m f := fun c =>
    match m c with
    | .ok a c' => f a c'
    | .err e c' => .err e c'
    | .panic c' => .panic c'
    | .outOfFuel => .outOfFuel
    | .gap s => .gap s

def throwErr {α : Type} (e : Err) : M α := fun c => .err e c
def goPanic {α : Type} : M α := fun c => .panic c
def noFuel {α : Type} : M α := fun _ => .outOfFuel
def modelGap {α : Type} (s : String) : M α := fun _ => .gap s
def getCtx : M Ctx := fun c => .ok c c
def modifyCtx (f : Ctx → Ctx) : M Unit := fun c => .ok () (f c)

/-! ### stack accessors -/

def pushU (u : U) : M Unit := modifyCtx fun c => { c with unfolder := c.unfolder.push u }
def popU : M U := fun c =>
  match c.unfolder.pop with
  | some (u, s) => .ok u { c with unfolder := s }
  | none => .panic c
def setCurrentU (u : U) : M Unit := modifyCtx fun c => { c with unfolder := { c.unfolder with current := u } }
def currentU : M U := fun c => .ok c.unfolder.current c

def pushPtr (p : Ptr) : M Unit := modifyCtx fun c => { c with ptr := c.ptr.push p }
def popPtr : M Ptr := fun c =>
  match c.ptr.pop with
  | some (p, s) => .ok p { c with ptr := s }
  | none => .panic c
def currentPtr : M Ptr := fun c => .ok c.ptr.current c

def pushValue (p : Ptr) : M Unit := modifyCtx fun c => { c with value := c.value.push p }
def popValue : M Ptr := fun c =>
  match c.value.pop with
  | some (p, s) => .ok p { c with value := s }
  | none => .panic c
def currentValue : M Ptr := fun c => .ok c.value.current c

def pushKey (k : Bytes) : M Unit := modifyCtx fun c => { c with key := c.key.push k }
def popKey : M Bytes := fun c =>
  match c.key.pop with
  | some (k, s) => .ok k { c with key := s }
  | none => .panic c

def pushIdx (i : Int) : M Unit := modifyCtx fun c => { c with idx := c.idx.push i }
def popIdx : M Int := fun c =>
  match c.idx.pop with
  | some (i, s) => .ok i { c with idx := s }
  | none => .panic c
def currentIdx : M Int := fun c => .ok c.idx.current c
def setCurrentIdx (i : Int) : M Unit := modifyCtx fun c => { c with idx := { c.idx with current := i } }

def pushBaseType (b : Nat) : M Unit := modifyCtx fun c => { c with baseType := c.baseType.push b }
def popBaseType : M Nat := fun c =>
  match c.baseType.pop with
  | some (b, s) => .ok b { c with baseType := s }
  | none => .panic c

/-! ### memory -/

def rootVal (c : Ctx) : Root → Option GoVal
  | .target => some c.target
  | .cell n => c.cells[n]?
  | .arrays i => c.valueBuffer.arrays[i]?
  | .mapPrimitive i => c.valueBuffer.mapPrimitive[i]?
  | .mapAny i => c.valueBuffer.mapAny[i]?

def setRoot (c : Ctx) (r : Root) (v : GoVal) : Option Ctx :=
  match r with
  | .target => some { c with target := v }
  | .cell n => if n < c.cells.size then some { c with cells := c.cells.setIfInBounds n v } else none
  | .arrays i =>
    if i < c.valueBuffer.arrays.size then
      some { c with valueBuffer := { c.valueBuffer with arrays := c.valueBuffer.arrays.setIfInBounds i v } }
    else none
  | .mapPrimitive i =>
    if i < c.valueBuffer.mapPrimitive.size then
      some { c with valueBuffer := { c.valueBuffer with mapPrimitive := c.valueBuffer.mapPrimitive.setIfInBounds i v } }
    else none
  | .mapAny i =>
    if i < c.valueBuffer.mapAny.size then
      some { c with valueBuffer := { c.valueBuffer with mapAny := c.valueBuffer.mapAny.setIfInBounds i v } }
    else none

/-- `*p` (read).  A nil pointer dereference panics; a path that no longer resolves is a
stale pointer the model does not follow (`gap`). -/
def load (p : Ptr) : M GoVal := fun c =>
  match p with
  | none => .panic c
  | some path =>
    match (rootVal c path.root).bind (·.get path.steps) with
    | some v => .ok v c
    | none => .gap "load: stale pointer"

/-- `*p = v` -/
def store (p : Ptr) (v : GoVal) : M Unit := fun c =>
  match p with
  | none => .panic c
  | some path =>
    match (rootVal c path.root).bind (·.set path.steps v) with
    | some rv =>
      match setRoot c path.root rv with
      | some c' => .ok () c'
      | none => .gap "store: stale root"
    | none => .gap "store: stale pointer"

/-- reflect.Zero(t) -/
def zeroM (t : GoType) : M GoVal := fun c => .ok (zero c.env t) c

/-- reflect.New(t): a fresh zeroed cell -/
def newCell (t : GoType) : M Ptr := fun c =>
  .ok (some { root := .cell c.cells.size }) { c with cells := c.cells.push (zero c.env t) }

/-- unfold.go arrPreallocLen (maxArrPrealloc = 1024) -/
def maxArrPrealloc : Int := 1024
def arrPreallocLen (l : Int) : Int := if l > maxArrPrealloc then maxArrPrealloc else l

/-! ## unfold_ignore.generated.go -/

/-- unfolderIgnore.onValue -/
def ignoreOnValue : M Unit := do let _ ← popU; pure ()

/-! ## unfold_primitive.generated.go — `unfolderX` -/

/-- unfolderX.initState -/
def primInitState (k : PK) (p : Ptr) : M Unit := do
  pushU (.prim k)
  pushPtr p

/-- unfolderX.cleanup -/
def primCleanup : M Unit := do
  let _ ← popU
  let _ ← popPtr
  pure ()

/-- unfolderX.assign -/
def primAssign (v : GoVal) : M Unit := do
  let p ← currentPtr
  store p v
  primCleanup

/-! ## unfold_arr.generated.go — `unfolderArrX`, `unfoldArrStartX` -/

/-- unfolderArrX.initState -/
def arrInitState (k : PK) (p : Ptr) : M Unit := do
  pushU (.arr k)
  pushU (.arrStart k)
  pushIdx 0
  pushPtr p

/-- unfolderArrX.cleanup -/
def arrCleanup : M Unit := do
  let _ ← popU
  let _ ← popIdx
  let _ ← popPtr
  pure ()

/-- unfoldArrStartX.OnArrayStart -/
def arrStartOnArrayStart (k : PK) (l : Int) : M Unit := do
  let to ← currentPtr
  let l := if l < 0 then 0 else l
  let v ← load to
  match v with
  | .sliceNil et =>
    if l > 0 then
      -- *to = make([]T, arrPreallocLen(l))
      store to (.slice et (List.replicate (arrPreallocLen l).toNat (← zeroM k.goType)) [])
    else pure ()           -- `l < len(*to)` is false for l = 0
  | .slice et es h =>
    if l < es.length then
      -- *to = (*to)[:l]
      store to (.slice et (es.take l.toNat) (es.drop l.toNat ++ h))
    else pure ()
  | _ => modelGap "arrStart: target is not a slice"
  -- u.cleanup(ctx)
  let _ ← popU
  pure ()

/-- unfolderArrX.append -/
def arrAppend (v : GoVal) : M Unit := do
  let idx ← currentIdx
  let to ← currentPtr
  let sl ← load to
  match sl with
  | .sliceNil et => store to (.slice et [v] [])          -- len 0 <= idx: append
  | .slice et es h =>
    if (es.length : Int) ≤ idx then
      -- *to = append(*to, v): within capacity it overwrites the hidden element
      store to (.slice et (es ++ [v]) (h.drop 1))
    else
      store to (.slice et (es.set idx.toNat v) h)
  | _ => modelGap "arrAppend: target is not a slice"
  setCurrentIdx (idx + 1)

/-! ### the generic (interface{}) sub containers: unfoldIfcStartSubArray … -/

/-- makeArrayPtr: which element kind a BaseType selects (ByteType ↦ uint8, ZeroType ↦
interface{}); any other code: `panic("invalid type code")` -/
def btKind (bt : Nat) : Option PK :=
  if bt == BT.any then some .ifc
  else if bt == BT.byte then some (.num .u8)
  else if bt == BT.string then some .string
  else if bt == BT.bool then some .bool
  else if bt == BT.zero then some .ifc
  else if bt == BT.int then some (.num .int)
  else if bt == BT.int8 then some (.num .i8)
  else if bt == BT.int16 then some (.num .i16)
  else if bt == BT.int32 then some (.num .i32)
  else if bt == BT.int64 then some (.num .i64)
  else if bt == BT.uint then some (.num .uint)
  else if bt == BT.uint8 then some (.num .u8)
  else if bt == BT.uint16 then some (.num .u16)
  else if bt == BT.uint32 then some (.num .u32)
  else if bt == BT.uint64 then some (.num .u64)
  else if bt == BT.float32 then some .f32
  else if bt == BT.float64 then some .f64
  else none

/-- makeArrayPtr -/
def makeArrayPtr (bt : Nat) : M (Ptr × PK) := do
  match btKind bt with
  | none => goPanic
  | some k =>
    let c ← getCtx
    let idx := c.valueBuffer.arrays.size
    -- ctx.valueBuffer.arrays = append(ctx.valueBuffer.arrays, nil)
    modifyCtx fun c => { c with valueBuffer := { c.valueBuffer with arrays := c.valueBuffer.arrays.push (.sliceNil k.goType) } }
    pure (some { root := .arrays idx }, k)

/-- makeMapPtr: AnyType / ZeroType use `mapAny`, the others `mapPrimitive` -/
def makeMapPtr (bt : Nat) : M (Ptr × PK) := do
  match btKind bt with
  | none => goPanic
  | some k =>
    let c ← getCtx
    if k == .ifc then
      let idx := c.valueBuffer.mapAny.size
      modifyCtx fun c => { c with valueBuffer := { c.valueBuffer with mapAny := c.valueBuffer.mapAny.push (.mapNil k.goType) } }
      pure (some { root := .mapAny idx }, k)
    else
      let idx := c.valueBuffer.mapPrimitive.size
      modifyCtx fun c => { c with valueBuffer := { c.valueBuffer with mapPrimitive := c.valueBuffer.mapPrimitive.push (.mapNil k.goType) } }
      pure (some { root := .mapPrimitive idx }, k)

/-- unfoldIfcStartSubArray -/
def unfoldIfcStartSubArray (l : Int) (bt : Nat) : M Unit := do
  let (ptr, k) ← makeArrayPtr bt
  pushPtr ptr                     -- store pointer for use in 'Finish'
  pushBaseType bt
  arrInitState k ptr
  -- ctx.unfolder.current.OnArrayStart(ctx, l, baseType): current is the unfoldArrStartX just pushed
  arrStartOnArrayStart k l

/-- unfoldIfcFinishSubArray -/
def unfoldIfcFinishSubArray : M GoVal := do
  let child ← popPtr
  let bt ← popBaseType
  match btKind bt with
  | none => throwErr .todo
  | some _ =>
    let value ← load child
    -- ctx.valueBuffer.arrays = ctx.valueBuffer.arrays[:len-1]
    let c ← getCtx
    if c.valueBuffer.arrays.size == 0 then goPanic else
    modifyCtx fun c => { c with valueBuffer := { c.valueBuffer with arrays := c.valueBuffer.arrays.pop } }
    pure value

/-! ## unfold_map.generated.go — `unfolderMapX`, `unfoldMapStartX`, `unfoldMapKeyX` -/

/-- unfolderMapX.initState -/
def mapInitState (k : PK) (p : Ptr) : M Unit := do
  pushU (.mapKey k)
  pushU (.mapStart k)
  pushPtr p

/-- unfoldMapKeyX.cleanup -/
def mapKeyCleanup : M Unit := do
  let _ ← popU
  let _ ← popPtr
  pure ()

/-- unfoldMapKeyX.OnKey -/
def mapKeyOnKey (k : PK) (key : Bytes) : M Unit := do
  pushKey key
  setCurrentU (.mapVal k)

/-- symbolCache.get; add panics on an empty ring (capacity bug F28, fixed) -/
def keyCacheGet (key : Bytes) : M Bytes := fun c =>
  match Symbols.get c.keyCache key with
  | .ok (cache, s) => .ok s { c with keyCache := cache }
  | .panic => .panic c

def mapSet (ms : List (Bytes × GoVal)) (k : Bytes) (v : GoVal) : List (Bytes × GoVal) :=
  if ms.any (·.1 == k) then ms.map fun kv => if kv.1 == k then (k, v) else kv
  else ms ++ [(k, v)]

/-- unfolderMapX.put -/
def mapPut (k : PK) (v : GoVal) : M Unit := do
  let to ← currentPtr
  let m ← load to
  -- if *to == nil { *to = map[string]T{} }
  let (et, ms) ← (match m with
    | .mapNil et => pure (et, [])
    | .map et ms => pure (et, ms)
    | _ => modelGap "mapPut: target is not a map" : M (GoType × List (Bytes × GoVal)))
  let key ← popKey
  store to (.map et (mapSet ms key v))
  setCurrentU (.mapKey k)

/-- unfoldIfcStartSubMap -/
def unfoldIfcStartSubMap (_l : Int) (bt : Nat) : M Unit := do
  let (ptr, k) ← makeMapPtr bt
  pushPtr ptr
  pushBaseType bt
  mapInitState k ptr
  -- ctx.unfolder.current.OnObjectStart: unfoldMapStartX.OnObjectStart = cleanup = unfolder.pop
  let _ ← popU
  pure ()

/-- unfoldIfcFinishSubMap -/
def unfoldIfcFinishSubMap : M GoVal := do
  let child ← popPtr
  let bt ← popBaseType
  match btKind bt with
  | none => throwErr .todo
  | some k =>
    let value ← load child
    let c ← getCtx
    if k == .ifc then
      if c.valueBuffer.mapAny.size == 0 then goPanic else
      modifyCtx fun c => { c with valueBuffer := { c.valueBuffer with mapAny := c.valueBuffer.mapAny.pop } }
    else
      if c.valueBuffer.mapPrimitive.size == 0 then goPanic else
      modifyCtx fun c => { c with valueBuffer := { c.valueBuffer with mapPrimitive := c.valueBuffer.mapPrimitive.pop } }
    pure value

/-- where a template instance delivers a converted value: assign (primitive), append
(array), put (map) -/
def pukDeliver (u : U) (v : GoVal) : M Unit :=
  match u with
  | .prim _ => primAssign v
  | .arr _ => arrAppend v
  | .mapVal k => mapPut k v
  | _ => modelGap "pukDeliver"

/-! ## unfold_refl.go -/

/-- ptrUnfolder.initState for the 45 singletons -/
def initStatePU (p : PUK) (ptr : Ptr) : M Unit :=
  match p with
  | .prim k => primInitState k ptr
  | .arr k => arrInitState k ptr
  | .map k => mapInitState k ptr

/-- lazyReflUnfolder: forward to the unfolder the registry holds for the named type -/
def resolveRU (ru : RU) : M RU := fun c =>
  match ru with
  | .ref n => match c.reg.lookup n with
    | some r => .ok r c
    | none => .gap ("unregistered type " ++ n)
  | r => .ok r c

/-- reflUnfolder.initState -/
def initStateRU (ru0 : RU) (v : Ptr) : M Unit := do
  let ru ← resolveRU ru0
  match ru with
  | .ref n => modelGap ("registry entry of " ++ n ++ " is a placeholder")
  | .lifted p => initStatePU p v                      -- liftedReflUnfolder.initState
  | .slice et elem => do                              -- unfolderReflSlice.initState
    pushValue v
    pushU (.reflSlice et elem)
    pushIdx 0
    pushU .reflSliceStart
  | .map et elem => do                                -- unfolderReflMap.initState
    pushValue v
    pushU (.reflMapOnKey et elem)
    pushU .reflMapStart
  | .ptr et elem => do                                -- unfolderReflPtr.initState
    pushValue v
    pushU (.reflPtr et elem)
  | .struct fields => do                              -- unfolderStruct.initStatePtr
    pushPtr v
    pushU (.struct fields)
    pushU .structStart

/-- unfolderReflSliceStart.OnArrayStart -/
def reflSliceStartOnArrayStart (l : Int) : M Unit := do
  let ptr ← currentValue
  let v ← load ptr
  let l := if l < 0 then 0 else l
  match v with
  | .sliceNil et =>
    if l > 0 then
      let n := (arrPreallocLen l).toNat
      store ptr (.slice et (List.replicate n (← zeroM et)) [])      -- reflect.MakeSlice(t, n, n)
    else pure ()
  | .slice et es h =>
    if l < es.length then
      store ptr (.slice et (es.take l.toNat) (es.drop l.toNat ++ h))   -- v.SetLen(l)
    else pure ()
  | _ => modelGap "reflSliceStart: not a slice"
  let _ ← popU
  pure ()

/-- unfolderReflSlice.cleanup -/
def reflSliceCleanup : M Unit := do
  let _ ← popIdx
  let _ ← popValue
  let _ ← popU
  pure ()

/-- unfolderReflSlice.prepare: make space for one more element; `SetLen` within the
capacity re-exposes whatever the backing array holds there -/
def reflSlicePrepare : M Ptr := do
  let ptr ← currentValue
  let idx ← currentIdx
  let v ← load ptr
  let (et, es, h) ← (match v with
    | .sliceNil et => pure (et, [], [])
    | .slice et es h => pure (et, es, h)
    | _ => modelGap "reflSlicePrepare: not a slice" : M (GoType × List GoVal × List GoVal))
  let c ← getCtx
  if (es.length : Int) > idx then pure ()
  else
    match h with
    | x :: h' => store ptr (.slice et (es ++ [if c.whatIfFixed then zero c.env et else x]) h')   -- v.Cap() > idx: v.SetLen(idx+1); v.Index(idx).Set(Zero)
    | [] => store ptr (.slice et (es ++ [zero c.env et]) [])            -- reflect.Append(v, Zero) (or zeroed spare capacity)
  setCurrentIdx (idx + 1)
  match ptr with
  | some p => pure (some (p.push (.index idx.toNat)))
  | none => goPanic

/-- unfolderReflMapStart.OnObjectStart -/
def reflMapStartOnObjectStart : M Unit := do
  let p ← currentValue
  let m ← load p
  match m with
  | .mapNil et => store p (.map et [])                 -- m.Set(reflect.MakeMap(m.Type()))
  | .map _ _ => pure ()
  | _ => modelGap "reflMapStart: not a map"
  let _ ← popU
  pure ()

/-- reflect.Value.SetMapIndex on `*ctx.value.current` -/
def reflMapSet (key : Bytes) (v : GoVal) : M Unit := do
  let p ← currentValue
  let m ← load p
  match m with
  | .mapNil _ => goPanic                               -- assignment to entry in nil map
  | .map et ms => store p (.map et (mapSet ms key v))
  | _ => modelGap "reflMapSet: not a map"

/-- unfolderReflMapOnElem.prepare -/
def reflMapOnElemPrepare (et : GoType) : M Ptr := do
  let target ← newCell et
  pushValue target
  pure target

/-- unfolderReflMapOnElem.process -/
def reflMapOnElemProcess (et : GoType) (elem : RU) : M Unit := do
  let ptr ← popValue
  let v ← load ptr
  let key ← popKey
  reflMapSet key v
  setCurrentU (.reflMapOnKey et elem)

/-- unfolderReflPtr.cleanup -/
def reflPtrCleanup : M Unit := do
  let _ ← popValue
  let _ ← popU
  pure ()

/-- unfolderReflPtr.prepare: always a fresh `reflect.New`, whatever the pointer held -/
def reflPtrPrepare (et : GoType) : M Ptr := do
  let target ← newCell et
  pushValue target
  pure target

/-- unfolderReflPtr.process -/
def reflPtrProcess (et : GoType) : M Unit := do
  let v ← popValue
  let pointee ← load v
  let p ← currentValue
  store p (.ptr et pointee)
  reflPtrCleanup

/-! ## unfold_struct.go -/

def lookupField (fields : Fields) (key : Bytes) : Option (List Nat × RU) :=
  match fields.find? (·.1 == key) with
  | some (_, off, ru) => some (off, ru)
  | none => none

/-- unfolderStruct.OnKey -/
def structOnKey (fields : Fields) (key : Bytes) : M Unit := do
  match lookupField fields key with
  | none => pushU .ignore                                -- _ignoredField.initState
  | some (off, ru) =>
    let structPtr ← currentPtr
    match structPtr with
    | none => goPanic
    | some sp => initStateRU ru (some (sp.pushAll (off.map Step.field)))

/-! ## event dispatch: `ctx.unfolder.current.OnX(ctx, …)`

Reflection states forward the event to the element unfolder they have just pushed; the
recursion is bounded by the nesting of the target type (fuel). -/

/-- the 17 scalar methods (OnNil, OnBool, OnString, OnInt8 … OnFloat64) -/
def onScalar : Nat → Sc → M Unit
  | 0, _ => noFuel
  | fuel + 1, s => do
    let u ← currentU
    match u with
    | .ignore => ignoreOnValue
    | .ignoreArr => pure ()
    | .ignoreObj => pure ()
    | .prim k | .arr k | .mapVal k =>
      match k.conv s with
      | some v => pukDeliver u v
      | none => throwErr .unsupported
    | .reflSlice _ elem =>
      match s with
      | .nil => do
        let e ← reflSlicePrepare                 -- unfolderReflSlice.OnNil: `u.prepare(ctx)`, then the element is zeroed
        let c ← getCtx
        if c.whatIfFixed then (match u with | .reflSlice et _ => store e (zero c.env et) | _ => pure ()) else pure ()
      | _ => do
        let e ← reflSlicePrepare
        initStateRU elem e
        onScalar fuel s
    | .reflMapOnElem et elem =>
      match s with
      | .nil => do
        -- m.SetMapIndex(key.pop(), reflect.Zero(elemType))
        let key ← popKey
        reflMapSet key (← zeroM et)
        setCurrentU (.reflMapOnKey et elem)
      | _ => do
        let e ← reflMapOnElemPrepare et
        initStateRU elem e
        onScalar fuel s
        reflMapOnElemProcess et elem           -- only if err == nil (an error leaves the monad)
    | .reflPtr et elem =>
      match s with
      | .nil => do
        let p ← currentValue
        store p (.ptrNil et)                   -- v.Set(reflect.Zero(v.Type()))
        reflPtrCleanup
      | _ => do
        let e ← reflPtrPrepare et
        initStateRU elem e
        onScalar fuel s
        reflPtrProcess et
    | _ => throwErr u.baseErr

/-- OnStringRef: every state type converts and calls its own OnString (`u.OnString(ctx,
string(v))`), the ignore states go to onValue, the error unfolders return their error -/
def onStringRef (fuel : Nat) (s : Bytes) : M Unit := onScalar fuel (.str s)

def onArrayStart : Nat → Int → Nat → M Unit
  | 0, _, _ => noFuel
  | fuel + 1, l, bt => do
    let u ← currentU
    match u with
    | .ignore | .ignoreArr | .ignoreObj => pushU .ignoreArr        -- _singletonUnfoldIgnoreArrPtr.initState
    | .prim .ifc | .arr .ifc | .mapVal .ifc => unfoldIfcStartSubArray l bt
    | .arrStart k => arrStartOnArrayStart k l
    | .reflSliceStart => reflSliceStartOnArrayStart l
    | .reflSlice _ elem => do
      let e ← reflSlicePrepare
      initStateRU elem e
      onArrayStart fuel l bt
    | .reflMapOnElem et elem => do
      let e ← reflMapOnElemPrepare et
      initStateRU elem e
      onArrayStart fuel l bt
    | .reflPtr et elem => do
      let e ← reflPtrPrepare et
      initStateRU elem e
      onArrayStart fuel l bt
    | _ => throwErr u.baseErr

def onObjectStart : Nat → Int → Nat → M Unit
  | 0, _, _ => noFuel
  | fuel + 1, l, bt => do
    let u ← currentU
    match u with
    | .ignore | .ignoreArr | .ignoreObj => pushU .ignoreObj
    | .prim .ifc | .arr .ifc | .mapVal .ifc => unfoldIfcStartSubMap l bt
    | .mapStart _ => do let _ ← popU; pure ()                      -- unfoldMapStartX.OnObjectStart
    | .reflMapStart => reflMapStartOnObjectStart
    | .structStart => do let _ ← popU; pure ()                     -- unfolderStructStart.OnObjectStart
    | .reflSlice _ elem => do
      let e ← reflSlicePrepare
      initStateRU elem e
      onObjectStart fuel l bt
    | .reflMapOnElem et elem => do
      let e ← reflMapOnElemPrepare et
      initStateRU elem e
      onObjectStart fuel l bt
    | .reflPtr et elem => do
      let e ← reflPtrPrepare et
      initStateRU elem e
      onObjectStart fuel l bt
    | _ => throwErr u.baseErr

/-- `current.OnArrayFinished` -/
def onArrayFinished : M Unit := do
  let u ← currentU
  match u with
  | .ignoreArr => do let _ ← popU; pure ()
  | .arr _ => arrCleanup
  | .reflSlice _ _ => reflSliceCleanup
  | .reflMapOnElem _ _ => throwErr .unsupported
  | .reflPtr _ _ => throwErr .unsupported
  | _ => throwErr u.baseErr

/-- `current.OnObjectFinished` -/
def onObjectFinished : M Unit := do
  let u ← currentU
  match u with
  | .ignoreObj => do let _ ← popU; pure ()
  | .mapKey _ => mapKeyCleanup
  | .reflMapOnKey _ _ => do
    let _ ← popU
    let _ ← popValue
    pure ()
  | .struct _ => do
    let _ ← popU
    let _ ← popPtr
    pure ()
  | .reflSlice _ _ => throwErr .unsupported
  | .reflMapOnElem _ _ => throwErr .expectedObjectValue
  | .reflPtr _ _ => throwErr .unsupported
  | _ => throwErr u.baseErr

/-- `current.OnChildArrayDone` -/
def onChildArrayDone : M Unit := do
  let u ← currentU
  match u with
  | .ignore => ignoreOnValue
  | .ignoreArr | .ignoreObj => pure ()
  | .prim .ifc | .arr .ifc | .mapVal .ifc => do
    let v ← unfoldIfcFinishSubArray
    pukDeliver u (.ifc v)
  | .reflSlice _ _ => pure ()
  | .reflMapOnElem et elem => reflMapOnElemProcess et elem
  | .reflPtr et _ => reflPtrProcess et
  | .struct _ => pure ()
  | _ => throwErr u.baseErr

/-- `current.OnChildObjectDone` -/
def onChildObjectDone : M Unit := do
  let u ← currentU
  match u with
  | .ignore => ignoreOnValue
  | .ignoreArr | .ignoreObj => pure ()
  | .prim .ifc | .arr .ifc | .mapVal .ifc => do
    let v ← unfoldIfcFinishSubMap
    pukDeliver u (.ifc v)
  | .reflSlice _ _ => pure ()
  | .reflMapOnElem et elem => reflMapOnElemProcess et elem
  | .reflPtr et _ => reflPtrProcess et
  | .struct _ => pure ()
  | _ => throwErr u.baseErr

/-- `current.OnKey` -/
def onKey (key : Bytes) : M Unit := do
  let u ← currentU
  match u with
  | .ignoreObj => pure ()
  | .mapKey k => mapKeyOnKey k key
  | .reflMapOnKey et elem => do
    pushKey key
    setCurrentU (.reflMapOnElem et elem)
  | .struct fields => structOnKey fields key
  | .reflSlice _ _ => throwErr .unsupported
  | .reflMapOnElem _ _ => throwErr .expectedObjectValue
  | .reflPtr _ _ => throwErr .unsupported
  | _ => throwErr u.baseErr

/-- `current.OnKeyRef`: the map unfolders go through the key cache, the struct unfolder
through `bytes2Str` -/
def onKeyRef (key : Bytes) : M Unit := do
  let u ← currentU
  match u with
  | .ignoreObj => pure ()
  | .mapKey k => do
    let s ← keyCacheGet key
    mapKeyOnKey k s
  | .reflMapOnKey et elem => do
    let s ← keyCacheGet key
    pushKey s
    setCurrentU (.reflMapOnElem et elem)
  | .struct fields => structOnKey fields key
  | .reflSlice _ _ => throwErr .unsupported
  | .reflMapOnElem _ _ => throwErr .expectedObjectValue
  | .reflPtr _ _ => throwErr .unsupported
  | _ => throwErr u.baseErr

/-! ## unfold.go: unfoldCtx methods -/

/-- unfoldCtx.reportChildDone: keep notifying while the stack keeps shrinking -/
def reportChildDone (report : M Unit) : Nat → Nat → M Unit
  | 0, _ => noFuel
  | fuel + 1, lBefore => do
    let c ← getCtx
    let lAfter := c.unfolder.stack.length + 1
    if lAfter ≤ 1 || lBefore ≤ lAfter then pure ()
    else do
      report
      reportChildDone report fuel lAfter

/-- unfoldCtx.OnArrayFinished -/
def ctxOnArrayFinished : M Unit := do
  let c ← getCtx
  let lBefore := c.unfolder.stack.length + 1
  onArrayFinished
  reportChildDone onChildArrayDone (lBefore + 1) lBefore

/-- unfoldCtx.OnObjectFinished -/
def ctxOnObjectFinished : M Unit := do
  let c ← getCtx
  let lBefore := c.unfolder.stack.length + 1
  onObjectFinished
  reportChildDone onChildObjectDone (lBefore + 1) lBefore

/-- events as the Unfolder receives them (Visitor + StringRefVisitor) -/
inductive UEv
  | scalar (s : Sc)
  | strRef (s : Bytes)
  | key (k : Bytes)
  | keyRef (k : Bytes)
  | arrStart (l : Int) (bt : Nat)
  | arrEnd
  | objStart (l : Int) (bt : Nat)
  | objEnd
  deriving Inhabited

/-- one Visitor call on the Unfolder -/
def stepEv (fuel : Nat) : UEv → M Unit
  | .scalar s => onScalar fuel s
  | .strRef s => onStringRef fuel s
  | .key k => onKey k
  | .keyRef k => onKeyRef k
  | .arrStart l bt => onArrayStart fuel l (bt % 256)      -- structform.BaseType is a uint8
  | .arrEnd => ctxOnArrayFinished
  | .objStart l bt => onObjectStart fuel l (bt % 256)
  | .objEnd => ctxOnObjectFinished

/-! ## unfold_lookup_go.generated.go, unfold_struct.go: compiling a type -/

structure TagOptions where
  squash : Bool := false
  omitF : Bool := false
  omitEmpty : Bool := false

def trimSpace (s : String) : String := (s.trimAscii).toString

/-- tags.go parseTags -/
def parseTags (tag : String) : String × TagOptions :=
  let s := tag.splitOn ","
  match s with
  | [] => ("", {})
  | s0 :: rest =>
    if s0 == "-" then ("", { omitF := true })
    else
      let opts := rest.foldl (fun (o : TagOptions) opt =>
        let t := trimSpace opt
        if t == "squash" || t == "inline" then { o with squash := true }
        else if t == "omitempty" then { o with omitEmpty := true }
        else if t == "omit" then { o with omitF := true }
        else o) {}
      (trimSpace s0, opts)

def strBytes (s : String) : Bytes := s.toUTF8.toList

/-- unicode.IsUpper, ASCII and Latin-1 (field names of the type universe use nothing else) -/
def isUpperRune (c : Char) : Bool :=
  ('A' ≤ c && c ≤ 'Z') || (0xC0 ≤ c.toNat && c.toNat ≤ 0xDE && c.toNat != 0xD7)

/-- `unicode.IsUpper` of the first rune -/
def startsUpper (s : String) : Bool :=
  match s.toList with
  | c :: _ => isUpperRune c
  | [] => false

/-- strings.ToLower (ASCII and Latin-1) -/
def toLowerAscii (s : String) : String :=
  String.ofList (s.toList.map fun c => if isUpperRune c then Char.ofNat (c.toNat + 32) else c)

/-- lookupGoPtrUnfolder(t): the fast path for fields of primitive kind, slices and
string-keyed maps of primitive kind — by `Kind()`, so named types take it too -/
def lookupGoPtrUnfolder (tbl : TypeTable) (t : GoType) : Option PUK :=
  match t.un tbl with
  | .slice e => (PK.ofType? tbl e).map .arr
  | .map e => (PK.ofType? tbl e).map .map
  | u => (PK.ofExact? u).map .prim

/-- lookupGoTypeUnfolder(to): the type switch over the 45 unnamed pointer types `*T`, `*[]T`,
`*map[string]T`; a named type does not match (and reaches the same unfolder through
buildReflUnfolder) -/
def lookupGoTypeUnfolder (t : GoType) : Option PUK :=
  match t with
  | .slice e => (PK.ofExact? e).map .arr
  | .map e => (PK.ofExact? e).map .map
  | _ => (PK.ofExact? t).map .prim

mutual
/-- lookupReflUnfolder(ctx, PtrTo(t)) (no user unfolders, no Expander in this universe): the
registry first — for a named type that is being built (`open_`) it holds the placeholder
`lazyReflUnfolder` — then buildReflUnfolder, whose result is registered. -/
def lookupReflUnfolder (tbl : TypeTable) : Nat → List String → Reg → GoType → Except Err (RU × Reg)
  | 0, _, _, _ => .error .unsupported
  | fuel + 1, open_, reg, t =>
    match t.typeName? with
    | some n =>
      if open_.contains n then .ok (.ref n, reg) else
      match reg.lookup n with
      | some ru => .ok (ru, reg)
      | none =>
        match buildReflUnfolder tbl fuel (n :: open_) reg (t.un tbl) with
        | .error e => .error e
        | .ok (ru, reg') => .ok (ru, (n, ru) :: reg')
    | none => buildReflUnfolder tbl fuel open_ reg t
/-- buildReflUnfolder(ctx, PtrTo(t)): the switch over `t.Kind()` (`t` with names stripped) -/
def buildReflUnfolder (tbl : TypeTable) : Nat → List String → Reg → GoType → Except Err (RU × Reg)
  | 0, _, _, _ => .error .unsupported
  | fuel + 1, open_, reg, t =>
    match t with
    | .ifc | .bool | .string | .int _ | .float32 | .float64 =>
      match PK.ofExact? t with
      | some k => .ok (.lifted (.prim k), reg)             -- unfolderReflX
      | none => .error .unsupported
    | .array _ _ => .error .unsupported
    | .other _ => .error .unsupported
    | .ptr e => (lookupReflUnfolder tbl fuel open_ reg e).map fun (ru, r) => (.ptr e ru, r)
    | .slice e =>
      match PK.ofType? tbl e with
      | some k => .ok (.lifted (.arr k), reg)              -- unfolderReflArrX
      | none => (lookupReflUnfolder tbl fuel open_ reg e).map fun (ru, r) => (.slice e ru, r)
    | .imap _ => .error .mapRequiresStringKey
    | .map e =>
      match PK.ofType? tbl e with
      | some k => .ok (.lifted (.map k), reg)              -- unfolderReflMapX
      | none => (lookupReflUnfolder tbl fuel open_ reg e).map fun (ru, r) => (.map e ru, r)
    | .struct _ fs =>                                      -- createUnfolderReflStruct
      (fieldUnfolders tbl fuel open_ reg fs 0 []).map fun (fields, r) => (.struct fields, r)
    | .named _ _ | .ref _ => .error .unsupported           -- not reachable: names are stripped
/-- fieldUnfolders: field `i` of the remaining list is field index `base` of the struct -/
def fieldUnfolders (tbl : TypeTable) : Nat → List String → Reg → List (String × String × GoType) → Nat → Fields →
    Except Err (Fields × Reg)
  | 0, _, _, _, _, _ => .error .unsupported
  | _ + 1, _, reg, [], _, acc => .ok (acc, reg)
  | fuel + 1, open_, reg, (name, tag, t) :: rest, i, acc =>
    if !startsUpper name then fieldUnfolders tbl fuel open_ reg rest (i + 1) acc else
    let (tagName, opts) := parseTags tag
    if opts.omitF then fieldUnfolders tbl fuel open_ reg rest (i + 1) acc else
    if opts.squash then
      match t.un tbl with                                  -- st.Type.Kind() != reflect.Struct
      | .struct _ sfs =>
        match fieldUnfolders tbl fuel open_ reg sfs 0 [] with
        | .error e => .error e
        | .ok (sub, reg') =>
          -- fu.offset += st.Offset; duplicate names are an error
          if sub.any fun (n, _, _) => acc.any (·.1 == n) then .error .duplicateField else
          fieldUnfolders tbl fuel open_ reg' rest (i + 1) (acc ++ sub.map fun (n, off, ru) => (n, i :: off, ru))
      | _ => .error .squashNeedObject
    else
      let n := strBytes (if tagName != "" then tagName else toLowerAscii name)
      if acc.any (·.1 == n) then .error .duplicateField else
      -- makeFieldUnfolder
      match lookupGoPtrUnfolder tbl t with
      | some pu => fieldUnfolders tbl fuel open_ reg rest (i + 1) (acc ++ [(n, [i], .lifted pu)])
      | none =>
        match lookupReflUnfolder tbl fuel open_ reg t with
        | .error e => .error e
        | .ok (ru, reg') => fieldUnfolders tbl fuel open_ reg' rest (i + 1) (acc ++ [(n, [i], ru)])
end

/-- nesting depth of a descriptor: bounds the forwarding recursion of one event -/
def typeFuel : Nat := 256

/-- Unfolder.SetTarget(&target) for a target variable of type `t` holding `v`
(`to == nil` is `reset`); `tbl` = the named types -/
def setTarget (tbl : TypeTable) (t : GoType) (v : GoVal) (c : Ctx) : Except Err Ctx :=
  let c := { c with target := v, env := tbl }
  let run (c : Ctx) (m : M Unit) : Except Err Ctx :=
    match m c with
    | .ok _ c' => .ok c'
    | _ => .error .unsupported
  match lookupGoTypeUnfolder t with
  | some pu => run c (initStatePU pu (some { root := .target }))
  | none =>
    match lookupReflUnfolder tbl typeFuel [] c.reg t with
    | .error e => .error e                                -- (ctx.reg.reset(): not observable)
    | .ok (ru, reg) => run { c with reg := reg } (initStateRU ru (some { root := .target }))

/-- SetTarget(nil) / Reset: reinitialise the stacks, `valueBuffer.reset()`; the key cache
and its contents survive, and so does the type registry (`reg`).  The `reflect.New` cells of an
abandoned document are unreachable afterwards. -/
def reset (c : Ctx) : Ctx :=
  { c with
    unfolder := Stk.init .noTarget, value := Stk.init none, ptr := Stk.init none,
    key := Stk.init [], idx := Stk.init 0, baseType := Stk.init 0,
    valueBuffer := {}, cells := #[] }

/-- NewUnfolder(nil) -/
def newUnfolder : Ctx := {}

/-- EnableKeyCache(max) -/
def enableKeyCache (c : Ctx) (max : Int) : Ctx := { c with keyCache := Symbols.init max }

end SF.Unf
