/-
  SF.Gotype.UTypes — the universe of Go types and Go values the Unfolder mirror
  (`SF.Gotype.Unfold`) writes into, replacing `reflect` and raw pointers:

  * `GoType`  : bool | string | 10 integer kinds | float32/64 | interface{} | []T | map[string]T |
                *T | struct (field name, struct tag, type) — plus `[n]T` and `map[int]T`, which
                the unfolder refuses at SetTarget.
  * `GoVal`   : values with nil-ness explicit.  A slice carries its visible elements AND the
                elements hidden between len and cap (`reflect.Value.SetLen` in
                `unfolderReflSlice.prepare` re-exposes them without clearing).
  * `Path`    : a raw pointer of the Go code = a root (the target, a `reflect.New` cell, a
                `valueBuffer` scratch slot) + field/index steps.
  * canonical printing / parsing of types and values (line protocol, DESIGN appendix C).

  Phase 2 (arbitrary reflect-built struct types) replaces `GoType` by the shared universe; the
  machine in `Unfold.lean` only uses the functions exported here.
-/
import SF.Event
import SF.Proto
namespace SF.Unf
open SF

/-! ## types -/

inductive GoType
  | bool | string
  | int (k : NumKind)                  -- never `.byte` (byte = uint8 in Go): see `normKind`
  | float32 | float64
  | ifc                                -- interface{}
  | slice (e : GoType)
  | map (e : GoType)                   -- map[string]e
  | ptr (e : GoType)
  | array (n : Nat) (e : GoType)       -- refused by buildReflUnfolder (errUnsupported)
  | imap (e : GoType)                  -- map[K]e with a key type that is no string kind: refused (errMapRequiresStringKey)
  | other (kind : String)              -- chan, func, complex64/128, uintptr: refused (errUnsupported)
  | struct (name : String) (fields : List (String × String × GoType))   -- Go field name, tag, type; name "" = unnamed
  | named (name : String) (under : GoType)   -- a named non-struct type (`type MyInt int32`)
  | ref (name : String)                -- the named type `name` of the type table (this is how types refer to
                                       -- themselves: `type N struct{V int; Next *N}` is `struct "N" [.., ("Next","",ptr (ref "N"))]`)
  deriving Inhabited

/-- named types by name: the menagerie (`SF.Gotype.Menagerie`) or the table a translated type
brings along -/
abbrev TypeTable := String → Option GoType

/-- the type with names stripped at the head: what `reflect.Type.Kind()`, `Elem()`, `Field()`
look at -/
def GoType.under (tbl : TypeTable) : Nat → GoType → GoType
  | 0, _ => .other "unresolved"
  | fuel + 1, t =>
    match t with
    | .ref n => match tbl n with
      | some t' => GoType.under tbl fuel t'
      | none => .other ("unknown:" ++ n)
    | .named _ u => GoType.under tbl fuel u
    | t => t

def resolveFuel : Nat := 32
def GoType.un (tbl : TypeTable) (t : GoType) : GoType := t.under tbl resolveFuel

/-- the name a type is registered under (`reflect.Type` identity of named types) -/
def GoType.typeName? : GoType → Option String
  | .ref n => some n
  | .named n _ => some n
  | .struct n _ => if n.isEmpty then none else some n
  | _ => none

def normKind : NumKind → NumKind
  | .byte => .u8
  | k => k

def kindTypeName : NumKind → String
  | .i8 => "int8" | .i16 => "int16" | .i32 => "int32" | .i64 => "int64" | .int => "int"
  | .u8 => "uint8" | .u16 => "uint16" | .u32 => "uint32" | .u64 => "uint64" | .uint => "uint"
  | .byte => "uint8"

def kindOfTypeName? : String → Option NumKind
  | "int8" => some .i8 | "int16" => some .i16 | "int32" => some .i32 | "int64" => some .i64
  | "int" => some .int | "uint8" => some .u8 | "uint16" => some .u16 | "uint32" => some .u32
  | "uint64" => some .u64 | "uint" => some .uint | _ => none

/-- canonical type name (DESIGN appendix C `type`); struct types print as `@Name` -/
def GoType.name : GoType → String
  | .bool => "bool" | .string => "string" | .int k => kindTypeName k
  | .float32 => "float32" | .float64 => "float64" | .ifc => "any"
  | .slice e => "[]" ++ e.name
  | .map e => "map:" ++ e.name
  | .ptr e => "*" ++ e.name
  | .array n e => "[" ++ toString n ++ "]" ++ e.name
  | .imap e => "imap:" ++ e.name
  | .other k => k
  | .struct n _ => if n.isEmpty then "struct{…}" else "@" ++ n
  | .named n _ => "@" ++ n
  | .ref n => "@" ++ n

/-- full description of a struct type, compared with what `reflect` reports (op `unf-type`) -/
def GoType.describe : GoType → String
  | .struct n fs =>
    "@" ++ n ++ "{" ++ ";".intercalate (fs.map fun (fn, tag, t) =>
      fn ++ ":" ++ t.name ++ (if tag.isEmpty then "" else "`" ++ tag ++ "`")) ++ "}"
  | .named n u => "@" ++ n ++ "=" ++ u.name
  | t => t.name

/-! ## values -/

inductive GoVal
  | bool (b : Bool)
  | str (s : Bytes)
  | int (k : NumKind) (v : Int)
  | f32 (b : UInt32)
  | f64 (b : UInt64)
  | ifcNil
  | ifc (v : GoVal)                                        -- non-nil interface holding v
  | sliceNil (et : GoType)
  | slice (et : GoType) (elems : List GoVal) (hidden : List GoVal)   -- len = |elems|, cap ≥ |elems|+|hidden|
  | mapNil (et : GoType)
  | map (et : GoType) (ms : List (Bytes × GoVal))          -- no duplicate keys; order irrelevant
  | ptrNil (et : GoType)
  | ptr (et : GoType) (v : GoVal)                          -- pointer to a (private) v
  | struct (fs : List GoVal)
  | opaque (printed : String)                              -- zero value of a refused kind (chan, func, complex, uintptr)
  | invalid                                                -- no value (unresolved type)
  deriving Inhabited

mutual
/-- reflect.Zero -/
def zeroF (tbl : TypeTable) : Nat → GoType → GoVal
  | 0, _ => .invalid
  | fuel + 1, t =>
    match t with
    | .bool => .bool false
    | .string => .str []
    | .int k => .int k 0
    | .float32 => .f32 0
    | .float64 => .f64 0
    | .ifc => .ifcNil
    | .slice e => .sliceNil e
    | .map e => .mapNil e
    | .ptr e => .ptrNil e
    | .array n e => .slice e (List.replicate n (zeroF tbl fuel e)) []   -- a never-written [n]e: printed like a slice
    | .imap e => .mapNil e
    | .other k =>
      .opaque (if k == "complex64" then "c:0000000000000000"
               else if k == "complex128" then "c:00000000000000000000000000000000"
               else if k == "uintptr" then "0" else "nil")
    | .struct _ fs => .struct (zeroFieldsF tbl fuel fs)
    | .named _ u => zeroF tbl fuel u
    | .ref n => match tbl n with
      | some t' => zeroF tbl fuel t'
      | none => .invalid
def zeroFieldsF (tbl : TypeTable) : Nat → List (String × String × GoType) → List GoVal
  | 0, _ => []
  | _ + 1, [] => []
  | fuel + 1, (_, _, t) :: r => zeroF tbl fuel t :: zeroFieldsF tbl fuel r
end

/-- reflect.Zero (a struct cannot contain itself by value: the fuel is never exhausted) -/
def zero (tbl : TypeTable) (t : GoType) : GoVal := zeroF tbl 256 t

/-- dynamic type of a value stored in an interface (structs never are, in this model) -/
def GoVal.dynType : GoVal → GoType
  | .bool _ => .bool | .str _ => .string | .int k _ => .int (normKind k)
  | .f32 _ => .float32 | .f64 _ => .float64
  | .ifcNil => .ifc | .ifc _ => .ifc
  | .sliceNil et => .slice et | .slice et _ _ => .slice et
  | .mapNil et => .map et | .map et _ => .map et
  | .ptrNil et => .ptr et | .ptr et _ => .ptr et
  | .struct _ => .struct "" []
  | .opaque _ => .other "opaque"
  | .invalid => .array 0 .bool

/-! ### canonical printing

    bool `true|false`, string `s:<hex>`, integers decimal, floats `f:<hex8|hex16>`,
    slice `nil | [v,v]`, map `nil | {<hexkey>=v,…}` sorted by key, pointer `nil | &v`,
    struct `(v,v,…)` all fields in order, interface `nil | <type>v`. -/

def keyLt (a b : Bytes) : Bool := toHex a < toHex b

def insertSorted {α : Type} (kv : Bytes × α) : List (Bytes × α) → List (Bytes × α)
  | [] => [kv]
  | x :: r => if keyLt kv.1 x.1 then kv :: x :: r else x :: insertSorted kv r

def sortByKey {α : Type} (ms : List (Bytes × α)) : List (Bytes × α) :=
  ms.foldl (fun acc kv => insertSorted kv acc) []

mutual
def GoVal.print : GoVal → String
  | .bool b => if b then "true" else "false"
  | .str s => "s:" ++ toHex s
  | .int _ v => intToDec v
  | .f32 b => "f:" ++ hexN 8 b.toNat
  | .f64 b => "f:" ++ hexN 16 b.toNat
  | .ifcNil => "nil"
  | .ifc v => "<" ++ v.dynType.name ++ ">" ++ v.print
  | .sliceNil _ => "nil"
  | .slice _ es _ => "[" ++ ",".intercalate (printList es) ++ "]"
  | .mapNil _ => "nil"
  | .map _ ms => "{" ++ ",".intercalate ((sortByKey (printMems ms)).map fun (k, s) => toHex k ++ "=" ++ s) ++ "}"
  | .ptrNil _ => "nil"
  | .ptr _ v => "&" ++ v.print
  | .struct fs => "(" ++ ",".intercalate (printList fs) ++ ")"
  | .opaque p => p
  | .invalid => "?"
def printList : List GoVal → List String
  | [] => []
  | v :: r => v.print :: printList r
def printMems : List (Bytes × GoVal) → List (Bytes × String)
  | [] => []
  | (k, v) :: r => (k, v.print) :: printMems r
end

/-! ## paths (raw pointers) -/

inductive Step
  | field (i : Nat)
  | index (i : Nat)
  deriving Repr, DecidableEq, Inhabited

/-- where a pointer points into -/
inductive Root
  | target                  -- the value handed to SetTarget
  | cell (n : Nat)          -- a `reflect.New` allocation
  | arrays (i : Nat)        -- &ctx.valueBuffer.arrays[i]
  | mapPrimitive (i : Nat)  -- &ctx.valueBuffer.mapPrimitive[i]
  | mapAny (i : Nat)        -- &ctx.valueBuffer.mapAny[i]
  deriving Repr, DecidableEq, Inhabited

structure Path where
  root : Root
  steps : List Step := []
  deriving Repr, DecidableEq, Inhabited

def Path.push (p : Path) (s : Step) : Path := { p with steps := p.steps ++ [s] }
def Path.pushAll (p : Path) (ss : List Step) : Path := { p with steps := p.steps ++ ss }

def GoVal.get : GoVal → List Step → Option GoVal
  | v, [] => some v
  | .struct fs, .field i :: r =>
    match fs[i]? with
    | some f => f.get r
    | none => none
  | .slice _ es _, .index i :: r =>
    match es[i]? with
    | some e => e.get r
    | none => none
  | _, _ :: _ => none

def GoVal.set : GoVal → List Step → GoVal → Option GoVal
  | _, [], nv => some nv
  | .struct fs, .field i :: r, nv =>
    match fs[i]? with
    | some f => (f.set r nv).map fun f' => .struct (fs.set i f')
    | none => none
  | .slice et es h, .index i :: r, nv =>
    match es[i]? with
    | some e => (e.set r nv).map fun e' => .slice et (es.set i e') h
    | none => none
  | _, _ :: _, _ => none

/-! ## parsing (line protocol) — type-directed, fuel = input length -/

def takeWhileC (p : Char → Bool) : List Char → List Char × List Char
  | [] => ([], [])
  | c :: r => if p c then let (a, b) := takeWhileC p r; (c :: a, b) else ([], c :: r)

abbrev StructTable := TypeTable

def isNameChar (c : Char) : Bool := c.isAlphanum || c == '_'

def parseType (tbl : StructTable) : Nat → List Char → Option (GoType × List Char)
  | 0, _ => none
  | fuel + 1, cs =>
    match cs with
    | '[' :: ']' :: r => (parseType tbl fuel r).map fun (t, r') => (.slice t, r')
    | '[' :: r =>
      let (ds, r') := takeWhileC Char.isDigit r
      match decToNat? (String.ofList ds), r' with
      | some n, ']' :: r'' => (parseType tbl fuel r'').map fun (t, r3) => (.array n t, r3)
      | _, _ => none
    | '*' :: r => (parseType tbl fuel r).map fun (t, r') => (.ptr t, r')
    | '@' :: r =>
      let (n, r') := takeWhileC isNameChar r
      (tbl (String.ofList n)).map fun _ => (.ref (String.ofList n), r')
    | _ =>
      let (w, r) := takeWhileC isNameChar cs
      let ws := String.ofList w
      if ws == "map" then
        match r with
        | ':' :: r' => (parseType tbl fuel r').map fun (t, r'') => (.map t, r'')
        | _ => none
      else if ws == "imap" then
        match r with
        | ':' :: r' => (parseType tbl fuel r').map fun (t, r'') => (.imap t, r'')
        | _ => none
      else if ws == "bool" then some (.bool, r)
      else if ws == "string" then some (.string, r)
      else if ws == "float32" then some (.float32, r)
      else if ws == "float64" then some (.float64, r)
      else if ws == "any" then some (.ifc, r)
      else (kindOfTypeName? ws).map fun k => (.int k, r)

def parseTypeStr (tbl : StructTable) (s : String) : Option GoType :=
  match parseType tbl (s.length + 1) s.toList with
  | some (t, []) => some t
  | _ => none

def isHexChar (c : Char) : Bool := c.isDigit || ('a' ≤ c && c ≤ 'f')

mutual
def parseVal (tbl : StructTable) : Nat → GoType → List Char → Option (GoVal × List Char)
  | 0, _, _ => none
  | fuel + 1, t, cs =>
    match t.un tbl with
    | .bool =>
      match cs with
      | 't' :: 'r' :: 'u' :: 'e' :: r => some (.bool true, r)
      | 'f' :: 'a' :: 'l' :: 's' :: 'e' :: r => some (.bool false, r)
      | _ => none
    | .string =>
      match cs with
      | 's' :: ':' :: r =>
        let (h, r') := takeWhileC isHexChar r
        (ofHexChars h).map fun b => (.str b, r')
      | _ => none
    | .int k =>
      let (d, r) := takeWhileC (fun c => c.isDigit || c == '-') cs
      (decToInt? (String.ofList d)).map fun v => (.int k v, r)
    | .float32 =>
      match cs with
      | 'f' :: ':' :: r =>
        let (h, r') := takeWhileC isHexChar r
        if h.length == 8 then (ofHexChars h).map fun b => (.f32 (UInt32.ofNat (beNat b)), r') else none
      | _ => none
    | .float64 =>
      match cs with
      | 'f' :: ':' :: r =>
        let (h, r') := takeWhileC isHexChar r
        if h.length == 16 then (ofHexChars h).map fun b => (.f64 (UInt64.ofNat (beNat b)), r') else none
      | _ => none
    | .ifc =>
      match cs with
      | 'n' :: 'i' :: 'l' :: r => some (.ifcNil, r)
      | '<' :: r =>
        match parseType tbl (r.length + 1) r with
        | some (dt, '>' :: r') => (parseVal tbl fuel dt r').map fun (v, r'') => (.ifc v, r'')
        | _ => none
      | _ => none
    | .slice e =>
      match cs with
      | 'n' :: 'i' :: 'l' :: r => some (.sliceNil e, r)
      | '[' :: ']' :: r => some (.slice e [] [], r)
      | '[' :: r => (parseElems tbl fuel e r).map fun (es, r') => (.slice e es [], r')
      | _ => none
    | .map e =>
      match cs with
      | 'n' :: 'i' :: 'l' :: r => some (.mapNil e, r)
      | '{' :: '}' :: r => some (.map e [], r)
      | '{' :: r => (parseMems tbl fuel e r).map fun (ms, r') => (.map e ms, r')
      | _ => none
    | .ptr e =>
      match cs with
      | 'n' :: 'i' :: 'l' :: r => some (.ptrNil e, r)
      | '&' :: r => (parseVal tbl fuel e r).map fun (v, r') => (.ptr e v, r')
      | _ => none
    | .struct _ fs =>
      match cs with
      | '(' :: ')' :: r => if fs.isEmpty then some (.struct [], r) else none
      | '(' :: r => (parseFields tbl fuel fs r).map fun (vs, r') => (.struct vs, r')
      | _ => none
    | _ => none
/-- `v,v,…]` -/
def parseElems (tbl : StructTable) : Nat → GoType → List Char → Option (List GoVal × List Char)
  | 0, _, _ => none
  | fuel + 1, e, cs =>
    match parseVal tbl fuel e cs with
    | some (v, ',' :: r) => (parseElems tbl fuel e r).map fun (vs, r') => (v :: vs, r')
    | some (v, ']' :: r) => some ([v], r)
    | _ => none
/-- `hex=v,hex=v,…}` -/
def parseMems (tbl : StructTable) : Nat → GoType → List Char → Option (List (Bytes × GoVal) × List Char)
  | 0, _, _ => none
  | fuel + 1, e, cs =>
    let (h, r) := takeWhileC isHexChar cs
    match ofHexChars h, r with
    | some k, '=' :: r' =>
      match parseVal tbl fuel e r' with
      | some (v, ',' :: r'') => (parseMems tbl fuel e r'').map fun (ms, r3) => ((k, v) :: ms, r3)
      | some (v, '}' :: r'') => some ([(k, v)], r'')
      | _ => none
    | _, _ => none
/-- `v,v,…)` one per field -/
def parseFields (tbl : StructTable) : Nat → List (String × String × GoType) → List Char → Option (List GoVal × List Char)
  | 0, _, _ => none
  | _ + 1, [], _ => none
  | fuel + 1, (_, _, t) :: fs, cs =>
    match parseVal tbl fuel t cs with
    | some (v, ',' :: r) => (parseFields tbl fuel fs r).map fun (vs, r') => (v :: vs, r')
    | some (v, ')' :: r) => if fs.isEmpty then some ([v], r) else none
    | _ => none
end

/-- parse a whole value field; `-` is the zero value -/
def parseValStr (tbl : StructTable) (t : GoType) (s : String) : Option GoVal :=
  if s == "-" then some (zero tbl t) else
  match parseVal tbl (2 * s.length + 2) t s.toList with
  | some (v, []) => some v
  | _ => none

end SF.Unf
