/-
  SF.Cbor.Cst — SPECIFICATION of the supported CBOR subset (RFC 7049 §2), independent of
  the library: concrete syntax trees, their wire form, their value, the events a conforming
  parser reports, and an executable reference decoder.

  This file is part of the trusted base (short by design; DESIGN appendix A.4).
-/
import SF.Event
namespace SF.Cbor.Cst
open SF

/-- argument width of a head: immediate (value in the initial byte), or 1/2/4/8 bytes -/
inductive W | imm | w1 | w2 | w4 | w8
  deriving Repr, DecidableEq, Inhabited

def W.bytes : W → Nat | .imm => 0 | .w1 => 1 | .w2 => 2 | .w4 => 4 | .w8 => 8
def W.ai : W → Nat → Nat | .imm, n => n | .w1, _ => 24 | .w2, _ => 25 | .w4, _ => 26 | .w8, _ => 27
/-- the argument fits the width (non-minimal widths are allowed) -/
def W.fits : W → Nat → Bool
  | .imm, n => n < 24 | .w1, n => n < 256 | .w2, n => n < 65536
  | .w4, n => n < 4294967296 | .w8, n => n < 18446744073709551616

inductive Item
  | uint (w : W) (n : Nat)
  | nint (w : W) (n : Nat)                          -- value -1 - n
  | bytes (w : W) (bs : Bytes)
  | text (w : W) (bs : Bytes)
  | arr (w : W) (xs : List Item)
  | arrIndef (xs : List Item)
  | map (w : W) (ms : List (W × Bytes × Item))      -- text keys only: (key head width, key, value)
  | mapIndef (ms : List (W × Bytes × Item))
  | fals | tru | null | undef
  | f32 (bits : UInt32)
  | f64 (bits : UInt64)
  deriving Repr, Inhabited

/-- initial byte + argument -/
def head (major : Nat) (w : W) (n : Nat) : Bytes :=
  UInt8.ofNat (major * 32 + w.ai n) :: beBytes w.bytes n

mutual
def Item.wire : Item → Bytes
  | .uint w n => head 0 w n
  | .nint w n => head 1 w n
  | .bytes w bs => head 2 w bs.length ++ bs
  | .text w bs => head 3 w bs.length ++ bs
  | .arr w xs => head 4 w xs.length ++ wireList xs
  | .arrIndef xs => 0x9f :: (wireList xs ++ [0xff])
  | .map w ms => head 5 w ms.length ++ wireMems ms
  | .mapIndef ms => 0xbf :: (wireMems ms ++ [0xff])
  | .fals => [0xf4] | .tru => [0xf5] | .null => [0xf6] | .undef => [0xf7]
  | .f32 b => 0xfa :: beBytes 4 b.toNat
  | .f64 b => 0xfb :: beBytes 8 b.toNat
def wireList : List Item → Bytes
  | [] => []
  | x :: xs => x.wire ++ wireList xs
def wireMems : List (W × Bytes × Item) → Bytes
  | [] => []
  | (kw, k, v) :: ms => head 3 kw k.length ++ k ++ v.wire ++ wireMems ms
end

/- widths fit, lengths and negative arguments stay inside the supported range
(lengths < 2^63; negative integers ≥ -2^63) -/
mutual
def Item.ok : Item → Bool
  | .uint w n => w.fits n
  | .nint w n => w.fits n && n < 9223372036854775808
  | .bytes w bs => w.fits bs.length && bs.length < 9223372036854775808
  | .text w bs => w.fits bs.length && bs.length < 9223372036854775808
  | .arr w xs => w.fits xs.length && xs.length < 9223372036854775808 && okList xs
  | .arrIndef xs => decide (xs.length < 9223372036854775808) && okList xs
  | .map w ms => w.fits ms.length && ms.length < 9223372036854775808 && okMems ms
  | .mapIndef ms => decide (ms.length < 9223372036854775808) && okMems ms
  | _ => true
def okList : List Item → Bool
  | [] => true
  | x :: xs => x.ok && okList xs
def okMems : List (W × Bytes × Item) → Bool
  | [] => true
  | (kw, k, v) :: ms => kw.fits k.length && k.length < 9223372036854775808 && v.ok && okMems ms
end

/- the value RFC 7049 assigns (byte strings: element-wise arrays, the library's documented
representation; undefined ↦ null) -/
mutual
def Item.value : Item → Val
  | .uint _ n => .int n
  | .nint _ n => .int (-1 - (n : Int))
  | .bytes _ bs => .arr (bs.map fun b => .int b.toNat)
  | .text _ bs => .str bs
  | .arr _ xs => .arr (valueList xs)
  | .arrIndef xs => .arr (valueList xs)
  | .map _ ms => .obj (valueMems ms)
  | .mapIndef ms => .obj (valueMems ms)
  | .fals => .bool false | .tru => .bool true | .null => .null | .undef => .null
  | .f32 b => .f32 b
  | .f64 b => .f64 b
def valueList : List Item → List Val
  | [] => []
  | x :: xs => x.value :: valueList xs
def valueMems : List (W × Bytes × Item) → List (Bytes × Val)
  | [] => []
  | (_, k, v) :: ms => (k, v.value) :: valueMems ms
end

/-- kind in which an unsigned argument of this width is reported -/
def uintKind : W → NumKind
  | .imm => .u8 | .w1 => .u8 | .w2 => .u16 | .w4 => .u32 | .w8 => .u64

/-- kind in which `-1 - n` is reported: the signed kind of the argument's width when the
value fits it, else the next wider one -/
def nintKind : W → Nat → NumKind
  | .imm, _ => .i8
  | .w1, n => if n ≤ 127 then .i8 else .i16
  | .w2, n => if n ≤ 32767 then .i16 else .i32
  | .w4, n => if n ≤ 2147483647 then .i32 else .i64
  | .w8, _ => .i64

/- the exact event sequence a conforming parser delivers -/
mutual
def Item.events : Item → List Ev
  | .uint w n => [.num (uintKind w) n]
  | .nint w n => [.num (nintKind w n) (-1 - (n : Int))]
  | .bytes _ bs => .arrStart bs.length BT.byte :: (bs.map fun b => Ev.num .byte b.toNat) ++ [.arrEnd]
  | .text _ bs => [.str bs]
  | .arr _ xs => .arrStart xs.length BT.any :: eventsList xs ++ [.arrEnd]
  | .arrIndef xs => .arrStart (-1) BT.any :: eventsList xs ++ [.arrEnd]
  | .map _ ms => .objStart ms.length BT.any :: eventsMems ms ++ [.objEnd]
  | .mapIndef ms => .objStart (-1) BT.any :: eventsMems ms ++ [.objEnd]
  | .fals => [.bool false] | .tru => [.bool true] | .null => [.null] | .undef => [.null]
  | .f32 b => [.f32 b]
  | .f64 b => [.f64 b]
def eventsList : List Item → List Ev
  | [] => []
  | x :: xs => x.events ++ eventsList xs
def eventsMems : List (W × Bytes × Item) → List Ev
  | [] => []
  | (_, k, v) :: ms => .key k :: v.events ++ eventsMems ms
end

/-! ## Reference decoder (executable; used as the oracle on implementation output) -/

inductive DErr
  | truncated      -- the input ends inside an item
  | unsupported    -- well-formed CBOR outside the supported subset
  | malformed      -- not well-formed CBOR
  deriving Repr, DecidableEq, Inhabited

structure Hd where
  major : Nat
  ai : Nat
  w : W
  arg : Nat
  deriving Repr

def takeN (b : Bytes) (n : Nat) : Except DErr (Bytes × Bytes) :=
  if b.length < n then .error .truncated else .ok (b.take n, b.drop n)

/-- initial byte and argument; additional information 28..30 is not well-formed, 31 is
returned with `ai = 31` for the caller to interpret -/
def decodeHead (b : Bytes) : Except DErr (Hd × Bytes) :=
  match b with
  | [] => .error .truncated
  | b0 :: rest =>
    let major := b0.toNat / 32
    let ai := b0.toNat % 32
    if ai < 24 then .ok (⟨major, ai, .imm, ai⟩, rest)
    else if ai == 31 then .ok (⟨major, ai, .imm, 0⟩, rest)
    else if ai ≥ 28 then .error .malformed
    else
      let w : W := if ai == 24 then .w1 else if ai == 25 then .w2 else if ai == 26 then .w4 else .w8
      match takeN rest w.bytes with
      | .error e => .error e
      | .ok (a, rest') => .ok (⟨major, ai, w, beNat a⟩, rest')

mutual
def decodeItem : Nat → Bytes → Except DErr (Item × Bytes)
  | 0, _ => .error .truncated
  | fuel + 1, b =>
    match decodeHead b with
    | .error e => .error e
    | .ok (h, rest) =>
      if h.major == 0 then
        if h.ai == 31 then .error .malformed else .ok (.uint h.w h.arg, rest)
      else if h.major == 1 then
        if h.ai == 31 then .error .malformed
        else if h.arg ≥ 9223372036854775808 then .error .unsupported
        else .ok (.nint h.w h.arg, rest)
      else if h.major == 2 || h.major == 3 then
        if h.ai == 31 then .error .unsupported      -- indefinite-length strings
        else match takeN rest h.arg with
          | .error e => .error e
          | .ok (s, rest') => .ok (if h.major == 2 then .bytes h.w s else .text h.w s, rest')
      else if h.major == 4 then
        if h.ai == 31 then
          match decodeIndefList fuel rest with
          | .error e => .error e
          | .ok (xs, rest') => .ok (.arrIndef xs, rest')
        else match decodeList fuel h.arg rest with
          | .error e => .error e
          | .ok (xs, rest') => .ok (.arr h.w xs, rest')
      else if h.major == 5 then
        if h.ai == 31 then
          match decodeIndefMems fuel rest with
          | .error e => .error e
          | .ok (ms, rest') => .ok (.mapIndef ms, rest')
        else match decodeMems fuel h.arg rest with
          | .error e => .error e
          | .ok (ms, rest') => .ok (.map h.w ms, rest')
      else if h.major == 6 then
        if h.ai == 31 then .error .malformed else .error .unsupported      -- tags
      else -- major 7
        if h.ai == 20 then .ok (.fals, rest)
        else if h.ai == 21 then .ok (.tru, rest)
        else if h.ai == 22 then .ok (.null, rest)
        else if h.ai == 23 then .ok (.undef, rest)
        else if h.ai == 26 then .ok (.f32 (UInt32.ofNat h.arg), rest)
        else if h.ai == 27 then .ok (.f64 (UInt64.ofNat h.arg), rest)
        else if h.ai == 31 then .error .malformed     -- break outside an indefinite container
        else .error .unsupported                      -- other simple values, half floats

def decodeList : Nat → Nat → Bytes → Except DErr (List Item × Bytes)
  | _, 0, b => .ok ([], b)
  | 0, _, _ => .error .truncated
  | fuel + 1, n + 1, b =>
    match decodeItem fuel b with
    | .error e => .error e
    | .ok (x, rest) =>
      match decodeList fuel n rest with
      | .error e => .error e
      | .ok (xs, rest') => .ok (x :: xs, rest')

def decodeIndefList : Nat → Bytes → Except DErr (List Item × Bytes)
  | 0, _ => .error .truncated
  | _ + 1, [] => .error .truncated
  | fuel + 1, b0 :: rest =>
    if b0 == 0xff then .ok ([], rest) else
    match decodeItem fuel (b0 :: rest) with
    | .error e => .error e
    | .ok (x, rest') =>
      match decodeIndefList fuel rest' with
      | .error e => .error e
      | .ok (xs, rest'') => .ok (x :: xs, rest'')

def decodeKey (b : Bytes) : Except DErr (W × Bytes × Bytes) :=
  match decodeHead b with
  | .error e => .error e
  | .ok (h, rest) =>
    if h.major != 3 then .error .unsupported        -- non-text keys
    else if h.ai == 31 then .error .unsupported
    else match takeN rest h.arg with
      | .error e => .error e
      | .ok (k, rest') => .ok (h.w, k, rest')

def decodeMems : Nat → Nat → Bytes → Except DErr (List (W × Bytes × Item) × Bytes)
  | _, 0, b => .ok ([], b)
  | 0, _, _ => .error .truncated
  | fuel + 1, n + 1, b =>
    match decodeKey b with
    | .error e => .error e
    | .ok (kw, k, rest) =>
      match decodeItem fuel rest with
      | .error e => .error e
      | .ok (v, rest') =>
        match decodeMems fuel n rest' with
        | .error e => .error e
        | .ok (ms, rest'') => .ok ((kw, k, v) :: ms, rest'')

def decodeIndefMems : Nat → Bytes → Except DErr (List (W × Bytes × Item) × Bytes)
  | 0, _ => .error .truncated
  | _ + 1, [] => .error .truncated
  | fuel + 1, b0 :: rest =>
    if b0 == 0xff then .ok ([], rest) else
    match decodeKey (b0 :: rest) with
    | .error e => .error e
    | .ok (kw, k, rest') =>
      match decodeItem fuel rest' with
      | .error e => .error e
      | .ok (v, rest'') =>
        match decodeIndefMems fuel rest'' with
        | .error e => .error e
        | .ok (ms, rest''') => .ok ((kw, k, v) :: ms, rest''')
end

/-- fuel: every nesting level costs two units (item, list) and at least one byte -/
def decode (b : Bytes) : Except DErr (Item × Bytes) := decodeItem (2 * b.length + 2) b

/-- a stream: items back to back until the input is exhausted -/
def decodeAll : Nat → Bytes → Except DErr (List Item)
  | 0, _ => .error .truncated
  | _ + 1, [] => .ok []
  | fuel + 1, b =>
    match decode b with
    | .error e => .error e
    | .ok (x, rest) =>
      match decodeAll fuel rest with
      | .error e => .error e
      | .ok xs => .ok (x :: xs)

def decodeStream (b : Bytes) : Except DErr (List Item) := decodeAll (b.length + 1) b

/-! RFC 7049 appendix A vectors (tests of the specification, evaluated by the kernel) -/
example : (decode [0x18, 0x64]).toOption.map (·.1.value) == some (.int 100) := by decide
example : (decode [0x39, 0x03, 0xe7]).toOption.map (·.1.value) == some (.int (-1000)) := by decide
example : (decode [0x38, 0xc7]).toOption.map (·.1.value) == some (.int (-200)) := by decide
example : (decode [0x83, 0x01, 0x82, 0x02, 0x03, 0x82, 0x04, 0x05]).toOption.map (·.1.value)
    == some (.arr [.int 1, .arr [.int 2, .int 3], .arr [.int 4, .int 5]]) := by decide
example : (decode [0xbf, 0x61, 0x61, 0x01, 0x61, 0x62, 0x9f, 0x02, 0x03, 0xff, 0xff]).toOption.map (·.1.value)
    == some (.obj [([0x61], .int 1), ([0x62], .arr [.int 2, .int 3])]) := by decide
example : (decode [0x1b, 0xff, 0xff, 0xff, 0xff, 0xff, 0xff, 0xff, 0xff]).toOption.map (·.1.value)
    == some (.int 18446744073709551615) := by decide

end SF.Cbor.Cst
