/-
  SF.Cbor.Enc — mirror of cborl/visitor.go (the CBOR encoder).

  Every visitor method is rendered as the list of actions it performs, in order
  (`write`, `push`, `pop`); `exec` runs them against a writer that may start failing at its
  k-th call (C16) and stops at the first failed write, exactly as every Go helper returns
  the writer's error at once.
-/
import SF.Cbor.Defs
namespace SF.Cbor.Enc
open SF SF.Cbor

inductive Act
  | write (b : Bytes)
  | push (n : Int)
  | pop
  deriving Repr, DecidableEq

/-- vs.uint8/uint16/uint32/uint64(major, v): head with the minimal argument width.
`w` is the width of the Go function used (1,2,4,8 bytes): it bounds the cases tried. -/
def head (major : UInt8) (v : Nat) : Bytes :=
  if v < 24 then [major ||| UInt8.ofNat v]
  else if v ≤ 255 then [major ||| len8b, UInt8.ofNat v]
  else if v ≤ 65535 then (major ||| len16b) :: beBytes 2 v
  else if v ≤ 4294967295 then (major ||| len32b) :: beBytes 4 v
  else (major ||| len64b) :: beBytes 8 v

/-- vs.int8 … vs.int64: negative `v` is written as major 1 with argument `^v = -1 - v` -/
def intHead (v : Int) : Bytes :=
  if v < 0 then head majorNeg (-1 - v).toNat else head majorUint v.toNat

/-- vs.optLen -/
def optLen (major : UInt8) (len : Int) : Bytes :=
  if len < 0 then [major ||| lenIndef] else head major len.toNat

/-- vs.bytes(major, buf): header write, then payload write (two Write calls) -/
def bytesActs (major : UInt8) (buf : Bytes) : List Act :=
  [.write (head major buf.length), .write buf]

def f32Bytes (bits : UInt32) : Bytes := codeSingleFloat :: beBytes 4 bits.toNat
def f64Bytes (bits : UInt64) : Bytes := codeDoubleFloat :: beBytes 8 bits.toNat

/-- the writes of a basic scalar event -/
def scalarActs : Ev → List Act
  | .null => [.write [codeNull]]
  | .bool true => [.write [codeTrue]]
  | .bool false => [.write [codeFalse]]
  | .str s => bytesActs majorText s
  | .key s => bytesActs majorText s
  | .num k v => if k.signed then [.write (intHead v)] else [.write (head majorUint v.toNat)]
  | .f32 b => [.write (f32Bytes b)]
  | .f64 b => [.write (f64Bytes b)]
  | _ => []

/-- actions of one (extended) event, given the current length stack (only
`OnArrayFinished/OnObjectFinished` look at it) -/
def acts (ls : LenStack) : XEv → List Act
  | .ev (.arrStart len _) => [.write (optLen majorArr len), .push len]
  | .ev (.objStart len _) => [.write (optLen majorMap len), .push len]
  | .ev .arrEnd => .pop :: (if (ls.pop).2 < 0 then [.write [codeBreak]] else [])
  | .ev .objEnd => .pop :: (if (ls.pop).2 < 0 then [.write [codeBreak]] else [])
  | .ev e => scalarActs e
  | .strRef s => bytesActs majorText s
  | .keyRef s => bytesActs majorText s
  | .boolArr xs => .write (head majorArr xs.length) :: xs.flatMap (fun b => scalarActs (.bool b))
  | .strArr xs => .write (head majorArr xs.length) :: xs.flatMap (fun s => scalarActs (.str s))
  | .numArr k xs =>
    if k == .byte || k == .u8 then bytesActs majorBytes (xs.map fun v => UInt8.ofNat v.toNat)
    else .write (head majorArr xs.length) :: xs.flatMap (fun v => scalarActs (.num k v))
  | .f32Arr xs => .write (head majorArr xs.length) :: xs.flatMap (fun b => scalarActs (.f32 b))
  | .f64Arr xs => .write (head majorArr xs.length) :: xs.flatMap (fun b => scalarActs (.f64 b))
  -- cborl.Visitor has no On*Object methods: EnsureExtVisitor supplies map.go's expansion,
  -- see `step`
  | _ => []

/-- writer that fails from its `failFrom`-th call on (none: never) -/
structure Writer where
  out : Bytes := []
  calls : Nat := 0
  failFrom : Option Nat := none
  deriving Repr, DecidableEq, Inhabited

structure Enc where
  w : Writer := {}
  length : LenStack := {}
  deriving Repr, DecidableEq, Inhabited

def Writer.write (w : Writer) (b : Bytes) : Writer × Bool :=
  match w.failFrom with
  | some k => if w.calls ≥ k then ({ w with calls := w.calls + 1 }, false)
              else ({ w with out := w.out ++ b, calls := w.calls + 1 }, true)
  | none => ({ w with out := w.out ++ b }, true)     -- `calls` only matters for a failing writer

/-- run actions; stop at the first failed write -/
def exec (s : Enc) : List Act → Enc × Bool
  | [] => (s, true)
  | .write b :: rest =>
    match s.w.write b with
    | (w', true) => exec { s with w := w' } rest
    | (w', false) => ({ s with w := w' }, false)
  | .push n :: rest => exec { s with length := s.length.push n } rest
  | .pop :: rest => exec { s with length := (s.length.pop).1 } rest

/-- a sequence of basic events, each checked for an error in turn (map.go) -/
def execEvs (s : Enc) : List Ev → Enc × Bool
  | [] => (s, true)
  | e :: es =>
    match exec s (acts s.length (.ev e)) with
    | (s', true) => execEvs s' es
    | (s', false) => (s', false)

/-- one extended event; typed maps go through map.go's expansion into basic events -/
def step (s : Enc) (x : XEv) : Enc × Bool :=
  match x with
  | .boolObj _ | .strObj _ | .numObj _ _ | .f32Obj _ | .f64Obj _ => execEvs s x.expand
  | _ => exec s (acts s.length x)

/-- a whole stream; stops at the first event that returns an error.  Result: final state,
index of the first failing event (none = all succeeded). -/
def run (s : Enc) (xs : List XEv) : Enc × Option Nat :=
  let rec go (s : Enc) (i : Nat) : List XEv → Enc × Option Nat
    | [] => (s, none)
    | x :: rest =>
      match step s x with
      | (s', true) => go s' (i + 1) rest
      | (s', false) => (s', some i)
  go s 0 xs

/-- bytes written by a never-failing encoder, from its initial state -/
def encAll (xs : List XEv) : Bytes := (run {} xs).1.w.out

end SF.Cbor.Enc
