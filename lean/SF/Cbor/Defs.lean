/-
  SF.Cbor.Defs — constants of cborl/defs.go and the state constants of cborl/parse.go.
  The numeric values are re-extracted from /repo on every run into SF.Gen.Consts and checked
  equal to these definitions in SF.Gen.Check (so a changed constant breaks the build).
-/
import SF.Event
namespace SF.Cbor

def majorUint : UInt8 := 0x00
def majorNeg : UInt8 := 0x20
def majorBytes : UInt8 := 0x40
def majorText : UInt8 := 0x60
def majorArr : UInt8 := 0x80
def majorMap : UInt8 := 0xa0
def majorTag : UInt8 := 0xc0
def majorOther : UInt8 := 0xe0
def majorMask : UInt8 := 0xe0
def minorMask : UInt8 := 0x1f

def len8b : UInt8 := 24
def len16b : UInt8 := 25
def len32b : UInt8 := 26
def len64b : UInt8 := 27
def lenIndef : UInt8 := 31

def codeFalse : UInt8 := 0xf4
def codeTrue : UInt8 := 0xf5
def codeNull : UInt8 := 0xf6
def codeUndef : UInt8 := 0xf7
def codeHalfFloat : UInt8 := 0xf9
def codeSingleFloat : UInt8 := 0xfa
def codeDoubleFloat : UInt8 := 0xfb
def codeBreak : UInt8 := 0xff

-- parser states ('major')
def stFail : UInt8 := 1
def stValue : UInt8 := 2
def stLen : UInt8 := 3
def stStartX : UInt8 := 4
def stIndef : UInt8 := 1
def stStartArr : UInt8 := 0x84
def stStartMap : UInt8 := 0xa4
def stStartIndefArr : UInt8 := 0x85
def stStartIndefMap : UInt8 := 0xa5
def stKey : UInt8 := 0xa8
def stElem : UInt8 := 0xa9
-- 'minor'
def stStart : UInt8 := 1
def stCont : UInt8 := 2

/-- cborl/stack.go lengthStack (also used by the encoder).  `stack` head = top. -/
structure LenStack where
  stack : List Int := []
  current : Int := 0
  deriving Repr, DecidableEq, Inhabited

def LenStack.push (s : LenStack) (l : Int) : LenStack :=
  { stack := s.current :: s.stack, current := l }

/-- returns the popped value; on an empty stack `current := -1` and -1 is returned -/
def LenStack.pop (s : LenStack) : LenStack × Int :=
  match s.stack with
  | [] => ({ s with current := -1 }, -1)
  | top :: rest => ({ stack := rest, current := top }, s.current)

end SF.Cbor
