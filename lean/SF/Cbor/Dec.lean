/-
  SF.Cbor.Dec — mirror of cborl/decode.go (pull decoder) after the fix of F12.

  The reader is a script: the chunks successive `Read` calls return (an empty chunk is a
  `(0, nil)` read), then `(0, io.EOF)` forever; `lastWithEOF` makes the last chunk arrive
  together with `io.EOF`.  A byte-slice decoder (`NewBytesDecoder`) has `hasReader = false`
  and starts with the whole input in `buffer`.
-/
import SF.Cbor.Parse
namespace SF.Cbor.Dec
open SF SF.Cbor SF.Cbor.Parse

structure Dec where
  p : P := {}
  buffer : Bytes := []
  hasReader : Bool := true
  reads : List Bytes := []
  deriving Repr, Inhabited

inductive NextRes
  | ok | eof | unexpectedEOF | err (e : Err)
  deriving Repr, DecidableEq, Inhabited

/-- Decoder.eof -/
def eof (d : Dec) : NextRes :=
  match finalize d.p with
  | some _ => .unexpectedEOF
  | none => .eof

/-- Decoder.Next; fuel bounds the number of loop iterations -/
def next : Nat → Dec → Dec × NextRes
  | 0, d => (d, .err .outOfFuel)
  | fuel + 1, d =>
    let feedIt (d : Dec) : Dec × NextRes :=
      let r := feedUntil (fuelFor d.buffer) d.p d.buffer
      match r.err with
      | some e => ({ d with p := r.p }, .err e)
      | none =>
        let d := { d with p := r.p, buffer := r.rest }
        if r.done then (d, .ok) else next fuel d
    if d.buffer.length == 0 then
      if !d.hasReader then (d, eof d)
      else
        match d.reads with
        | [] => (d, eof d)                       -- Read returns (0, io.EOF)
        | c :: rest =>
          let d := { d with reads := rest, buffer := c }
          if c.length == 0 then next fuel d      -- (0, nil): retry
          else feedIt d
    else feedIt d

def nextFuel (d : Dec) : Nat := 2 * (d.buffer.length + d.reads.length + (d.reads.map List.length).sum) + 4

end SF.Cbor.Dec
