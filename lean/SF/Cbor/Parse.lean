/-
  SF.Cbor.Parse — mirror of cborl/parse.go (push parser) after the fixes F01 F03 F05 F08 F09.

  One Lean function per Go function, same case structure and order of effects.
  * `P` = the behaviour-relevant fields of `cborl.Parser`; the visitor is the event log `evs`
    (reversed) plus an optional fault index (`failAt`: the visitor returns an error from its
    k-th event on — C16).
  * Go `(b []byte, done bool, err error)` results are `R`; a `nil` rest is `[]`.
  * Every slice index that could go out of range is guarded and yields `Err.panic`; the
    `for` loop of `feedUntil` takes fuel and yields `Err.outOfFuel` (= hang) when it runs
    out — C03 proves neither happens.
-/
import SF.Cbor.Defs
namespace SF.Cbor.Parse
open SF SF.Cbor

inductive Err
  | invalidCode | textKeyRequired | indefByteSeq | intRange | tagUnsupported
  | halfFloatUnsupported | invalidState | lenRange | incomplete
  | visitor            -- the error returned by the visitor
  | failed             -- `p.err` of an earlier failed Write (stFail)
  | panic | outOfFuel
  deriving Repr, DecidableEq, Inhabited

structure St where
  major : UInt8
  minor : UInt8
  deriving Repr, DecidableEq, Inhabited

/-- cborl/stack.go stateStack; `stack` head = top -/
structure StateStack where
  stack : List St := []
  current : St := ⟨stValue, stStart⟩
  deriving Repr, DecidableEq, Inhabited

def StateStack.push (s : StateStack) (next : St) : StateStack :=
  if s.current.major != stFail then { stack := s.current :: s.stack, current := next }
  else { s with current := next }

def StateStack.pop (s : StateStack) : StateStack :=
  match s.stack with
  | [] => { s with current := ⟨stFail, stStart⟩ }
  | top :: rest => { stack := rest, current := top }

structure P where
  state : StateStack := {}
  length : LenStack := {}
  buffer : Bytes := []
  err : Option Err := none        -- p.err (set by Write only)
  evs : List Ev := []             -- events delivered so far, newest first
  failAt : Option Nat := none     -- visitor fails from this event index on
  deriving Repr, DecidableEq, Inhabited

structure R where
  p : P
  rest : Bytes
  done : Bool := false
  err : Option Err := none
  deriving Repr, Inhabited

/-- call a visitor method: log the event, fail if the fault index is reached -/
def visit (p : P) (e : Ev) : P × Option Err :=
  let n := p.evs.length
  let p' := { p with evs := e :: p.evs }
  match p.failAt with
  | some k => if n ≥ k then (p', some .visitor) else (p', none)
  | none => (p', none)

def setMajor (p : P) (m : UInt8) : P :=
  { p with state := { p.state with current := { p.state.current with major := m } } }
def setMinor (p : P) (m : UInt8) : P :=
  { p with state := { p.state with current := { p.state.current with minor := m } } }
def pushState (p : P) (s : St) : P := { p with state := p.state.push s }
def popSt (p : P) : P := { p with state := p.state.pop }
def pushLen (p : P) (l : Int) : P := { p with length := p.length.push l }
def popLen (p : P) : P := { p with length := (p.length.pop).1 }
def decLen (p : P) (n : Int) : P := { p with length := { p.length with current := p.length.current - n } }

/-- Parser.collect: gather `count` bytes of a token that may be split across writes.
Result: new buffer, remaining input, the token if complete. -/
def collect (buffer : Bytes) (b : Bytes) (count : Nat) : Bytes × Bytes × Option Bytes :=
  if buffer.length > 0 then
    let delta : Int := (count : Int) - buffer.length
    let cont (buffer b : Bytes) : Bytes × Bytes × Option Bytes :=
      if buffer.length ≥ count then
        let tmp := buffer.take count
        if buffer.length == count then ([], b, some tmp) else (buffer.drop count, b, some tmp)
      else if b.length ≥ count then (buffer, b.drop count, some (b.take count))
      else (buffer ++ b, [], none)
    if delta > 0 then
      let N := delta.toNat
      if N > b.length then (buffer ++ b, [], none)
      else cont (buffer ++ b.take N) (b.drop N)
    else cont buffer b
  else if b.length ≥ count then (buffer, b.drop count, some (b.take count))
  else (buffer ++ b, [], none)

def collectP (p : P) (b : Bytes) (count : Nat) : P × Bytes × Option Bytes :=
  let (buf, rest, tmp) := collect p.buffer b count
  ({ p with buffer := buf }, rest, tmp)

/-- onValue: a value is complete; close every enclosing definite container that is now
full.  Go: `onValue → arrayHandleLen/mapHandleLen → popState → onValue …`; every round pops
one state, so the recursion is structural in `n`, which every caller passes as the current
depth of the state stack (`p.state.stack.length`).  With an empty stack `pop` yields
`stFail`, for which `onValue` reports `done`. -/
def onValue : Nat → P → P × Bool × Option Err
  | n, p =>
    let m := p.state.current.major
    if m == majorArr || m == majorMap then
      let p := decLen p 1
      if p.length.current > 0 then (p, false, none) else
      match visit p (if m == majorArr then .arrEnd else .objEnd) with
      | (p, some e) => (p, false, some e)
      | (p, none) =>
        match n with
        | 0 => (popSt (popLen p), true, none)
        | n + 1 => onValue n (popSt (popLen p))
    else if m == (majorArr ||| stIndef) || m == (majorMap ||| stIndef) then (p, false, none)
    else (p, true, none)

/-- popState = state.pop(); onValue() -/
def popState (n : Nat) (p : P) : P × Bool × Option Err :=
  match n with
  | 0 => (popSt p, true, none)
  | n + 1 => onValue n (popSt p)

/-- arrayHandleLen / mapHandleLen, (done, err) part; `isArr` selects the finish event -/
def handleLenD (isArr : Bool) (n : Nat) (p : P) : P × Bool × Option Err :=
  if p.length.current > 0 then (p, false, none) else
  match visit p (if isArr then .arrEnd else .objEnd) with
  | (p, some e) => (p, false, some e)
  | (p, none) => popState n (popLen p)

def depth (p : P) : Nat := p.state.stack.length

def onValueR (p : P) (rest : Bytes) : R :=
  let (p, done, err) := onValue (depth p) p
  { p := p, rest := rest, done := done, err := err }

def popStateR (p : P) (rest : Bytes) : R :=
  let (p, done, err) := popState (depth p) p
  { p := p, rest := rest, done := done, err := err }

/-- visit, then on success onValue -/
def scalar (p : P) (e : Ev) (rest : Bytes) : R :=
  match visit p e with
  | (p, some err) => { p := p, rest := rest, err := some err }
  | (p, none) => onValueR p rest

/-- visit, then on success popState -/
def scalarPop (p : P) (e : Ev) (rest : Bytes) : R :=
  match visit p e with
  | (p, some err) => { p := p, rest := rest, done := true, err := some err }
  | (p, none) => popStateR p rest

def initByteSeq (p : P) (major minor : UInt8) (b : Bytes) : R :=
  if minor < len8b then
    { p := pushLen (pushState p ⟨major ||| stStartX, stStart⟩) minor.toNat, rest := b }
  else if minor > len64b then { p := p, rest := [], err := some .invalidCode }
  else { p := pushState (pushState p ⟨major ||| stStartX, stStart⟩) ⟨stLen, minor⟩, rest := b }

def initSub (p : P) (major minor : UInt8) (b : Bytes) : R :=
  if minor == lenIndef then
    { p := pushState (pushState p ⟨major ||| stIndef, stStart⟩) ⟨major ||| stStartX ||| stIndef, stStart⟩, rest := b }
  else if minor < len8b then
    { p := pushLen (pushState (pushState p ⟨major, stStart⟩) ⟨major ||| stStartX, stStart⟩) minor.toNat, rest := b }
  else if minor > len64b then { p := p, rest := [], err := some .invalidCode }
  else
    { p := pushState (pushState (pushState p ⟨major, stStart⟩) ⟨major ||| stStartX, stStart⟩) ⟨stLen, minor⟩, rest := b }

def stepValue (p : P) (b : Bytes) : R :=
  match b with
  | [] => { p := p, rest := b }
  | b0 :: bs =>
    let major := b0 &&& majorMask
    let minor := b0 &&& minorMask
    if major == majorUint then
      if b0 < len8b then scalar p (.num .u8 b0.toNat) bs
      else if minor > len64b then { p := p, rest := [], err := some .invalidCode }
      else { p := pushState p ⟨major, minor⟩, rest := bs }
    else if major == majorNeg then
      if minor < len8b then scalar p (.num .i8 (-1 - (minor.toNat : Int))) bs
      else if minor > len64b then { p := p, rest := [], err := some .invalidCode }
      else { p := pushState p ⟨major, minor⟩, rest := bs }
    else if major == majorBytes || major == majorText then
      if minor == lenIndef then { p := p, rest := [], err := some .indefByteSeq }
      else initByteSeq p major minor bs
    else if major == majorArr || major == majorMap then initSub p major minor bs
    else if major == majorTag then { p := p, rest := [], err := some .tagUnsupported }
    else
      if b0 == codeFalse then scalar p (.bool false) bs
      else if b0 == codeTrue then scalar p (.bool true) bs
      else if b0 == codeNull || b0 == codeUndef then scalar p .null bs
      else if b0 == codeHalfFloat then { p := p, rest := [], err := some .halfFloatUnsupported }
      else if b0 == codeSingleFloat || b0 == codeDoubleFloat then { p := pushState p ⟨b0, stStart⟩, rest := bs }
      else { p := p, rest := [], err := some .invalidCode }

/-- number of argument bytes for a width code -/
def widthOf (minor : UInt8) : Option Nat :=
  if minor == len8b then some 1 else if minor == len16b then some 2
  else if minor == len32b then some 4 else if minor == len64b then some 8 else none

/-- getUintN via collect (the 1-byte case indexes `b[0]` directly) -/
def getArg (p : P) (b : Bytes) (w : Nat) : Except Err (P × Bytes × Option Nat) :=
  if w == 1 then
    match b with
    | [] => .error .panic
    | b0 :: bs => .ok (p, bs, some b0.toNat)
  else
    let (p, rest, tmp) := collectP p b w
    .ok (p, rest, tmp.map beNat)

def uintKind (w : Nat) : NumKind := if w == 1 then .u8 else if w == 2 then .u16 else if w == 4 then .u32 else .u64

def stepUint (p : P) (b : Bytes) : R :=
  match widthOf p.state.current.minor with
  | none => { p := p, rest := b }              -- no case matches: nothing happens
  | some w =>
    match getArg p b w with
    | .error e => { p := p, rest := b, err := some e }
    | .ok (p, rest, none) => { p := p, rest := rest }
    | .ok (p, rest, some v) => scalarPop p (.num (uintKind w) v) rest

/-- stepNeg after the fix of F01: `-1 - v` in the kind of the argument width if the top bit
of the argument is clear, else in the next wider signed kind; 8-byte arguments ≥ 2^63 are
refused (errIntRange) -/
def negEvent (w : Nat) (v : Nat) : Except Err Ev :=
  let val : Int := -1 - (v : Int)
  if w == 1 then .ok (if v ≤ 127 then .num .i8 val else .num .i16 val)
  else if w == 2 then .ok (if v ≤ 32767 then .num .i16 val else .num .i32 val)
  else if w == 4 then .ok (if v ≤ 2147483647 then .num .i32 val else .num .i64 val)
  else if v ≤ 9223372036854775807 then .ok (.num .i64 val) else .error .intRange

def stepNeg (p : P) (b : Bytes) : R :=
  match widthOf p.state.current.minor with
  | none => { p := p, rest := b }
  | some w =>
    match getArg p b w with
    | .error e => { p := p, rest := b, err := some e }
    | .ok (p, rest, none) => { p := p, rest := rest }
    | .ok (p, rest, some v) =>
      match negEvent w v with
      | .error e => { p := p, rest := rest, done := true, err := some e }
      | .ok ev => scalarPop p ev rest

def stepLen (p : P) (b : Bytes) : R :=
  match widthOf p.state.current.minor with
  | none => { p := p, rest := b }
  | some w =>
    match getArg p b w with
    | .error e => { p := p, rest := b, err := some e }
    | .ok (p, rest, none) => { p := p, rest := rest }
    | .ok (p, rest, some v) =>
      let p := pushLen p v
      -- the length must fit into a non-negative int (64-bit)
      if v > 9223372036854775807 then { p := p, rest := [], err := some .lenRange }
      else { p := popSt p, rest := rest }

def stepFloat (p : P) (b : Bytes) (w : Nat) : R :=
  let (p, rest, tmp) := collectP p b w
  match tmp with
  | none => { p := p, rest := rest }
  | some t =>
    let ev := if w == 4 then Ev.f32 (UInt32.ofNat (beNat t)) else Ev.f64 (UInt64.ofNat (beNat t))
    match visit p ev with
    | (p, some e) => { p := p, rest := rest, done := true, err := some e }
    | (p, none) => popStateR p rest

def visitAll (p : P) : List Ev → P × Option Err
  | [] => (p, none)
  | e :: es =>
    match visit p e with
    | (p, some err) => (p, some err)
    | (p, none) => visitAll p es

/-- stepBytes after the array start was reported -/
def stepBytesGo (p : P) (b : Bytes) : R :=
  let L := p.length.current.toNat
  let done := b.length ≥ L
  let L := if done then L else b.length
  let p := if done then p else decLen p L
  match visitAll p ((b.take L).map fun c => Ev.num .byte c.toNat) with
  | (p, some e) => { p := p, rest := [], err := some e }
  | (p, none) =>
    let rest := b.drop L
    if done then
      match visit p .arrEnd with
      | (p, some e) => { p := popLen p, rest := rest, done := true, err := some e }
      | (p, none) => popStateR (popLen p) rest
    else { p := p, rest := rest }

def stepBytes (p : P) (b : Bytes) : R :=
  if p.state.current.minor == stStart then
    match visit p (.arrStart p.length.current BT.byte) with
    | (p, some e) => { p := p, rest := [], err := some e }
    | (p, none) => stepBytesGo (setMinor p stCont) b
  else stepBytesGo p b

def stepText (p : P) (b : Bytes) : R :=
  let (p, rest, tmp) := collectP p b p.length.current.toNat
  match tmp with
  | none => { p := p, rest := [] }
  | some t =>
    let p := popLen p
    match visit p (.str t) with
    | (p, some e) => { p := p, rest := rest, done := true, err := some e }
    | (p, none) => popStateR p rest

def stepKey (p : P) (b : Bytes) : R :=
  let (p, rest, tmp) := collectP p b p.length.current.toNat
  match tmp with
  | none => { p := p, rest := [] }
  | some t =>
    match visit p (.key t) with
    | (p, some e) => { p := p, rest := rest, err := some e }
    | (p, none) => { p := setMajor (popLen p) stElem, rest := rest }

def initMapKey (p : P) (b : Bytes) : R :=
  match b with
  | [] => { p := p, rest := b, err := some .panic }
  | b0 :: bs =>
    if (b0 &&& majorMask) != majorText then { p := p, rest := [], err := some .textKeyRequired }
    else if (b0 &&& minorMask) == lenIndef then { p := p, rest := [], err := some .indefByteSeq }
    else initByteSeq p stKey (b0 &&& minorMask) bs

def stepArray (p : P) (b : Bytes) : R :=
  if p.length.current > 0 then stepValue p b
  else
    let (p, done, err) := handleLenD true (depth p) p
    { p := p, rest := b, done := done, err := err }

def stepMap (p : P) (b : Bytes) : R :=
  if p.length.current > 0 then
    if b.length > 0 then initMapKey p b else { p := p, rest := b }
  else
    let (p, done, err) := handleLenD false (depth p) p
    { p := p, rest := b, done := done, err := err }

def indefArr (p : P) (b : Bytes) : R :=
  match b with
  | [] => { p := p, rest := b, err := some .panic }
  | b0 :: bs =>
    if b0 == codeBreak then
      match visit p .arrEnd with
      | (p, some e) => { p := p, rest := bs, err := some e }
      | (p, none) => popStateR p bs
    else stepValue p b

def indefMap (p : P) (b : Bytes) : R :=
  match b with
  | [] => { p := p, rest := b, err := some .panic }
  | b0 :: bs =>
    if b0 == codeBreak then
      match visit p .objEnd with
      | (p, some e) => { p := p, rest := bs, err := some e }
      | (p, none) => popStateR p bs
    else initMapKey p b

def execStep (p : P) (b : Bytes) : R :=
  let m := p.state.current.major
  if m == stFail then { p := p, rest := b, err := p.err }
  else if m == stValue then stepValue p b
  else if m == stLen then stepLen p b
  else if m == majorUint then stepUint p b
  else if m == majorNeg then stepNeg p b
  else if m == codeSingleFloat then stepFloat p b 4
  else if m == codeDoubleFloat then stepFloat p b 8
  else if m == (majorBytes ||| stStartX) then
    if p.length.current == 0 then
      match visit p (.arrStart 0 BT.byte) with
      | (p, some e) => { p := p, rest := b, err := some e }
      | (p, none) =>
        match visit p .arrEnd with
        | (p, some e) => { p := popLen p, rest := b, err := some e }
        | (p, none) => popStateR (popLen p) b
    else
      let p := setMajor p (m &&& ~~~stStartX)
      if b.length == 0 then { p := p, rest := b } else stepBytes p b
  else if m == majorBytes then stepBytes p b
  else if m == (majorText ||| stStartX) then
    if p.length.current == 0 then
      let p := popLen p
      match visit p (.str []) with
      | (p, some e) => { p := p, rest := b, err := some e }
      | (p, none) => popStateR p b
    else
      let p := setMajor p (m &&& ~~~stStartX)
      if b.length == 0 then { p := p, rest := b } else stepText p b
  else if m == majorText then stepText p b
  else if m == stStartArr then
    match visit p (.arrStart p.length.current BT.any) with
    | (p, some e) => { p := p, rest := b, err := some e }
    | (p, none) => stepArray (popSt p) b
  else if m == majorArr then stepArray p b
  else if m == stStartIndefArr then
    match visit p (.arrStart (-1) BT.any) with
    | (p, some e) => { p := p, rest := b, err := some e }
    | (p, none) => indefArr (popSt p) b
  else if m == (majorArr ||| stIndef) then indefArr p b
  else if m == stStartMap then
    match visit p (.objStart p.length.current BT.any) with
    | (p, some e) => { p := p, rest := b, err := some e }
    | (p, none) => stepMap (popSt p) b
  else if m == majorMap then stepMap p b
  else if m == stStartIndefMap then
    match visit p (.objStart (-1) BT.any) with
    | (p, some e) => { p := p, rest := b, err := some e }
    | (p, none) => indefMap (popSt p) b
  else if m == (majorMap ||| stIndef) then indefMap p b
  else if m == (stKey ||| stStartX) then
    if p.length.current == 0 then
      match visit p (.key []) with
      | (p, some e) => { p := p, rest := b, err := some e }
      | (p, none) => { p := setMajor (popLen p) stElem, rest := b }
    else stepKey (setMajor p (m &&& ~~~stStartX)) b
  else if m == stKey then stepKey p b
  else if m == stElem then stepValue (popSt p) b
  else { p := p, rest := b, err := some .invalidState }

/-- feedUntil: step until a top-level value is complete, an error occurs, or the input is
used up and no length-0 structure is waiting to be reported.  Result: parser, unconsumed
input, done, err. -/
def feedUntil : Nat → P → Bytes → R
  | 0, p, b => { p := p, rest := b, err := some .outOfFuel }
  | fuel + 1, p, b =>
    let r := execStep p b
    if r.done || r.err.isSome then r
    else
      let contParse := r.rest.length != 0 ||
        (r.p.state.current.major &&& (stStartX ||| stIndef)) == stStartX
      if !contParse then r else feedUntil fuel r.p r.rest

/-- fuel sufficient for any input of this length (C03 proves the bound): each step
consumes input or moves along a bounded chain of zero-input steps -/
def fuelFor (b : Bytes) : Nat := 4 * b.length + 8

/-- Parser.feed: `for len(b) > 0 { n, _, err := p.feedUntil(b); …; b = b[n:] }` -/
def feed : Nat → P → Bytes → P × Option Err
  | 0, p, _ => (p, some .outOfFuel)
  | fuel + 1, p, b =>
    if b.length == 0 then (p, none) else
    let r := feedUntil (fuelFor b) p b
    match r.err with
    | some e => (r.p, some e)
    | none => feed fuel r.p r.rest

def feedAll (p : P) (b : Bytes) : P × Option Err := feed (2 * b.length + 2) p b

/-- Parser.finalize (fix of F09) -/
def finalize (p : P) : Option Err :=
  let idle := p.state.stack.length == 0 && p.state.current == ⟨stValue, stStart⟩ && p.buffer.length == 0
  if idle then none else some .incomplete

/-- Parser.Write -/
def write (p : P) (b : Bytes) : P × Option Err :=
  let (p, e) := feedAll p b
  ({ p with err := e }, e)

/-- Parser.Parse / ParseString on a fresh or reused parser: feed, then finalize -/
def parse (p : P) (b : Bytes) : P × Option Err :=
  match feedAll p b with
  | (p, some e) => (p, some e)
  | (p, none) => (p, finalize p)

/-- NewParser + Write per chunk (io.Copy stops at the first error) + finalize
(= ParseReader; also the `Write*` + end-of-input entry point) -/
def writeChunks (p : P) : List Bytes → P × Option Err
  | [] => (p, finalize p)
  | c :: cs =>
    match write p c with
    | (p, some e) => (p, some e)
    | (p, none) => writeChunks p cs

def events (p : P) : List Ev := p.evs.reverse

end SF.Cbor.Parse
