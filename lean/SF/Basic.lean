/-
  SF.Basic — bytes, hex, big-endian numbers, small list lemmas.
  Core Lean only (no Mathlib): everything here is also linked into the `sfmodel` driver.
-/
namespace SF

abbrev Bytes := List UInt8

/-! ## hex -/

def hexDigit (n : Nat) : Char :=
  if n < 10 then Char.ofNat (48 + n) else Char.ofNat (87 + n)

def toHex (bs : Bytes) : String :=
  String.ofList (bs.foldr (fun b acc => hexDigit (b.toNat / 16) :: hexDigit (b.toNat % 16) :: acc) [])

def hexVal (c : Char) : Option Nat :=
  if '0' ≤ c ∧ c ≤ '9' then some (c.toNat - 48)
  else if 'a' ≤ c ∧ c ≤ 'f' then some (c.toNat - 87)
  else if 'A' ≤ c ∧ c ≤ 'F' then some (c.toNat - 55)
  else none

def ofHexChars : List Char → Option Bytes
  | [] => some []
  | [_] => none
  | a :: b :: rest =>
    match hexVal a, hexVal b, ofHexChars rest with
    | some x, some y, some r => some (UInt8.ofNat (x * 16 + y) :: r)
    | _, _, _ => none

def ofHex (s : String) : Option Bytes := ofHexChars s.toList

/-- induction from the right end of a list (core Lean has no `reverseRecOn`) -/
theorem snoc_induction {α : Type} {P : List α → Prop} (hnil : P [])
    (hsnoc : ∀ l a, P l → P (l ++ [a])) : ∀ l, P l := by
  intro l
  have : ∀ r : List α, P r.reverse := by
    intro r
    induction r with
    | nil => exact hnil
    | cons a r ih => rw [List.reverse_cons]; exact hsnoc _ _ ih
  simpa using this l.reverse

/-! ## big-endian -/

/-- value of a big-endian byte string -/
def beNat (bs : Bytes) : Nat := bs.foldl (fun acc b => acc * 256 + b.toNat) 0

/-- `w` bytes, big-endian, of `n mod 256^w` (Go: `binary.BigEndian.PutUintN`) -/
def beBytes : Nat → Nat → Bytes
  | 0, _ => []
  | w + 1, n => beBytes w (n / 256) ++ [UInt8.ofNat (n % 256)]

@[simp] theorem beBytes_length (w n : Nat) : (beBytes w n).length = w := by
  induction w generalizing n with
  | zero => rfl
  | succ w ih => simp [beBytes, ih]

theorem beNat_append_single (bs : Bytes) (b : UInt8) :
    beNat (bs ++ [b]) = beNat bs * 256 + b.toNat := by
  simp [beNat, List.foldl_append]

theorem beNat_beBytes (w n : Nat) (h : n < 256 ^ w) : beNat (beBytes w n) = n := by
  induction w generalizing n with
  | zero => simp [beBytes, beNat] at *; omega
  | succ w ih =>
    have h1 : n / 256 < 256 ^ w := by
      rw [Nat.pow_succ] at h
      exact Nat.div_lt_of_lt_mul (by rw [Nat.mul_comm]; exact h)
    rw [beBytes, beNat_append_single, ih _ h1]
    have : (UInt8.ofNat (n % 256)).toNat = n % 256 := by
      simp [UInt8.toNat_ofNat']
    rw [this]; omega

theorem beNat_lt (bs : Bytes) : beNat bs < 256 ^ bs.length := by
  induction bs using snoc_induction with
  | hnil => simp [beNat]
  | hsnoc bs b ih =>
    rw [beNat_append_single]
    simp only [List.length_append, List.length_singleton, Nat.pow_succ]
    have := b.toNat_lt
    omega

theorem beBytes_beNat (bs : Bytes) : beBytes bs.length (beNat bs) = bs := by
  induction bs using snoc_induction with
  | hnil => rfl
  | hsnoc bs b ih =>
    rw [beNat_append_single]
    simp only [List.length_append, List.length_singleton, beBytes]
    have hb := b.toNat_lt
    have h1 : (beNat bs * 256 + b.toNat) / 256 = beNat bs := by omega
    have h2 : (beNat bs * 256 + b.toNat) % 256 = b.toNat := by omega
    rw [h1, h2, ih]
    simp

/-! ## decimal text (used by the line protocol and by the JSON model) -/

def natToDec (n : Nat) : String := toString n

def intToDec (i : Int) : String :=
  if i < 0 then "-" ++ toString (-i).toNat else toString i.toNat

def decToNat? (s : String) : Option Nat :=
  if s.isEmpty then none else
  s.toList.foldl (fun acc c =>
    match acc with
    | none => none
    | some a => if '0' ≤ c ∧ c ≤ '9' then some (a * 10 + (c.toNat - 48)) else none) (some 0)

def decToInt? (s : String) : Option Int :=
  match s.toList with
  | '-' :: rest => (decToNat? (String.ofList rest)).map (fun n => - (Int.ofNat n))
  | _ => (decToNat? s).map Int.ofNat

end SF
