/-
  C18 for the UBJSON PULL DECODER (mirror: SF/Ubjson/Dec.lean) — final statements.

  A reader is the harness' `ChunkReader`: a script `cs : List Bytes` of chunks, each handed out in
  pieces of at most `bufsize` bytes per `Read`; an empty chunk is a `(0, nil)` read; after the
  script `(0, io.EOF)` forever; `lastEOF` makes the last piece arrive together with `io.EOF`.
  A stream is `wireStream xs trail` (SF/Proofs/UbjItem.lean): grammatical items, each after any
  number of no-ops `N`, and `trail` no-ops at the end.

  (1) `bytes_decoder_stream` / `next_one`: the BYTE-SLICE decoder returns one item per call —
      exactly its events — and then a clean EOF (trailing no-ops included).  Side condition: the
      one of the parser theorems (`free ≤ 1000000` per item — model fuel).
  (2) `reader_decoder_stream`: the same for the READER-DRIVEN decoder, for EVERY script with the
      stream as concatenation (empty chunks anywhere), BOTH values of `lastEOF`, EVERY buffer
      size ≥ 1.  Side condition `n + vcost x + 2 ≤ 2000000` per item (`n` no-ops before it; see
      FUEL below) — implied by `n + 3·|wire| + 2·free + 1 ≤ 2000000` (`cheap_of_size`).
  (3) `reader_decoder_truncated(_one)`: a stream that ends inside an item (after any number of
      complete items): the call after the complete items returns an ERROR of the end-of-input
      check (`incomplete`, `missingArrEnd` or `missingObjEnd`) — never `.eof`, never `.ok`.
  (4) `next_never_panics` (ARBITRARY bytes, scripts, buffer sizes, fuels);
      `next_loop_terminates` (ARBITRARY bytes: the result of `Next` does not depend on the loop
      fuel once it is ≥ `need d`, which `nextFuel` is: the loop of `Decoder.Next` makes at most
      one iteration per `Read` plus two); on grammatical streams no call reports `outOfFuel`
      (`reader_stream_no_outOfFuel`).
  (5) `reader_chunking_independent`, `reader_eq_bytes_decoder` (ARBITRARY bytes): any two scripts
      / buffer sizes / `lastEOF` flags with the same concatenation — and the byte-slice decoder on
      the concatenation — give the same sequence of results and events, PROVIDED no call reports
      `outOfFuel`.

  FUEL (why (2), (3), (5) carry a fuel condition; a MODEL artefact, the Go code has no fuel).
  `Decoder.Next` runs the parser loop with `fuelFor b = 8·|b| + 2000000` iterations PER READ
  BUFFER `b`.  A whole item in one buffer gets credit for all its bytes; the same item cut
  into reads does not: iterations that consume no input (emitting the elements of `[$Z#n`,
  closing counted containers) are charged to the read in which they happen.  Hence
      FALSE for the mirror:  ∀ x, x.ok → free x ≤ 1000000 → (reader-driven decoder reads x)
  COUNTEREXAMPLE (#eval, 12 s, not part of the build): `[#i1`×10 around `[$Z#l 1000000` (49
  bytes, `ok`, `free = 1000000`, `vcost = 2000045`): `newBytesDecoder w` → `.ok` with 1000022
  events; `newDecoder [w.take 48, w.drop 48] false 4096` → `.err .outOfFuel`.
  (For the same reason chunk independence proper fails: same item, two chunkings, `.ok` vs.
  `.err .outOfFuel`.)  The proved variants bound the iterations of the whole run over one item
  (`n + 1 + vcost x`: its no-ops, its marker, `vcost`) below the constant of `fuelFor`.
  NOT PROVED: the sharper side condition counting only the non-consuming iterations of an item.

  Proofs: SF/Proofs/UbjDecBase.lean (`nextG`, reader), UbjDecUntil.lean (fuel-free loop `Until`
  with iteration count, `until_decomp`, `until_split`, on top of the one-step split law
  `SF.Ubjson.Chunk.execStep_split` of UbjChunkSplitC.lean), UbjDecNext.lean (`next_whole`),
  UbjDecStack.lean, UbjDecReader.lean, UbjDecAny.lean, UbjDecBytes.lean.
-/
import SF.Proofs.UbjDecAny
import SF.Proofs.UbjDecBytes
namespace SF.Props.UbjDec
open SF SF.Ubjson SF.Ubjson.Parse SF.Ubjson.Dec SF.Ubjson.Syn SF.Ubjson.DecR

/-! ## (1) the byte-slice decoder -/

/-- one Next on a buffer that starts with a complete grammatical item after `n` no-ops: it
succeeds, delivers exactly that item's events and none of what follows, and keeps the remainder
(`vt'`: the scratch field `valueType`) -/
theorem next_one (n : Nat) (x : Item) (hx : x.ok = true) (hfree : free x ≤ 1000000) (rest : Bytes)
    (E : List Ev) (vt : Nat) (d : Dec) (hp : d.p = idle E vt) (hb : d.buffer = noops n ++ (x.wire ++ rest))
    (fuel : Nat) :
    ∃ vt', next (fuel + 1) d = ({ d with p := idle (x.events.reverse ++ E) vt', buffer := rest }, .ok) :=
  DecR.next_one n x hx hfree rest E vt d hp hb fuel

/-- C18 for the UBJSON BYTE-SLICE decoder: for EVERY stream of k grammatical items — no-ops
before each and at the end —, k calls to Next succeed, the events accumulated after the i-th
being exactly those of the first i items, and the (k+1)-th call reports io.EOF.  Any fuel ≥ 2
per call (the loop of `Next` runs at most twice) -/
theorem bytes_decoder_stream (f : Dec → Nat) (hf : ∀ d, 2 ≤ f d) (xs : List (Nat × Item)) (trail : Nat)
    (hok : okElems xs = true) (hfree : ∀ nx ∈ xs, free nx.2 ≤ 1000000) :
    nextsF f (xs.length + 1) (newBytesDecoder (wireStream xs trail)) =
      (List.range xs.length).map (fun i => (NextRes.ok, evElems (xs.take (i + 1)))) ++
        [(NextRes.eof, evElems xs)] := by
  rw [bytes_stream_from f hf xs trail hok hfree (newBytesDecoder (wireStream xs trail)) [] BT.any rfl rfl rfl,
    okTrace_eq]
  simp

/-- … with the fuel the model hands out -/
theorem bytes_decoder_stream_nextFuel (xs : List (Nat × Item)) (trail : Nat)
    (hok : okElems xs = true) (hfree : ∀ nx ∈ xs, free nx.2 ≤ 1000000) :
    nexts (xs.length + 1) (newBytesDecoder (wireStream xs trail)) =
      (List.range xs.length).map (fun i => (NextRes.ok, evElems (xs.take (i + 1)))) ++
        [(NextRes.eof, evElems xs)] :=
  bytes_decoder_stream nextFuel (fun d => by simp only [nextFuel]; omega) xs trail hok hfree

/-- non-vacuity: `N [#i 2 Z T` `i 5` `N`: a counted array after a no-op, an int8, a trailing no-op -/
example :
    okElems [(1, .arrN .i [(0, .null), (0, .tru)]), (0, .int .i8 5)] = true ∧
    (∀ nx ∈ [(1, Item.arrN .i [(0, .null), (0, .tru)]), (0, .int .i8 5)], free nx.2 ≤ 1000000) ∧
    wireStream [(1, .arrN .i [(0, .null), (0, .tru)]), (0, .int .i8 5)] 1 =
      [0x4e, 0x5b, 0x23, 0x69, 0x02, 0x5a, 0x54, 0x69, 0x05, 0x4e] ∧
    nexts 3 (newBytesDecoder [0x4e, 0x5b, 0x23, 0x69, 0x02, 0x5a, 0x54, 0x69, 0x05, 0x4e]) =
      [(.ok, [.arrStart 2 BT.any, .null, .bool true, .arrEnd]),
       (.ok, [.arrStart 2 BT.any, .null, .bool true, .arrEnd, .num .i8 5]),
       (.eof, [.arrStart 2 BT.any, .null, .bool true, .arrEnd, .num .i8 5])] := by
  decide +kernel

/-! ## (2) the reader-driven decoder -/

/-- the fuel of the model (`nextFuel`) is sufficient for the loop of `Next` -/
theorem enough_nextFuel : Enough nextFuel := DecR.enough_nextFuel

/-- the side condition of (2) and (3) in terms of sizes: an item with `n` no-ops before it is cheap
enough if `n + 3·|wire| + 2·(payload-free typed elements) + 1 ≤ 2000000` -/
theorem cheap_of_size (n : Nat) (x : Item) (h : n + 3 * x.wire.length + 2 * free x + 1 ≤ 2000000) :
    n + vcost x + 2 ≤ 2000000 := by
  have := vcost_le x
  omega

/-- C18 for the READER-DRIVEN UBJSON decoder.  For EVERY stream `wireStream xs trail` of
grammatical items (no-ops before each item and at the end), EVERY script `cs` of chunks with that
concatenation (empty chunks = `(0, nil)` reads anywhere), BOTH values of `lastEOF` (data arriving
together with io.EOF), EVERY buffer size ≥ 1 and any sufficient loop fuel `f` (e.g. `nextFuel`):
the first `xs.length` calls return `.ok`, the events accumulated after the i-th call are exactly
those of the first i items, and the next call returns `.eof` with no further event.  The trace
mentions neither `cs` nor `lastEOF` nor `bufsize`; in particular no call reports `outOfFuel`.
Side condition (model fuel, see the header): every item costs less than the constant of
`fuelFor`; `trail + 2 ≤ 2000000`. -/
theorem reader_decoder_stream (f : Dec → Nat) (hf : Enough f) (xs : List (Nat × Item)) (trail : Nat)
    (hok : okElems xs = true) (hc : ∀ nx ∈ xs, nx.1 + vcost nx.2 + 2 ≤ 2000000) (ht : trail + 2 ≤ 2000000)
    (cs : List Bytes) (lastEOF : Bool) (bufsize : Nat) (hbs : 1 ≤ bufsize)
    (hcs : cs.flatten = wireStream xs trail) :
    nextsF f (xs.length + 1) (newDecoder cs lastEOF bufsize) =
      (List.range xs.length).map (fun i => (NextRes.ok, evElems (xs.take (i + 1)))) ++
        [(NextRes.eof, evElems xs)] :=
  stream_from f hf xs trail hok hc ht _ BT.any ⟨Or.inl rfl, rfl, fun _ => hbs⟩
    (by rw [stream_newDecoder, hcs])

/-- … with the fuel the model hands out -/
theorem reader_decoder_stream_nextFuel (xs : List (Nat × Item)) (trail : Nat)
    (hok : okElems xs = true) (hc : ∀ nx ∈ xs, nx.1 + vcost nx.2 + 2 ≤ 2000000) (ht : trail + 2 ≤ 2000000)
    (cs : List Bytes) (lastEOF : Bool) (bufsize : Nat) (hbs : 1 ≤ bufsize)
    (hcs : cs.flatten = wireStream xs trail) :
    nexts (xs.length + 1) (newDecoder cs lastEOF bufsize) =
      (List.range xs.length).map (fun i => (NextRes.ok, evElems (xs.take (i + 1)))) ++
        [(NextRes.eof, evElems xs)] :=
  reader_decoder_stream nextFuel enough_nextFuel xs trail hok hc ht cs lastEOF bufsize hbs hcs

/-- … the byte-slice decoder is the same statement (no reader, hence no script) -/
theorem bytes_decoder_stream' (f : Dec → Nat) (hf : Enough f) (xs : List (Nat × Item)) (trail : Nat)
    (hok : okElems xs = true) (hc : ∀ nx ∈ xs, nx.1 + vcost nx.2 + 2 ≤ 2000000) (ht : trail + 2 ≤ 2000000) :
    nextsF f (xs.length + 1) (newBytesDecoder (wireStream xs trail)) =
      (List.range xs.length).map (fun i => (NextRes.ok, evElems (xs.take (i + 1)))) ++
        [(NextRes.eof, evElems xs)] :=
  stream_from f hf xs trail hok hc ht _ BT.any ⟨Or.inr ⟨rfl, rfl⟩, rfl, fun h => by simp [newBytesDecoder] at h⟩
    (stream_newBytesDecoder _)

/-- on such streams no call runs out of fuel -/
theorem reader_stream_no_outOfFuel (xs : List (Nat × Item)) (trail : Nat)
    (hok : okElems xs = true) (hc : ∀ nx ∈ xs, nx.1 + vcost nx.2 + 2 ≤ 2000000) (ht : trail + 2 ≤ 2000000)
    (cs : List Bytes) (lastEOF : Bool) (bufsize : Nat) (hbs : 1 ≤ bufsize)
    (hcs : cs.flatten = wireStream xs trail) :
    ∀ y ∈ nexts (xs.length + 1) (newDecoder cs lastEOF bufsize), y.1 = .ok ∨ y.1 = .eof := by
  rw [reader_decoder_stream_nextFuel xs trail hok hc ht cs lastEOF bufsize hbs hcs]
  intro y hy
  rcases List.mem_append.mp hy with h | h
  · obtain ⟨i, _, rfl⟩ := List.mem_map.mp h
    exact Or.inl rfl
  · simp only [List.mem_singleton] at h
    subst h
    exact Or.inr rfl

/-- non-vacuity: the stream `N [#i 2 Z T` `i 5` `N` cut inside the array header and after the first
element, with a `(0, nil)` read, the last chunk arriving together with io.EOF, buffers of 2 and
of 1 bytes -/
example :
    okElems [(1, .arrN .i [(0, .null), (0, .tru)]), (0, .int .i8 5)] = true ∧
    (∀ nx ∈ [(1, Item.arrN .i [(0, .null), (0, .tru)]), (0, .int .i8 5)], nx.1 + vcost nx.2 + 2 ≤ 2000000) ∧
    [[0x4e, 0x5b, 0x23], [], [0x69, 0x02, 0x5a], [0x54, 0x69, 0x05, 0x4e]].flatten =
      wireStream [(1, .arrN .i [(0, .null), (0, .tru)]), (0, .int .i8 5)] 1 ∧
    nexts 3 (newDecoder [[0x4e, 0x5b, 0x23], [], [0x69, 0x02, 0x5a], [0x54, 0x69, 0x05, 0x4e]] true 2) =
      [(.ok, [.arrStart 2 BT.any, .null, .bool true, .arrEnd]),
       (.ok, [.arrStart 2 BT.any, .null, .bool true, .arrEnd, .num .i8 5]),
       (.eof, [.arrStart 2 BT.any, .null, .bool true, .arrEnd, .num .i8 5])] ∧
    nexts 3 (newDecoder [[0x4e, 0x5b, 0x23], [], [0x69, 0x02, 0x5a], [0x54, 0x69, 0x05, 0x4e]] false 1) =
      nexts 3 (newDecoder [[0x4e, 0x5b, 0x23], [], [0x69, 0x02, 0x5a], [0x54, 0x69, 0x05, 0x4e]] true 2) := by
  decide +kernel

/-- the buffer size must be positive: with `len(buffer) = 0` every `Read` returns `(0, nil)` and
`Next` spins (in the mirror: runs out of fuel) -/
example : (nexts 1 (newDecoder [[0x5a]] false 0)).map (·.1) = [.err .outOfFuel] := by decide +kernel

/-! ### the fuel-independent form of (2) -/

/-- an explicit bound on the parser-loop iterations any single call needs on the stream: the
trailing no-ops, and per item its no-ops, its marker and `vcost` -/
def streamCost (xs : List (Nat × Item)) (trail : Nat) : Nat :=
  trail + 1 + (xs.map (fun nx => nx.1 + 1 + vcost nx.2)).sum

theorem le_streamCost (xs : List (Nat × Item)) (trail : Nat) :
    trail + 1 ≤ streamCost xs trail ∧ ∀ nx ∈ xs, nx.1 + 1 + vcost nx.2 ≤ streamCost xs trail := by
  refine ⟨by simp only [streamCost]; omega, ?_⟩
  induction xs with
  | nil => intro nx h; simp at h
  | cons y ys ih =>
    intro nx h
    simp only [streamCost, List.map_cons, List.sum_cons] at ih ⊢
    rcases List.mem_cons.mp h with h | h
    · subst h; omega
    · have := ih nx h; omega

/-- C18 (2), FUEL-INDEPENDENT FORM: NO SIZE CONDITION.  `nextG ff` is `Decoder.Next` with the
model's per-buffer parser fuel `fuelFor` replaced by an arbitrary `ff` (`next = nextG fuelFor`:
`DecR.next_eq_nextG`).  For EVERY stream of grammatical items, EVERY script, `lastEOF`, buffer size
≥ 1: whenever `ff` grants every buffer more than `streamCost xs trail` iterations, the trace is one
`.ok` per item with exactly its events, then `.eof`.  So the side conditions of
`reader_decoder_stream` are about the constant in `fuelFor` only (the Go code has no fuel). -/
theorem reader_decoder_stream_anyFuel (ff : Bytes → Nat) (f : Dec → Nat) (hf : Enough f)
    (xs : List (Nat × Item)) (trail : Nat) (hok : okElems xs = true) (hff : ∀ b, streamCost xs trail < ff b)
    (cs : List Bytes) (lastEOF : Bool) (bufsize : Nat) (hbs : 1 ≤ bufsize)
    (hcs : cs.flatten = wireStream xs trail) :
    nextsG ff f (xs.length + 1) (newDecoder cs lastEOF bufsize) =
      (List.range xs.length).map (fun i => (NextRes.ok, evElems (xs.take (i + 1)))) ++
        [(NextRes.eof, evElems xs)] :=
  streamG_from ff (streamCost xs trail) hff f hf xs trail hok (le_streamCost xs trail).2 (le_streamCost xs trail).1
    _ BT.any ⟨Or.inl rfl, rfl, fun _ => hbs⟩ (by rw [stream_newDecoder, hcs])

/-- `nextsG fuelFor` is `nextsF` -/
theorem nextsF_eq_nextsG (f : Dec → Nat) (n : Nat) (d : Dec) : nextsF f n d = nextsG fuelFor f n d :=
  DecR.nextsF_eq_nextsG f n d

/-- non-vacuity: the cost of the sample stream is 11 iterations -/
example : streamCost [(1, .arrN .i [(0, .null), (0, .tru)]), (0, .int .i8 5)] 1 = 11 := by decide +kernel

/-! ## (3) truncation -/

/-- C18, TRUNCATION, UBJSON.  If the bytes the reader delivers (in ANY script, with any buffer
size ≥ 1, with or without `lastEOF`) are the complete items `xs` followed — after `n` no-ops — by a
proper non-empty prefix of one more grammatical item `x`, then after `xs.length` successful calls
the next call returns an ERROR: the verdict of the end-of-input check on an open value
(`incomplete`, `missingArrEnd` or `missingObjEnd`) — not `.eof`, not `.ok`, and no parser error
before the end of the stream is seen either. -/
theorem reader_decoder_truncated (f : Dec → Nat) (hf : Enough f) (xs : List (Nat × Item))
    (hok : okElems xs = true) (hc : ∀ nx ∈ xs, nx.1 + vcost nx.2 + 2 ≤ 2000000)
    (n : Nat) (x : Item) (hx : x.ok = true) (hcx : n + vcost x + 2 ≤ 2000000) (k : Nat) (hk0 : 0 < k)
    (hk : k < x.wire.length)
    (cs : List Bytes) (lastEOF : Bool) (bufsize : Nat) (hbs : 1 ≤ bufsize)
    (hcs : cs.flatten = wireElems xs ++ (noops n ++ x.wire.take k)) :
    ∃ e evs, (e = .incomplete ∨ e = .missingArrEnd ∨ e = .missingObjEnd) ∧
      nextsF f (xs.length + 1) (newDecoder cs lastEOF bufsize) =
        (List.range xs.length).map (fun i => (NextRes.ok, evElems (xs.take (i + 1)))) ++ [(NextRes.err e, evs)] :=
  truncated_from f hf xs hok hc n x hx hcx k hk0 hk _ BT.any ⟨Or.inl rfl, rfl, fun _ => hbs⟩
    (by rw [stream_newDecoder, hcs])

/-- … the byte-slice decoder on a truncated slice -/
theorem bytes_decoder_truncated (f : Dec → Nat) (hf : Enough f) (xs : List (Nat × Item))
    (hok : okElems xs = true) (hc : ∀ nx ∈ xs, nx.1 + vcost nx.2 + 2 ≤ 2000000)
    (n : Nat) (x : Item) (hx : x.ok = true) (hcx : n + vcost x + 2 ≤ 2000000) (k : Nat) (hk0 : 0 < k)
    (hk : k < x.wire.length) :
    ∃ e evs, (e = .incomplete ∨ e = .missingArrEnd ∨ e = .missingObjEnd) ∧
      nextsF f (xs.length + 1) (newBytesDecoder (wireElems xs ++ (noops n ++ x.wire.take k))) =
        (List.range xs.length).map (fun i => (NextRes.ok, evElems (xs.take (i + 1)))) ++ [(NextRes.err e, evs)] :=
  truncated_from f hf xs hok hc n x hx hcx k hk0 hk _ BT.any
    ⟨Or.inr ⟨rfl, rfl⟩, rfl, fun h => by simp [newBytesDecoder] at h⟩ (stream_newBytesDecoder _)

/-- the single-item case, as a statement about one call: a proper non-empty prefix of an item,
however it is split into reads, yields an error of the end-of-input check -/
theorem reader_decoder_truncated_one (x : Item) (hx : x.ok = true) (hcx : vcost x + 2 ≤ 2000000) (k : Nat)
    (hk0 : 0 < k) (hk : k < x.wire.length) (cs : List Bytes) (lastEOF : Bool) (bufsize : Nat) (hbs : 1 ≤ bufsize)
    (hcs : cs.flatten = x.wire.take k) (fuel : Nat) (hf : need (newDecoder cs lastEOF bufsize) ≤ fuel) :
    ∃ e, (next fuel (newDecoder cs lastEOF bufsize)).2 = .err e ∧
      (e = .incomplete ∨ e = .missingArrEnd ∨ e = .missingObjEnd) :=
  next_truncated 0 x hx (by omega) k hk0 hk [] BT.any _ ⟨Or.inl rfl, rfl, fun _ => hbs⟩
    (by rw [stream_newDecoder, hcs]; simp [noops]) fuel hf

/-- non-vacuity: `Z` followed by `[#i 2 Z "ab"` cut inside the string (after the length), and cut
inside the counted array after its first element — in reads that cut the array header -/
example :
    okElems [(0, Item.null)] = true ∧ (Item.arrN .i [(0, .null), (0, .str .i [0x61, 0x62])]).ok = true ∧
    0 + vcost (Item.arrN .i [(0, .null), (0, .str .i [0x61, 0x62])]) + 2 ≤ 2000000 ∧
    0 < 8 ∧ 8 < (Item.arrN .i [(0, .null), (0, .str .i [0x61, 0x62])]).wire.length ∧
    [[0x5a, 0x5b, 0x23], [], [0x69, 0x02, 0x5a, 0x53], [0x69, 0x02]].flatten =
      wireElems [(0, Item.null)] ++ (noops 0 ++ (Item.arrN .i [(0, .null), (0, .str .i [0x61, 0x62])]).wire.take 8) ∧
    nexts 2 (newDecoder [[0x5a, 0x5b, 0x23], [], [0x69, 0x02, 0x5a, 0x53], [0x69, 0x02]] true 3) =
      [(.ok, [.null]), (.err .incomplete, [.null, .arrStart 2 BT.any, .null])] ∧
    nexts 2 (newDecoder [[0x5a, 0x5b, 0x23], [], [0x69, 0x02, 0x5a]] false 3) =
      [(.ok, [.null]), (.err .missingArrEnd, [.null, .arrStart 2 BT.any, .null])] := by
  decide +kernel

/-! ## (4) no panic, no hang of the loop of `Next` — ARBITRARY bytes -/

/-- `Decoder.Next` NEVER PANICS: ANY bytes in ANY script with ANY buffer size (0 included) and ANY
fuel function, reader-driven … -/
theorem next_never_panics (f : Dec → Nat) (cs : List Bytes) (lastEOF : Bool) (bufsize : Nat) (n : Nat) :
    ∀ y ∈ nextsF f n (newDecoder cs lastEOF bufsize), y.1 ≠ .err .panic :=
  nextsF_no_panic f n _ good_default (pending_idle [] BT.any)

/-- … and byte-slice -/
theorem next_never_panics_bytes (f : Dec → Nat) (b : Bytes) (n : Nat) :
    ∀ y ∈ nextsF f n (newBytesDecoder b), y.1 ≠ .err .panic :=
  nextsF_no_panic f n _ good_default (pending_idle [] BT.any)

/-- THE LOOP OF `Decoder.Next` TERMINATES on ANY bytes in ANY script with ANY buffer size ≥ 1: one
call needs at most `need d` iterations (one per `Read` that is not the final `(0, io.EOF)`, one for
buffered bytes, one for the end) — its result is the same for every loop fuel ≥ `need d` -/
theorem next_loop_terminates (cs : List Bytes) (lastEOF : Bool) (bufsize : Nat) (hbs : 1 ≤ bufsize)
    (f₁ f₂ : Nat) (h₁ : need (newDecoder cs lastEOF bufsize) ≤ f₁) (h₂ : need (newDecoder cs lastEOF bufsize) ≤ f₂) :
    next f₁ (newDecoder cs lastEOF bufsize) = next f₂ (newDecoder cs lastEOF bufsize) := by
  have h := readyA_newDecoder cs lastEOF bufsize hbs
  rw [next_eq_nextG]
  exact nextG_fuel_irrelevant fuelFor f₁ f₂ _ h.rd h.g h.np h.bs h₁ h₂

/-- … for whole sequences of calls: any two sufficient fuel functions (e.g. `nextFuel` and `need`)
give the same trace.  So an `outOfFuel` in a trace is never the loop of `Next` running dry: it is
the parser's per-buffer fuel `fuelFor` (event floods like `[$Z#l…`, see SF/Proofs/UbjParseTop.lean) -/
theorem nexts_loop_fuel_irrelevant (f₁ f₂ : Dec → Nat) (hf₁ : Enough f₁) (hf₂ : Enough f₂) (cs : List Bytes)
    (lastEOF : Bool) (bufsize : Nat) (hbs : 1 ≤ bufsize) (n : Nat) :
    nextsF f₁ n (newDecoder cs lastEOF bufsize) = nextsF f₂ n (newDecoder cs lastEOF bufsize) :=
  nextsF_fuel_irrelevant f₁ f₂ hf₁ hf₂ n _ (readyA_newDecoder cs lastEOF bufsize hbs)

/-- `need` itself is a sufficient fuel function, and is at most `nextFuel` -/
example : Enough need := fun _ => Nat.le_refl _

/-- non-vacuity: the loop fuel has to grow with the number of reads: 3 iterations are too few for
this script of 4 reads with a 2-byte buffer, `need` (= 8) are enough, `nextFuel` is 18 -/
example :
    (next 3 (newDecoder [[0x5b], [], [0x5a], [0x5d]] false 2)).2 = .err .outOfFuel ∧
    need (newDecoder [[0x5b], [], [0x5a], [0x5d]] false 2) = 8 ∧
    (next 8 (newDecoder [[0x5b], [], [0x5a], [0x5d]] false 2)).2 = .ok ∧
    nextFuel (newDecoder [[0x5b], [], [0x5a], [0x5d]] false 2) = 18 := by
  decide +kernel

/-! ## (5) ARBITRARY BYTES: the read sizes do not matter -/

/-- C18, READ SIZES DO NOT MATTER, for ARBITRARY bytes (valid, invalid or truncated): any two
scripts with the same concatenation — with any buffer sizes ≥ 1 and any `lastEOF` flags — give the
same sequence of `Next` results and the same accumulated events, call by call, up to and including
the first call that does not return `.ok` — PROVIDED neither trace contains `outOfFuel` (the model's
per-buffer parser fuel; see the header for the counterexample without this proviso) -/
theorem reader_chunking_independent (f : Dec → Nat) (hf : Enough f) (cs₁ cs₂ : List Bytes)
    (e₁ e₂ : Bool) (n₁ n₂ : Nat) (hn₁ : 1 ≤ n₁) (hn₂ : 1 ≤ n₂) (h : cs₁.flatten = cs₂.flatten) (n : Nat)
    (hno₁ : ∀ y ∈ nextsF f n (newDecoder cs₁ e₁ n₁), y.1 ≠ .err .outOfFuel)
    (hno₂ : ∀ y ∈ nextsF f n (newDecoder cs₂ e₂ n₂), y.1 ≠ .err .outOfFuel) :
    nextsF f n (newDecoder cs₁ e₁ n₁) = nextsF f n (newDecoder cs₂ e₂ n₂) :=
  nextsF_congr f f hf hf n _ _ (readyA_newDecoder cs₁ e₁ n₁ hn₁) (readyA_newDecoder cs₂ e₂ n₂ hn₂) rfl
    (by rw [stream_newDecoder, stream_newDecoder, h]) hno₁ hno₂

/-- … and it is the sequence the BYTE-SLICE decoder (`NewBytesDecoder`) produces on the
concatenation -/
theorem reader_eq_bytes_decoder (f : Dec → Nat) (hf : Enough f) (cs : List Bytes) (e : Bool) (bufsize : Nat)
    (hbs : 1 ≤ bufsize) (n : Nat)
    (hno₁ : ∀ y ∈ nextsF f n (newDecoder cs e bufsize), y.1 ≠ .err .outOfFuel)
    (hno₂ : ∀ y ∈ nextsF f n (newBytesDecoder cs.flatten), y.1 ≠ .err .outOfFuel) :
    nextsF f n (newDecoder cs e bufsize) = nextsF f n (newBytesDecoder cs.flatten) :=
  nextsF_congr f f hf hf n _ _ (readyA_newDecoder cs e bufsize hbs) (readyA_newBytesDecoder _) rfl
    (by rw [stream_newDecoder, stream_newBytesDecoder]) hno₁ hno₂

/-- non-vacuity: an invalid document (`Z` then `[ Z` followed by the unknown marker 0x01) in two
different scripts / buffer sizes and as a byte slice: no `outOfFuel`, same trace -/
example :
    nexts 3 (newDecoder [[0x5a, 0x5b], [0x5a], [0x01, 0x05]] false 4) =
      nexts 3 (newDecoder [[0x5a], [], [0x5b, 0x5a, 0x01], [0x05]] true 1) ∧
    nexts 3 (newDecoder [[0x5a, 0x5b], [0x5a], [0x01, 0x05]] false 4) =
      nexts 3 (newBytesDecoder [0x5a, 0x5b, 0x5a, 0x01, 0x05]) ∧
    nexts 3 (newDecoder [[0x5a, 0x5b], [0x5a], [0x01, 0x05]] false 4) =
      [(.ok, [.null]), (.err .unknownMarker, [.null, .arrStart (-1) BT.any, .null])] := by
  decide +kernel

end SF.Props.UbjDec
