/-
  CBOR items as event trees: `t.events` / `t.value` of the specification (SF/Cbor/Cst.lean)
  are the events / value of a contract-conforming tree.
-/
import SF.Proofs.Tree
import SF.Cbor.Cst
namespace SF.Cbor.Cst
open SF

mutual
def Item.tree : Item → ETree
  | .uint w n => .num (uintKind w) n
  | .nint w n => .num (nintKind w n) (-1 - (n : Int))
  | .bytes _ bs => .arr bs.length BT.byte (bs.map fun b => ETree.num .byte b.toNat)
  | .text _ bs => .str bs
  | .arr _ xs => .arr xs.length BT.any (treeList xs)
  | .arrIndef xs => .arr (-1) BT.any (treeList xs)
  | .map _ ms => .obj ms.length BT.any (treeMems ms)
  | .mapIndef ms => .obj (-1) BT.any (treeMems ms)
  | .fals => .bool false | .tru => .bool true | .null => .null | .undef => .null
  | .f32 b => .f32 b
  | .f64 b => .f64 b
def treeList : List Item → List ETree
  | [] => []
  | x :: xs => x.tree :: treeList xs
def treeMems : List (W × Bytes × Item) → List (Bytes × ETree)
  | [] => []
  | (_, k, v) :: ms => (k, v.tree) :: treeMems ms
end

theorem bytes_events (bs : Bytes) :
    ETree.eventsList (bs.map fun b => ETree.num .byte b.toNat) = bs.map fun b => Ev.num .byte b.toNat := by
  induction bs with
  | nil => rfl
  | cons b bs ih => simp [ETree.eventsList, ETree.events, ih]

theorem bytes_values (bs : Bytes) :
    ETree.valueList (bs.map fun b => ETree.num .byte b.toNat) = bs.map fun b => Val.int b.toNat := by
  induction bs with
  | nil => rfl
  | cons b bs ih => simp [ETree.valueList, ETree.value, ih]

theorem bytes_wf (bs : Bytes) : ETree.wfList BT.byte (bs.map fun b => ETree.num .byte b.toNat) = true := by
  induction bs with
  | nil => rfl
  | cons b bs ih =>
    simp only [List.map_cons, ETree.wfList, ih, Bool.and_true, ETree.wf]
    simp [ETree.matchesBT, Ev.matchesBT, NumKind.baseType, BT.byte, BT.any]

mutual
theorem tree_events (t : Item) : t.tree.events = t.events := by
  match t with
  | .uint w n | .nint w n | .text w bs | .fals | .tru | .null | .undef | .f32 b | .f64 b =>
    simp [Item.tree, ETree.events, Item.events]
  | .bytes w bs => simp [Item.tree, ETree.events, Item.events, bytes_events]
  | .arr w xs => simp [Item.tree, ETree.events, Item.events, treeList_events xs]
  | .arrIndef xs => simp [Item.tree, ETree.events, Item.events, treeList_events xs]
  | .map w ms => simp [Item.tree, ETree.events, Item.events, treeMems_events ms]
  | .mapIndef ms => simp [Item.tree, ETree.events, Item.events, treeMems_events ms]
theorem treeList_events (xs : List Item) : ETree.eventsList (treeList xs) = eventsList xs := by
  match xs with
  | [] => rfl
  | x :: xs' => simp [treeList, ETree.eventsList, eventsList, tree_events x, treeList_events xs']
theorem treeMems_events (ms : List (W × Bytes × Item)) : ETree.eventsMems (treeMems ms) = eventsMems ms := by
  match ms with
  | [] => rfl
  | (kw, k, v) :: ms' => simp [treeMems, ETree.eventsMems, eventsMems, tree_events v, treeMems_events ms']
end

mutual
theorem tree_value (t : Item) : t.tree.value = t.value := by
  match t with
  | .uint w n | .nint w n | .text w bs | .fals | .tru | .null | .undef | .f32 b | .f64 b =>
    simp [Item.tree, ETree.value, Item.value]
  | .bytes w bs => simp [Item.tree, ETree.value, Item.value, bytes_values]
  | .arr w xs => simp [Item.tree, ETree.value, Item.value, treeList_value xs]
  | .arrIndef xs => simp [Item.tree, ETree.value, Item.value, treeList_value xs]
  | .map w ms => simp [Item.tree, ETree.value, Item.value, treeMems_value ms]
  | .mapIndef ms => simp [Item.tree, ETree.value, Item.value, treeMems_value ms]
theorem treeList_value (xs : List Item) : ETree.valueList (treeList xs) = valueList xs := by
  match xs with
  | [] => rfl
  | x :: xs' => simp [treeList, ETree.valueList, valueList, tree_value x, treeList_value xs']
theorem treeMems_value (ms : List (W × Bytes × Item)) : ETree.valueMems (treeMems ms) = valueMems ms := by
  match ms with
  | [] => rfl
  | (kw, k, v) :: ms' => simp [treeMems, ETree.valueMems, valueMems, tree_value v, treeMems_value ms']
end

theorem treeList_length (xs : List Item) : (treeList xs).length = xs.length := by
  induction xs with
  | nil => rfl
  | cons x xs ih => simp [treeList, ih]
theorem treeMems_length (ms : List (W × Bytes × Item)) : (treeMems ms).length = ms.length := by
  induction ms with
  | nil => rfl
  | cons m ms ih => obtain ⟨kw, k, v⟩ := m; simp [treeMems, ih]

theorem matches_any (t : ETree) : t.matchesBT BT.any = true := by
  cases t <;> simp [ETree.matchesBT, Ev.matchesBT, BT.any]

mutual
theorem tree_wf (t : Item) : t.tree.wf = true := by
  match t with
  | .uint w n | .nint w n | .text w bs | .fals | .tru | .null | .undef | .f32 b | .f64 b =>
    simp [Item.tree, ETree.wf]
  | .bytes w bs => simp [Item.tree, ETree.wf, ETree.lenOkFor, bytes_wf]
  | .arr w xs => simp [Item.tree, ETree.wf, ETree.lenOkFor, treeList_length, treeList_wf xs]
  | .arrIndef xs => simp [Item.tree, ETree.wf, ETree.lenOkFor, treeList_wf xs]
  | .map w ms => simp [Item.tree, ETree.wf, ETree.lenOkFor, treeMems_length, treeMems_wf ms]
  | .mapIndef ms => simp [Item.tree, ETree.wf, ETree.lenOkFor, treeMems_wf ms]
theorem treeList_wf (xs : List Item) : ETree.wfList BT.any (treeList xs) = true := by
  match xs with
  | [] => rfl
  | x :: xs' => simp [treeList, ETree.wfList, matches_any, tree_wf x, treeList_wf xs']
theorem treeMems_wf (ms : List (W × Bytes × Item)) : ETree.wfMems BT.any (treeMems ms) = true := by
  match ms with
  | [] => rfl
  | (kw, k, v) :: ms' => simp [treeMems, ETree.wfMems, matches_any, tree_wf v, treeMems_wf ms']
end

end SF.Cbor.Cst
