/-
  C03 for the JSON parser mirror, the loops: `feedUntil`, `feed`, `write`, `parse`,
  `writeChunks`, `finalize` preserve the invariant `Inv` (SF/Proofs/JsonStep.lean), never
  report `panic`, and never run out of the fuel the model hands out.
-/
import SF.Proofs.JsonStep
set_option linter.unusedSimpArgs false
namespace SF.Json.ParseP
open SF SF.Json SF.Json.Parse SF.Json.Float

theorem feedUntil_succ (f : Nat) (p : P) (b : Bytes) :
    feedUntil (f + 1) p b =
      if b.isEmpty then { p := p, rest := b }
      else if (execStep p b).2 then (execStep p b).1
      else if (execStep p b).1.err.isSome then (execStep p b).1
      else if ((execStep p b).1.reported && (execStep p b).1.p.states.isEmpty) then
        { (execStep p b).1 with reported := true }
      else feedUntil f (execStep p b).1.p (execStep p b).1.rest := by
  rw [feedUntil]

/-- THE INNER LOOP from any state satisfying the invariant: the invariant holds again
(whether or not an error is reported); `panic` is not reported; with more fuel than the
cost of the start, `outOfFuel` is not reported; and without error the stored error is
untouched and the cost has not grown (has shrunk, if there was input) -/
theorem feedUntil_spec (f : Nat) (p : P) (b : Bytes) (hinv : Inv p) :
    Inv (feedUntil f p b).p ∧
    (p.err ≠ some .panic → (feedUntil f p b).err ≠ some .panic ∧ (feedUntil f p b).p.err ≠ some .panic) ∧
    (p.err ≠ some .outOfFuel → cost p b < f →
      (feedUntil f p b).err ≠ some .outOfFuel ∧ (feedUntil f p b).p.err ≠ some .outOfFuel) ∧
    ((feedUntil f p b).err = none →
      (feedUntil f p b).p.err = p.err ∧ cost (feedUntil f p b).p (feedUntil f p b).rest ≤ cost p b ∧
      (b ≠ [] → cost (feedUntil f p b).p (feedUntil f p b).rest < cost p b)) := by
  induction f generalizing p b with
  | zero =>
    simp only [feedUntil]
    exact ⟨hinv, fun h => ⟨by simp, h⟩, fun _ h => absurd h (Nat.not_lt_zero _), by simp⟩
  | succ f ih =>
    rw [feedUntil_succ]
    by_cases hb : b = []
    · subst hb
      simp only [List.isEmpty_nil, if_true]
      exact ⟨hinv, fun h => ⟨by simp, h⟩, fun h _ => ⟨by simp, h⟩, fun _ => ⟨trivial, Nat.le_refl _, by simp⟩⟩
    · have hbe : b.isEmpty = false := by cases b <;> simp_all
      simp only [hbe, Bool.false_eq_true, if_false]
      by_cases hcs : p.currentState = .failedState
      · obtain ⟨k1, k2, k3, k4, k5, k6⟩ := execStep_failed p b hcs
        simp only [k1, if_true]
        refine ⟨k6 hinv, fun h => ?_, fun h _ => ?_, fun h => absurd h k4⟩
        · rw [← k3]
          rcases k5 with k5 | ⟨_, k5⟩
          · rw [k5]; exact ⟨h, h⟩
          · rw [k5]; simp
        · rw [← k3]
          rcases k5 with k5 | ⟨_, k5⟩
          · rw [k5]; exact ⟨h, h⟩
          · rw [k5]; simp
      · obtain ⟨k1, k2, k3, k4, k5⟩ := execStep_ok p b hb hinv hcs
        simp only [k1, Bool.false_eq_true, if_false]
        by_cases he : (execStep p b).1.err.isSome = true
        · simp only [he, if_true]
          refine ⟨k4, fun h => ⟨k2.1, by rw [k3]; exact h⟩, fun h _ => ⟨k2.2, by rw [k3]; exact h⟩, fun h => ?_⟩
          rw [h] at he; simp at he
        · simp only [he, Bool.false_eq_true, if_false]
          have he' : (execStep p b).1.err = none := by
            cases h : (execStep p b).1.err with
            | none => rfl
            | some e => rw [h] at he; simp at he
          have hc := k5 he'
          by_cases hr : ((execStep p b).1.reported && (execStep p b).1.p.states.isEmpty) = true
          · simp only [hr, if_true]
            refine ⟨k4, fun h => ⟨by rw [he']; simp, by rw [k3]; exact h⟩,
              fun h _ => ⟨by rw [he']; simp, by rw [k3]; exact h⟩, fun _ => ⟨k3, Nat.le_of_lt hc, fun _ => hc⟩⟩
          · simp only [hr, Bool.false_eq_true, if_false]
            obtain ⟨j1, j2, j3, j4⟩ := ih (execStep p b).1.p (execStep p b).1.rest k4
            refine ⟨j1, fun h => j2 (by rw [k3]; exact h), fun h hf => j3 (by rw [k3]; exact h) (by omega),
              fun h => ?_⟩
            obtain ⟨j5, j6, _⟩ := j4 h
            exact ⟨by rw [j5, k3], by omega, fun _ => by omega⟩

theorem cost_lt_fuelFor (p : P) (b : Bytes) : cost p b < fuelFor b := by
  have := weight_le_one p.currentState
  simp only [cost, fuelFor]; omega

theorem feed_succ (fuel : Nat) (p : P) (b : Bytes) :
    feed (fuel + 1) p b =
      if b.isEmpty then (p, none)
      else match (feedUntil (fuelFor b) p b).err with
        | some e => ((feedUntil (fuelFor b) p b).p, some e)
        | none => feed fuel (feedUntil (fuelFor b) p b).p (feedUntil (fuelFor b) p b).rest := by
  rw [feed]; rfl

/-- THE OUTER LOOP (`Parser.feed`) from any state satisfying the invariant -/
theorem feed_spec (fuel : Nat) (p : P) (b : Bytes) (hinv : Inv p) :
    Inv (feed fuel p b).1 ∧
    (p.err ≠ some .panic → (feed fuel p b).2 ≠ some .panic ∧ (feed fuel p b).1.err ≠ some .panic) ∧
    (p.err ≠ some .outOfFuel → cost p b < fuel →
      (feed fuel p b).2 ≠ some .outOfFuel ∧ (feed fuel p b).1.err ≠ some .outOfFuel) ∧
    ((feed fuel p b).2 = none → (feed fuel p b).1.err = p.err) := by
  induction fuel generalizing p b with
  | zero =>
    simp only [feed]
    exact ⟨hinv, fun h => ⟨by simp, h⟩, fun _ h => absurd h (Nat.not_lt_zero _), by simp⟩
  | succ fuel ih =>
    rw [feed_succ]
    by_cases hb : b = []
    · subst hb
      simp only [List.isEmpty_nil, if_true]
      exact ⟨hinv, fun h => ⟨by simp, h⟩, fun h _ => ⟨by simp, h⟩, fun _ => trivial⟩
    · have hbe : b.isEmpty = false := by cases b <;> simp_all
      simp only [hbe, Bool.false_eq_true, if_false]
      obtain ⟨k1, k2, k3, k4⟩ := feedUntil_spec (fuelFor b) p b hinv
      cases he : (feedUntil (fuelFor b) p b).err with
      | some e =>
        simp only
        rw [he] at k2 k3
        refine ⟨k1, fun h => k2 h, fun h _ => k3 h (cost_lt_fuelFor p b), by simp⟩
      | none =>
        simp only
        obtain ⟨k5, _, k6⟩ := k4 he
        have k6 := k6 hb
        obtain ⟨j1, j2, j3, j4⟩ := ih (feedUntil (fuelFor b) p b).p (feedUntil (fuelFor b) p b).rest k1
        exact ⟨j1, fun h => j2 (by rw [k5]; exact h), fun h hf => j3 (by rw [k5]; exact h) (by omega),
          fun h => by rw [j4 h, k5]⟩

theorem cost_lt_feedAll (p : P) (b : Bytes) : cost p b < 2 * b.length + 4 := by
  have := weight_le_one p.currentState
  simp only [cost]; omega

/-- `Parser.Write` from any state satisfying the invariant: the invariant holds afterwards —
after a reported error too, so that ANY sequence of `Write` calls stays within it — and the
verdict, which is also the new stored error, is neither `panic` nor `outOfFuel` -/
theorem write_spec (p : P) (b : Bytes) (hinv : Inv p) :
    Inv (write p b).1 ∧ (write p b).1.err = (write p b).2 ∧
    (p.err ≠ some .panic → (write p b).2 ≠ some .panic) ∧
    (p.err ≠ some .outOfFuel → (write p b).2 ≠ some .outOfFuel) := by
  obtain ⟨k1, k2, k3, _⟩ := feed_spec (2 * b.length + 4) p b hinv
  unfold write feedAll
  exact ⟨⟨k1.stack, k1.lit, k1.num⟩, rfl, fun h => (k2 h).1, fun h => (k3 h (cost_lt_feedAll p b)).1⟩

/-- `finalize` (end of input): a pending number is converted; its token is not empty -/
theorem finalize_spec (p : P) (hinv : Inv p) :
    Safe (finalize p).2 ∧ (finalize p).1.err = p.err := by
  unfold finalize
  simp only
  split
  · rename_i hcs
    have hcs' : p.currentState = .numberState := by simpa using hcs
    obtain ⟨h1, evs, nevs, h2⟩ := reportNumber_spec p p.literalBuffer p.isDouble (hinv.num hcs')
    split
    · rename_i p' e heq
      rw [heq] at h1 h2
      simp only at h2; subst h2
      exact ⟨h1, rfl⟩
    · rename_i p' heq
      rw [heq] at h2
      simp only at h2; subst h2
      have := (popState_spec { p with evs := evs, nevs := nevs } hinv.stack).2.2
      split
      · exact ⟨by simp [Safe], this⟩
      · exact ⟨safe_none, this⟩
  · split
    · exact ⟨by simp [Safe], rfl⟩
    · exact ⟨safe_none, rfl⟩

/-- `Write*` + end of input (`ParseReader`), any chunking -/
theorem writeChunks_spec (cs : List Bytes) (p : P) (hinv : Inv p) :
    (p.err ≠ some .panic → (writeChunks p cs).2 ≠ some .panic) ∧
    (p.err ≠ some .outOfFuel → (writeChunks p cs).2 ≠ some .outOfFuel) := by
  induction cs generalizing p with
  | nil =>
    simp only [writeChunks]
    have := (finalize_spec p hinv).1
    exact ⟨fun _ => this.1, fun _ => this.2⟩
  | cons c cs ih =>
    obtain ⟨k1, k2, k3, k4⟩ := write_spec p c hinv
    simp only [writeChunks]
    cases hw : write p c with
    | mk q e =>
      rw [hw] at k1 k2 k3 k4
      simp only at k1 k2 k3 k4
      cases e with
      | some e => exact ⟨fun h => k3 h, fun h => k4 h⟩
      | none =>
        simp only
        exact ih q k1 |>.imp (fun h _ => h (by rw [k2]; simp)) (fun h _ => h (by rw [k2]; simp))

/-- `Parse` / `ParseString` resets the state first, so it starts inside the invariant from
ANY parser value -/
theorem parse_spec (p : P) (b : Bytes) :
    (p.err ≠ some .panic → (parse p b).2 ≠ some .panic) ∧
    (p.err ≠ some .outOfFuel → (parse p b).2 ≠ some .outOfFuel) := by
  have hinv : Inv { p with states := [], literalBuffer := [], currentState := .startState } := by
    constructor <;> simp [isLit]
  obtain ⟨k1, k2, k3, _⟩ := feed_spec (2 * b.length + 4)
    { p with states := [], literalBuffer := [], currentState := .startState } b hinv
  unfold parse feedAll
  simp only
  cases hf : feed (2 * b.length + 4) { p with states := [], literalBuffer := [], currentState := .startState } b with
  | mk q e =>
    rw [hf] at k1 k2 k3
    simp only at k1 k2 k3
    cases e with
    | some e => exact ⟨fun h => (k2 h).1, fun h => (k3 h (cost_lt_feedAll _ b)).1⟩
    | none =>
      simp only
      have := (finalize_spec q k1).1
      exact ⟨fun _ => this.1, fun _ => this.2⟩

end SF.Json.ParseP
