/-
  C11, direct path, STAGE 4: `*T`, `T` scalar.  Fold: reflection path (`makePointerFold 1`, the
  element through `reFoldX`, which quiets a signalling float32 NaN); Unfold: `unfolderReflPtr` over
  the lifted primitive unfolder, a fresh `reflect.New` cell per document.
-/
import SF.Proofs.FuIdAgree
namespace SF.FuId
open SF SF.Gotype SF.Gotype.Fold SF.FoldProofs
open SF.Unf (Sc UEv PK Ctx newUnfolder setTarget typeFuel)
open SF.Ops.Unf (xevToUEvs evToUEv runToken)
open SF.Ops.Fu (feed)

theorem userReg_ptr (o : FoldOpts) (p : Prim) : userReg o (.ptr (primTy p)) = none := by
  cases p <;> simp [userReg, primTy, GoType.whnf]

theorem compile_prim (o : FoldOpts) (op : Open) (n : Nat) (p : Prim) :
    getReflectFold (n + 1) o op (primTy p) = .ok (.prim p) := by
  rw [getReflectFold]
  have hw : (primTy p).whnf = primTy p := by cases p <;> rfl
  have hm : (primTy p).menagerieName? = none := by cases p <;> rfl
  have hg : getReflectFoldPrimitive (primTy p) = some (.prim p) := by cases p <;> rfl
  simp only [hw, userReg_primTy, hm, hg]
  rfl

theorem compile_ptr (o : FoldOpts) (p : Prim) :
    getReflectFold compileFuel o {} (.ptr (primTy p)) = .ok (.pointer 1 (.prim p)) := by
  show getReflectFold (1997 + 1 + 1 + 1) o {} _ = _
  rw [getReflectFold]
  have hw : (GoType.ptr (primTy p)).whnf = .ptr (primTy p) := rfl
  have hg : getReflectFoldPrimitive (.ptr (primTy p)) = none := rfl
  have hf1 : implementsFolder (.ptr (primTy p)) = false := by cases p <;> rfl
  have hf2 : implementsPtrFolder (.ptr (primTy p)) = false := by cases p <;> rfl
  have hb : baseType (.ptr (primTy p)) = (1, primTy p) := by cases p <;> rfl
  simp only [hw, userReg_ptr, hg, hf1, hf2]
  simp only [GoType.menagerieName?, Option.map_none, Option.getD_none, Bool.false_eq_true, if_false, Bool.or_self,
    under_ptr, Open.enter]
  rw [getFoldPointer]
  simp only [hb, compile_prim]
  rfl

/-- the event of the pointee on the reflection path -/
def ptrXEv (p : Prim) : GoVal → Option XEv
  | .nilPtr => some (.ev .null)
  | .ptr y => primEv true p y
  | _ => none

theorem primEv_isEv (via : Bool) (p : Prim) (y : GoVal) (x : XEv) (h : primEv via p y = some x) : ∃ e, x = .ev e := by
  cases p <;> cases y <;> simp [primEv] at h <;> exact ⟨_, h.symm⟩

/-- STAGE 4, fold side: nil ↦ `null`, `&y` ↦ the event of `y` through `reFoldX` -/
theorem impl_ptr (o : FoldOpts) (hfail : o.failAt = none) (p : Prim) (v : GoVal) (x : XEv)
    (hx : ptrXEv p v = some x) :
    impl o (.ptr (primTy p)) v = { evs := [x], res := .ok } := by
  have hgo : getFoldGoTypes (GoType.ptr (primTy p)).whnf = none := by cases p <;> rfl
  have hf1 : implementsFolder (.ptr (primTy p)) = false := by cases p <;> rfl
  have hcv : getFoldConvert (GoType.ptr (primTy p)).whnf = none := by cases p <;> rfl
  have hxe : ∃ e, x = .ev e := by
    cases v <;> simp [ptrXEv] at hx
    · exact ⟨_, hx.symm⟩
    · exact primEv_isEv _ _ _ _ hx
  obtain ⟨e, rfl⟩ := hxe
  have : foldInterfaceValue runFuel o .user (.iface (.ptr (primTy p)) v) (st0 o) = (st1 o (.ev e), .ok) := by
    show foldInterfaceValue (99996 + 1 + 1 + 1 + 1) o .user (.iface (.ptr (primTy p)) v) (st0 o) = _
    rw [foldInterfaceValue]
    simp only [userReg_ptr, hgo, hf1, Bool.false_eq_true, if_false, hcv]
    rw [foldAnyReflect]
    simp only [compile_ptr]
    rw [run]
    cases v <;> simp [ptrXEv] at hx
    · subst hx
      exact emit_st0 o hfail _
    · rename_i y
      have hw : ptrWalk 1 ⟨GoType.ptr (primTy p), GoVal.ptr y⟩ = .val ⟨primTy p, y⟩ := by cases p <;> rfl
      simp only [hw]
      rw [run]
      simp only [hx]
      exact emit_st0 o hfail _
  rw [impl_of o _ v _ _ (by simp [GoType.under]) this]
  simp [st1, reorder_ev]

/-! ## unfold side -/

/-- the scalar call of the pointee: `int` through `OnInt64`; `float32(v.Float())` quiets a signalling NaN -/
def scOfPtr : Prim → GoVal → Sc
  | .num k, y => .num (if k == .int then .i64 else k) (getI y)
  | .f32, y => .f32 (quiet32 (getF32 y))
  | p, y => scOfElem false p y

/-- the translated pointee as it arrives -/
def trPtrElem : Prim → GoVal → Unf.GoVal
  | .f32, y => .f32 (quiet32 (getF32 y))
  | p, y => trPrim p y

theorem primEv_ptr (p : Prim) (y : GoVal) (h : hasPrim p y = true) :
    ∃ e, primEv true p y = some (.ev e) ∧ evToUEv e = .scalar (scOfPtr p y) := by
  cases p <;> cases y <;> simp [hasPrim] at h <;> exact ⟨_, rfl, rfl⟩

theorem conv_ptr (p : Prim) (y : GoVal) (h : hasPrim p y = true) :
    (pkOf p).conv (scOfPtr p y) = some (trPtrElem p y) := by
  cases p with
  | num k => exact conv_top (.num k) y h
  | f32 => rfl
  | bool => exact conv_top .bool y h
  | string => exact conv_top .string y h
  | f64 => exact conv_top .f64 y h

theorem scOfPtr_ne_nil (p : Prim) (y : GoVal) : scOfPtr p y ≠ .nil := by cases p <;> simp [scOfPtr, scOfElem]

/-- the context `SetTarget(&v)`, `var v *T` (nil), leaves on the new Unfolder -/
def ptrCtx (p : Prim) : Ctx :=
  { newUnfolder with
    target := .ptrNil (uPrimTy p), env := tbl
    value := newUnfolder.value.push (some { root := .target })
    unfolder := newUnfolder.unfolder.push (.reflPtr (uPrimTy p) (.lifted (.prim (pkOf p)))) }

theorem setTarget_ptr (p : Prim) :
    setTarget tbl (.ptr (uPrimTy p)) (Unf.zero tbl (.ptr (uPrimTy p))) newUnfolder = .ok (ptrCtx p) := by
  cases p with
  | num k => cases k <;> rfl
  | _ => rfl

/-- the Unfolder afterwards: idle, the target set; a non-nil pointer leaves its `reflect.New` cell behind -/
def donePtr (p : Prim) (w : Option Unf.GoVal) : Ctx :=
  match w with
  | none => doneCtx (.ptrNil (uPrimTy p))
  | some w => { doneCtx (.ptr (uPrimTy p) w) with cells := #[w] }

theorem nil_ptrCtx (f : Nat) (p : Prim) :
    Unf.onScalar (f + 1) .nil (ptrCtx p) = .ok () (donePtr p none) := by
  simp [Unf.onScalar, Unf.bind_def, Unf.currentU, ptrCtx, Unf.Stk.push, Unf.currentValue, Unf.store, Unf.rootVal,
    Unf.setRoot, Unf.reflPtrCleanup, Unf.popValue, Unf.popU, Unf.Stk.pop, Unf.pure_def, donePtr, doneCtx, newUnfolder,
    Unf.GoVal.set, Unf.Stk.init]

theorem scalar_ptrCtx (f : Nat) (p : Prim) (s : Sc) (w : Unf.GoVal) (hs : s ≠ .nil)
    (hc : (pkOf p).conv s = some w) :
    Unf.onScalar (f + 2) s (ptrCtx p) = .ok () (donePtr p (some w)) := by
  cases s <;> first | exact absurd rfl hs | skip
  all_goals
    simp [Unf.onScalar, Unf.bind_def, Unf.currentU, ptrCtx, Unf.Stk.push, Unf.currentValue, Unf.store, Unf.rootVal,
      Unf.setRoot, Unf.reflPtrCleanup, Unf.popValue, Unf.popU, Unf.Stk.pop, Unf.pure_def, donePtr, doneCtx, newUnfolder,
      Unf.GoVal.set, Unf.Stk.init, Unf.reflPtrPrepare, Unf.newCell, Unf.pushValue, Unf.modifyCtx, Unf.initStateRU,
      Unf.resolveRU, Unf.initStatePU, Unf.primInitState, Unf.pushU, Unf.pushPtr, hc, Unf.pukDeliver, Unf.primAssign,
      Unf.currentPtr, Unf.primCleanup, Unf.popPtr, Unf.reflPtrProcess, Unf.load, Unf.GoVal.get]

/-- `v` is a `*T`: nil or a pointer to a value of the scalar type -/
def hasPtr (p : Prim) : GoVal → Bool
  | .nilPtr => true
  | .ptr y => hasPrim p y
  | _ => false

/-- the translated pointee as the Unfolder stores it (`none` = nil pointer) -/
def trPtr (p : Prim) : GoVal → Option Unf.GoVal
  | .ptr y => some (trPtrElem p y)
  | _ => none

/-- STAGE 4 at mirror level -/
theorem ptr_run (o : FoldOpts) (hfail : o.failAt = none) (p : Prim) (v : GoVal) (hv : hasPtr p v = true) :
    ∃ c0, (impl o (.ptr (primTy p)) v).res = .ok ∧
      setTarget tbl (.ptr (uPrimTy p)) (Unf.zero tbl (.ptr (uPrimTy p))) newUnfolder = .ok c0 ∧
      feed c0 ((impl o (.ptr (primTy p)) v).evs.map xevToUEvs) = (donePtr p (trPtr p v), none) := by
  cases v <;> simp [hasPtr] at hv
  · rw [impl_ptr o hfail p .nilPtr (.ev .null) rfl]
    refine ⟨_, rfl, setTarget_ptr p, ?_⟩
    apply feed_single
    show Unf.run typeFuel [UEv.scalar .nil] _ = _
    rw [Unf.run_single, typeFuel_succ]
    exact nil_ptrCtx 255 p
  · rename_i y
    obtain ⟨e, he, hev⟩ := primEv_ptr p y hv
    rw [impl_ptr o hfail p (.ptr y) (.ev e) he]
    refine ⟨_, rfl, setTarget_ptr p, ?_⟩
    apply feed_single
    show Unf.run typeFuel [evToUEv e] _ = _
    rw [hev, Unf.run_single]
    exact scalar_ptrCtx 254 p _ _ (scOfPtr_ne_nil p y) (conv_ptr p y hv)

/-- the oracle's comparison for `*T`; for `*float32` under the side condition that the reflection
path did not touch the bits (`quiet32 b = b`: everything but a signalling NaN) -/
theorem agree_ptr (n : Nat) (p : Prim) (v : GoVal) (hv : hasPtr p v = true)
    (hq : ∀ y, v = .ptr y → trPtrElem p y = trPrim p y) :
    SF.Ops.Fu.agreeF "direct" (n + 2) (.ptr (primTy p)) v
      (back (match trPtr p v with | none => .ptrNil (uPrimTy p) | some w => .ptr (uPrimTy p) w)) = true := by
  cases v <;> simp [hasPtr] at hv
  · rw [SF.Ops.Fu.agreeF.eq_def]
    simp [under_ptr, trPtr, back, SF.Ops.Fu.nullishF]
  · rename_i y
    have hn : SF.Ops.Fu.nullishF (n + 1) (.ptr y) = false := by
      cases n <;> cases p <;> cases y <;> simp [hasPrim] at hv <;> simp [SF.Ops.Fu.nullishF]
    rw [SF.Ops.Fu.agreeF.eq_def]
    simp only [under_ptr, trPtr, back, hn, Bool.false_eq_true, if_false, hq y rfl, back_trPrim p y hv]
    exact agree_prim n p y hv

end SF.FuId
