/-
  `omitempty` on interface-typed fields: what the value the lazy resolver chain keeps
  (`Lazy`, `FoldEmpty`) folds to, according to the specification.
-/
import SF.Proofs.FoldTypeOk
import SF.Proofs.FoldEmpty
import SF.Proofs.FoldRun
namespace SF.FoldProofs
open SF SF.Gotype SF.Gotype.Fold SF.Gotype.Rules

/-- what `foldInterfaceElem` (`ReFold.ifaceElem`) folds when it is handed `rv`: the dynamic value
of an interface value, else the value itself -/
def Target (rv : RV) (T : GoType) (v : GoVal) : Prop :=
  (rv.t.under = .iface ∧ rv.v = .iface T v) ∨ (isIfaceT rv.t = false ∧ rv = ⟨T, v⟩)

theorem isIfaceT_iff {t : GoType} : isIfaceT t = true ↔ t.under = .iface := by
  unfold isIfaceT
  cases t.under <;> simp

theorem run_ifaceElem_target {rv : RV} {T : GoType} {v : GoVal} (h : Target rv T v) (rf : Nat)
    (o : FoldOpts) (c : VisRef) (s : St) :
    run (rf + 1) o c .ifaceElem rv s = foldAnyReflect rf o c ⟨T, v⟩ s := by
  rw [run_ifaceElem]
  rcases h with ⟨h1, h2⟩ | ⟨h1, rfl⟩
  · rw [h1, h2]
  · simp only []
    have : ∀ U, U = T.under → U ≠ .iface := by
      intro U hU h
      have := isIfaceT_iff.mpr (hU ▸ h)
      simp only [] at h1
      rw [this] at h1
      cases h1
    cases hU : T.under <;> first | rfl | exact absurd rfl (this _ hU.symm)

/-- what the rules know about the target of a kept value, when they accept the field -/
structure LazyOK (reg : Bool) (r : RVal) (t : GoType) (x : GoVal) (T : GoType) (v : GoVal) : Prop where
  good : ∃ sn seen n, goodT sn T = true ∧ (∀ y ∈ seen, y ∈ sn) ∧ typeOkF n reg seen T = .ok ()
  depth : tdepth T ≤ max (tdepth t) dynBound
  typed : wt T v = true
  inside : vdepth v ≤ vdepth x
  folds : ∃ m, foldF m reg T v = .ok r

theorem lazy_ok (reg : Bool) {t : GoType} {x : GoVal} {rv : RV} (hl : Lazy t x rv) :
    ∀ {sn : List String} {m : Nat} {r : RVal}, goodT sn t = true → tdepth t ≤ 1000 → wt t x = true →
    foldF m reg t x = .ok r →
    (isIfaceT (stripPtr t).2 = true ∨ ∃ seen n, (∀ y ∈ seen, y ∈ sn) ∧ typeOkF n reg seen t = .ok ()) →
    ∃ T v, Target rv T v ∧ LazyOK reg r t x T v ∧
      (isIfaceT (stripPtr t).2 = true → vdepth v + 1 ≤ vdepth x ∧ tdepth T ≤ dynBound) := by
  induction hl with
  | @base t x x' hdr hni hse =>
    intro sn m r hg hdt hw hspec hty
    obtain ⟨hwx', hdx'⟩ := deref_wt sn t hg x x' hw hdr
    have hsp := foldF_deref reg sn t hg x m r hw hspec
    rw [hdr] at hsp
    obtain ⟨m', hm'⟩ := hsp
    rcases hty with hi | ⟨seen, n, hsub, hok⟩
    · rw [hni] at hi; cases hi
    · obtain ⟨n', seen', sn', h1, h2, h3, _⟩ := typeOkF_strip reg sn t hg n seen hsub hok
      have hdb := tdepth_stripPtr t
      refine ⟨_, _, Or.inr ⟨hni, rfl⟩, ⟨⟨sn', seen', n', h2, h3, h1⟩, by omega, hwx', by omega, m', hm'⟩, ?_⟩
      intro hi; rw [hni] at hi; cases hi
  | @keep t x dt dv hdr hi hem =>
    intro sn m r hg hdt hw hspec _
    obtain ⟨hwx', hdx'⟩ := deref_wt sn t hg x _ hw hdr
    have hsp := foldF_deref reg sn t hg x m r hw hspec
    rw [hdr] at hsp
    obtain ⟨m', hm'⟩ := hsp
    obtain ⟨sn', _, hpb⟩ := good_stripPtr t sn hg
    have hu := isIfaceT_iff.mp hi
    cases m' with
    | zero => simp [foldF] at hm'
    | succ m' =>
    rw [foldF_under m' reg hpb, hu, foldF_iface] at hm'
    rcases wt_iface_inv hu hwx' with h | ⟨dt', dv', h, hpd, hdd, hwd⟩
    · cases h
    · cases h
      cases htok : typeOk reg dt with
      | error e => simp [htok] at hm'
      | ok u =>
        simp only [htok] at hm'
        rw [vdepth_iface] at hdx'
        refine ⟨dt, dv, Or.inl ⟨hu, rfl⟩,
          ⟨⟨[], [], 1000, hpd, fun _ hy => hy, htok⟩, by omega, hwd, by omega, m', hm'⟩, ?_⟩
        intro _; exact ⟨by omega, hdd⟩
  | @step t x dt dv rv hdr hi hem _ ih =>
    intro sn m r hg hdt hw hspec _
    obtain ⟨hwx', hdx'⟩ := deref_wt sn t hg x _ hw hdr
    have hsp := foldF_deref reg sn t hg x m r hw hspec
    rw [hdr] at hsp
    obtain ⟨m', hm'⟩ := hsp
    obtain ⟨sn', _, hpb⟩ := good_stripPtr t sn hg
    have hu := isIfaceT_iff.mp hi
    cases m' with
    | zero => simp [foldF] at hm'
    | succ m' =>
    rw [foldF_under m' reg hpb, hu, foldF_iface] at hm'
    rcases wt_iface_inv hu hwx' with h | ⟨dt', dv', h, hpd, hdd, hwd⟩
    · cases h
    · cases h
      cases htok : typeOk reg dt with
      | error e => simp [htok] at hm'
      | ok u =>
        simp only [htok] at hm'
        rw [vdepth_iface] at hdx'
        obtain ⟨T, v, h1, h2, _⟩ := ih (sn := []) hpd (by unfold dynBound at hdd; omega) hwd hm'
          (Or.inr ⟨[], 1000, fun _ hy => hy, htok⟩)
        have hdep := h2.depth
        refine ⟨T, v, h1, ⟨h2.good, by omega, h2.typed, by have := h2.inside; omega, h2.folds⟩, ?_⟩
        intro _
        have := h2.inside
        exact ⟨by omega, by omega⟩

end SF.FoldProofs
