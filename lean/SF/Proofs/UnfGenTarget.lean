/-
  `map[string]interface{}` and `[]interface{}` TARGETS: the members / elements are generic
  values delivered to `unfolderMapIfc` / `unfolderArrIfc` whose pointer is the target itself
  (`tree_into_container`), the container events are handled by the typed templates
  (unfoldMapStartX / unfoldMapKeyX, unfoldArrStartX / unfolderArrX).
-/
import SF.Proofs.UnfGenDeliver
namespace SF.Unf
open SF

/-! ## `map[string]interface{}` targets -/

/-- element type and members of a map value -/
def mapParts : GoVal → Option (GoType × List (Bytes × GoVal))
  | .mapNil et => some (et, [])
  | .map et ms => some (et, ms)
  | _ => none

/-- the context `SetTarget` leaves for a target of type `map[string]interface{}` holding `v`:
`unfoldMapKeyIfc`, `unfoldMapStartIfc` pushed, with the pointer to the target -/
def mapTargetCtx (tbl : TypeTable) (v : GoVal) (c : Ctx) : Ctx :=
  { c with
    target := v, env := tbl
    unfolder := ⟨.mapStart .ifc, .mapKey .ifc :: c.unfolder.current :: c.unfolder.stack⟩
    ptr := c.ptr.push (some { root := .target }) }

theorem setTarget_map (tbl : TypeTable) (v : GoVal) (c : Ctx) :
    setTarget tbl (.map .ifc) v c = .ok (mapTargetCtx tbl v c) := rfl

/-- … after `OnObjectStart` and some members: the target holds `m` -/
def tmapCtx (tbl : TypeTable) (m : GoVal) (c : Ctx) : Ctx :=
  { c with
    target := m, env := tbl
    unfolder := ⟨.mapKey .ifc, c.unfolder.current :: c.unfolder.stack⟩
    ptr := ⟨some { root := .target }, c.ptr.current :: c.ptr.stack⟩ }

/-- … after a key -/
def tmapValCtx (tbl : TypeTable) (m : GoVal) (key : Bytes) (c : Ctx) : Ctx :=
  { c with
    target := m, env := tbl
    unfolder := ⟨.mapVal .ifc, c.unfolder.current :: c.unfolder.stack⟩
    ptr := ⟨some { root := .target }, c.ptr.current :: c.ptr.stack⟩
    key := ⟨key, c.key.current :: c.key.stack⟩ }

theorem objStart_mapTarget (f : Nat) (l : Int) (bt : Nat) (tbl : TypeTable) (v : GoVal) (c : Ctx) :
    stepEv (f + 1) (.objStart l bt) (mapTargetCtx tbl v c) = .ok () (tmapCtx tbl v c) := by
  simp [stepEv, onObjectStart, bind_def, currentU_eq, mapTargetCtx, popU, Stk.pop, pure_def, tmapCtx, Stk.push]

theorem key_tmapCtx (f : Nat) (byRef : Bool) (key : Bytes) (tbl : TypeTable) (m : GoVal) (c : Ctx)
    (hkc : Symbols.Inv c.keyCache) :
    ∃ kc', KCOk c.keyCache kc' ∧
      stepEv (f + 1) (if byRef then UEv.keyRef key else UEv.key key) (tmapCtx tbl m c) =
        .ok () (tmapValCtx tbl m key (setKC c kc')) := by
  cases byRef with
  | false =>
    refine ⟨c.keyCache, KCOk.refl hkc, ?_⟩
    simp [stepEv, onKey, bind_def, currentU_eq, tmapCtx, mapKeyOnKey, pushKey, modifyCtx, Stk.push, setCurrentU,
      tmapValCtx]
  | true =>
    obtain ⟨kc0, hg, hok0⟩ := kc_get c.keyCache key hkc
    refine ⟨kc0, hok0, ?_⟩
    have hg' : keyCacheGet key (tmapCtx tbl m c) = .ok key (setKC (tmapCtx tbl m c) kc0) := by
      have : Symbols.get (tmapCtx tbl m c).keyCache key = .ok (kc0, key) := hg
      simp [keyCacheGet, this, setKC]
    have hcur : (tmapCtx tbl m c).unfolder.current = .mapKey .ifc := rfl
    simp only [if_true, stepEv, onKeyRef, bind_def, currentU_eq, hcur, hg']
    simp [tmapCtx, mapKeyOnKey, pushKey, modifyCtx, Stk.push, setCurrentU, tmapValCtx, bind_def, setKC]

theorem mapPut_tmapValCtx (tbl : TypeTable) (m : GoVal) (et : GoType) (ms : List (Bytes × GoVal)) (key : Bytes)
    (v : GoVal) (c : Ctx) (hm : mapParts m = some (et, ms)) :
    mapPut .ifc v (tmapValCtx tbl m key c) = .ok () (tmapCtx tbl (.map et (mapSet ms key v)) c) := by
  cases m with
  | mapNil et' =>
    simp only [mapParts, Option.some.injEq, Prod.mk.injEq] at hm
    obtain ⟨h1, h2⟩ := hm; subst h1; subst h2
    simp [mapPut, bind_def, currentPtr, tmapValCtx, load, rootVal, pure_def, popKey, Stk.pop, store, setRoot,
      setCurrentU, modifyCtx, tmapCtx]
  | map et' ms' =>
    simp only [mapParts, Option.some.injEq, Prod.mk.injEq] at hm
    obtain ⟨h1, h2⟩ := hm; subst h1; subst h2
    simp [mapPut, bind_def, currentPtr, tmapValCtx, load, rootVal, pure_def, popKey, Stk.pop, store, setRoot,
      setCurrentU, modifyCtx, tmapCtx]
  | _ => simp [mapParts] at hm

theorem objEnd_tmapCtx (f : Nat) (tbl : TypeTable) (m : GoVal) (c : Ctx) (hidle : c.unfolder.stack = []) :
    stepEv (f + 1) .objEnd (tmapCtx tbl m c) = .ok () { c with target := m, env := tbl } := by
  have h1 : onObjectFinished (tmapCtx tbl m c) = .ok () { c with target := m, env := tbl } := by
    simp [onObjectFinished, bind_def, currentU_eq, tmapCtx, mapKeyCleanup, popU, popPtr, Stk.pop, pure_def]
  simp only [stepEv]
  rw [ctxObjFin_eq _ _ h1]
  simp [reportChildDone, bind_def, getCtx, hidle, pure_def]

/-- the target after the members `ms` were put into a map holding `acc` -/
def mapFin (m : GoVal) (et : GoType) (acc : List (Bytes × GoVal)) (ms : List (Bool × Bytes × UTree)) : GoVal :=
  if ms.isEmpty then m else .map et (genMems .ifc ms acc)

theorem tmap_members (f : Nat) (tbl : TypeTable) (ms : List (Bool × Bytes × UTree)) (m : GoVal) (et : GoType)
    (acc : List (Bytes × GoVal)) (c : Ctx) (hm : mapParts m = some (et, acc))
    (hwf : wfMems BT.any ms = true) (hkc : Symbols.Inv c.keyCache) :
    ∃ kc', KCOk c.keyCache kc' ∧
      run (f + 1) (eventsMems ms) (tmapCtx tbl m c) = .ok () (tmapCtx tbl (mapFin m et acc ms) (setKC c kc')) := by
  induction ms generalizing m acc c with
  | nil => exact ⟨c.keyCache, KCOk.refl hkc, by simp [eventsMems, run, mapFin]⟩
  | cons mem r ih =>
    obtain ⟨byRef, key, x⟩ := mem
    obtain ⟨hx, hr⟩ := wfMems_cons _ byRef key x r hwf
    have hx : x.wf = true := by simpa [isAnyBT, BT.any] using hx
    obtain ⟨kc0, hok0, hkey⟩ := key_tmapCtx f byRef key tbl m c hkc
    obtain ⟨kc1, hok1, hrun1⟩ := tree_into_container f x (tmapValCtx tbl m key (setKC c kc0)) hx
      (Or.inr rfl) (by simp [tmapValCtx]) hok0.1
    have hstep : run (f + 1) x.events (tmapValCtx tbl m key (setKC c kc0)) =
        .ok () (tmapCtx tbl (.map et (mapSet acc key x.gen)) (setKC c kc1)) := by
      rw [hrun1]
      exact mapPut_tmapValCtx tbl m et acc key x.gen (setKC c kc1) hm
    obtain ⟨kc2, hok2, hrun2⟩ := ih (.map et (mapSet acc key x.gen)) (mapSet acc key x.gen) (setKC c kc1) rfl hr hok1.1
    refine ⟨kc2, (hok0.trans hok1).trans hok2, ?_⟩
    rw [eventsMems, List.cons_append, run_cons_ok _ _ _ _ _ hkey, run_ok_then _ _ _ _ _ hstep, hrun2, setKC_setKC]
    congr 2
    cases r <;> simp [mapFin, genMems]


/-! ## `[]interface{}` targets -/

/-- what `unfoldArrStartX.OnArrayStart(l)` makes of the target slice: a nil slice is allocated
with `min(l, 1024)` zero elements, a longer one is cut to `l` (the rest stays in the capacity) -/
def startSlice (z : GoVal) (l : Int) : GoVal → GoVal
  | .sliceNil et => if l ≤ 0 then .sliceNil et else .slice et (List.replicate (arrPreallocLen l).toNat z) []
  | .slice et es h =>
    if (if l < 0 then 0 else l) < (es.length : Int) then
      .slice et (es.take (if l < 0 then 0 else l).toNat) (es.drop (if l < 0 then 0 else l).toNat ++ h)
    else .slice et es h
  | x => x

/-- the slice after `vs` were appended from index 0 on: existing elements are overwritten in
place, then the capacity is used up, then the slice grows -/
def slRun (s0 : GoVal) (vs : List GoVal) : GoVal :=
  match s0 with
  | .sliceNil et => sliceFin et vs
  | .slice et es h => .slice et (vs ++ es.drop vs.length) (h.drop (vs.length - es.length))
  | x => x

theorem startSlice_isSlice (z : GoVal) (l : Int) (v : GoVal) (h : isSliceVal v) : isSliceVal (startSlice z l v) := by
  cases v with
  | sliceNil et => simp only [startSlice]; split <;> trivial
  | slice et es hh => simp only [startSlice]; split <;> split <;> trivial
  | _ => exact absurd h (by simp [isSliceVal])

theorem slRun_isSlice (s0 : GoVal) (vs : List GoVal) (h : isSliceVal s0) : isSliceVal (slRun s0 vs) := by
  cases s0 with
  | sliceNil et => unfold slRun sliceFin; simp only; split <;> trivial
  | slice et es hh => trivial
  | _ => exact absurd h (by simp [isSliceVal])

theorem slRun_nil (s0 : GoVal) (h : isSliceVal s0) : slRun s0 [] = s0 := by
  cases s0 with
  | sliceNil et => simp [slRun, sliceFin]
  | slice et es hh => simp [slRun]
  | _ => exact absurd h (by simp [isSliceVal])

theorem appendTo_slRun (s0 : GoVal) (vs : List GoVal) (v : GoVal) :
    appendTo (slRun s0 vs) vs.length v = slRun s0 (vs ++ [v]) := by
  cases s0 with
  | sliceNil et =>
    simp only [slRun, sliceFin]
    cases vs with
    | nil => simp [appendTo]
    | cons a r => simp [appendTo]
  | slice et es h =>
    simp only [slRun, appendTo, List.length_append, List.length_drop, List.length_singleton]
    by_cases hlt : vs.length < es.length
    · have e1 : ¬ ((vs.length + (es.length - vs.length) : Nat) : Int) ≤ (vs.length : Int) := by omega
      have e2 : vs.length - es.length = 0 := by omega
      have e3 : vs.length + 1 - es.length = 0 := by omega
      simp only [e1, if_false, e2, e3, List.drop_zero, Int.toNat_natCast]
      congr 1
      rw [List.set_append_right _ _ (Nat.le_refl _), Nat.sub_self, List.append_assoc]
      congr 1
      rw [List.drop_eq_getElem_cons hlt]
      rfl
    · have e1 : ((vs.length + (es.length - vs.length) : Nat) : Int) ≤ (vs.length : Int) := by omega
      have e4 : es.drop vs.length = [] := List.drop_eq_nil_of_le (by omega)
      have e5 : es.drop (vs.length + 1) = [] := List.drop_eq_nil_of_le (by omega)
      simp only [e1, if_true, e4, e5, List.append_nil]
      congr 1
      rw [List.drop_drop]
      congr 1
      omega
  | _ => simp [slRun, appendTo]


/-- the context `SetTarget` leaves for a target of type `[]interface{}` holding `v` -/
def sliceTargetCtx (tbl : TypeTable) (v : GoVal) (c : Ctx) : Ctx :=
  { c with
    target := v, env := tbl
    unfolder := ⟨.arrStart .ifc, .arr .ifc :: c.unfolder.current :: c.unfolder.stack⟩
    idx := c.idx.push 0
    ptr := c.ptr.push (some { root := .target }) }

theorem setTarget_slice (tbl : TypeTable) (v : GoVal) (c : Ctx) :
    setTarget tbl (.slice .ifc) v c = .ok (sliceTargetCtx tbl v c) := rfl

/-- … after `OnArrayStart` (which left `s0` in the target) and the elements `vs` -/
def tarrCtx (tbl : TypeTable) (s0 : GoVal) (vs : List GoVal) (c : Ctx) : Ctx :=
  { c with
    target := slRun s0 vs, env := tbl
    unfolder := ⟨.arr .ifc, c.unfolder.current :: c.unfolder.stack⟩
    idx := ⟨(vs.length : Int), c.idx.current :: c.idx.stack⟩
    ptr := ⟨some { root := .target }, c.ptr.current :: c.ptr.stack⟩ }

theorem arrStart_sliceTarget (f : Nat) (l : Int) (bt : Nat) (tbl : TypeTable) (v : GoVal) (c : Ctx)
    (hv : isSliceVal v) :
    stepEv (f + 1) (.arrStart l bt) (sliceTargetCtx tbl v c) =
      .ok () (tarrCtx tbl (startSlice (zero tbl .ifc) l v) [] c) := by
  rw [tarrCtx, slRun_nil _ (startSlice_isSlice _ _ _ hv)]
  cases v with
  | sliceNil et =>
    by_cases hl : l ≤ 0
    · have hl' : ¬ (0 < if l < 0 then 0 else l) := by split <;> omega
      simp [stepEv, onArrayStart, bind_def, currentU_eq, sliceTargetCtx, arrStartOnArrayStart, currentPtr, Stk.push,
        load, rootVal, hl', popU, Stk.pop, pure_def, startSlice, hl]
    · have hl' : 0 < l := by omega
      have hl2 : (if l < 0 then 0 else l) = l := by split <;> omega
      simp [stepEv, onArrayStart, bind_def, currentU_eq, sliceTargetCtx, arrStartOnArrayStart, currentPtr, Stk.push,
        load, rootVal, hl', hl2, popU, Stk.pop, pure_def, startSlice, hl, zeroM, store, setRoot, PK.goType]
  | slice et es h =>
    by_cases hl : (if l < 0 then 0 else l) < (es.length : Int)
    · simp [stepEv, onArrayStart, bind_def, currentU_eq, sliceTargetCtx, arrStartOnArrayStart, currentPtr, Stk.push,
        load, rootVal, hl, popU, Stk.pop, pure_def, startSlice, store, setRoot]
    · simp [stepEv, onArrayStart, bind_def, currentU_eq, sliceTargetCtx, arrStartOnArrayStart, currentPtr, Stk.push,
        load, rootVal, hl, popU, Stk.pop, pure_def, startSlice]
  | _ => exact absurd hv (by simp [isSliceVal])

theorem arrAppend_target (v : GoVal) (c : Ctx) (sl : GoVal)
    (hptr : c.ptr.current = some { root := .target }) (hsl : c.target = sl) (hs : isSliceVal sl) :
    arrAppend v c = .ok ()
      { c with target := appendTo sl c.idx.current v, idx := { c.idx with current := c.idx.current + 1 } } := by
  subst hsl
  cases hc : c.target with
  | sliceNil et =>
    simp [arrAppend, bind_def, currentIdx, currentPtr, hptr, load, rootVal, hc, store, setRoot, setCurrentIdx,
      modifyCtx, appendTo]
  | slice et es h =>
    by_cases hle : (es.length : Int) ≤ c.idx.current
    · simp [arrAppend, bind_def, currentIdx, currentPtr, hptr, load, rootVal, hc, store, setRoot, setCurrentIdx,
        modifyCtx, appendTo, hle]
    · simp [arrAppend, bind_def, currentIdx, currentPtr, hptr, load, rootVal, hc, store, setRoot, setCurrentIdx,
        modifyCtx, appendTo, hle]
  | _ => rw [hc] at hs; exact absurd hs (by simp [isSliceVal])

theorem arrAppend_tarrCtx (tbl : TypeTable) (s0 : GoVal) (vs : List GoVal) (v : GoVal) (c : Ctx)
    (hs : isSliceVal s0) :
    arrAppend v (tarrCtx tbl s0 vs c) = .ok () (tarrCtx tbl s0 (vs ++ [v]) c) := by
  rw [arrAppend_target v _ (slRun s0 vs) rfl rfl (slRun_isSlice _ _ hs)]
  simp [tarrCtx, appendTo_slRun]

theorem arrEnd_tarrCtx (f : Nat) (tbl : TypeTable) (s0 : GoVal) (vs : List GoVal) (c : Ctx)
    (hidle : c.unfolder.stack = []) :
    stepEv (f + 1) .arrEnd (tarrCtx tbl s0 vs c) = .ok () { c with target := slRun s0 vs, env := tbl } := by
  have h1 : onArrayFinished (tarrCtx tbl s0 vs c) = .ok () { c with target := slRun s0 vs, env := tbl } := by
    simp [onArrayFinished, bind_def, currentU_eq, tarrCtx, arrCleanup, popU, popIdx, popPtr, Stk.pop, pure_def]
  simp only [stepEv]
  rw [ctxArrFin_eq _ _ h1]
  simp [reportChildDone, bind_def, getCtx, hidle, pure_def]

theorem tarr_elems (f : Nat) (tbl : TypeTable) (xs : List UTree) (s0 : GoVal) (vs : List GoVal) (c : Ctx)
    (hs : isSliceVal s0) (hwf : wfList BT.any xs = true) (hkc : Symbols.Inv c.keyCache) :
    ∃ kc', KCOk c.keyCache kc' ∧
      run (f + 1) (eventsList xs) (tarrCtx tbl s0 vs c) =
        .ok () (tarrCtx tbl s0 (vs ++ genList .ifc xs) (setKC c kc')) := by
  induction xs generalizing vs c with
  | nil => exact ⟨c.keyCache, KCOk.refl hkc, by simp [eventsList, run, genList]⟩
  | cons x r ih =>
    obtain ⟨hx, hr⟩ := wfList_cons _ x r hwf
    have hx : x.wf = true := by simpa [isAnyBT, BT.any] using hx
    obtain ⟨kc1, hok1, hrun1⟩ := tree_into_container f x (tarrCtx tbl s0 vs c) hx
      (Or.inl rfl) (by simp [tarrCtx]) hkc
    have hstep : run (f + 1) x.events (tarrCtx tbl s0 vs c) =
        .ok () (tarrCtx tbl s0 (vs ++ [x.gen]) (setKC c kc1)) := by
      rw [hrun1]
      exact arrAppend_tarrCtx tbl s0 vs x.gen (setKC c kc1) hs
    obtain ⟨kc2, hok2, hrun2⟩ := ih (vs ++ [x.gen]) (setKC c kc1) hr hok1.1
    refine ⟨kc2, hok1.trans hok2, ?_⟩
    rw [eventsList, run_ok_then _ _ _ _ _ hstep, hrun2, setKC_setKC]
    simp [genList]


/-- the target slice after a whole array of `vs.length` elements: the elements are exactly
`vs`; what the old slice held beyond stays in the capacity -/
def sliceTargetFin (v0 : GoVal) (vs : List GoVal) : GoVal :=
  match v0 with
  | .sliceNil et => sliceFin et vs
  | .slice et es h => .slice et vs ((es ++ h).drop vs.length)
  | x => x

theorem slRun_start (z : GoVal) (l : Int) (v0 : GoVal) (vs : List GoVal) (hl : l ≤ (vs.length : Int)) :
    slRun (startSlice z l v0) vs = sliceTargetFin v0 vs := by
  cases v0 with
  | sliceNil et =>
    simp only [startSlice, sliceTargetFin]
    by_cases h0 : l ≤ 0
    · simp [h0, slRun]
    · have : arrPreallocLen l ≤ l := by unfold arrPreallocLen maxArrPrealloc; split <;> omega
      have hne : vs ≠ [] := by intro h; subst h; simp at hl; omega
      have e : (List.replicate (arrPreallocLen l).toNat z).drop vs.length = [] :=
        List.drop_eq_nil_of_le (by simp; omega)
      simp [h0, slRun, e, sliceFin, hne]
  | slice et es h =>
    simp only [startSlice, sliceTargetFin]
    generalize hl' : (if l < 0 then 0 else l) = l'
    have h1 : 0 ≤ l' := by subst hl'; split <;> omega
    have h2 : l' ≤ (vs.length : Int) := by subst hl'; split <;> omega
    by_cases hc : l' < (es.length : Int)
    · simp only [hc, if_true, slRun]
      have e1 : (es.take l'.toNat).drop vs.length = [] := List.drop_eq_nil_of_le (by simp; omega)
      have e2 : (es.take l'.toNat).length = l'.toNat := by simp; omega
      rw [e1, e2, List.append_nil]
      congr 1
      have e3 : es.drop l'.toNat ++ h = (es ++ h).drop l'.toNat := by
        rw [List.drop_append_of_le_length (by omega)]
      rw [e3, List.drop_drop]
      congr 1
      omega
    · simp only [hc, if_false, slRun]
      have e1 : es.drop vs.length = [] := List.drop_eq_nil_of_le (by omega)
      rw [e1, List.append_nil]
      congr 1
      rw [List.drop_append, e1, List.nil_append]
  | _ => rfl

end SF.Unf

namespace SF.Unf
open SF SF.Unf.Spec

/-! ### the values -/

theorem fits_wf (bt : Nat) (x : UTree) (h : x.fits bt = true) : x.wf = true := by
  cases x with
  | scalar s =>
    cases s with
    | num k v => simp only [UTree.fits, Sc.fits, Bool.and_eq_true] at h; simpa [UTree.wf, Sc.inRange] using h.1
    | _ => rfl
  | strRef s => rfl
  | arr l b xs => simp [UTree.fits] at h
  | obj l b ms => simp [UTree.fits] at h

/-- the elements of any well-formed array are well-formed values -/
theorem wfList_any (bt : Nat) (xs : List UTree) (h : wfList bt xs = true) : wfList BT.any xs = true := by
  induction xs with
  | nil => rfl
  | cons x r ih =>
    obtain ⟨hx, hr⟩ := wfList_cons bt x r h
    have hx' : x.wf = true := by
      by_cases ha : isAnyBT bt = true
      · rw [if_pos ha] at hx; exact hx
      · rw [if_neg ha] at hx; exact fits_wf bt x hx
    rw [wfList, Bool.and_eq_true]
    exact ⟨by simp [isAnyBT, BT.any, hx'], ih hr⟩

theorem wfMems_any (bt : Nat) (ms : List (Bool × Bytes × UTree)) (h : wfMems bt ms = true) :
    wfMems BT.any ms = true := by
  induction ms with
  | nil => rfl
  | cons m r ih =>
    obtain ⟨b, k, x⟩ := m
    obtain ⟨hx, hr⟩ := wfMems_cons bt b k x r h
    have hx' : x.wf = true := by
      by_cases ha : isAnyBT bt = true
      · rw [if_pos ha] at hx; exact hx
      · rw [if_neg ha] at hx; exact fits_wf bt x hx
    rw [wfMems, Bool.and_eq_true]
    exact ⟨by simp [isAnyBT, BT.any, hx'], ih hr⟩

/-- the map target afterwards ≙ the old members with the stream's members put, each as its
generic value (`Spec.assignEntries` for element type `interface{}`) -/
theorem mapFin_norm (m : GoVal) (et : GoType) (olds : List (Bytes × GoVal)) (ms : List (Bool × Bytes × UTree))
    (hm : mapParts m = some (et, olds)) (hwf : wfMems BT.any ms = true) :
    norm (mapFin m et olds ms) = norm (.map et (genericMems (toSMems ms) olds)) := by
  cases ms with
  | nil =>
    simp only [mapFin, List.isEmpty_nil, if_true, toSMems, genericMems]
    cases m with
    | mapNil et' =>
      simp only [mapParts, Option.some.injEq, Prod.mk.injEq] at hm
      obtain ⟨h1, h2⟩ := hm; subst h1; subst h2
      simp [norm_map, norm_mapNil]
    | map et' ms' =>
      simp only [mapParts, Option.some.injEq, Prod.mk.injEq] at hm
      obtain ⟨h1, h2⟩ := hm; subst h1; subst h2
      rfl
    | _ => simp [mapParts] at hm
  | cons a r =>
    simp only [mapFin, List.isEmpty_cons, Bool.false_eq_true, if_false]
    exact norm_map_congr _ _ _ (genMems_norm BT.any (a :: r) olds olds rfl hwf rfl)

/-- the slice target afterwards ≙ exactly the stream's elements, each as its generic value -/
theorem sliceTargetFin_norm (v0 : GoVal) (et : GoType) (xs : List UTree)
    (hv : v0 = .sliceNil et ∨ ∃ es h, v0 = .slice et es h) (hwf : wfList BT.any xs = true) :
    norm (sliceTargetFin v0 (genList .ifc xs)) = norm (.slice et (genericList (toSList xs)) []) := by
  have h1 : norm (sliceTargetFin v0 (genList .ifc xs)) = norm (.slice et (genList .ifc xs) []) := by
    rcases hv with hv | ⟨es, h, hv⟩ <;> subst hv
    · exact norm_sliceFin et _
    · simp only [sliceTargetFin, norm_slice]
  rw [h1]
  exact norm_slice_congr _ _ _ (genList_norm BT.any xs rfl hwf)

end SF.Unf
