/-
  JSON ENCODER (mirror SF/Json/Enc.lean of json/visitor.go) — the property theorems.

    (A) C16  write errors are reported                 json_encoder_reports_write_errors
                                                       json_encoder_success_iff_no_write_failed
                                                       json_encoder_tree_success_iff
    (B) C17  a complete document restores both stacks  json_encoder_doc, json_encoder_doc_idle
             reuse = fresh                             json_encoder_reuse
    (C) C07  string core                               string_token_valid, string_token_bytes,
                                                       string_token_unquote, string_token_decode,
                                                       sanitize_of_valid, onString_writes, onKey_writes,
                                                       onString_only_writes
    (D) C07  integer core                              int_acts, int_literal_valid, int_literal_toString,
                                                       int_literal_lexes, int_literal_decode
    (E) C07  structure                                 json_text_decodes, json_output_decodes

  Specification side used: SF/Json/Cst.lean (reference decoder `decode`, `lexString`,
  `lexNumber`), SF/Event.lean, SF/Tree.lean, and the small explicit recognisers defined in
  SF/Proofs/JsonEncStr.lean (`isJsonString`: RFC 8259 §7 over RFC 3629 UTF-8; `sanitize`,
  `validUtf8`), SF/Proofs/JsonEncUtf8.lean (`mbDecode`: RFC 3629 §4, proved equal to the model
  of Go's utf8.DecodeRune) and SF/Proofs/JsonEncInt.lean (`isJsonInt`, `jsonIntValue`: RFC 8259 §6).
-/
import SF.Proofs.JsonEncFault
import SF.Proofs.JsonEncSim
import SF.Proofs.JsonEncStr
import SF.Proofs.JsonEncInt
import SF.Proofs.JsonEncTree
import SF.Proofs.JsonEncRun
import SF.Proofs.JsonEncLex
import SF.Proofs.JsonEncParse
namespace SF.Props.JsonEnc
open SF SF.Json SF.Json.Enc SF.Json.Float ETree

/-! ## (A) C16 — sink errors are reported, promptly -/

/-- C16 for the JSON encoder, for EVERY stream of (extended) events — well-formed or not —
EVERY visitor state and EVERY fault index (`Clean s.w`: no Write has failed so far; the writer
fails from its `failFrom`-th call on):

  1. the run reports success only if no Write failed;
  2. if a Write failed the run reports an ERROR (not success, not a panic, not a hang) — and
     because `run` stops at the first event that does not return ok, it is the failing Write's
     own event that reports it and nothing is written after it;
  3. the index of the failing event is `none` exactly when the result is ok;
  4. if the stream contains no unsupported float (NaN / ±Inf while `ignoreInvalidFloat` is
     off — the only error json.Visitor raises by itself), an error is reported ONLY when a
     Write failed.

The CBOR statement `success ⇔ no Write failed` is FALSE here for arbitrary streams, see the two
counterexamples below (a panic and the visitor's own error, both with a healthy writer); the
full equivalence is `json_encoder_success_iff_no_write_failed`. -/
theorem json_encoder_reports_write_errors (xs : List XEv) (s : Enc) (h : Clean s.w) :
    ((run s xs).2.2 = .ok → Clean (run s xs).1.w) ∧
    (¬ Clean (run s xs).1.w → (run s xs).2.2 = .err) ∧
    ((run s xs).2.1 = none ↔ (run s xs).2.2 = .ok) ∧
    ((∀ e ∈ expandAll xs, ownError s.ignoreInvalidFloat e = false) →
      ((run s xs).2.2 = .err ↔ ¬ Clean (run s xs).1.w)) := by
  have := run_go_fault xs s 0 h
  exact ⟨this.1.ok_clean, this.1.dirty_err, this.2.1,
    fun hp => ⟨this.1.err_dirty hp, this.1.dirty_err⟩⟩

/-- C16, the equivalence: for EVERY stream that the same visitor accepts over a healthy writer
(`w'` never fails), EVERY state and EVERY fault index:
      the run reports success  ⇔  no Write call failed.
(The hypothesis does not mention the faulty writer: it only excludes streams that panic, hang or
contain an unsupported float on their own.) -/
theorem json_encoder_success_iff_no_write_failed (xs : List XEv) (s : Enc) (h : Clean s.w)
    (w' : Writer) (hw : w'.failFrom = none) (hok : (run { s with w := w' } xs).2.2 = .ok) :
    ((run s xs).2.2 = .ok ↔ Clean (run s xs).1.w) := by
  have hf := (run_go_fault xs s 0 h).1
  rcases run_go_sim xs s 0 w' h hw with ⟨he, hd⟩ | ⟨hc, w'', _, heq⟩
  · exact ⟨fun ho => absurd (hf.ok_clean ho) hd, fun hc => absurd hc hd⟩
  · refine ⟨hf.ok_clean, fun _ => ?_⟩
    have : (run { s with w := w' } xs).2.2 = (run s xs).2.2 := by
      show (run.go { s with w := w' } 0 xs).2.2 = (run.go s 0 xs).2.2
      rw [heq]
    rw [← this]; exact hok

/-- … in particular for the events of EVERY supported tree (numbers in the range of their kind,
floats finite or `ignoreInvalidFloat` on; no well-formedness of the announced lengths needed),
from EVERY state, for EVERY fault index -/
theorem json_encoder_tree_success_iff (o : Enc) (t : ETree) (hs : supported o t = true) (s : Enc)
    (ho : Opts s o) (h : Clean s.w) :
    ((run s (t.events.map .ev)).2.2 = .ok ↔ Clean (run s (t.events.map .ev)).1.w) := by
  apply json_encoder_success_iff_no_write_failed _ s h {} rfl
  obtain ⟨w', h1, _, _⟩ := enc_doc o t hs { s with w := {} } ⟨ho.html, ho.ign, ho.radix⟩ rfl
  rw [run_evs _ _ _ h1]

/-- non-vacuity: the 3rd Write (index 2) fails: `[1,"ab"]` needs 7 Writes; the error comes from
event index 2 (the string, whose separating comma is Write 2), nothing after it is attempted -/
example : (run { w := { failFrom := some 2 } }
      [.ev (.arrStart 2 0), .ev (.num .u8 1), .ev (.str [0x61, 0x62]), .ev .arrEnd]).2 = (some 2, .err) ∧
    (run { w := { failFrom := some 2 } }
      [.ev (.arrStart 2 0), .ev (.num .u8 1), .ev (.str [0x61, 0x62]), .ev .arrEnd]).1.w.calls = 3 := by
  decide +kernel
/-- counterexample 1 to `success ⇔ no Write failed` on arbitrary streams: a stray
OnArrayFinished panics ("pop from empty stack") although no Write failed -/
example : (run {} [.ev .arrEnd]).2 = (some 0, .panic) := by decide +kernel
/-- counterexample 2: NaN is refused by the visitor itself although no Write failed -/
example : (run {} [.ev (.f64 0x7ff8000000000000)]).2 = (some 0, .err) := by decide +kernel

/-! ## (B) C17 — a reused encoder behaves like a fresh one -/

/-- one complete document, from ANY state whose writer does not fail (any nesting position, any
contents of the two bool stacks): the events run through, `inArray` is restored EXACTLY,
`first` is restored exactly apart from `tryElemNext` clearing `first.current` when the document
is an element of an enclosing array, the options are untouched and the bytes written are
`sep s ++ text o t` — they depend on the state only through the separator.
`ETree.wf` is not needed: the JSON visitor ignores announced lengths and element types. -/
theorem json_encoder_doc (o : Enc) (t : ETree) (hs : supported o t = true) (s : Enc) (ho : Opts s o)
    (hf : s.w.failFrom = none) :
    ∃ w', execEvs s t.events = ({ s with w := w', first := afterVal s }, .ok) ∧ w'.failFrom = none ∧
      w'.out = s.w.out ++ sep s ++ text o t :=
  enc_doc o t hs s ho hf

/-- … at top level (idle visitor, `inArray.current = false`): BOTH stacks are exactly as
before, only the output grew, by exactly `text o t` -/
theorem json_encoder_doc_idle (o : Enc) (t : ETree) (hs : supported o t = true) (s : Enc) (ho : Opts s o)
    (hf : s.w.failFrom = none) (ha : s.inArray.current = false) :
    ∃ w', execEvs s t.events = ({ s with w := w' }, .ok) ∧ w'.failFrom = none ∧
      w'.out = s.w.out ++ text o t := by
  obtain ⟨w', h1, h2, h3⟩ := enc_doc o t hs s ho hf
  have hav : afterVal s = s.first := by simp [afterVal, ha]
  have hsep : sep s = [] := by simp [sep, ha]
  rw [hav] at h1
  rw [hsep, List.append_nil] at h3
  exact ⟨w', h1, h2, h3⟩

/-- reuse = fresh: after ANY history of complete documents the visitor is the visitor it was
(both stacks, all options; only the writer moved on), and a probe document written by the
reused visitor yields exactly the bytes it yields on the fresh one -/
theorem json_encoder_reuse (o : Enc) (hist : List ETree) (probe : ETree)
    (hh : ∀ t ∈ hist, supported o t = true) (hp : supported o probe = true)
    (s0 : Enc) (ho : Opts s0 o) (hf : s0.w.failFrom = none) (ha : s0.inArray.current = false) :
    ∃ w1, execEvs s0 (eventsList hist) = ({ s0 with w := w1 }, .ok) ∧
      w1.out = s0.w.out ++ (hist.map (text o)).flatten ∧
      (execEvs { s0 with w := w1 } probe.events).2 = .ok ∧
      (execEvs { s0 with w := w1 } probe.events).1.w.out = w1.out ++ text o probe ∧
      (execEvs s0 probe.events).1.w.out = s0.w.out ++ text o probe ∧
      (execEvs { s0 with w := w1 } probe.events).1.first = (execEvs s0 probe.events).1.first ∧
      (execEvs { s0 with w := w1 } probe.events).1.inArray = (execEvs s0 probe.events).1.inArray := by
  obtain ⟨w1, a1, a2, a3⟩ := enc_docs o hist hh s0 ho hf ha
  obtain ⟨w2, b1, _, b3⟩ := json_encoder_doc_idle o probe hp { s0 with w := w1 } ⟨ho.html, ho.ign, ho.radix⟩ a2 ha
  obtain ⟨w3, c1, _, c3⟩ := json_encoder_doc_idle o probe hp s0 ho hf ha
  refine ⟨w1, a1, a3, ?_, ?_, ?_, ?_, ?_⟩
  · rw [b1]
  · rw [b1]; exact b3
  · rw [c1]; exact c3
  · rw [b1, c1]
  · rw [b1, c1]

/-- non-vacuity: `{"a":[1,[]]}` then `[true]` then the probe `{"k":null}` -/
example : supported {} (.obj (-1) 0 [([0x61], .arr 2 0 [.num .u8 1, .arr 0 0 []])]) = true ∧
    supported {} (.arr 1 0 [.bool true]) = true ∧ supported {} (.obj 1 0 [([0x6b], .null)]) = true := by
  decide +kernel
example : (execEvs {} (eventsList [.obj (-1) 0 [([0x61], .arr 2 0 [.num .u8 1, .arr 0 0 []])],
      .arr 1 0 [.bool true], .obj 1 0 [([0x6b], .null)]])).1.w.out =
    Float.strBytes "{\"a\":[1,[]]}[true]{\"k\":null}" := by decide +kernel

/-! ## (C) C07 — the string core -/

/-- for EVERY byte string `s` (valid UTF-8 or not) and both escape modes the bytes written for
`OnString s` form a valid RFC 8259 string token: opening quote, then only characters legal
unescaped inside a JSON string (well-formed UTF-8 of code points ≥ U+0020 other than `"` `\`)
or well-formed escapes, then the closing quote, and nothing after it -/
theorem string_token_valid (html : Bool) (s : Bytes) : isJsonString (strToken html s) = true := by
  obtain ⟨out, hB, htok, _⟩ := onString_spec html s
  rw [htok]
  simp [isJsonString, body_strChars hB]

/-- … the token contains no control byte at all, and with HTML escaping no `<` `>` `&`
(together with `string_token_valid`: every control byte, `"` and `\` — and `<` `>` `&` — of `s`
has been escaped) -/
theorem string_token_bytes (html : Bool) (s : Bytes) :
    (∀ x ∈ strToken html s, 0x20 ≤ x.toNat) ∧
    (html = true → ∀ x ∈ strToken html s, x.toNat ≠ 0x26 ∧ x.toNat ≠ 0x3C ∧ x.toNat ≠ 0x3E) := by
  obtain ⟨out, hB, htok, _⟩ := onString_spec html s
  obtain ⟨h1, h2⟩ := body_out hB
  rw [htok]
  refine ⟨fun x hx => ?_, fun hh x hx => ?_⟩
  · rcases List.mem_cons.mp hx with rfl | h
    · decide
    · exact h1 x h
  · rcases List.mem_cons.mp hx with rfl | h
    · decide
    · exact h2 hh x h

/-- the reference decoder's unquote (`Cst.lexString`, started after the opening quote, with the
fuel `Cst.lex` gives it or more, any accumulator, ANY bytes `X` following the token) returns `s`
with every byte that is not part of a well-formed UTF-8 sequence replaced by U+FFFD, and stops
exactly behind the closing quote -/
theorem string_token_unquote (html : Bool) (s : Bytes) (X : Bytes) (f : Nat)
    (hf : (strToken html s).length ≤ f + 1) :
    ∃ out, strToken html s = 0x22 :: out ∧ Cst.lexString f (out ++ X) [] = .ok (sanitize s, X) := by
  obtain ⟨out, hB, htok, _⟩ := onString_spec html s
  refine ⟨out, htok, ?_⟩
  rw [htok] at hf
  have := body_lex hB f X [] (by simpa using hf)
  simpa using this

/-- … it returns `s` itself when `s` is well-formed UTF-8 (RFC 3629) -/
theorem sanitize_of_valid (s : Bytes) (h : validUtf8 s = true) : sanitize s = s := sanitize_valid s h

/-- the whole reference decoder on the token alone: one string value, `sanitize s` -/
theorem string_token_decode (html : Bool) (s : Bytes) :
    ∃ v, Cst.decode (strToken html s) = .ok [v] false ∧ v = .str (sanitize s) := by
  have := decode_text { escapeHTML := html } (.str s) rfl
  rw [text_str] at this
  simpa [jvalue] using this

/-- what `OnString s` does on a healthy writer, from ANY state: separator logic, then exactly
the token; the visitor is otherwise unchanged -/
theorem onString_writes (s : Enc) (hf : s.w.failFrom = none) (str : Bytes) :
    ∃ w', exec s (onString s.escapeHTML str) = ({ s with w := w', first := afterVal s }, .ok) ∧
      w'.failFrom = none ∧ w'.out = s.w.out ++ sep s ++ strToken s.escapeHTML str := by
  obtain ⟨out, _, htok, ws, h1, h2, h3⟩ := onString_spec s.escapeHTML str
  obtain ⟨w', g1, g2, g3⟩ := exec_scalar s hf ws h2
  exact ⟨w', by rw [h1]; exact g1, g2, by rw [g3, h3, htok]⟩

/-- the string loop never runs out of fuel and raises no error of its own: EVERY action of
`OnString s` is the separator logic or a Write (C03 for the encoder's only data-dependent loop) -/
theorem onString_only_writes (html : Bool) (s : Bytes) :
    ∀ a ∈ onString html s, a = Act.tryElemNext ∨ ∃ b, a = Act.write b := by
  obtain ⟨_, _, _, ws, h1, h2, _⟩ := onString_spec html s
  intro a ha
  rw [h1] at ha
  rcases List.mem_cons.mp ha with h | h
  · exact Or.inl h
  · exact Or.inr (h2 a h)

/-- what `OnKey k` does inside an object: a comma unless it is the first member, the token of
`k`, a colon -/
theorem onKey_writes (s : Enc) (hf : s.w.failFrom = none) (ha : s.inArray.current = false) (k : Bytes) :
    ∃ w', exec s (onKey s.escapeHTML k) = ({ s with w := w', first := setCur s.first false }, .ok) ∧
      w'.failFrom = none ∧
      w'.out = s.w.out ++ (if s.first.current then [] else [ch ',']) ++ strToken s.escapeHTML k ++ [ch ':'] :=
  exec_key s k s ⟨rfl, rfl, rfl⟩ hf ha

/-- non-vacuity: `a " \ LF U+0001 < é 0xFF U+2028 U+1F600 0xC3` (invalid bytes 0xFF and a lone
0xC3), HTML escaping on: the token, its validity, its decoding -/
example : strToken true [0x61, 0x22, 0x5C, 0x0A, 0x01, 0x3C, 0xC3, 0xA9, 0xFF, 0xE2, 0x80, 0xA8, 0xF0, 0x9F, 0x98,
      0x80, 0xC3] =
    Float.strBytes "\"a\\\"\\\\\\n\\u0001\\u003c" ++ [0xC3, 0xA9] ++ Float.strBytes "\\ufffd\\u2028" ++
      [0xF0, 0x9F, 0x98, 0x80] ++ Float.strBytes "\\ufffd\"" := by decide +kernel
example : sanitize [0x61, 0x22, 0x5C, 0x0A, 0x01, 0x3C, 0xC3, 0xA9, 0xFF, 0xE2, 0x80, 0xA8, 0xF0, 0x9F, 0x98, 0x80,
      0xC3] =
    [0x61, 0x22, 0x5C, 0x0A, 0x01, 0x3C, 0xC3, 0xA9, 0xEF, 0xBF, 0xBD, 0xE2, 0x80, 0xA8, 0xF0, 0x9F, 0x98, 0x80,
      0xEF, 0xBF, 0xBD] := by decide +kernel
example : validUtf8 [0x61, 0xC3, 0xA9, 0xE2, 0x80, 0xA8, 0xF0, 0x9F, 0x98, 0x80] = true ∧
    validUtf8 [0xED, 0xA0, 0x80] = false ∧ validUtf8 [0xC0, 0x80] = false := by decide +kernel
/-- the recogniser is not trivially true -/
example : isJsonString (Float.strBytes "\"a\nb\"") = false ∧ isJsonString (Float.strBytes "\"a\"b\"") = false ∧
    isJsonString (Float.strBytes "\"\\x\"") = false ∧ isJsonString [0x22, 0xC3, 0x22] = false := by decide +kernel

/-! ## (D) C07 — the integer core -/

/-- for EVERY value in the range of the Go type behind its kind (int64 for the signed kinds,
uint64 for the unsigned ones — implied by `k.inRange v`) the visitor method is: separator
logic, then ONE Write of the canonical decimal literal `intLit v`.
Outside that range the statement is false for the model (no Go value is outside it):
`acts {} (.num .u8 (-1))` writes `0`, `acts {} (.num .i64 (2^64))` writes `0`, and
`acts {} (.num .u64 (10^21))` is `hang` (the model's digit loop has fuel for 21 digits). -/
theorem int_acts (s : Enc) (k : NumKind) (v : Int)
    (h : (k.signed = true ∧ -9223372036854775808 ≤ v ∧ v ≤ 9223372036854775807) ∨
         (k.signed = false ∧ 0 ≤ v ∧ v ≤ 18446744073709551615)) :
    acts s (.num k v) = [.tryElemNext, .write (intLit v)] :=
  acts_num s k v h

theorem int_acts_inRange (s : Enc) (k : NumKind) (v : Int) (h : k.inRange v = true) :
    acts s (.num k v) = [.tryElemNext, .write (intLit v)] :=
  acts_num s k v (inRange_cases k v h)

/-- the literal is a valid RFC 8259 integer `-? (0 / [1-9] *DIGIT)` — digits only, no leading
zero, a minus sign exactly for negative values — and its value is `v` (EVERY Int) -/
theorem int_literal_valid (v : Int) : isJsonInt (intLit v) = true ∧ jsonIntValue (intLit v) = v :=
  intLit_valid v

/-- it is the decimal text Lean's `toString` gives (EVERY Int) -/
theorem int_literal_toString (v : Int) : intLit v = Float.strBytes (toString v) := intLit_toString v

/-- the reference lexer reads it back: for every `v` in [-2^63, 2^64) and every continuation
`rest` that may follow a number (end of text, or whitespace / `,` / `]` / `}` / `:`),
`Cst.lexNumber` returns exactly the integer `v`, not flagged as out of range, and `rest` -/
theorem int_literal_lexes (v : Int) (rest : Bytes) (hr : EndOk rest)
    (h1 : -9223372036854775808 ≤ v) (h2 : v ≤ 18446744073709551615) :
    Cst.lexNumber (intLit v ++ rest) = .ok (.int v, false, rest) :=
  lexNumber_intLit v rest hr h1 h2

/-- the whole reference decoder on what the encoder writes for a number event at top level -/
theorem int_literal_decode (o : Enc) (k : NumKind) (v : Int) (h : k.inRange v = true) :
    text o (.num k v) = intLit v ∧ ∃ x, Cst.decode (intLit v) = .ok [x] false ∧ x = .int v := by
  refine ⟨text_num o k v h, ?_⟩
  have := decode_text o (.num k v) (by simpa [plain] using h)
  rw [text_num o k v h] at this
  simpa [jvalue] using this

/-- non-vacuity: the extreme values -/
example : intLit (-9223372036854775808) = Float.strBytes "-9223372036854775808" ∧
    intLit 18446744073709551615 = Float.strBytes "18446744073709551615" ∧ intLit 0 = Float.strBytes "0" := by
  decide +kernel
example : acts {} (.num .i64 (-9223372036854775808)) =
    [.tryElemNext, .write (Float.strBytes "-9223372036854775808")] := by decide +kernel
/-- the range hypothesis is needed -/
example : acts {} (.num .u8 (-1)) = [.tryElemNext, .write (Float.strBytes "0")] ∧
    acts {} (.num .i64 18446744073709551616) = [.tryElemNext, .write (Float.strBytes "0")] := by decide +kernel

/-! ## (E) C07 — structure -/

/-- for EVERY tree without floats whose numbers are in range (`plain`; no `wf` needed), any
options: the reference decoder accepts the whole text the encoder writes — every comma and
colon in place at every nesting depth, empty containers included — as exactly ONE value, the
value of the tree with every string and key sanitized, nothing flagged `mayReject` -/
theorem json_text_decodes (o : Enc) (t : ETree) (hp : plain t = true) :
    ∃ v, Cst.decode (text o t) = .ok [v] false ∧ v = jvalue t :=
  decode_text o t hp

/-- the same through the encoder's entry point: a visitor with idle stacks and a fresh healthy
writer (`newVisitor` plus any `Set…` options), the events of a `plain` tree whose strings and
keys are well-formed UTF-8: the run succeeds and the reference decoder reads the bytes written
back as the tree's value -/
theorem json_output_decodes (o : Enc) (t : ETree) (hp : plain t = true) (hu : utf8Tree t = true)
    (hw : o.w = {}) (ha : o.inArray.current = false) :
    (run o (t.events.map .ev)).2 = (none, .ok) ∧
    ∃ v, Cst.decode (encAll o (t.events.map .ev)) = .ok [v] false ∧ v = t.value := by
  have hf : o.w.failFrom = none := by rw [hw]
  obtain ⟨w', h1, _, h3⟩ := json_encoder_doc_idle o t (plain_supported o t hp) o ⟨rfl, rfl, rfl⟩ hf ha
  have hrun := run_evs _ _ _ h1
  refine ⟨by rw [hrun], ?_⟩
  have hout : encAll o (t.events.map .ev) = text o t := by
    simp only [encAll, hrun, h3, hw]
    simp [Writer.out]
  rw [hout, ← jvalue_eq t hu]
  exact decode_text o t hp

/-- non-vacuity: `{"a":[-5,"\"é<"],"b":{},"":[[],{}]}` -/
example : plain (.obj (-1) 0 [([0x61], .arr 2 0 [.num .i8 (-5), .str [0x22, 0xC3, 0xA9, 0x3C]]),
      ([0x62], .obj 0 0 []), ([], .arr 2 0 [.arr 0 0 [], .obj (-1) 0 []])]) = true ∧
    utf8Tree (.obj (-1) 0 [([0x61], .arr 2 0 [.num .i8 (-5), .str [0x22, 0xC3, 0xA9, 0x3C]]),
      ([0x62], .obj 0 0 []), ([], .arr 2 0 [.arr 0 0 [], .obj (-1) 0 []])]) = true := by decide +kernel
example : encAll {} ((ETree.obj (-1) 0 [([0x61], .arr 2 0 [.num .i8 (-5), .str [0x22, 0xC3, 0xA9, 0x3C]]),
      ([0x62], .obj 0 0 []), ([], .arr 2 0 [.arr 0 0 [], .obj (-1) 0 []])]).events.map .ev) =
    Float.strBytes "{\"a\":[-5,\"\\\"" ++ [0xC3, 0xA9] ++ Float.strBytes "\\u003c\"],\"b\":{},\"\":[[],{}]}" := by
  decide +kernel

end SF.Props.JsonEnc
