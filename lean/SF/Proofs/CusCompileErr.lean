/-
  The static error direction of property C12: a good type the specification REFUSES
  (`typeOkF … = .error e`, not for lack of its own fuel) does not compile — `getReflectFold`
  returns a Go error (never a panic, never fuel exhaustion), given fuel for the depth.
-/
import SF.Proofs.FoldCompileErr
import SF.Proofs.CusNoFuel
namespace SF.FoldProofs.Custom
open SF SF.Gotype SF.Gotype.Fold SF.Gotype.Rules

/-- one step of a failing `typeOkF` through the head of a good type -/
theorem typeOkF_head_err {n : Nat} {reg : Bool} {seen sn : List String} {T : GoType} {e : RuleErr}
    (h : goodC reg sn T = true) (h1 : isC1 reg T = false) (hs : ∀ x ∈ seen, x ∈ sn)
    (hok : typeOkF n reg seen T = .error e) (he : e ≠ .fuel) :
    ∃ n', typeOkF (n' + 1) reg (snU seen T) T.under = .error e ∧ (∀ x ∈ snU seen T, x ∈ snU sn T) := by
  cases n with
  | zero => rw [typeOkF_zero] at hok; cases hok; exact absurd rfl he
  | succ n =>
  rcases headKind h with hu | ⟨nm, m, u, rfl⟩
  · have e1 : snU seen T = seen := by cases T <;> first | rfl | simp [unnamedHead] at hu
    have e2 : snU sn T = sn := by cases T <;> first | rfl | simp [unnamedHead] at hu
    refine ⟨n, ?_, ?_⟩
    · rw [under_unnamed hu, e1]; exact hok
    · rw [e1, e2]; exact hs
  · rw [typeOkF_named n seen h h1 hs] at hok
    cases n with
    | zero => rw [typeOkF_zero] at hok; cases hok; exact absurd rfl he
    | succ n =>
      refine ⟨n, hok, ?_⟩
      intro x hx
      simp only [snU, List.mem_cons] at hx ⊢
      rcases hx with rfl | hx
      · exact Or.inl rfl
      · exact Or.inr (hs x hx)

theorem typeOkF_strip_err (reg : Bool) (e : RuleErr) (he : e ≠ .fuel) :
    ∀ (sn : List String) (T : GoType), goodC reg sn T = true →
    ∀ n seen, (∀ x ∈ seen, x ∈ sn) → typeOkF n reg seen T = .error e →
    ∃ n' seen' sn', typeOkF n' reg seen' (stripPtr T).2 = .error e ∧ goodC reg sn' (stripPtr T).2 = true ∧
      (∀ x ∈ seen', x ∈ sn') ∧ (∀ x ∈ sn, x ∈ sn') := by
  refine strip_induction _ ?_ ?_
  · intro sn T hg _ hs n seen hsub hok
    rw [hs]
    exact ⟨n, seen, sn, hok, hg, hsub, fun _ hx => hx⟩
  · intro sn T e' hg hu _ hs ih n seen hsub hok
    rw [hs]
    obtain ⟨n', hn', hsub'⟩ := typeOkF_head_err hg (notC1_of_under_ptr hg hu) hsub hok he
    rw [hu, typeOkF_unnamed n' reg _ rfl] at hn'
    obtain ⟨n2, seen2, sn2, h1, h2, h3, h4⟩ := ih n' _ hsub' hn'
    exact ⟨n2, seen2, sn2, h1, h2, h3, fun x hx => h4 x (snU_sub sn T x hx)⟩

theorem inlineOkF_strip_err (reg : Bool) (e : RuleErr) (he : e ≠ .fuel) :
    ∀ (sn : List String) (T : GoType), goodC reg sn T = true →
    ∀ n seen, inlineOkF n reg seen T = .error e → ∃ n', inlineOkF n' reg seen (stripPtr T).2 = .error e := by
  refine strip_induction _ ?_ ?_
  · intro sn T _ _ hs n seen hok
    rw [hs]
    exact ⟨n, hok⟩
  · intro sn T e' hg hu _ hs ih n seen hok
    rw [hs]
    cases n with
    | zero =>
      have : inlineOkF 0 reg seen T = .error .fuel := rfl
      rw [this] at hok; cases hok; exact absurd rfl he
    | succ n =>
      rw [inlineOkF_good n seen (notC1_of_under_ptr hg hu), hu] at hok
      exact ih n seen hok

/-- getReflectFold fails with a Go error on refused good types of depth ≤ d -/
def CompEA (o : FoldOpts) (reg : Bool) (d : Nat) : Prop :=
  ∀ sn T, tdepth T ≤ d → goodC reg sn T = true → ∀ n seen, (∀ x ∈ seen, x ∈ sn) →
    ∀ e, typeOkF n reg seen T = .error e → e ≠ .fuel →
    ∀ cf op, OpIn op sn → 4 * d + 4 ≤ cf → ∃ e', getReflectFold cf o op T = .error (.err e')

/-- a refused field fails to compile -/
def CompEF (o : FoldOpts) (reg : Bool) (d : Nat) : Prop :=
  ∀ sn f, tdepth f.typ ≤ d → goodCF reg sn f = true → ∀ n seen, (∀ x ∈ seen, x ∈ sn) →
    ∀ e, fieldOkF n reg seen f = .error e → e ≠ .fuel →
    ∀ cf op k, OpIn op sn → 4 * d + 6 ≤ cf → ∃ e', buildFieldFold cf o op f k = .error (.err e')

/-- the field folders of a struct with a refused field fail to compile -/
theorem compile_fields_err {o : FoldOpts} {reg : Bool} (hreg : o.folders = reg) {d : Nat} (hd : d ≤ 1000) (hEF : CompEF o reg d)
    {sn : List String} {fs : List Field} (hT : tdepthFs fs ≤ d) (hg : goodCFs reg sn fs = true)
    {n : Nat} {seen : List String} (hsub : ∀ x ∈ seen, x ∈ sn) {e : RuleErr}
    (herr : fs.forM (fun f => fieldOkF n reg seen f) = .error e) (he : e ≠ .fuel)
    {cf : Nat} {op : Open} (k : Nat) (hop : OpIn op sn) (hcf : 4 * d + 6 ≤ cf) :
    ∃ e', (fs.zipIdx k).mapM (fun (x : Field × Nat) => buildFieldFold cf o op x.1 x.2) = .error (.err e') := by
  induction fs generalizing k with
  | nil => cases herr
  | cons f fs ih =>
    simp only [tdepthFs] at hT
    simp only [goodCFs, Bool.and_eq_true] at hg
    have e1 : (f :: fs).forM (fun f => fieldOkF n reg seen f) =
        (fieldOkF n reg seen f >>= fun _ => fs.forM (fun f => fieldOkF n reg seen f)) := rfl
    rw [e1] at herr
    rw [zipIdx_cons, mapM_cons]
    cases hf : fieldOkF n reg seen f with
    | error e0 =>
      simp only [hf, bind, Except.bind, Except.error.injEq] at herr
      subst herr
      obtain ⟨e', he'⟩ := hEF sn f (by rw [← tdepthF_typ]; omega) hg.1 n seen hsub e0 hf he cf op k hop hcf
      exact ⟨e', by simp only [he']⟩
    | ok u =>
      simp only [hf, bind, Except.bind] at herr
      obtain ⟨fvs1, hfvs1⟩ := (compile_ok_all o hreg d hd).2 sn [f] (by simp [tdepthFs]; omega)
        (by simp [goodCFs, hg.1]) n seen hsub (by intro g hg'; simp at hg'; rw [hg']; exact hf) cf op k hop hcf
      rw [zipIdx_cons, mapM_cons] at hfvs1
      cases hfo : buildFieldFold cf o op f k with
      | error e0 => simp [hfo] at hfvs1
      | ok fo =>
        obtain ⟨e', he'⟩ := ih (by omega) hg.2 herr (k + 1)
        exact ⟨e', by simp only [he']⟩

theorem compEA_step (o : FoldOpts) {reg : Bool} (hreg : o.folders = reg) (d : Nat) (hd : d ≤ 1000)
    (ihA : ∀ d' < d, CompEA o reg d') (ihF : ∀ d' < d, CompEF o reg d') : CompEA o reg d := by
  intro sn T hT hg n seen hsub e herr he cf op hop hcf
  have hpl : plainT reg T = true := by
    cases n with
    | zero => rw [typeOkF_zero] at herr; cases herr; exact absurd rfl he
    | succ n0 =>
    rcases head_cases hg with ⟨nm, m, u, rfl, h1⟩ | ⟨nm, m, u, rfl, h1, hge⟩ | hpl
    · rw [typeOkF_c1 n0 seen h1] at herr; cases herr
    · rw [typeOkF_unnamed n0 reg seen rfl] at herr
      simp only [] at herr
      cases n0 with
      | zero => rw [typeOkF_zero] at herr; cases herr; exact absurd rfl he
      | succ n1 => rw [typeOkF_c1 n1 seen h1] at herr; cases herr
    · exact hpl
  have h1 := plain_notC1 hpl
  obtain ⟨n', herr', hsub'⟩ := typeOkF_head_err hg h1 hsub herr he
  have hgu := good_under hg
  have hop' := OpIn_enter hop T
  have hdu := tdepth_under hg
  rw [typeOkF_unnamed n' reg _ hgu.2] at herr'
  obtain ⟨c, rfl⟩ := exists_succ (k := 0) (by omega : 0 + 1 ≤ cf)
  generalize hU : T.under = U at herr' hgu hdu
  cases U with
  | bool => simp at herr'
  | string => simp at herr'
  | int k => simp at herr'
  | float32 => simp at herr'
  | float64 => simp at herr'
  | iface => simp at herr'
  | named a b c => simp [unnamedHead] at hgu
  | ref a => simp [unnamedHead] at hgu
  | chan e0 => exact ⟨_, grf_unsupported c o op hreg hg hpl hop (Or.inl ⟨e0, hU⟩)⟩
  | other k => exact ⟨_, grf_unsupported c o op hreg hg hpl hop (Or.inr ⟨k, hU⟩)⟩
  | slice e0 =>
    have he0 : goodC reg (snU sn T) e0 = true := by simpa [goodC] using hgu.1
    have hde : tdepth e0 + 1 ≤ d := by simp only [tdepth] at hdu; omega
    simp only [] at herr'
    have hnp : noPrimitive T := by
      refine noPrimitive_of_under hg ?_
      intro hu
      rw [hU]
      cases hpr : primOf? e0 with
      | some p =>
        exfalso
        cases n' with
        | zero => rw [typeOkF_zero] at herr'; cases herr'; exact he rfl
        | succ n2 =>
          rw [typeOkF_unnamed n2 reg _ (unnamed_of_prim hpr)] at herr'
          cases e0 <;> simp [primOf?] at hpr <;> simp at herr'
      | none => simp [getReflectFoldPrimitive, hpr]
    obtain ⟨c', rfl⟩ := exists_succ (k := 0) (by omega : 0 + 1 ≤ c)
    obtain ⟨e', he'⟩ := ihA (d - 1) (by omega) _ e0 (by omega) he0 n' _ hsub' e herr' he c' _ hop' (by omega)
    exact ⟨e', by rw [grf_slice c' o op hreg hg hpl hop hU hnp, he']⟩
  | array k e0 =>
    have he0 : goodC reg (snU sn T) e0 = true := by simpa [goodC] using hgu.1
    have hde : tdepth e0 + 1 ≤ d := by simp only [tdepth] at hdu; omega
    simp only [] at herr'
    obtain ⟨c', rfl⟩ := exists_succ (k := 0) (by omega : 0 + 1 ≤ c)
    obtain ⟨e', he'⟩ := ihA (d - 1) (by omega) _ e0 (by omega) he0 n' _ hsub' e herr' he c' _ hop' (by omega)
    exact ⟨e', by rw [grf_array c' o op hreg hg hpl hop hU, he']⟩
  | ptr e0 =>
    obtain ⟨c', rfl⟩ := exists_succ (k := 0) (by omega : 0 + 1 ≤ c)
    have hb := baseType_good hg (by omega : tdepth T ≤ 1000)
    have hdb := tdepth_stripPtr T
    have hs := stripPtr_of_under_ptr hU (headKind hg)
    have hge : goodC reg (snU sn T) e0 = true := by simpa [goodC] using hgu.1
    simp only [] at herr'
    obtain ⟨n2, seen2, sn2, h1, h2, h3, h4⟩ := typeOkF_strip_err reg e he _ e0 hge n' _ hsub' herr'
    have hs1 : 1 ≤ (stripPtr T).1 := by rw [hs]; simp
    obtain ⟨e', he'⟩ := ihA (d - 1) (by omega) sn2 (stripPtr e0).2 (by rw [hs] at hdb; simp only [] at hdb; omega)
      h2 n2 seen2 h3 e h1 he c' (op.enter T) (OpIn_mono hop' h4) (by omega)
    refine ⟨e', ?_⟩
    rw [grf_ptr c' o op hreg hg hpl hop hU, hb]
    have : (stripPtr T).2 = (stripPtr e0).2 := by rw [hs]
    rw [this, he']
  | struct fs =>
    have hfs : goodCFs reg (snU sn T) fs = true := by simpa [goodC] using hgu.1
    have hde : tdepthFs fs + 1 ≤ d := by simp only [tdepth] at hdu; omega
    simp only [] at herr'
    obtain ⟨c', rfl⟩ := exists_succ (k := 0) (by omega : 0 + 1 ≤ c)
    obtain ⟨e', he'⟩ := compile_fields_err (o := o) hreg (by omega : d - 1 ≤ 1000) (ihF (d - 1) (by omega))
      (by omega) hfs hsub' herr' he 0 hop' (cf := c') (by omega)
    refine ⟨e', ?_⟩
    rw [grf_struct (c' + 1) o op hreg hg hpl hop hU, grfs_eq, he']
  | map k e0 =>
    have hke : goodC reg (snU sn T) k = true ∧ goodC reg (snU sn T) e0 = true := by simpa [goodC] using hgu.1
    have hde : tdepth e0 + 1 ≤ d := by simp only [tdepth] at hdu; omega
    simp only [] at herr'
    obtain ⟨c', rfl⟩ := exists_succ (k := 1) (by omega : 1 + 1 ≤ c)
    obtain ⟨c'', rfl⟩ := exists_succ (k := 0) (by omega : 0 + 1 ≤ c')
    by_cases hk : isStringKind k = true
    · simp only [hk, if_true] at herr'
      have hks := isStringKind_iff.mp hk
      -- the element type is refused: it is no primitive, no interface
      have hnprim : primOf? e0 = none := by
        cases hpr : primOf? e0 with
        | none => rfl
        | some p =>
          exfalso
          cases n' with
          | zero => rw [typeOkF_zero] at herr'; cases herr'; exact he rfl
          | succ n2 =>
            rw [typeOkF_unnamed n2 reg _ (unnamed_of_prim hpr)] at herr'
            cases e0 <;> simp [primOf?] at hpr <;> simp at herr'
      have hni : e0 ≠ .iface := by
        intro h
        subst h
        cases n' with
        | zero => rw [typeOkF_zero] at herr'; cases herr'; exact he rfl
        | succ n2 => simp [typeOkF, customOf, GoType.whnf, GoType.menagerieName?] at herr'
      have hnp : noPrimitive T := by
        refine noPrimitive_of_under hg ?_
        intro _
        rw [hU]
        by_cases hk2 : k = .string
        · subst hk2; simp [getReflectFoldPrimitive, hnprim]
        · exact getReflectFoldPrimitive_map_nonstring hk2
      obtain ⟨e', he'⟩ := ihA (d - 1) (by omega) _ e0 (by omega) hke.2 n' _ hsub' e herr' he c'' _ hop' (by omega)
      refine ⟨e', ?_⟩
      rw [grf_map c'' o op hreg hg hpl hop hU hnp, grfmk_good c'' o _ hU]
      simp only [hks]
      cases e0 <;> first | (exact absurd rfl hni) | (simp only [hnprim, he'])
    · have hku : ∀ h : k.under = .string, False := fun h => hk (isStringKind_iff.mpr h)
      have hnp : noPrimitive T := by
        refine noPrimitive_of_under hg ?_
        intro _
        rw [hU]
        refine getReflectFoldPrimitive_map_nonstring ?_
        intro h; subst h; exact hku rfl
      refine ⟨.mapRequiresStringKey, ?_⟩
      rw [grf_map c'' o op hreg hg hpl hop hU hnp, grfmk_good c'' o _ hU]
      cases hkk : k.under <;> first | (exact absurd hkk (fun h => hku h)) | rfl

theorem compEF_step (o : FoldOpts) {reg : Bool} (hreg : o.folders = reg) (d : Nat) (hd : d ≤ 1000) (hA : CompEA o reg d)
    (ihA : ∀ d' < d, CompEA o reg d') (ihF : ∀ d' < d, CompEF o reg d') : CompEF o reg d := by
  intro sn f hdt hp n seen hsub e hf he cf op k hop hcf
  have hpt := goodF_typ hp
  cases n with
  | zero =>
    have : fieldOkF 0 reg seen f = .error .fuel := rfl
    rw [this] at hf; cases hf; exact absurd rfl he
  | succ n =>
  rw [fieldOkF_eq] at hf
  obtain ⟨c, rfl⟩ := exists_succ (k := 0) (by omega : 0 + 1 ≤ cf)
  rw [buildFieldFold_eq]
  cases hk : fieldKind f with
  | drop => simp [hk] at hf
  | conflict => exact ⟨_, rfl⟩
  | plain name =>
    simp only [hk] at hf ⊢
    obtain ⟨e', he'⟩ := hA sn f.typ hdt hpt n seen hsub e hf he c op hop (by omega)
    exact ⟨e', by rw [he']⟩
  | omitEmpty name =>
    simp only [hk] at hf ⊢
    obtain ⟨n', seen', sn', h1, h2, h3, h4⟩ := typeOkF_strip_err reg e he sn f.typ hpt n seen hsub hf
    have hdb := tdepth_stripPtr f.typ
    obtain ⟨e', he'⟩ := hA sn' (stripPtr f.typ).2 (by omega) h2 n' seen' h3 e h1 he c op (OpIn_mono hop h4) (by omega)
    rw [baseType_good hpt (by omega), he']
    exact ⟨e', rfl⟩
  | inline =>
    simp only [hk] at hf ⊢
    have hdb := tdepth_stripPtr f.typ
    obtain ⟨sn', hsn', hpb⟩ := good_stripPtr f.typ sn hpt
    have hop1 := OpIn_mono hop hsn'
    obtain ⟨c2, rfl⟩ := exists_succ (k := 0) (by omega : 0 + 1 ≤ c)
    have hbt := baseType_good hpt (by omega : tdepth f.typ ≤ 1000)
    rw [bffi_good c2 o op f k (sn := sn') (by rw [hbt]; exact hpb) hop1, hbt]
    suffices h : ∃ e', fieldFoldGenInline c2 o (enterInl op (stripPtr f.typ).2) (stripPtr f.typ).2 = .error (.err e') by
      obtain ⟨e', he'⟩ := h
      exact ⟨e', by rw [he']; rfl⟩
    obtain ⟨n', hn'⟩ := inlineOkF_strip_err reg e he sn f.typ hpt n seen hf
    cases n' with
    | zero =>
      have : inlineOkF 0 reg seen (stripPtr f.typ).2 = .error .fuel := rfl
      rw [this] at hn'; cases hn'; exact absurd rfl he
    | succ n' =>
    have hb1' : isC1 reg (stripPtr f.typ).2 = false := by
      cases hb : isC1 reg (stripPtr f.typ).2 with
      | false => rfl
      | true => rw [inlineOkF_c1 n' seen hb] at hn'; cases hn'
    have hnp' := stripPtr_not_ptr' hpt
    rw [inlineOkF_good n' seen hb1'] at hn'
    obtain ⟨c3, rfl⟩ := exists_succ (k := 0) (by omega : 0 + 1 ≤ c2)
    rw [ffgi_good c3 o _ hreg hpb hb1' hnp']
    have hop2 := OpIn_enterInl hop1 (stripPtr f.typ).2
    have hgu := good_under hpb
    have hdu := tdepth_under hpb
    have hsub1 : ∀ x ∈ seen, x ∈ sn' := fun x hx => hsn' x (hsub x hx)
    have hnp := stripPtr_not_ptr f.typ sn hpt
    generalize (stripPtr f.typ).2 = bt at hn' hpb hdb hop2 hgu hdu hnp hb1' hnp' ⊢
    generalize hU : bt.under = U at hn' hgu hdu ⊢
    cases U with
    | struct fs' =>
      simp only [] at hn' ⊢
      obtain ⟨n2, hn2, hsub2⟩ := typeOkF_head_err hpb hb1' hsub1 hn' he
      rw [hU, typeOkF_unnamed n2 reg _ hgu.2] at hn2
      have hfs' : goodCFs reg (snU sn' bt) fs' = true := by simpa [goodC] using hgu.1
      have hd' : tdepthFs fs' + 1 ≤ d := by simp only [tdepth] at hdu; omega
      obtain ⟨c4, rfl⟩ := exists_succ (k := 0) (by omega : 0 + 1 ≤ c3)
      obtain ⟨e', he'⟩ := compile_fields_err (o := o) hreg (by omega : d - 1 ≤ 1000) (ihF (d - 1) (by omega))
        (by omega) hfs' hsub2 hn2 he 0 hop2 (cf := c4) (by omega)
      exact ⟨e', by rw [grfs_eq, he']⟩
    | map k' e0 =>
      simp only [] at hn' ⊢
      obtain ⟨n2, hn2, hsub2⟩ := typeOkF_head_err hpb hb1' hsub1 hn' he
      rw [hU, typeOkF_unnamed n2 reg _ hgu.2] at hn2
      have hke : goodC reg (snU sn' bt) k' = true ∧ goodC reg (snU sn' bt) e0 = true := by simpa [goodC] using hgu.1
      have hde : tdepth e0 + 1 ≤ d := by simp only [tdepth] at hdu; omega
      simp only [] at hn2
      obtain ⟨c4, rfl⟩ := exists_succ (k := 0) (by omega : 0 + 1 ≤ c3)
      rw [grfmk_good c4 o _ hU]
      by_cases hks : isStringKind k' = true
      · simp only [hks, if_true] at hn2
        have hku := isStringKind_iff.mp hks
        simp only [hku]
        have hnprim : primOf? e0 = none := by
          cases hpr : primOf? e0 with
          | none => rfl
          | some p =>
            exfalso
            cases n2 with
            | zero => rw [typeOkF_zero] at hn2; cases hn2; exact he rfl
            | succ n3 =>
              rw [typeOkF_unnamed n3 reg _ (unnamed_of_prim hpr)] at hn2
              cases e0 <;> simp [primOf?] at hpr <;> simp at hn2
        have hni : e0 ≠ .iface := by
          intro h
          subst h
          cases n2 with
          | zero => rw [typeOkF_zero] at hn2; cases hn2; exact he rfl
          | succ n3 => simp [typeOkF, customOf, GoType.whnf, GoType.menagerieName?] at hn2
        obtain ⟨e', he'⟩ := ihA (d - 1) (by omega) _ e0 (by omega) hke.2 n2 _ hsub2 e hn2 he c4 _
          (OpIn_mono hop2 (fun _ hx => hx)) (by omega)
        refine ⟨e', ?_⟩
        cases e0 <;> first | (exact absurd rfl hni) | (simp only [hnprim, he'])
      · have hku : ∀ h : k'.under = .string, False := fun h => hks (isStringKind_iff.mpr h)
        refine ⟨.mapRequiresStringKey, ?_⟩
        cases hkk : k'.under <;> first | (exact absurd hkk (fun h => hku h)) | rfl
    | iface => simp at hn'
    | ptr e0 => exact absurd hU (hnp e0)
    | _ => exact ⟨_, rfl⟩

theorem compile_err_all (o : FoldOpts) {reg : Bool} (hreg : o.folders = reg) : ∀ d, d ≤ 1000 → CompEA o reg d ∧ CompEF o reg d := by
  intro d
  induction d using Nat.strongRecOn with
  | _ d ih =>
    intro hd
    have hA := compEA_step o hreg d hd (fun d' h => (ih d' h (by omega)).1) (fun d' h => (ih d' h (by omega)).2)
    exact ⟨hA, compEF_step o hreg d hd hA (fun d' h => (ih d' h (by omega)).1) (fun d' h => (ih d' h (by omega)).2)⟩

/-- a good type the specification refuses does not compile: a Go error, never a panic -/
theorem compile_err (o : FoldOpts) {reg : Bool} (hreg : o.folders = reg) {T : GoType} (hp : goodC reg [] T = true)
    (hd : tdepth T ≤ dynBound) {n : Nat} {e : RuleErr} (herr : typeOkF n reg [] T = .error e)
    (he : e ≠ .fuel) : ∃ e', getReflectFold compileFuel o {} T = .error (.err e') := by
  unfold dynBound at hd
  exact (compile_err_all o hreg (tdepth T) (by omega)).1 [] T (Nat.le_refl _) hp n []
    (fun _ hx => by cases hx) e herr he compileFuel {} (OpIn_empty _) (by unfold compileFuel; omega)

end SF.FoldProofs.Custom
