/-
  C13, VALUES for struct targets, part 3: the store lemma (`FieldOK`) for
    * fields of primitive kind (bool, string, integers, floats; named or not) — `unfolderX`
    * struct-typed fields (nested structs, to any depth) — `unfolderStruct` itself, by `struct_run`.
-/
import SF.Proofs.UnfSVCore
import SF.Proofs.UnfTyVal
namespace SF.Unf.SV
open SF SF.Unf SF.Unf.Spec SF.Unf.Str

/-! ## primitive fields -/

/-- `unfolderX.initState` on a pointer into the target, then the scalar: `*ptr = T(v)` and the cleanup -/
theorem prim_store (f : Nat) (k : PK) (s : Sc) (w : GoVal) (c : Ctx) (steps : List Step) (T' : GoVal)
    (hc : k.conv s = some w) (hs : c.target.set steps w = some T') :
    ∃ c1, initStateRU (.lifted (.prim k)) (some ⟨.target, steps⟩) c = .ok () c1 ∧
      onScalar (f + 1) s c1 = .ok () (upd c T' c.cells c.keyCache) := by
  rcases c with ⟨⟨uc, us⟩, ⟨pc, ps⟩, _⟩
  simp only at hs
  refine ⟨_, by simp [initStateRU, resolveRU, initStatePU, primInitState, bind_def, pushU, pushPtr, modifyCtx]; rfl, ?_⟩
  simp [onScalar, bind_def, currentU, Stk.push, hc, pukDeliver, primAssign, currentPtr, store, rootVal, hs, setRoot,
    primCleanup, popU, popPtr, Stk.pop, pure_def, upd]

/-- only the underlying type of a primitive kind matters to the specification -/
theorem assign_un_prim (tbl : TypeTable) (ip : Bool) (n : Nat) (ft : GoType) (old : GoVal) (s : STree) :
    assign tbl ip (n + 1) ft old s = assign tbl ip (n + 1) (ft.un tbl) old s := by
  conv => lhs; unfold assign
  conv => rhs; unfold assign
  rw [un_un]

/-- a container where a primitive (non-interface) value belongs: the specification makes no claim -/
theorem assign_prim_not_sc (tbl : TypeTable) (ip : Bool) (n : Nat) (t : GoType) (k : PK) (old : GoVal) (s : STree)
    (hk : PK.ofExact? t = some k) (hki : k ≠ .ifc) (hs : ∀ sc, s ≠ .sc sc) : assign tbl ip n t old s = none := by
  cases n with
  | zero => simp [assign]
  | succ n =>
    unfold assign
    cases t <;> simp [PK.ofExact?] at hk <;> simp only [GoType.un, resolveFuel, GoType.under]
    all_goals first
      | (subst hk; exact absurd rfl hki)
      | (cases s <;> first | exact absurd rfl (hs _) | rfl)

theorem flat_of_ofExact (tbl : TypeTable) (ft : GoType) (k : PK) (hk : PK.ofExact? (ft.un tbl) = some k) : Flat tbl ft := by
  unfold Flat
  cases h : ft.un tbl <;> simp [h, PK.ofExact?] at hk <;> trivial

/-- THE STORE LEMMA for a field of primitive kind `k` (not `interface{}`), named or not.  `hnb`: the integer
kind of the type is spelled `uint8`, never `byte` (the `GoType` convention) -/
theorem fieldOK_prim (tbl : TypeTable) (ft : GoType) (k : PK) (hk : PK.ofExact? (ft.un tbl) = some k) (hki : k ≠ .ifc)
    (hnb : ∀ nk, ft.un tbl = .int nk → normKind nk = nk) : FieldOK tbl (.lifted (.prim k)) ft := by
  intro f x c steps ip n oldM oldS nv flds henv hcur hkc hget hty hnorm hwf hasg
  cases n with
  | zero => simp [assign] at hasg
  | succ n =>
    rw [assign_un_prim] at hasg
    -- the value is a scalar
    have hsc : ∃ s, x.toS = .sc s ∧ s.inRange = true ∧ x.events = [.scalar s] ∨
        ∃ b, x.toS = .sc (.str b) ∧ x.events = [.strRef b] := by
      cases x with
      | scalar s => exact ⟨s, Or.inl ⟨rfl, by simpa [UTree.wf] using hwf, rfl⟩⟩
      | strRef b => exact ⟨.nil, Or.inr ⟨b, rfl, rfl⟩⟩
      | arr l bt xs =>
        rw [assign_prim_not_sc tbl ip _ _ k _ _ hk hki (by intro sc h; simp [UTree.toS] at h)] at hasg
        cases hasg
      | obj l bt ms =>
        rw [assign_prim_not_sc tbl ip _ _ k _ _ hk hki (by intro sc h; simp [UTree.toS] at h)] at hasg
        cases hasg
    have main : ∀ s : Sc, x.toS = .sc s → s.inRange = true →
        (∀ c1, run (f + 2) x.events c1 = onScalar (f + 2) s c1) →
        ∃ w T' cells' kc' c1, initStateRU (.lifted (.prim k)) (some ⟨.target, steps⟩) c = .ok () c1 ∧
          run (f + 2) x.events c1 = .ok () (upd c T' cells' kc') ∧ c.target.set steps w = some T' ∧
          norm w = norm nv ∧ HasTy tbl ft w ∧ Symbols.Inv kc' := by
      intro s hx hin hev
      rw [hx] at hasg
      obtain ⟨w, hc, _, heq⟩ := assign_scalar_conv tbl ip n (ft.un tbl) k oldS nv s hk hki hin hasg
      have hw : w = nv := heq hnb
      obtain ⟨T', hT⟩ := set_of_get c.target steps w oldM hget
      obtain ⟨c1, h1, h2⟩ := prim_store (f + 1) k s w c steps T' hc hT
      exact ⟨w, T', c.cells, c.keyCache, c1, h1, by rw [hev]; exact h2, hT, by rw [hw],
        .flat _ _ (flat_of_ofExact tbl ft k hk), hkc⟩
    rcases hsc with ⟨s, ⟨hx, hin, hev⟩ | ⟨b, hx, hev⟩⟩
    · exact main s hx hin (fun c1 => by rw [hev, run_single]; rfl)
    · exact main (.str b) hx rfl (fun c1 => by rw [hev, run_single]; rfl)

/-! ## struct-typed fields -/

theorem fits_wf (bt : Nat) (x : UTree) (h : x.fits bt = true) : x.wf = true := by
  cases x with
  | scalar s =>
    cases s <;> simp [UTree.fits, Sc.fits, UTree.wf, Sc.inRange] at h ⊢
    exact h.1
  | strRef b => rfl
  | arr l b xs => simp [UTree.fits] at h
  | obj l b ms => simp [UTree.fits] at h

/-- the members of a well-formed object are well-formed values, whatever element type was announced -/
theorem wfMems_all (bt : Nat) : ∀ ms : List (Bool × Bytes × UTree), wfMems bt ms = true → ∀ m ∈ ms, m.2.2.wf = true := by
  intro ms
  induction ms with
  | nil => intro _ m hm; cases hm
  | cons a ms ih =>
    obtain ⟨r, k, x⟩ := a
    intro h m hm
    simp only [wfMems, Bool.and_eq_true] at h
    rcases List.mem_cons.mp hm with rfl | hm
    · by_cases hb : isAnyBT bt = true
      · simpa [hb] using h.1
      · simp only [hb] at h
        exact fits_wf bt x h.1
    · exact ih h.2 m hm

/-- `Spec.assign` for a struct type on an object -/
theorem assign_struct_obj (tbl : TypeTable) (ip : Bool) (n : Nat) (ft : GoType) (nm : String)
    (fs : List (String × String × GoType)) (old want : GoVal) (bt : Nat) (ms : List (Bytes × STree))
    (hu : ft.un tbl = .struct nm fs) (h : assign tbl ip (n + 1) ft old (.obj bt ms) = some want) :
    assignMembers tbl ip n (specFields tbl (fs.length + 64) fs 0) old ms = some want := by
  unfold assign at h
  simp only [hu] at h
  split at h
  · exact h
  · cases h

/-- anything but an object where a struct belongs: no claim -/
theorem assign_struct_not_obj (tbl : TypeTable) (ip : Bool) (n : Nat) (ft : GoType) (nm : String)
    (fs : List (String × String × GoType)) (old : GoVal) (s : STree) (hu : ft.un tbl = .struct nm fs)
    (hs : ∀ bt ms, s ≠ .obj bt ms) : assign tbl ip n ft old s = none := by
  cases n with
  | zero => simp [assign]
  | succ n =>
    unfold assign
    simp only [hu]
    cases s <;> first | rfl | exact absurd rfl (hs _ _)

/-- THE STORE LEMMA for a struct-typed field whose compiled field table agrees with the specification's -/
theorem fieldOK_struct (tbl : TypeTable) (ft : GoType) (nm : String) (fs : List (String × String × GoType))
    (fields : Fields) (hu : ft.un tbl = .struct nm fs) (hFM : FM tbl ft fields (specFields tbl (fs.length + 64) fs 0)) :
    FieldOK tbl (.struct fields) ft := by
  intro f x c steps ip n oldM oldS nv flds henv hcur hkc hget hty hnorm hwf hasg
  cases x with
  | obj l bt ms =>
    cases n with
    | zero => simp [assign] at hasg
    | succ n =>
      have hm := assign_struct_obj tbl ip n ft nm fs oldS nv bt _ hu (by simpa [UTree.toS] using hasg)
      have hwf' : ∀ m ∈ ms, m.2.2.wf = true := by
        simp only [UTree.wf, Bool.and_eq_true] at hwf
        exact wfMems_all bt ms hwf.2
      obtain ⟨curM', T', cells', kc', hrun, hset, hn, ht, hk⟩ :=
        struct_run tbl ft fields _ steps hFM f ip l bt ms n c oldM oldS nv henv (Or.inr ⟨flds, hcur⟩) hkc hget hty hnorm hwf' hm
      exact ⟨curM', T', cells', kc', _, init_struct c fields _, hrun, hset, hn, ht, hk⟩
  | scalar s =>
    rw [assign_struct_not_obj tbl ip n ft nm fs oldS _ hu (by intro bt ms h; simp [UTree.toS] at h)] at hasg; cases hasg
  | strRef s =>
    rw [assign_struct_not_obj tbl ip n ft nm fs oldS _ hu (by intro bt ms h; simp [UTree.toS] at h)] at hasg; cases hasg
  | arr l bt xs =>
    rw [assign_struct_not_obj tbl ip n ft nm fs oldS _ hu (by intro bt ms h; simp [UTree.toS] at h)] at hasg; cases hasg

end SF.Unf.SV
