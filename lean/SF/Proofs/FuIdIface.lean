/-
  C11, direct path, STAGE 3: `interface{}` holding nil, a scalar, `[]T` or `map[string]T` (`T`
  scalar).  Fold passes the dynamic value (`v.Interface()`), the Unfolder's target is an empty
  interface: the GENERIC clause (`unfold_into_interface_fresh`, C13) applies to the tokens.
-/
import SF.Proofs.FuIdRun
import SF.Proofs.UnfGenericTop
namespace SF.FuId
open SF SF.Gotype SF.Gotype.Fold SF.FoldProofs
open SF.Unf (Sc UEv PK UTree memberEvents mapSet Ctx newUnfolder setTarget typeFuel)
open SF.Ops.Unf (xevToUEvs evToUEv runToken)
open SF.Ops.Fu (feed)

/-! ## fold side -/

/-- an interface-typed value is folded through its dynamic type -/
theorem impl_iface (o : FoldOpts) (dt : GoType) (dv : GoVal) (h : dt.under ≠ .iface) :
    impl o .iface (.iface dt dv) = impl o dt dv := by
  rcases hfo : foldInterfaceValue runFuel o .user (.iface dt dv) (st0 o) with ⟨s, r⟩
  rw [impl_of o dt dv s r h hfo]
  have h1 : impl o .iface (.iface dt dv) =
      (match foldInterfaceValue runFuel o .user (.iface dt dv) (st0 o) with
       | (s, r) => { evs := s.evs.reverse, res := r }) := rfl
  rw [h1, hfo]

theorem impl_nilIface (o : FoldOpts) (hfail : o.failAt = none) :
    impl o .iface .nilIface = { evs := [.ev .null], res := .ok } := by
  have h1 : impl o .iface .nilIface =
      (match foldInterfaceValue runFuel o .user .nilIface (st0 o) with
       | (s, r) => { evs := s.evs.reverse, res := r }) := rfl
  have h2 : foldInterfaceValue runFuel o .user .nilIface (st0 o) = (st1 o (.ev .null), .ok) := by
    show foldInterfaceValue (99999 + 1) o .user .nilIface (st0 o) = _
    rw [foldInterfaceValue]
    exact emit_st0 o hfail _
  rw [h1, h2]
  simp [st1, reorder_ev]

/-! ## the generic values -/

/-- what an `interface{}` target receives for a top-level scalar of type `p`: the value with the Go
type of the EVENT — `int` comes back as `int64` (Fold reports `int` through `OnInt64`), every other
kind as itself -/
def genPrim : Prim → GoVal → Unf.GoVal
  | .num k, x => .int (Unf.normKind (if k == .int then .i64 else k)) (getI x)
  | p, x => trPrim p x

theorem scGen_top (p : Prim) (x : GoVal) : Unf.scGen (scOfTop p x) = .ifc (genPrim p x) := by
  cases p <;> rfl

theorem inRange_top (p : Prim) (x : GoVal) (h : hasPrim p x = true) : (scOfTop p x).inRange = true := by
  cases p with
  | num k =>
    cases x <;> simp [hasPrim] at h
    simp only [scOfTop, Unf.Sc.inRange, getI]
    split
    · rename_i hc; simp at hc; rw [hc] at h; exact h
    · exact h
  | _ => rfl

theorem eventsList_scalars (f : GoVal → Sc) : ∀ xs : List GoVal,
    Unf.eventsList (xs.map fun x => UTree.scalar (f x)) = (xs.map f).map UEv.scalar
  | [] => rfl
  | x :: r => by simp [Unf.eventsList, UTree.events, eventsList_scalars f r]

theorem eventsMems_scalars : ∀ mems : List (Bytes × Sc),
    Unf.eventsMems (mems.map fun m => (false, m.1, UTree.scalar m.2)) = memberEvents mems
  | [] => rfl
  | (k, s) :: r => by simp [Unf.eventsMems, UTree.events, memberEvents, eventsMems_scalars r]

theorem btOf_le (bytes : Bool) (p : Prim) : btOf bytes p ≤ 16 := by
  cases p with
  | num k => cases k <;> cases bytes <;> decide
  | _ => cases bytes <;> decide

theorem btOf_notAny (bytes : Bool) (p : Prim) : Unf.isAnyBT (btOf bytes p) = false := by
  cases p with
  | num k => cases k <;> cases bytes <;> decide
  | _ => cases bytes <;> decide

theorem kindOf_btOf (bytes : Bool) (p : Prim) : Unf.kindOf (btOf bytes p) = pkOf p := by
  cases p with
  | num k => cases k <;> cases bytes <;> decide
  | _ => cases bytes <;> decide

theorem fits_elem (bytes : Bool) (p : Prim) (x : GoVal) (h : hasPrim p x = true) :
    (scOfElem bytes p x).fits (btOf bytes p) = true := by
  cases p with
  | num k =>
    cases x <;> simp [hasPrim] at h
    rename_i v
    have h1 : (elemKind bytes k).inRange v = true := by
      unfold elemKind; split
      · rename_i hc; simp at hc; rw [hc.2] at h; exact h
      · exact h
    simp [scOfElem, btOf, Unf.Sc.fits, getI, h1]
  | _ => simp [scOfElem, btOf, Unf.Sc.fits]

theorem wfList_elems (bytes : Bool) (p : Prim) : ∀ xs : List GoVal, (∀ x ∈ xs, hasPrim p x = true) →
    Unf.wfList (btOf bytes p) (xs.map fun x => UTree.scalar (scOfElem bytes p x)) = true
  | [], _ => rfl
  | x :: r, h => by
    simp only [List.map_cons, Unf.wfList, btOf_notAny, Bool.false_eq_true, if_false, UTree.fits,
      fits_elem bytes p x (h x List.mem_cons_self), Bool.true_and]
    exact wfList_elems bytes p r (fun y hy => h y (List.mem_cons_of_mem _ hy))

theorem genList_elems (bytes : Bool) (p : Prim) : ∀ xs : List GoVal, (∀ x ∈ xs, hasPrim p x = true) →
    Unf.genList (pkOf p) (xs.map fun x => UTree.scalar (scOfElem bytes p x)) = xs.map (trPrim p)
  | [], _ => rfl
  | x :: r, h => by
    simp only [List.map_cons, Unf.genList, pkOf_ne_ifc, if_false, UTree.typed,
      conv_elem bytes p x (h x List.mem_cons_self), Option.getD_some]
    rw [genList_elems bytes p r (fun y hy => h y (List.mem_cons_of_mem _ hy))]

theorem wfMems_elems (p : Prim) : ∀ mems : List (Bytes × Sc), (∀ m ∈ mems, m.2.fits (btOf false p) = true) →
    Unf.wfMems (btOf false p) (mems.map fun m => (false, m.1, UTree.scalar m.2)) = true
  | [], _ => rfl
  | m :: r, h => by
    simp only [List.map_cons, Unf.wfMems, btOf_notAny, Bool.false_eq_true, if_false, UTree.fits,
      h m List.mem_cons_self, Bool.true_and]
    exact wfMems_elems p r (fun y hy => h y (List.mem_cons_of_mem _ hy))

theorem genMems_nodup (k : PK) (hk : k ≠ .ifc) : ∀ (mems : List (Bytes × Sc)) (acc : List (Bytes × Unf.GoVal)),
    (mems.map (·.1)).Nodup → (∀ m ∈ mems, ∀ a ∈ acc, a.1 ≠ m.1) →
    Unf.genMems k (mems.map fun m => (false, m.1, UTree.scalar m.2)) acc =
      acc ++ mems.map fun m => (m.1, convD k m.2)
  | [], acc, _, _ => by simp [Unf.genMems]
  | (key, s) :: r, acc, hnd, hdis => by
    simp only [List.map_cons, List.nodup_cons] at hnd
    simp only [List.map_cons, Unf.genMems, hk, if_false, UTree.typed]
    rw [mapSet_fresh acc key _ (fun a ha => hdis (key, s) List.mem_cons_self a ha)]
    rw [genMems_nodup k hk r _ hnd.2]
    · simp [convD]
    · intro m hm a ha
      rcases List.mem_append.mp ha with ha | ha
      · exact hdis m (List.mem_cons_of_mem _ hm) a ha
      · simp at ha; subst ha
        intro heq
        exact hnd.1 (List.mem_map.mpr ⟨m, hm, heq.symm⟩)

/-! ## the runs -/

/-- the generic clause on ONE token -/
theorem generic_token (t : UTree) (hwf : t.wf = true) :
    ∃ c0, setTarget tbl .ifc (Unf.zero tbl .ifc) newUnfolder = .ok c0 ∧
      feed c0 [t.events] = (doneCtx t.gen, none) := by
  obtain ⟨c0, c1, h0, hrun, hc1, _⟩ := Unf.unfold_into_interface_fresh 255 tbl t hwf
  refine ⟨c0, h0, ?_⟩
  subst hc1
  exact feed_single c0 _ _ hrun

/-- nil interface ↦ `null` ↦ nil interface -/
theorem iface_nil_run (o : FoldOpts) (hfail : o.failAt = none) :
    ∃ c0, (impl o .iface .nilIface).res = .ok ∧
      setTarget tbl .ifc (Unf.zero tbl .ifc) newUnfolder = .ok c0 ∧
      feed c0 ((impl o .iface .nilIface).evs.map xevToUEvs) = (doneCtx .ifcNil, none) := by
  rw [impl_nilIface o hfail]
  obtain ⟨c0, h0, hf⟩ := generic_token (.scalar .nil) rfl
  exact ⟨c0, rfl, h0, hf⟩

/-- interface holding a scalar -/
theorem iface_scalar_run (o : FoldOpts) (hfail : o.failAt = none) (p : Prim) (v : GoVal) (hv : hasPrim p v = true) :
    ∃ c0, (impl o .iface (.iface (primTy p) v)).res = .ok ∧
      setTarget tbl .ifc (Unf.zero tbl .ifc) newUnfolder = .ok c0 ∧
      feed c0 ((impl o .iface (.iface (primTy p) v)).evs.map xevToUEvs) = (doneCtx (.ifc (genPrim p v)), none) := by
  obtain ⟨e, he, hev⟩ := primEv_top p v hv
  rw [impl_iface o _ _ (by cases p <;> simp [primTy, GoType.under]), impl_scalar o hfail p v _ he]
  obtain ⟨c0, h0, hf⟩ := generic_token (.scalar (scOfTop p v)) (inRange_top p v hv)
  refine ⟨c0, rfl, h0, ?_⟩
  have : [(evToUEv e)] = (UTree.scalar (scOfTop p v)).events := by rw [hev]; rfl
  simp only [List.map_cons, List.map_nil, xevToUEvs, this]
  rw [hf]
  show (doneCtx (Unf.scGen (scOfTop p v)), none) = _
  rw [scGen_top]

/-- interface holding `[]T`: comes back as `[]T` (the typed array announces its element type) -/
theorem iface_slice_run (o : FoldOpts) (hfail : o.failAt = none) (p : Prim) (v : GoVal) (xs : List GoVal)
    (hv : sliceElems? v = some xs) (hxs : ∀ x ∈ xs, hasPrim p x = true) :
    ∃ c0, (impl o .iface (.iface (.slice (primTy p)) v)).res = .ok ∧
      setTarget tbl .ifc (Unf.zero tbl .ifc) newUnfolder = .ok c0 ∧
      feed c0 ((impl o .iface (.iface (.slice (primTy p)) v)).evs.map xevToUEvs) =
        (doneCtx (.ifc (Unf.sliceFin (uPrimTy p) (xs.map (trPrim p)))), none) := by
  rw [impl_iface o _ _ (by simp [GoType.under]), impl_slice o hfail p v xs _ hv (arrEv_eq true p xs hxs)]
  let t : UTree := .arr xs.length (btOf true p) (xs.map fun x => UTree.scalar (scOfElem true p x))
  have hwf : t.wf = true := by
    simp only [t, UTree.wf, List.length_map, Bool.and_eq_true, decide_eq_true_eq]
    exact ⟨⟨Int.le_refl _, btOf_le true p⟩, wfList_elems true p xs hxs⟩
  obtain ⟨c0, h0, hf⟩ := generic_token t hwf
  refine ⟨c0, rfl, h0, ?_⟩
  have : xevToUEvs (arrX true p xs) = t.events := by
    rw [arrX_tokens]; simp only [t, UTree.events, eventsList_scalars]
  simp only [List.map_cons, List.map_nil, this]
  rw [hf]
  simp only [t, UTree.gen, kindOf_btOf, goType_pkOf, genList_elems true p xs hxs]

/-- interface holding `map[string]T`: comes back as `map[string]T`, any iteration order -/
theorem iface_map_run (o : FoldOpts) (hfail : o.failAt = none) (hord : hintOK o.order) (p : Prim) (v : GoVal)
    (ms : List (GoVal × GoVal)) (hv : mapEntries? v = some ms) (hms : ∀ m ∈ ms, hasEntry p m = true)
    (hnd : (ms.map fun m => getS m.1).Nodup) :
    ∃ c0 fin, (impl o .iface (.iface (.map .string (primTy p)) v)).res = .ok ∧
      setTarget tbl .ifc (Unf.zero tbl .ifc) newUnfolder = .ok c0 ∧
      fin.Perm (ms.map fun m => (getS m.1, trPrim p m.2)) ∧
      feed c0 ((impl o .iface (.iface (.map .string (primTy p)) v)).evs.map xevToUEvs) =
        (doneCtx (.ifc (Unf.mapSt (uPrimTy p) fin)), none) := by
  rw [impl_iface o _ _ (by simp [GoType.under]), impl_map o hfail p v ms _ hv (objEv_eq p ms hms)]
  obtain ⟨mems, htok, hperm⟩ := objX_tokens (st0 o) hord p ms hnd
  have hmem : ∀ m ∈ mems, ∃ m0 ∈ ms, m = (getS m0.1, scOfElem false p m0.2) := by
    intro m hm
    have := hperm.mem_iff.mp hm
    simp only [memsOf, List.mem_map] at this
    obtain ⟨m0, h0, rfl⟩ := this
    exact ⟨m0, h0, rfl⟩
  have hkeys : (mems.map (·.1)).Nodup := by
    have h1 := hperm.map (·.1)
    rw [h1.nodup_iff]
    simpa [memsOf, List.map_map, Function.comp_def] using hnd
  have hfin : (mems.map fun m => (m.1, convD (pkOf p) m.2)).Perm (ms.map fun m => (getS m.1, trPrim p m.2)) := by
    have h1 := hperm.map (fun m : Bytes × Sc => (m.1, convD (pkOf p) m.2))
    refine h1.trans (List.Perm.of_eq ?_)
    simp only [memsOf, List.map_map]
    apply List.map_congr_left
    intro m0 h0
    have hc := conv_elem false p m0.2 (hasEntry_key (hms m0 h0)).2
    simp [convD, hc]
  let t : UTree := .obj ms.length (btOf false p) (mems.map fun m => (false, m.1, UTree.scalar m.2))
  have hwf : t.wf = true := by
    simp only [t, UTree.wf, Bool.and_eq_true, decide_eq_true_eq]
    refine ⟨btOf_le false p, wfMems_elems p mems ?_⟩
    intro m hm
    obtain ⟨m0, h0, rfl⟩ := hmem m hm
    exact fits_elem false p m0.2 (hasEntry_key (hms m0 h0)).2
  obtain ⟨c0, h0, hf⟩ := generic_token t hwf
  refine ⟨c0, _, rfl, h0, hfin, ?_⟩
  have : xevToUEvs (reorderByHint (st0 o) (objX p ms)) = t.events := by
    rw [htok]; simp only [t, UTree.events, eventsMems_scalars]
  simp only [List.map_cons, List.map_nil, this]
  rw [hf]
  simp only [t, UTree.gen, kindOf_btOf, goType_pkOf,
    genMems_nodup (pkOf p) (pkOf_ne_ifc p) mems [] hkeys (fun _ _ a ha => by cases ha), List.nil_append]

end SF.FuId
