/-
  UBJSON: the encoder development (grammar `Wire.UItem`, SF/Proofs/UbjEncTop.lean) and the
  parser development (grammar `Syn.Item`, SF/Proofs/UbjParseTop.lean) joined.

   (1) BRIDGE   `ubj_grammar_bridge` : `toSyn : UItem → Item` keeps bytes, value and
                well-formedness; the image of a well-formed item has no payload-free typed
                element (`free = 0`), so the parser's fuel side condition is void on it.
                `parser_agrees_with_reference` : on every well-formed `UItem` the parser mirror
                and the reference decoder `Cst.decodeStream` read the same value.
   (2) C01      `ubj_roundtrip` (side condition `small`, as for CBOR), `ubj_roundtrip'` (the
                weaker `smallU`), `ubj_roundtrip_ext` (documents with extended events):
                encode-then-parse through the REAL parser mirror.  No size bound.
   (3) C08      `ubjson_to_ubjson`, `ubjson_to_cbor`, `ubjson_to_json` : UBJSON as SOURCE;
                `ubj_parser_numbers_in_range`.
   (4) C17      `ubj_parser_reuse` (grammatical history and probe);
                `ubj_parser_frame`, `ubj_parser_frame_chunks`, `ubj_parser_frame_feedUntil`
                (from EVERY reachable state without a live typed-array header, ALL inputs: the
                scratch field `valueType` and the events already delivered influence nothing);
                `ubj_parser_reuse_any`, `ubj_parser_reuse_chunks` (grammatical history, ANY
                probe bytes, any chunking).
-/
import SF.Proofs.UbjBridge
import SF.Proofs.UbjBridgeTree
import SF.Proofs.UbjParseTop
import SF.Proofs.UbjEncTop
import SF.Proofs.CborEnc
import SF.Proofs.CborDecode
import SF.Proofs.JsonEncTop
import SF.Proofs.UbjFrameLoop
namespace SF.Props.UbjBridge
open SF SF.Ubjson
open SF.Ubjson.Parse (P parse events free idle Fr G liveAny writeChunks feedUntil)
open SF.Ubjson.Wire (UItem)
open SF.Ubjson.Syn (Item sized noFloat utf8 okElems evElems wireStream valElems)
open SF.Ubjson.Bridge (toSyn)
open SF.Ubjson.Enc (approx noBig XTree)
open SF.Cbor.Enc (small)
open SF.Props.UbjEnc (ubjBytes)

/-! ## (1) the bridge between the two grammars -/

/-- BRIDGE: `toSyn` maps the encoder-side grammar into the parser-side grammar keeping the BYTES
and the VALUE of EVERY item (well-formed or not); it keeps well-formedness, and a well-formed
encoder-side item contains no payload-free typed element (its typed containers have an element
type other than Z / T / F), so `free (toSyn i) = 0`: the only side condition of the parser
theorems (`free ≤ 1000000`, a matter of the model's fuel) holds for the whole image. -/
theorem ubj_grammar_bridge (i : UItem) :
    (toSyn i).wire = i.wire ∧ (toSyn i).value = i.value ∧
      (i.ok = true → (toSyn i).ok = true ∧ free (toSyn i) = 0) :=
  ⟨Bridge.toSyn_wire i, Bridge.toSyn_value i, fun h => ⟨Bridge.toSyn_ok i h, Bridge.toSyn_free i h⟩⟩

/-- non-vacuity: a well-formed item with typed containers (nested), counted and plain ones, every
integer marker, a length written wider than necessary -/
def exU : UItem :=
  .arr [.arrT 0x5b .i [.arrT 0x69 .U [.int .i (-128), .int .i 127], .arrN .I [.null], .arr []],
        .objT 0x53 .i [(.i, [0x61], .str .l [0x68, 0x69]), (.L, [], .str .i [])],
        .objN .i [(.U, [0x78], .f32 0x3fc00000), (.i, [0x79], .hp .I [0x31, 0x32])],
        .obj [(.i, [0x6b], .int .L (-9223372036854775808)), (.i, [0x6c], .char 0x41)], .tru]

example : exU.ok = true ∧ (toSyn exU).ok = true ∧ free (toSyn exU) = 0 ∧ (toSyn exU).wire = exU.wire := by
  decide +kernel

/-- the one parser run on a grammatical item, with the explicit final state -/
theorem parse_item (it : Item) (h : it.ok = true) (hfree : free it ≤ 1000000) :
    ∃ vt, parse {} it.wire = ({ evs := it.events.reverse, valueType := vt }, none) := by
  have hw : wireStream [(0, it)] 0 = it.wire := by
    simp [wireStream, Syn.wireElems, Syn.noops, Item.wire]
  have := SF.Props.UbjParse.parse_refines [(0, it)] 0 (by simp [okElems, h]) (by simpa using hfree)
  rw [hw] at this
  simpa [evElems] using this

/-- THE PARSER MIRROR AND THE REFERENCE DECODER AGREE on every well-formed item of the encoder-side
grammar (any length marker that fits, plain / counted / typed containers): `parse` accepts
`i.wire` — no size bound —, ends idle, and the events it delivers build the value the reference
decoder `Cst.decodeStream` reads. -/
theorem parser_agrees_with_reference (i : UItem) (h : i.ok = true) :
    ∃ vt, parse {} i.wire = ({ evs := (toSyn i).events.reverse, valueType := vt }, none) ∧
      build (toSyn i).events = some i.value ∧ WF1 (toSyn i).events = true ∧
      Cst.decodeStream i.wire = .ok [i.value] := by
  obtain ⟨vt, hp⟩ := parse_item (toSyn i) (Bridge.toSyn_ok i h) (by rw [Bridge.toSyn_free i h]; omega)
  rw [Bridge.toSyn_wire] at hp
  refine ⟨vt, hp, ?_, ?_, Wire.decodeStream_wire i h⟩
  · rw [Syn.build_item_events, Bridge.toSyn_value]
  · rw [← Syn.tree_events]; exact wf1_events _ (Syn.tree_wf _ (Bridge.toSyn_ok i h))

example : (parse {} exU.wire).2 = none ∧ events (parse {} exU.wire).1 = (toSyn exU).events ∧
    (match Cst.decodeStream exU.wire, build (events (parse {} exU.wire).1) with
     | .ok [v], some v' => v == v'
     | _, _ => false) = true := by
  decide +kernel

/-! ## (2) C01 — the round trip through the real parser mirror -/

/-- C07 under the weaker size condition `smallU` (SF/Proofs/UbjBridgeEnc.lean: the number of
elements is bounded by 2^63 only where it is ANNOUNCED; `small t → smallU t`): the encoder's
bytes are the wire form of a well-formed item whose value is the tree's up to `approx` -/
theorem ubj_output_valid' (t : ETree) (hw : t.wf = true) (hs : Enc.smallU t = true) :
    ∃ i : UItem, i.ok = true ∧ ubjBytes t = i.wire ∧
      approx t.value i.value = true ∧ (noBig t = true → i.value = t.value) :=
  ⟨Enc.toItem t, Enc.toItem_okU t hs, SF.Props.UbjEnc.ubj_encode t hw, Enc.toItem_approxU t hs,
    Enc.toItem_exactU t hs⟩

/-- C01 for UBJSON, strongest form: the round trip under `smallU` -/
theorem ubj_roundtrip' (t : ETree) (hw : t.wf = true) (hs : Enc.smallU t = true) :
    ∃ (p : P) (v : Val), parse {} (ubjBytes t) = (p, none) ∧
      build (events p) = some v ∧ WF1 (events p) = true ∧
      approx t.value v = true ∧ (noBig t = true → v = t.value) ∧
      Cst.decodeStream (ubjBytes t) = .ok [v] ∧
      (∃ vt, p = { evs := p.evs, valueType := vt }) := by
  obtain ⟨i, hok, hb, hap, hex⟩ := ubj_output_valid' t hw hs
  obtain ⟨vt, hp, hbu, hwf, hd⟩ := parser_agrees_with_reference i hok
  refine ⟨_, i.value, by rw [hb]; exact hp, ?_, ?_, hap, hex, by rw [hb]; exact hd, vt, rfl⟩
  · simpa [events] using hbu
  · simpa [events] using hwf

/-- C01 for UBJSON: for EVERY contract-conforming event tree `t` (`ETree.wf`; numbers in the range
of their Go kind and lengths below 2^63: `small`, the side condition shared with the CBOR
instance) — any nesting and shape, every scalar kind, all float bit patterns, arbitrary byte
strings and keys, announced and unknown lengths, NO bound on the size of the document — the bytes
the UBJSON encoder writes are accepted by the UBJSON parser, which ends in its idle state having
delivered ONE contract-conforming document (`WF1`) whose value `v` is the value of `t` up to the
format's documented representation change (`approx`: an unsigned number above MaxInt64 arrives
as its decimal string), and EXACTLY the value of `t` when no number exceeds MaxInt64.  The
reference decoder reads the same `v`. -/
theorem ubj_roundtrip (t : ETree) (hw : t.wf = true) (hs : small t = true) :
    ∃ (p : P) (v : Val), parse {} (ubjBytes t) = (p, none) ∧
      build (events p) = some v ∧ WF1 (events p) = true ∧
      approx t.value v = true ∧ (noBig t = true → v = t.value) ∧
      Cst.decodeStream (ubjBytes t) = .ok [v] ∧
      (∃ vt, p = { evs := p.evs, valueType := vt }) :=
  ubj_roundtrip' t hw (Enc.smallU_of_small t hs)

/-- non-vacuity: width-boundary integers, an empty key, unknown and announced lengths, a NaN
payload, a `C` byte; the round trip evaluated by the kernel (no number above MaxInt64: the
kernel cannot run `toString`) -/
example :
    SF.Props.UbjEnc.exT.wf = true ∧ small SF.Props.UbjEnc.exT = true ∧ noBig SF.Props.UbjEnc.exT = true ∧
      (parse {} (ubjBytes SF.Props.UbjEnc.exT)).2 = none ∧
      (match build (events (parse {} (ubjBytes SF.Props.UbjEnc.exT)).1) with
       | some v => v == SF.Props.UbjEnc.exT.value
       | none => false) = true := by
  decide +kernel

/-- THE HYPOTHESIS `small` CANNOT BE DROPPED (numbers in the range of their kind): an int8 event
carrying 300 is contract-conforming, but `vs.int8` writes `int8(300) = 44` -/
example : (ETree.num .i8 300).wf = true ∧ small (.num .i8 300) = false ∧
    (match build (events (parse {} (ubjBytes (.num .i8 300))).1) with
     | some v => v == .int 44
     | none => false) = true := by
  decide +kernel

/-- C01 for UBJSON, documents mixing basic and extended events (`XTree`: typed arrays / typed
maps / by-reference strings and keys): whenever the expansion of the document obeys the Visitor
contract, the bytes written for the document itself (typed `[$…#…` containers included) are
accepted by the parser, which delivers one contract-conforming document with the value of the
expansion up to `approx`, exactly that value when no number exceeds MaxInt64. -/
theorem ubj_roundtrip_ext (T : XTree) (hl : T.leavesOk = true) (hw : T.expand.wf = true)
    (hs : small T.expand = true) :
    build (expandAll T.events) = some T.expand.value ∧
    ∃ (p : P) (v : Val), parse {} (Enc.encAll T.events) = (p, none) ∧
      build (events p) = some v ∧ WF1 (events p) = true ∧
      approx T.expand.value v = true ∧ (noBig T.expand = true → v = T.expand.value) ∧
      Cst.decodeStream (Enc.encAll T.events) = .ok [v] ∧
      (∃ vt, p = { evs := p.evs, valueType := vt }) := by
  obtain ⟨h0, _, i, hok, hb, _, hap, hex⟩ := SF.Props.UbjEnc.ubj_output_valid_ext T hl hw hs
  obtain ⟨vt, hp, hbu, hwf, hd⟩ := parser_agrees_with_reference i hok
  refine ⟨h0, _, i.value, by rw [hb]; exact hp, ?_, ?_, hap, hex, by rw [hb]; exact hd, vt, rfl⟩
  · simpa [events] using hbu
  · simpa [events] using hwf

/-- non-vacuity: the mixed document of SF/Proofs/UbjEncTop.lean (typed uint16 array under a
by-reference key, typed string map, bool array) -/
example :
    SF.Props.UbjEnc.exX.leavesOk = true ∧ SF.Props.UbjEnc.exX.expand.wf = true ∧
      small SF.Props.UbjEnc.exX.expand = true ∧
      (parse {} (Enc.encAll SF.Props.UbjEnc.exX.events)).2 = none ∧
      (match build (events (parse {} (Enc.encAll SF.Props.UbjEnc.exX.events)).1) with
       | some v => v == SF.Props.UbjEnc.exX.expand.value
       | none => false) = true := by
  decide +kernel

/-! ## (3) C08 — UBJSON as the SOURCE of a transcoding -/

/-- what the UBJSON parser delivers for a grammatical item is the event sequence of a
contract-conforming tree whose numbers are all in the range of their kind and ≤ MaxInt64
(`H` high-precision numbers are delivered as strings) -/
theorem ubj_parser_events_tree (it : Item) (h : it.ok = true) (hfree : free it ≤ 1000000) :
    events (parse {} it.wire).1 = it.tree.events ∧ it.tree.wf = true ∧ noBig it.tree = true ∧
      it.tree.value = it.value ∧ (sized it = true → small it.tree = true) := by
  obtain ⟨vt, hp⟩ := parse_item it h hfree
  refine ⟨?_, Syn.tree_wf it h, Syn.tree_noBig it h, Syn.tree_value it, Syn.tree_small it h⟩
  rw [hp, Syn.tree_events]
  simp [events]

/-- … stated on the delivered events themselves: EVERY number event the UBJSON parser delivers
for a grammatical item is in the range of its kind and ≤ MaxInt64 (`Syn.numOk`) -/
theorem ubj_parser_numbers_in_range (it : Item) (h : it.ok = true) (hfree : free it ≤ 1000000) :
    (events (parse {} it.wire).1).all Syn.numOk = true := by
  obtain ⟨vt, hp⟩ := parse_item it h hfree
  rw [hp]
  simpa [events] using Syn.events_numOk it h

/-- C08, UBJSON → UBJSON: for EVERY grammatical UBJSON item `it` in any spelling (non-minimal
integer and length widths, no-ops, counted and typed containers incl. nested ones, plain
containers of any size; `free ≤ 1000000`: the model's fuel — the only side condition), feeding
the parser's events to the UBJSON encoder yields the wire form of a well-formed item that the
reference decoder AND the parser read back as ONE value — EXACTLY the source's value. -/
theorem ubjson_to_ubjson (it : Item) (h : it.ok = true) (hfree : free it ≤ 1000000) :
    let evs := events (parse {} it.wire).1
    ∃ u : UItem, u.ok = true ∧ Enc.encAll (evs.map XEv.ev) = u.wire ∧
      Cst.decodeStream (Enc.encAll (evs.map XEv.ev)) = .ok [u.value] ∧ u.value = it.value ∧
      (parse {} u.wire).2 = none ∧ build (events (parse {} u.wire).1) = some it.value := by
  obtain ⟨he, hwf, hnb, hv, _⟩ := ubj_parser_events_tree it h hfree
  simp only [he]
  obtain ⟨u, h1, h2, _, h5⟩ := ubj_output_valid' it.tree hwf (Syn.tree_smallU it h)
  have huv : u.value = it.value := by rw [h5 hnb, hv]
  obtain ⟨vt, hp, hbu, _, hd⟩ := parser_agrees_with_reference u h1
  have h2' : Enc.encAll (it.tree.events.map XEv.ev) = u.wire := h2
  refine ⟨u, h1, h2', by rw [h2']; exact hd, huv, by rw [hp], ?_⟩
  rw [hp, ← huv]
  simpa [events] using hbu

/-- C08, UBJSON → CBOR: … (`sized`: no PLAIN container with 2^63 elements — the CBOR grammar's
`ok` and the CBOR encoder theorem's `small` demand it; implied by `it.wire.length < 2^63`,
`sized_of_short`) feeding the parser's events to the CBOR encoder yields a valid CBOR document
(a well-formed RFC 7049 item) that the CBOR reference decoder reads back completely and whose
value is the source's value. -/
theorem ubjson_to_cbor (it : Item) (h : it.ok = true) (hfree : free it ≤ 1000000) (hz : sized it = true) :
    let evs := events (parse {} it.wire).1
    ∃ j : SF.Cbor.Cst.Item, j.ok = true ∧ (SF.Cbor.Enc.run {} (evs.map XEv.ev)).1.w.out = j.wire ∧
      SF.Cbor.Cst.decode j.wire = .ok (j, []) ∧ j.value = it.value := by
  obtain ⟨he, hwf, _, hv, hsm⟩ := ubj_parser_events_tree it h hfree
  simp only [he]
  have hs := hsm hz
  have henc : SF.Cbor.Enc.run {} (it.tree.events.map XEv.ev) =
      (SF.Cbor.Enc.Enc.emit {} (SF.Cbor.Enc.toItem it.tree).wire, none) := by
    have h := SF.Cbor.Enc.enc_tree it.tree hwf hs {} rfl []
    simp only [List.append_nil, SF.Cbor.Enc.execEvs] at h
    exact SF.Cbor.Enc.run_evs _ _ _ h
  refine ⟨SF.Cbor.Enc.toItem it.tree, SF.Cbor.Enc.toItem_ok _ hs, ?_, ?_, ?_⟩
  · simp [henc, SF.Cbor.Enc.Enc.emit]
  · simpa using SF.Cbor.Cst.decode_wire _ (SF.Cbor.Enc.toItem_ok _ hs) []
  · rw [SF.Cbor.Enc.toItem_value _ hs, hv]

/-- C08, UBJSON → JSON: for every grammatical UBJSON item without `d` / `D` values whose strings,
high-precision numbers and keys are well-formed UTF-8, feeding the parser's events to the JSON
encoder (any options, fresh writer) succeeds and yields a JSON text that the RFC 8259 reference
decoder accepts as exactly one value: the source's value (a high-precision number arrives as
the JSON string of its digits, as it does from the UBJSON parser). -/
theorem ubjson_to_json (o : SF.Json.Enc.Enc) (it : Item) (h : it.ok = true) (hfree : free it ≤ 1000000)
    (hf : noFloat it = true) (hu : utf8 it = true) (hw : o.w = {}) (ha : o.inArray.current = false) :
    let evs := events (parse {} it.wire).1
    (SF.Json.Enc.run o (evs.map XEv.ev)).2 = (none, .ok) ∧
    ∃ v, SF.Json.Cst.decode (SF.Json.Enc.encAll o (evs.map XEv.ev)) = .ok [v] false ∧ v = it.value := by
  obtain ⟨he, _, _, hv, _⟩ := ubj_parser_events_tree it h hfree
  simp only [he]
  obtain ⟨h1, v, h2, h3⟩ := SF.Props.JsonEnc.json_output_decodes o it.tree (Syn.tree_plain it h hf)
    (Syn.tree_utf8 it hu) hw ha
  exact ⟨h1, v, h2, by rw [h3, hv]⟩

/-- the side condition `sized` follows from the length of the document -/
theorem sized_of_short (it : Item) (h : it.wire.length < 9223372036854775808) : sized it = true :=
  Syn.sized_of_wire_length it h

/-- non-vacuity: a foreign spelling (no-ops, lengths and integers wider than necessary, a typed
array with a payload-free element type, a typed object, a high-precision number) is re-encoded
with minimal widths and counted containers; evaluated by the kernel -/
def exS : Item :=
  .arr [(1, .arrT 0x54 .I [.tru, .tru]), (0, .objT 0x49 .l [(.L, [0x61], .int .i16 5)]),
        (2, .arrN .U [(0, .int .i64 (-3)), (1, .hp .i [0x31, 0x32])]), (0, .str .l [0x68])] 1

example :
    exS.ok = true ∧ free exS = 2 ∧ sized exS = true ∧ noFloat exS = true ∧
    Enc.encAll ((events (parse {} exS.wire).1).map XEv.ev) =
      [0x5b, 0x5b, 0x23, 0x69, 0x02, 0x54, 0x54, 0x7b, 0x23, 0x69, 0x01, 0x69, 0x01, 0x61, 0x69, 0x05,
       0x5b, 0x23, 0x69, 0x02, 0x69, 0xfd, 0x53, 0x69, 0x02, 0x31, 0x32, 0x53, 0x69, 0x01, 0x68, 0x5d] ∧
    (SF.Cbor.Enc.run {} ((events (parse {} exS.wire).1).map XEv.ev)).1.w.out =
      [0x9f, 0x82, 0xf5, 0xf5, 0xa1, 0x61, 0x61, 0x05, 0x82, 0x22, 0x62, 0x31, 0x32, 0x61, 0x68, 0xff] := by
  decide +kernel

/-! ## (4) C17 — a reused parser behaves like a new one (grammatical probes) -/

/-- `Parse` on a stream from ANY idle state (events `E` already delivered, any `valueType`) -/
theorem parse_stream_from_idle (xs : List (Nat × Item)) (t : Nat) (hok : okElems xs = true)
    (hfree : ∀ nx ∈ xs, free nx.2 ≤ 1000000) (E : List Ev) (vt : Nat) :
    ∃ vt', parse { evs := E, valueType := vt } (wireStream xs t) =
      ({ evs := (evElems xs).reverse ++ E, valueType := vt' }, none) := by
  have hlen : xs.length + 2 ≤ 2 * (wireStream xs t).length + 2 := by
    have := Parse.wireElems_length_ge xs
    simp only [wireStream, List.length_append]; omega
  obtain ⟨vt', h⟩ := Parse.feedG_stream Parse.fuelFor (fun b => Nat.le_refl _) xs t hok hfree E vt _ hlen
  refine ⟨vt', ?_⟩
  have hi : ({ evs := E, valueType := vt } : P) = idle E vt := rfl
  simp only [parse, Parse.feedAll, Parse.feed_eq_feedG, hi, h, Parse.finalize_idle]
  rfl

/-- C17 for the UBJSON parser, grammatical inputs: after ANY history of complete documents
(a stream of grammatical items, no-ops anywhere the grammar allows) the parser is in its idle
state — initial state stack, empty length stack, empty buffer, no stored error; only the event
log and the scratch field `valueType` (element type of the last typed container) differ from a
new parser — and a probe stream parsed next is accepted and delivers exactly the events a NEW
parser delivers for it. -/
theorem ubj_parser_reuse (hist probe : List (Nat × Item)) (t1 t2 : Nat)
    (h1 : okElems hist = true) (hf1 : ∀ nx ∈ hist, free nx.2 ≤ 1000000)
    (h2 : okElems probe = true) (hf2 : ∀ nx ∈ probe, free nx.2 ≤ 1000000) :
    ∃ vt vt' vt'',
      parse {} (wireStream hist t1) = ({ evs := (evElems hist).reverse, valueType := vt }, none) ∧
      parse { evs := (evElems hist).reverse, valueType := vt } (wireStream probe t2) =
        ({ evs := (evElems probe).reverse ++ (evElems hist).reverse, valueType := vt' }, none) ∧
      parse {} (wireStream probe t2) = ({ evs := (evElems probe).reverse, valueType := vt'' }, none) := by
  obtain ⟨vt, h⟩ := parse_stream_from_idle hist t1 h1 hf1 [] BT.any
  obtain ⟨vt', h'⟩ := parse_stream_from_idle probe t2 h2 hf2 (evElems hist).reverse vt
  obtain ⟨vt'', h''⟩ := parse_stream_from_idle probe t2 h2 hf2 [] BT.any
  exact ⟨vt, vt', vt'', by simpa using h, h', by simpa using h''⟩

/-- non-vacuity, and the scratch field does change: a typed int8 array leaves `valueType = int8`
behind; the probe (a typed array of strings inside a counted object) delivers the same events -/
example :
    let hist : List (Nat × Item) := [(0, .arrT 0x69 .i [.int .i8 1]), (1, .objN .i [(.i, [0x61], .null)])]
    let probe : List (Nat × Item) := [(0, .objN .i [(.i, [0x6b], .arrT 0x53 .i [.str .i [0x68]])])]
    let s := (parse {} (wireStream hist 0)).1
    okElems hist = true ∧ okElems probe = true ∧ s.valueType = BT.int8 ∧
      (parse s (wireStream probe 1)).2 = none ∧
      events (parse s (wireStream probe 1)).1 = evElems hist ++ events (parse {} (wireStream probe 1)).1 := by
  decide +kernel

/-! ## (4') C17 — a reused parser behaves like a new one: ANY probe, any chunking

`Fr v E0 p` (SF/Proofs/UbjFrame.lean) is the parser `p` FRAMED: with scratch field
`valueType := v`, with the events `E0` delivered before everything `p` has delivered, and the
visitor's fault index shifted by `E0.length`:

    Fr v E0 p = { p with valueType := v, evs := p.evs ++ E0, failAt := p.failAt.map (· + E0.length) }

`valueType` is written by the typed-container header (`stepType`) and read in ONE place: when a
typed ARRAY announces its element type (`stepArrayTyped`, step `stWithLen`).  A state is live
(`liveSt`) when it is a typed-array state between the two. -/

/-- THE FRAME THEOREM.  From EVERY parser state `p` that satisfies the shape invariant `G`
(every state reachable from `NewParser`) and has no live typed-array state — in particular from
every idle state — and for ALL byte strings (grammatical or not): `Parse` on the framed parser
returns the same verdict and ends in the same state up to the frame.  The scratch field
`valueType` and the events delivered earlier influence nothing. -/
theorem ubj_parser_frame (p : P) (hg : G p) (hl : liveAny p = false) (v : Nat) (E0 : List Ev) (b : Bytes) :
    ∃ v', parse (Fr v E0 p) b = (Fr v' E0 (parse p b).1, (parse p b).2) :=
  Parse.parse_fr E0 p b v hg (fun h => by rw [hl] at h; cases h)

/-- … `Write`, any number of times with ANY chunking, then end of input (`ParseReader`) -/
theorem ubj_parser_frame_chunks (p : P) (hg : G p) (hl : liveAny p = false) (v : Nat) (E0 : List Ev)
    (cs : List Bytes) :
    ∃ v', writeChunks (Fr v E0 p) cs = (Fr v' E0 (writeChunks p cs).1, (writeChunks p cs).2) :=
  Parse.writeChunks_fr E0 cs p v hg (fun h => by rw [hl] at h; cases h)

/-- … the loop of `Decoder.Next`, every amount of fuel: same unconsumed input, same `done` -/
theorem ubj_parser_frame_feedUntil (p : P) (hg : G p) (hl : liveAny p = false) (v : Nat) (E0 : List Ev)
    (f : Nat) (b : Bytes) :
    ∃ v', feedUntil f (Fr v E0 p) b =
      { feedUntil f p b with p := Fr v' E0 (feedUntil f p b).p } := by
  obtain ⟨v', h, _⟩ := Parse.feedUntil_fr E0 f p b v hg (fun h => by rw [hl] at h; cases h)
  exact ⟨v', h⟩

/-- THE HYPOTHESIS `liveAny p = false` CANNOT BE DROPPED: a (reachable: `G` holds) state in the
middle of a typed-array header — element type read, count not yet announced — does depend on
`valueType`: two parsers that differ in that field only announce different element types. -/
example :
    let p : P := { state := { stack := [⟨.stNext, .stStart⟩], current := ⟨.stArrayTyped, .stWithLen⟩ },
                   valueState := { current := ⟨.stFixed, .stInt8⟩ }, length := { stack := [0], current := 1 },
                   valueType := BT.int8 }
    G p ∧ liveAny p = true ∧
      events (feedUntil 9 p [5]).p = [.arrStart 1 BT.int8, .num .i8 5, .arrEnd] ∧
      events (feedUntil 9 (Fr BT.any [] p) [5]).p = [.arrStart 1 BT.any, .num .i8 5, .arrEnd] := by
  refine ⟨by decide, by decide +kernel, by decide +kernel, by decide +kernel⟩

/-- … NOR CAN `G p`: in a state no run from `NewParser` reaches (an array state `stArray` in step
`stWithLen`; no live state: `liveAny p = false`) the `$` turns the state into a live one that
announces a `valueType` nobody has written -/
example :
    let p : P := { state := { stack := [⟨.stNext, .stStart⟩], current := ⟨.stArray, .stWithLen⟩ },
                   length := { stack := [0], current := 0 } }
    ¬ G p ∧ liveAny p = false ∧
      events (feedUntil 9 p [0x24]).p = [.arrStart 0 BT.any, .arrEnd] ∧
      events (feedUntil 9 (Fr BT.int8 [] p) [0x24]).p = [.arrStart 0 BT.int8, .arrEnd] := by
  refine ⟨by decide, by decide +kernel, by decide +kernel, by decide +kernel⟩

/-- C17 for the UBJSON parser: after ANY history of complete documents (a stream of grammatical
items, no-ops wherever the grammar allows them) the parser is idle — `s` below: the initial
state stack, empty length stack and buffer, no stored error; only the event log and the scratch
field `valueType` differ from a new parser — and then, for EVERY probe byte string (grammatical,
malformed, truncated, …) the reused parser returns the verdict a NEW parser returns, delivers the
events a new parser delivers (after those of the history), and ends in the state a new parser
ends in, up to the frame. -/
theorem ubj_parser_reuse_any (hist : List (Nat × Item)) (t : Nat) (h1 : okElems hist = true)
    (hf1 : ∀ nx ∈ hist, free nx.2 ≤ 1000000) (probe : Bytes) :
    ∃ (vt : Nat) (s : P), parse {} (wireStream hist t) = (s, none) ∧
      s = { evs := (evElems hist).reverse, valueType := vt } ∧
      (parse s probe).2 = (parse {} probe).2 ∧
      events (parse s probe).1 = evElems hist ++ events (parse {} probe).1 ∧
      ∃ vt', (parse s probe).1 = Fr vt' (evElems hist).reverse (parse {} probe).1 := by
  obtain ⟨vt, h⟩ := SF.Props.UbjParse.parse_refines hist t h1 hf1
  obtain ⟨vt', h'⟩ := ubj_parser_frame {} Parse.g_default (by decide) vt (evElems hist).reverse probe
  refine ⟨vt, _, h, rfl, ?_, ?_, vt', ?_⟩
  · exact congrArg (fun r => r.2) h'
  · have := congrArg (fun r => r.1.evs) h'
    simp only [Parse.fr_evs] at this
    have h0 : (Fr vt (evElems hist).reverse ({} : P)) = { evs := (evElems hist).reverse, valueType := vt } := rfl
    rw [h0] at this
    simp only [events, this, List.reverse_append, List.reverse_reverse]
  · exact congrArg (fun r => r.1) h'

/-- … the same with the probe arriving in ANY chunking (`Write` per chunk, then end of input) -/
theorem ubj_parser_reuse_chunks (hist : List (Nat × Item)) (t : Nat) (h1 : okElems hist = true)
    (hf1 : ∀ nx ∈ hist, free nx.2 ≤ 1000000) (probe : List Bytes) :
    ∃ (vt : Nat) (s : P), parse {} (wireStream hist t) = (s, none) ∧
      s = { evs := (evElems hist).reverse, valueType := vt } ∧
      (writeChunks s probe).2 = (writeChunks {} probe).2 ∧
      events (writeChunks s probe).1 = evElems hist ++ events (writeChunks {} probe).1 := by
  obtain ⟨vt, h⟩ := SF.Props.UbjParse.parse_refines hist t h1 hf1
  obtain ⟨vt', h'⟩ := ubj_parser_frame_chunks {} Parse.g_default (by decide) vt (evElems hist).reverse probe
  refine ⟨vt, _, h, rfl, ?_, ?_⟩
  · exact congrArg (fun r => r.2) h'
  · have := congrArg (fun r => r.1.evs) h'
    simp only [Parse.fr_evs] at this
    have h0 : (Fr vt (evElems hist).reverse ({} : P)) = { evs := (evElems hist).reverse, valueType := vt } := rfl
    rw [h0] at this
    simp only [events, this, List.reverse_append, List.reverse_reverse]

/-- non-vacuity: the history leaves `valueType = int8`; the probes are MALFORMED documents
(a typed array cut short; an unknown marker inside a counted object; a typed array whose count
marker is missing) — same verdicts, same events as on a new parser -/
example :
    let hist : List (Nat × Item) := [(0, .arrT 0x69 .i [.int .i8 1])]
    let s := (parse {} (wireStream hist 0)).1
    s.valueType = BT.int8 ∧
    (∀ probe ∈ [[0x5b, 0x24, 0x53, 0x23, 0x69, 0x02, 0x69, 0x01, 0x61],
                [0x7b, 0x23, 0x69, 0x01, 0x69, 0x01, 0x61, 0x21],
                [0x5b, 0x24, 0x69, 0x69, 0x01]],
      (parse s probe).2 = (parse {} probe).2 ∧ (parse {} probe).2 ≠ none ∧
      events (parse s probe).1 = evElems hist ++ events (parse {} probe).1) := by
  decide +kernel

end SF.Props.UbjBridge
