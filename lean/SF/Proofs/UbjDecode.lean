/-
  The reference decoder of SF/Ubjson/Cst.lean inverts `wire` on every well-formed `UItem`
  (SF/Proofs/UbjWire.lean), consuming exactly the item's bytes; the fuel `decodeStream` provides
  (2·length + 4) always suffices.
-/
import SF.Proofs.UbjWire
namespace SF.Ubjson.Wire
open SF SF.Ubjson SF.Ubjson.Cst

/-- first bytes of values are never a no-op, a closing bracket or a header character -/
theorem marker_ne (x : UItem) :
    x.marker ≠ 0x4e ∧ x.marker ≠ 0x5d ∧ x.marker ≠ 0x24 ∧ x.marker ≠ 0x23 ∧ x.marker ≠ 0x7d := by
  cases x with
  | int m v => cases m <;> simp only [UItem.marker, IM.byte] <;> decide
  | _ => simp only [UItem.marker] <;> decide

theorem payload_pos (x : UItem) (t : UInt8) (ht : typeOk t = true) (hm : (x.marker == t) = true) :
    1 ≤ x.payload.length := by
  have hm : x.marker = t := by simpa using hm
  subst hm
  cases x with
  | null => exact absurd ht (by decide)
  | tru => exact absurd ht (by decide)
  | fals => exact absurd ht (by decide)
  | int m v => simp only [UItem.payload, intPayload_length]; exact width_pos m
  | char c => simp [UItem.payload]
  | f32 b => simp [UItem.payload]
  | f64 b => simp [UItem.payload]
  | str lm s => simp [UItem.payload, lenWire]
  | hp lm s => simp [UItem.payload, lenWire]
  | arr xs => simp [UItem.payload]
  | arrN lm xs => simp [UItem.payload]
  | arrT t lm xs => simp [UItem.payload]
  | obj ms => simp [UItem.payload]
  | objN lm ms => simp [UItem.payload]
  | objT t lm ms => simp [UItem.payload]

theorem wireList_len (xs : List UItem) : xs.length ≤ (wireList xs).length := by
  induction xs with
  | nil => simp
  | cons x xs ih => simp only [wireList, List.length_cons, List.length_append]; omega

theorem payloadList_len (t : UInt8) (ht : typeOk t = true) (xs : List UItem) (h : allMarker t xs = true) :
    xs.length ≤ (payloadList xs).length := by
  induction xs with
  | nil => simp
  | cons x xs ih =>
    simp only [allMarker, Bool.and_eq_true] at h
    have := payload_pos x t ht h.1
    have := ih h.2
    simp only [payloadList, List.length_cons, List.length_append]; omega

theorem wireMems_len (ms : List (IM × Bytes × UItem)) : ms.length ≤ (wireMems ms).length := by
  induction ms with
  | nil => simp
  | cons m ms ih =>
    obtain ⟨km, k, v⟩ := m
    simp only [wireMems, List.length_cons, List.length_append]; omega

theorem payloadMems_len (ms : List (IM × Bytes × UItem)) : ms.length ≤ (payloadMems ms).length := by
  induction ms with
  | nil => simp
  | cons m ms ih =>
    obtain ⟨km, k, v⟩ := m
    simp only [payloadMems, lenWire, List.length_cons, List.length_append]; omega

theorem u32_beNat (b : UInt32) : UInt32.ofNat (beNat (beBytes 4 b.toNat)) = b := by
  rw [beNat_beBytes 4 b.toNat (by have := b.toNat_lt; omega)]; simp
theorem u64_beNat (b : UInt64) : UInt64.ofNat (beNat (beBytes 8 b.toNat)) = b := by
  rw [beNat_beBytes 8 b.toNat (by have := b.toNat_lt; omega)]; simp

mutual
/-- the payload of a well-formed item, after its marker -/
theorem dec_payload (x : UItem) (hx : x.ok = true) (f : Nat) (hf : 2 * x.payload.length + 1 ≤ f)
    (rest : Bytes) : Cst.payload f x.marker (x.payload ++ rest) = .ok (x.value, rest) := by
  obtain ⟨f, rfl⟩ : ∃ g, f = g + 1 := ⟨f - 1, by omega⟩
  match x with
  | .null => exact payload_null f rest
  | .tru => exact payload_tru f rest
  | .fals => exact payload_fals f rest
  | .int m v =>
    simp only [UItem.ok] at hx
    exact payload_int f m _ rest v (readInt_ok m v hx rest)
  | .char c => exact payload_char f c rest
  | .f32 b =>
    have := payload_f32 f (beBytes 4 b.toNat) rest (by simp)
    rw [u32_beNat] at this
    exact this
  | .f64 b =>
    have := payload_f64 f (beBytes 8 b.toNat) rest (by simp)
    rw [u64_beNat] at this
    exact this
  | .str lm s =>
    simp only [UItem.ok] at hx
    simp only [UItem.payload, UItem.marker, UItem.value, List.append_assoc]
    exact payload_str f _ _ _ s s.length (readLen_ok lm s.length hx _) (takeN_append s rest _ rfl)
  | .hp lm s =>
    simp only [UItem.ok] at hx
    simp only [UItem.payload, UItem.marker, UItem.value, List.append_assoc]
    exact payload_hp f _ _ _ s s.length (readLen_ok lm s.length hx _) (takeN_append s rest _ rfl)
  | .arr xs =>
    simp only [UItem.ok] at hx
    simp only [UItem.payload, List.length_append, List.length_singleton] at hf
    simp only [UItem.payload, UItem.marker, UItem.value, List.append_assoc, List.singleton_append]
    rw [payload_arr]
    obtain ⟨f, rfl⟩ : ∃ g, f = g + 1 := ⟨f - 1, by omega⟩
    have hp := dec_plain xs hx f (by omega) rest
    cases xs with
    | nil => exact array_plain f _ _ _ _ (by decide) (by decide) hp
    | cons y ys =>
      simp only [wireList, List.cons_append] at hp ⊢
      exact array_plain f _ _ _ _ (marker_ne y).2.2.1 (marker_ne y).2.2.2.1 hp
  | .arrN lm xs =>
    simp only [UItem.ok, Bool.and_eq_true] at hx
    simp only [UItem.payload, List.length_cons, List.length_append, lenWire_length] at hf
    simp only [UItem.payload, UItem.marker, UItem.value, List.append_assoc, List.cons_append]
    rw [payload_arr]
    obtain ⟨f, rfl⟩ : ∃ g, f = g + 1 := ⟨f - 1, by omega⟩
    refine array_count f _ _ _ xs.length _ (readLen_ok lm xs.length hx.1 _) ?_
      (dec_counted xs hx.2 f (by omega) rest)
    have := wireList_len xs
    simp only [List.length_append]; omega
  | .arrT t lm xs =>
    simp only [UItem.ok, Bool.and_eq_true] at hx
    simp only [UItem.payload, List.length_cons, List.length_append, lenWire_length] at hf
    simp only [UItem.payload, UItem.marker, UItem.value, List.append_assoc, List.cons_append]
    rw [payload_arr]
    obtain ⟨f, rfl⟩ : ∃ g, f = g + 1 := ⟨f - 1, by omega⟩
    obtain ⟨f, rfl⟩ : ∃ g, f = g + 1 := ⟨f - 1, by omega⟩
    refine array_typed (f + 1) t _ _ _ xs.length _ hx.1.1.2 (readLen_ok lm xs.length hx.1.1.1 _) ?_
    rw [typedElems_loop f t _ _ hx.1.1.2 (by
      have := payloadList_len t hx.1.1.2 xs hx.1.2
      simp only [List.length_append]; omega)]
    exact dec_typed t hx.1.1.2 xs hx.1.2 hx.2 f (by omega) rest
  | .obj ms =>
    simp only [UItem.ok] at hx
    simp only [UItem.payload, List.length_append, List.length_singleton] at hf
    simp only [UItem.payload, UItem.marker, UItem.value, List.append_assoc, List.singleton_append]
    rw [payload_obj]
    obtain ⟨f, rfl⟩ : ∃ g, f = g + 1 := ⟨f - 1, by omega⟩
    have hp := dec_plainM ms hx f (by omega) rest
    match ms, hp with
    | [], hp => exact object_plain f _ _ _ _ (by decide) (by decide) hp
    | (km, k, v) :: ms', hp =>
      simp only [wireMems, lenWire, List.cons_append] at hp ⊢
      exact object_plain f _ _ _ _ (imbyte_ne km).2.2.2.1 (imbyte_ne km).2.2.2.2 hp
  | .objN lm ms =>
    simp only [UItem.ok, Bool.and_eq_true] at hx
    simp only [UItem.payload, List.length_cons, List.length_append, lenWire_length] at hf
    simp only [UItem.payload, UItem.marker, UItem.value, List.append_assoc, List.cons_append]
    rw [payload_obj]
    obtain ⟨f, rfl⟩ : ∃ g, f = g + 1 := ⟨f - 1, by omega⟩
    refine object_count f _ _ _ ms.length _ (readLen_ok lm ms.length hx.1 _) ?_
      (dec_countedM ms hx.2 f (by omega) rest)
    have := wireMems_len ms
    simp only [List.length_append]; omega
  | .objT t lm ms =>
    simp only [UItem.ok, Bool.and_eq_true] at hx
    simp only [UItem.payload, List.length_cons, List.length_append, lenWire_length] at hf
    simp only [UItem.payload, UItem.marker, UItem.value, List.append_assoc, List.cons_append]
    rw [payload_obj]
    obtain ⟨f, rfl⟩ : ∃ g, f = g + 1 := ⟨f - 1, by omega⟩
    refine object_typed f t _ _ _ ms.length _ hx.1.1.2 (readLen_ok lm ms.length hx.1.1.1 _) ?_
      (dec_typedM t hx.1.1.2 ms hx.1.2 hx.2 f (by omega) rest)
    have := payloadMems_len ms
    simp only [List.length_append]; omega

theorem dec_plain (xs : List UItem) (hx : okList xs = true) (f : Nat)
    (hf : 2 * (wireList xs).length + 1 ≤ f) (rest : Bytes) :
    plainElems f (wireList xs ++ 0x5d :: rest) = .ok (valueList xs, rest) := by
  obtain ⟨f, rfl⟩ : ∃ g, f = g + 1 := ⟨f - 1, by omega⟩
  match xs with
  | [] => exact plainElems_nil f rest
  | x :: xs' =>
    simp only [okList, Bool.and_eq_true] at hx
    simp only [wireList, List.length_cons, List.length_append] at hf
    simp only [wireList, List.cons_append, List.append_assoc, valueList]
    obtain ⟨g, rfl⟩ : ∃ g, f = g + 1 := ⟨f - 1, by omega⟩
    refine plainElems_cons (g + 1) x.marker _ _ _ _ _ (marker_ne x).1 (marker_ne x).2.1 ?_
      (dec_plain xs' hx.2 (g + 1) (by omega) rest)
    rw [value_cons]
    exact dec_payload x hx.1 g (by omega) _

theorem dec_counted (xs : List UItem) (hx : okList xs = true) (f : Nat)
    (hf : 2 * (wireList xs).length + 1 ≤ f) (rest : Bytes) :
    countedElems f xs.length (wireList xs ++ rest) = .ok (valueList xs, rest) := by
  obtain ⟨f, rfl⟩ : ∃ g, f = g + 1 := ⟨f - 1, by omega⟩
  match xs with
  | [] => exact countedElems_zero _ rest
  | x :: xs' =>
    simp only [okList, Bool.and_eq_true] at hx
    simp only [wireList, List.length_cons, List.length_append] at hf
    simp only [wireList, List.cons_append, List.append_assoc, valueList, List.length_cons]
    obtain ⟨g, rfl⟩ : ∃ g, f = g + 1 := ⟨f - 1, by omega⟩
    refine countedElems_succ (g + 1) _ x.marker _ _ _ _ _ (marker_ne x).1 ?_
      (dec_counted xs' hx.2 (g + 1) (by omega) rest)
    rw [value_cons]
    exact dec_payload x hx.1 g (by omega) _

theorem dec_typed (t : UInt8) (ht : typeOk t = true) (xs : List UItem) (ha : allMarker t xs = true)
    (hx : okList xs = true) (f : Nat) (hf : 2 * (payloadList xs).length + 2 ≤ f) (rest : Bytes) :
    typedLoop f t xs.length (payloadList xs ++ rest) = .ok (valueList xs, rest) := by
  obtain ⟨f, rfl⟩ : ∃ g, f = g + 1 := ⟨f - 1, by omega⟩
  match xs with
  | [] => exact typedLoop_zero _ t rest
  | x :: xs' =>
    simp only [okList, Bool.and_eq_true] at hx
    simp only [allMarker, Bool.and_eq_true] at ha
    simp only [payloadList, List.length_append] at hf
    simp only [payloadList, List.append_assoc, valueList, List.length_cons]
    have hpos := payload_pos x t ht ha.1
    have hm : x.marker = t := by simpa using ha.1
    refine typedLoop_succ f t _ _ _ _ _ _ ?_ (dec_typed t ht xs' ha.2 hx.2 f (by omega) rest)
    rw [← hm]
    exact dec_payload x hx.1 f (by omega) _

theorem dec_plainM (ms : List (IM × Bytes × UItem)) (hx : okMems ms = true) (f : Nat)
    (hf : 2 * (wireMems ms).length + 1 ≤ f) (rest : Bytes) :
    plainMems f (wireMems ms ++ 0x7d :: rest) = .ok (valueMems ms, rest) := by
  obtain ⟨f, rfl⟩ : ∃ g, f = g + 1 := ⟨f - 1, by omega⟩
  match ms with
  | [] => exact plainMems_nil f rest
  | (km, k, v) :: ms' =>
    simp only [okMems, Bool.and_eq_true] at hx
    simp only [wireMems, List.length_cons, List.length_append, lenWire_length] at hf
    have hk := key_ok km k hx.1.1 (v.marker :: (v.payload ++ (wireMems ms' ++ 0x7d :: rest)))
    simp only [lenWire, List.cons_append] at hk
    simp only [wireMems, lenWire, List.cons_append, List.append_assoc, valueMems]
    obtain ⟨g, rfl⟩ : ∃ g, f = g + 1 := ⟨f - 1, by omega⟩
    refine plainMems_cons (g + 1) km.byte v.marker _ _ _ _ k _ _ (imbyte_ne km).2.1 hk (marker_ne v).1 ?_
      (dec_plainM ms' hx.2 (g + 1) (by omega) rest)
    rw [value_cons]
    exact dec_payload v hx.1.2 g (by omega) _

theorem dec_countedM (ms : List (IM × Bytes × UItem)) (hx : okMems ms = true) (f : Nat)
    (hf : 2 * (wireMems ms).length + 1 ≤ f) (rest : Bytes) :
    countedMems f ms.length (wireMems ms ++ rest) = .ok (valueMems ms, rest) := by
  obtain ⟨f, rfl⟩ : ∃ g, f = g + 1 := ⟨f - 1, by omega⟩
  match ms with
  | [] => exact countedMems_zero _ rest
  | (km, k, v) :: ms' =>
    simp only [okMems, Bool.and_eq_true] at hx
    simp only [wireMems, List.length_cons, List.length_append, lenWire_length] at hf
    have hk := key_ok km k hx.1.1 (v.marker :: (v.payload ++ (wireMems ms' ++ rest)))
    simp only [wireMems, List.append_assoc, List.cons_append, valueMems, List.length_cons]
    obtain ⟨g, rfl⟩ : ∃ g, f = g + 1 := ⟨f - 1, by omega⟩
    refine countedMems_succ (g + 1) _ v.marker _ _ _ _ k _ _ hk (marker_ne v).1 ?_
      (dec_countedM ms' hx.2 (g + 1) (by omega) rest)
    rw [value_cons]
    exact dec_payload v hx.1.2 g (by omega) _

theorem dec_typedM (t : UInt8) (ht : typeOk t = true) (ms : List (IM × Bytes × UItem))
    (ha : allMarkerM t ms = true) (hx : okMems ms = true) (f : Nat)
    (hf : 2 * (payloadMems ms).length + 2 ≤ f) (rest : Bytes) :
    typedMems f t ms.length (payloadMems ms ++ rest) = .ok (valueMems ms, rest) := by
  obtain ⟨f, rfl⟩ : ∃ g, f = g + 1 := ⟨f - 1, by omega⟩
  match ms with
  | [] => exact typedMems_zero _ t rest
  | (km, k, v) :: ms' =>
    simp only [okMems, Bool.and_eq_true] at hx
    simp only [allMarkerM, Bool.and_eq_true] at ha
    simp only [payloadMems, List.length_append, lenWire_length] at hf
    have hk := key_ok km k hx.1.1 (v.payload ++ (payloadMems ms' ++ rest))
    simp only [payloadMems, List.append_assoc, valueMems, List.length_cons]
    have hm : v.marker = t := by simpa using ha.1
    refine typedMems_succ f _ t _ _ _ _ k _ _ hk ?_ (dec_typedM t ht ms' ha.2 hx.2 f (by omega) rest)
    rw [← hm]
    exact dec_payload v hx.1.2 f (by omega) _
end

/-- one value -/
theorem dec_value (x : UItem) (hx : x.ok = true) (f : Nat) (hf : 2 * x.wire.length ≤ f) (rest : Bytes) :
    Cst.value f (x.wire ++ rest) = .ok (x.value, rest) := by
  simp only [UItem.wire, List.length_cons] at hf
  obtain ⟨f, rfl⟩ : ∃ g, f = g + 1 := ⟨f - 1, by omega⟩
  simp only [UItem.wire, List.cons_append]
  rw [value_cons]
  exact dec_payload x hx f (by omega) rest

/-- a stream of values -/
theorem decodeAll_wireList (xs : List UItem) (hx : okList xs = true) (f : Nat) (hf : xs.length + 1 ≤ f) :
    decodeAll f (wireList xs) = .ok (valueList xs) := by
  induction xs generalizing f with
  | nil =>
    obtain ⟨f, rfl⟩ : ∃ g, f = g + 1 := ⟨f - 1, by omega⟩
    rfl
  | cons x xs ih =>
    obtain ⟨f, rfl⟩ : ∃ g, f = g + 1 := ⟨f - 1, by omega⟩
    simp only [okList, Bool.and_eq_true] at hx
    simp only [List.length_cons] at hf
    have hv := dec_value x hx.1 (2 * (x.marker :: (x.payload ++ wireList xs)).length + 4)
      (by simp only [UItem.wire, List.length_cons, List.length_append]; omega) (wireList xs)
    simp only [UItem.wire, List.cons_append] at hv
    simp only [wireList, valueList]
    rw [decodeAll, skipNoops_cons _ _ (marker_ne x).1]
    simp only [hv, ih hx.2 f (by omega)]

/-- SPECIFICATION ROUND TRIP: the reference decoder reads a stream of well-formed items back as
their values -/
theorem decodeStream_wireList (xs : List UItem) (hx : okList xs = true) :
    decodeStream (wireList xs) = .ok (valueList xs) := by
  apply decodeAll_wireList xs hx
  have := wireList_len xs
  omega

theorem wireList_single (x : UItem) : wireList [x] = x.wire := by
  simp [wireList, UItem.wire]

/-- … in particular one document -/
theorem decodeStream_wire (x : UItem) (hx : x.ok = true) : decodeStream x.wire = .ok [x.value] := by
  have := decodeStream_wireList [x] (by simp [okList, hx])
  rwa [wireList_single] at this

end SF.Ubjson.Wire
