/-
  Helper lemmas for C18 (JSON pull decoder), truncation: THE LOOP `feedUntil` (= `U`) DOES NOT
  REPORT A TOP-LEVEL VALUE INSIDE THE TEXT OF A VALUE (`U_not_reported`): over white space and a
  proper prefix of the text of a grammatical value that is not a bare number — whether or not
  its tokens denote — the loop fails or uses up the input without reporting.
  From the split law (SF/Proofs/JsonDecPeel.lean) and the run-level truncation claim `jclaim`
  (SF/Proofs/JsonTrunc.lean: after every proper non-empty prefix the parser has failed or is
  deeper in its stack): the point where a value would be reported is a prefix of the text, and
  the step that reports it either consumes something or starts inside a number at top level /
  a literal of which nothing is required — neither occurs.
-/
import SF.Proofs.JsonDecPeel
import SF.Proofs.JsonDecDoc
set_option linter.unusedSimpArgs false
set_option linter.unusedVariables false
namespace SF.Json.DecP
open SF SF.Json SF.Json.Parse SF.Json.Float SF.Json.ParseP SF.Json.Grammar

/-! ## inside a literal at least one byte is required -/

/-- inside a literal, at least one more byte is required -/
def LitPos (p : P) : Prop := isLit p.currentState = true → 1 ≤ p.required

theorem stepLit_litpos (p : P) (b : Bytes) (kind : String) (err : Err) (ev : Ev)
    (hn : p.required ≤ (strBytes kind).length) (hst : ∀ s ∈ p.states, isRet s = true)
    (he : (stepLit p b kind err ev).err = none) : LitPos (stepLit p b kind err ev).p := by
  intro hl
  by_cases hb : b.length < p.required
  · rw [stepLit_short p b kind err ev hn hb]
    split <;> (simp only; omega)
  · rw [stepLit_full p b kind err ev hn (by omega)] at hl he ⊢
    split
    · rename_i h
      rw [if_pos h] at hl
      simp only [visit_cs, popState_notLit p hst] at hl
      cases hl
    · rename_i h
      rw [if_neg h] at he; cases he

theorem litpos_of_notLit {p : P} (h : isLit p.currentState = false) : LitPos p := by
  intro hl; rw [h] at hl; cases hl

theorem pushState_states_ret (q : P) (ret next : St) (hq : q.currentState = ret) (hret : isRet ret = true) :
    (pushState q next).states = ret :: q.states := by
  have : (q.currentState != St.failedState) = true := by
    rw [hq]; cases ret <;> simp [isRet] at hret <;> rfl
  unfold pushState
  rw [if_pos this, hq]

theorem stepValue_litpos (p : P) (b : Bytes) (ret : St) (hinv : Inv p) (hret : isRet ret = true)
    (hl : isLit p.currentState = false) (he : (stepValue p b ret).err = none) :
    LitPos (stepValue p b ret).p := by
  have hst := hinv.stack
  have hst' : ∀ (q : P) (next : St), q.currentState = ret → q.states = p.states →
      ∀ s ∈ (pushState q next).states, isRet s = true := by
    intro q next h1 h2
    rw [pushState_states_ret q ret next h1 hret, h2]
    exact stack_cons hst hret
  cases htr : trimLeft b with
  | nil =>
    have : stepValue p b ret = { p := p, rest := [] } := by unfold stepValue; rw [htr]
    rw [this]; exact litpos_of_notLit hl
  | cons c tl =>
    by_cases hc : c ≠ ch 'n' ∧ c ≠ ch 'f' ∧ c ≠ ch 't'
    · exact litpos_of_notLit (stepValue_notLit p b ret hst hret hl (by
        intro c' tl' h; rw [htr] at h; injection h with h1 _; subst h1; exact hc))
    · have hc' : c = ch 'n' ∨ c = ch 'f' ∨ c = ch 't' := by
        by_cases h1 : c = ch 'n'
        · exact Or.inl h1
        · by_cases h2 : c = ch 'f'
          · exact Or.inr (Or.inl h2)
          · by_cases h3 : c = ch 't'
            · exact Or.inr (Or.inr h3)
            · exact absurd ⟨h1, h2, h3⟩ hc
      rcases hc' with rfl | rfl | rfl
      · have e : stepValue p b ret =
            stepNULL { pushState { p with currentState := ret } .nullState with required := 3 } tl := by
          unfold stepValue; rw [htr]
          have h1 : (ch 'n' == ch '{') = false := by decide
          have h2 : (ch 'n' == ch '[') = false := by decide
          simp only [h1, h2, Bool.false_eq_true, if_false, beq_self_eq_true, if_true]
        rw [e] at he ⊢
        exact stepLit_litpos _ tl _ _ _ (by rw [kind_null]; simp) (hst' _ _ rfl rfl) he
      · have e : stepValue p b ret =
            stepFALSE { pushState { p with currentState := ret } .falseState with required := 4 } tl := by
          unfold stepValue; rw [htr]
          have h1 : (ch 'f' == ch '{') = false := by decide
          have h2 : (ch 'f' == ch '[') = false := by decide
          have h3 : (ch 'f' == ch 'n') = false := by decide
          simp only [h1, h2, h3, Bool.false_eq_true, if_false, beq_self_eq_true, if_true]
        rw [e] at he ⊢
        exact stepLit_litpos _ tl _ _ _ (by rw [kind_false]; simp) (hst' _ _ rfl rfl) he
      · have e : stepValue p b ret =
            stepTRUE { pushState { p with currentState := ret } .trueState with required := 3 } tl := by
          unfold stepValue; rw [htr]
          have h1 : (ch 't' == ch '{') = false := by decide
          have h2 : (ch 't' == ch '[') = false := by decide
          have h3 : (ch 't' == ch 'n') = false := by decide
          have h4 : (ch 't' == ch 'f') = false := by decide
          simp only [h1, h2, h3, h4, Bool.false_eq_true, if_false, beq_self_eq_true, if_true]
        rw [e] at he ⊢
        exact stepLit_litpos _ tl _ _ _ (by rw [kind_true]; simp) (hst' _ _ rfl rfl) he

/-- after ANY step without error: inside a literal, at least one more byte is required -/
theorem exec_litpos (p : P) (b : Bytes) (hb : b ≠ []) (h : ParseP.WF p) (he : (execStep p b).1.err = none) :
    LitPos (execStep p b).1.p := by
  have hst := h.inv.stack
  unfold execStep at he ⊢
  cases hcs : p.currentState with
  | failedState => exact absurd hcs h.not_failed
  | startState =>
    simp only [hcs, stepStart] at he ⊢
    exact stepValue_litpos p b _ h.inv rfl (by rw [hcs]; rfl) he
  | dictState => simp only [hcs]; exact litpos_of_notLit (stepDict_notLit p b _ hst (by rw [hcs]; rfl))
  | dictNextFieldState =>
    simp only [hcs]; exact litpos_of_notLit (stepDict_notLit p b _ hst (by rw [hcs]; rfl))
  | dictFieldState => simp only [hcs]; exact litpos_of_notLit (stepDictKey_notLit p b hb (by rw [hcs]; rfl))
  | dictFieldValueSep =>
    simp only [hcs]
    split
    · exact litpos_of_notLit (by rw [hcs]; rfl)
    · exact litpos_of_notLit rfl
  | dictFieldValue =>
    simp only [hcs] at he ⊢
    exact stepValue_litpos p b _ h.inv rfl (by rw [hcs]; rfl) he
  | dictFieldStateEnd =>
    simp only [hcs]; exact litpos_of_notLit (stepDictValueEnd_notLit p b hst (by rw [hcs]; rfl))
  | arrState => simp only [hcs]; exact litpos_of_notLit (stepArray_notLit p b _ hst (by rw [hcs]; rfl))
  | arrStateValue =>
    simp only [hcs] at he ⊢
    exact stepValue_litpos p b _ h.inv rfl (by rw [hcs]; rfl) he
  | arrStateNext =>
    simp only [hcs]; exact litpos_of_notLit (stepArrValueEnd_notLit p b hst (by rw [hcs]; rfl))
  | nullState =>
    simp only [hcs] at he ⊢
    exact stepLit_litpos p b _ _ _
      (by rw [kind_null]; have := h.inv.lit (by rw [hcs]; rfl); rw [hcs] at this; exact this) hst he
  | trueState =>
    simp only [hcs] at he ⊢
    exact stepLit_litpos p b _ _ _
      (by rw [kind_true]; have := h.inv.lit (by rw [hcs]; rfl); rw [hcs] at this; exact this) hst he
  | falseState =>
    simp only [hcs] at he ⊢
    exact stepLit_litpos p b _ _ _
      (by rw [kind_false]; have := h.inv.lit (by rw [hcs]; rfl); rw [hcs] at this; exact this) hst he
  | stringState =>
    simp only [hcs]; exact litpos_of_notLit (stepString_notLit p b hb hst (by rw [hcs]; rfl))
  | numberState =>
    simp only [hcs]
    refine litpos_of_notLit (stepNumber_notLit p b hst (by rw [hcs]; rfl) ?_)
    intro hc
    exact h.inv.num hcs (List.append_eq_nil_iff.mp hc).1

/-- … hence after the loop, if it ends without error -/
theorem U_litpos (p : P) (b : Bytes) (h : ParseP.WF p) (hl : LitPos p) (he : (U p b).err = none) :
    LitPos (U p b).p := by
  revert hl he
  refine U_induct (motive := fun p b => LitPos p → (U p b).err = none → LitPos (U p b).p) ?_ ?_ p b h
  · intro p _ hl _
    rw [U_nil]; exact hl
  · intro p b hw hb ih hl he
    cases hs : (execStep p b).1.err with
    | some e => rw [U_err p b hb hw e hs, hs] at he; cases he
    | none =>
      have hl1 := exec_litpos p b hb hw hs
      cases hf : flag (execStep p b).1 with
      | true => rw [U_flag p b hb hw hs hf]; exact hl1
      | false =>
        rw [U_cont p b hb hw hs hf] at he ⊢
        exact ih hs hf hl1 he

/-! ## steps that report a value from a state that may be left without consuming -/

theorem stepDict_rep (p : P) (b : Bytes) (ae : Bool) (hr : (stepDict p b ae).reported = true) :
    (stepDict p b ae).rest.length < b.length := by
  have htl := trimLeft_length_le b
  unfold stepDict at hr ⊢
  split
  · rename_i h; simp only [h] at hr; cases hr
  · rename_i c tl htr
    rw [htr] at htl hr
    simp only at hr ⊢
    split
    · rename_i h1
      rw [if_pos h1] at hr
      split
      · rename_i h2; rw [if_pos h2] at hr; cases hr
      · simp only [endDict, List.drop_succ_cons, List.drop_zero]
        simp only [List.length_cons] at htl; omega
    · rename_i h1
      rw [if_neg h1] at hr
      split
      · rename_i h2; rw [if_pos h2] at hr; cases hr
      · rename_i h2; rw [if_neg h2] at hr; cases hr

theorem stepArray_rep (p : P) (b : Bytes) (ae : Bool) (hr : (stepArray p b ae).reported = true) :
    (stepArray p b ae).rest.length < b.length := by
  have htl := trimLeft_length_le b
  unfold stepArray at hr ⊢
  split
  · rename_i h; simp only [h] at hr; cases hr
  · rename_i c tl htr
    rw [htr] at htl hr
    simp only at hr ⊢
    split
    · rename_i h1
      rw [if_pos h1] at hr
      split
      · rename_i h2; rw [if_pos h2] at hr; cases hr
      · simp only [endArray, List.drop_succ_cons, List.drop_zero]
        simp only [List.length_cons] at htl; omega
    · rename_i h1
      rw [if_neg h1] at hr; cases hr

theorem stepLit_rep (p : P) (b : Bytes) (kind : String) (err : Err) (ev : Ev)
    (hn : p.required ≤ (strBytes kind).length) (hb : b ≠ []) (hpos : 1 ≤ p.required)
    (hr : (stepLit p b kind err ev).reported = true) : (stepLit p b kind err ev).rest.length < b.length := by
  have hlen : 0 < b.length := List.length_pos_iff.mpr hb
  by_cases hs : b.length < p.required
  · rw [stepLit_short p b kind err ev hn hs] at hr
    split at hr <;> cases hr
  · rw [stepLit_full p b kind err ev hn (by omega)] at hr ⊢
    split
    · simp only [List.length_drop]; omega
    · rename_i h; rw [if_neg h] at hr; cases hr

/-- a step from a reachable state, without error, that reports a value, leaves the stack empty
and consumes nothing: it started inside a number, directly at top level -/
theorem rep_no_consume (p : P) (b : Bytes) (hb : b ≠ []) (h : ParseP.WF p) (hl : LitPos p)
    (he : (execStep p b).1.err = none) (hr : (execStep p b).1.reported = true)
    (hs : (execStep p b).1.p.states = []) (hlen : (execStep p b).1.rest.length = b.length) :
    p.currentState = .numberState ∧ p.states.length ≤ 1 := by
  have hc := (execStep_ok p b hb h.inv h.not_failed).2.2.2.2 he
  have hw1 : weight p.currentState = 1 := by
    have := weight_le_one p.currentState
    simp only [cost, hlen] at hc; omega
  unfold execStep at he hr hs hlen
  cases hcs : p.currentState with
  | failedState => exact absurd hcs h.not_failed
  | startState => rw [hcs] at hw1; cases hw1
  | dictFieldState => rw [hcs] at hw1; cases hw1
  | dictFieldValueSep => rw [hcs] at hw1; cases hw1
  | dictFieldValue => rw [hcs] at hw1; cases hw1
  | dictFieldStateEnd => rw [hcs] at hw1; cases hw1
  | arrStateValue => rw [hcs] at hw1; cases hw1
  | arrStateNext => rw [hcs] at hw1; cases hw1
  | stringState => rw [hcs] at hw1; cases hw1
  | dictState =>
    simp only [hcs] at hr hlen
    have := stepDict_rep p b true hr; omega
  | dictNextFieldState =>
    simp only [hcs] at hr hlen
    have := stepDict_rep p b false hr; omega
  | arrState =>
    simp only [hcs] at hr hlen
    have := stepArray_rep p b true hr; omega
  | nullState =>
    simp only [hcs] at hr hlen
    have hlen' : (stepLit p b "null" .expectedNull .null).rest.length = b.length := hlen
    have := stepLit_rep p b "null" .expectedNull .null
      (by rw [kind_null]; have := h.inv.lit (by rw [hcs]; rfl); rw [hcs] at this; exact this) hb
      (hl (by rw [hcs]; rfl)) hr
    omega
  | trueState =>
    simp only [hcs] at hr hlen
    have hlen' : (stepLit p b "true" .expectedTrue (.bool true)).rest.length = b.length := hlen
    have := stepLit_rep p b "true" .expectedTrue (.bool true)
      (by rw [kind_true]; have := h.inv.lit (by rw [hcs]; rfl); rw [hcs] at this; exact this) hb
      (hl (by rw [hcs]; rfl)) hr
    omega
  | falseState =>
    simp only [hcs] at hr hlen
    have hlen' : (stepLit p b "false" .expectedFalse (.bool false)).rest.length = b.length := hlen
    have := stepLit_rep p b "false" .expectedFalse (.bool false)
      (by rw [kind_false]; have := h.inv.lit (by rw [hcs]; rfl); rw [hcs] at this; exact this) hb
      (hl (by rw [hcs]; rfl)) hr
    omega
  | numberState =>
    refine ⟨rfl, ?_⟩
    simp only [hcs] at he hr hs
    rcases stepNumber_eff p b he with ⟨a1, _⟩ | ⟨_, _, a3⟩
    · rw [hr] at a1; cases a1
    · rw [hs] at a3
      cases hst : p.states with
      | nil => simp
      | cons x xs =>
        rw [hst] at a3
        simp only [List.tail_cons] at a3
        rw [← a3]; simp

/-! ## no value is reported inside the text of a value -/

theorem prefix_len_lt {α : Type} {z w : List α} (h : z <+: w) (hne : z ≠ w) : z.length < w.length := by
  obtain ⟨t, rfl⟩ := h
  cases t with
  | nil => exact absurd (List.append_nil z).symm hne
  | cons x xs => simp

/-- the state after the loop has read (without error, without reporting) the first `k` bytes of
`ws ++ z`, `z` a proper prefix of the text of `v`: idle and of weight 0 (inside the white
space), or deeper than idle -/
theorem U_take_state (v : J) (hok : v.ok = true) (ws z : Bytes) (hws : allWs ws = true) (hz : z <+: v.wire)
    (hne2 : z ≠ v.wire) (p : P) (hp : IdleN p) (k : Nat) (hk : k ≤ (ws ++ z).length)
    (he : (U p ((ws ++ z).take k)).err = none) (hrest : (U p ((ws ++ z).take k)).rest = []) :
    ((U p ((ws ++ z).take k)).reported = false ∧ weight (U p ((ws ++ z).take k)).p.currentState = 0) ∨
    DeepJ v [] (U p ((ws ++ z).take k)).p := by
  have hrun := U_run p ((ws ++ z).take k) hp.1.wf
  rw [he, hrest, runA_nil] at hrun
  simp only [Option.isSome_none, Bool.false_eq_true, if_false] at hrun
  by_cases hkw : k ≤ ws.length
  · left
    have e : (ws ++ z).take k = ws.take k := by
      rw [List.take_append_of_le_length hkw]
    rw [e]
    have hws' : allWs (ws.take k) = true := allWs_prefix (List.take_prefix k ws) hws
    rw [U_ws p (ws.take k) hp.1.wf (by rw [hp.1.cs]; rfl) hws']
    exact ⟨rfl, by simp only [hp.1.cs]; rfl⟩
  · right
    have hkw' : ws.length < k := by omega
    have e : (ws ++ z).take k = ws ++ z.take (k - ws.length) := by
      rw [List.take_append]
      rw [List.take_of_length_le (by omega)]
    rw [e] at hrun ⊢
    rw [runA_skip p ws _ hp.1.wf.inv (by rw [hp.1.cs]; rfl) hws] at hrun
    have hz0 : z.take (k - ws.length) <+: v.wire := List.IsPrefix.trans (List.take_prefix _ z) hz
    have hlz := prefix_len_lt hz hne2
    have hne0 : z.take (k - ws.length) ≠ [] := by
      intro hc
      have := congrArg List.length hc
      simp only [List.length_take, List.length_nil, List.length_append] at this hk
      omega
    have hne1 : z.take (k - ws.length) ≠ v.wire := by
      intro hc
      have := congrArg List.length hc
      simp only [List.length_take] at this
      omega
    rcases (jclaim v hok p .startState [] hp.ready.1).2 _ hz0 hne0 (Or.inl hne1) with hc | hc
    · rw [hrun] at hc; exact absurd rfl hc
    · rw [hrun] at hc; exact hc

/-- THE LOOP DOES NOT REPORT A VALUE INSIDE THE TEXT OF A VALUE: from an idle state, over white
space and a proper prefix `z` of the text of a grammatical value `v` that is not a bare number
(its tokens need not denote), the loop does not end — without error — with a reported value -/
theorem U_not_reported (v : J) (hok : v.ok = true) (hnn : v.isNum = false) (ws z : Bytes)
    (hws : allWs ws = true) (hz : z <+: v.wire) (hne2 : z ≠ v.wire) (p : P) (hp : IdleN p)
    (he : (U p (ws ++ z)).err = none) : (U p (ws ++ z)).reported = false := by
  cases hr : (U p (ws ++ z)).reported with
  | false => rfl
  | true =>
    exfalso
    have hwf := hp.1.wf
    -- the rest is not longer than the input
    have hcost := ((feedUntil_spec (fuelFor (ws ++ z)) p (ws ++ z) hwf.inv).2.2.2 he).2.1
    have hle : (U p (ws ++ z)).rest.length ≤ (ws ++ z).length := by
      have hw0 : weight p.currentState = 0 := by rw [hp.1.cs]; rfl
      show (feedUntil (fuelFor (ws ++ z)) p (ws ++ z)).rest.length ≤ _
      simp only [cost, hw0] at hcost; omega
    -- split the input where the loop stopped
    generalize hk : (ws ++ z).length - (U p (ws ++ z)).rest.length = k
    have hkle : k ≤ (ws ++ z).length := by omega
    have hsp := U_split ((ws ++ z).take k) ((ws ++ z).drop k) p hwf
    rw [List.take_append_drop] at hsp
    have hdl : ((ws ++ z).drop k).length = (U p (ws ++ z)).rest.length := by
      rw [List.length_drop]; omega
    cases hec : (U p ((ws ++ z).take k)).err with
    | some e =>
      rw [useq_err hec] at hsp
      rw [hsp.1, hec] at he; cases he
    | none =>
      have hwr := U_wf p ((ws ++ z).take k) hwf
      cases hrc : (U p ((ws ++ z).take k)).reported with
      | true =>
        -- a value is complete exactly at a prefix of the text: but there the parser is deeper
        rw [useq_rep hec hrc] at hsp
        have h1 := (hsp.2.2.2 hec).1
        simp only at h1
        have hrest : (U p ((ws ++ z).take k)).rest = [] := by
          have := congrArg List.length h1
          simp only [List.length_append] at this
          exact List.eq_nil_of_length_eq_zero (by omega)
        have hst := (U_post p ((ws ++ z).take k) hwf hec).1 hrc
        rcases U_take_state v hok ws z hws hz hne2 p hp k hkle hec hrest with ⟨h2, _⟩ | ⟨h2, _⟩
        · rw [hrc] at h2; cases h2
        · rw [hst] at h2; simp at h2
      | false =>
        -- the loop goes on from the state reached and reports without consuming
        rw [useq_cont hec hrc] at hsp
        have hrest := (U_post p ((ws ++ z).take k) hwf hec).2 hrc
        have he2 : (U (U p ((ws ++ z).take k)).p ((ws ++ z).drop k)).err = none := by rw [← hsp.1]; exact he
        obtain ⟨t1, t2, _⟩ := hsp.2.2.2 he2
        rw [hr] at t2
        have hlen2 : (U (U p ((ws ++ z).take k)).p ((ws ++ z).drop k)).rest.length = ((ws ++ z).drop k).length := by
          rw [← t1, hdl]
        have hlp := U_litpos p ((ws ++ z).take k) hwf (litpos_of_notLit (by rw [hp.1.cs]; rfl)) hec
        have hstate := U_take_state v hok ws z hws hz hne2 p hp k hkle hec hrest
        generalize (U p ((ws ++ z).take k)).p = r0 at hwr hlp hstate he2 t2 hlen2
        generalize (ws ++ z).drop k = t' at he2 t2 hlen2
        have ht' : t' ≠ [] := by
          intro hc; subst hc; rw [U_nil] at t2; cases t2.symm
        -- the first step of the loop
        cases hs1 : (execStep r0 t').1.err with
        | some e => rw [U_err r0 t' ht' hwr e hs1, hs1] at he2; cases he2
        | none =>
          have hc1 := (execStep_ok r0 t' ht' hwr.inv hwr.not_failed).2.2.2.2 hs1
          cases hf : flag (execStep r0 t').1 with
          | false =>
            exfalso
            rw [U_cont r0 t' ht' hwr hs1 hf] at he2 t2 hlen2
            have hw1 := (execStep_wf r0 t' ht' hwr).2
            have hsp2 := (feedUntil_spec (fuelFor (execStep r0 t').1.rest) (execStep r0 t').1.p
              (execStep r0 t').1.rest hw1.inv).2.2.2 he2
            have hne3 : (execStep r0 t').1.rest ≠ [] := by
              intro hc; rw [hc, U_nil] at t2; cases t2.symm
            have h3 := hsp2.2.2 hne3
            have hwt := weight_le_one r0.currentState
            have : (U (execStep r0 t').1.p (execStep r0 t').1.rest).rest.length = t'.length := hlen2
            simp only [cost] at h3 hc1
            have h4 : (feedUntil (fuelFor (execStep r0 t').1.rest) (execStep r0 t').1.p
              (execStep r0 t').1.rest).rest.length = t'.length := hlen2
            omega
          | true =>
            rw [U_flag r0 t' ht' hwr hs1 hf] at hlen2
            simp only at hlen2
            simp only [flag, Bool.and_eq_true, List.isEmpty_iff] at hf
            obtain ⟨hcs, hsl⟩ := rep_no_consume r0 t' ht' hwr hlp hs1 hf.1 hf.2 hlen2
            rcases hstate with ⟨_, hw0⟩ | ⟨hd1, hd2⟩
            · rw [hcs] at hw0; cases hw0
            · rcases hd2 hcs with h5 | h5
              · rw [hnn] at h5; cases h5
              · simp only [List.length_nil] at h5; omega

/-- THE LOOP ON A STREAM THAT ENDS INSIDE A VALUE: after white space, a proper non-empty prefix
of the text of a grammatical value that is not a bare number (whether or not its tokens
denote): the loop fails, or it uses up the input without reporting a value and ends in a state
that `finalize` does not accept -/
theorem U_trunc (v : J) (hok : v.ok = true) (hnn : v.isNum = false) (ws z : Bytes)
    (hws : allWs ws = true) (hz : z <+: v.wire) (hne : z ≠ []) (hne2 : z ≠ v.wire) (p : P) (hp : IdleN p) :
    (U p (ws ++ z)).err ≠ none ∨
    ((U p (ws ++ z)).reported = false ∧ (Parse.finalize (U p (ws ++ z)).p).2 ≠ none) := by
  cases he : (U p (ws ++ z)).err with
  | some e => exact Or.inl (by simp)
  | none =>
    right
    have hr := U_not_reported v hok hnn ws z hws hz hne2 p hp he
    refine ⟨hr, ?_⟩
    have hwr := U_wf p (ws ++ z) hp.1.wf
    have hrun := U_run p (ws ++ z) hp.1.wf
    rw [he] at hrun
    simp only [Option.isSome_none, Bool.false_eq_true, if_false] at hrun
    have hrest := (U_post p (ws ++ z) hp.1.wf he).2 hr
    rw [hrest, runA_nil, runA_skip p ws z hp.1.wf.inv (by rw [hp.1.cs]; rfl) hws] at hrun
    have hcl := (jclaim v hok p .startState [] hp.ready.1).2 z hz hne (Or.inl hne2)
    rw [hrun] at hcl
    have := parseTail_deep v hnn ((U p (ws ++ z)).p, none) hwr hcl
    simpa [parseTail] using this

end SF.Json.DecP
