/-
  Property C12 on RECURSIVE types.  The universe: good types may mention menagerie members by
  reference (`ref n`, `n ∈ ns`) — which is how a named type refers to itself or to a type it is
  mutually recursive with — and named types (without methods, without registered fold function)
  only named types are those members themselves, written out as the menagerie declares them.
  What a reference stands for is fixed by the menagerie (`GoType.whnf`); the hypothesis
  `MenOK ns D` says that the members `ns` are declared there as good named types of depth ≤ `D`.
-/
import SF.Proofs.FoldUniv
import SF.Proofs.RecBeq
namespace SF.FoldRec
open SF SF.Gotype SF.Gotype.Fold SF.FoldProofs

mutual
/-- good types over the menagerie members `ns` -/
def goodR (ns : List String) : GoType → Bool
  | .bool | .string | .int _ | .float32 | .float64 | .iface | .other _ => true
  | .slice e | .array _ e | .ptr e | .chan e => goodR ns e
  | .map k e => goodR ns k && goodR ns e
  | .struct fs => goodRFs ns fs
  | .named n m u =>
    ns.contains n && decide (m = {}) &&
      (match menagerie.lookup n with
       | some t => beqT t (.named n m u)
       | none => false)
  | .ref n => ns.contains n
def goodRFs (ns : List String) : List Field → Bool
  | [] => true
  | f :: fs => goodRF ns f && goodRFs ns fs
def goodRF (ns : List String) : Field → Bool
  | .mk n t tag a => goodR ns t && !inlineIfaceF (.mk n t tag a)
end

/-- the body of a menagerie member (`none`: not a named type there) -/
def body? (n : String) : Option GoType :=
  match menagerie.lookup n with
  | some (.named _ _ u) => some u
  | _ => none

/-- the members `ns` are declared in the menagerie as good named types: no methods, no
registered fold function, an unnamed, non-pointer underlying type of depth < `D`, good over `ns` -/
structure MenOK (ns : List String) (D : Nat) : Prop where
  decl : ∀ n ∈ ns, ∃ u, menagerie.lookup n = some (.named n {} u) ∧ unnamedHead u = true ∧
    (∀ e, u ≠ .ptr e) ∧ goodR ns u = true ∧ tdepth u + 1 ≤ D ∧ userFoldTypes.contains n = false
  /-- the rules accept every declaration locally (`seen = ns`: references are not followed) -/
  locally : ∀ n ∈ ns, ∀ u, menagerie.lookup n = some (.named n {} u) →
    ∀ reg, ∃ k, Rules.typeOkF k reg ns u = .ok ()

mutual
/-- `v` is a value of the good type `T` (cf. `FoldProofs.wt`); dynamic types are good over `ns`
and of depth ≤ `D` -/
def wtR (ns : List String) (D : Nat) : GoType → GoVal → Bool
  | T, v =>
    match T.under, v with
    | .bool, .bool _ => true
    | .string, .str _ => true
    | .int _, .int _ => true
    | .float32, .f32 _ => true
    | .float64, .f64 _ => true
    | .slice _, .nilSlice => true
    | .slice e, .slice xs => wtRL ns D e xs
    | .array _ e, .array xs => wtRL ns D e xs
    | .map _ _, .nilMap => true
    | .map k e, .map ms => wtRP ns D k e ms && decide (mapKeys ms).Nodup
    | .ptr _, .nilPtr => true
    | .ptr e, .ptr x => wtR ns D e x
    | .iface, .nilIface => true
    | .iface, .iface dt dv => goodR ns dt && decide (tdepth dt ≤ D) && wtR ns D dt dv
    | .struct fs, .struct vs => wtRF ns D fs vs
    | .chan _, _ => true
    | .other _, _ => true
    | _, _ => false
def wtRL (ns : List String) (D : Nat) : GoType → List GoVal → Bool
  | _, [] => true
  | e, x :: xs => wtR ns D e x && wtRL ns D e xs
def wtRP (ns : List String) (D : Nat) : GoType → GoType → List (GoVal × GoVal) → Bool
  | _, _, [] => true
  | k, e, (kv, x) :: ms => wtR ns D k kv && wtR ns D e x && wtRP ns D k e ms
def wtRF (ns : List String) (D : Nat) : List Field → List GoVal → Bool
  | [], [] => true
  | f :: fs, v :: vs =>
    wtR ns D f.typ v && (!lazyField f || decide (vdepth v ≤ lazyBound)) && wtRF ns D fs vs
  | _, _ => false
end

/-! ## head facts -/

section
variable {ns : List String} {D : Nat} (hM : MenOK ns D)
include hM

/-- a named type of the universe is the menagerie's declaration of a member -/
theorem canonR {n : String} {m : Methods} {u : GoType} (h : goodR ns (.named n m u) = true) :
    m = {} ∧ menagerie.lookup n = some (.named n {} u) ∧ unnamedHead u = true ∧ (∀ e, u ≠ .ptr e) ∧
      goodR ns u = true ∧ tdepth u + 1 ≤ D ∧ userFoldTypes.contains n = false := by
  simp only [goodR, Bool.and_eq_true, decide_eq_true_eq] at h
  obtain ⟨⟨hn, hm⟩, hb⟩ := h
  subst hm
  have hn' : n ∈ ns := by simpa using hn
  obtain ⟨u', h1, h2, h3, h4, h5, h6⟩ := hM.decl n hn'
  rw [h1] at hb
  have := beqT_eq _ _ hb
  cases this
  exact ⟨rfl, h1, h2, h3, h4, h5, h6⟩

/-- what a good type stands for: itself (unnamed), or the menagerie's declaration of a member -/
theorem whnfR {T : GoType} (h : goodR ns T = true) :
    (T.whnf = T ∧ unnamedHead T = true) ∨
    (∃ n u, (T = .ref n ∨ T = .named n {} u) ∧ T.whnf = .named n {} u ∧ unnamedHead u = true ∧
      (∀ e, u ≠ .ptr e) ∧ goodR ns u = true ∧ tdepth u + 1 ≤ D ∧ userFoldTypes.contains n = false) := by
  cases T <;> try (exact Or.inl ⟨rfl, rfl⟩)
  · rename_i n m u
    obtain ⟨rfl, _, h2, h3, h4, h5, h6⟩ := canonR hM h
    exact Or.inr ⟨n, u, Or.inr rfl, rfl, h2, h3, h4, h5, h6⟩
  · rename_i n
    have hn : n ∈ ns := by simpa [goodR] using h
    obtain ⟨u, h1, h2, h3, h4, h5, h6⟩ := hM.decl n hn
    exact Or.inr ⟨n, u, Or.inl rfl, by simp [GoType.whnf, h1], h2, h3, h4, h5, h6⟩

theorem good_whnf {T : GoType} (h : goodR ns T = true) : goodR ns T.whnf = true := by
  cases T <;> try exact h
  rename_i n
  have hn : n ∈ ns := by simpa [goodR] using h
  obtain ⟨u, h1, _⟩ := hM.decl n hn
  simp [GoType.whnf, h1, goodR, hn, beqT_refl]

theorem whnf_whnf {T : GoType} (h : goodR ns T = true) : T.whnf.whnf = T.whnf := by
  rcases whnfR hM h with ⟨h1, _⟩ | ⟨n, u, _, h2, _⟩
  · rw [h1, h1]
  · rw [h2]; rfl

theorem under_whnf {T : GoType} (h : goodR ns T = true) : T.whnf.under = T.under := by
  rcases whnfR hM h with ⟨h1, _⟩ | ⟨n, u, hT, h2, _⟩
  · rw [h1]
  · rcases hT with rfl | rfl
    · rw [h2]
      simp only [GoType.whnf] at h2
      simp only [GoType.under]
      cases hl : menagerie.lookup n with
      | none => simp [hl] at h2
      | some t => simp only [hl, Option.getD_some] at h2; subst h2; rfl
    · rfl

/-- the underlying type is good and unnamed -/
theorem good_underR {T : GoType} (h : goodR ns T = true) :
    goodR ns T.under = true ∧ unnamedHead T.under = true := by
  rcases whnfR hM h with ⟨h1, hu⟩ | ⟨n, u, _, h2, h3, _, h5, _⟩
  · rw [under_unnamed hu]; exact ⟨h, hu⟩
  · rw [← under_whnf hM h, h2]
    exact ⟨h5, h3⟩

theorem under_underR {T : GoType} (h : goodR ns T = true) : T.under.under = T.under :=
  under_unnamed (good_underR hM h).2

theorem tdepth_underR {T : GoType} (h : goodR ns T = true) : tdepth T.under ≤ max (tdepth T) D := by
  rcases whnfR hM h with ⟨h1, hu⟩ | ⟨n, u, _, h2, _, _, _, h6, _⟩
  · rw [under_unnamed hu]; omega
  · rw [← under_whnf hM h, h2]
    simp only [GoType.under]
    omega

/-- no method, no registered fold function: at the head and below one pointer -/
theorem plainHeadR {T : GoType} (h : goodR ns T = true) :
    (∀ n m u, T.whnf = .named n m u → m = {} ∧ userFoldTypes.contains n = false) := by
  intro n m u hw
  rcases whnfR hM h with ⟨h1, hu⟩ | ⟨n', u', _, h2, _, _, _, _, h7⟩
  · rw [h1] at hw; subst hw; simp [unnamedHead] at hu
  · rw [h2] at hw; cases hw; exact ⟨rfl, h7⟩

theorem userReg_goodR (o : FoldOpts) {T : GoType} (h : goodR ns T = true) : userReg o T = none := by
  unfold userReg
  split
  · rfl
  · cases hw : T.whnf with
    | named n m u =>
      obtain ⟨_, h7⟩ := plainHeadR hM h n m u hw
      simp only [h7, Bool.false_eq_true, if_false]
    | ptr e =>
      have hT : T = .ptr e := by
        rcases whnfR hM h with ⟨h1, _⟩ | ⟨n', u', _, h2, _⟩
        · rw [h1] at hw; exact hw
        · rw [h2] at hw; cases hw
      subst hT
      have he : goodR ns e = true := by simpa [goodR] using h
      simp only []
      cases hwe : e.whnf with
      | named n m u =>
        obtain ⟨_, h7⟩ := plainHeadR hM he n m u hwe
        simp only [h7, Bool.false_eq_true, if_false]
      | _ => rfl
    | _ => rfl

theorem implementsFolder_goodR {T : GoType} (h : goodR ns T = true) : implementsFolder T = false := by
  unfold implementsFolder
  cases hw : T.whnf with
  | named n m u =>
    obtain ⟨rfl, _⟩ := plainHeadR hM h n m u hw
    rfl
  | ptr e =>
    have hT : T = .ptr e := by
      rcases whnfR hM h with ⟨h1, _⟩ | ⟨n', u', _, h2, _⟩
      · rw [h1] at hw; exact hw
      · rw [h2] at hw; cases hw
    subst hT
    have he : goodR ns e = true := by simpa [goodR] using h
    simp only []
    cases hwe : e.whnf with
    | named n m u =>
      obtain ⟨rfl, _⟩ := plainHeadR hM he n m u hwe
      rfl
    | _ => rfl
  | _ => rfl

theorem implementsPtrFolder_goodR {T : GoType} (h : goodR ns T = true) : implementsPtrFolder T = false :=
  implementsFolder_goodR hM (T := .ptr T) (by simpa [goodR] using h)

theorem implementsIsZeroer_goodR {T : GoType} (h : goodR ns T = true) : implementsIsZeroer T = false := by
  unfold implementsIsZeroer
  cases hw : T.whnf with
  | named n m u =>
    obtain ⟨rfl, _⟩ := plainHeadR hM h n m u hw
    rfl
  | ptr e =>
    have hT : T = .ptr e := by
      rcases whnfR hM h with ⟨h1, _⟩ | ⟨n', u', _, h2, _⟩
      · rw [h1] at hw; exact hw
      · rw [h2] at hw; cases hw
    subst hT
    have he : goodR ns e = true := by simpa [goodR] using h
    simp only []
    cases hwe : e.whnf with
    | named n m u =>
      obtain ⟨rfl, _⟩ := plainHeadR hM he n m u hwe
      rfl
    | _ => rfl
  | _ => rfl

theorem implementsPtrIsZeroer_goodR {T : GoType} (h : goodR ns T = true) : implementsPtrIsZeroer T = false :=
  implementsIsZeroer_goodR hM (T := .ptr T) (by simpa [goodR] using h)

theorem customOf_goodR (reg : Bool) {T : GoType} (h : goodR ns T = true) : Rules.customOf reg T = none := by
  unfold Rules.customOf
  cases hw : T.whnf with
  | named n m u =>
    obtain ⟨rfl, h7⟩ := plainHeadR hM h n m u hw
    have : ¬ n ∈ userFoldTypes := by simpa using h7
    simp [this]
  | _ => rfl

theorem hasIsZero_goodR {T : GoType} (h : goodR ns T = true) : Rules.hasIsZero T = none := by
  unfold Rules.hasIsZero
  cases hw : T.whnf with
  | named n m u =>
    obtain ⟨rfl, _⟩ := plainHeadR hM h n m u hw
    rfl
  | _ => rfl

end

end SF.FoldRec
