/-
  Targets with structs, part 3: from the well-formedness of the frame list to the relation `Rel` between the
  live pointers below a frame and the frame's own pointer; re-establishing the invariant after the top
  frame has stored through its pointer / been replaced / been popped.
-/
import SF.Proofs.UnfStrFrames
namespace SF.Unf.Str
open SF SF.Unf

variable {tbl : TypeTable} {R : Reg} {D : Nat}

theorem Rel.of_ne {lo up : LP} (h : lo.1.root ≠ up.1.root) : Rel tbl lo up := Or.inl h

/-- the same pointer with the same type, the lower owner relying on nothing but the type -/
theorem Rel.same (p : Path) (t : GoType) (rf : Rf) : Rel tbl (p, t, .none) (p, t, rf) :=
  Or.inr ⟨rfl, [], by simp, TyAt.nil _, fun _ => rfl⟩

/-- from a value to something inside it -/
theorem Rel.extend {y : LP} {P : Path} {tP t : GoType} {rf rf' : Rf} {r : List Step} (h : Rel tbl y (P, tP, rf))
    (hat : TyAt tbl tP r t) (hr : r ≠ []) : Rel tbl y (⟨P.root, P.steps ++ r⟩, t, rf') := by
  rcases h with hne | ⟨heq, r0, hst, hat0, _⟩
  · exact Or.inl hne
  · have hst' : P.steps = y.1.steps ++ r0 := hst
    refine Or.inr ⟨heq, r0 ++ r, by simp [hst'], hat0.append hat, ?_⟩
    intro h
    exact absurd (List.append_eq_nil_iff.mp h).2 hr

theorem Rel.weaken_up {y : LP} {p : Path} {t : GoType} {rf rf' : Rf} (h : Rel tbl y (p, t, rf)) :
    Rel tbl y (p, t, rf') := h

/-! ### inversion of `RUOk` -/

theorem RUOk.slice_inv {t e : GoType} {ru : RU} (h : RUOk tbl R D t (.slice e ru)) :
    t.un tbl = .slice e ∧ ZeroOK tbl e ∧ Pch tbl e D ∧ RUOk tbl R D e ru := by
  cases h with
  | slice _ _ _ h1 h2 h3 h4 => exact ⟨h1, h2, h3, h4⟩

theorem RUOk.map_inv {t e : GoType} {ru : RU} (h : RUOk tbl R D t (.map e ru)) :
    t.un tbl = .map e ∧ ZeroOK tbl e ∧ Pch tbl e D ∧ RUOk tbl R D e ru := by
  cases h with
  | rmap _ _ _ h1 h2 h3 h4 => exact ⟨h1, h2, h3, h4⟩

theorem RUOk.ptr_inv {t e : GoType} {ru : RU} (h : RUOk tbl R D t (.ptr e ru)) :
    t.un tbl = .ptr e ∧ ZeroOK tbl e ∧ Pch tbl e D ∧ RUOk tbl R D e ru := by
  cases h with
  | ptr _ _ _ h1 h2 h3 h4 => exact ⟨h1, h2, h3, h4⟩

theorem RUOk.struct_inv {t : GoType} {fields : Fields} (h : RUOk tbl R D t (.struct fields)) :
    ∀ (key : Bytes) (off : List Nat) (ru : RU), (key, off, ru) ∈ fields →
      off ≠ [] ∧ ∃ tf, TyAt tbl t (off.map Step.field) tf ∧ RUOk tbl R D tf ru := by
  cases h with
  | struct _ _ ft h1 h2 =>
    intro key off ru hm
    exact ⟨(h1 key off ru hm).1, ft off, (h1 key off ru hm).2, h2 key off ru hm⟩

theorem map_field_ne_nil {off : List Nat} (h : off ≠ []) : off.map Step.field ≠ [] := by
  cases off with
  | nil => exact absurd rfl h
  | cons a r => simp

theorem attach_rel : ∀ (fs : List Frame) (p : Path) (t : GoType) (a : Option Bool) (rf : Rf),
    WFS tbl R D fs → Attach tbl p t a fs → ∀ y ∈ liveOf fs, Rel tbl y (p, t, rf) := by
  intro fs
  induction fs with
  | nil => intro p t a rf _ _ y hy; cases hy
  | cons G fs ih =>
    intro p t a rf hw ha y hy
    obtain ⟨hb, hw'⟩ := hw
    simp only [liveOf, List.map_cons, List.mem_cons] at hy
    cases G with
    | cellx e cell =>
      simp only [Attach] at ha
      obtain ⟨rfl, rfl⟩ := ha
      rcases hy with rfl | hy
      · exact Rel.same _ _ _
      · exact Or.inl (hb.2.1 y hy)
    | sub isArr bt slot k =>
      simp only [Attach] at ha
      obtain ⟨_, rfl, rfl⟩ := ha
      rcases hy with rfl | hy
      · exact Rel.same _ _ _
      · exact Or.inl (hb.2.2.1 y hy)
    | rsl e ru tP P i =>
      simp only [Attach] at ha
      obtain ⟨⟨j, rfl⟩, rfl⟩ := ha
      have hat : TyAt tbl tP [.index j] t := .index _ _ j [] _ hb.2.1.slice_inv.1 (.nil _)
      rcases hy with rfl | hy
      · exact Or.inr ⟨rfl, [.index j], rfl, hat, fun h => by cases h⟩
      · exact Rel.extend (rf := .none) (ih P tP none .none hw' hb.1 y hy) hat (by simp)
    | st fields tS P =>
      simp only [Attach] at ha
      obtain ⟨off, hoff, rfl, hat⟩ := ha
      rcases hy with rfl | hy
      · exact Or.inr ⟨rfl, off.map Step.field, rfl, hat, fun h => absurd h (map_field_ne_nil hoff)⟩
      · exact Rel.extend (rf := .none) (ih P tS none .none hw' hb.1 y hy) hat (map_field_ne_nil hoff)
    | prim k t' p' => exact ha.elim
    | arrS k t' p' => exact ha.elim
    | arr k t' p' i => exact ha.elim
    | mapS k t' p' => exact ha.elim
    | mapK k t' p' => exact ha.elim
    | mapV k t' p' key => exact ha.elim
    | rslS e ru t' p' => exact ha.elim
    | rmS e ru t' p' => exact ha.elim
    | rmK e ru t' p' => exact ha.elim
    | rmE e ru t' p' key => exact ha.elim
    | rp e ru t' p' => exact ha.elim
    | stS fields t' p' => exact ha.elim
    | ign t' p' => exact ha.elim
    | ignA t' p' => exact ha.elim
    | ignO t' p' => exact ha.elim

/-- the frame an ignore state sits on has the same pointer and type -/
theorem IgnOn.live {t : GoType} {p : Path} {b : Bool} {G : Frame} {fs : List Frame} (h : IgnOn t p b (G :: fs)) :
    G.live = (p, t, .none) := by
  cases G <;> first | exact h.elim | (obtain ⟨_, rfl, rfl⟩ := h; rfl)

/-- every live pointer below a frame is related to the frame's pointer -/
theorem rel_of_wfs : ∀ (fs : List Frame) (F : Frame), WFS tbl R D (F :: fs) → ∀ y ∈ liveOf fs, Rel tbl y F.live := by
  intro fs
  induction fs with
  | nil => intro F _ y hy; cases hy
  | cons G fs' ih =>
    intro F hw
    obtain ⟨hb, hw'⟩ := hw
    have ign : ∀ (t : GoType) (p : Path) (b : Bool), IgnOn t p b (G :: fs') →
        ∀ y ∈ liveOf (G :: fs'), Rel tbl y (p, t, .none) := by
      intro t p b hon y hy
      simp only [liveOf, List.map_cons, List.mem_cons] at hy
      rcases hy with rfl | hy
      · rw [hon.live]; exact Rel.same _ _ _
      · have := ih G hw' y hy
        rw [hon.live] at this
        exact this
    cases F with
    | prim k t p => exact attach_rel _ p _ _ _ hw' hb.1
    | arrS k t p => exact attach_rel _ p _ _ _ hw' hb.1
    | arr k t p i => exact attach_rel _ p _ _ _ hw' hb.1
    | mapS k t p => exact attach_rel _ p _ _ _ hw' hb.1
    | mapK k t p => exact attach_rel _ p _ _ _ hw' hb.1
    | mapV k t p key => exact attach_rel _ p _ _ _ hw' hb.1
    | sub isArr bt slot k => exact fun y hy => Or.inl (hb.2.2.1 y hy)
    | rslS e ru t p => exact attach_rel _ p _ _ _ hw' hb.1
    | rsl e ru t p i => exact attach_rel _ p _ _ _ hw' hb.1
    | rmS e ru t p => exact attach_rel _ p _ _ _ hw' hb.1
    | rmK e ru t p => exact attach_rel _ p _ _ _ hw' hb.1
    | rmE e ru t p key => exact attach_rel _ p _ _ _ hw' hb.1
    | cellx e cell => exact fun y hy => Or.inl (hb.2.1 y hy)
    | rp e ru t p => exact attach_rel _ p _ _ _ hw' hb.1
    | stS fields t p => exact attach_rel _ p _ _ _ hw' hb.1
    | st fields t p => exact attach_rel _ p _ _ _ hw' hb.1
    | ign t p => exact ign t p _ hb
    | ignA t p => exact ign t p _ hb
    | ignO t p => exact ign t p _ hb

/-! ## the invariant depends on stacks, memory, type table and registry only -/

theorem mem_of_mem' {c c' : Ctx} (h : c'.mem' = c.mem') : c'.mem = c.mem ∧ c'.env = c.env ∧ c'.reg = c.reg := by
  simp only [Ctx.mem', Prod.mk.injEq] at h
  exact h

theorem MemOK.congr {c c' : Ctx} {l : List LP} (h : MemOK tbl c l) (hm : c'.mem = c.mem) : MemOK tbl c' l :=
  h.same_deref (fun x _ => deref_congr c c' hm x.1)

variable {base : S6} {fs : List Frame} {c c' : Ctx} {F F' : Frame}

theorem Inv.of_eq (h : Inv tbl R D base fs c) (hs : c'.s6 = c.s6) (hm : c'.mem' = c.mem') :
    Inv tbl R D base fs c' := by
  obtain ⟨hm, he, hr⟩ := mem_of_mem' hm
  have hvb : c'.valueBuffer = c.valueBuffer := by
    simp only [Ctx.mem, Prod.mk.injEq] at hm; exact hm.2.2
  exact ⟨hs.trans h.stacks, h.wfs, h.mem.congr hm, by rw [hvb]; exact h.nA, by rw [hvb]; exact h.nMA,
    by rw [hvb]; exact h.nMP, he.trans h.env, hr.trans h.reg, h.regOK⟩

theorem Inv.top_deref (h : Inv tbl R D base (F :: fs) c) :
    ∃ v, deref c F.live.1 = some v ∧ HasTy tbl F.live.2.1 v ∧ F.live.2.2.ok v :=
  h.mem F.live (by simp [liveOf])

theorem Inv.mem_rest (h : Inv tbl R D base (F :: fs) c) : MemOK tbl c (liveOf fs) := by
  have := h.mem
  simp only [liveOf, List.map_cons] at this
  exact this.cons

/-- the top frame is popped, nothing stored -/
theorem Inv.pop (h : Inv tbl R D base (F :: fs) c) (hs : c'.s6 = stacksOf base fs) (hm : c'.mem' = c.mem')
    (hA : cntA (F :: fs) = cntA fs) (hMA : cntMA (F :: fs) = cntMA fs) (hMP : cntMP (F :: fs) = cntMP fs) :
    Inv tbl R D base fs c' := by
  obtain ⟨hm, he, hr⟩ := mem_of_mem' hm
  have hvb : c'.valueBuffer = c.valueBuffer := by
    simp only [Ctx.mem, Prod.mk.injEq] at hm; exact hm.2.2
  exact ⟨hs, h.wfs.2, h.mem_rest.congr hm, by rw [hvb, h.nA, hA], by rw [hvb, h.nMA, hMA], by rw [hvb, h.nMP, hMP],
    he.trans h.env, hr.trans h.reg, h.regOK⟩

theorem storeAt_mem' (c0 : Ctx) (q : Path) (w : GoVal) :
    (storeAt c0 q w).env = c0.env ∧ (storeAt c0 q w).reg = c0.reg :=
  ⟨(storeAt_sameFrame c0 q w).env, (storeAt_sameFrame c0 q w).reg⟩

/-- the top frame stores `w` through its pointer (in a context `c0` with the memory of `c`) and is
popped -/
theorem Inv.pop_store (h : Inv tbl R D base (F :: fs) c) (c0 : Ctx) (h0 : c0.mem' = c.mem') (w : GoVal)
    (hw : HasTy tbl F.live.2.1 w)
    (hs : c'.s6 = stacksOf base fs) (hm : c'.mem' = (storeAt c0 F.live.1 w).mem')
    (hA : cntA (F :: fs) = cntA fs) (hMA : cntMA (F :: fs) = cntMA fs) (hMP : cntMP (F :: fs) = cntMP fs) :
    Inv tbl R D base fs c' := by
  obtain ⟨h0, he0, hr0⟩ := mem_of_mem' h0
  obtain ⟨hm, he, hr⟩ := mem_of_mem' hm
  obtain ⟨old, hd, _⟩ := h.top_deref
  rw [← deref_congr c c0 h0] at hd
  have hvb0 : c0.valueBuffer = c.valueBuffer := by
    simp only [Ctx.mem, Prod.mk.injEq] at h0; exact h0.2.2
  obtain ⟨s1, s2, s3⟩ := storeAt_vb_sizes c0 F.live.1 w c' hm
  rw [hvb0] at s1 s2 s3
  have hrel := rel_of_wfs fs F h.wfs
  have hmem : MemOK tbl (storeAt c0 F.live.1 w) (liveOf fs) :=
    memOK_store c0 F.live.1 F.live.2.1 F.live.2.2 (liveOf fs) w old hrel (h.mem_rest.congr h0) hd hw
  exact ⟨hs, h.wfs.2, hmem.congr hm, by rw [s1, h.nA, hA], by rw [s2, h.nMA, hMA], by rw [s3, h.nMP, hMP],
    by rw [he, (storeAt_mem' c0 _ w).1, he0]; exact h.env, by rw [hr, (storeAt_mem' c0 _ w).2, hr0]; exact h.reg,
    h.regOK⟩

/-- the top frame stores `w` through its pointer and is replaced by `F'` (same pointer, same type) -/
theorem Inv.replace_store (h : Inv tbl R D base (F :: fs) c) (c0 : Ctx) (h0 : c0.mem' = c.mem') (w : GoVal)
    (hw : HasTy tbl F.live.2.1 w)
    (hp : F'.live.1 = F.live.1) (ht : F'.live.2.1 = F.live.2.1) (hw' : F'.live.2.2.ok w) (hb : Born tbl R D F' fs)
    (hs : c'.s6 = stacksOf base (F' :: fs)) (hm : c'.mem' = (storeAt c0 F.live.1 w).mem')
    (hA : cntA (F' :: fs) = cntA (F :: fs)) (hMA : cntMA (F' :: fs) = cntMA (F :: fs))
    (hMP : cntMP (F' :: fs) = cntMP (F :: fs)) :
    Inv tbl R D base (F' :: fs) c' := by
  obtain ⟨h0, he0, hr0⟩ := mem_of_mem' h0
  obtain ⟨hm, he, hr⟩ := mem_of_mem' hm
  obtain ⟨old, hd, _⟩ := h.top_deref
  rw [← deref_congr c c0 h0] at hd
  have hvb0 : c0.valueBuffer = c.valueBuffer := by
    simp only [Ctx.mem, Prod.mk.injEq] at h0; exact h0.2.2
  obtain ⟨s1, s2, s3⟩ := storeAt_vb_sizes c0 F.live.1 w c' hm
  rw [hvb0] at s1 s2 s3
  have hrel := rel_of_wfs fs F h.wfs
  have hmem : MemOK tbl (storeAt c0 F.live.1 w) (liveOf fs) :=
    memOK_store c0 F.live.1 F.live.2.1 F.live.2.2 (liveOf fs) w old hrel (h.mem_rest.congr h0) hd hw
  refine ⟨hs, ⟨hb, h.wfs.2⟩, ?_, by rw [s1, h.nA, hA], by rw [s2, h.nMA, hMA], by rw [s3, h.nMP, hMP],
    by rw [he, (storeAt_mem' c0 _ w).1, he0]; exact h.env, by rw [hr, (storeAt_mem' c0 _ w).2, hr0]; exact h.reg,
    h.regOK⟩
  intro x hx
  simp only [liveOf, List.map_cons, List.mem_cons] at hx
  rcases hx with rfl | hx
  · refine ⟨w, ?_, by rw [ht]; exact hw, hw'⟩
    rw [deref_congr _ _ hm, hp]
    exact deref_storeAt_self c0 F.live.1 w old hd
  · exact (hmem.congr hm) x (by simpa [liveOf] using hx)

/-- the top frame is replaced by `F'` (same pointer, same type) relying on no more than is there, nothing
stored -/
theorem Inv.replace (h : Inv tbl R D base (F :: fs) c) (hp : F'.live.1 = F.live.1) (ht : F'.live.2.1 = F.live.2.1)
    (hl : ∀ v, deref c F.live.1 = some v → HasTy tbl F.live.2.1 v → F.live.2.2.ok v → F'.live.2.2.ok v)
    (hb : Born tbl R D F' fs)
    (hs : c'.s6 = stacksOf base (F' :: fs)) (hm : c'.mem' = c.mem')
    (hA : cntA (F' :: fs) = cntA (F :: fs)) (hMA : cntMA (F' :: fs) = cntMA (F :: fs))
    (hMP : cntMP (F' :: fs) = cntMP (F :: fs)) :
    Inv tbl R D base (F' :: fs) c' := by
  obtain ⟨hm, he, hr⟩ := mem_of_mem' hm
  have hvb : c'.valueBuffer = c.valueBuffer := by
    simp only [Ctx.mem, Prod.mk.injEq] at hm; exact hm.2.2
  obtain ⟨old, hd, hok, hrf⟩ := h.top_deref
  refine ⟨hs, ⟨hb, h.wfs.2⟩, ?_, by rw [hvb, h.nA, hA], by rw [hvb, h.nMA, hMA], by rw [hvb, h.nMP, hMP],
    he.trans h.env, hr.trans h.reg, h.regOK⟩
  intro x hx
  simp only [liveOf, List.map_cons, List.mem_cons] at hx
  rcases hx with rfl | hx
  · exact ⟨old, by rw [deref_congr _ _ hm, hp]; exact hd, by rw [ht]; exact hok, hl old hd hok hrf⟩
  · exact (h.mem_rest.congr hm) x (by simpa [liveOf] using hx)

/-- a frame without memory of its own is pushed (its live pointer is one that is live already) -/
theorem Inv.push_same (h : Inv tbl R D base fs c) (hb : Born tbl R D F fs) (hl : F.live ∈ liveOf fs)
    (hs : c'.s6 = stacksOf base (F :: fs)) (hm : c'.mem' = c.mem')
    (hA : cntA (F :: fs) = cntA fs) (hMA : cntMA (F :: fs) = cntMA fs) (hMP : cntMP (F :: fs) = cntMP fs) :
    Inv tbl R D base (F :: fs) c' := by
  obtain ⟨hm, he, hr⟩ := mem_of_mem' hm
  have hvb : c'.valueBuffer = c.valueBuffer := by
    simp only [Ctx.mem, Prod.mk.injEq] at hm; exact hm.2.2
  refine ⟨hs, ⟨hb, h.wfs⟩, ?_, by rw [hvb, h.nA, hA], by rw [hvb, h.nMA, hMA], by rw [hvb, h.nMP, hMP],
    he.trans h.env, hr.trans h.reg, h.regOK⟩
  intro x hx
  simp only [liveOf, List.map_cons, List.mem_cons] at hx
  rcases hx with rfl | hx
  · exact (h.mem.congr hm) _ hl
  · exact (h.mem.congr hm) x (by simpa [liveOf] using hx)

end SF.Unf.Str
