/-
  C03 helper lemmas (UBJSON): stepArrayCount, typed-container header.
-/
import SF.Proofs.UbjNoPanicStr
namespace SF.Ubjson.Parse
open SF SF.Ubjson
open StateType StateStep

/-! ### stepArrayCount -/

/-- the local `content` of stepArrayCount (`l` = the length on entry) -/
def acContent (l : Int) (b : Bytes) (p : P) : R :=
  if l == 0 then
    match visit p .arrEnd with
    | (p, some e) => { p := p, rest := b, done := true, err := some e }
    | (p, none) => let (p, d) := popLenState p; { p := p, rest := b, done := d }
  else
    match b with
    | [] => panicR p b
    | b0 :: bs =>
      if b0 == noopMarker then { p := p, rest := bs }
      else { stepValue (decLen p) b with done := false }

theorem stepArrayCount_eq (p : P) (b : Bytes) :
    stepArrayCount p b =
      if p.state.current.step == stStart then
        { stepLen p b (p.state.current.withStep stWithLen) with done := false }
      else
        if p.state.current.step == stWithLen then
          let (q, err) := visit (setStep p stCont) (.arrStart p.length.current BT.any)
          if err.isSome || (p.length.current > 0 && b.isEmpty) then { p := q, rest := b, err := err }
          else acContent p.length.current b q
        else acContent p.length.current b p := rfl

theorem acContent_safe (l : Int) (b : Bytes) (p : P) (hi : Inv p) (hc : crit p.state.current = false)
    (hb : l ≠ 0 → b ≠ []) : Safe p.err (acContent l b p) := by
  unfold acContent
  split
  · simp only [visit_eq]
    rcases verr_cases p with h | h <;> rw [h] <;> simp only []
    · exact ⟨by simp, rfl, (hi.addEv _).popLenState⟩
    · exact ⟨by simp, rfl, hi.addEv _⟩
  · rename_i hl
    have hb' := hb (by simpa using hl)
    cases b with
    | nil => exact absurd rfl hb'
    | cons b0 bs =>
      simp only []
      split
      · exact ⟨by simp, rfl, hi⟩
      · exact Safe.setDone (stepValue_safe (decLen p) (b0 :: bs) (hi.decLen hc) hc (by simp)) false

theorem stepArrayCount_safe (p : P) (b : Bytes) (hi : Inv p)
    (hg : b ≠ [] ∨ pending p = true) (ht : p.state.current.type = stArrayCount) :
    Safe p.err (stepArrayCount p b) := by
  rw [stepArrayCount_eq]
  split
  · rename_i hs
    have hs' : p.state.current.step = stStart := by simpa using hs
    have hb : b ≠ [] := by
      rcases hg with h | h
      · exact h
      · simp [pending, ht, hs'] at h
    exact Safe.setDone (stepLen_safe p b _ hi hb) false
  · rename_i hs
    split
    · rename_i hs2
      have hs2' : p.state.current.step = stWithLen := by simpa using hs2
      have hL : 0 ≤ p.length.current := hi.cur (by simp [crit, ht, hs2'])
      simp only [visit_eq]
      have hi2 : Inv (setStep p stCont) := hi.setStep _ (by decide)
      split
      · exact ⟨verr_np _, rfl, hi2.addEv _⟩
      · rename_i hcond
        simp only [Bool.or_eq_true, Bool.and_eq_true, decide_eq_true_eq, not_or, not_and] at hcond
        refine acContent_safe _ b (addEv (setStep p stCont) _) (hi2.addEv _) ?_ ?_
        · simp [addEv, setStep, setCurrent, crit, ht]
        · intro hl hbe
          exact hcond.2 (by omega) (by simp [hbe])
    · rename_i hs2
      have hs2' : p.state.current.step ≠ stWithLen := by simpa using hs2
      have hs' : p.state.current.step ≠ stStart := by simpa using hs
      refine acContent_safe _ b p hi ?_ ?_
      · simp [crit, ht, hs2']
      · intro hl
        rcases hg with h | h
        · exact h
        · simp [pending, ht, hs2', hl] at h

/-! ### typed containers: header -/

theorem stepType_safe (p : P) (b : Bytes) (cont : St) (hi : Inv p) (hb : b ≠ [])
    (hc : crit cont = false) : Safe p.err (stepType p b cont) := by
  unfold stepType
  cases b with
  | nil => exact absurd rfl hb
  | cons m bs =>
    simp only []
    split
    · exact ⟨by simp, rfl, hi.setCurrent _ hc⟩
    · rename_i state hst
      split
      · exact ⟨by simp, rfl, hi.setCurrent _ hc⟩
      · exact ⟨by simp, rfl, (hi.setCurrent _ hc).pushValueState _ (crit_start hst) _⟩

theorem stepTypeLenHeader_safe (p : P) (b : Bytes) (cont : StateStep) (hi : Inv p) (hb : b ≠ [])
    (ht : p.state.current.type = stArrayTyped ∨ p.state.current.type = stObjectTyped) :
    Safe p.err (stepTypeLenHeader p b cont) := by
  have hnc : ∀ s : StateStep, s ≠ stFieldNameLen → crit (p.state.current.withStep s) = false := by
    intro s hs; rcases ht with ht | ht <;> simp [crit, St.withStep, ht, hs]
  unfold stepTypeLenHeader
  simp only []
  split
  · exact stepType_safe p b _ hi hb (hnc _ (by decide))
  · cases b with
    | nil => exact absurd rfl hb
    | cons b0 bs =>
      simp only []
      split
      · exact ⟨by simp, rfl, hi⟩
      · exact ⟨by simp, rfl, hi.setCurrent _ (hnc _ (by decide))⟩
  · exact stepLen_safe p b _ hi hb
  · exact ⟨by simp, rfl, hi⟩

end SF.Ubjson.Parse
