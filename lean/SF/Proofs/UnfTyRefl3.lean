/-
  Typed targets, part 11: `unfolderReflSlice.prepare` — one more element, and the pointer to it.
-/
import SF.Proofs.UnfTyRefl2
namespace SF.Unf
open SF

variable {D : Nat} {base : S6} {fs : List Frame} {c : Ctx}

/-- the slice at the frame's pointer now has more than `i` elements: the invariant with the index
advanced, and the element the returned pointer points at -/
theorem prep_finish (e : GoType) (ru : RU) (p : Path) (i : Int) (h : Inv D base (.rsl e ru p i :: fs) c)
    (c1 : Ctx) (et : GoType) (es' h' : List GoVal)
    (hw : (Sh.slice (i + 1).toNat (shOf e)).ok (.slice et es' h'))
    (hc1 : c1 = { storeAt c p (.slice et es' h') with idx := { c.idx with current := i + 1 } } ∨
      (c1 = { c with idx := { c.idx with current := i + 1 } } ∧ deref c p = some (.slice et es' h'))) :
    Inv D base (.rsl e ru p (i + 1) :: fs) c1 ∧
      ∃ x, deref c1 (p.push (.index i.toNat)) = some x ∧ (shOf e).ok x := by
  obtain ⟨hu, hp, hv, hk, hi, hb⟩ := s6_eq _ _ h.stacks
  simp only [stacksOf, Frame.push] at hu hp hv hk hi hb
  have hi0 : 0 ≤ i := h.wfs.1.2.2
  have hborn : Born D (.rsl e ru p (i + 1)) fs :=
    ⟨h.wfs.1.1.mono (Sh.le_slice _ (by omega)), h.wfs.1.2.1, by omega⟩
  have hw0 : (Sh.slice i.toNat (shOf e)).ok (.slice et es' h') := Sh.ok_slice_mono (by omega) hw
  have hs6 : ∀ c0 : Ctx, c0.s6 = c.s6 →
      ({ c0 with idx := { c.idx with current := i + 1 } } : Ctx).s6 = stacksOf base (.rsl e ru p (i + 1) :: fs) := by
    intro c0 h0
    obtain ⟨e1, e2, e3, e4, e5, e6⟩ := s6_eq _ _ h0
    simp only [Ctx.s6] at e1 e2 e3 e4 e5 e6
    exact s6_mk _ _ (by simp [e1, hu, stacksOf, Frame.push]) (by simp [e2, hp, stacksOf, Frame.push])
      (by simp [e3, hv, stacksOf, Frame.push]) (by simp [e4, hk, stacksOf, Frame.push])
      (by simp [hi, stacksOf, Frame.push, Stk.push]) (by simp [e6, hb, stacksOf, Frame.push])
  have hinv : Inv D base (.rsl e ru p (i + 1) :: fs) c1 ∧ deref c1 p = some (.slice et es' h') := by
    rcases hc1 with rfl | ⟨rfl, hd⟩
    · obtain ⟨old, hold, _⟩ := h.top_deref
      refine ⟨h.replace_store (F' := .rsl e ru p (i + 1)) c rfl (.slice et es' h') hw0 rfl hw hborn
        (hs6 _ (storeAt_s6 c p _)) rfl rfl rfl rfl, ?_⟩
      exact (deref_congr (storeAt c p (.slice et es' h')) _ rfl p).trans (deref_storeAt_self c p _ old hold)
    · refine ⟨h.replace (F' := .rsl e ru p (i + 1)) rfl ?_ hborn (hs6 c rfl) rfl rfl rfl rfl, ?_⟩
      · intro v hv' _
        have hv'' : deref c p = some v := hv'
        rw [hd] at hv''
        injection hv'' with hv''
        subst hv''
        exact hw
      · exact (deref_congr c _ rfl p).trans hd
  refine ⟨hinv.1, ?_⟩
  unfold Sh.ok at hw
  rcases hw with ⟨_, _, hv', _⟩ | ⟨et', es'', h'', hz, hv', hes, _, hn⟩
  · cases hv'
  · injection hv' with h1 h2 h3
    subst h1; subst h2; subst h3
    have hlt : i.toNat < es'.length := by omega
    refine ⟨es'[i.toNat], deref_index c1 p et es' h' i.toNat _ hinv.2 (List.getElem?_eq_getElem hlt), ?_⟩
    exact hes _ (List.getElem_mem hlt)

/-- `unfolderReflSlice.prepare` -/
theorem prepare_rsl (e : GoType) (ru : RU) (p : Path) (i : Int) (h : Inv D base (.rsl e ru p i :: fs) c) :
    ∃ c1, reflSlicePrepare c = .ok (some (p.push (.index i.toNat))) c1 ∧
      Inv D base (.rsl e ru p (i + 1) :: fs) c1 ∧
      (∃ x, deref c1 (p.push (.index i.toNat)) = some x ∧ (shOf e).ok x) ∧ c1.env = c.env ∧
      c1.whatIfFixed = c.whatIfFixed := by
  obtain ⟨hu, hp, hv, hk, hi, hb⟩ := s6_eq _ _ h.stacks
  simp only [stacksOf, Frame.push] at hu hp hv hk hi hb
  have hi0 : 0 ≤ i := h.wfs.1.2.2
  obtain ⟨sl, hd0, hok0⟩ := h.top_deref
  have hd : deref c p = some sl := hd0
  have hok : (Sh.slice i.toNat (shOf e)).ok sl := hok0
  clear hd0 hok0
  have hcv : c.value.current = some p := by rw [hv]; rfl
  have hci : c.idx.current = i := by rw [hi]; rfl
  unfold Sh.ok at hok
  rcases hok with ⟨et, hz, rfl, hn⟩ | ⟨et, es, hh, hz, rfl, hes, hhh, hn⟩
  · -- nil slice: i = 0, one zero element is appended
    have hi' : i = 0 := by omega
    have hw : (Sh.slice (i + 1).toNat (shOf e)).ok (.slice et [zero c.env et] []) := by
      unfold Sh.ok
      refine Or.inr ⟨et, _, [], hz, rfl, ?_, (by intro _ h; cases h), by rw [hi']; simp⟩
      intro y hy
      simp only [List.mem_singleton] at hy
      subst hy
      exact hz c.env
    have hrun : reflSlicePrepare c = .ok (some (p.push (.index i.toNat)))
        { storeAt c p (.slice et [zero c.env et] []) with idx := { c.idx with current := i + 1 } } := by
      rw [hi'] at hci
      simp [reflSlicePrepare, bind_def, currentValue, hcv, currentIdx, hci, load_def, hd, pure_def, getCtx,
        store_at_ok c p _ _ hd, setCurrentIdx, modifyCtx, hi']
    obtain ⟨h1, h2⟩ := prep_finish e ru p i h _ et _ _ hw (Or.inl rfl)
    exact ⟨_, hrun, h1, h2, by simp, by simp⟩
  · by_cases hlen : (es.length : Int) > i
    · -- the element exists
      have hw : (Sh.slice (i + 1).toNat (shOf e)).ok (.slice et es hh) := by
        unfold Sh.ok
        exact Or.inr ⟨et, es, hh, hz, rfl, hes, hhh, by omega⟩
      have hrun : reflSlicePrepare c = .ok (some (p.push (.index i.toNat)))
          { c with idx := { c.idx with current := i + 1 } } := by
        simp [reflSlicePrepare, bind_def, currentValue, hcv, currentIdx, hci, load_def, hd, pure_def, getCtx, hlen,
          setCurrentIdx, modifyCtx]
      obtain ⟨h1, h2⟩ := prep_finish e ru p i h _ et _ _ hw (Or.inr ⟨rfl, hd⟩)
      exact ⟨_, hrun, h1, h2, rfl, rfl⟩
    · have hlen' : es.length = i.toNat := by omega
      cases hh with
      | nil =>
        have hw : (Sh.slice (i + 1).toNat (shOf e)).ok (.slice et (es ++ [zero c.env et]) []) := by
          unfold Sh.ok
          refine Or.inr ⟨et, _, [], hz, rfl, ?_, (by intro _ h; cases h), by simp; omega⟩
          intro y hy
          rcases List.mem_append.mp hy with hy | hy
          · exact hes y hy
          · simp only [List.mem_singleton] at hy; subst hy; exact hz c.env
        have hrun : reflSlicePrepare c = .ok (some (p.push (.index i.toNat)))
            { storeAt c p (.slice et (es ++ [zero c.env et]) []) with idx := { c.idx with current := i + 1 } } := by
          simp [reflSlicePrepare, bind_def, currentValue, hcv, currentIdx, hci, load_def, hd, pure_def, getCtx, hlen,
            store_at_ok c p _ _ hd, setCurrentIdx, modifyCtx]
        obtain ⟨h1, h2⟩ := prep_finish e ru p i h _ et _ _ hw (Or.inl rfl)
        exact ⟨_, hrun, h1, h2, by simp, by simp⟩
      | cons x h' =>
        have hw : (Sh.slice (i + 1).toNat (shOf e)).ok
            (.slice et (es ++ [if c.whatIfFixed = true then zero c.env et else x]) h') := by
          unfold Sh.ok
          refine Or.inr ⟨et, _, h', hz, rfl, ?_, fun y hy => hhh y (List.mem_cons_of_mem _ hy), by simp; omega⟩
          intro y hy
          rcases List.mem_append.mp hy with hy | hy
          · exact hes y hy
          · simp only [List.mem_singleton] at hy
            subst hy
            split
            · exact hz c.env
            · exact hhh x List.mem_cons_self
        have hrun : reflSlicePrepare c = .ok (some (p.push (.index i.toNat)))
            { storeAt c p (.slice et (es ++ [if c.whatIfFixed = true then zero c.env et else x]) h') with
              idx := { c.idx with current := i + 1 } } := by
          simp [reflSlicePrepare, bind_def, currentValue, hcv, currentIdx, hci, load_def, hd, pure_def, getCtx, hlen,
            store_at_ok c p _ _ hd, setCurrentIdx, modifyCtx]
        obtain ⟨h1, h2⟩ := prep_finish e ru p i h _ et _ _ hw (Or.inl rfl)
        exact ⟨_, hrun, h1, h2, by simp, by simp⟩

end SF.Unf
