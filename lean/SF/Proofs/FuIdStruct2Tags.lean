/-
  The tag parser of the UNFOLD mirror (`Unf.parseTags`, trimming with `String.trimAscii`) against the tag parser of
  the FOLD mirror (`Fold.parseTags`) and the documented grammar (`Rules.parseTag`): they agree on every tag whose
  comma-separated parts are trimmed alike by `Unf.trimSpace` and `Fold.trimSpace` (`TrimAgree`).
  The restriction is FORCED: `String.trimAscii` (Lean's `Char.isWhitespace`: blank, \t, \r, \n) does not strip
  \v (0x0b) and \f (0x0c), `Fold.trimSpace` / `Rules.trim` (and Go's `strings.TrimSpace`) do — see the evaluated
  counterexample in FuIdStruct2Top.lean.
-/
import SF.Proofs.FoldTagRules
import SF.Gotype.Unfold
namespace SF.FuId
open SF SF.Gotype

/-- the comma-separated parts of the tag are trimmed alike by the two mirrors -/
def TrimAgree (raw : String) : Prop := ∀ part ∈ raw.splitOn ",", Unf.trimSpace part = Fold.trimSpace part

/-- one step of the Unfold parser's scan over the options -/
def stepU (o : Unf.TagOptions) (opt : String) : Unf.TagOptions :=
  let t := Unf.trimSpace opt
  if t == "squash" || t == "inline" then { o with squash := true }
  else if t == "omitempty" then { o with omitEmpty := true }
  else if t == "omit" then { o with omitF := true }
  else o

theorem stepU_flags (o : Unf.TagOptions) (x : String) :
    (stepU o x).squash = (o.squash || ("inline" == Unf.trimSpace x || "squash" == Unf.trimSpace x)) ∧
    (stepU o x).omitEmpty = (o.omitEmpty || "omitempty" == Unf.trimSpace x) ∧
    (stepU o x).omitF = (o.omitF || "omit" == Unf.trimSpace x) := by
  unfold stepU
  simp only []
  by_cases h1 : Unf.trimSpace x = "squash"
  · simp [h1]
  · by_cases h2 : Unf.trimSpace x = "inline"
    · simp [h2]
    · by_cases h3 : Unf.trimSpace x = "omitempty"
      · simp [h3]
      · by_cases h4 : Unf.trimSpace x = "omit"
        · simp [h4]
        · simp [h1, h2, h3, h4, Ne.symm h1, Ne.symm h2, Ne.symm h3, Ne.symm h4]

theorem scanU_F : ∀ (rest : List String) (o : Unf.TagOptions) (o' : Fold.TagOpts),
    (∀ x ∈ rest, Unf.trimSpace x = Fold.trimSpace x) →
    o.squash = o'.squash → o.omitEmpty = o'.omitEmpty → o.omitF = o'.omitF →
    (rest.foldl stepU o).squash = (rest.foldl SF.FoldTagRules.scanStep o').squash ∧
    (rest.foldl stepU o).omitEmpty = (rest.foldl SF.FoldTagRules.scanStep o').omitEmpty ∧
    (rest.foldl stepU o).omitF = (rest.foldl SF.FoldTagRules.scanStep o').omitF
  | [], o, o', _, a, b, c => ⟨a, b, c⟩
  | x :: rest, o, o', h, a, b, c => by
    obtain ⟨a1, b1, c1⟩ := stepU_flags o x
    obtain ⟨a2, b2, c2⟩ := SF.FoldTagRules.scanStep_flags o' x
    have hx := h x (by simp)
    simp only [List.foldl_cons]
    exact scanU_F rest _ _ (fun y hy => h y (by simp [hy])) (by rw [a1, a2, hx, a]) (by rw [b1, b2, hx, b])
      (by rw [c1, c2, hx, c])

/-- the two mirrors' tag parsers agree on tags whose parts are trimmed alike -/
theorem unf_fold_parseTags (raw : String) (h : TrimAgree raw) :
    (Unf.parseTags raw).1 = (Fold.parseTags raw).1 ∧
    (Unf.parseTags raw).2.squash = (Fold.parseTags raw).2.squash ∧
    (Unf.parseTags raw).2.omitEmpty = (Fold.parseTags raw).2.omitEmpty ∧
    (Unf.parseTags raw).2.omitF = (Fold.parseTags raw).2.omitF := by
  unfold TrimAgree at h
  unfold Unf.parseTags Fold.parseTags
  cases hs : raw.splitOn "," with
  | nil => exact ⟨rfl, rfl, rfl, rfl⟩
  | cons s0 rest =>
    rw [hs] at h
    simp only []
    by_cases hd : (s0 == "-") = true
    · simp [hd]
    · simp only [hd, Bool.false_eq_true, if_false]
      have e : (fun (o : Fold.TagOpts) opt =>
          let t := Fold.trimSpace opt
          if t == "squash" || t == "inline" then { o with squash := true }
          else if t == "omitempty" then { o with omitEmpty := true }
          else if t == "omit" then { o with omitF := true }
          else o) = SF.FoldTagRules.scanStep := rfl
      have e' : (fun (o : Unf.TagOptions) opt =>
          let t := Unf.trimSpace opt
          if t == "squash" || t == "inline" then { o with squash := true }
          else if t == "omitempty" then { o with omitEmpty := true }
          else if t == "omit" then { o with omitF := true }
          else o) = stepU := rfl
      rw [e, e']
      obtain ⟨a, b, c⟩ := scanU_F rest {} {} (fun x hx => h x (by simp [hx])) rfl rfl rfl
      exact ⟨h s0 (by simp), a, b, c⟩

/-- … hence the Unfold parser agrees with the documented grammar on them -/
theorem unf_tag_rules (raw : String) (h : TrimAgree raw) :
    (Unf.parseTags raw).2.omitF = ((Rules.parseTag raw).dash || (Rules.parseTag raw).omit') ∧
    ((Rules.parseTag raw).dash = false →
      (Unf.parseTags raw).1 = (Rules.parseTag raw).name ∧
      (Unf.parseTags raw).2.squash = (Rules.parseTag raw).inline ∧
      (Unf.parseTags raw).2.omitEmpty = (Rules.parseTag raw).omitEmpty) := by
  obtain ⟨a, b, c, d⟩ := unf_fold_parseTags raw h
  obtain ⟨p, q⟩ := SF.FoldTagRules.tag_rules_agree raw
  refine ⟨by rw [d, p], fun hd => ?_⟩
  obtain ⟨q1, q2, q3⟩ := q hd
  exact ⟨by rw [a, q1], by rw [b, q2], by rw [c, q3]⟩

/-! ## `String.trimAscii` against the list model of `strings.TrimSpace` -/

theorem dropWhile_split {α : Type} (p : α → Bool) : ∀ (a b : List α), a.all p = true → b.head?.any p = false →
    (a ++ b).dropWhile p = b
  | [], b, _, hb => by
    cases b with
    | nil => rfl
    | cons x b => simp at hb; simp [hb]
  | x :: a, b, ha, hb => by
    simp only [List.all_cons, Bool.and_eq_true] at ha
    simp [ha.1, dropWhile_split p a b ha.2 hb]

theorem slice_dropWhile (p : Char → Bool) (sl : String.Slice) :
    (sl.dropWhile p).copy.toList = sl.copy.toList.dropWhile p := by
  have h1 := String.Slice.takeWhile_append_dropWhile (s := sl) (pat := p)
  have h2 : (sl.takeWhile p).copy.toList.all p = true := by
    rw [← String.Slice.all_bool_eq]; exact String.Slice.all_takeWhile
  have h3 : (sl.dropWhile p).copy.toList.head?.any p = false := by
    rw [← String.Slice.startsWith_bool_eq_head?]; exact String.Slice.startsWith_dropWhile
  rw [← h1, String.toList_append]
  exact (dropWhile_split p _ _ h2 h3).symm

theorem slice_dropEndWhile (p : Char → Bool) (sl : String.Slice) :
    (sl.dropEndWhile p).copy.toList = (sl.copy.toList.reverse.dropWhile p).reverse := by
  have h1 := String.Slice.dropEndWhile_append_takeEndWhile (s := sl) (pat := p)
  have h2 : (sl.takeEndWhile p).copy.toList.all p = true := by
    rw [← String.Slice.revAll_bool_eq]; exact String.Slice.revAll_takeEndWhile
  have h3 : (sl.dropEndWhile p).copy.toList.getLast?.any p = false := by
    rw [← String.Slice.endsWith_bool_eq_getLast?]; exact String.Slice.endsWith_dropEndWhile
  rw [← h1, String.toList_append, List.reverse_append]
  rw [dropWhile_split p _ _ (by simpa using h2) (by simpa using h3)]
  simp

theorem dropWhile_congr_mem {α : Type} (p q : α → Bool) : ∀ (l : List α), (∀ x ∈ l, p x = q x) →
    l.dropWhile p = l.dropWhile q
  | [], _ => rfl
  | x :: l, h => by
    have hx := h x (by simp)
    have ih := dropWhile_congr_mem p q l (fun y hy => h y (by simp [hy]))
    simp only [List.dropWhile, hx, ih]

theorem mem_of_mem_dropWhile {α : Type} (p : α → Bool) : ∀ (l : List α) (x : α), x ∈ l.dropWhile p → x ∈ l
  | [], x, h => by simp at h
  | y :: l, x, h => by
    simp only [List.dropWhile] at h
    split at h
    · exact List.mem_cons_of_mem _ (mem_of_mem_dropWhile p l x h)
    · exact h

/-- no vertical tab, no form feed -/
def noVTFF (s : String) : Prop := ∀ c ∈ s.toList, c.toNat ≠ 0x0b ∧ c.toNat ≠ 0x0c

theorem ws_eq (c : Char) (h : c.toNat ≠ 0x0b ∧ c.toNat ≠ 0x0c) : Char.isWhitespace c = Fold.isSpace c := by
  unfold Char.isWhitespace Fold.isSpace
  have h1 : (c.toNat == 0x0b) = false := by simpa using h.1
  have h2 : (c.toNat == 0x0c) = false := by simpa using h.2
  rw [h1, h2]
  simp only [Bool.or_false]
  cases a : decide (c = ' ') <;> cases b : decide (c = '\t') <;> cases d : decide (c = '\r') <;>
    cases e : decide (c = '\n') <;> simp_all

theorem unf_trimSpace_toList (s : String) :
    (Unf.trimSpace s).toList = ((s.toList.dropWhile Char.isWhitespace).reverse.dropWhile Char.isWhitespace).reverse := by
  unfold Unf.trimSpace String.trimAscii String.Slice.trimAscii String.Slice.trimAsciiEnd String.Slice.trimAsciiStart
  rw [String.Slice.toString_eq, slice_dropEndWhile, slice_dropWhile]
  simp

/-- THE BRIDGE: `String.trimAscii` (Unfold mirror) = `strings.TrimSpace` as modelled on the Fold side, on strings
without \v and \f -/
theorem trim_bridge (s : String) (h : noVTFF s) : Unf.trimSpace s = Fold.trimSpace s := by
  apply String.toList_injective
  rw [unf_trimSpace_toList]
  unfold Fold.trimSpace
  rw [String.toList_ofList]
  have e1 : s.toList.dropWhile Char.isWhitespace = s.toList.dropWhile Fold.isSpace :=
    dropWhile_congr_mem _ _ _ (fun x hx => ws_eq x (h x hx))
  rw [e1]
  have e2 : (s.toList.dropWhile Fold.isSpace).reverse.dropWhile Char.isWhitespace =
      (s.toList.dropWhile Fold.isSpace).reverse.dropWhile Fold.isSpace :=
    dropWhile_congr_mem _ _ _ (fun x hx => ws_eq x (h x (mem_of_mem_dropWhile _ _ _ (List.mem_reverse.mp hx))))
  rw [e2]

/-- `TrimAgree` from the characters of the comma-separated parts -/
theorem trimAgree_of_parts (raw : String) (h : ∀ part ∈ raw.splitOn ",", noVTFF part) : TrimAgree raw :=
  fun part hp => trim_bridge part (h part hp)

end SF.FuId
