/-
  C11, CBOR path (Fold → cborl encoder → bytes → cborl parser → Unfolder), composed statement, in the
  vocabulary of the op `fu` (SF/Ops/Fu.lean), branch `path ∉ {"direct", "json", "ubjson"}`:

      Fu.model t v "cbor" =
        match Tr.trType t with | some ut =>
        match setTarget fuTable ut (zero fuTable ut) newUnfolder with | .ok c0 =>
        let o := Fold.impl {folders := true} t v
        match (Cbor.encModel (-1) o.evs).splitOn "|" with            -- = Enc.run {} o.evs, printed
        | [h, r, _, _] => if r != "ok" then "-|err:fold" else if o.res != .ok then … else
          let bytes := ofHex h
          let (evs, pv) := Cbor.parseEvents (if bytes.isEmpty then [] else [bytes])   -- Parse.writeChunks {} [bytes]
          match feed c0 (evs.map fun e => [evToUEv e]) with
          | (c, none) => if pv == "ok" then printFu c.target ++ "|ok" else "-|err:parse"

  (the hex printing / `splitOn` / `ofHex` of the model are String functions the kernel does not
  evaluate; the theorems speak about the structural composition they print and re-read:
  `Enc.run {} o.evs = (s, none)`, `bytes = s.w.out ≠ []`, `Cbor.parseEvents [bytes]`).

  Each theorem says, for a family of types `T` and EVERY Go value `v` of `T`:
    (a) `Tr.trType T = some ut`, (b) the fresh zero target is accepted (`c0`), (c) the fold succeeds,
    (d) the ENCODER accepts every event: `Enc.run {} (impl o T v).evs = (s, none)`, and wrote `s.w.out ≠ []`,
    (e) the PARSER accepts these bytes (one `Write`, then end of input) and is IDLE again
        (`pr = Parse.idle pr.evs`: empty state / length stacks, empty buffer, no error), `Cbor.parseEvents`
        answers "ok", and the events it delivered are given EXPLICITLY: integers arrive under the
        narrowest kind (`narrow`: 5 of an `int64` as `OnUint8(5)`, -200 as `OnInt16(-200)`), containers as
        `OnArrayStart(n, any)` / `OnObjectStart(n, any)` with their exact length, `[]byte` as the byte
        string's `OnArrayStart(n, byte)` + `OnByte…`,
    (f) the UNFOLDER accepts every one of these events (one token each: `feed … = (c1, none)`),
    (g) `c1.target` = the translation of `v`, explicitly — integers exact at every width (the Unfolder's
        conversion `T(v)` of the narrow kind back to the target's kind is the identity on the range),
        float32 / float64 BIT-exact (CBOR writes float32 as 4 bytes: every NaN payload, signalling or
        quiet, ±0, ±Inf come back unchanged) —, and `c1` is the fresh Unfolder again,
    (h) `agreeF "cbor" 1000 T v (back c1.target) = true` (in fact for every path that is not "json").

  SIDE CONDITION (explicit, decidable): every string / key is shorter than 2^63 bytes and every
  slice / map has fewer than 2^63 elements (`sizedV`, `hn`) — as every Go value is.  Without it the
  statement is FALSE of the mirrors (and of cborl): the encoder writes a head with an 8-byte length
  ≥ 2^63, which the parser refuses with `lenRange` ("length must fit a non-negative int") — see the
  evaluated example `huge_length_refused` below (the 9 header bytes alone stop the parser).
  No other corner fails: uint64 up to MaxUint64, int64 MinInt64, NaNs of both widths all round-trip.
-/
import SF.Proofs.FuCborRun
import SF.Proofs.FuCborAgree
namespace SF.Props.FuCbor
open SF SF.Gotype SF.Gotype.Fold SF.FoldProofs SF.FuId SF.FuCbor
open SF.Cbor
open SF.Unf (Ctx newUnfolder setTarget)
open SF.Ops.Unf (evToUEv)
open SF.Ops.Fu (feed agreeF)

theorem parseEvents_of {b : Bytes} {pr : Parse.P} (h : Parse.writeChunks {} [b] = (pr, none)) :
    SF.Ops.Cbor.parseEvents [b] = (Parse.events pr, "ok") := by
  simp [SF.Ops.Cbor.parseEvents, h, SF.Ops.Cbor.errClass]

theorem cbor_not_json : ("cbor" == "json") = false := by decide

/-- STAGE 1 — scalars (`primTy p`: bool, string, int8 … int64, int, uint8 … uint64, uint, float32,
float64), every value `v` of the type. -/
theorem fold_cbor_unfold_scalar (o : FoldOpts) (hfail : o.failAt = none) (p : Prim) (v : GoVal)
    (hv : hasPrim p v = true) (hz : sizedV v = true) :
    ∃ ut c0 c1 s pr,
      Unf.Tr.trType (primTy p) = some ut ∧
      setTarget Unf.Tr.fuTable ut (Unf.zero Unf.Tr.fuTable ut) newUnfolder = .ok c0 ∧
      (impl o (primTy p) v).res = .ok ∧
      Enc.run {} (impl o (primTy p) v).evs = (s, none) ∧ s.w.out ≠ [] ∧
      Parse.writeChunks {} [s.w.out] = (pr, none) ∧ pr = Parse.idle pr.evs ∧
      SF.Ops.Cbor.parseEvents [s.w.out] = (Parse.events pr, "ok") ∧
      Parse.events pr = [scEv (cborSc (scOfTop p v))] ∧
      feed c0 ((Parse.events pr).map fun e => [evToUEv e]) = (c1, none) ∧
      c1.target = trPrim p v ∧
      c1 = { newUnfolder with target := trPrim p v, env := Unf.Tr.fuTable } ∧
      back c1.target = v ∧
      agreeF "cbor" 1000 (primTy p) v (back c1.target) = true ∧
      (∀ path, (path == "json") = false → agreeF path 1000 (primTy p) v (back c1.target) = true) := by
  obtain ⟨c0, s, pr, h1, h2, h3, h4, h5, h6, h7, h8⟩ := scalar_cbor_run o hfail p v hv hz
  have hag : ∀ path, (path == "json") = false → agreeF path 1000 (primTy p) v (back (trPrim p v)) = true := by
    intro path hj
    show agreeF path (999 + 1) (primTy p) v (back (trPrim p v)) = true
    rw [back_trPrim p v hv]
    exact agree_primP path hj 999 p v hv
  exact ⟨_, c0, _, s, pr, trType_primTy p, h2, h1, h3, h4, h5, h6, parseEvents_of h5, h7, h8, rfl, rfl,
    back_trPrim p v hv, hag _ cbor_not_json, hag⟩

/-- STAGE 2a — `[]T`, `T` scalar: nil, empty, or any elements `xs`.  Fold's ONE typed-array event is
written as a definite-length array (`[]uint8` / `[]byte`, which Fold hands to `OnBytes`, as a byte
string); the parser reports `OnArrayStart(n, any)` (byte string: `OnArrayStart(n, byte)`), the
elements, `OnArrayFinished`; nil and empty both come back as nil (`sliceFin`). -/
theorem fold_cbor_unfold_slice (o : FoldOpts) (hfail : o.failAt = none) (p : Prim) (v : GoVal) (xs : List GoVal)
    (hv : sliceElems? v = some xs) (hxs : ∀ x ∈ xs, hasPrim p x = true)
    (hz : ∀ x ∈ xs, sizedV x = true) (hn : xs.length < 9223372036854775808) :
    ∃ ut c0 c1 s pr,
      Unf.Tr.trType (.slice (primTy p)) = some ut ∧
      setTarget Unf.Tr.fuTable ut (Unf.zero Unf.Tr.fuTable ut) newUnfolder = .ok c0 ∧
      (impl o (.slice (primTy p)) v).res = .ok ∧
      Enc.run {} (impl o (.slice (primTy p)) v).evs = (s, none) ∧ s.w.out ≠ [] ∧
      Parse.writeChunks {} [s.w.out] = (pr, none) ∧ pr = Parse.idle pr.evs ∧
      SF.Ops.Cbor.parseEvents [s.w.out] = (Parse.events pr, "ok") ∧
      Parse.events pr = .arrStart xs.length (if isByteP p then BT.byte else BT.any) ::
        (xs.map (cborElem p)).map scEv ++ [.arrEnd] ∧
      feed c0 ((Parse.events pr).map fun e => [evToUEv e]) = (c1, none) ∧
      c1.target = (if xs.isEmpty then .sliceNil (uPrimTy p) else .slice (uPrimTy p) (xs.map (trPrim p)) []) ∧
      c1 = { newUnfolder with target := c1.target, env := Unf.Tr.fuTable } ∧
      back c1.target = (if xs.isEmpty then .nilSlice else .slice xs) ∧
      agreeF "cbor" 1000 (.slice (primTy p)) v (back c1.target) = true ∧
      (∀ path, (path == "json") = false → agreeF path 1000 (.slice (primTy p)) v (back c1.target) = true) := by
  obtain ⟨c0, s, pr, h1, h2, h3, h4, h5, h6, h7, h8⟩ := slice_cbor_run o hfail p v xs hv hxs hz hn
  refine ⟨_, c0, _, s, pr, trType_slice p, h2, h1, h3, h4, h5, h6, parseEvents_of h5, h7, h8, ?_, rfl,
    back_sliceFin p xs hxs, agree_sliceP _ cbor_not_json 998 p v xs hv hxs,
    fun path hj => agree_sliceP path hj 998 p v xs hv hxs⟩
  show Unf.sliceFin _ _ = _
  unfold Unf.sliceFin
  cases xs <;> rfl

/-- STAGE 2b — `map[string]T`, `T` scalar: nil, empty, or any entries `ms` with pairwise distinct
string keys, under EVERY iteration order the order oracle dictates (`hintOK`).  Fold's ONE typed-map
event reaches the encoder through map.go's expansion and is written as a definite-length map; the
parser reports `OnObjectStart(n, any)`, key / value for `mems` — a permutation of the entries, values
under the narrowest kind —, `OnObjectFinished`; the target holds exactly the translated entries
(`fin`, a permutation), nil and empty both come back as nil (`mapSt`). -/
theorem fold_cbor_unfold_map (o : FoldOpts) (hfail : o.failAt = none) (hord : hintOK o.order) (p : Prim) (v : GoVal)
    (ms : List (GoVal × GoVal)) (hv : mapEntries? v = some ms) (hms : ∀ m ∈ ms, hasEntry p m = true)
    (hnd : (ms.map fun m => getS m.1).Nodup)
    (hz : ∀ m ∈ ms, sizedV m.1 = true ∧ sizedV m.2 = true) (hn : ms.length < 9223372036854775808) :
    ∃ ut c0 c1 fin s pr mems,
      Unf.Tr.trType (.map .string (primTy p)) = some ut ∧
      setTarget Unf.Tr.fuTable ut (Unf.zero Unf.Tr.fuTable ut) newUnfolder = .ok c0 ∧
      (impl o (.map .string (primTy p)) v).res = .ok ∧
      Enc.run {} (impl o (.map .string (primTy p)) v).evs = (s, none) ∧ s.w.out ≠ [] ∧
      Parse.writeChunks {} [s.w.out] = (pr, none) ∧ pr = Parse.idle pr.evs ∧
      SF.Ops.Cbor.parseEvents [s.w.out] = (Parse.events pr, "ok") ∧
      mems.Perm (ms.map fun m => (getS m.1, cborSc (scOfElem false p m.2))) ∧
      Parse.events pr = .objStart ms.length BT.any :: memEvs mems ++ [.objEnd] ∧
      feed c0 ((Parse.events pr).map fun e => [evToUEv e]) = (c1, none) ∧
      fin.Perm (ms.map fun m => (getS m.1, trPrim p m.2)) ∧
      c1.target = (if fin.isEmpty then .mapNil (uPrimTy p) else .map (uPrimTy p) fin) ∧
      c1 = { newUnfolder with target := c1.target, env := Unf.Tr.fuTable } ∧
      agreeF "cbor" 1000 (.map .string (primTy p)) v (back c1.target) = true ∧
      (∀ path, (path == "json") = false → agreeF path 1000 (.map .string (primTy p)) v (back c1.target) = true) := by
  obtain ⟨c0, fin, s, pr, mems, h1, h2, hp, h3, h4, h5, h6, hpm, h7, h8⟩ :=
    map_cbor_run o hfail hord p v ms hv hms hnd hz hn
  exact ⟨_, c0, _, fin, s, pr, mems, trType_map p, h2, h1, h3, h4, h5, h6, parseEvents_of h5, hpm, h7, h8, hp, rfl, rfl,
    agree_mapP _ cbor_not_json 998 p v ms fin hv hms hnd hp,
    fun path hj => agree_mapP path hj 998 p v ms fin hv hms hnd hp⟩

/-! ## non-vacuity: the pipeline of `Fu.model … "cbor"`, evaluated by the kernel -/

/-- the final target of the `fu` model on the CBOR path (the hex printing of the bytes left out) -/
def pipe (o : FoldOpts) (T : GoType) (v : GoVal) : Option Unf.GoVal :=
  match Unf.Tr.trType T with
  | none => none
  | some ut =>
    match setTarget Unf.Tr.fuTable ut (Unf.zero Unf.Tr.fuTable ut) newUnfolder with
    | .error _ => none
    | .ok c0 =>
      match Enc.run {} (impl o T v).evs with
      | (s, none) =>
        match Parse.writeChunks {} (if s.w.out.isEmpty then [] else [s.w.out]) with
        | (pr, none) =>
          match feed c0 ((Parse.events pr).map fun e => [evToUEv e]) with
          | (c1, none) => if (impl o T v).res == .ok then some c1.target else none
          | _ => none
        | _ => none
      | _ => none

/-- the events the parser delivers on the way -/
def wireEvents (o : FoldOpts) (T : GoType) (v : GoVal) : List Ev :=
  Parse.events (Parse.writeChunks {} [(Enc.run {} (impl o T v).evs).1.w.out]).1

/- stage 1: `uint64` MaxUint64 (arrives as OnUint64), `int64` MinInt64, `int64(5)` arriving as
`OnUint8(5)`, `int(-200)` arriving as `OnInt16(-200)`, a SIGNALLING float32 NaN with payload
(bit-exact through the 4-byte float32), float64 -0, a string -/
example : hasPrim (.num .u64) (.int 18446744073709551615) = true ∧
    hasPrim (.num .i64) (.int (-9223372036854775808)) = true ∧ hasPrim .f32 (.f32 0x7fa00001) = true ∧
    sizedV (.str [104, 105]) = true ∧
    (match pipe {} (.int .u64) (.int 18446744073709551615) with
     | some (.int .u64 18446744073709551615) => true | _ => false) = true ∧
    (match pipe {} (.int .i64) (.int (-9223372036854775808)) with
     | some (.int .i64 (-9223372036854775808)) => true | _ => false) = true ∧
    wireEvents {} (.int .i64) (.int 5) = [.num .u8 5] ∧
    (match pipe {} (.int .i64) (.int 5) with
     | some (.int .i64 5) => true | _ => false) = true ∧
    wireEvents {} (.int .int) (.int (-200)) = [.num .i16 (-200)] ∧
    (match pipe {} (.int .int) (.int (-200)) with
     | some (.int .int (-200)) => true | _ => false) = true ∧
    (match pipe {} .float32 (.f32 0x7fa00001) with
     | some (.f32 0x7fa00001) => true | _ => false) = true ∧
    (match pipe {} .float64 (.f64 0x8000000000000000) with
     | some (.f64 0x8000000000000000) => true | _ => false) = true ∧
    (match pipe {} .string (.str [104, 105]) with
     | some (.str [104, 105]) => true | _ => false) = true := by decide +kernel

/- stage 2a: `[]int16{-200, 0, 32767}` (reported as OnArrayStart(3, any), OnInt16(-200), OnUint8(0),
OnUint16(32767)), `[]uint8{0, 255}` (through OnBytes and a byte string), nil `[]string`, empty `[]bool` -/
example : (∀ x ∈ [GoVal.int (-200), .int 0, .int 32767], hasPrim (.num .i16) x = true) ∧
    wireEvents {} (.slice (.int .i16)) (.slice [.int (-200), .int 0, .int 32767]) =
      [.arrStart 3 BT.any, .num .i16 (-200), .num .u8 0, .num .u16 32767, .arrEnd] ∧
    (match pipe {} (.slice (.int .i16)) (.slice [.int (-200), .int 0, .int 32767]) with
     | some (.slice (.int .i16) [.int .i16 (-200), .int .i16 0, .int .i16 32767] []) => true | _ => false) = true ∧
    wireEvents {} (.slice (.int .u8)) (.slice [.int 0, .int 255]) =
      [.arrStart 2 BT.byte, .num .byte 0, .num .byte 255, .arrEnd] ∧
    (match pipe {} (.slice (.int .u8)) (.slice [.int 0, .int 255]) with
     | some (.slice (.int .u8) [.int .u8 0, .int .u8 255] []) => true | _ => false) = true ∧
    (match pipe {} (.slice .string) .nilSlice with
     | some (.sliceNil .string) => true | _ => false) = true ∧
    (match pipe {} (.slice .bool) (.slice []) with
     | some (.sliceNil .bool) => true | _ => false) = true := by decide +kernel

/- stage 2b: `map[string]string{"a":"b", "b":"c"}` under an order oracle that asks for "b" first
(`hintOK` of it: FuIdTop.lean), `map[string]float32{"k": sNaN}`, nil `map[string]int8` -/
example : (match pipe { order := [.strObj [([98], []), ([97], [])]] } (.map .string .string)
      (.map [(.str [97], .str [98]), (.str [98], .str [99])]) with
    | some (.map .string [([98], .str [99]), ([97], .str [98])]) => true
    | _ => false) = true ∧
    wireEvents {} (.map .string (.int .u32)) (.map [(.str [107], .int 7)]) =
      [.objStart 1 BT.any, .key [107], .num .u8 7, .objEnd] ∧
    (match pipe {} (.map .string .float32) (.map [(.str [107], .f32 0x7fa00001)]) with
     | some (.map .float32 [([107], .f32 0x7fa00001)]) => true | _ => false) = true ∧
    (match pipe {} (.map .string (.int .i8)) .nilMap with
     | some (.mapNil (.int .i8)) => true | _ => false) = true := by decide +kernel

/-- why the size hypotheses cannot be dropped: the head of a text string announcing 2^63 bytes
(what the encoder writes for such a string: `0x7b` + the 8-byte length) is refused by the parser
with `lenRange`, whatever follows -/
theorem huge_length_refused :
    Enc.head majorText 9223372036854775808 = [0x7b, 0x80, 0, 0, 0, 0, 0, 0, 0] ∧
    (Parse.write {} [0x7b, 0x80, 0, 0, 0, 0, 0, 0, 0]).2 = some .lenRange := by decide +kernel

end SF.Props.FuCbor
