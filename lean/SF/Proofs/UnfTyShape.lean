/-
  Typed targets of the Unfolder mirror, part 1: the SHAPE of a Go value (what the unfolder
  states rely on when they load through a pointer: slices are slices — and so are their elements,
  as deep as the type says —, maps are maps), and `GoVal.get` / `GoVal.set` along index paths.
-/
import SF.Proofs.UnfGenArr
namespace SF.Unf
open SF

/-- map-shaped values -/
def isMapVal : GoVal → Prop
  | .mapNil _ => True
  | .map _ _ => True
  | _ => False

/-- non-nil maps -/
def isMapNN : GoVal → Prop
  | .map _ _ => True
  | _ => False

theorem isMapNN.isMap {v : GoVal} (h : isMapNN v) : isMapVal v := by
  cases v <;> first | trivial | exact h.elim

/-- shapes: what the unfolder states rely on when they load through a pointer — slices are
slices (and so are their elements, as deep as the type says), maps are maps -/
inductive Sh
  | flat                    -- nothing is relied on
  | map                     -- a map (nil or not)
  | mapNN                   -- a non-nil map
  | slice (n : Nat) (e : Sh)  -- a slice of at least `n` elements; elements (visible, or hidden in the capacity) have shape `e`
  deriving Inhabited, DecidableEq

/-- `s.ok v`: `v` has shape `s`.  A slice value also carries its element type, whose zero value
(appended by `unfolderReflSlice.prepare`) must have the element shape. -/
def Sh.ok : Sh → GoVal → Prop
  | .flat, _ => True
  | .map, v => isMapVal v
  | .mapNN, v => isMapNN v
  | .slice n e, v =>
    (∃ et, (∀ tbl, e.ok (zero tbl et)) ∧ v = .sliceNil et ∧ n = 0) ∨
    (∃ et es h, (∀ tbl, e.ok (zero tbl et)) ∧ v = .slice et es h ∧ (∀ x ∈ es, e.ok x) ∧ (∀ x ∈ h, e.ok x) ∧
      n ≤ es.length)

/-- the shape of a type -/
def shOf : GoType → Sh
  | .slice e => .slice 0 (shOf e)
  | .map _ => .map
  | _ => .flat

theorem zero_slice (tbl : TypeTable) (e : GoType) : zero tbl (.slice e) = .sliceNil e := rfl
theorem zero_map (tbl : TypeTable) (e : GoType) : zero tbl (.map e) = .mapNil e := rfl

/-- zero values have the shape of their type -/
theorem shaped_zero (tbl : TypeTable) : ∀ t, (shOf t).ok (zero tbl t) := by
  intro t
  cases t with
  | slice e =>
    rw [zero_slice]
    show Sh.ok (.slice 0 (shOf e)) _
    unfold Sh.ok
    exact Or.inl ⟨e, fun tbl' => shaped_zero tbl' e, rfl, rfl⟩
  | map e => rw [zero_map]; show Sh.ok .map _; unfold Sh.ok; trivial
  | _ => show Sh.ok .flat _; unfold Sh.ok; trivial

theorem Sh.ok_isSlice {n : Nat} {e : Sh} {v : GoVal} (h : (Sh.slice n e).ok v) : isSliceVal v := by
  unfold Sh.ok at h
  rcases h with ⟨et, _, rfl, _⟩ | ⟨et, es, hd, _, rfl, _, _, _⟩ <;> trivial

/-- `a ≤ b`: `a` asks for at least what `b` asks for -/
def Sh.le (a b : Sh) : Prop :=
  a = b ∨ (a = .mapNN ∧ b = .map) ∨ b = .flat ∨ (∃ n m e, a = .slice n e ∧ b = .slice m e ∧ m ≤ n)

theorem Sh.le_refl (a : Sh) : a.le a := Or.inl rfl
theorem Sh.le_flat (a : Sh) : a.le .flat := Or.inr (Or.inr (Or.inl rfl))
theorem Sh.le_slice {n m : Nat} (e : Sh) (h : m ≤ n) : (Sh.slice n e).le (.slice m e) :=
  Or.inr (Or.inr (Or.inr ⟨n, m, e, rfl, rfl, h⟩))

theorem Sh.ok_slice_mono {n m : Nat} {e : Sh} {v : GoVal} (h : m ≤ n) (hv : (Sh.slice n e).ok v) :
    (Sh.slice m e).ok v := by
  unfold Sh.ok at hv ⊢
  rcases hv with ⟨et, hz, rfl, hn⟩ | ⟨et, es, hd, hz, rfl, h1, h2, hn⟩
  · exact Or.inl ⟨et, hz, rfl, by omega⟩
  · exact Or.inr ⟨et, es, hd, hz, rfl, h1, h2, by omega⟩

theorem Sh.le_ok {a b : Sh} (h : a.le b) {v : GoVal} (hv : a.ok v) : b.ok v := by
  rcases h with rfl | ⟨rfl, rfl⟩ | rfl | ⟨n, m, e, rfl, rfl, hm⟩
  · exact hv
  · unfold Sh.ok at hv ⊢; exact hv.isMap
  · unfold Sh.ok; trivial
  · exact Sh.ok_slice_mono hm hv

theorem Sh.le_trans {a b d : Sh} (h1 : a.le b) (h2 : b.le d) : a.le d := by
  rcases h1 with rfl | ⟨rfl, rfl⟩ | rfl | ⟨n, m, e, rfl, rfl, hm⟩
  · exact h2
  · rcases h2 with rfl | ⟨h, _⟩ | rfl | ⟨n, m, e, h, _, _⟩
    · exact Or.inr (Or.inl ⟨rfl, rfl⟩)
    · cases h
    · exact Sh.le_flat _
    · cases h
  · rcases h2 with rfl | ⟨h, _⟩ | rfl | ⟨n, m, e, h, _, _⟩
    · exact Sh.le_flat _
    · cases h
    · exact Sh.le_flat _
    · cases h
  · rcases h2 with rfl | ⟨h, _⟩ | rfl | ⟨n', m', e', h, rfl, hm'⟩
    · exact Sh.le_slice e hm
    · cases h
    · exact Sh.le_flat _
    · injection h with h1 h2
      subst h1; subst h2
      exact Sh.le_slice _ (by omega)

/-- the shape at the end of an index path below a value of shape `ρ₀` -/
inductive ShAt : Sh → List Step → Sh → Prop
  | nil (ρ : Sh) : ShAt ρ [] ρ
  | cons (n : Nat) (e : Sh) (i : Nat) (r : List Step) (ρ : Sh) (h : ShAt e r ρ) : ShAt (.slice n e) (.index i :: r) ρ
  | flat (r : List Step) : ShAt .flat r .flat

theorem ShAt.of_flat {s : List Step} {d : Sh} (h : ShAt .flat s d) : d = .flat := by
  cases h <;> rfl

theorem ShAt.append {a b d : Sh} {r s : List Step} (h1 : ShAt a r b) (h2 : ShAt b s d) :
    ShAt a (r ++ s) d := by
  induction h1 with
  | nil ρ => exact h2
  | cons n e i r ρ h ih => exact ShAt.cons n e i (r ++ s) d (ih h2)
  | flat r => rw [h2.of_flat]; exact ShAt.flat _

theorem ShAt.snoc {a : Sh} {r : List Step} {n : Nat} {e : Sh} (h : ShAt a r (.slice n e)) (i : Nat) :
    ShAt a (r ++ [.index i]) e :=
  h.append (ShAt.cons n e i [] _ (ShAt.nil _))

/-! ## get / set -/

theorem get_append (v : GoVal) (r s : List Step) :
    v.get (r ++ s) = (v.get r).bind (fun a => a.get s) := by
  induction r generalizing v with
  | nil => simp
  | cons st r ih =>
    cases st with
    | field i =>
      cases v <;> simp only [List.cons_append, GoVal.get, Option.bind]
      rename_i fs
      cases fs[i]? with
      | none => rfl
      | some f => exact ih f
    | index i =>
      cases v <;> simp only [List.cons_append, GoVal.get, Option.bind]
      rename_i et es h
      cases es[i]? with
      | none => rfl
      | some f => exact ih f

/-- what a non-empty path can be followed through -/
inductive StepView : GoVal → Step → List GoVal → Nat → Prop
  | field (fs : List GoVal) (i : Nat) : StepView (.struct fs) (.field i) fs i
  | index (et : GoType) (es h : List GoVal) (i : Nat) : StepView (.slice et es h) (.index i) es i

/-- rebuild the container with element `i` replaced -/
def rebuild : GoVal → Nat → GoVal → GoVal
  | .struct fs, i, x => .struct (fs.set i x)
  | .slice et es h, i, x => .slice et (es.set i x) h
  | v, _, _ => v

theorem get_cons_some (v : GoVal) (st : Step) (r : List Step) (a : GoVal) (h : v.get (st :: r) = some a) :
    ∃ xs i x, StepView v st xs i ∧ xs[i]? = some x ∧ x.get r = some a := by
  cases st with
  | field i =>
    cases v <;> simp only [GoVal.get] at h <;> try (exact absurd h (by simp))
    rename_i fs
    cases hf : fs[i]? with
    | none => simp [hf] at h
    | some f => simp only [hf] at h; exact ⟨fs, i, f, .field fs i, hf, h⟩
  | index i =>
    cases v <;> simp only [GoVal.get] at h <;> try (exact absurd h (by simp))
    rename_i et es hd
    cases hf : es[i]? with
    | none => simp [hf] at h
    | some f => simp only [hf] at h; exact ⟨es, i, f, .index et es hd i, hf, h⟩

theorem set_cons_some (v : GoVal) (st : Step) (r : List Step) (w v' : GoVal) (h : v.set (st :: r) w = some v') :
    ∃ xs i x x', StepView v st xs i ∧ xs[i]? = some x ∧ x.set r w = some x' ∧ v' = rebuild v i x' := by
  cases st with
  | field i =>
    cases v <;> simp only [GoVal.set] at h <;> try (exact absurd h (by simp))
    rename_i fs
    cases hf : fs[i]? with
    | none => simp [hf] at h
    | some f =>
      simp only [hf] at h
      cases hs : f.set r w with
      | none => simp [hs] at h
      | some f' =>
        simp only [hs, Option.map_some, Option.some.injEq] at h
        exact ⟨fs, i, f, f', .field fs i, hf, hs, h.symm⟩
  | index i =>
    cases v <;> simp only [GoVal.set] at h <;> try (exact absurd h (by simp))
    rename_i et es hd
    cases hf : es[i]? with
    | none => simp [hf] at h
    | some f =>
      simp only [hf] at h
      cases hs : f.set r w with
      | none => simp [hs] at h
      | some f' =>
        simp only [hs, Option.map_some, Option.some.injEq] at h
        exact ⟨es, i, f, f', .index et es hd i, hf, hs, h.symm⟩

theorem set_view (v : GoVal) (st : Step) (r : List Step) (w : GoVal) (xs : List GoVal) (i : Nat) (x x' : GoVal)
    (hv : StepView v st xs i) (hx : xs[i]? = some x) (hs : x.set r w = some x') :
    v.set (st :: r) w = some (rebuild v i x') := by
  cases hv <;> simp [GoVal.set, hx, hs, rebuild]

theorem get_rebuild (v : GoVal) (st : Step) (r : List Step) (xs : List GoVal) (i : Nat) (x x' : GoVal)
    (hv : StepView v st xs i) (hx : xs[i]? = some x) : (rebuild v i x').get (st :: r) = x'.get r := by
  have hi : i < xs.length := by
    rcases Nat.lt_or_ge i xs.length with h | h
    · exact h
    · rw [List.getElem?_eq_none h] at hx; cases hx
  cases hv <;> simp [GoVal.get, rebuild, List.getElem?_set_self hi]

theorem set_of_get (v : GoVal) (r : List Step) (w old : GoVal) (h : v.get r = some old) :
    ∃ v', v.set r w = some v' := by
  induction r generalizing v with
  | nil => exact ⟨w, by simp⟩
  | cons st r ih =>
    obtain ⟨xs, i, x, hv, hx, hg⟩ := get_cons_some v st r old h
    obtain ⟨x', hx'⟩ := ih x hg
    exact ⟨_, set_view v st r w xs i x x' hv hx hx'⟩

theorem get_set_self (v : GoVal) (r : List Step) (w v' : GoVal) (h : v.set r w = some v') :
    v'.get r = some w := by
  induction r generalizing v v' with
  | nil => simp at h; subst h; simp
  | cons st r ih =>
    obtain ⟨xs, i, x, x', hv, hx, hs, rfl⟩ := set_cons_some v st r w v' h
    rw [get_rebuild v st r xs i x x' hv hx]
    exact ih x x' hs

/-- a store below a prefix: the value at the prefix is the old one with the store done inside -/
theorem get_set_prefix (v : GoVal) (pre r : List Step) (w a v' : GoVal) (hg : v.get pre = some a)
    (hs : v.set (pre ++ r) w = some v') : ∃ a', a.set r w = some a' ∧ v'.get pre = some a' := by
  induction pre generalizing v v' a with
  | nil =>
    simp at hg
    subst hg
    exact ⟨v', hs, by simp⟩
  | cons st pre ih =>
    obtain ⟨xs, i, x, x', hv, hx, hs', rfl⟩ := set_cons_some v st (pre ++ r) w v' hs
    obtain ⟨xs2, i2, x2, hv2, hx2, hg2⟩ := get_cons_some v st pre a hg
    have : xs2 = xs ∧ i2 = i := by cases hv <;> cases hv2 <;> exact ⟨rfl, rfl⟩
    obtain ⟨rfl, rfl⟩ := this
    rw [hx] at hx2
    injection hx2 with hx2
    subst hx2
    obtain ⟨a', ha1, ha2⟩ := ih x a x' hg2 hs'
    exact ⟨a', ha1, by rw [get_rebuild v st pre xs2 i2 x x' hv hx]; exact ha2⟩

theorem mem_set_cases {α : Type} (l : List α) (i : Nat) (a x : α) (h : x ∈ l.set i a) : x = a ∨ x ∈ l := by
  rcases List.mem_or_eq_of_mem_set h with h | h
  · exact Or.inr h
  · exact Or.inl h

/-- a store of a fitting value inside a shaped value keeps the shape -/
theorem ok_set {ρ₀ ρ : Sh} {r : List Step} (hat : ShAt ρ₀ r ρ) (a w a' : GoVal) (ha : ρ₀.ok a)
    (hs : a.set r w = some a') (hw : ρ.ok w) : ρ₀.ok a' := by
  induction hat generalizing a a' with
  | nil ρ => simp at hs; subst hs; exact hw
  | flat r => unfold Sh.ok; trivial
  | cons n e i r ρ h ih =>
    obtain ⟨xs, i', f, f', hv, hf, hs', rfl⟩ := set_cons_some a (.index i) r w a' hs
    cases hv
    rename_i et hd
    unfold Sh.ok at ha
    rcases ha with ⟨et', _, hv, _⟩ | ⟨et', es', hd', hz, hv, hes, hhd, hn⟩
    · cases hv
    · injection hv with h1 h2 h3
      subst h1; subst h2; subst h3
      have hfm : f ∈ xs := List.mem_of_getElem? hf
      have hf'ok : e.ok f' := ih f f' (hes f hfm) hs' hw
      show Sh.ok (.slice n e) _
      unfold Sh.ok
      refine Or.inr ⟨et, xs.set i f', hd, hz, rfl, ?_, hhd, by simpa using hn⟩
      intro x hx
      rcases mem_set_cases xs i f' x hx with h | h
      · subst h; exact hf'ok
      · exact hes x h

end SF.Unf
