/-
  The sub-universe of property C12 handled by the proofs: GOOD types — built from every
  kind, with named types that have no methods, no registered fold function and are not
  recursive (no `ref`; no name twice on a path) — typed values, depth measures.
-/
import SF.Proofs.FoldTags
namespace SF.FoldProofs
open SF SF.Gotype SF.Gotype.Fold

/-- strip pointers (through one level of names, as `reflect.Type.Elem` does), count them:
`baseType` without fuel -/
def stripPtr : GoType → Nat × GoType
  | .ptr e => ((stripPtr e).1 + 1, (stripPtr e).2)
  | .named _ _ (.ptr e) => ((stripPtr e).1 + 1, (stripPtr e).2)
  | t => (0, t)

def isIfaceT (t : GoType) : Bool :=
  match t.under with
  | .iface => true
  | _ => false

/-- an `inline` field of interface type (behind pointers): folded through an
`ExpectObjVisitor`, outside the universe of these proofs -/
def inlineIfaceF (f : Field) : Bool :=
  match fieldKind f with
  | .inline => isIfaceT (stripPtr f.typ).2
  | _ => false

/-- an `omitempty` field of interface type (behind pointers): its emptiness is resolved lazily
through the dynamic types (`resolveInterfaceLazy`), by a recursion with fuel 1000 in the mirror -/
def lazyField (f : Field) : Bool :=
  match fieldKind f with
  | .omitEmpty _ => isIfaceT (stripPtr f.typ).2
  | _ => false

/-- bound on the depth of a value stored in a `lazyField` (`2 * depth + 3 ≤ 1000`) -/
def lazyBound : Nat := 498

def noMethods (m : Methods) : Bool := m.folder == .none && m.isZero == .none

def unnamedHead : GoType → Bool
  | .named .. | .ref _ => false
  | _ => true

mutual
/-- `goodT seen T`: every named type in `T` has no methods, no registered fold function, an
unnamed underlying type, and a name that is neither in `seen` nor the name of a type it is
nested in; no `ref`; no inlined / omitempty interface field -/
def goodT : List String → GoType → Bool
  | _, .bool | _, .string | _, .int _ | _, .float32 | _, .float64 | _, .iface | _, .other _ => true
  | sn, .slice e | sn, .array _ e | sn, .ptr e | sn, .chan e => goodT sn e
  | sn, .map k e => goodT sn k && goodT sn e
  | sn, .struct fs => goodFs sn fs
  | sn, .named n m u =>
    !sn.contains n && noMethods m && !userFoldTypes.contains n && unnamedHead u && goodT (n :: sn) u
  | _, .ref _ => false
def goodFs : List String → List Field → Bool
  | _, [] => true
  | sn, f :: fs => goodF sn f && goodFs sn fs
def goodF : List String → Field → Bool
  | sn, .mk n t tag a => goodT sn t && !inlineIfaceF (.mk n t tag a)
end

/-- the names in scope below the head of `T` -/
def snU (sn : List String) : GoType → List String
  | .named n _ _ => n :: sn
  | .ref n => n :: sn
  | _ => sn

mutual
/-- nesting depth of a type -/
def tdepth : GoType → Nat
  | .slice e | .array _ e | .ptr e | .chan e => tdepth e + 1
  | .map k e => max (tdepth k) (tdepth e) + 1
  | .struct fs => tdepthFs fs + 1
  | .named _ _ u => tdepth u + 1
  | _ => 0
def tdepthFs : List Field → Nat
  | [] => 0
  | f :: fs => max (tdepthF f) (tdepthFs fs)
def tdepthF : Field → Nat
  | .mk _ t _ _ => tdepth t
end

mutual
/-- nesting depth of a value -/
def vdepth : GoVal → Nat
  | .slice xs | .array xs | .struct xs => vdepthL xs + 1
  | .map ms => vdepthP ms + 1
  | .ptr v | .iface _ v => vdepth v + 1
  | _ => 0
def vdepthL : List GoVal → Nat
  | [] => 0
  | x :: xs => max (vdepth x) (vdepthL xs)
def vdepthP : List (GoVal × GoVal) → Nat
  | [] => 0
  | (k, v) :: ms => max (max (vdepth k) (vdepth v)) (vdepthP ms)
end

/-- bound on the depth of the dynamic types met inside a value (compile fuel of
`foldAnyReflect`: `4 * tdepth + 4 ≤ compileFuel`) -/
def dynBound : Nat := 499

/-- the string keys of a map value -/
def mapKeys (ms : List (GoVal × GoVal)) : List (Option Bytes) := ms.map fun m => asStr m.1

mutual
/-- `v` is a value of the good type `T`: shapes fit, struct values have one value per field,
map keys are distinct, the dynamic types of interface values are good (and not absurdly deep),
values of `omitempty` interface fields are not deeper than the mirror's resolver recursion -/
def wt : GoType → GoVal → Bool
  | T, v =>
    match T.under, v with
    | .bool, .bool _ => true
    | .string, .str _ => true
    | .int _, .int _ => true
    | .float32, .f32 _ => true
    | .float64, .f64 _ => true
    | .slice _, .nilSlice => true
    | .slice e, .slice xs => wtL e xs
    | .array _ e, .array xs => wtL e xs
    | .map _ _, .nilMap => true
    | .map k e, .map ms => wtP k e ms && decide (mapKeys ms).Nodup
    | .ptr _, .nilPtr => true
    | .ptr e, .ptr x => wt e x
    | .iface, .nilIface => true
    | .iface, .iface dt dv => goodT [] dt && decide (tdepth dt ≤ dynBound) && wt dt dv
    | .struct fs, .struct vs => wtF fs vs
    | .chan _, _ => true
    | .other _, _ => true
    | _, _ => false
def wtL : GoType → List GoVal → Bool
  | _, [] => true
  | e, x :: xs => wt e x && wtL e xs
def wtP : GoType → GoType → List (GoVal × GoVal) → Bool
  | _, _, [] => true
  | k, e, (kv, x) :: ms => wt k kv && wt e x && wtP k e ms
def wtF : List Field → List GoVal → Bool
  | [], [] => true
  | f :: fs, v :: vs => wt f.typ v && (!lazyField f || decide (vdepth v ≤ lazyBound)) && wtF fs vs
  | _, _ => false
end

/-! ## head facts about good types -/

theorem whnf_good {sn : List String} {T : GoType} (h : goodT sn T = true) : T.whnf = T := by
  cases T <;> simp_all [GoType.whnf, goodT]

theorem under_unnamed {T : GoType} (h : unnamedHead T = true) : T.under = T := by
  cases T <;> simp_all [GoType.under, unnamedHead]

theorem good_under {sn : List String} {T : GoType} (h : goodT sn T = true) :
    goodT (snU sn T) T.under = true ∧ unnamedHead T.under = true := by
  cases T <;> simp_all [GoType.under, goodT, snU, unnamedHead]

theorem under_under {sn : List String} {T : GoType} (h : goodT sn T = true) : T.under.under = T.under :=
  under_unnamed (good_under h).2

theorem name_unnamed {T : GoType} (h : unnamedHead T = true) : T.menagerieName? = none := by
  cases T <;> simp_all [GoType.menagerieName?, unnamedHead]

theorem isNamed_unnamed {T : GoType} (h : unnamedHead T = true) : T.isNamed = false := by
  cases T <;> simp_all [GoType.isNamed, unnamedHead]

theorem userReg_good (o : FoldOpts) {sn : List String} {T : GoType} (h : goodT sn T = true) :
    userReg o T = none := by
  unfold userReg
  split
  · rfl
  · rw [whnf_good h]
    cases T <;> try rfl
    · rename_i e
      have he : goodT sn e = true := by simpa [goodT] using h
      simp only [whnf_good he]
      cases e <;> first | rfl | simp_all [goodT]
    · simp_all [goodT]

theorem implementsFolder_good {sn : List String} {T : GoType} (h : goodT sn T = true) :
    implementsFolder T = false := by
  unfold implementsFolder
  rw [whnf_good h]
  cases T <;> try rfl
  · rename_i e
    have he : goodT sn e = true := by simpa [goodT] using h
    simp only [whnf_good he]
    cases e <;> first | rfl | simp_all [goodT, noMethods]
  · simp_all [goodT, noMethods]

theorem implementsPtrFolder_good {sn : List String} {T : GoType} (h : goodT sn T = true) :
    implementsPtrFolder T = false :=
  implementsFolder_good (sn := sn) (T := .ptr T) (by simpa [goodT] using h)

theorem implementsIsZeroer_good {sn : List String} {T : GoType} (h : goodT sn T = true) :
    implementsIsZeroer T = false := by
  unfold implementsIsZeroer
  rw [whnf_good h]
  cases T <;> try rfl
  · rename_i e
    have he : goodT sn e = true := by simpa [goodT] using h
    simp only [whnf_good he]
    cases e <;> first | rfl | simp_all [goodT, noMethods]
  · simp_all [goodT, noMethods]

theorem implementsPtrIsZeroer_good {sn : List String} {T : GoType} (h : goodT sn T = true) :
    implementsPtrIsZeroer T = false :=
  implementsIsZeroer_good (sn := sn) (T := .ptr T) (by simpa [goodT] using h)

theorem customOf_good (reg : Bool) {sn : List String} {T : GoType} (h : goodT sn T = true) :
    Rules.customOf reg T = none := by
  unfold Rules.customOf
  rw [whnf_good h]
  cases T <;> first | rfl | simp_all [goodT, noMethods]

theorem hasIsZero_good {sn : List String} {T : GoType} (h : goodT sn T = true) : Rules.hasIsZero T = none := by
  unfold Rules.hasIsZero
  rw [whnf_good h]
  cases T <;> first | rfl | simp_all [goodT, noMethods]

end SF.FoldProofs
