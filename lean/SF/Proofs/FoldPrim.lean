/-
  Scalars, typed arrays (`OnXArray`) and typed maps (`OnXObject`): what the fast paths of the
  mirror emit, against the specification.
-/
import SF.Proofs.FoldSem
import SF.Proofs.FoldSpec
namespace SF.FoldProofs
open SF SF.Gotype SF.Gotype.Fold SF.Gotype.Rules

/-! ## NaN quieting -/

theorem u32_and_or_distrib_right (x y z : UInt32) : (x ||| y) &&& z = (x &&& z) ||| (y &&& z) := by
  simp [← UInt32.toBitVec_inj, BitVec.and_or_distrib_right]

theorem or_and_mask (b : UInt32) : (b ||| 0x00400000) &&& 0x7f800000 = b &&& 0x7f800000 := by
  rw [u32_and_or_distrib_right]
  have : (0x00400000 : UInt32) &&& 0x7f800000 = 0 := by decide
  rw [this]; simp

theorem or_and_mant (b : UInt32) : (b ||| 0x00400000) &&& 0x007fffff ≠ 0 := by
  rw [u32_and_or_distrib_right]
  have : (0x00400000 : UInt32) &&& 0x007fffff = 0x00400000 := by decide
  rw [this]
  intro h
  have := (UInt32.or_eq_zero_iff.mp h).2
  revert this; decide

theorem same32_quiet (b : UInt32) : same32 b (Fold.quiet32 b) := by
  unfold Fold.quiet32
  by_cases h : Fold.isNaN32 b = true
  · simp only [h, if_true]
    right
    have h' := h
    unfold Fold.isNaN32 at h
    unfold Rules.isNaN32
    simp only [Bool.and_eq_true, beq_iff_eq, bne_iff_ne, ne_eq] at h ⊢
    exact ⟨h, by rw [or_and_mask]; exact h.1, or_and_mant b⟩
  · simp only [h, Bool.false_eq_true, if_false]
    exact Or.inl rfl

/-! ## one scalar -/

/-- the specification on a value of a primitive type -/
theorem foldF_prim_inv {m : Nat} {reg : Bool} {T : GoType} {p : Prim} {v : GoVal} {r : RVal}
    (hp : primOf? T = some p) (h : foldF m reg T v = .ok r) :
    (∃ b, p = .bool ∧ v = .bool b ∧ r = .bool b) ∨
    (∃ s, p = .string ∧ v = .str s ∧ r = .str s) ∨
    (∃ k i, p = .num k ∧ v = .int i ∧ r = .int i) ∨
    (∃ b, p = .f32 ∧ v = .f32 b ∧ r = .f32 b) ∨
    (∃ b, p = .f64 ∧ v = .f64 b ∧ r = .f64 b) := by
  cases m with
  | zero => simp [foldF] at h
  | succ m =>
    cases T <;> simp only [primOf?, Option.some.injEq, reduceCtorEq] at hp <;> subst hp <;>
      cases v <;> first
        | (simp only [foldF_bool, foldF_string, foldF_int, foldF_f32, foldF_f64, Except.ok.injEq] at h
           subst h
           simp)
        | (exfalso; revert h; simp [foldF, customOf, GoType.whnf, GoType.under])

theorem emit_x {s : St} (hs : Inv s) {x : XEv} (hx : reorderByHint s x = x) {g : Val} {r : RVal}
    (he : Enc x.expand g) (hr : Rel r g) : ValOut s (emit s .user x) r := by
  obtain ⟨s', h1, h2⟩ := emit_ok s x hs
  rw [hx] at h2
  exact ⟨s', [x], g, h1, h2, by simpa [expandAll_single] using he, hr⟩

theorem prim_sound {m : Nat} {reg : Bool} {T : GoType} {p : Prim} {v : GoVal} {r : RVal}
    (hp : primOf? T = some p) (h : foldF m reg T v = .ok r) (via : Bool) {s : St} (hs : Inv s) :
    ∃ x, primEv via p v = some x ∧ ValOut s (emit s .user x) r := by
  rcases foldF_prim_inv hp h with ⟨b, rfl, rfl, rfl⟩ | ⟨b, rfl, rfl, rfl⟩ | ⟨k, i, rfl, rfl, rfl⟩ |
    ⟨b, rfl, rfl, rfl⟩ | ⟨b, rfl, rfl, rfl⟩
  · exact ⟨_, rfl, emit_scalar hs (Enc_bool b) (by simp [Rel])⟩
  · exact ⟨_, rfl, emit_scalar hs (Enc_str b) (by simp [Rel])⟩
  · exact ⟨_, rfl, emit_scalar hs (Enc_num _ i) (by simp [Rel])⟩
  · refine ⟨_, rfl, emit_scalar hs (Enc_f32 _) ?_⟩
    simp only [Rel]
    refine ⟨_, rfl, ?_⟩
    cases via
    · exact Or.inl rfl
    · exact same32_quiet b
  · exact ⟨_, rfl, emit_scalar hs (Enc_f64 b) (by simp [Rel, same64])⟩

theorem elem_sound {m : Nat} {reg : Bool} {T : GoType} {p : Prim} {v : GoVal} {r : RVal}
    (hp : primOf? T = some p) (h : foldF m reg T v = .ok r) {s : St} (hs : Inv s) :
    ∃ x, elemEv p v = some x ∧ ValOut s (emit s .user x) r := by
  rcases foldF_prim_inv hp h with ⟨b, rfl, rfl, rfl⟩ | ⟨b, rfl, rfl, rfl⟩ | ⟨k, i, rfl, rfl, rfl⟩ |
    ⟨b, rfl, rfl, rfl⟩ | ⟨b, rfl, rfl, rfl⟩
  · exact ⟨_, rfl, emit_scalar hs (Enc_bool b) (by simp [Rel])⟩
  · exact ⟨_, rfl, emit_scalar hs (Enc_str b) (by simp [Rel])⟩
  · exact ⟨_, rfl, emit_scalar hs (Enc_num _ i) (by simp [Rel])⟩
  · exact ⟨_, rfl, emit_scalar hs (Enc_f32 b) (by simp [Rel, same32])⟩
  · exact ⟨_, rfl, emit_scalar hs (Enc_f64 b) (by simp [Rel, same64])⟩

/-- a value of a type of primitive kind, named or not -/
theorem prim_sound_under {m : Nat} {reg : Bool} {sn : List String} {T : GoType} {p : Prim} {v : GoVal}
    {r : RVal} (hg : goodT sn T = true) (hp : primOf? T.under = some p) (h : foldF m reg T v = .ok r)
    (via : Bool) {s : St} (hs : Inv s) :
    ∃ x, primEv via p v = some x ∧ ValOut s (emit s .user x) r := by
  cases m with
  | zero => simp [foldF] at h
  | succ m =>
    rw [foldF_under m reg hg] at h
    exact prim_sound hp h via hs

/-! ## typed arrays -/

theorem allSome_of_All2 {α β : Type} {as : α → Option β} {xs : List α} {bs : List β}
    (h : All2 (fun x b => as x = some b) xs bs) : allSome (xs.map as) = some bs := by
  induction h with
  | nil => rfl
  | cons h1 _ ih => simp [allSome, h1, ih]

theorem split_payload {α β γ : Type} {as : α → Option β} {inj : β → γ} {xs : List α} {rs : List γ}
    (h : All2 (fun x r => ∃ b, as x = some b ∧ r = inj b) xs rs) :
    ∃ bs, All2 (fun x b => as x = some b) xs bs ∧ rs = bs.map inj := by
  induction h with
  | nil => exact ⟨[], .nil, rfl⟩
  | cons h1 _ ih =>
    obtain ⟨b, hb, rfl⟩ := h1
    obtain ⟨bs, hbs, rfl⟩ := ih
    exact ⟨b :: bs, .cons hb hbs, rfl⟩

theorem RelList_map {β : Type} (inj : β → RVal) (injV : β → Val) (h : ∀ b, Rel (inj b) (injV b))
    (bs : List β) : RelList (bs.map inj) (bs.map injV) := by
  induction bs with
  | nil => simp [RelList]
  | cons b bs ih => simp only [List.map_cons, RelList]; exact ⟨_, _, rfl, h b, ih⟩

theorem arr_sound {m : Nat} {reg : Bool} {e : GoType} {p : Prim} {xs : List GoVal} {rs : List RVal}
    (hp : primOf? e = some p) (h : All2 (fun x r => foldF m reg e x = .ok r) xs rs)
    (bytes : Bool) {s : St} (hs : Inv s) :
    ∃ x, arrEv bytes p xs = some x ∧ ValOut s (emit s .user x) (.arr rs) := by
  cases p with
  | bool =>
    have h' : All2 (fun x r => ∃ b, asBool x = some b ∧ r = RVal.bool b) xs rs := by
      refine h.imp ?_
      intro x r _ _ hx
      rcases foldF_prim_inv hp hx with ⟨b, _, rfl, rfl⟩ | ⟨_, hc, _⟩ | ⟨_, _, hc, _⟩ | ⟨_, hc, _⟩ | ⟨_, hc, _⟩ <;>
        first | exact ⟨_, rfl, rfl⟩ | cases hc
    obtain ⟨bs, hbs, rfl⟩ := split_payload h'
    refine ⟨.boolArr bs, by simp [arrEv, allSome_of_All2 hbs], ?_⟩
    refine emit_x hs (reorder_boolArr s bs) (Enc_boolArr bs) ?_
    simp only [Rel]
    exact ⟨_, rfl, RelList_map _ _ (fun b => by simp [Rel]) bs⟩
  | string =>
    have h' : All2 (fun x r => ∃ b, asStr x = some b ∧ r = RVal.str b) xs rs := by
      refine h.imp ?_
      intro x r _ _ hx
      rcases foldF_prim_inv hp hx with ⟨_, hc, _⟩ | ⟨b, _, rfl, rfl⟩ | ⟨_, _, hc, _⟩ | ⟨_, hc, _⟩ | ⟨_, hc, _⟩ <;>
        first | exact ⟨_, rfl, rfl⟩ | cases hc
    obtain ⟨bs, hbs, rfl⟩ := split_payload h'
    refine ⟨.strArr bs, by simp [arrEv, allSome_of_All2 hbs], ?_⟩
    refine emit_x hs (reorder_strArr s bs) (Enc_strArr bs) ?_
    simp only [Rel]
    exact ⟨_, rfl, RelList_map _ _ (fun b => by simp [Rel]) bs⟩
  | num k =>
    have h' : All2 (fun x r => ∃ b, asInt x = some b ∧ r = RVal.int b) xs rs := by
      refine h.imp ?_
      intro x r _ _ hx
      rcases foldF_prim_inv hp hx with ⟨_, hc, _⟩ | ⟨_, hc, _⟩ | ⟨_, b, _, rfl, rfl⟩ | ⟨_, hc, _⟩ | ⟨_, hc, _⟩ <;>
        first | exact ⟨_, rfl, rfl⟩ | cases hc
    obtain ⟨bs, hbs, rfl⟩ := split_payload h'
    refine ⟨.numArr (if bytes && k == .u8 then .byte else k) bs, by simp [arrEv, allSome_of_All2 hbs], ?_⟩
    refine emit_x hs (reorder_numArr s _ bs) (Enc_numArr _ bs) ?_
    simp only [Rel]
    exact ⟨_, rfl, RelList_map _ _ (fun b => by simp [Rel]) bs⟩
  | f32 =>
    have h' : All2 (fun x r => ∃ b, asF32 x = some b ∧ r = RVal.f32 b) xs rs := by
      refine h.imp ?_
      intro x r _ _ hx
      rcases foldF_prim_inv hp hx with ⟨_, hc, _⟩ | ⟨_, hc, _⟩ | ⟨_, _, hc, _⟩ | ⟨b, _, rfl, rfl⟩ | ⟨_, hc, _⟩ <;>
        first | exact ⟨_, rfl, rfl⟩ | cases hc
    obtain ⟨bs, hbs, rfl⟩ := split_payload h'
    refine ⟨.f32Arr bs, by simp [arrEv, allSome_of_All2 hbs], ?_⟩
    refine emit_x hs (reorder_f32Arr s bs) (Enc_f32Arr bs) ?_
    simp only [Rel]
    exact ⟨_, rfl, RelList_map _ _ (fun b => by simp [Rel, same32]) bs⟩
  | f64 =>
    have h' : All2 (fun x r => ∃ b, asF64 x = some b ∧ r = RVal.f64 b) xs rs := by
      refine h.imp ?_
      intro x r _ _ hx
      rcases foldF_prim_inv hp hx with ⟨_, hc, _⟩ | ⟨_, hc, _⟩ | ⟨_, _, hc, _⟩ | ⟨_, hc, _⟩ | ⟨b, _, rfl, rfl⟩ <;>
        first | exact ⟨_, rfl, rfl⟩ | cases hc
    obtain ⟨bs, hbs, rfl⟩ := split_payload h'
    refine ⟨.f64Arr bs, by simp [arrEv, allSome_of_All2 hbs], ?_⟩
    refine emit_x hs (reorder_f64Arr s bs) (Enc_f64Arr bs) ?_
    simp only [Rel]
    exact ⟨_, rfl, RelList_map _ _ (fun b => by simp [Rel, same64]) bs⟩

/-! ## typed maps -/

theorem entryF_ok {m : Nat} {reg : Bool} {e : GoType} {kx : GoVal × GoVal} {mem : Bytes × RVal}
    (h : entryF m reg e kx = .ok mem) : kx.1 = .str mem.1 ∧ foldF m reg e kx.2 = .ok mem.2 := by
  unfold entryF at h
  cases hk : keyOf kx.1 with
  | error err => simp [hk] at h
  | ok kb =>
    cases hf : foldF m reg e kx.2 with
    | error err => simp [hk, hf] at h
    | ok r =>
      simp only [hk, hf, Except.ok.injEq] at h
      subst h
      refine ⟨?_, rfl⟩
      cases hk1 : kx.1 <;> simp_all [keyOf]

/-- what the specification says about the entries of a map value -/
def EntrySpec (m : Nat) (reg : Bool) (e : GoType) (kx : GoVal × GoVal) (mem : Bytes × RVal) : Prop :=
  kx.1 = .str mem.1 ∧ foldF m reg e kx.2 = .ok mem.2

theorem entries_spec {m : Nat} {reg : Bool} {e : GoType} {ms : List (GoVal × GoVal)}
    {mems : List (Bytes × RVal)} (h : ms.mapM (entryF m reg e) = .ok mems) :
    All2 (EntrySpec m reg e) ms mems :=
  (mapM_ok h).imp fun _ _ _ _ hx => entryF_ok hx

theorem mapKeys_eq {m : Nat} {reg : Bool} {e : GoType} {ms : List (GoVal × GoVal)}
    {mems : List (Bytes × RVal)} (h : All2 (EntrySpec m reg e) ms mems) :
    mapKeys ms = (keysOf mems).map some := by
  induction h with
  | nil => rfl
  | @cons a b _ _ h1 _ ih =>
    simp only [mapKeys, keysOf, List.map_cons] at ih ⊢
    rw [ih, h1.1]
    rfl

theorem keys_nodup {m : Nat} {reg : Bool} {e : GoType} {ms : List (GoVal × GoVal)}
    {mems : List (Bytes × RVal)} (h : All2 (EntrySpec m reg e) ms mems) (hnd : (mapKeys ms).Nodup) :
    (keysOf mems).Nodup := by
  rw [mapKeys_eq h] at hnd
  exact List.Pairwise.of_map some (fun a b hab e => hab (by rw [e])) hnd

theorem split_entries {β : Type} {as : GoVal → Option β} {inj : β → RVal}
    {ms : List (GoVal × GoVal)} {mems : List (Bytes × RVal)}
    (h : All2 (fun kx mem => kx.1 = GoVal.str mem.1 ∧ ∃ b, as kx.2 = some b ∧ mem.2 = inj b) ms mems) :
    ∃ es : List (Bytes × β), entries as ms = some es ∧ mems = es.map (fun e => (e.1, inj e.2)) := by
  induction h with
  | nil => exact ⟨[], rfl, rfl⟩
  | @cons a b _ _ h1 _ ih =>
    obtain ⟨hk, x, hx, hb⟩ := h1
    obtain ⟨es, hes, rfl⟩ := ih
    obtain ⟨k, v⟩ := a
    obtain ⟨kb, r⟩ := b
    simp only at hk hx hb
    subst hk hb
    refine ⟨(kb, x) :: es, ?_, rfl⟩
    unfold entries at hes ⊢
    have hk : asStr (GoVal.str kb) = some kb := rfl
    simp only [List.map_cons, allSome, hk, hx]
    rw [hes]
    rfl

theorem RelMems_map {β : Type} (inj : β → RVal) (injV : β → Val) (h : ∀ b, Rel (inj b) (injV b))
    (es : List (Bytes × β)) :
    RelMems (es.map fun e => (e.1, inj e.2)) (es.map fun e => (e.1, injV e.2)) := by
  induction es with
  | nil => simp [RelMems]
  | cons e es ih => simp only [List.map_cons, RelMems]; exact ⟨_, _, rfl, h e.2, ih⟩

/-- a typed map event whose members the hint may permute -/
theorem emit_obj {β : Type} {s : St} (hs : Inv s) (mk : List (Bytes × β) → XEv)
    (inj : β → RVal) (injV : β → Val) (hrel : ∀ b, Rel (inj b) (injV b))
    (henc : ∀ es, Enc (mk es).expand (.obj (es.map fun e => (e.1, injV e.2))))
    (es : List (Bytes × β))
    (hre : ∃ es', reorderByHint s (mk es) = mk es' ∧ es'.Perm es)
    (hnd : (es.map (·.1)).Nodup) :
    ValOut s (emit s .user (mk es)) (.obj [(true, es.map fun e => (e.1, inj e.2))]) := by
  obtain ⟨s', h1, h2⟩ := emit_ok s (mk es) hs
  obtain ⟨es', hre1, hperm⟩ := hre
  rw [hre1] at h2
  refine ⟨s', [mk es'], _, h1, h2, by simpa [expandAll_single] using henc es', ?_⟩
  simp only [Rel]
  refine ⟨_, rfl, RelSegs_bag (RelMems_map inj injV hrel es) (hperm.map _) ?_⟩
  simpa [keysOf, List.map_map, Function.comp_def] using hnd

theorem payload_bool {m : Nat} {reg : Bool} {T : GoType} {v : GoVal} {r : RVal}
    (hp : primOf? T = some .bool) (h : foldF m reg T v = .ok r) : ∃ b, asBool v = some b ∧ r = .bool b := by
  rcases foldF_prim_inv hp h with ⟨b, _, rfl, rfl⟩ | ⟨_, hc, _⟩ | ⟨_, _, hc, _⟩ | ⟨_, hc, _⟩ | ⟨_, hc, _⟩ <;>
    first | exact ⟨_, rfl, rfl⟩ | cases hc
theorem payload_str {m : Nat} {reg : Bool} {T : GoType} {v : GoVal} {r : RVal}
    (hp : primOf? T = some .string) (h : foldF m reg T v = .ok r) : ∃ b, asStr v = some b ∧ r = .str b := by
  rcases foldF_prim_inv hp h with ⟨_, hc, _⟩ | ⟨b, _, rfl, rfl⟩ | ⟨_, _, hc, _⟩ | ⟨_, hc, _⟩ | ⟨_, hc, _⟩ <;>
    first | exact ⟨_, rfl, rfl⟩ | cases hc
theorem payload_int {m : Nat} {reg : Bool} {T : GoType} {k : NumKind} {v : GoVal} {r : RVal}
    (hp : primOf? T = some (.num k)) (h : foldF m reg T v = .ok r) : ∃ b, asInt v = some b ∧ r = .int b := by
  rcases foldF_prim_inv hp h with ⟨_, hc, _⟩ | ⟨_, hc, _⟩ | ⟨_, b, _, rfl, rfl⟩ | ⟨_, hc, _⟩ | ⟨_, hc, _⟩ <;>
    first | exact ⟨_, rfl, rfl⟩ | cases hc
theorem payload_f32 {m : Nat} {reg : Bool} {T : GoType} {v : GoVal} {r : RVal}
    (hp : primOf? T = some .f32) (h : foldF m reg T v = .ok r) : ∃ b, asF32 v = some b ∧ r = .f32 b := by
  rcases foldF_prim_inv hp h with ⟨_, hc, _⟩ | ⟨_, hc, _⟩ | ⟨_, _, hc, _⟩ | ⟨b, _, rfl, rfl⟩ | ⟨_, hc, _⟩ <;>
    first | exact ⟨_, rfl, rfl⟩ | cases hc
theorem payload_f64 {m : Nat} {reg : Bool} {T : GoType} {v : GoVal} {r : RVal}
    (hp : primOf? T = some .f64) (h : foldF m reg T v = .ok r) : ∃ b, asF64 v = some b ∧ r = .f64 b := by
  rcases foldF_prim_inv hp h with ⟨_, hc, _⟩ | ⟨_, hc, _⟩ | ⟨_, _, hc, _⟩ | ⟨_, hc, _⟩ | ⟨b, _, rfl, rfl⟩ <;>
    first | exact ⟨_, rfl, rfl⟩ | cases hc

set_option hygiene false in
macro "obj_case" as:term "," inj:term "," mk:term "," re:term "," enc:term "," pay:term : tactic => `(tactic|
  (have h' : All2 (fun kx mem => kx.1 = GoVal.str mem.1 ∧ ∃ b, $as kx.2 = some b ∧ mem.2 = $inj b) ms mems := by
     refine h.imp ?_
     intro kx mem _ _ hx
     exact ⟨hx.1, $pay hp hx.2⟩
   obtain ⟨es, hes, rfl⟩ := split_entries h'
   have hnd' : (es.map (·.1)).Nodup := by simpa [keysOf, List.map_map, Function.comp_def] using hnd
   refine ⟨$mk es, by simp [objEv, hes], ?_⟩
   exact emit_obj hs $mk $inj _ (fun b => by simp [Rel, same32, same64]) $enc es ($re s es hs.2 hnd') hnd'))

theorem obj_sound {m : Nat} {reg : Bool} {e : GoType} {p : Prim} {ms : List (GoVal × GoVal)}
    {mems : List (Bytes × RVal)}
    (hp : primOf? e = some p) (h : All2 (EntrySpec m reg e) ms mems) (hnd : (keysOf mems).Nodup)
    {s : St} (hs : Inv s) :
    ∃ x, objEv p ms = some x ∧ ValOut s (emit s .user x) (.obj [(true, mems)]) := by
  cases p with
  | bool => obj_case asBool, RVal.bool, XEv.boolObj, reorder_boolObj, Enc_boolObj, payload_bool
  | string => obj_case asStr, RVal.str, XEv.strObj, reorder_strObj, Enc_strObj, payload_str
  | num k => obj_case asInt, RVal.int, (XEv.numObj k), (fun s => reorder_numObj s k), (Enc_numObj k), payload_int
  | f32 => obj_case asF32, RVal.f32, XEv.f32Obj, reorder_f32Obj, Enc_f32Obj, payload_f32
  | f64 => obj_case asF64, RVal.f64, XEv.f64Obj, reorder_f64Obj, Enc_f64Obj, payload_f64

end SF.FoldProofs
