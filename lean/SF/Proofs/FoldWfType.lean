/-
  Property C09 with the gotype fold as producer — the compile side: a typing of compiled
  folders.  `FV T f`: `f` folds a value of type `T` into ONE value; `FI T f`: `f` folds a value
  of type `T` into object members (an inlined struct / map); `FM fs f`: `f` folds one field of a
  struct with the fields `fs` into members.  The typing records what the announced lengths
  depend on: a struct folder announces a count only if all its field folders are plain `field`
  folders (one member each), a map folder runs a map iterator (one member per entry).
  `compile_FV`: whatever `getReflectFold` compiles for a good type is typed for it.
-/
import SF.Proofs.FoldTypeOk
import SF.Proofs.FoldEmpty
namespace SF.FoldProofs.Wf
open SF SF.Gotype SF.Gotype.Fold SF.FoldProofs

def isFieldF : ReFold → Bool
  | .field .. => true
  | _ => false

def isIterF : ReFold → Bool
  | .mapKeys _ | .mapInline _ => true
  | _ => false

mutual
def FV : GoType → ReFold → Prop
  | _, .prim _ => True
  | _, .arrPrim _ => True
  | _, .mapPrim _ => True
  | T, .pointer n e => (∃ sn, goodT sn T = true) ∧ n = (stripPtr T).1 ∧ FV (stripPtr T).2 e
  | T, .structFold fields count => ∃ fs, T.under = .struct fs ∧ FMs fs fields ∧
      (count = -1 ∨ (count = fields.length ∧ ∀ f ∈ fields, isFieldF f = true))
  | T, .mapFold it => (∃ k e, T.under = .map k e) ∧ FI T it ∧ isIterF it = true
  | T, .slice el => ((∃ e, T.under = .slice e) ∨ (∃ n e, T.under = .array n e)) ∧ FV T.elem el
  | T, .ifaceElem => T.under = .iface
  | _, _ => False
def FI : GoType → ReFold → Prop
  | T, .inlinePointer n e => (∃ sn, goodT sn T = true) ∧ n = (stripPtr T).1 ∧ FI (stripPtr T).2 e
  | T, .fieldsFold fields => ∃ fs, T.under = .struct fs ∧ FMs fs fields
  | T, .mapKeys el => (∃ k e, T.under = .map k e) ∧ FV T.elem el
  | T, .mapInline none => ∃ k, T.under = .map k .iface
  | T, .mapInline (some _) => ∃ k e, T.under = .map k e
  | _, _ => False
def FM : List Field → ReFold → Prop
  | fs, .field _ idx fn => ∃ fld, fs[idx]? = some fld ∧ FV fld.typ fn
  | fs, .nonEmptyField _ idx rs fn => ∃ fld, fs[idx]? = some fld ∧ (∃ sn, goodT sn fld.typ = true) ∧
      tdepth fld.typ ≤ 1000 ∧ rs = makeResolveNonEmptyValue fld.typ ∧ FV (stripPtr fld.typ).2 fn ∧
      (isIfaceT (stripPtr fld.typ).2 = true → fn = .ifaceElem)
  | fs, .fieldInline idx fn => ∃ fld, fs[idx]? = some fld ∧ FI fld.typ fn
  | _, _ => False
def FMs : List Field → List ReFold → Prop
  | _, [] => True
  | fs, f :: l => FM fs f ∧ FMs fs l
end


/-! ## what compilation produces is typed -/

theorem prim_FV {T : GoType} {f : ReFold} (h : getReflectFoldPrimitive T = some f) : FV T f := by
  unfold getReflectFoldPrimitive at h
  split at h <;>
    (simp only [Option.map_eq_some_iff] at h
     obtain ⟨p, _, rfl⟩ := h
     simp [FV])

/-- getReflectFold on good types of depth ≤ d yields value folders for them -/
def CA (o : FoldOpts) (d : Nat) : Prop :=
  ∀ sn T, tdepth T ≤ d → goodT sn T = true → ∀ cf op f, OpIn op sn →
    getReflectFold cf o op T = .ok f → FV T f

/-- the condition under which `structFoldLen` announces -1 -/
def lenCond (f : Field) : Bool :=
  let o := (parseTags f.tag).2
  !o.omitF && (o.squash || o.omitEmpty)

theorem structFoldLen_eq (fs : List Field) (n : Nat) :
    structFoldLen fs n = if fs.any lenCond then -1 else (n : Int) := rfl

/-- the field folders of good fields of depth ≤ d are member folders of the struct -/
def CF (o : FoldOpts) (d : Nat) : Prop :=
  ∀ sn fs, tdepthFs fs ≤ d → goodFs sn fs = true →
    ∀ (full : List Field) k, (∀ j f, fs[j]? = some f → full[k + j]? = some f) →
    ∀ cf op fvs, OpIn op sn →
      (fs.zipIdx k).mapM (fun (x : Field × Nat) => buildFieldFold cf o op x.1 x.2) = .ok fvs →
      FMs full (fvs.filterMap id) ∧
      ((∀ f ∈ fs, lenCond f = false) → ∀ g ∈ fvs.filterMap id, isFieldF g = true)

/-- the map iterator -/
theorem keys_FI {o : FoldOpts} {d : Nat} (ihA : ∀ d' < d, CA o d') {sn : List String} {T k e : GoType}
    (hu : T.under = .map k e) (he : goodT sn e = true) (hde : tdepth e < d)
    {cf : Nat} {op : Open} {it : ReFold} (hop : OpIn op sn)
    (h : getReflectFoldMapKeys cf o op T = .ok it) : FI T it ∧ isIterF it = true := by
  cases cf with
  | zero => simp [getReflectFoldMapKeys] at h
  | succ c =>
  rw [grfmk_good c o op hu] at h
  cases hk : k.under <;> simp only [hk] at h <;> try (simp at h; done)
  by_cases hi : e = .iface
  · subst hi
    simp only [Except.ok.injEq] at h
    subst h
    exact ⟨by simp only [FI]; exact ⟨k, hu⟩, rfl⟩
  · cases hpr : primOf? e with
    | some p =>
      have : it = .mapInline (some p) := by
        cases e <;> first | (exact absurd rfl hi) | (simp only [hpr, Except.ok.injEq] at h; exact h.symm)
      subst this
      exact ⟨by simp only [FI]; exact ⟨k, e, hu⟩, rfl⟩
    | none =>
      cases hel : getReflectFold c o op e with
      | error err =>
        exfalso
        cases e <;> first | (exact absurd rfl hi) | (simp [hpr, hel] at h)
      | ok el =>
        have : it = .mapKeys el := by
          cases e <;> first | (exact absurd rfl hi) | (simp only [hpr, hel, Except.ok.injEq] at h; exact h.symm)
        subst this
        refine ⟨?_, rfl⟩
        simp only [FI]
        refine ⟨⟨k, e, hu⟩, ?_⟩
        rw [elem_of_under.2.2.1 k e hu]
        exact ihA (tdepth e) hde sn e (Nat.le_refl _) he c op el hop hel


theorem stripPtr_zero {sn : List String} {t : GoType} (hp : goodT sn t = true) (h0 : (stripPtr t).1 = 0) :
    (stripPtr t).2 = t := by
  by_cases hpp : ∃ e, t.under = .ptr e
  · obtain ⟨e, he⟩ := hpp
    rw [stripPtr_of_under_ptr he (headKind hp)] at h0
    simp at h0
  · rw [stripPtr_of_under_nonptr hp (fun e he => hpp ⟨e, he⟩)]

theorem caStep (o : FoldOpts) (d : Nat) (hd : d ≤ 1000)
    (ihA : ∀ d' < d, CA o d') (ihF : ∀ d' < d, CF o d') : CA o d := by
  intro sn T hT hg cf op f hop h
  cases cf with
  | zero => simp [getReflectFold] at h
  | succ c =>
  rw [grf_good c o op hg hop] at h
  cases hprim : getReflectFoldPrimitive T with
  | some f' =>
    rw [hprim] at h
    simp only [Except.ok.injEq] at h
    subst h
    exact prim_FV hprim
  | none =>
  rw [hprim] at h
  simp only [] at h
  have hgu := good_under hg
  have hop' := OpIn_enter hop T
  have hdu := tdepth_under hg
  generalize hU : T.under = U at h hgu hdu
  cases U with
  | bool => simp [getReflectFoldPrimitiveKind, hU, primOf?] at h; subst h; simp [FV]
  | string => simp [getReflectFoldPrimitiveKind, hU, primOf?] at h; subst h; simp [FV]
  | int k => simp [getReflectFoldPrimitiveKind, hU, primOf?] at h; subst h; simp [FV]
  | float32 => simp [getReflectFoldPrimitiveKind, hU, primOf?] at h; subst h; simp [FV]
  | float64 => simp [getReflectFoldPrimitiveKind, hU, primOf?] at h; subst h; simp [FV]
  | iface =>
    simp only [Except.ok.injEq] at h
    subst h
    simp only [FV]; exact hU
  | slice e =>
    have he : goodT (snU sn T) e = true := by simpa [goodT] using hgu.1
    have hde : tdepth e + 1 ≤ d := by simp only [tdepth] at hdu; omega
    simp only [] at h
    cases c with
    | zero => simp [getReflectFoldSlice] at h
    | succ c' =>
      rw [getReflectFoldSlice, elem_of_under.1 e hU] at h
      cases hel : getReflectFold c' o (op.enter T) e with
      | error x => simp [hel] at h
      | ok el =>
        simp only [hel, Except.ok.injEq] at h
        subst h
        simp only [FV]
        refine ⟨Or.inl ⟨e, hU⟩, ?_⟩
        rw [elem_of_under.1 e hU]
        exact ihA (tdepth e) (by omega) _ e (Nat.le_refl _) he c' _ el hop' hel
  | array n e =>
    have he : goodT (snU sn T) e = true := by simpa [goodT] using hgu.1
    have hde : tdepth e + 1 ≤ d := by simp only [tdepth] at hdu; omega
    simp only [] at h
    cases c with
    | zero => simp [getReflectFoldSlice] at h
    | succ c' =>
      rw [getReflectFoldSlice, elem_of_under.2.1 n e hU] at h
      cases hel : getReflectFold c' o (op.enter T) e with
      | error x => simp [hel] at h
      | ok el =>
        simp only [hel, Except.ok.injEq] at h
        subst h
        simp only [FV]
        refine ⟨Or.inr ⟨n, e, hU⟩, ?_⟩
        rw [elem_of_under.2.1 n e hU]
        exact ihA (tdepth e) (by omega) _ e (Nat.le_refl _) he c' _ el hop' hel
  | map k e =>
    have hke : goodT (snU sn T) k = true ∧ goodT (snU sn T) e = true := by simpa [goodT] using hgu.1
    have hde : tdepth e + 1 ≤ d := by simp only [tdepth] at hdu; omega
    simp only [] at h
    cases c with
    | zero => simp [getReflectFoldMap] at h
    | succ c' =>
      rw [getReflectFoldMap] at h
      cases hit : getReflectFoldMapKeys c' o (op.enter T) T with
      | error x => simp [hit] at h
      | ok it =>
        simp only [hit, Except.ok.injEq] at h
        subst h
        obtain ⟨h1, h2⟩ := keys_FI ihA hU hke.2 (by omega) hop' hit
        simp only [FV]
        exact ⟨⟨k, e, hU⟩, h1, h2⟩
  | ptr e =>
    simp only [] at h
    cases c with
    | zero => simp [getFoldPointer] at h
    | succ c' =>
      rw [getFoldPointer] at h
      have hb := baseType_good hg (by omega : tdepth T ≤ 1000)
      have hdb := tdepth_stripPtr T
      have hs := stripPtr_of_under_ptr hU (headKind hg)
      have hge : goodT (snU sn T) e = true := by simpa [goodT] using hgu.1
      obtain ⟨sn2, hsn2, hg2⟩ := good_stripPtr e _ hge
      have hs1 : 1 ≤ (stripPtr T).1 := by rw [hs]; simp
      have hse : (stripPtr T).2 = (stripPtr e).2 := by rw [hs]
      simp only [hb] at h
      cases hel : getReflectFold c' o (op.enter T) (stripPtr T).2 with
      | error x => simp [hel] at h
      | ok el =>
        simp only [hel, Except.ok.injEq] at h
        subst h
        have hn0 : ((stripPtr T).1 == 0) = false := by
          cases hh : (stripPtr T).1 with
          | zero => omega
          | succ m => rfl
        simp only [makePointerFold, hn0, Bool.false_eq_true, if_false, FV]
        refine ⟨⟨sn, hg⟩, trivial, ?_⟩
        rw [hse] at hel ⊢
        exact ihA (tdepth (stripPtr e).2) (by rw [hs] at hdb; simp only [] at hdb; omega) sn2 _
          (Nat.le_refl _) hg2 c' _ el (OpIn_mono hop' hsn2) hel
  | struct fs =>
    have hfs : goodFs (snU sn T) fs = true := by simpa [goodT] using hgu.1
    have hde : tdepthFs fs + 1 ≤ d := by simp only [tdepth] at hdu; omega
    simp only [] at h
    cases c with
    | zero => simp [getReflectFoldStruct] at h
    | succ c' =>
      rw [grfs_eq] at h
      cases hfvs : fs.zipIdx.mapM (fun (x : Field × Nat) => buildFieldFold c' o (op.enter T) x.1 x.2) with
      | error x => simp [hfvs] at h
      | ok fvs =>
        simp only [hfvs, Bool.false_eq_true, if_false, Except.ok.injEq] at h
        subst h
        obtain ⟨h1, h2⟩ := ihF (tdepthFs fs) (by omega) _ fs (Nat.le_refl _) hfs fs 0
          (fun j f hj => by simpa using hj) c' _ fvs hop' hfvs
        simp only [FV]
        refine ⟨fs, hU, h1, ?_⟩
        rw [structFoldLen_eq]
        by_cases hany : fs.any lenCond = true
        · left; simp [hany]
        · right
          simp only [hany, Bool.false_eq_true, if_false, true_and]
          apply h2
          intro f hf
          cases hl : lenCond f with
          | false => rfl
          | true => exact absurd (List.any_eq_true.mpr ⟨f, hf, hl⟩) hany
  | chan e => simp [getReflectFoldPrimitiveKind, hU, primOf?] at h
  | other k => simp [getReflectFoldPrimitiveKind, hU, primOf?] at h
  | named a b c => simp [unnamedHead] at hgu
  | ref a => simp [unnamedHead] at hgu


/-- an inlined or `omitempty` field makes the struct folder announce -1 -/
theorem lenCond_of_kind (f : Field)
    (h : fieldKind f = .inline ∨ ∃ n, fieldKind f = .omitEmpty n) : lenCond f = true := by
  obtain ⟨hom, hrest⟩ := SF.FoldTagRules.tag_rules_agree f.tag
  unfold fieldKind at h
  simp only [] at h
  unfold lenCond
  simp only []
  by_cases h1 : (!f.exported || (Rules.parseTag f.tag).dash) = true
  · simp [h1] at h
  · simp only [h1, Bool.false_eq_true, if_false] at h
    have hd : (Rules.parseTag f.tag).dash = false := by
      cases hdd : (Rules.parseTag f.tag).dash with
      | false => rfl
      | true => simp [hdd] at h1
    obtain ⟨_, hs, he⟩ := hrest hd
    by_cases h2 : ((Rules.parseTag f.tag).inline && (Rules.parseTag f.tag).omitEmpty) = true
    · simp [h2] at h
    · simp only [h2, Bool.false_eq_true, if_false] at h
      by_cases h3 : (Rules.parseTag f.tag).omit' = true
      · simp [h3] at h
      · simp only [h3, Bool.false_eq_true, if_false] at h
        have h3' : (Rules.parseTag f.tag).omit' = false := by simpa using h3
        rw [hom, hs, he, hd, h3']
        by_cases h4 : (Rules.parseTag f.tag).inline = true
        · simp [h4]
        · simp only [h4, Bool.false_eq_true, if_false] at h
          by_cases h5 : (Rules.parseTag f.tag).omitEmpty = true
          · simp [h5]
          · simp [h5] at h


/-- one field folder -/
theorem field_FM (o : FoldOpts) (d : Nat) (hd : d ≤ 1000) (hA : CA o d)
    (ihF : ∀ d' < d, CF o d') (ihA : ∀ d' < d, CA o d')
    {sn : List String} {f : Field} (hgf : goodF sn f = true) (hdt : tdepth f.typ ≤ d)
    {full : List Field} {k : Nat} (hfull : full[k]? = some f)
    {cf : Nat} {op : Open} (hop : OpIn op sn) {g : ReFold}
    (h : buildFieldFold cf o op f k = .ok (some g)) :
    FM full g ∧ (lenCond f = false → isFieldF g = true) := by
  have hpt := goodF_typ hgf
  have hbt := baseType_good hpt (by omega : tdepth f.typ ≤ 1000)
  have hdb := tdepth_stripPtr f.typ
  obtain ⟨sn', hsn', hpb⟩ := good_stripPtr f.typ sn hpt
  have hop1 := OpIn_mono hop hsn'
  cases cf with
  | zero => simp [buildFieldFold] at h
  | succ c =>
  rw [buildFieldFold_eq] at h
  cases hk : fieldKind f with
  | drop => simp [hk] at h
  | conflict => simp [hk] at h
  | plain name =>
    simp only [hk] at h
    cases hvv : getReflectFold c o op f.typ with
    | error e => simp [hvv] at h
    | ok vv =>
      simp only [hvv, Except.ok.injEq, Option.some.injEq] at h
      subst h
      refine ⟨?_, fun _ => rfl⟩
      simp only [FM]
      exact ⟨f, hfull, hA sn f.typ hdt hpt c op vv hop hvv⟩
  | omitEmpty name =>
    simp only [hk] at h
    have hlen := lenCond_of_kind f (Or.inr ⟨name, hk⟩)
    rw [hbt] at h
    cases hvv : getReflectFold c o op (stripPtr f.typ).2 with
    | error e => simp [hvv] at h
    | ok vv =>
      simp only [hvv] at h
      have hFV : FV (stripPtr f.typ).2 vv :=
        hA sn' _ (by omega) hpb c op vv hop1 hvv
      by_cases hem : (makeResolveNonEmptyValue f.typ).isEmpty = true
      · simp only [hem, if_true, Except.ok.injEq, Option.some.injEq] at h
        subst h
        refine ⟨?_, fun _ => rfl⟩
        simp only [FM]
        refine ⟨f, hfull, ?_⟩
        -- no resolver: no pointer in front
        have h0 : (stripPtr f.typ).1 = 0 := by
          rw [mrnev_gen hpt (by omega)] at hem
          by_cases h1 : 1 ≤ (stripPtr f.typ).1
          · simp [h1] at hem
          · omega
        rw [stripPtr_zero hpt h0] at hFV
        exact hFV
      · simp only [hem, Bool.false_eq_true, if_false, Except.ok.injEq, Option.some.injEq] at h
        subst h
        refine ⟨?_, fun hc => by rw [hlen] at hc; cases hc⟩
        simp only [FM]
        refine ⟨f, hfull, ⟨sn, hpt⟩, by omega, rfl, hFV, ?_⟩
        intro hi
        have hu : (stripPtr f.typ).2.under = .iface := by
          unfold isIfaceT at hi
          cases hU : (stripPtr f.typ).2.under <;> simp_all
        cases c with
        | zero => simp [getReflectFold] at hvv
        | succ c' =>
          rw [grf_iface c' o op hpb hop1 hu] at hvv
          cases hvv
          rfl
  | inline =>
    simp only [hk] at h
    have hlen := lenCond_of_kind f (Or.inl hk)
    cases hg : buildFieldFoldInline c o op f k with
    | error e => simp [hg, Except.map] at h
    | ok g' =>
    simp only [hg, Except.map, Except.ok.injEq, Option.some.injEq] at h
    subst h
    refine ⟨?_, fun hc => by rw [hlen] at hc; cases hc⟩
    cases c with
    | zero => simp [buildFieldFoldInline] at hg
    | succ c2 =>
    rw [bffi_good c2 o op f k (sn := sn') (by rw [hbt]; exact hpb) hop1, hbt] at hg
    cases hbase : fieldFoldGenInline c2 o (enterInl op (stripPtr f.typ).2) (stripPtr f.typ).2 with
    | error e => simp [hbase] at hg
    | ok base =>
    simp only [hbase, Except.ok.injEq] at hg
    subst hg
    simp only [FM]
    refine ⟨f, hfull, ?_⟩
    -- the inline folder of the base type
    have hni : isIfaceT (stripPtr f.typ).2 = false := by
      have := goodF_notIface hgf
      unfold inlineIfaceF at this
      simpa [hk] using this
    have hFI : FI (stripPtr f.typ).2 base := by
      cases c2 with
      | zero => simp [fieldFoldGenInline] at hbase
      | succ c3 =>
      rw [ffgi_good c3 o _ hpb] at hbase
      have hop2 := OpIn_enterInl hop1 (stripPtr f.typ).2
      have hgu := good_under hpb
      have hdu := tdepth_under hpb
      generalize hbt' : (stripPtr f.typ).2 = bt at hbase hpb hdb hop2 hgu hdu hni
      generalize hU : bt.under = U at hbase hgu hdu
      cases U with
      | struct fs' =>
        simp only [] at hbase
        have hfs' : goodFs (snU sn' bt) fs' = true := by simpa [goodT] using hgu.1
        have hd' : tdepthFs fs' + 1 ≤ d := by simp only [tdepth] at hdu; omega
        cases c3 with
        | zero => simp [getReflectFoldStruct] at hbase
        | succ c4 =>
          rw [grfs_eq] at hbase
          cases hfvs : fs'.zipIdx.mapM (fun (x : Field × Nat) =>
              buildFieldFold c4 o (enterInl op bt) x.1 x.2) with
          | error x => simp [hfvs] at hbase
          | ok fvs =>
            simp only [hfvs, if_true, Except.ok.injEq] at hbase
            subst hbase
            obtain ⟨r1, _⟩ := ihF (tdepthFs fs') (by omega) _ fs' (Nat.le_refl _) hfs' fs' 0
              (fun j f hj => by simpa using hj) c4 _ fvs hop2 hfvs
            simp only [FI]
            exact ⟨fs', hU, r1⟩
      | map k' e =>
        simp only [] at hbase
        have hke : goodT (snU sn' bt) k' = true ∧ goodT (snU sn' bt) e = true := by simpa [goodT] using hgu.1
        have hde : tdepth e + 1 ≤ d := by simp only [tdepth] at hdu; omega
        exact (keys_FI ihA hU hke.2 (by omega) hop2 hbase).1
      | iface =>
        exfalso
        unfold isIfaceT at hni
        rw [hU] at hni
        simp at hni
      | _ => simp at hbase
    unfold makeInlinePointerFold
    by_cases hn0 : ((stripPtr f.typ).1 == 0) = true
    · simp only [hn0, if_true]
      rw [stripPtr_zero hpt (by simpa using hn0)] at hFI
      exact hFI
    · simp only [hn0, Bool.false_eq_true, if_false, FI]
      exact ⟨⟨sn, hpt⟩, trivial, hFI⟩


theorem cfStep (o : FoldOpts) (d : Nat) (hd : d ≤ 1000) (hA : CA o d)
    (ihA : ∀ d' < d, CA o d') (ihF : ∀ d' < d, CF o d') : CF o d := by
  intro sn fs
  induction fs with
  | nil =>
    intro _ _ full k _ cf op fvs _ h
    have : fvs = [] := by
      have h' : (Except.ok [] : Except Res (List (Option ReFold))) = .ok fvs := h
      cases h'; rfl
    subst this
    exact ⟨trivial, fun _ g hg => by cases hg⟩
  | cons f fs ih =>
    intro hT hp full k hfull cf op fvs hop h
    simp only [tdepthFs] at hT
    simp only [goodFs, Bool.and_eq_true] at hp
    rw [zipIdx_cons, mapM_cons] at h
    cases hfo : buildFieldFold cf o op f k with
    | error e => simp [hfo] at h
    | ok fo =>
      cases hrest : (fs.zipIdx (k + 1)).mapM (fun (x : Field × Nat) => buildFieldFold cf o op x.1 x.2) with
      | error e => simp [hfo, hrest] at h
      | ok fvs' =>
        simp only [hfo, hrest, Except.ok.injEq] at h
        subst h
        obtain ⟨r1, r2⟩ := ih (by omega) hp.2 full (k + 1)
          (fun j g hj => by
            have := hfull (j + 1) g (by simpa using hj)
            rw [show k + (j + 1) = k + 1 + j by omega] at this
            exact this) cf op fvs' hop hrest
        have hf0 : full[k]? = some f := by simpa using hfull 0 f rfl
        have hdt : tdepth f.typ ≤ d := by rw [← tdepthF_typ]; omega
        cases fo with
        | none =>
          simp only [List.filterMap_cons, id]
          exact ⟨r1, fun hc => r2 (fun g hg => hc g (by simp [hg]))⟩
        | some g =>
          obtain ⟨m1, m2⟩ := field_FM o d hd hA ihF ihA hp.1 hdt hf0 hop hfo
          simp only [List.filterMap_cons, id]
          refine ⟨⟨m1, r1⟩, ?_⟩
          intro hc g' hg'
          rcases List.mem_cons.mp hg' with rfl | hg''
          · exact m2 (hc f (by simp))
          · exact r2 (fun x hx => hc x (by simp [hx])) g' hg''

theorem compile_all (o : FoldOpts) : ∀ d, d ≤ 1000 → CA o d ∧ CF o d := by
  intro d
  induction d using Nat.strongRecOn with
  | _ d ih =>
    intro hd
    have hA := caStep o d hd (fun d' h => (ih d' h (by omega)).1) (fun d' h => (ih d' h (by omega)).2)
    exact ⟨hA, cfStep o d hd hA (fun d' h => (ih d' h (by omega)).1) (fun d' h => (ih d' h (by omega)).2)⟩

/-- whatever `getReflectFold` compiles for a good type is a value folder for that type -/
theorem compile_FV (o : FoldOpts) {sn : List String} {T : GoType} (hg : goodT sn T = true)
    (hd : tdepth T ≤ 1000) {cf : Nat} {op : Open} {f : ReFold} (hop : OpIn op sn)
    (h : getReflectFold cf o op T = .ok f) : FV T f :=
  (compile_all o (tdepth T) hd).1 sn T (Nat.le_refl _) hg cf op f hop h

end SF.FoldProofs.Wf
