/-
  The compile phase of the mirror (`getReflectFold` …) on good types, one level at a time.
-/
import SF.Proofs.FoldUniv
namespace SF.FoldProofs
open SF SF.Gotype SF.Gotype.Fold

/-- the names with a forwarding registry entry are all in scope -/
def OpIn (op : Open) (sn : List String) : Prop := (∀ n ∈ op.norm, n ∈ sn) ∧ (∀ n ∈ op.inl, n ∈ sn)

theorem OpIn_empty (sn : List String) : OpIn {} sn :=
  ⟨fun _ h => absurd h List.not_mem_nil, fun _ h => absurd h List.not_mem_nil⟩

theorem OpIn_enter {op : Open} {sn : List String} (h : OpIn op sn) (T : GoType) :
    OpIn (op.enter T) (snU sn T) := by
  cases T <;> first
    | exact h
    | (refine ⟨?_, ?_⟩
       · intro x hx
         simp only [Open.enter, GoType.menagerieName?, List.mem_cons] at hx
         rcases hx with rfl | hx
         · simp [snU]
         · simp [snU, h.1 x hx]
       · intro x hx
         simp only [Open.enter, GoType.menagerieName?] at hx
         simp [snU, h.2 x hx])

theorem OpIn_mono {op : Open} {sn sn' : List String} (h : OpIn op sn) (hs : ∀ x ∈ sn, x ∈ sn') :
    OpIn op sn' := ⟨fun x hx => hs x (h.1 x hx), fun x hx => hs x (h.2 x hx)⟩

theorem snU_sub (sn : List String) (T : GoType) : ∀ x ∈ sn, x ∈ snU sn T := by
  intro x hx
  cases T <;> simp [snU, hx]

/-- a good type is not under compilation -/
theorem not_open {op : Open} {sn : List String} {T : GoType} (h : goodT sn T = true) (hop : OpIn op sn) :
    (T.menagerieName?.map op.norm.contains).getD false = false := by
  cases T <;> try rfl
  · rename_i n m u
    simp only [GoType.menagerieName?, Option.map_some, Option.getD_some]
    have hn : ¬ n ∈ sn := by simp_all [goodT]
    have : ¬ n ∈ op.norm := fun hx => hn (hop.1 n hx)
    simpa using this
  · simp [goodT] at h

theorem grf_good (cf : Nat) (o : FoldOpts) (op : Open) {sn : List String} {T : GoType}
    (h : goodT sn T = true) (hop : OpIn op sn) :
    getReflectFold (cf + 1) o op T =
      match getReflectFoldPrimitive T with
      | some f => .ok f
      | none =>
        match (generalizing := false) T.under with
        | .ptr _ => getFoldPointer cf o (op.enter T) T
        | .struct fs => getReflectFoldStruct cf o (op.enter T) fs false
        | .map _ _ => getReflectFoldMap cf o (op.enter T) T
        | .slice _ | .array _ _ => getReflectFoldSlice cf o (op.enter T) T
        | .iface => .ok .ifaceElem
        | _ => getReflectFoldPrimitiveKind T := by
  unfold getReflectFold
  simp only [whnf_good h, userReg_good o h, not_open h hop, Bool.false_eq_true, if_false,
    implementsFolder_good h, implementsPtrFolder_good h, Bool.or_self]
  cases getReflectFoldPrimitive T with
  | some f => rfl
  | none =>
    simp only []
    cases T.under <;> rfl

theorem good_of_prim {sn : List String} {T : GoType} {p : Prim} (h : primOf? T = some p) :
    goodT sn T = true := by
  cases T <;> simp_all [primOf?, goodT]

theorem unnamed_of_prim {T : GoType} {p : Prim} (h : primOf? T = some p) : unnamedHead T = true := by
  cases T <;> simp_all [primOf?, unnamedHead]

/-- a type of primitive kind (named or not) -/
theorem grf_primkind (cf : Nat) (o : FoldOpts) (op : Open) {sn : List String} {T : GoType} {p : Prim}
    (hg : goodT sn T = true) (hop : OpIn op sn) (h : primOf? T.under = some p) :
    getReflectFold (cf + 1) o op T = .ok (.prim p) := by
  rw [grf_good cf o op hg hop]
  cases T <;> first
    | (simp only [GoType.under, primOf?, Option.some.injEq, reduceCtorEq] at h; subst h; rfl)
    | (simp only [GoType.under] at h
       rename_i n m u
       have hu : unnamedHead u = true := by simp_all [goodT]
       simp only [getReflectFoldPrimitive, primOf?, Option.map_none, GoType.under]
       cases u <;> first
         | (simp only [primOf?, Option.some.injEq, reduceCtorEq] at h; subst h; rfl)
         | (simp [primOf?] at h; done)
         | (simp [unnamedHead] at hu))
    | (simp [GoType.under, primOf?] at h; done)
    | (simp [goodT] at hg)

theorem OpIn_self (op : Open) : OpIn op (op.norm ++ op.inl) :=
  ⟨fun x hx => by simp [hx], fun x hx => by simp [hx]⟩

theorem grf_slice_prim (cf : Nat) (o : FoldOpts) (op : Open) {e : GoType} {p : Prim} (h : primOf? e = some p) :
    getReflectFold (cf + 1) o op (.slice e) = .ok (.arrPrim p) := by
  rw [grf_good cf o op (T := .slice e) (by simpa [goodT] using good_of_prim h) (OpIn_self op)]
  simp [getReflectFoldPrimitive, h]

theorem grf_map_prim (cf : Nat) (o : FoldOpts) (op : Open) {e : GoType} {p : Prim} (h : primOf? e = some p) :
    getReflectFold (cf + 1) o op (.map .string e) = .ok (.mapPrim p) := by
  rw [grf_good cf o op (T := .map .string e) (by simpa [goodT] using good_of_prim h) (OpIn_self op)]
  simp [getReflectFoldPrimitive, h]

theorem elem_of_under {T : GoType} : (∀ e, T.under = .slice e → T.elem = e) ∧
    (∀ n e, T.under = .array n e → T.elem = e) ∧ (∀ k e, T.under = .map k e → T.elem = e) ∧
    (∀ e, T.under = .ptr e → T.elem = e) ∧ (∀ k e, T.under = .map k e → T.key = k) := by
  refine ⟨?_, ?_, ?_, ?_, ?_⟩ <;> intros <;> simp_all [GoType.elem, GoType.key]

/-- `getReflectFoldPrimitive` knows exact unnamed types only -/
def noPrimitive (T : GoType) : Prop := getReflectFoldPrimitive T = none

theorem noPrimitive_named (n : String) (m : Methods) (u : GoType) : noPrimitive (.named n m u) := rfl

theorem grf_slice (cf : Nat) (o : FoldOpts) (op : Open) {sn : List String} {T e : GoType}
    (hg : goodT sn T = true) (hop : OpIn op sn) (hu : T.under = .slice e) (hn : noPrimitive T) :
    getReflectFold (cf + 2) o op T =
      match getReflectFold cf o (op.enter T) e with
      | .error x => .error x
      | .ok el => .ok (.slice el) := by
  rw [grf_good (cf + 1) o op hg hop, hn]
  simp only [hu]
  rw [getReflectFoldSlice, elem_of_under.1 e hu]
  rfl

theorem grf_array (cf : Nat) (o : FoldOpts) (op : Open) {sn : List String} {T e : GoType} {n : Nat}
    (hg : goodT sn T = true) (hop : OpIn op sn) (hu : T.under = .array n e) :
    getReflectFold (cf + 2) o op T =
      match getReflectFold cf o (op.enter T) e with
      | .error x => .error x
      | .ok el => .ok (.slice el) := by
  have hn : noPrimitive T := by
    cases T <;> first | rfl | (simp [GoType.under] at hu; done) | (simp [goodT] at hg)
  rw [grf_good (cf + 1) o op hg hop, hn]
  simp only [hu]
  rw [getReflectFoldSlice, elem_of_under.2.1 n e hu]
  rfl

theorem grf_iface (cf : Nat) (o : FoldOpts) (op : Open) {sn : List String} {T : GoType}
    (hg : goodT sn T = true) (hop : OpIn op sn) (hu : T.under = .iface) :
    getReflectFold (cf + 1) o op T = .ok .ifaceElem := by
  have hn : noPrimitive T := by
    cases T <;> first | rfl | (simp [GoType.under] at hu; done) | (simp [goodT] at hg)
  rw [grf_good cf o op hg hop, hn]
  simp only [hu]

theorem grf_unsupported (cf : Nat) (o : FoldOpts) (op : Open) {sn : List String} {T : GoType}
    (hg : goodT sn T = true) (hop : OpIn op sn)
    (hu : (∃ e, T.under = .chan e) ∨ (∃ k, T.under = .other k)) :
    getReflectFold (cf + 1) o op T = .error (.err .unsupported) := by
  have hn : noPrimitive T := by
    cases T <;> first | rfl | (simp [GoType.under] at hu; done) | (simp [goodT] at hg)
  rw [grf_good cf o op hg hop, hn]
  rcases hu with ⟨e, hu⟩ | ⟨k, hu⟩ <;> simp [hu, getReflectFoldPrimitiveKind, primOf?]

/-- getReflectFoldMapKeys on a map type -/
theorem grfmk_good (cf : Nat) (o : FoldOpts) (op : Open) {T k e : GoType} (hu : T.under = .map k e) :
    getReflectFoldMapKeys (cf + 1) o op T =
      match k.under with
      | .string =>
        match e with
        | .iface => .ok (.mapInline none)
        | e =>
          match primOf? e with
          | some p => .ok (.mapInline (some p))
          | none =>
            match getReflectFold cf o op e with
            | .error err => .error err
            | .ok el => .ok (.mapKeys el)
      | _ => .error (.err .mapRequiresStringKey) := by
  rw [getReflectFoldMapKeys, elem_of_under.2.2.2.2 k e hu, elem_of_under.2.2.1 k e hu]
  cases k.under <;> first | rfl | (cases e <;> rfl)

theorem grf_map (cf : Nat) (o : FoldOpts) (op : Open) {sn : List String} {T k e : GoType}
    (hg : goodT sn T = true) (hop : OpIn op sn) (hu : T.under = .map k e) (hn : noPrimitive T) :
    getReflectFold (cf + 3) o op T =
      match getReflectFoldMapKeys (cf + 1) o (op.enter T) T with
      | .error x => .error x
      | .ok it => .ok (.mapFold it) := by
  rw [grf_good (cf + 2) o op hg hop, hn]
  simp only [hu]
  rw [getReflectFoldMap]
  rfl

theorem grf_ptr (cf : Nat) (o : FoldOpts) (op : Open) {sn : List String} {T e : GoType}
    (hg : goodT sn T = true) (hop : OpIn op sn) (hu : T.under = .ptr e) :
    getReflectFold (cf + 2) o op T =
      match getReflectFold cf o (op.enter T) (baseType T).2 with
      | .error x => .error x
      | .ok el => .ok (makePointerFold (baseType T).1 el) := by
  have hn : noPrimitive T := by
    cases T <;> first | rfl | (simp [GoType.under] at hu; done) | (simp [goodT] at hg)
  rw [grf_good (cf + 1) o op hg hop, hn]
  simp only [hu]
  rw [getFoldPointer]
  rfl

theorem grfs_eq (cf : Nat) (o : FoldOpts) (op : Open) (fs : List Field) (inline : Bool) :
    getReflectFoldStruct (cf + 1) o op fs inline =
      match fs.zipIdx.mapM (fun (x : Field × Nat) => buildFieldFold cf o op x.1 x.2) with
      | .error e => .error e
      | .ok fvs =>
        if inline then .ok (.fieldsFold (fvs.filterMap id))
        else .ok (.structFold (fvs.filterMap id) (structFoldLen fs (fvs.filterMap id).length)) := by
  rw [getReflectFoldStruct]
  rfl

theorem grf_struct (cf : Nat) (o : FoldOpts) (op : Open) {sn : List String} {T : GoType} {fs : List Field}
    (hg : goodT sn T = true) (hop : OpIn op sn) (hu : T.under = .struct fs) :
    getReflectFold (cf + 1) o op T = getReflectFoldStruct cf o (op.enter T) fs false := by
  have hn : noPrimitive T := by
    cases T <;> first | rfl | (simp [GoType.under] at hu; done) | (simp [goodT] at hg)
  rw [grf_good cf o op hg hop, hn]
  simp only [hu]

/-! ## pointers -/

theorem stripPtr_of_under_ptr {T e : GoType} (hu : T.under = .ptr e) (hT : unnamedHead T = true ∨ ∃ n m u, T = .named n m u) :
    stripPtr T = ((stripPtr e).1 + 1, (stripPtr e).2) := by
  cases T <;> first
    | (simp [GoType.under] at hu; done)
    | (simp only [GoType.under, GoType.ptr.injEq] at hu; subst hu; rfl)
    | (simp only [GoType.under] at hu; subst hu; rfl)
    | (rcases hT with h | ⟨_, _, _, h⟩ <;> simp_all [unnamedHead])

theorem stripPtr_of_under_nonptr {sn : List String} {T : GoType} (hg : goodT sn T = true)
    (hu : ∀ e, T.under ≠ .ptr e) : stripPtr T = (0, T) := by
  cases T <;> first
    | rfl
    | (exact absurd rfl (hu _))
    | (simp [goodT] at hg; done)
    | (rename_i n m u
       cases u <;> first | rfl | (exact absurd rfl (hu _)))

theorem baseTypeF_strip (fuel : Nat) {sn : List String} {T : GoType} (h : goodT sn T = true)
    (hf : (stripPtr T).1 ≤ fuel) : baseTypeF fuel T = stripPtr T := by
  induction fuel generalizing sn T with
  | zero =>
    by_cases hp : ∃ e, T.under = .ptr e
    · obtain ⟨e, he⟩ := hp
      rw [stripPtr_of_under_ptr he (by cases T <;> simp_all [unnamedHead, goodT])] at hf
      simp at hf
    · rw [stripPtr_of_under_nonptr h (fun e he => hp ⟨e, he⟩)]
      rfl
  | succ n ih =>
    by_cases hp : ∃ e, T.under = .ptr e
    · obtain ⟨e, he⟩ := hp
      have hT : unnamedHead T = true ∨ ∃ n m u, T = .named n m u := by
        cases T <;> simp_all [unnamedHead, goodT]
      rw [stripPtr_of_under_ptr he hT] at hf ⊢
      have hge : goodT (snU sn T) e = true := by
        have := (good_under h).1
        rw [he] at this
        simpa [goodT] using this
      simp only [baseTypeF, he]
      rw [ih hge (by simp at hf; omega)]
    · rw [stripPtr_of_under_nonptr h (fun e he => hp ⟨e, he⟩)]
      simp only [baseTypeF]
      cases hu : T.under <;> first | rfl | (exact absurd ⟨_, hu⟩ hp)

theorem stripPtr_named (n : String) (m : Methods) (u : GoType) (hu : unnamedHead u = true) :
    stripPtr (.named n m u) = if (stripPtr u).1 = 0 then (0, .named n m u) else stripPtr u := by
  cases u <;> first | (simp [unnamedHead] at hu; done) | rfl | (simp [stripPtr])

theorem stripPtr_unnamed_nonptr {u : GoType} (h0 : (stripPtr u).1 = 0) (hu : unnamedHead u = true) :
    (stripPtr u).2 = u ∧ ∀ e, u ≠ .ptr e := by
  cases u <;> first | exact ⟨rfl, fun e h => by cases h⟩ | (simp [stripPtr] at h0) | (simp [unnamedHead] at hu)

theorem good_stripPtr : ∀ (T : GoType) (sn : List String), goodT sn T = true →
    ∃ sn', (∀ x ∈ sn, x ∈ sn') ∧ goodT sn' (stripPtr T).2 = true := by
  intro T
  induction T using GoType.rec (motive_2 := fun _ => True) (motive_3 := fun _ => True) <;>
    try (intro sn h; exact ⟨sn, fun _ hx => hx, h⟩)
  · rename_i e ih
    intro sn h
    exact ih sn (by simpa [goodT] using h)
  · rename_i n m u ih
    intro sn h
    have hu : unnamedHead u = true := by simp_all [goodT]
    rw [stripPtr_named n m u hu]
    by_cases h0 : (stripPtr u).1 = 0
    · simp only [h0, if_true]
      exact ⟨sn, fun _ hx => hx, h⟩
    · simp only [h0, if_false]
      obtain ⟨sn', hs, hg⟩ := ih (n :: sn) (by simp_all [goodT])
      exact ⟨sn', fun x hx => hs x (by simp [hx]), hg⟩
  all_goals trivial

theorem tdepth_stripPtr (T : GoType) : tdepth (stripPtr T).2 + (stripPtr T).1 ≤ tdepth T := by
  induction T using GoType.rec (motive_2 := fun _ => True) (motive_3 := fun _ => True) <;>
    try (simp [stripPtr, tdepth]; done)
  · rename_i e ih
    simp only [stripPtr, tdepth]; omega
  · rename_i n m u ih
    cases u <;> try (simp [stripPtr]; done)
    simp only [stripPtr, tdepth] at ih ⊢
    omega
  all_goals trivial

theorem stripPtr_le_tdepth (T : GoType) : (stripPtr T).1 ≤ tdepth T := by
  have := tdepth_stripPtr T; omega

/-- the stripped type is no pointer type -/
theorem stripPtr_not_ptr : ∀ (T : GoType) (sn : List String), goodT sn T = true →
    ∀ e, (stripPtr T).2.under ≠ .ptr e := by
  intro T
  induction T using GoType.rec (motive_2 := fun _ => True) (motive_3 := fun _ => True) <;>
    try (intro sn h e he; simp [stripPtr, GoType.under] at he; done)
  · rename_i e ih
    intro sn h
    exact ih sn (by simpa [goodT] using h)
  · rename_i n m u ih
    intro sn h
    have hu : unnamedHead u = true := by simp_all [goodT]
    rw [stripPtr_named n m u hu]
    by_cases h0 : (stripPtr u).1 = 0
    · simp only [h0, if_true, GoType.under]
      intro e he
      exact (stripPtr_unnamed_nonptr h0 hu).2 e he
    · simp only [h0, if_false]
      exact ih (n :: sn) (by simp_all [goodT])
  · intro sn h; simp [goodT] at h
  all_goals trivial

theorem baseType_good {sn : List String} {T : GoType} (h : goodT sn T = true) (hd : tdepth T ≤ 1000) :
    baseType T = stripPtr T :=
  baseTypeF_strip 1000 h (Nat.le_trans (stripPtr_le_tdepth T) hd)

/-! ## inline fields -/

/-- the registry entry `setInline(bt, forwarding folder)` -/
def enterInl (op : Open) (bt : GoType) : Open :=
  match bt.menagerieName? with
  | some nm => { op with inl := nm :: op.inl }
  | none => op

theorem OpIn_enterInl {op : Open} {sn : List String} (h : OpIn op sn) (T : GoType) :
    OpIn (enterInl op T) (snU sn T) := by
  cases T <;> first
    | exact h
    | (refine ⟨?_, ?_⟩
       · intro x hx
         simp only [enterInl, GoType.menagerieName?] at hx
         simp [snU, h.1 x hx]
       · intro x hx
         simp only [enterInl, GoType.menagerieName?, List.mem_cons] at hx
         rcases hx with rfl | hx
         · simp [snU]
         · simp [snU, h.2 x hx])

theorem ffgi_good (cf : Nat) (o : FoldOpts) (op : Open) {sn : List String} {t : GoType}
    (h : goodT sn t = true) :
    fieldFoldGenInline (cf + 1) o op t =
      match (generalizing := false) t.under with
      | .struct fs => getReflectFoldStruct cf o op fs true
      | .map _ _ => getReflectFoldMapKeys cf o op t
      | .iface => .ok (.embedd .inlineIface)
      | _ => .error (.err .squashNeedObject) := by
  unfold fieldFoldGenInline
  simp only [whnf_good h, userReg_good o h, implementsFolder_good h, implementsPtrFolder_good h,
    Bool.or_self, Bool.false_eq_true, if_false]
  cases t.under <;> rfl

theorem bffi_good (cf : Nat) (o : FoldOpts) (op : Open) (f : Field) (idx : Nat) {sn : List String}
    (h : goodT sn (baseType f.typ).2 = true) (hop : OpIn op sn) :
    buildFieldFoldInline (cf + 1) o op f idx =
      match fieldFoldGenInline cf o (enterInl op (baseType f.typ).2) (baseType f.typ).2 with
      | .error e => .error e
      | .ok base => .ok (.fieldInline idx (makeInlinePointerFold (baseType f.typ).1 base)) := by
  unfold buildFieldFoldInline
  have hno : ((baseType f.typ).2.menagerieName?.map op.inl.contains).getD false = false := by
    generalize (baseType f.typ).2 = bt at h
    cases bt <;> try rfl
    · rename_i n m u
      simp only [GoType.menagerieName?, Option.map_some, Option.getD_some]
      have hn : ¬ n ∈ sn := by simp_all [goodT]
      have : ¬ n ∈ op.inl := fun hx => hn (hop.2 n hx)
      simpa using this
    · simp [goodT] at h
  simp only [whnf_good h, hno, Bool.false_eq_true, if_false]
  unfold enterInl
  cases (baseType f.typ).2.menagerieName? <;> rfl

end SF.FoldProofs
