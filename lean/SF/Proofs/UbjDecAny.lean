/-
  C18 for the UBJSON pull decoder on ARBITRARY BYTES: no panic; the loop of `Next` itself
  terminates (its result does not depend on the loop fuel beyond `need d`); and — whenever the
  model's per-read parser fuel does not run out — one call of `Next` computes the fuel-free
  parser loop over the concatenation of the buffer and all remaining reads (`next_any`), hence
  the reader-driven decoder agrees with the byte-slice decoder whatever the chunking
  (`nextsF_congr`).
-/
import SF.Proofs.UbjDecReader
set_option linter.unusedSimpArgs false
set_option linter.unusedVariables false
namespace SF.Ubjson.DecR
open SF SF.Ubjson SF.Ubjson.Parse SF.Ubjson.Dec SF.Ubjson.Syn
open SF.Ubjson.Chunk (app Ext Sim More Parked Split execStep_split)
open StateType StateStep

/-! ## what one `feedUntil` leaves behind -/

/-- `feedUntil` from a reachable state, any fuel, any input: no panic; without error the state is
reachable again, the parser is not pending, and unless a value is complete the input is used up -/
theorem feedUntil_good (f : Nat) (p : P) (b : Bytes) (hg : Good p) (hnp : pending p = false) :
    (feedUntil f p b).err ≠ some .panic ∧
    ((feedUntil f p b).err = none → Good (feedUntil f p b).p ∧ pending (feedUntil f p b).p = false ∧
      ((feedUntil f p b).done = false → (feedUntil f p b).rest = [])) := by
  refine ⟨(feedUntil_safe f p b hg.inv).1, fun he => ?_⟩
  by_cases hm : More p b
  · obtain ⟨n, _, hu⟩ := until_of_feed f p b hm (by rw [he]; simp)
    exact hu.post hg hm he
  · cases f with
    | zero => simp [feedUntil] at he
    | succ f =>
      rw [feedUntil_stop f p b hm]
      exact ⟨hg, hnp, fun _ => (not_more_iff.mp hm).1⟩

/-! ## no panic, and the loop of `Next` terminates -/

theorem eofV_ne_ok (p : P) : eofV p ≠ .ok := by
  unfold eofV; split <;> simp

theorem eofV_ne_panic (p : P) : eofV p ≠ .err .panic := by
  unfold eofV
  have := Parse.finalize_no_panic p
  split
  · rename_i e he; intro hc; injection hc with hc; subst hc; exact this he
  · simp

/-- `Decoder.Next` NEVER PANICS — any fuel, any reader script, any buffer size, any reachable
parser state — and after a successful call the parser is in a reachable, non-pending state -/
theorem nextG_safe (ff : Bytes → Nat) (fuel : Nat) (d : Dec) (hg : Good d.p) (hnp : pending d.p = false) :
    (nextG ff fuel d).2 ≠ .err .panic ∧
    ((nextG ff fuel d).2 = .ok → Good (nextG ff fuel d).1.p ∧ pending (nextG ff fuel d).1.p = false) := by
  induction fuel generalizing d with
  | zero => exact ⟨by simp [nextG_zero], by simp [nextG_zero]⟩
  | succ fuel ih =>
    have hfeed : ∀ d' : Dec, d'.p = d.p →
        (feedIt ff fuel d').2 ≠ .err .panic ∧
        ((feedIt ff fuel d').2 = .ok → Good (feedIt ff fuel d').1.p ∧ pending (feedIt ff fuel d').1.p = false) := by
      intro d' hp
      obtain ⟨s1, s2⟩ := feedUntil_good (ff d'.buffer) d'.p d'.buffer (hp ▸ hg) (hp ▸ hnp)
      unfold feedIt
      simp only []
      generalize feedUntil (ff d'.buffer) d'.p d'.buffer = r1 at s1 s2
      cases he : r1.err with
      | some e =>
        simp only []
        exact ⟨by intro hc; injection hc with hc; subst hc; exact s1 he, by intro hc; cases hc⟩
      | none =>
        simp only []
        obtain ⟨g1, g2, _⟩ := s2 he
        by_cases hd : r1.done = true
        · simp only [hd, if_true]
          exact ⟨by simp, fun _ => ⟨g1, g2⟩⟩
        · simp only [hd, Bool.false_eq_true, if_false]
          exact ih _ g1 g2
    have hat : ∀ d' : Dec, (atEOF d').2 ≠ .err .panic ∧
        ((atEOF d').2 = .ok → Good (atEOF d').1.p ∧ pending (atEOF d').1.p = false) := by
      intro d'
      rw [atEOF_spec]
      exact ⟨eofV_ne_panic _, fun h => absurd h (eofV_ne_ok _)⟩
    rw [nextG_succ]
    split
    · split
      · exact hat d
      · split
        · exact hat _
        · exact hfeed (afterRead d) rfl
    · exact hfeed d rfl

/-- THE LOOP OF `Next` TERMINATES, on ANY bytes in ANY read script with ANY buffer size ≥ 1: its
result does not depend on the loop fuel once that is at least `need d` -/
theorem nextG_fuel_irrelevant (ff : Bytes → Nat) (f1 f2 : Nat) (d : Dec) (hr : RdOK d) (hg : Good d.p)
    (hnp : pending d.p = false) (hbs : d.hasReader = true → 1 ≤ d.bufsize)
    (h1 : need d ≤ f1) (h2 : need d ≤ f2) : nextG ff f1 d = nextG ff f2 d := by
  induction f1 generalizing f2 d with
  | zero => simp [need] at h1
  | succ f1 ih =>
    obtain ⟨f2, rfl⟩ : ∃ g, f2 = g + 1 := ⟨f2 - 1, by simp [need] at h2; omega⟩
    have hfeed : ∀ d' : Dec, d'.p = d.p → RdOK d' → (d'.hasReader = true → 1 ≤ d'.bufsize) →
        rcost d'.reader + 1 ≤ f1 → rcost d'.reader + 1 ≤ f2 → feedIt ff f1 d' = feedIt ff f2 d' := by
      intro d' hp hr' hbs' k1 k2
      obtain ⟨s1, s2⟩ := feedUntil_good (ff d'.buffer) d'.p d'.buffer (hp ▸ hg) (hp ▸ hnp)
      unfold feedIt
      simp only []
      generalize feedUntil (ff d'.buffer) d'.p d'.buffer = r1 at s1 s2
      cases he : r1.err with
      | some e => rfl
      | none =>
        simp only []
        obtain ⟨g1, g2, g3⟩ := s2 he
        by_cases hd : r1.done = true
        · simp only [hd, if_true]
        · simp only [hd, Bool.false_eq_true, if_false]
          have hrest := g3 (by simpa using hd)
          exact ih f2 _ hr' g1 g2 hbs' (by simp [need, hrest]; omega) (by simp [need, hrest]; omega)
    rw [nextG_succ, nextG_succ]
    cases hb : d.buffer with
    | cons x xs =>
      simp only [List.isEmpty_cons, Bool.false_eq_true, if_false]
      refine hfeed d rfl hr hbs ?_ ?_
      · simp [need, hb] at h1; omega
      · simp [need, hb] at h2; omega
    | nil =>
      simp only [List.isEmpty_nil, if_true]
      cases hrd : d.hasReader with
      | false => simp
      | true =>
        simp only [Bool.not_true, Bool.false_eq_true, if_false]
        obtain ⟨r1, r2, r3, r4⟩ := read_spec d.reader d.bufsize (hbs hrd)
        by_cases hre : rend d.reader
        · have : readEnd d = true := r2.mpr hre
          simp only [this, if_true]
        · have : readEnd d = false := by
            cases hx : readEnd d with
            | false => rfl
            | true => exact absurd (r2.mp hx) hre
          simp only [this, Bool.false_eq_true, if_false]
          have := r3 hre
          refine hfeed (afterRead d) rfl (Or.inl hrd) (fun _ => hbs hrd) ?_ ?_
          · simp [need, hb] at h1; simp only [afterRead]; omega
          · simp [need, hb] at h2; simp only [afterRead]; omega

/-! ## one call on arbitrary bytes -/

/-- what `next_any` says about a decoder state `d` and an amount of fuel -/
def NextAny (ff : Bytes → Nat) (fuel : Nat) (d : Dec) : Prop :=
  (nextG ff fuel d).2 ≠ .err .outOfFuel →
  (stream d = [] → (nextG ff fuel d).2 = eofV d.p ∧ (nextG ff fuel d).1.p = (finalize d.p).1) ∧
  (stream d ≠ [] → ∃ R m, Until d.p (stream d) R m ∧ Post R (nextG ff fuel d) d.bufsize d.hasReader)

theorem feedIt_any (ff : Bytes → Nat) (hff : ∀ b, 1 ≤ ff b) (fuel : Nat) (d : Dec)
    (hr : RdOK d) (hg : Good d.p) (hnp : pending d.p = false)
    (ih : ∀ d' : Dec, RdOK d' → Good d'.p → pending d'.p = false → d'.buffer = [] →
      d'.reader = d.reader → d'.bufsize = d.bufsize → d'.hasReader = d.hasReader → NextAny ff fuel d') :
    (feedIt ff fuel d).2 ≠ .err .outOfFuel →
    (stream d = [] → (feedIt ff fuel d).2 = eofV d.p ∧ (feedIt ff fuel d).1.p = (finalize d.p).1) ∧
    (stream d ≠ [] → ∃ R m, Until d.p (stream d) R m ∧ Post R (feedIt ff fuel d) d.bufsize d.hasReader) := by
  cases hb : d.buffer with
  | nil =>
    obtain ⟨g, hg'⟩ : ∃ g, ff [] = g + 1 := ⟨ff [] - 1, by have := hff []; omega⟩
    have hfi : feedIt ff fuel d = nextG ff fuel { d with p := d.p, buffer := [] } := by
      unfold feedIt
      simp only [hb, hg', feedUntil_idle_nil _ _ hnp]
      rfl
    have hih := ih { d with p := d.p, buffer := [] } hr hg hnp rfl rfl rfl rfl
    have hs : stream { d with p := d.p, buffer := [] } = stream d := by simp [stream, hb]
    rw [NextAny, hs] at hih
    rw [hfi]
    exact hih
  | cons c0 cs =>
    intro hno
    have hbne : d.buffer ≠ [] := by rw [hb]; simp
    have hsne : stream d ≠ [] := by simp [stream, hb]
    refine ⟨fun h => absurd h hsne, fun _ => ?_⟩
    have hm : More d.p d.buffer := Or.inl hbne
    have hne1 : (feedUntil (ff d.buffer) d.p d.buffer).err ≠ some .outOfFuel := by
      intro hc
      apply hno
      unfold feedIt
      simp only [hc]
    obtain ⟨n1, _, hu1⟩ := until_of_feed _ _ _ hm hne1
    obtain ⟨sp1, sp2, sp3⟩ := until_split hu1 (rstream d.reader) hg hm
    unfold feedIt at hno ⊢
    simp only [] at hno ⊢
    generalize feedUntil (ff d.buffer) d.p d.buffer = r1 at hu1 sp1 sp2 sp3 hno ⊢
    cases he : r1.err with
    | some e =>
      simp only []
      obtain ⟨r', n', q1, q2, q3⟩ := sp1 e he
      refine ⟨r', n', q1, fun e' he' => ?_, fun he' => ?_, fun he' => ?_⟩
      · rw [q2] at he'; injection he' with he'; subst he'
        exact ⟨rfl, q3.symm⟩
      · rw [q2] at he'; cases he'
      · rw [q2] at he'; cases he'
    | none =>
      simp only [he] at hno ⊢
      obtain ⟨g1, g2, g3⟩ := hu1.post hg hm he
      by_cases hd : r1.done = true
      · simp only [hd, if_true]
        obtain ⟨n', q1⟩ := sp2 he hd
        refine ⟨_, n', q1, fun e' he' => ?_, fun _ _ => ⟨rfl, rfl, rfl, hr, rfl, rfl⟩, fun _ hd' => ?_⟩
        · simp [app, he] at he'
        · simp [app, hd] at hd'
      · have hd' : r1.done = false := by simpa using hd
        simp only [hd', Bool.false_eq_true, if_false] at hno ⊢
        have hrest := g3 hd'
        have hih := ih { d with p := r1.p, buffer := r1.rest } hr g1 g2 hrest rfl rfl rfl
        have hstream : stream { d with p := r1.p, buffer := r1.rest } = rstream d.reader := by
          simp [stream, hrest]
        rw [NextAny, hstream] at hih
        obtain ⟨hi1, hi2⟩ := hih hno
        by_cases ht : rstream d.reader = []
        · obtain ⟨e1, e2⟩ := hi1 ht
          have h' : stream d = d.buffer := by simp [stream, ht]
          refine ⟨r1, n1, by rw [h']; exact hu1, fun e' he' => (by rw [he] at he'; cases he'),
            fun _ hd'' => (by rw [hd'] at hd''; cases hd''), fun _ _ => ⟨e1, e2⟩⟩
        · obtain ⟨R2, m2, u2, p2⟩ := hi2 ht
          obtain ⟨R2', n2', q1, q2⟩ := sp3 he hd' ht R2 m2 u2
          exact ⟨R2', n2', q1, p2.of_sim q2⟩

/-- ONE CALL OF `Next` ON ARBITRARY BYTES, for EVERY reader script and buffer size ≥ 1, with the
parser fuel `ff` abstract (at least 1): unless the call reports `outOfFuel`, it behaves as the
fuel-free parser loop over the concatenation of the buffer and all remaining reads -/
theorem next_any (ff : Bytes → Nat) (hff : ∀ b, 1 ≤ ff b) (fuel : Nat) (d : Dec)
    (hr : RdOK d) (hg : Good d.p) (hnp : pending d.p = false) (hbs : d.hasReader = true → 1 ≤ d.bufsize)
    (hf : need d ≤ fuel) : NextAny ff fuel d := by
  induction fuel generalizing d with
  | zero => simp [need] at hf
  | succ fuel ih =>
    cases hb : d.buffer with
    | cons x xs =>
      have hb' : d.buffer ≠ [] := by rw [hb]; simp
      rw [NextAny, nextG_buf ff fuel d hb']
      refine feedIt_any ff hff fuel d hr hg hnp (fun d' h1 h2 h3 h4 h5 h6 h7 => ih d' h1 h2 h3 (by rw [h6, h7]; exact hbs) ?_)
      simp only [need, h4, h5, hb] at hf ⊢
      simp at hf ⊢; omega
    | nil =>
      cases hrd : d.hasReader with
      | false =>
        have hre : rend d.reader := by
          rcases hr with h | h
          · rw [hrd] at h; cases h
          · exact h
        have hs : stream d = [] := by simp [stream, hb, rstream_rend hre]
        rw [NextAny, nextG_noReader ff fuel d hb hrd, atEOF_spec]
        exact fun _ => ⟨fun _ => ⟨rfl, rfl⟩, fun h => absurd hs h⟩
      | true =>
        obtain ⟨r1, r2, r3, r4⟩ := read_spec d.reader d.bufsize (hbs hrd)
        rw [NextAny, nextG_read ff fuel d hb hrd]
        by_cases hre : rend d.reader
        · have hs : stream d = [] := by simp [stream, hb, rstream_rend hre]
          have : readEnd d = true := r2.mpr hre
          simp only [this, if_true, atEOF_spec]
          exact fun _ => ⟨fun _ => ⟨rfl, rfl⟩, fun h => absurd hs h⟩
        · have : readEnd d = false := by
            cases hx : readEnd d with
            | false => rfl
            | true => exact absurd (r2.mp hx) hre
          simp only [this, Bool.false_eq_true, if_false]
          have hs : stream d = stream (afterRead d) := by
            simp only [stream, hb, List.nil_append, afterRead]
            exact r1
          rw [hs]
          have := feedIt_any ff hff fuel (afterRead d) (Or.inl hrd) hg hnp
            (fun d' h1 h2 h3 h4 h5 h6 h7 => ih d' h1 h2 h3 (fun _ => by rw [h6]; exact hbs hrd) (by
              have := r3 hre
              simp only [need, h4, h5, hb, afterRead] at hf ⊢
              simp at hf ⊢; omega))
          exact this

/-! ## the read sizes do not matter -/

theorem one_le_fuelFor (b : Bytes) : 1 ≤ fuelFor b := by unfold fuelFor; omega

/-- the hypotheses about a decoder between two calls, on arbitrary input -/
structure ReadyA (d : Dec) : Prop where
  rd : RdOK d
  g : Good d.p
  np : pending d.p = false
  bs : d.hasReader = true → 1 ≤ d.bufsize

/-- ONE CALL on two decoders in the same parser state with the same remaining stream (split
into reads differently, with different buffer sizes, or held in a byte slice), each with
sufficient loop fuel, neither reporting `outOfFuel`: same result, same accumulated events; after
a successful call the same parser state and again the same remaining stream -/
theorem next_congr (fuel₁ fuel₂ : Nat) (d₁ d₂ : Dec) (h₁ : ReadyA d₁) (h₂ : ReadyA d₂) (hp : d₁.p = d₂.p)
    (hs : stream d₁ = stream d₂) (hf₁ : need d₁ ≤ fuel₁) (hf₂ : need d₂ ≤ fuel₂)
    (hno₁ : (next fuel₁ d₁).2 ≠ .err .outOfFuel) (hno₂ : (next fuel₂ d₂).2 ≠ .err .outOfFuel) :
    (next fuel₁ d₁).2 = (next fuel₂ d₂).2 ∧ (next fuel₁ d₁).1.p.evs = (next fuel₂ d₂).1.p.evs ∧
    ((next fuel₁ d₁).2 = .ok →
      ReadyA (next fuel₁ d₁).1 ∧ ReadyA (next fuel₂ d₂).1 ∧ (next fuel₁ d₁).1.p = (next fuel₂ d₂).1.p ∧
      stream (next fuel₁ d₁).1 = stream (next fuel₂ d₂).1) := by
  have a := next_any fuelFor one_le_fuelFor fuel₁ d₁ h₁.rd h₁.g h₁.np h₁.bs hf₁
  have b := next_any fuelFor one_le_fuelFor fuel₂ d₂ h₂.rd h₂.g h₂.np h₂.bs hf₂
  have sa := nextG_safe fuelFor fuel₁ d₁ h₁.g h₁.np
  have sb := nextG_safe fuelFor fuel₂ d₂ h₂.g h₂.np
  rw [NextAny, ← next_eq_nextG] at a b
  rw [← next_eq_nextG] at sa sb
  obtain ⟨a1, a2⟩ := a hno₁
  obtain ⟨b1, b2⟩ := b hno₂
  by_cases hne : stream d₁ = []
  · obtain ⟨x1, x2⟩ := a1 hne
    obtain ⟨y1, y2⟩ := b1 (hs ▸ hne)
    refine ⟨by rw [x1, y1, hp], by rw [x2, y2, hp], fun hok => ?_⟩
    rw [x1] at hok
    exact absurd hok (eofV_ne_ok _)
  · obtain ⟨R, m, hU, pa⟩ := a2 hne
    obtain ⟨R', m', hU', pb⟩ := b2 (hs ▸ hne)
    rw [← hp, ← hs] at hU'
    obtain ⟨hR, _⟩ := Until.det hU' hU
    subst hR
    cases he : R'.err with
    | some e =>
      obtain ⟨x1, x2⟩ := pa.err e he
      obtain ⟨y1, y2⟩ := pb.err e he
      refine ⟨by rw [x1, y1], by rw [x2, y2], fun hok => ?_⟩
      rw [x1] at hok; cases hok
    | none =>
      cases hd : R'.done with
      | true =>
        obtain ⟨x1, x2, x3, x4, x5, x6⟩ := pa.ok he hd
        obtain ⟨y1, y2, y3, y4, y5, y6⟩ := pb.ok he hd
        refine ⟨by rw [x1, y1], by rw [x2, y2], fun _ => ⟨?_, ?_, by rw [x2, y2], by rw [x3, y3]⟩⟩
        · obtain ⟨g1, g2⟩ := sa.2 x1
          exact ⟨x4, g1, g2, fun h => by rw [x5]; exact h₁.bs (by rw [← x6]; exact h)⟩
        · obtain ⟨g1, g2⟩ := sb.2 y1
          exact ⟨y4, g1, g2, fun h => by rw [y5]; exact h₂.bs (by rw [← y6]; exact h)⟩
      | false =>
        obtain ⟨x1, x2⟩ := pa.eof he hd
        obtain ⟨y1, y2⟩ := pb.eof he hd
        refine ⟨by rw [x1, y1], by rw [x2, y2], fun hok => ?_⟩
        rw [x1] at hok
        exact absurd hok (eofV_ne_ok _)

/-- sequences of calls on two such decoders (possibly with different sufficient loop fuels),
neither ever reporting `outOfFuel` -/
theorem nextsF_congr (f₁ f₂ : Dec → Nat) (hf₁ : Enough f₁) (hf₂ : Enough f₂) (n : Nat) :
    ∀ d₁ d₂ : Dec, ReadyA d₁ → ReadyA d₂ → d₁.p = d₂.p → stream d₁ = stream d₂ →
      (∀ x ∈ nextsF f₁ n d₁, x.1 ≠ .err .outOfFuel) → (∀ x ∈ nextsF f₂ n d₂, x.1 ≠ .err .outOfFuel) →
      nextsF f₁ n d₁ = nextsF f₂ n d₂ := by
  induction n with
  | zero => intros; rfl
  | succ n ih =>
    intro d₁ d₂ h₁ h₂ hp hs hno₁ hno₂
    rw [nextsF_succ] at hno₁ hno₂ ⊢
    rw [nextsF_succ]
    obtain ⟨c1, c2, c3⟩ := next_congr (f₁ d₁) (f₂ d₂) d₁ d₂ h₁ h₂ hp hs (hf₁ d₁) (hf₂ d₂)
      (hno₁ _ (List.mem_cons_self ..)) (hno₂ _ (List.mem_cons_self ..))
    rw [← c1]
    simp only [Parse.events, c2]
    congr 1
    by_cases hok : (next (f₁ d₁) d₁).2 = .ok
    · obtain ⟨k1, k2, k3, k4⟩ := c3 hok
      have hok2 : (next (f₂ d₂) d₂).2 = .ok := by rw [← c1]; exact hok
      simp only [hok, hok2, beq_self_eq_true, if_true] at hno₁ hno₂ ⊢
      exact ih _ _ k1 k2 k3 k4 (fun x hx => hno₁ x (List.mem_cons_of_mem _ hx))
        (fun x hx => hno₂ x (List.mem_cons_of_mem _ hx))
    · have : ((next (f₁ d₁) d₁).2 == NextRes.ok) = false := by simpa using hok
      simp only [this, Bool.false_eq_true, if_false]

theorem readyA_newDecoder (cs : List Bytes) (e : Bool) (n : Nat) (hn : 1 ≤ n) : ReadyA (newDecoder cs e n) :=
  ⟨Or.inl rfl, good_default, pending_idle [] BT.any, fun _ => hn⟩

theorem readyA_newBytesDecoder (b : Bytes) : ReadyA (newBytesDecoder b) :=
  ⟨Or.inr ⟨rfl, rfl⟩, good_default, pending_idle [] BT.any, fun h => by simp [newBytesDecoder] at h⟩

theorem stream_newDecoder (cs : List Bytes) (e : Bool) (n : Nat) : stream (newDecoder cs e n) = cs.flatten := by
  simp [stream, newDecoder, rstream]

theorem stream_newBytesDecoder (b : Bytes) : stream (newBytesDecoder b) = b := by
  simp [stream, newBytesDecoder, rstream]

/-! ## sequences of calls on arbitrary bytes: no panic, loop fuel irrelevant -/

/-- `Next` changes neither the kind of decoder nor its buffer size, and a byte-slice decoder
never touches its (absent) reader -/
theorem nextG_frame (ff : Bytes → Nat) (fuel : Nat) (d : Dec) :
    (nextG ff fuel d).1.hasReader = d.hasReader ∧ (nextG ff fuel d).1.bufsize = d.bufsize ∧
    (d.hasReader = false → (nextG ff fuel d).1.reader = d.reader) := by
  induction fuel generalizing d with
  | zero => exact ⟨rfl, rfl, fun _ => rfl⟩
  | succ fuel ih =>
    have hfeed : ∀ d' : Dec, (feedIt ff fuel d').1.hasReader = d'.hasReader ∧ (feedIt ff fuel d').1.bufsize = d'.bufsize ∧
        (d'.hasReader = false → (feedIt ff fuel d').1.reader = d'.reader) := by
      intro d'
      unfold feedIt
      simp only []
      generalize feedUntil (ff d'.buffer) d'.p d'.buffer = r1
      cases he : r1.err with
      | some e => exact ⟨rfl, rfl, fun _ => rfl⟩
      | none =>
        simp only []
        by_cases hd : r1.done = true
        · simp only [hd, if_true]; exact ⟨trivial, trivial, fun _ => trivial⟩
        · simp only [hd, Bool.false_eq_true, if_false]
          exact ih _
    rw [nextG_succ]
    split
    · split
      · rw [atEOF_spec]; exact ⟨rfl, rfl, fun _ => rfl⟩
      · rename_i hrd
        have hrd' : d.hasReader = true := by simpa using hrd
        split
        · rw [atEOF_spec]; exact ⟨rfl, rfl, fun h => by rw [hrd'] at h; cases h⟩
        · obtain ⟨a, b, _⟩ := hfeed (afterRead d)
          exact ⟨a, b, fun h => by rw [hrd'] at h; cases h⟩
    · exact hfeed d

theorem ReadyA.next {d : Dec} (h : ReadyA d) (fuel : Nat) (hok : (next fuel d).2 = .ok) : ReadyA (next fuel d).1 := by
  have hs := nextG_safe fuelFor fuel d h.g h.np
  have hf := nextG_frame fuelFor fuel d
  rw [← next_eq_nextG] at hs hf
  obtain ⟨g1, g2⟩ := hs.2 hok
  obtain ⟨f1, f2, f3⟩ := hf
  refine ⟨?_, g1, g2, fun hh => by rw [f2]; exact h.bs (by rw [← f1]; exact hh)⟩
  rcases h.rd with hr | hr
  · exact Or.inl (by rw [f1]; exact hr)
  · cases hrd : d.hasReader with
    | true => exact Or.inl (by rw [f1]; exact hrd)
    | false => exact Or.inr (by rw [f3 hrd]; exact hr)

/-- no call of a sequence of calls panics — ARBITRARY bytes, scripts, buffer sizes, fuels -/
theorem nextsF_no_panic (f : Dec → Nat) (n : Nat) :
    ∀ d : Dec, Good d.p → pending d.p = false → ∀ y ∈ nextsF f n d, y.1 ≠ .err .panic := by
  induction n with
  | zero => intro d _ _ y hy; simp [nextsF] at hy
  | succ n ih =>
    intro d hg hnp y hy
    have hs := nextG_safe fuelFor (f d) d hg hnp
    rw [← next_eq_nextG] at hs
    rw [nextsF_succ] at hy
    rcases List.mem_cons.mp hy with hy | hy
    · rw [hy]; exact hs.1
    · by_cases hok : (next (f d) d).2 = .ok
      · simp only [hok, beq_self_eq_true, if_true] at hy
        obtain ⟨g1, g2⟩ := hs.2 hok
        exact ih _ g1 g2 y hy
      · have : ((next (f d) d).2 == NextRes.ok) = false := by simpa using hok
        simp [this] at hy

/-- the loop fuel does not matter beyond `need`: sequences of calls -/
theorem nextsF_fuel_irrelevant (f₁ f₂ : Dec → Nat) (hf₁ : Enough f₁) (hf₂ : Enough f₂) (n : Nat) :
    ∀ d : Dec, ReadyA d → nextsF f₁ n d = nextsF f₂ n d := by
  induction n with
  | zero => intros; rfl
  | succ n ih =>
    intro d h
    have he : next (f₁ d) d = next (f₂ d) d := by
      rw [next_eq_nextG]
      exact nextG_fuel_irrelevant fuelFor _ _ d h.rd h.g h.np h.bs (hf₁ d) (hf₂ d)
    rw [nextsF_succ, nextsF_succ, he]
    congr 1
    by_cases hok : (next (f₂ d) d).2 = .ok
    · simp only [hok, beq_self_eq_true, if_true]
      exact ih _ (h.next _ hok)
    · have : ((next (f₂ d) d).2 == NextRes.ok) = false := by simpa using hok
      simp only [this, Bool.false_eq_true, if_false]

end SF.Ubjson.DecR
