/-
  The generic (interface{}) sub-ARRAY of the Unfolder mirror, step by step
  (unfoldIfcStartSubArray, unfolderArrX.append, unfoldIfcFinishSubArray), on the explicit
  contexts `arrCtx` of SF/Proofs/UnfGenDefs.lean.
-/
import SF.Proofs.UnfGenDefs
namespace SF.Unf
open SF

theorem push_setLast {α} (A : Array α) (x v : α) : (A.push x).setIfInBounds A.size v = A.push v := by
  apply Array.ext'
  simp [Array.toList_setIfInBounds]

@[simp] theorem GoVal.get_nil (v : GoVal) : v.get [] = some v := by cases v <;> rfl
@[simp] theorem GoVal.set_nil (v nv : GoVal) : v.set [] nv = some nv := by cases v <;> rfl

/-- arrStart in a sink state -/
theorem arrStart_sink (f : Nat) (l : Int) (bt : Nat) (k : PK) (c : Ctx)
    (hu : isSink c.unfolder.current) (hk : btKind bt = some k) :
    onArrayStart (f + 1) l bt c = .ok () (arrCtx c k bt l []) := by
  have h1 : onArrayStart (f + 1) l bt c = unfoldIfcStartSubArray l bt c := by
    rcases hu with h | h | h <;> simp [onArrayStart, bind_def, currentU_eq, h]
  rw [h1]
  by_cases hl : l ≤ 0
  · have hl' : ¬ (0 < if l < 0 then 0 else l) := by split <;> omega
    simp [unfoldIfcStartSubArray, makeArrayPtr, hk, bind_def, pure_def, getCtx, modifyCtx, pushPtr, pushBaseType,
      arrInitState, pushU, pushIdx, arrStartOnArrayStart, currentPtr, load, rootVal, Stk.push, hl', popU, Stk.pop,
      arrCtx, sliceSt, hl, sliceFin]
  · have hl' : 0 < l := by omega
    have hl2 : (if l < 0 then 0 else l) = l := by split <;> omega
    simp [unfoldIfcStartSubArray, makeArrayPtr, hk, bind_def, pure_def, getCtx, modifyCtx, pushPtr, pushBaseType,
      arrInitState, pushU, pushIdx, arrStartOnArrayStart, currentPtr, load, rootVal, Stk.push, hl', popU, Stk.pop,
      arrCtx, sliceSt, hl, zeroM, store, setRoot, push_setLast, hl2]

/-- the slot after one more append, as `unfolderArrX.append` computes it -/
def appendTo (sl : GoVal) (idx : Int) (v : GoVal) : GoVal :=
  match sl with
  | .sliceNil et => .slice et [v] []
  | .slice et es h => if (es.length : Int) ≤ idx then .slice et (es ++ [v]) (h.drop 1) else .slice et (es.set idx.toNat v) h
  | x => x

theorem appendTo_sliceSt (et : GoType) (z : GoVal) (l : Int) (vs : List GoVal) (v : GoVal) :
    appendTo (sliceSt et z l vs) vs.length v = sliceSt et z l (vs ++ [v]) := by
  unfold sliceSt
  by_cases hl : l ≤ 0
  · simp only [hl, if_true, sliceFin]
    cases vs with
    | nil => simp [appendTo]
    | cons a r => simp [appendTo]
  · simp only [hl, if_false]
    unfold appendTo
    simp only [List.length_append, List.length_replicate, List.length_singleton]
    by_cases hn : (arrPreallocLen l).toNat ≤ vs.length
    · have e1 : (arrPreallocLen l).toNat - vs.length = 0 := by omega
      have e2 : (arrPreallocLen l).toNat - (vs.length + 1) = 0 := by omega
      simp [e1, e2]
    · have e1 : ¬ ((vs.length + ((arrPreallocLen l).toNat - vs.length) : Nat) : Int) ≤ (vs.length : Int) := by omega
      simp only [e1, if_false]
      obtain ⟨m, hm⟩ : ∃ m, (arrPreallocLen l).toNat - vs.length = m + 1 := ⟨(arrPreallocLen l).toNat - vs.length - 1, by omega⟩
      have e2 : (arrPreallocLen l).toNat - (vs.length + 1) = m := by omega
      rw [hm, e2]
      simp [List.replicate_succ]


def isSliceVal : GoVal → Prop
  | .sliceNil _ => True
  | .slice _ _ _ => True
  | _ => False

theorem sliceSt_isSlice (et z l vs) : isSliceVal (sliceSt et z l vs) := by
  unfold sliceSt sliceFin
  split
  · split <;> trivial
  · trivial

theorem arrAppend_eq (v : GoVal) (c : Ctx) (i : Nat) (sl : GoVal)
    (hptr : c.ptr.current = some { root := .arrays i })
    (hsl : c.valueBuffer.arrays[i]? = some sl) (hs : isSliceVal sl) :
    arrAppend v c = .ok ()
      { c with
        valueBuffer := { c.valueBuffer with arrays := c.valueBuffer.arrays.setIfInBounds i (appendTo sl c.idx.current v) }
        idx := { c.idx with current := c.idx.current + 1 } } := by
  obtain ⟨hi, hg⟩ := Array.getElem?_eq_some_iff.mp hsl
  cases sl with
  | sliceNil et =>
    simp [arrAppend, bind_def, currentIdx, currentPtr, hptr, load, rootVal, hg, store, setRoot, hi, setCurrentIdx,
      modifyCtx, appendTo]
  | slice et es h =>
    by_cases hle : (es.length : Int) ≤ c.idx.current
    · simp [arrAppend, bind_def, currentIdx, currentPtr, hptr, load, rootVal, hg, store, setRoot, hi, setCurrentIdx,
        modifyCtx, appendTo, hle]
    · simp [arrAppend, bind_def, currentIdx, currentPtr, hptr, load, rootVal, hg, store, setRoot, hi, setCurrentIdx,
        modifyCtx, appendTo, hle]
  | _ => exact absurd hs (by simp [isSliceVal])

theorem arrAppend_arrCtx (v : GoVal) (c : Ctx) (k : PK) (bt : Nat) (l : Int) (vs : List GoVal) :
    arrAppend v (arrCtx c k bt l vs) = .ok () (arrCtx c k bt l (vs ++ [v])) := by
  rw [arrAppend_eq v _ c.valueBuffer.arrays.size (sliceSt k.goType (zero c.env k.goType) l vs) rfl
    (by simp [arrCtx]) (sliceSt_isSlice _ _ _ _)]
  simp [arrCtx, push_setLast, appendTo_sliceSt]

theorem sliceSt_final (et : GoType) (z : GoVal) (l : Int) (vs : List GoVal) (h : l ≤ (vs.length : Int)) :
    sliceSt et z l vs = sliceFin et vs := by
  unfold sliceSt
  by_cases hl : l ≤ 0
  · simp [hl]
  · have : arrPreallocLen l ≤ l := by unfold arrPreallocLen maxArrPrealloc; split <;> omega
    have e : (arrPreallocLen l).toNat - vs.length = 0 := by omega
    have hne : vs ≠ [] := by intro h0; subst h0; simp at h; omega
    simp [hl, e, sliceFin, hne]

/-- the context after `unfolderArrX.cleanup`, before the parent is told -/
def arrDoneCtx (c : Ctx) (k : PK) (bt : Nat) (l : Int) (vs : List GoVal) : Ctx :=
  { c with
    ptr := ⟨some { root := .arrays c.valueBuffer.arrays.size }, c.ptr.current :: c.ptr.stack⟩
    baseType := ⟨bt, c.baseType.current :: c.baseType.stack⟩
    valueBuffer := { c.valueBuffer with
      arrays := c.valueBuffer.arrays.push (sliceSt k.goType (zero c.env k.goType) l vs) } }

theorem arrFin_arrCtx (c : Ctx) (k : PK) (bt : Nat) (l : Int) (vs : List GoVal) :
    onArrayFinished (arrCtx c k bt l vs) = .ok () (arrDoneCtx c k bt l vs) := by
  simp [onArrayFinished, bind_def, currentU_eq, arrCtx, arrCleanup, popU, popIdx, popPtr, Stk.pop, pure_def, arrDoneCtx]

theorem finishSubArray_eq (c : Ctx) (k k' : PK) (bt : Nat) (l : Int) (vs : List GoVal) (hk : btKind bt = some k') :
    unfoldIfcFinishSubArray (arrDoneCtx c k bt l vs) = .ok (sliceSt k.goType (zero c.env k.goType) l vs) c := by
  simp [unfoldIfcFinishSubArray, bind_def, popPtr, popBaseType, Stk.pop, arrDoneCtx, hk, load, rootVal, getCtx,
    modifyCtx, pure_def]


theorem childArrDone_eq (c : Ctx) (k k' : PK) (bt : Nat) (l : Int) (vs : List GoVal)
    (hu : isSink c.unfolder.current) (hk : btKind bt = some k') :
    onChildArrayDone (arrDoneCtx c k bt l vs) =
      pukDeliver c.unfolder.current (.ifc (sliceSt k.goType (zero c.env k.goType) l vs)) c := by
  have hcur : (arrDoneCtx c k bt l vs).unfolder.current = c.unfolder.current := rfl
  have h := finishSubArray_eq c k k' bt l vs hk
  rcases hu with hu | hu | hu <;>
    simp [onChildArrayDone, bind_def, currentU_eq, hcur, hu, h]

theorem arrEnd_arrCtx (f : Nat) (c : Ctx) (k k' : PK) (bt : Nat) (l : Int) (vs : List GoVal)
    (hu : isSink c.unfolder.current) (hk : btKind bt = some k') (hS : c.unfolder.stack ≠ []) :
    stepEv (f + 1) .arrEnd (arrCtx c k bt l vs) =
      (pukDeliver c.unfolder.current (.ifc (sliceSt k.goType (zero c.env k.goType) l vs)) >>= fun _ =>
        reportChildDone onChildArrayDone (c.unfolder.stack.length + 2) (c.unfolder.stack.length + 1)) c := by
  simp only [stepEv]
  rw [ctxArrFin_eq _ _ (arrFin_arrCtx c k bt l vs)]
  have hlen : (arrCtx c k bt l vs).unfolder.stack.length = c.unfolder.stack.length + 1 := by simp [arrCtx]
  rw [hlen, reportChildDone]
  have hS' : ¬ (c.unfolder.stack.length + 1 ≤ 1) := by
    cases hs : c.unfolder.stack with
    | nil => exact absurd hs hS
    | cons a r => simp
  have h2 : ¬ (c.unfolder.stack.length + 1 + 1 ≤ c.unfolder.stack.length + 1) := by omega
  have hlen2 : (arrDoneCtx c k bt l vs).unfolder.stack.length = c.unfolder.stack.length := rfl
  simp only [bind_def, getCtx, hlen2, hS', h2, decide_false, Bool.or_self, Bool.false_eq_true, if_false]
  rw [childArrDone_eq c k k' bt l vs hu hk]
end SF.Unf
