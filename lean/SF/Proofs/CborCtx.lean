/-
  Ghost contexts for the cborl parser mirror (C03: no hang, truncation is an error).

  A `Ctx` describes, in terms of the SPECIFICATION (SF/Cbor/Cst.lean), what the parser has
  read of the top-level item that is currently in progress: the enclosing containers with
  the items completed so far (`conts`, innermost first) and the token being read (`top`).
  From a context we compute
    * the parser's state stack, length stack and partial-token buffer (`Ctx.sts/lens/buf`),
    * the bytes consumed so far (`Ctx.wire`).
  `complete t fs` is what happens (at the level of contexts) when a value `t` is completed
  inside the containers `fs`.  Everything in this file is about the ghost side only.
-/
import SF.Proofs.CborTop
import SF.Proofs.CborDecode
namespace SF.Cbor.Sim
open SF SF.Cbor SF.Cbor.Cst SF.Cbor.Parse

abbrev Mem := W × Bytes × Item

/- `Item.ok` without the (artificial) bound on the number of elements of INDEFINITE
containers: the set of items the parser accepts -/
mutual
def okw : Item → Bool
  | .uint w n => w.fits n
  | .nint w n => w.fits n && n < 9223372036854775808
  | .bytes w bs => w.fits bs.length && bs.length < 9223372036854775808
  | .text w bs => w.fits bs.length && bs.length < 9223372036854775808
  | .arr w xs => w.fits xs.length && xs.length < 9223372036854775808 && okwList xs
  | .arrIndef xs => okwList xs
  | .map w ms => w.fits ms.length && ms.length < 9223372036854775808 && okwMems ms
  | .mapIndef ms => okwMems ms
  | _ => true
def okwList : List Item → Bool
  | [] => true
  | x :: xs => okw x && okwList xs
def okwMems : List Mem → Bool
  | [] => true
  | (kw, k, v) :: ms => kw.fits k.length && k.length < 9223372036854775808 && okw v && okwMems ms
end

theorem wireList_append (xs ys : List Item) : wireList (xs ++ ys) = wireList xs ++ wireList ys := by
  induction xs with
  | nil => simp [wireList]
  | cons x xs ih => simp [wireList, ih]

theorem wireMems_append (xs ys : List Mem) : wireMems (xs ++ ys) = wireMems xs ++ wireMems ys := by
  induction xs with
  | nil => simp [wireMems]
  | cons x xs ih => obtain ⟨kw, k, v⟩ := x; simp [wireMems, ih]

theorem okwList_append (xs ys : List Item) : okwList (xs ++ ys) = (okwList xs && okwList ys) := by
  induction xs with
  | nil => simp [okwList]
  | cons x xs ih => simp [okwList, ih, Bool.and_assoc]

theorem okwMems_append (xs ys : List Mem) : okwMems (xs ++ ys) = (okwMems xs && okwMems ys) := by
  induction xs with
  | nil => simp [okwMems]
  | cons x xs ih => obtain ⟨kw, k, v⟩ := x; simp [okwMems, ih, Bool.and_assoc]

/-! ## contexts -/

/-- an enclosing container in which a VALUE is in progress (or expected) -/
inductive Cont
  | arr (w : W) (n : Nat) (done : List Item)
  | arrI (done : List Item)
  | mapV (w : W) (n : Nat) (done : List Mem) (kw : W) (k : Bytes)
  | mapIV (done : List Mem) (kw : W) (k : Bytes)

/-- a map in which a KEY is in progress (or expected) -/
inductive MapK
  | dfn (w : W) (n : Nat) (done : List Mem)
  | ind (done : List Mem)

inductive ArgK | uint | nint | lenBytes | lenText | lenArr | lenMap
  deriving DecidableEq

inductive KeyTop
  | expect
  | lenArg (w : W) (got : Bytes)
  | start (w : W) (n : Nat)
  | str (w : W) (n : Nat) (got : Bytes)

inductive Top
  | val | elem
  | arg (k : ArgK) (w : W) (got : Bytes)
  | f32 (got : Bytes) | f64 (got : Bytes)
  | startStr (isText : Bool) (w : W) (n : Nat)
  | str (isText : Bool) (w : W) (n : Nat) (got : Bytes) (started : Bool)
  | startArr (w : W) (n : Nat) | startMap (w : W) (n : Nat)
  | startArrI | startMapI
  | key (m : MapK) (kt : KeyTop)

structure Ctx where
  conts : List Cont
  top : Top

def idleCtx : Ctx := ⟨[], .val⟩

/-- additional-information byte of a head with a 1/2/4/8-byte argument -/
def aiB (w : W) : UInt8 := UInt8.ofNat (w.ai 0)

/-! ### concrete parser state of a context -/

def Cont.st : Cont → St
  | .arr .. => ⟨0x80, 1⟩ | .arrI .. => ⟨0x81, 1⟩ | .mapV .. => ⟨0xa0, 1⟩ | .mapIV .. => ⟨0xa1, 1⟩

def Cont.lens : Cont → List Int
  | .arr _ n done => [(n : Int) - done.length]
  | .mapV _ n done _ _ => [(n : Int) - done.length]
  | _ => []

def contsSts : List Cont → List St
  | [] => [⟨stValue, stStart⟩]
  | f :: fs => f.st :: contsSts fs

def contsLens : List Cont → List Int
  | [] => [0]
  | f :: fs => f.lens ++ contsLens fs

def MapK.st : MapK → St
  | .dfn .. => ⟨0xa0, 1⟩ | .ind .. => ⟨0xa1, 1⟩
def MapK.lens : MapK → List Int
  | .dfn _ n done => [(n : Int) - done.length] | .ind .. => []

def KeyTop.sts : KeyTop → List St
  | .expect => []
  | .lenArg w _ => [⟨stLen, aiB w⟩, ⟨0xac, 1⟩]
  | .start .. => [⟨0xac, 1⟩]
  | .str .. => [⟨0xa8, 1⟩]
def KeyTop.lens : KeyTop → List Int
  | .start _ n => [(n : Int)] | .str _ n _ => [(n : Int)] | _ => []
def KeyTop.buf : KeyTop → Bytes
  | .lenArg _ got => got | .str _ _ got => got | _ => []

def ArgK.sts (w : W) : ArgK → List St
  | .uint => [⟨majorUint, aiB w⟩]
  | .nint => [⟨majorNeg, aiB w⟩]
  | .lenBytes => [⟨stLen, aiB w⟩, ⟨0x44, 1⟩]
  | .lenText => [⟨stLen, aiB w⟩, ⟨0x64, 1⟩]
  | .lenArr => [⟨stLen, aiB w⟩, ⟨0x84, 1⟩, ⟨0x80, 1⟩]
  | .lenMap => [⟨stLen, aiB w⟩, ⟨0xa4, 1⟩, ⟨0xa0, 1⟩]

def Top.sts : Top → List St
  | .val => [] | .elem => [⟨0xa9, 1⟩]
  | .arg k w _ => k.sts w
  | .f32 _ => [⟨0xfa, 1⟩] | .f64 _ => [⟨0xfb, 1⟩]
  | .startStr isText _ _ => [⟨if isText then 0x64 else 0x44, 1⟩]
  | .str isText _ _ _ started => [⟨if isText then 0x60 else 0x40, if started then 2 else 1⟩]
  | .startArr .. => [⟨0x84, 1⟩, ⟨0x80, 1⟩]
  | .startMap .. => [⟨0xa4, 1⟩, ⟨0xa0, 1⟩]
  | .startArrI => [⟨0x85, 1⟩, ⟨0x81, 1⟩]
  | .startMapI => [⟨0xa5, 1⟩, ⟨0xa1, 1⟩]
  | .key m kt => kt.sts ++ [m.st]

def Top.lens : Top → List Int
  | .startStr _ _ n => [(n : Int)]
  | .str isText _ n got _ => [if isText then (n : Int) else (n : Int) - got.length]
  | .startArr _ n => [(n : Int)]
  | .startMap _ n => [(n : Int)]
  | .key m kt => kt.lens ++ m.lens
  | _ => []

def Top.buf : Top → Bytes
  | .arg _ _ got => got | .f32 got => got | .f64 got => got
  | .str isText _ _ got _ => if isText then got else []
  | .key _ kt => kt.buf
  | _ => []

def Ctx.sts (c : Ctx) : List St := c.top.sts ++ contsSts c.conts
def Ctx.lens (c : Ctx) : List Int := c.top.lens ++ contsLens c.conts
def Ctx.buf (c : Ctx) : Bytes := c.top.buf

/-- the states in which feedUntil keeps stepping with empty input -/
def Top.pending : Top → Bool
  | .startStr .. | .startArr .. | .startMap .. | .key _ (.start ..) => true
  | _ => false
def Ctx.pending (c : Ctx) : Bool := c.top.pending

/-! ### bytes consumed so far -/

def Cont.wire : Cont → Bytes
  | .arr w n done => head 4 w n ++ wireList done
  | .arrI done => 0x9f :: wireList done
  | .mapV w n done kw k => head 5 w n ++ wireMems done ++ (head 3 kw k.length ++ k)
  | .mapIV done kw k => 0xbf :: wireMems done ++ (head 3 kw k.length ++ k)

/-- outermost container first -/
def contsWire : List Cont → Bytes
  | [] => []
  | f :: fs => contsWire fs ++ f.wire

def MapK.wire : MapK → Bytes
  | .dfn w n done => head 5 w n ++ wireMems done
  | .ind done => 0xbf :: wireMems done

def KeyTop.wire : KeyTop → Bytes
  | .expect => []
  | .lenArg w got => ib 3 (w.ai 0) :: got
  | .start w n => head 3 w n
  | .str w n got => head 3 w n ++ got

def ArgK.m : ArgK → Nat
  | .uint => 0 | .nint => 1 | .lenBytes => 2 | .lenText => 3 | .lenArr => 4 | .lenMap => 5

def Top.wire : Top → Bytes
  | .val => [] | .elem => []
  | .arg k w got => ib k.m (w.ai 0) :: got
  | .f32 got => 0xfa :: got | .f64 got => 0xfb :: got
  | .startStr isText w n => head (if isText then 3 else 2) w n
  | .str isText w n got _ => head (if isText then 3 else 2) w n ++ got
  | .startArr w n => head 4 w n | .startMap w n => head 5 w n
  | .startArrI => [0x9f] | .startMapI => [0xbf]
  | .key m kt => m.wire ++ kt.wire

def Ctx.wire (c : Ctx) : Bytes := contsWire c.conts ++ c.top.wire

/-! ### well-formedness of a context -/

def lenOk (w : W) (n : Nat) : Prop := w.fits n = true ∧ n < 9223372036854775808

def Cont.valid : Cont → Prop
  | .arr w n done => lenOk w n ∧ done.length < n ∧ okwList done = true
  | .arrI done => okwList done = true
  | .mapV w n done kw k => lenOk w n ∧ done.length < n ∧ okwMems done = true ∧ lenOk kw k.length
  | .mapIV done kw k => okwMems done = true ∧ lenOk kw k.length

def contsValid : List Cont → Prop
  | [] => True
  | f :: fs => f.valid ∧ contsValid fs

def MapK.valid : MapK → Prop
  | .dfn w n done => lenOk w n ∧ done.length < n ∧ okwMems done = true
  | .ind done => okwMems done = true

def KeyTop.valid : KeyTop → Prop
  | .expect => True
  | .lenArg w got => w ≠ .imm ∧ got.length < w.bytes
  | .start w n => lenOk w n
  | .str w n got => lenOk w n ∧ got.length < n

def topIsMapV : List Cont → Bool
  | .mapV .. :: _ => true | .mapIV .. :: _ => true | _ => false

def Top.valid (fs : List Cont) : Top → Prop
  | .val => topIsMapV fs = false
  | .elem => topIsMapV fs = true
  | .arg _ w got => w ≠ .imm ∧ got.length < w.bytes
  | .f32 got => got.length < 4
  | .f64 got => got.length < 8
  | .startStr _ w n => lenOk w n
  | .str _ w n got _ => lenOk w n ∧ got.length < n
  | .startArr w n => lenOk w n
  | .startMap w n => lenOk w n
  | .startArrI => True
  | .startMapI => True
  | .key m kt => m.valid ∧ kt.valid

def Ctx.Valid (c : Ctx) : Prop := contsValid c.conts ∧ c.top.valid c.conts

theorem idle_valid : idleCtx.Valid := ⟨trivial, rfl⟩

/-! ### completion of a value -/

inductive Out
  | done (t : Item)
  | cont (c : Ctx)

def Out.pending : Out → Bool
  | .done _ => false
  | .cont c => c.pending

/-- a value `t` has been completed inside the containers `fs` -/
def complete (t : Item) : List Cont → Out
  | [] => .done t
  | .arr w n done :: fs =>
    if done.length + 1 < n then .cont ⟨.arr w n (done ++ [t]) :: fs, .val⟩
    else complete (.arr w (done ++ [t])) fs
  | .arrI done :: fs => .cont ⟨.arrI (done ++ [t]) :: fs, .val⟩
  | .mapV w n done kw k :: fs =>
    if done.length + 1 < n then .cont ⟨fs, .key (.dfn w n (done ++ [(kw, k, t)])) .expect⟩
    else complete (.map w (done ++ [(kw, k, t)])) fs
  | .mapIV done kw k :: fs => .cont ⟨fs, .key (.ind (done ++ [(kw, k, t)])) .expect⟩

/-- what an outcome must satisfy, `pre` being all bytes consumed for the current top-level
item: a completed item is a well-formed item whose wire form is exactly `pre`; a context is
well-formed and accounts for exactly `pre` -/
def GoodOut (pre : Bytes) : Out → Prop
  | .done t => okw t = true ∧ t.wire = pre
  | .cont c => c.Valid ∧ c.wire = pre

theorem complete_good (t : Item) (ht : okw t = true) (fs : List Cont) (hfs : contsValid fs) :
    GoodOut (contsWire fs ++ t.wire) (complete t fs) ∧ (complete t fs).pending = false := by
  induction fs generalizing t with
  | nil => simp [complete, GoodOut, contsWire, ht, Out.pending]
  | cons f fs ih =>
    obtain ⟨hf, hfs'⟩ := hfs
    cases f with
    | arr w n done =>
      obtain ⟨hl, hd, hok⟩ := hf
      have hok' : okwList (done ++ [t]) = true := by simp [okwList_append, hok, okwList, ht]
      simp only [complete]
      split
      · refine ⟨?_, rfl⟩
        show (contsValid _ ∧ Top.valid _ _) ∧ _
        refine ⟨⟨⟨⟨hl, (by simp; omega), hok'⟩, hfs'⟩, rfl⟩, ?_⟩
        simp [Ctx.wire, contsWire, Cont.wire, Top.wire, wireList_append, wireList]
      · have hn : (done ++ [t]).length = n := by simp; omega
        have := ih (.arr w (done ++ [t]))
          (by simp only [okw, hn, hl.1, hok']; simp [hl.2]) hfs'
        simpa [contsWire, Cont.wire, Item.wire, hn, wireList_append, wireList] using this
    | arrI done =>
      have hok' : okwList (done ++ [t]) = true := by
        have : okwList done = true := hf
        simp [okwList_append, this, okwList, ht]
      simp only [complete]
      refine ⟨?_, rfl⟩
      show (contsValid _ ∧ Top.valid _ _) ∧ _
      refine ⟨⟨⟨hok', hfs'⟩, rfl⟩, ?_⟩
      simp [Ctx.wire, contsWire, Cont.wire, Top.wire, wireList_append, wireList]
    | mapV w n done kw k =>
      obtain ⟨hl, hd, hok, hk⟩ := hf
      have hok' : okwMems (done ++ [(kw, k, t)]) = true := by
        simp only [okwMems_append, hok, okwMems, hk.1, ht]; simp [hk.2]
      simp only [complete]
      split
      · refine ⟨?_, rfl⟩
        show (contsValid _ ∧ Top.valid _ _) ∧ _
        refine ⟨⟨hfs', ⟨hl, (by simp; omega), hok'⟩, trivial⟩, ?_⟩
        simp [Ctx.wire, contsWire, Cont.wire, Top.wire, MapK.wire, KeyTop.wire, wireMems_append, wireMems]
      · have hn : (done ++ [(kw, k, t)]).length = n := by simp; omega
        have := ih (.map w (done ++ [(kw, k, t)]))
          (by simp only [okw, hn, hl.1, hok']; simp [hl.2]) hfs'
        simpa [contsWire, Cont.wire, Item.wire, hn, wireMems_append, wireMems] using this
    | mapIV done kw k =>
      obtain ⟨hok, hk⟩ := hf
      have hok' : okwMems (done ++ [(kw, k, t)]) = true := by
        simp only [okwMems_append, hok, okwMems, hk.1, ht]; simp [hk.2]
      simp only [complete]
      refine ⟨?_, rfl⟩
      show (contsValid _ ∧ Top.valid _ _) ∧ _
      refine ⟨⟨hfs', hok', trivial⟩, ?_⟩
      simp [Ctx.wire, contsWire, Cont.wire, Top.wire, MapK.wire, KeyTop.wire, wireMems_append, wireMems]

end SF.Cbor.Sim
