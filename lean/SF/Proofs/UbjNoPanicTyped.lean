/-
  C03 helper lemmas (UBJSON): stepArrayTyped, stepObjectInit, field names.
-/
import SF.Proofs.UbjNoPanicArr
namespace SF.Ubjson.Parse
open SF SF.Ubjson
open StateType StateStep

/-! ### stepArrayTyped -/

def atContent (l : Int) (b : Bytes) (p : P) : R :=
  if l == 0 then
    match visit p .arrEnd with
    | (p, some e) => { p := p, rest := b, done := true, err := some e }
    | (p, none) =>
      let (p, d) := popLenState (popValueState p)
      { p := p, rest := b, done := d }
  else
    let p := decLen p
    { p := pushState p p.valueState.current, rest := b }

theorem stepArrayTyped_eq (p : P) (b : Bytes) :
    stepArrayTyped p b =
      if p.state.current.step == stStart || p.state.current.step == stWithType0
          || p.state.current.step == stWithType1 then
        { stepTypeLenHeader p b stWithLen with done := false }
      else
        if p.state.current.step == stWithLen then
          match visit (setStep p stCont) (.arrStart p.length.current (setStep p stCont).valueType) with
          | (p', some e) => { p := p', rest := b, err := some e }
          | (p', none) => atContent p.length.current b p'
        else atContent p.length.current b p := rfl

theorem crit_arrayTyped {s : St} (h : s.type = stArrayTyped) : crit s = false := by
  cases s with | mk t st => simp only at h; subst h; cases st <;> decide

theorem atContent_safe (l : Int) (b : Bytes) (p : P) (hi : Inv p)
    (ht : p.state.current.type = stArrayTyped) : Safe p.err (atContent l b p) := by
  unfold atContent
  split
  · simp only [visit_eq]
    rcases verr_cases p with h | h <;> rw [h] <;> simp only []
    · exact ⟨by simp, rfl, (hi.addEv _).popValueState.popLenState⟩
    · exact ⟨by simp, rfl, hi.addEv _⟩
  · exact ⟨by simp, rfl, (hi.decLen (crit_arrayTyped ht)).pushState (crit_arrayTyped ht) _ hi.vcur⟩

theorem stepArrayTyped_safe (p : P) (b : Bytes) (hi : Inv p)
    (hg : b ≠ [] ∨ pending p = true) (ht : p.state.current.type = stArrayTyped) :
    Safe p.err (stepArrayTyped p b) := by
  rw [stepArrayTyped_eq]
  split
  · rename_i hs
    have hb : b ≠ [] := by
      rcases hg with h | h
      · exact h
      · simp only [Bool.or_eq_true, beq_iff_eq] at hs
        rcases hs with (hs | hs) | hs <;> simp [pending, ht, hs] at h
    exact Safe.setDone (stepTypeLenHeader_safe p b _ hi hb (Or.inl ht)) false
  · split
    · simp only [visit_eq]
      have hi2 : Inv (setStep p stCont) := hi.setStep _ (by decide)
      rcases verr_cases (setStep p stCont) with h | h <;> rw [h] <;> simp only []
      · exact atContent_safe _ b _ (hi2.addEv _) (by simpa [addEv, setStep, setCurrent] using ht)
      · exact ⟨by simp, rfl, hi2.addEv _⟩
    · exact atContent_safe _ b p hi ht

/-! ### objects -/

theorem stepObjectInit_safe (p : P) (b : Bytes) (hi : Inv p) (hb : b ≠ [])
    (ht : p.state.current.type = stObject) : Safe p.err (stepObjectInit p b) := by
  unfold stepObjectInit
  cases b with
  | nil => exact absurd rfl hb
  | cons b0 bs =>
    simp only []
    have hcr : ∀ t : StateType, t = stObjectCount ∨ t = stObjectTyped ∨ t = stObjectDyn →
        crit { p.state.current with type := t } = true → crit p.state.current = true := by
      intro t h; rcases h with rfl | rfl | rfl <;> simp [crit, ht]
    split
    · exact ⟨by simp, rfl, hi.setCurrent' _ (hcr _ (by simp))⟩
    split
    · exact ⟨by simp, rfl, hi.setCurrent' _ (hcr _ (by simp))⟩
    · simp only [visit_eq]
      exact ⟨verr_np _, rfl, (hi.setCurrent' _ (hcr stObjectDyn (by simp))).addEv _⟩

theorem fieldName_safe (p : P) (b : Bytes) (hi : Inv p) (hc : crit p.state.current = true) :
    Safe p.err (fieldName p b) := by
  have hL := hi.cur hc
  unfold fieldName
  simp only []
  split
  · omega
  · have h1 := hi.collectP b p.length.current.toNat
    rcases h : collectP p b p.length.current.toNat with ⟨q, rest, tmp⟩
    have hq : q = (collectP p b p.length.current.toNat).1 := by rw [h]
    have hqe : q.err = p.err := by rw [hq]; rfl
    have hqs : q.state = p.state := by rw [hq]; rfl
    rw [← hq] at h1
    rw [← hqe]
    cases tmp with
    | none => exact ⟨by simp, rfl, h1⟩
    | some t =>
      simp only [visit_eq]
      refine ⟨verr_np _, rfl, ?_⟩
      exact ⟨by intro hc'; simp [setStep, setCurrent, crit] at hc', h1.stk, h1.vcur, h1.vstk⟩

end SF.Ubjson.Parse
