/-
  Property C09 with the gotype fold as producer, universe with custom code — the compile side
  (cf. FoldWfType): the typing `FVc` / `FIc` / `FMc` of compiled folders, extended by the LEAVES a
  type with a custom folder / a pointer to one compile to (`folderIfc`, `userVal`, `userPtr`:
  `LeafT`) and by `embedd` of such a leaf (inline fields).  `compile_FVc`: whatever
  `getReflectFold` compiles for a type of `goodC reg` is typed for it.
-/
import SF.Proofs.CusTypeOk
import SF.Proofs.CusEmpty
import SF.Proofs.FoldWfType
namespace SF.FoldProofs.Custom.WfC
open SF SF.Gotype SF.Gotype.Fold SF.FoldProofs.Wf

/-- the compiled folder of a type with a custom folder, or of a pointer to one -/
def LeafT (reg : Bool) (T : GoType) (f : ReFold) : Prop :=
  (∃ sn n m u, T = .named n m u ∧ goodC reg sn T = true ∧ isC1 reg T = true ∧ f = leafC1 reg n) ∨
  (∃ sn n m u, T = .ptr (.named n m u) ∧ goodC reg sn (.named n m u) = true ∧
    isC1 reg (.named n m u) = true ∧ f = leafC2 reg n)

mutual
def FVc (reg : Bool) : GoType → ReFold → Prop
  | _, .prim _ => True
  | _, .arrPrim _ => True
  | _, .mapPrim _ => True
  | T, .folderIfc => LeafT reg T .folderIfc
  | T, .userVal n => LeafT reg T (.userVal n)
  | T, .userPtr n => LeafT reg T (.userPtr n)
  | T, .pointer n e => (∃ sn, goodC reg sn T = true) ∧ n = (stripPtr T).1 ∧ FVc reg (stripPtr T).2 e
  | T, .structFold fields count => ∃ fs, T.under = .struct fs ∧ FMsc reg fs fields ∧
      (count = -1 ∨ (count = fields.length ∧ ∀ f ∈ fields, isFieldF f = true))
  | T, .mapFold it => (∃ k e, T.under = .map k e) ∧ FIc reg T it ∧ isIterF it = true
  | T, .slice el => ((∃ e, T.under = .slice e) ∨ (∃ n e, T.under = .array n e)) ∧ FVc reg T.elem el
  | T, .ifaceElem => T.under = .iface
  | _, _ => False
def FIc (reg : Bool) : GoType → ReFold → Prop
  | T, .inlinePointer n e => (∃ sn, goodC reg sn T = true) ∧ n = (stripPtr T).1 ∧ FIc reg (stripPtr T).2 e
  | T, .fieldsFold fields => ∃ fs, T.under = .struct fs ∧ FMsc reg fs fields
  | T, .mapKeys el => (∃ k e, T.under = .map k e) ∧ FVc reg T.elem el
  | T, .mapInline none => ∃ k, T.under = .map k .iface
  | T, .mapInline (some _) => ∃ k e, T.under = .map k e
  | T, .embedd f => ∃ sn n m u, T = .named n m u ∧ goodC reg sn T = true ∧ isC1 reg T = true ∧ f = leafC1 reg n
  | _, _ => False
def FMc (reg : Bool) : List Field → ReFold → Prop
  | fs, .field _ idx fn => ∃ fld, fs[idx]? = some fld ∧ FVc reg fld.typ fn
  | fs, .nonEmptyField _ idx rs fn => ∃ fld, fs[idx]? = some fld ∧ (∃ sn, goodC reg sn fld.typ = true) ∧
      tdepth fld.typ ≤ 1000 ∧ rs = makeResolveNonEmptyValue fld.typ ∧ FVc reg (stripPtr fld.typ).2 fn ∧
      (isIfaceT (stripPtr fld.typ).2 = true → fn = .ifaceElem)
  | fs, .fieldInline idx fn => ∃ fld, fs[idx]? = some fld ∧ FIc reg fld.typ fn
  | _, _ => False
def FMsc (reg : Bool) : List Field → List ReFold → Prop
  | _, [] => True
  | fs, f :: l => FMc reg fs f ∧ FMsc reg fs l
end

variable {reg : Bool}

/-! ## what compilation produces is typed -/

theorem prim_FVc {T : GoType} {f : ReFold} (h : getReflectFoldPrimitive T = some f) : FVc reg T f := by
  unfold getReflectFoldPrimitive at h
  split at h <;>
    (simp only [Option.map_eq_some_iff] at h
     obtain ⟨p, _, rfl⟩ := h
     simp [FVc])

/-- a leaf is typed -/
theorem leaf_FVc {T : GoType} {f : ReFold} (h : LeafT reg T f) : FVc reg T f := by
  have key : ∀ n, (f = leafC1 reg n ∨ f = leafC2 reg n) → FVc reg T f := by
    intro n hn
    rcases hn with rfl | rfl
    · unfold leafC1 at h ⊢
      split
      · rename_i hr; simp only [hr, if_true] at h; simpa [FVc] using h
      · rename_i hr; simp only [hr] at h; simpa [FVc] using h
    · unfold leafC2 at h ⊢
      split
      · rename_i hr; simp only [hr, if_true] at h; simpa [FVc] using h
      · rename_i hr; simp only [hr] at h; simpa [FVc] using h
  rcases h with ⟨_, n, _, _, _, _, _, hf⟩ | ⟨_, n, _, _, _, _, _, hf⟩
  · exact key n (Or.inl hf)
  · exact key n (Or.inr hf)

/-- getReflectFold on good types of depth ≤ d yields value folders for them -/
def CAc (o : FoldOpts) (reg : Bool) (d : Nat) : Prop :=
  ∀ sn T, tdepth T ≤ d → goodC reg sn T = true → ∀ cf op f, OpIn op sn →
    getReflectFold cf o op T = .ok f → FVc reg T f

/-- the field folders of good fields of depth ≤ d are member folders of the struct -/
def CFc (o : FoldOpts) (reg : Bool) (d : Nat) : Prop :=
  ∀ sn fs, tdepthFs fs ≤ d → goodCFs reg sn fs = true →
    ∀ (full : List Field) k, (∀ j f, fs[j]? = some f → full[k + j]? = some f) →
    ∀ cf op fvs, OpIn op sn →
      (fs.zipIdx k).mapM (fun (x : Field × Nat) => buildFieldFold cf o op x.1 x.2) = .ok fvs →
      FMsc reg full (fvs.filterMap id) ∧
      ((∀ f ∈ fs, lenCond f = false) → ∀ g ∈ fvs.filterMap id, isFieldF g = true)

/-- the map iterator -/
theorem keys_FIc {o : FoldOpts} {d : Nat} (ihA : ∀ d' < d, CAc o reg d') {sn : List String} {T k e : GoType}
    (hu : T.under = .map k e) (he : goodC reg sn e = true) (hde : tdepth e < d)
    {cf : Nat} {op : Open} {it : ReFold} (hop : OpIn op sn)
    (h : getReflectFoldMapKeys cf o op T = .ok it) : FIc reg T it ∧ isIterF it = true := by
  cases cf with
  | zero => simp [getReflectFoldMapKeys] at h
  | succ c =>
  rw [grfmk_good c o op hu] at h
  cases hk : k.under <;> simp only [hk] at h <;> try (simp at h; done)
  by_cases hi : e = .iface
  · subst hi
    simp only [Except.ok.injEq] at h
    subst h
    exact ⟨by simp only [FIc]; exact ⟨k, hu⟩, rfl⟩
  · cases hpr : primOf? e with
    | some p =>
      have : it = .mapInline (some p) := by
        cases e <;> first | (exact absurd rfl hi) | (simp only [hpr, Except.ok.injEq] at h; exact h.symm)
      subst this
      exact ⟨by simp only [FIc]; exact ⟨k, e, hu⟩, rfl⟩
    | none =>
      cases hel : getReflectFold c o op e with
      | error err =>
        exfalso
        cases e <;> first | (exact absurd rfl hi) | (simp [hpr, hel] at h)
      | ok el =>
        have : it = .mapKeys el := by
          cases e <;> first | (exact absurd rfl hi) | (simp only [hpr, hel, Except.ok.injEq] at h; exact h.symm)
        subst this
        refine ⟨?_, rfl⟩
        simp only [FIc]
        refine ⟨⟨k, e, hu⟩, ?_⟩
        rw [elem_of_under.2.2.1 k e hu]
        exact ihA (tdepth e) hde sn e (Nat.le_refl _) he c op el hop hel

theorem stripPtr_zero {sn : List String} {t : GoType} (hp : goodC reg sn t = true) (h0 : (stripPtr t).1 = 0) :
    (stripPtr t).2 = t := by
  by_cases hpp : ∃ e, t.under = .ptr e
  · obtain ⟨e, he⟩ := hpp
    rw [stripPtr_of_under_ptr he (headKind hp)] at h0
    simp at h0
  · rw [stripPtr_of_under_nonptr hp (fun e he => hpp ⟨e, he⟩)]

theorem caStepC (o : FoldOpts) (hreg : o.folders = reg) (d : Nat) (hd : d ≤ 1000)
    (ihA : ∀ d' < d, CAc o reg d') (ihF : ∀ d' < d, CFc o reg d') : CAc o reg d := by
  intro sn T hT hg cf op f hop h
  cases cf with
  | zero => simp [getReflectFold] at h
  | succ c =>
  rcases head_cases hg with ⟨nm, m, u, rfl, h1⟩ | ⟨nm, m, u, rfl, h1, hge⟩ | hpl
  · rw [grf_c1 c o op hreg hg h1 hop] at h
    cases h
    exact leaf_FVc (Or.inl ⟨sn, nm, m, u, rfl, hg, h1, rfl⟩)
  · rw [grf_c2 c o op hreg h1] at h
    cases h
    exact leaf_FVc (Or.inr ⟨sn, nm, m, u, rfl, hge, h1, rfl⟩)
  rw [grf_good c o op hreg hg hpl hop] at h
  cases hprim : getReflectFoldPrimitive T with
  | some f' =>
    rw [hprim] at h
    simp only [Except.ok.injEq] at h
    subst h
    exact prim_FVc hprim
  | none =>
  rw [hprim] at h
  simp only [] at h
  have hgu := good_under hg
  have hop' := OpIn_enter hop T
  have hdu := tdepth_under hg
  generalize hU : T.under = U at h hgu hdu
  cases U with
  | bool => simp [getReflectFoldPrimitiveKind, hU, primOf?] at h; subst h; simp [FVc]
  | string => simp [getReflectFoldPrimitiveKind, hU, primOf?] at h; subst h; simp [FVc]
  | int k => simp [getReflectFoldPrimitiveKind, hU, primOf?] at h; subst h; simp [FVc]
  | float32 => simp [getReflectFoldPrimitiveKind, hU, primOf?] at h; subst h; simp [FVc]
  | float64 => simp [getReflectFoldPrimitiveKind, hU, primOf?] at h; subst h; simp [FVc]
  | iface =>
    simp only [Except.ok.injEq] at h
    subst h
    simp only [FVc]; exact hU
  | slice e =>
    have he : goodC reg (snU sn T) e = true := by simpa [goodC] using hgu.1
    have hde : tdepth e + 1 ≤ d := by simp only [tdepth] at hdu; omega
    simp only [] at h
    cases c with
    | zero => simp [getReflectFoldSlice] at h
    | succ c' =>
      rw [getReflectFoldSlice, elem_of_under.1 e hU] at h
      cases hel : getReflectFold c' o (op.enter T) e with
      | error x => simp [hel] at h
      | ok el =>
        simp only [hel, Except.ok.injEq] at h
        subst h
        simp only [FVc]
        refine ⟨Or.inl ⟨e, hU⟩, ?_⟩
        rw [elem_of_under.1 e hU]
        exact ihA (tdepth e) (by omega) _ e (Nat.le_refl _) he c' _ el hop' hel
  | array n e =>
    have he : goodC reg (snU sn T) e = true := by simpa [goodC] using hgu.1
    have hde : tdepth e + 1 ≤ d := by simp only [tdepth] at hdu; omega
    simp only [] at h
    cases c with
    | zero => simp [getReflectFoldSlice] at h
    | succ c' =>
      rw [getReflectFoldSlice, elem_of_under.2.1 n e hU] at h
      cases hel : getReflectFold c' o (op.enter T) e with
      | error x => simp [hel] at h
      | ok el =>
        simp only [hel, Except.ok.injEq] at h
        subst h
        simp only [FVc]
        refine ⟨Or.inr ⟨n, e, hU⟩, ?_⟩
        rw [elem_of_under.2.1 n e hU]
        exact ihA (tdepth e) (by omega) _ e (Nat.le_refl _) he c' _ el hop' hel
  | map k e =>
    have hke : goodC reg (snU sn T) k = true ∧ goodC reg (snU sn T) e = true := by simpa [goodC] using hgu.1
    have hde : tdepth e + 1 ≤ d := by simp only [tdepth] at hdu; omega
    simp only [] at h
    cases c with
    | zero => simp [getReflectFoldMap] at h
    | succ c' =>
      rw [getReflectFoldMap] at h
      cases hit : getReflectFoldMapKeys c' o (op.enter T) T with
      | error x => simp [hit] at h
      | ok it =>
        simp only [hit, Except.ok.injEq] at h
        subst h
        obtain ⟨h1, h2⟩ := keys_FIc ihA hU hke.2 (by omega) hop' hit
        simp only [FVc]
        exact ⟨⟨k, e, hU⟩, h1, h2⟩
  | ptr e =>
    simp only [] at h
    cases c with
    | zero => simp [getFoldPointer] at h
    | succ c' =>
      rw [getFoldPointer] at h
      have hb := baseType_good hg (by omega : tdepth T ≤ 1000)
      have hdb := tdepth_stripPtr T
      have hs := stripPtr_of_under_ptr hU (headKind hg)
      have hge : goodC reg (snU sn T) e = true := by simpa [goodC] using hgu.1
      obtain ⟨sn2, hsn2, hg2⟩ := good_stripPtr e _ hge
      have hs1 : 1 ≤ (stripPtr T).1 := by rw [hs]; simp
      have hse : (stripPtr T).2 = (stripPtr e).2 := by rw [hs]
      simp only [hb] at h
      cases hel : getReflectFold c' o (op.enter T) (stripPtr T).2 with
      | error x => simp [hel] at h
      | ok el =>
        simp only [hel, Except.ok.injEq] at h
        subst h
        have hn0 : ((stripPtr T).1 == 0) = false := by
          cases hh : (stripPtr T).1 with
          | zero => omega
          | succ m => rfl
        simp only [makePointerFold, hn0, Bool.false_eq_true, if_false, FVc]
        refine ⟨⟨sn, hg⟩, trivial, ?_⟩
        rw [hse] at hel ⊢
        exact ihA (tdepth (stripPtr e).2) (by rw [hs] at hdb; simp only [] at hdb; omega) sn2 _
          (Nat.le_refl _) hg2 c' _ el (OpIn_mono hop' hsn2) hel
  | struct fs =>
    have hfs : goodCFs reg (snU sn T) fs = true := by simpa [goodC] using hgu.1
    have hde : tdepthFs fs + 1 ≤ d := by simp only [tdepth] at hdu; omega
    simp only [] at h
    cases c with
    | zero => simp [getReflectFoldStruct] at h
    | succ c' =>
      rw [grfs_eq] at h
      cases hfvs : fs.zipIdx.mapM (fun (x : Field × Nat) => buildFieldFold c' o (op.enter T) x.1 x.2) with
      | error x => simp [hfvs] at h
      | ok fvs =>
        simp only [hfvs, Bool.false_eq_true, if_false, Except.ok.injEq] at h
        subst h
        obtain ⟨h1, h2⟩ := ihF (tdepthFs fs) (by omega) _ fs (Nat.le_refl _) hfs fs 0
          (fun j f hj => by simpa using hj) c' _ fvs hop' hfvs
        simp only [FVc]
        refine ⟨fs, hU, h1, ?_⟩
        rw [structFoldLen_eq]
        by_cases hany : fs.any lenCond = true
        · left; simp [hany]
        · right
          simp only [hany, Bool.false_eq_true, if_false, true_and]
          apply h2
          intro f hf
          cases hl : lenCond f with
          | false => rfl
          | true => exact absurd (List.any_eq_true.mpr ⟨f, hf, hl⟩) hany
  | chan e => simp [getReflectFoldPrimitiveKind, hU, primOf?] at h
  | other k => simp [getReflectFoldPrimitiveKind, hU, primOf?] at h
  | named a b c => simp [unnamedHead] at hgu
  | ref a => simp [unnamedHead] at hgu

/-- one field folder -/
theorem field_FMc (o : FoldOpts) (hreg : o.folders = reg) (d : Nat) (hd : d ≤ 1000) (hA : CAc o reg d)
    (ihF : ∀ d' < d, CFc o reg d') (ihA : ∀ d' < d, CAc o reg d')
    {sn : List String} {f : Field} (hgf : goodCF reg sn f = true) (hdt : tdepth f.typ ≤ d)
    {full : List Field} {k : Nat} (hfull : full[k]? = some f)
    {cf : Nat} {op : Open} (hop : OpIn op sn) {g : ReFold}
    (h : buildFieldFold cf o op f k = .ok (some g)) :
    FMc reg full g ∧ (lenCond f = false → isFieldF g = true) := by
  have hpt := goodF_typ hgf
  have hbt := baseType_good hpt (by omega : tdepth f.typ ≤ 1000)
  have hdb := tdepth_stripPtr f.typ
  obtain ⟨sn', hsn', hpb⟩ := good_stripPtr f.typ sn hpt
  have hop1 := OpIn_mono hop hsn'
  cases cf with
  | zero => simp [buildFieldFold] at h
  | succ c =>
  rw [buildFieldFold_eq] at h
  cases hk : fieldKind f with
  | drop => simp [hk] at h
  | conflict => simp [hk] at h
  | plain name =>
    simp only [hk] at h
    cases hvv : getReflectFold c o op f.typ with
    | error e => simp [hvv] at h
    | ok vv =>
      simp only [hvv, Except.ok.injEq, Option.some.injEq] at h
      subst h
      refine ⟨?_, fun _ => rfl⟩
      simp only [FMc]
      exact ⟨f, hfull, hA sn f.typ hdt hpt c op vv hop hvv⟩
  | omitEmpty name =>
    simp only [hk] at h
    have hlen := lenCond_of_kind f (Or.inr ⟨name, hk⟩)
    rw [hbt] at h
    cases hvv : getReflectFold c o op (stripPtr f.typ).2 with
    | error e => simp [hvv] at h
    | ok vv =>
      simp only [hvv] at h
      have hFV : FVc reg (stripPtr f.typ).2 vv :=
        hA sn' _ (by omega) hpb c op vv hop1 hvv
      by_cases hem : (makeResolveNonEmptyValue f.typ).isEmpty = true
      · simp only [hem, if_true, Except.ok.injEq, Option.some.injEq] at h
        subst h
        refine ⟨?_, fun _ => rfl⟩
        simp only [FMc]
        refine ⟨f, hfull, ?_⟩
        -- no resolver: no pointer in front
        have h0 : (stripPtr f.typ).1 = 0 := by
          rw [mrnev_gen hpt (by omega)] at hem
          by_cases h1 : 1 ≤ (stripPtr f.typ).1
          · simp [h1] at hem
          · omega
        rw [stripPtr_zero hpt h0] at hFV
        exact hFV
      · simp only [hem, Bool.false_eq_true, if_false, Except.ok.injEq, Option.some.injEq] at h
        subst h
        refine ⟨?_, fun hc => by rw [hlen] at hc; cases hc⟩
        simp only [FMc]
        refine ⟨f, hfull, ⟨sn, hpt⟩, by omega, rfl, hFV, ?_⟩
        intro hi
        have hu : (stripPtr f.typ).2.under = .iface := by
          unfold isIfaceT at hi
          cases hU : (stripPtr f.typ).2.under <;> simp_all
        have hpl : plainT reg (stripPtr f.typ).2 = true :=
          plain_of_under_nonptr hpb (notC1_of_under_iface hpb hu) (by intro e he; rw [hu] at he; cases he)
        cases c with
        | zero => simp [getReflectFold] at hvv
        | succ c' =>
          rw [grf_iface c' o op hreg hpb hpl hop1 hu] at hvv
          cases hvv
          rfl
  | inline =>
    simp only [hk] at h
    have hlen := lenCond_of_kind f (Or.inl hk)
    cases hg : buildFieldFoldInline c o op f k with
    | error e => simp [hg, Except.map] at h
    | ok g' =>
    simp only [hg, Except.map, Except.ok.injEq, Option.some.injEq] at h
    subst h
    refine ⟨?_, fun hc => by rw [hlen] at hc; cases hc⟩
    cases c with
    | zero => simp [buildFieldFoldInline] at hg
    | succ c2 =>
    rw [bffi_good c2 o op f k (sn := sn') (by rw [hbt]; exact hpb) hop1, hbt] at hg
    cases hbase : fieldFoldGenInline c2 o (enterInl op (stripPtr f.typ).2) (stripPtr f.typ).2 with
    | error e => simp [hbase] at hg
    | ok base =>
    simp only [hbase, Except.ok.injEq] at hg
    subst hg
    simp only [FMc]
    refine ⟨f, hfull, ?_⟩
    -- the inline folder of the base type
    have hni : isIfaceT (stripPtr f.typ).2 = false := by
      have := goodF_notIface hgf
      unfold inlineIfaceF at this
      simpa [hk] using this
    have hFI : FIc reg (stripPtr f.typ).2 base := by
      cases c2 with
      | zero => simp [fieldFoldGenInline] at hbase
      | succ c3 =>
      by_cases hb1 : isC1 reg (stripPtr f.typ).2 = true
      · obtain ⟨bn, bm, bu, hbe, _⟩ := c1_shape hpb hb1
        rw [hbe] at hb1 hpb hbase ⊢
        rw [ffgi_c1 c3 o _ hreg hpb hb1] at hbase
        cases hbase
        simp only [FIc]
        exact ⟨sn', bn, bm, bu, rfl, hpb, hb1, rfl⟩
      have hb1' : isC1 reg (stripPtr f.typ).2 = false := by simpa using hb1
      have hnp' := stripPtr_not_ptr' hpt
      rw [ffgi_good c3 o _ hreg hpb hb1' hnp'] at hbase
      have hop2 := OpIn_enterInl hop1 (stripPtr f.typ).2
      have hgu := good_under hpb
      have hdu := tdepth_under hpb
      generalize hbt' : (stripPtr f.typ).2 = bt at hbase hpb hdb hop2 hgu hdu hni
      generalize hU : bt.under = U at hbase hgu hdu
      cases U with
      | struct fs' =>
        simp only [] at hbase
        have hfs' : goodCFs reg (snU sn' bt) fs' = true := by simpa [goodC] using hgu.1
        have hd' : tdepthFs fs' + 1 ≤ d := by simp only [tdepth] at hdu; omega
        cases c3 with
        | zero => simp [getReflectFoldStruct] at hbase
        | succ c4 =>
          rw [grfs_eq] at hbase
          cases hfvs : fs'.zipIdx.mapM (fun (x : Field × Nat) =>
              buildFieldFold c4 o (enterInl op bt) x.1 x.2) with
          | error x => simp [hfvs] at hbase
          | ok fvs =>
            simp only [hfvs, if_true, Except.ok.injEq] at hbase
            subst hbase
            obtain ⟨r1, _⟩ := ihF (tdepthFs fs') (by omega) _ fs' (Nat.le_refl _) hfs' fs' 0
              (fun j f hj => by simpa using hj) c4 _ fvs hop2 hfvs
            simp only [FIc]
            exact ⟨fs', hU, r1⟩
      | map k' e =>
        simp only [] at hbase
        have hke : goodC reg (snU sn' bt) k' = true ∧ goodC reg (snU sn' bt) e = true := by simpa [goodC] using hgu.1
        have hde : tdepth e + 1 ≤ d := by simp only [tdepth] at hdu; omega
        exact (keys_FIc ihA hU hke.2 (by omega) hop2 hbase).1
      | iface =>
        exfalso
        unfold isIfaceT at hni
        rw [hU] at hni
        simp at hni
      | _ => simp at hbase
    unfold makeInlinePointerFold
    by_cases hn0 : ((stripPtr f.typ).1 == 0) = true
    · simp only [hn0, if_true]
      rw [stripPtr_zero hpt (by simpa using hn0)] at hFI
      exact hFI
    · simp only [hn0, Bool.false_eq_true, if_false, FIc]
      exact ⟨⟨sn, hpt⟩, trivial, hFI⟩

theorem cfStepC (o : FoldOpts) (hreg : o.folders = reg) (d : Nat) (hd : d ≤ 1000) (hA : CAc o reg d)
    (ihA : ∀ d' < d, CAc o reg d') (ihF : ∀ d' < d, CFc o reg d') : CFc o reg d := by
  intro sn fs
  induction fs with
  | nil =>
    intro _ _ full k _ cf op fvs _ h
    have : fvs = [] := by
      have h' : (Except.ok [] : Except Res (List (Option ReFold))) = .ok fvs := h
      cases h'; rfl
    subst this
    exact ⟨trivial, fun _ g hg => by cases hg⟩
  | cons f fs ih =>
    intro hT hp full k hfull cf op fvs hop h
    simp only [tdepthFs] at hT
    simp only [goodCFs, Bool.and_eq_true] at hp
    rw [zipIdx_cons, mapM_cons] at h
    cases hfo : buildFieldFold cf o op f k with
    | error e => simp [hfo] at h
    | ok fo =>
      cases hrest : (fs.zipIdx (k + 1)).mapM (fun (x : Field × Nat) => buildFieldFold cf o op x.1 x.2) with
      | error e => simp [hfo, hrest] at h
      | ok fvs' =>
        simp only [hfo, hrest, Except.ok.injEq] at h
        subst h
        obtain ⟨r1, r2⟩ := ih (by omega) hp.2 full (k + 1)
          (fun j g hj => by
            have := hfull (j + 1) g (by simpa using hj)
            rw [show k + (j + 1) = k + 1 + j by omega] at this
            exact this) cf op fvs' hop hrest
        have hf0 : full[k]? = some f := by simpa using hfull 0 f rfl
        have hdt : tdepth f.typ ≤ d := by rw [← tdepthF_typ]; omega
        cases fo with
        | none =>
          simp only [List.filterMap_cons, id]
          exact ⟨r1, fun hc => r2 (fun g hg => hc g (by simp [hg]))⟩
        | some g =>
          obtain ⟨m1, m2⟩ := field_FMc o hreg d hd hA ihF ihA hp.1 hdt hf0 hop hfo
          simp only [List.filterMap_cons, id]
          refine ⟨⟨m1, r1⟩, ?_⟩
          intro hc g' hg'
          rcases List.mem_cons.mp hg' with rfl | hg''
          · exact m2 (hc f (by simp))
          · exact r2 (fun x hx => hc x (by simp [hx])) g' hg''

theorem compile_allC (o : FoldOpts) (hreg : o.folders = reg) : ∀ d, d ≤ 1000 → CAc o reg d ∧ CFc o reg d := by
  intro d
  induction d using Nat.strongRecOn with
  | _ d ih =>
    intro hd
    have hA := caStepC o hreg d hd (fun d' h => (ih d' h (by omega)).1) (fun d' h => (ih d' h (by omega)).2)
    exact ⟨hA, cfStepC o hreg d hd hA (fun d' h => (ih d' h (by omega)).1) (fun d' h => (ih d' h (by omega)).2)⟩

/-- whatever `getReflectFold` compiles for a good type (custom code included) is a value folder
for that type -/
theorem compile_FVc (o : FoldOpts) (hreg : o.folders = reg) {sn : List String} {T : GoType}
    (hg : goodC reg sn T = true)
    (hd : tdepth T ≤ 1000) {cf : Nat} {op : Open} {f : ReFold} (hop : OpIn op sn)
    (h : getReflectFold cf o op T = .ok f) : FVc reg T f :=
  (compile_allC o hreg (tdepth T) hd).1 sn T (Nat.le_refl _) hg cf op f hop h

end SF.FoldProofs.Custom.WfC
