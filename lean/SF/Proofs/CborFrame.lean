/-
  C17 for the CBOR parser mirror (SF/Cbor/Parse.lean): the EVENT-LOG FRAME.
  `FrC E0 p` is `p` with the events `E0` delivered before (a visitor fault index is shifted by
  their number).  The event log is write-only — `visit` reads its length, for the fault index
  only — so every step function, `execStep` and the loop `feedUntil` commute with the frame,
  from EVERY state and for ALL input.
-/
import SF.Cbor.Parse
set_option linter.unusedSimpArgs false
set_option linter.unusedVariables false
namespace SF.Cbor.Frame
open SF SF.Cbor SF.Cbor.Parse

/-- the frame -/
def FrC (E0 : List Ev) (p : P) : P :=
  { p with evs := p.evs ++ E0, failAt := p.failAt.map (· + E0.length) }

def mapP (f : P → P) (r : R) : R := { r with p := f r.p }

@[simp] theorem mapP_p (f : P → P) (r : R) : (mapP f r).p = f r.p := rfl
@[simp] theorem mapP_rest (f : P → P) (r : R) : (mapP f r).rest = r.rest := rfl
@[simp] theorem mapP_done (f : P → P) (r : R) : (mapP f r).done = r.done := rfl
@[simp] theorem mapP_err (f : P → P) (r : R) : (mapP f r).err = r.err := rfl

/-- the frame on `(parser, done, err)` results -/
def map3 (f : P → P) (x : P × Bool × Option Err) : P × Bool × Option Err := (f x.1, x.2.1, x.2.2)

/-- split an `if` on BOTH sides of the goal -/
macro "isplit" : tactic =>
  `(tactic| (split <;> rename_i hsp <;> (try simp only [hsp, if_true, if_false, Bool.false_eq_true, ↓reduceIte]) <;>
      (try rw [if_pos hsp]) <;> (try rw [if_neg hsp])))

section
variable (E0 : List Ev)

theorem fr_state (p : P) : (FrC E0 p).state = p.state := rfl
theorem fr_length (p : P) : (FrC E0 p).length = p.length := rfl
theorem fr_buffer (p : P) : (FrC E0 p).buffer = p.buffer := rfl
theorem fr_err (p : P) : (FrC E0 p).err = p.err := rfl

theorem fr_visit (p : P) (e : Ev) : visit (FrC E0 p) e = (FrC E0 (visit p e).1, (visit p e).2) := by
  simp only [visit, FrC]
  cases p.failAt with
  | none => rfl
  | some k =>
    simp only [Option.map_some, List.length_append, ge_iff_le, Nat.add_le_add_iff_right]
    split <;> rfl

theorem fr_collectP (p : P) (b : Bytes) (n : Nat) :
    collectP (FrC E0 p) b n = (FrC E0 (collectP p b n).1, (collectP p b n).2.1, (collectP p b n).2.2) := rfl

theorem fr_setMajor (p : P) (m : UInt8) : setMajor (FrC E0 p) m = FrC E0 (setMajor p m) := rfl
theorem fr_setMinor (p : P) (m : UInt8) : setMinor (FrC E0 p) m = FrC E0 (setMinor p m) := rfl
theorem fr_pushState (p : P) (s : St) : pushState (FrC E0 p) s = FrC E0 (pushState p s) := rfl
theorem fr_popSt (p : P) : popSt (FrC E0 p) = FrC E0 (popSt p) := rfl
theorem fr_pushLen (p : P) (l : Int) : pushLen (FrC E0 p) l = FrC E0 (pushLen p l) := rfl
theorem fr_popLen (p : P) : popLen (FrC E0 p) = FrC E0 (popLen p) := rfl
theorem fr_decLen (p : P) (n : Int) : decLen (FrC E0 p) n = FrC E0 (decLen p n) := rfl
theorem fr_depth (p : P) : depth (FrC E0 p) = depth p := rfl

/-! ### onValue, popState -/

theorem onValue_fr (n : Nat) : ∀ p : P, onValue n (FrC E0 p) = map3 (FrC E0) (onValue n p) := by
  induction n with
  | zero =>
    intro p
    unfold onValue
    dsimp (instances := true) only [fr_state, fr_decLen, fr_length]
    isplit
    · isplit
      · rfl
      · rw [fr_visit]
        rcases visit (decLen p 1) (if (p.state.current.major == majorArr) = true then Ev.arrEnd else Ev.objEnd) with ⟨q, _ | e⟩
        · rfl
        · rfl
    · isplit <;> rfl
  | succ n ih =>
    intro p
    unfold onValue
    dsimp (instances := true) only [fr_state, fr_decLen, fr_length]
    isplit
    · isplit
      · rfl
      · rw [fr_visit]
        rcases visit (decLen p 1) (if (p.state.current.major == majorArr) = true then Ev.arrEnd else Ev.objEnd) with ⟨q, _ | e⟩
        · simp only [fr_popLen, fr_popSt]
          exact ih _
        · rfl
    · isplit <;> rfl

theorem popState_fr (n : Nat) (p : P) : popState n (FrC E0 p) = map3 (FrC E0) (popState n p) := by
  cases n with
  | zero => rfl
  | succ n => simp only [popState, fr_popSt]; exact onValue_fr E0 n _

theorem handleLenD_fr (isArr : Bool) (n : Nat) (p : P) :
    handleLenD isArr n (FrC E0 p) = map3 (FrC E0) (handleLenD isArr n p) := by
  unfold handleLenD
  dsimp (instances := true) only [fr_length]
  isplit
  · rfl
  · rw [fr_visit]
    rcases visit p (if isArr = true then Ev.arrEnd else Ev.objEnd) with ⟨q, _ | e⟩
    · simp only [fr_popLen]; exact popState_fr E0 n _
    · rfl

theorem onValueR_fr (p : P) (rest : Bytes) : onValueR (FrC E0 p) rest = mapP (FrC E0) (onValueR p rest) := by
  unfold onValueR
  rw [fr_depth, onValue_fr]
  rfl

theorem popStateR_fr (p : P) (rest : Bytes) : popStateR (FrC E0 p) rest = mapP (FrC E0) (popStateR p rest) := by
  unfold popStateR
  rw [fr_depth, popState_fr]
  rfl

theorem scalar_fr (p : P) (e : Ev) (rest : Bytes) : scalar (FrC E0 p) e rest = mapP (FrC E0) (scalar p e rest) := by
  unfold scalar
  rw [fr_visit]
  rcases visit p e with ⟨q, _ | err⟩
  · exact onValueR_fr E0 q rest
  · rfl

theorem scalarPop_fr (p : P) (e : Ev) (rest : Bytes) :
    scalarPop (FrC E0 p) e rest = mapP (FrC E0) (scalarPop p e rest) := by
  unfold scalarPop
  rw [fr_visit]
  rcases visit p e with ⟨q, _ | err⟩
  · exact popStateR_fr E0 q rest
  · rfl

theorem initByteSeq_fr (p : P) (a m : UInt8) (b : Bytes) :
    initByteSeq (FrC E0 p) a m b = mapP (FrC E0) (initByteSeq p a m b) := by
  unfold initByteSeq
  isplit
  · rfl
  · isplit <;> rfl

theorem initSub_fr (p : P) (a m : UInt8) (b : Bytes) : initSub (FrC E0 p) a m b = mapP (FrC E0) (initSub p a m b) := by
  unfold initSub
  isplit
  · rfl
  · isplit
    · rfl
    · isplit <;> rfl


/-! ### stepValue -/

theorem stepValue_fr (p : P) (b : Bytes) : stepValue (FrC E0 p) b = mapP (FrC E0) (stepValue p b) := by
  unfold stepValue
  cases b with
  | nil => rfl
  | cons b0 bs =>
    simp only []
    repeat' isplit
    all_goals first
      | rfl
      | exact scalar_fr E0 _ _ _
      | exact initByteSeq_fr E0 _ _ _ _
      | exact initSub_fr E0 _ _ _ _

/-! ### arguments -/

theorem getArg_fr (p : P) (b : Bytes) (w : Nat) :
    getArg (FrC E0 p) b w =
      match getArg p b w with
      | .error e => .error e
      | .ok (q, rest, v) => .ok (FrC E0 q, rest, v) := by
  unfold getArg
  isplit
  · cases b <;> rfl
  · rfl

theorem stepUint_fr (p : P) (b : Bytes) : stepUint (FrC E0 p) b = mapP (FrC E0) (stepUint p b) := by
  unfold stepUint
  dsimp (instances := true) only [fr_state]
  cases widthOf p.state.current.minor with
  | none => rfl
  | some w =>
    simp only []
    rw [getArg_fr]
    rcases getArg p b w with e | ⟨q, rest, _ | v⟩
    · rfl
    · rfl
    · exact scalarPop_fr E0 q _ rest

theorem stepNeg_fr (p : P) (b : Bytes) : stepNeg (FrC E0 p) b = mapP (FrC E0) (stepNeg p b) := by
  unfold stepNeg
  dsimp (instances := true) only [fr_state]
  cases widthOf p.state.current.minor with
  | none => rfl
  | some w =>
    simp only []
    rw [getArg_fr]
    rcases getArg p b w with e | ⟨q, rest, _ | v⟩
    · rfl
    · rfl
    · simp only []
      cases negEvent w v with
      | error e => rfl
      | ok ev => exact scalarPop_fr E0 q ev rest

theorem stepLen_fr (p : P) (b : Bytes) : stepLen (FrC E0 p) b = mapP (FrC E0) (stepLen p b) := by
  unfold stepLen
  dsimp (instances := true) only [fr_state]
  cases widthOf p.state.current.minor with
  | none => rfl
  | some w =>
    simp only []
    rw [getArg_fr]
    rcases getArg p b w with e | ⟨q, rest, _ | v⟩
    · rfl
    · rfl
    · simp only []
      isplit <;> rfl

theorem stepFloat_fr (p : P) (b : Bytes) (w : Nat) : stepFloat (FrC E0 p) b w = mapP (FrC E0) (stepFloat p b w) := by
  unfold stepFloat
  rw [fr_collectP]
  rcases collectP p b w with ⟨q, rest, _ | t⟩
  · rfl
  · simp only []
    rw [fr_visit]
    rcases visit q (if (w == 4) = true then Ev.f32 (UInt32.ofNat (beNat t)) else Ev.f64 (UInt64.ofNat (beNat t))) with ⟨q', _ | e⟩
    · exact popStateR_fr E0 q' rest
    · rfl

/-! ### byte strings, text, keys -/

theorem visitAll_fr (es : List Ev) : ∀ p : P, visitAll (FrC E0 p) es = (FrC E0 (visitAll p es).1, (visitAll p es).2) := by
  induction es with
  | nil => intro p; rfl
  | cons e es ih =>
    intro p
    simp only [visitAll]
    rw [fr_visit]
    rcases visit p e with ⟨q, _ | err⟩
    · exact ih q
    · rfl

theorem stepBytesGo_fr (p : P) (b : Bytes) : stepBytesGo (FrC E0 p) b = mapP (FrC E0) (stepBytesGo p b) := by
  unfold stepBytesGo
  dsimp (instances := true) only [fr_length]
  by_cases hd : b.length ≥ p.length.current.toNat
  · simp only [hd, decide_true, if_true]
    rw [visitAll_fr]
    generalize visitAll _ _ = x
    obtain ⟨q, _ | e⟩ := x
    · simp only []
      rw [fr_visit]
      rcases visit q Ev.arrEnd with ⟨q', _ | e⟩
      · simp only [fr_popLen]; exact popStateR_fr E0 _ _
      · rfl
    · rfl
  · simp only [hd, decide_false, Bool.false_eq_true, if_false, fr_decLen]
    rw [visitAll_fr]
    generalize visitAll _ _ = x
    obtain ⟨q, _ | e⟩ := x
    · rfl
    · rfl

theorem stepBytes_fr (p : P) (b : Bytes) : stepBytes (FrC E0 p) b = mapP (FrC E0) (stepBytes p b) := by
  unfold stepBytes
  dsimp (instances := true) only [fr_state, fr_length]
  isplit
  · rw [fr_visit]
    rcases visit p (Ev.arrStart p.length.current BT.byte) with ⟨q, _ | e⟩
    · simp only [fr_setMinor]; exact stepBytesGo_fr E0 _ b
    · rfl
  · exact stepBytesGo_fr E0 p b

theorem stepText_fr (p : P) (b : Bytes) : stepText (FrC E0 p) b = mapP (FrC E0) (stepText p b) := by
  unfold stepText
  dsimp (instances := true) only [fr_length]
  rw [fr_collectP]
  rcases collectP p b p.length.current.toNat with ⟨q, rest, _ | t⟩
  · rfl
  · simp only [fr_popLen]
    rw [fr_visit]
    rcases visit (popLen q) (Ev.str t) with ⟨q', _ | e⟩
    · exact popStateR_fr E0 q' rest
    · rfl

theorem stepKey_fr (p : P) (b : Bytes) : stepKey (FrC E0 p) b = mapP (FrC E0) (stepKey p b) := by
  unfold stepKey
  dsimp (instances := true) only [fr_length]
  rw [fr_collectP]
  rcases collectP p b p.length.current.toNat with ⟨q, rest, _ | t⟩
  · rfl
  · simp only []
    rw [fr_visit]
    rcases visit q (Ev.key t) with ⟨q', _ | e⟩
    · rfl
    · rfl

theorem initMapKey_fr (p : P) (b : Bytes) : initMapKey (FrC E0 p) b = mapP (FrC E0) (initMapKey p b) := by
  unfold initMapKey
  cases b with
  | nil => rfl
  | cons b0 bs =>
    simp only []
    isplit
    · rfl
    · isplit
      · rfl
      · exact initByteSeq_fr E0 _ _ _ _

/-! ### containers -/

theorem stepArray_fr (p : P) (b : Bytes) : stepArray (FrC E0 p) b = mapP (FrC E0) (stepArray p b) := by
  unfold stepArray
  dsimp (instances := true) only [fr_length]
  isplit
  · exact stepValue_fr E0 p b
  · rw [fr_depth, handleLenD_fr]; rfl

theorem stepMap_fr (p : P) (b : Bytes) : stepMap (FrC E0 p) b = mapP (FrC E0) (stepMap p b) := by
  unfold stepMap
  dsimp (instances := true) only [fr_length]
  isplit
  · isplit
    · exact initMapKey_fr E0 p b
    · rfl
  · rw [fr_depth, handleLenD_fr]; rfl

theorem indefArr_fr (p : P) (b : Bytes) : indefArr (FrC E0 p) b = mapP (FrC E0) (indefArr p b) := by
  unfold indefArr
  cases b with
  | nil => rfl
  | cons b0 bs =>
    simp only []
    isplit
    · rw [fr_visit]
      rcases visit p Ev.arrEnd with ⟨q, _ | e⟩
      · exact popStateR_fr E0 q bs
      · rfl
    · exact stepValue_fr E0 p _

theorem indefMap_fr (p : P) (b : Bytes) : indefMap (FrC E0 p) b = mapP (FrC E0) (indefMap p b) := by
  unfold indefMap
  cases b with
  | nil => rfl
  | cons b0 bs =>
    simp only []
    isplit
    · rw [fr_visit]
      rcases visit p Ev.objEnd with ⟨q, _ | e⟩
      · exact popStateR_fr E0 q bs
      · rfl
    · exact initMapKey_fr E0 p _


/-! ### one step, the loop -/

/-- split on the outcome of the visitor call at the head of both sides -/
macro "vcases" : tactic =>
  `(tactic| (rw [fr_visit]; generalize visit _ _ = x; obtain ⟨q, _ | e⟩ := x <;> simp only []))

/-- ONE STEP commutes with the frame — from EVERY state, for ALL input -/
theorem execStep_fr (p : P) (b : Bytes) : execStep (FrC E0 p) b = mapP (FrC E0) (execStep p b) := by
  unfold execStep
  dsimp (instances := true) only [fr_state, fr_length, fr_err]
  by_cases h0 : (p.state.current.major == stFail) = true
  · rw [if_pos h0, if_pos h0]; rfl
  rw [if_neg h0, if_neg h0]
  by_cases h1 : (p.state.current.major == stValue) = true
  · rw [if_pos h1, if_pos h1]; exact stepValue_fr E0 p b
  rw [if_neg h1, if_neg h1]
  by_cases h2 : (p.state.current.major == stLen) = true
  · rw [if_pos h2, if_pos h2]; exact stepLen_fr E0 p b
  rw [if_neg h2, if_neg h2]
  by_cases h3 : (p.state.current.major == majorUint) = true
  · rw [if_pos h3, if_pos h3]; exact stepUint_fr E0 p b
  rw [if_neg h3, if_neg h3]
  by_cases h4 : (p.state.current.major == majorNeg) = true
  · rw [if_pos h4, if_pos h4]; exact stepNeg_fr E0 p b
  rw [if_neg h4, if_neg h4]
  by_cases h5 : (p.state.current.major == codeSingleFloat) = true
  · rw [if_pos h5, if_pos h5]; exact stepFloat_fr E0 p b 4
  rw [if_neg h5, if_neg h5]
  by_cases h6 : (p.state.current.major == codeDoubleFloat) = true
  · rw [if_pos h6, if_pos h6]; exact stepFloat_fr E0 p b 8
  rw [if_neg h6, if_neg h6]
  by_cases h7 : (p.state.current.major == (majorBytes ||| stStartX)) = true
  · rw [if_pos h7, if_pos h7]
    by_cases hl : (p.length.current == 0) = true
    · rw [if_pos hl, if_pos hl]
      vcases
      · vcases
        · simp only [fr_popLen]; exact popStateR_fr E0 _ _
        · rfl
      · rfl
    · rw [if_neg hl, if_neg hl]
      simp only [fr_setMajor]
      by_cases hb : (b.length == 0) = true
      · rw [if_pos hb, if_pos hb]; rfl
      · rw [if_neg hb, if_neg hb]; exact stepBytes_fr E0 _ b
  rw [if_neg h7, if_neg h7]
  by_cases h8 : (p.state.current.major == majorBytes) = true
  · rw [if_pos h8, if_pos h8]; exact stepBytes_fr E0 p b
  rw [if_neg h8, if_neg h8]
  by_cases h9 : (p.state.current.major == (majorText ||| stStartX)) = true
  · rw [if_pos h9, if_pos h9]
    by_cases hl : (p.length.current == 0) = true
    · rw [if_pos hl, if_pos hl]
      simp only [fr_popLen]
      vcases
      · exact popStateR_fr E0 _ _
      · rfl
    · rw [if_neg hl, if_neg hl]
      simp only [fr_setMajor]
      by_cases hb : (b.length == 0) = true
      · rw [if_pos hb, if_pos hb]; rfl
      · rw [if_neg hb, if_neg hb]; exact stepText_fr E0 _ b
  rw [if_neg h9, if_neg h9]
  by_cases h10 : (p.state.current.major == majorText) = true
  · rw [if_pos h10, if_pos h10]; exact stepText_fr E0 p b
  rw [if_neg h10, if_neg h10]
  by_cases h11 : (p.state.current.major == stStartArr) = true
  · rw [if_pos h11, if_pos h11]
    vcases
    · simp only [fr_popSt]; exact stepArray_fr E0 _ b
    · rfl
  rw [if_neg h11, if_neg h11]
  by_cases h12 : (p.state.current.major == majorArr) = true
  · rw [if_pos h12, if_pos h12]; exact stepArray_fr E0 p b
  rw [if_neg h12, if_neg h12]
  by_cases h13 : (p.state.current.major == stStartIndefArr) = true
  · rw [if_pos h13, if_pos h13]
    vcases
    · simp only [fr_popSt]; exact indefArr_fr E0 _ b
    · rfl
  rw [if_neg h13, if_neg h13]
  by_cases h14 : (p.state.current.major == (majorArr ||| stIndef)) = true
  · rw [if_pos h14, if_pos h14]; exact indefArr_fr E0 p b
  rw [if_neg h14, if_neg h14]
  by_cases h15 : (p.state.current.major == stStartMap) = true
  · rw [if_pos h15, if_pos h15]
    vcases
    · simp only [fr_popSt]; exact stepMap_fr E0 _ b
    · rfl
  rw [if_neg h15, if_neg h15]
  by_cases h16 : (p.state.current.major == majorMap) = true
  · rw [if_pos h16, if_pos h16]; exact stepMap_fr E0 p b
  rw [if_neg h16, if_neg h16]
  by_cases h17 : (p.state.current.major == stStartIndefMap) = true
  · rw [if_pos h17, if_pos h17]
    vcases
    · simp only [fr_popSt]; exact indefMap_fr E0 _ b
    · rfl
  rw [if_neg h17, if_neg h17]
  by_cases h18 : (p.state.current.major == (majorMap ||| stIndef)) = true
  · rw [if_pos h18, if_pos h18]; exact indefMap_fr E0 p b
  rw [if_neg h18, if_neg h18]
  by_cases h19 : (p.state.current.major == (stKey ||| stStartX)) = true
  · rw [if_pos h19, if_pos h19]
    by_cases hl : (p.length.current == 0) = true
    · rw [if_pos hl, if_pos hl]
      vcases
      · rfl
      · rfl
    · rw [if_neg hl, if_neg hl]
      simp only [fr_setMajor]; exact stepKey_fr E0 _ b
  rw [if_neg h19, if_neg h19]
  by_cases h20 : (p.state.current.major == stKey) = true
  · rw [if_pos h20, if_pos h20]; exact stepKey_fr E0 p b
  rw [if_neg h20, if_neg h20]
  by_cases h21 : (p.state.current.major == stElem) = true
  · rw [if_pos h21, if_pos h21]; simp only [fr_popSt]; exact stepValue_fr E0 _ b
  rw [if_neg h21, if_neg h21]
  rfl

/-- THE LOOP `feedUntil` commutes with the frame — from EVERY state, for ALL input, any fuel -/
theorem feedUntil_fr (f : Nat) : ∀ (p : P) (b : Bytes),
    feedUntil f (FrC E0 p) b = mapP (FrC E0) (feedUntil f p b) := by
  induction f with
  | zero => intro p b; rfl
  | succ f ih =>
    intro p b
    simp only [feedUntil]
    rw [execStep_fr]
    dsimp (instances := true) only [mapP_done, mapP_err, mapP_rest, mapP_p, fr_state]
    by_cases h1 : ((execStep p b).done || (execStep p b).err.isSome) = true
    · rw [if_pos h1, if_pos h1]
    · rw [if_neg h1, if_neg h1]
      by_cases h2 : (!((execStep p b).rest.length != 0 ||
          (execStep p b).p.state.current.major &&& (stStartX ||| stIndef) == stStartX)) = true
      · rw [if_pos h2, if_pos h2]
      · rw [if_neg h2, if_neg h2]
        exact ih _ _

theorem finalize_fr (p : P) : finalize (FrC E0 p) = finalize p := rfl

theorem events_fr (p : P) : Parse.events (FrC E0 p) = E0.reverse ++ Parse.events p := by
  simp [Parse.events, FrC]

end
end SF.Cbor.Frame
