/-
  C04 (refinement), C16 (visitor faults) and C17 (reuse) for the JSON PARSER mirror
  SF/Json/Parse.lean — the property theorems.

  SPECIFICATION used for C04: the grammar `J` of JSON texts (SF/Proofs/JsonGrammar.lean:
  concrete syntax with all white space) with the meaning given in SF/Proofs/JsonRefineSem.lean:
  `J.events` / `J.value` (= `build` of the events).  Its token layer is tied to the reference
  decoder SF/Json/Cst.lean:
    strings, keys   `strVal raw` IS `Cst.lexString` on the token (accepted, stopped at its end);
    integers        `numEv` gives the exact value of `-? DIGIT+`, as int64 / uint64 by range;
                    for RFC 8259 literals it is the value `Cst.lexNumber` reads (`numEv_ref`);
    floats          `numEv` = OnFloat64 of `SF.Json.Float.parseFloat` (the strconv model).

  (A) C04: `Parse` of every grammatical text whose tokens denote is accepted and delivers
      exactly the text's events — (A1) scalars, (A2) flat containers, (A3) any nesting,
      (A4) streams of documents; and so does `Write*` + end of input for EVERY chunking.
      Proofs: JsonRefineStr.lean (unquote = Cst.lexString), JsonRefineNum.lean,
      JsonRefineStep.lean / JsonRefineTree.lean (token by token, induction over the grammar),
      JsonRefineDoc.lean; JsonRefineRfc.lean (every RFC 8259 string token has a `strVal`).
  (B) C16: with a visitor failing from its k-th event on, EVERY byte string in EVERY chunking:
      at most k events and a verdict that is not the visitor's error, or the visitor's error
      and exactly k+1 events.  Proof: JsonRefineFault.lean.
  (C) C17: after ANY history of `Parse` calls that were accepted (any bytes), the parser is
      idle with no escape pending, and `Parse` of a grammatical probe document is accepted
      and delivers exactly the probe's events, as on a new parser.  Two reuse DEFECTS of the
      mirror outside this statement are recorded as examples.  Proofs: JsonRefineTidy.lean,
      JsonRefineDoc.lean.
-/
import SF.Proofs.JsonRefineDoc
import SF.Proofs.JsonRefineFault
import SF.Proofs.JsonRefineRfc
namespace SF.Json.RefineTop
open SF SF.Json SF.Json.Parse SF.Json.Float SF.Json.ParseP SF.Json.Grammar

/-! ## (A) C04 — tokens -/

/-- STRINGS AND KEYS: whenever the reference lexer `Cst.lexString` accepts the token `"raw"`
(and stops at its end) with value `s`, the body `raw` contains no unescaped quote — the
parser finds the same closing quote — and the parser's `unquote` yields exactly `s`.
This covers every escape `\" \\ \/ \b \f \n \r \t`, `\uXXXX` with surrogate pairs combined and
lone surrogates ↦ U+FFFD, and unescaped well-formed UTF-8 ≥ U+0020. -/
theorem string_value (raw s : Bytes) (h : strVal raw = some s) :
    unquote raw = .ok s ∧ scanString raw false 0 = (none, false) :=
  strVal_unquote raw s h

/-- EVERY RFC 8259 string token (`Enc.isJsonString`, SF/Proofs/JsonEncStr.lean: the explicit
recogniser of RFC 8259 §7 over RFC 3629 UTF-8) is accepted by the reference lexer — it has a
`strVal` — so the parser delivers the reference value of EVERY RFC 8259 string token -/
theorem rfc_string_value (raw : Bytes) (h : Enc.isJsonString (0x22 :: (raw ++ [0x22])) = true) :
    ∃ s, strVal raw = some s ∧ unquote raw = .ok s := by
  obtain ⟨s, hs⟩ := isJsonString_strVal raw h
  exact ⟨s, hs, (strVal_unquote raw s hs).1⟩

/-- INTEGERS: for `-? DIGIT+` (any number of digits) `reportNumber` delivers exactly the
literal's value — OnInt64 for [-2^63, 2^63), OnUint64 for [2^63, 2^64) — and reports
numberOverflow outside [-2^63, 2^64); it never delivers another number -/
theorem integer_value (p : P) (neg : Bool) (ds : Bytes) (hne : ds ≠ []) (hd : ds.all Parse.isDigit = true) :
    reportNumber p ((if neg then [ch '-'] else []) ++ ds) false =
      (if neg then
         (if digitsVal ds ≤ 9223372036854775808 then visit p (.num .i64 (-(digitsVal ds : Int)))
          else (p, some .numberOverflow))
       else if digitsVal ds ≤ 9223372036854775807 then visit p (.num .i64 (digitsVal ds))
       else if digitsVal ds ≤ 18446744073709551615 then visit p (.num .u64 (digitsVal ds))
       else (p, some .numberOverflow)) :=
  int_literal_exact p neg ds hne hd

/-- NUMBERS: on every token that denotes an event (`numEv`: integers as above; tokens with
`.`/`e`/`E` through the strconv model `parseFloat`) the parser's conversion is exactly the
visitor call for that event -/
theorem number_value (p : P) (tok : Bytes) (ev : Ev) (h : numEv tok = some ev) :
    reportNumber p tok (isDblTok tok) = visit p ev :=
  reportNumber_numEv p tok ev h

/-- … and a float token denotes what the strconv model yields -/
theorem float_value (tok : Bytes) (hd : isDblTok tok = true) (bits : UInt64) (h : parseFloat tok = .ok bits) :
    numEv tok = some (.f64 bits) := by
  simp [numEv, hd, h]

/-- … and for an RFC 8259 integer literal the event carries the integer the reference lexer
`Cst.lexNumber` reads, whatever may follow the literal -/
theorem integer_value_ref (tok : Bytes) (hrfc : Enc.isJsonInt tok = true) (ev : Ev) (h : numEv tok = some ev) :
    ∃ k v, ev = .num k v ∧ ∀ rest, Enc.EndOk rest → Cst.lexNumber (tok ++ rest) = .ok (.int v, false, rest) :=
  numEv_ref tok hrfc ev h

/-! ## (A) C04 — documents -/

/-- the value of a text is the value of its events -/
theorem value_of_events (v : J) : build v.events = some v.value := J.build_events v

/-- (A3) ARBITRARY NESTING.  `Parse` / `ParseString` of white space, ANY grammatical JSON text
whose tokens denote (`v.ok`: white space is white space, strings and numbers are delimited;
`v.sem`: every string token is accepted by the reference lexer, every number token denotes),
white space: NO ERROR, and the visitor receives EXACTLY the events of the text — objStart /
arrStart with length -1, keys, scalars, ends — whose `build` is the text's value -/
theorem json_reads_value (v : J) (hok : v.ok = true) (hs : v.sem = true) (ws1 ws2 : Bytes) (h1 : allWs ws1 = true)
    (h2 : allWs ws2 = true) :
    (parse {} (ws1 ++ (v.wire ++ ws2))).2 = none ∧
    events (parse {} (ws1 ++ (v.wire ++ ws2))).1 = v.events ∧
    build (events (parse {} (ws1 ++ (v.wire ++ ws2))).1) = some v.value := by
  obtain ⟨k1, k2, _⟩ := parse_doc v hok hs ws1 ws2 h1 h2 {} ⟨rfl, rfl⟩
  have : events (parse {} (ws1 ++ (v.wire ++ ws2))).1 = v.events := by
    simp only [Parse.events, k2]; simp
  exact ⟨k1, this, by rw [this]; exact J.build_events v⟩

/-- (A1) SCALARS AT TOP LEVEL: literals -/
theorem json_reads_literal (k : LitK) (ws1 ws2 : Bytes) (h1 : allWs ws1 = true) (h2 : allWs ws2 = true) :
    (parse {} (ws1 ++ (k.word ++ ws2))).2 = none ∧ events (parse {} (ws1 ++ (k.word ++ ws2))).1 = [litEv k] := by
  obtain ⟨a, b, _⟩ := json_reads_value (.lit k) rfl rfl ws1 ws2 h1 h2
  simp only [J.wire] at a b
  exact ⟨a, by rw [b]; simp [J.events, J.tree, litTree_events]⟩

/-- (A1) strings: the delivered bytes are the reference value of the token -/
theorem json_reads_string (raw s : Bytes) (hs : strVal raw = some s) (ws1 ws2 : Bytes) (h1 : allWs ws1 = true)
    (h2 : allWs ws2 = true) :
    (parse {} (ws1 ++ (0x22 :: (raw ++ [0x22]) ++ ws2))).2 = none ∧
    events (parse {} (ws1 ++ (0x22 :: (raw ++ [0x22]) ++ ws2))).1 = [.str s] := by
  obtain ⟨a, b, _⟩ := json_reads_value (.str raw) (by simpa [J.ok] using strVal_bodyOk raw s hs)
    (by simp [J.sem, hs]) ws1 ws2 h1 h2
  simp only [J.wire] at a b
  exact ⟨a, by rw [b]; simp [J.events, J.tree, hs, ETree.events]⟩

/-- (A1) … in particular EVERY RFC 8259 string token at top level is read, with the value the
reference lexer gives it -/
theorem json_reads_rfc_string (raw : Bytes) (h : Enc.isJsonString (0x22 :: (raw ++ [0x22])) = true) (ws1 ws2 : Bytes)
    (h1 : allWs ws1 = true) (h2 : allWs ws2 = true) :
    ∃ s, strVal raw = some s ∧ (parse {} (ws1 ++ (0x22 :: (raw ++ [0x22]) ++ ws2))).2 = none ∧
      events (parse {} (ws1 ++ (0x22 :: (raw ++ [0x22]) ++ ws2))).1 = [.str s] := by
  obtain ⟨s, hs⟩ := isJsonString_strVal raw h
  exact ⟨s, hs, json_reads_string raw s hs ws1 ws2 h1 h2⟩

/-- (A1) numbers — also at the very end of the input (`ws2 = []`: `finalize` converts) -/
theorem json_reads_number (tok : Bytes) (hb : tokOk tok = true) (ev : Ev) (hev : numEv tok = some ev) (ws1 ws2 : Bytes)
    (h1 : allWs ws1 = true) (h2 : allWs ws2 = true) :
    (parse {} (ws1 ++ (tok ++ ws2))).2 = none ∧ events (parse {} (ws1 ++ (tok ++ ws2))).1 = [ev] := by
  obtain ⟨a, b, _⟩ := json_reads_value (.num tok) (by simpa [J.ok] using hb) (by simp [J.sem, hev]) ws1 ws2 h1 h2
  simp only [J.wire] at a b
  exact ⟨a, by rw [b]; simp [J.events, J.tree, numTree_events tok ev hev]⟩

/-- a container all of whose elements / member values are scalars -/
def flatA : ATail → Bool
  | .close => true
  | .more _ e _ tl => (match e with | .arr .. | .obj .. => false | _ => true) && flatA tl
def flatO : OTail → Bool
  | .close => true
  | .more _ _ _ _ v _ tl => (match v with | .arr .. | .obj .. => false | _ => true) && flatO tl
def flat : J → Bool
  | .arr _ .close => true
  | .arr _ (.elems e _ tl) => (match e with | .arr .. | .obj .. => false | _ => true) && flatA tl
  | .obj _ .close => true
  | .obj _ (.mems _ _ _ v _ tl) => (match v with | .arr .. | .obj .. => false | _ => true) && flatO tl
  | _ => false

/-- (A2) ARRAYS AND OBJECTS OF SCALARS, with arbitrary white space -/
theorem json_reads_flat (v : J) (_hf : flat v = true) (hok : v.ok = true) (hs : v.sem = true) (ws1 ws2 : Bytes)
    (h1 : allWs ws1 = true) (h2 : allWs ws2 = true) :
    (parse {} (ws1 ++ (v.wire ++ ws2))).2 = none ∧ events (parse {} (ws1 ++ (v.wire ++ ws2))).1 = v.events :=
  ⟨(json_reads_value v hok hs ws1 ws2 h1 h2).1, (json_reads_value v hok hs ws1 ws2 h1 h2).2.1⟩

theorem streamEvents_eq (ds : List Doc) : streamEvents ds = ETree.eventsList (ds.map (fun d => d.1.tree)) := by
  induction ds with
  | nil => rfl
  | cons d ds ih =>
    simp only [streamEvents, List.map_cons, List.flatten_cons, ETree.eventsList] at ih ⊢
    rw [ih]; rfl

theorem streamValues_eq (ds : List Doc) :
    ds.map (fun d => d.1.value) = ETree.valueList (ds.map (fun d => d.1.tree)) := by
  induction ds with
  | nil => rfl
  | cons d ds ih =>
    simp only [List.map_cons, ETree.valueList]
    rw [ih]; rfl

/-- (A4) STREAMS: any sequence of documents, each followed by white space (at least one
character after a bare number), after leading white space — accepted, and exactly the
concatenation of the documents' events is delivered -/
theorem json_reads_stream (ds : List Doc) (hd : ∀ d ∈ ds, d.good) (ws0 : Bytes) (h0 : allWs ws0 = true) :
    (parse {} (ws0 ++ streamWire ds)).2 = none ∧
    events (parse {} (ws0 ++ streamWire ds)).1 = streamEvents ds ∧
    buildAll (events (parse {} (ws0 ++ streamWire ds)).1) = some (ds.map (fun d => d.1.value)) := by
  obtain ⟨k1, k2, _⟩ := parse_stream ds hd ws0 h0 {} ⟨rfl, rfl⟩
  have : events (parse {} (ws0 ++ streamWire ds)).1 = streamEvents ds := by
    simp only [Parse.events, k2]; simp
  refine ⟨k1, this, ?_⟩
  rw [this]
  rw [streamEvents_eq, streamValues_eq]
  exact SF.buildAll_events _

/-- THE SAME FOR EVERY CHUNKING (with chunk independence, `SF.Json.ParseTop`): however the
bytes of a stream of documents (in particular: of one document) are cut into `Write` calls,
`Write*` + end of input accepts and delivers exactly the events -/
theorem json_reads_stream_chunks (ds : List Doc) (hd : ∀ d ∈ ds, d.good) (ws0 : Bytes) (h0 : allWs ws0 = true)
    (cs : List Bytes) (hcs : cs.flatten = ws0 ++ streamWire ds) :
    (writeChunks {} cs).2 = none ∧ events (writeChunks {} cs).1 = streamEvents ds := by
  obtain ⟨a1, a2, _⟩ := writeChunks_eq_parse cs
  obtain ⟨b1, b2, _⟩ := json_reads_stream ds hd ws0 h0
  rw [hcs] at a1 a2
  exact ⟨by rw [a1, b1], by simp only [Parse.events] at b2 ⊢; rw [a2, b2]⟩

theorem json_reads_value_chunks (v : J) (hok : v.ok = true) (hs : v.sem = true) (ws1 ws2 : Bytes)
    (h1 : allWs ws1 = true) (h2 : allWs ws2 = true) (cs : List Bytes) (hcs : cs.flatten = ws1 ++ (v.wire ++ ws2)) :
    (writeChunks {} cs).2 = none ∧ events (writeChunks {} cs).1 = v.events := by
  obtain ⟨a1, a2, _⟩ := writeChunks_eq_parse cs
  obtain ⟨b1, b2, _⟩ := json_reads_value v hok hs ws1 ws2 h1 h2
  rw [hcs] at a1 a2
  exact ⟨by rw [a1, b1], by simp only [Parse.events] at b2 ⊢; rw [a2, b2]⟩

/-- non-vacuity of (A): the sample text `{"a": [1,"x"],⏎"b":null }` meets the hypotheses; its
parse, evaluated by the kernel, is accepted with exactly its events; so is a chunking that
cuts inside the key, the number and the literal -/
example : sample.ok = true ∧ sample.sem = true ∧ (parse {} sample.wire).2 = none ∧
    events (parse {} sample.wire).1 = sample.events ∧
    (writeChunks {} [sample.wire.take 2, (sample.wire.drop 2).take 6, (sample.wire.drop 8).take 13,
      sample.wire.drop 21]).2 = none := by
  decide +kernel

/-- non-vacuity: integers at the 64-bit boundaries, a float, an escaped string with a
surrogate pair -/
example :
    events (parse {} (strBytes "[18446744073709551615,-9223372036854775808,\"\\ud83d\\ude00\\n\"]")).1 =
      [.arrStart (-1) 0, .num .u64 18446744073709551615, .num .i64 (-9223372036854775808),
       .str [0xf0, 0x9f, 0x98, 0x80, 0x0a], .arrEnd] ∧
    (parse {} (strBytes "18446744073709551616")).2 = some .numberOverflow := by
  decide +kernel

/-! ## (B) C16 — visitor faults -/

/-- C16 for the JSON parser, `Parse`: with a visitor that returns an error from its k-th
event on, for EVERY byte string (valid or not): either event k was never reached — at most k
events were delivered and the verdict is not the visitor's error — or `Parse` returns THE
VISITOR'S error and event k is the last event delivered (exactly k+1 events) -/
theorem json_parser_returns_visitor_error (k : Nat) (b : Bytes) :
    ((parse (init (some k)) b).2 ≠ some .visitor ∧ (parse (init (some k)) b).1.evs.length ≤ k) ∨
    ((parse (init (some k)) b).2 = some .visitor ∧ (parse (init (some k)) b).1.evs.length = k + 1) :=
  parse_returns_visitor_error k b

/-- … and `Write*` + end of input (`ParseReader`), for EVERY chunking -/
theorem json_writeChunks_returns_visitor_error (k : Nat) (cs : List Bytes) :
    ((writeChunks (init (some k)) cs).2 ≠ some .visitor ∧ (writeChunks (init (some k)) cs).1.evs.length ≤ k) ∨
    ((writeChunks (init (some k)) cs).2 = some .visitor ∧ (writeChunks (init (some k)) cs).1.evs.length = k + 1) :=
  writeChunks_returns_visitor_error k cs

/-- the general form: from ANY state within the invariant in which the visitor has not failed
yet (`NoFault`) and whose stored error is not the visitor's (or which is reachable), ANY
chunking ends in `GoodOut`: no visitor error and still `NoFault`, or the visitor's error with
delivery `Stopped` at event k -/
theorem json_writeChunks_fault (cs : List Bytes) (p : P) (hinv : Inv p) (h : NoFault p) (herr : ErrOK p) :
    GoodOut (writeChunks p cs).1 (writeChunks p cs).2 :=
  writeChunks_fault cs p hinv h herr

/-- each step calls the visitor at most once and returns its verdict (`VS`) -/
theorem json_step_visits_once (p : P) (b : Bytes) (hb : b ≠ []) (hinv : Inv p)
    (herr : p.currentState = .failedState → p.err ≠ some .visitor) :
    VS p (execStep p b).1.p (execStep p b).1.err :=
  execStep_vs p b hb hinv herr

/-- the hypothesis on the stored error is needed: a parser in failedState (not reachable)
replays a stored visitor error without any visitor call -/
example : (write { currentState := .failedState, err := some .visitor, failAt := some 5 } [0x31]).2 = some .visitor ∧
    (write { currentState := .failedState, err := some .visitor, failAt := some 5 } [0x31]).1.evs.length = 0 := by
  decide +kernel

/-- non-vacuity: `[1,[2,3]]` with the visitor failing at its 3rd event (index 2): the visitor's
error, three events; with index 9 (never reached): accepted, seven events; also when the fault
hits the number that `finalize` converts at the end of the input -/
example :
    (parse (init (some 2)) (strBytes "[1,[2,3]]")).2 = some .visitor ∧
    (parse (init (some 2)) (strBytes "[1,[2,3]]")).1.evs.length = 3 ∧
    (parse (init (some 9)) (strBytes "[1,[2,3]]")).2 = none ∧
    (parse (init (some 9)) (strBytes "[1,[2,3]]")).1.evs.length = 7 ∧
    (writeChunks (init (some 0)) [strBytes "1", strBytes "2"]).2 = some .visitor ∧
    (writeChunks (init (some 0)) [strBytes "1", strBytes "2"]).1.evs.length = 1 := by
  decide +kernel

/-! ## (C) C17 — reuse -/

/-- every `Parse` of the history was accepted -/
def Accepted (p : P) : List Bytes → Prop
  | [] => True
  | b :: bs => (parse p b).2 = none ∧ Accepted (parse p b).1 bs

/-- an ACCEPTED `Parse` — of ANY byte string — leaves the parser idle (empty stack,
startState) with no escape pending, whatever it was called on (provided no escape was
pending there) -/
theorem json_parse_accepted_idle (p : P) (b : Bytes) (hp : p.inEscape = false) (h : (parse p b).2 = none) :
    Idle (parse p b).1 ∧ (parse p b).1.inEscape = false :=
  parse_accepted p b hp h

theorem parseSeq_accepted (hist : List Bytes) (p : P) (hp : Reusable p) (h : Accepted p hist) :
    Reusable (parseSeq p hist) ∧ (hist ≠ [] → Idle (parseSeq p hist)) := by
  induction hist generalizing p with
  | nil => exact ⟨hp, fun h => absurd rfl h⟩
  | cons b bs ih =>
    obtain ⟨h1, h2⟩ := h
    obtain ⟨k1, k2⟩ := parse_accepted p b hp.1 h1
    have hr : Reusable (parse p b).1 := ⟨k2, by rw [parse_failAt]; exact hp.2⟩
    obtain ⟨j1, j2⟩ := ih (parse p b).1 hr h2
    refine ⟨j1, fun _ => ?_⟩
    cases bs with
    | nil => exact k1
    | cons b' bs' => exact j2 (by simp)

/-- C17 for the JSON parser: after ANY history of `Parse` calls on ONE parser that were all
accepted — ANY byte strings, grammatical or not — the parser is reusable (idle, no escape
pending), and `Parse` of a grammatical probe document on it is accepted and delivers exactly
the probe's events after those of the history: the same verdict and the same events for the
probe as on a parser that never saw the history -/
theorem json_parser_reuse (hist : List Bytes) (probe : Text) (hh : Accepted {} hist) (hp : probe.good) :
    Reusable (parseSeq {} hist) ∧
    (parse (parseSeq {} hist) probe.bytes).2 = none ∧ (parse {} probe.bytes).2 = none ∧
    events (parse (parseSeq {} hist) probe.bytes).1 = events (parseSeq {} hist) ++ probe.v.events ∧
    events (parse {} probe.bytes).1 = probe.v.events := by
  obtain ⟨k1, _⟩ := parseSeq_accepted hist {} ⟨rfl, rfl⟩ hh
  obtain ⟨g1, g2, g3, g4⟩ := hp
  obtain ⟨a1, a2, _⟩ := parse_doc probe.v g1 g2 probe.ws1 probe.ws2 g3 g4 _ k1
  obtain ⟨b1, b2, _⟩ := parse_doc probe.v g1 g2 probe.ws1 probe.ws2 g3 g4 {} ⟨rfl, rfl⟩
  refine ⟨k1, a1, b1, ?_, ?_⟩
  · simp only [Parse.events]
    show (parse _ (probe.ws1 ++ (probe.v.wire ++ probe.ws2))).1.evs.reverse = _
    rw [a2]; simp
  · simp only [Parse.events]
    show (parse _ (probe.ws1 ++ (probe.v.wire ++ probe.ws2))).1.evs.reverse = _
    rw [b2]; simp

/-- … in the shape of `cbor_parser_reuse`: a history of grammatical documents, each given to
`Parse` on one parser, then the probe: everything is accepted and the events are those of the
history followed by those of the probe -/
theorem json_parser_reuse_docs (hist : List Text) (probe : Text) (hh : ∀ t ∈ hist, t.good) (hp : probe.good) :
    Reusable (parseSeq {} (hist.map Text.bytes)) ∧
    events (parseSeq {} (hist.map Text.bytes)) = (hist.map (fun t => t.v.events)).flatten ∧
    (parse (parseSeq {} (hist.map Text.bytes)) probe.bytes).2 = none ∧
    (parse {} probe.bytes).2 = none ∧
    events (parse (parseSeq {} (hist.map Text.bytes)) probe.bytes).1 =
      events (parseSeq {} (hist.map Text.bytes)) ++ probe.v.events ∧
    events (parse {} probe.bytes).1 = probe.v.events :=
  parser_reuse hist probe hh hp

/-- … and within ONE `Parse`: a stream of documents followed by the probe delivers the events
of the stream followed by those of the probe (this is `json_reads_stream`) -/
theorem json_parser_reuse_stream (hist : List Doc) (probe : Doc) (hh : ∀ d ∈ hist, d.good) (hp : probe.good) :
    events (parse {} (streamWire (hist ++ [probe]))).1 =
      events (parse {} (streamWire hist)).1 ++ events (parse {} (streamWire [probe])).1 := by
  have h1 := (json_reads_stream (hist ++ [probe]) (by
    intro d hd
    rcases List.mem_append.mp hd with h | h
    · exact hh d h
    · simp only [List.mem_singleton] at h; rw [h]; exact hp) [] rfl).2.1
  have h2 := (json_reads_stream hist hh [] rfl).2.1
  have h3 := (json_reads_stream [probe] (by intro d hd; simp only [List.mem_singleton] at hd; rw [hd]; exact hp) [] rfl).2.1
  simp only [List.nil_append] at h1 h2 h3
  rw [h1, h2, h3]
  simp [streamEvents]

/-- REUSE DEFECT 1 (outside the statement: the history contains a REJECTED document).  `Parse`
resets the state stack, the state and the token buffer, but not `inEscape`; the key reader
does not reset it either.  After a `Parse` that failed inside an escape (`"a\`), `Parse` of
`{"":1}` on the same parser is REJECTED, on a new parser it is accepted. -/
example : (parse {} [0x22, 0x61, 0x5c]).2 = some .incomplete ∧ (parse {} [0x22, 0x61, 0x5c]).1.inEscape = true ∧
    (parse (parse {} [0x22, 0x61, 0x5c]).1 [0x7b, 0x22, 0x22, 0x3a, 0x31, 0x7d]).2 = some .incomplete ∧
    (parse {} [0x7b, 0x22, 0x22, 0x3a, 0x31, 0x7d]).2 = none := by
  decide +kernel

/-- REUSE DEFECT 2 (outside the statement: `Write` + end of input instead of `Parse`).
`finalize` converts a number pending at the end of the input but leaves its token in
`literalBuffer`; `Parse` clears the buffer when it starts, `Write` does not, and the key
reader takes a non-empty buffer for a key in progress.  After `Write("12")` + end of input
(accepted), `Write({"k":1})` + end of input on the same parser is REJECTED (expectColon); on a
new parser, and through `Parse`, it is accepted. -/
example : (writeChunks {} [[0x31, 0x32]]).2 = none ∧ (writeChunks {} [[0x31, 0x32]]).1.literalBuffer = [0x31, 0x32] ∧
    (writeChunks (writeChunks {} [[0x31, 0x32]]).1 [[0x7b, 0x22, 0x6b, 0x22, 0x3a, 0x31, 0x7d]]).2 = some .expectColon ∧
    (writeChunks {} [[0x7b, 0x22, 0x6b, 0x22, 0x3a, 0x31, 0x7d]]).2 = none ∧
    (parse (writeChunks {} [[0x31, 0x32]]).1 [0x7b, 0x22, 0x6b, 0x22, 0x3a, 0x31, 0x7d]).2 = none := by
  decide +kernel

/-- non-vacuity of (C): an accepted history containing non-grammatical input (`+1` and `'` in
an escape are no RFC 8259 JSON), then the sample as probe -/
example : Accepted {} [strBytes "[+1] \"\\'\"", strBytes "{} 12"] ∧
    (⟨[0x20], sample, [0x0a]⟩ : Text).good := by
  refine ⟨⟨by decide +kernel, by decide +kernel, trivial⟩, by decide +kernel, by decide +kernel, by decide +kernel,
    by decide +kernel⟩

end SF.Json.RefineTop
