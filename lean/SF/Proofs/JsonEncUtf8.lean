/-
  UTF-8 (RFC 3629 §4) as an independent, arithmetic specification `mbDecode`, and the
  theorem that Go's `utf8.DecodeRune` model (`SF.Json.Utf8.decodeRune`) agrees with it on
  every byte string starting with a non-ASCII byte.  Used by the JSON encoder string theorems.
-/
import SF.Json.Utf8
namespace SF.Json.Utf8
open SF

theorem forall_uint8 (P : UInt8 → Bool) (h : ∀ n : Fin 256, P (UInt8.ofNat n.val) = true) (b : UInt8) :
    P b = true := by
  have := h ⟨b.toNat, b.toNat_lt⟩; simpa using this

/-! ## bit operations as arithmetic -/

theorem or2 (a b : Nat) (hb : b < 64) : (a <<< 6 ||| b) = a * 64 + b := by
  rw [← Nat.shiftLeft_add_eq_or_of_lt (i := 6) (by omega : b < 2 ^ 6) a, Nat.shiftLeft_eq]
theorem or3 (a b c : Nat) (hb : b < 64) (hc : c < 64) :
    (a <<< 12 ||| b <<< 6 ||| c) = a * 4096 + b * 64 + c := by
  have h1 : b <<< 6 + c < 2 ^ 12 := by rw [Nat.shiftLeft_eq]; omega
  rw [Nat.or_assoc, ← Nat.shiftLeft_add_eq_or_of_lt (i := 6) (by omega : c < 2 ^ 6) b,
    ← Nat.shiftLeft_add_eq_or_of_lt h1 a, Nat.shiftLeft_eq, Nat.shiftLeft_eq]
  omega
theorem or4 (a b c d : Nat) (hb : b < 64) (hc : c < 64) (hd : d < 64) :
    (a <<< 18 ||| b <<< 12 ||| c <<< 6 ||| d) = a * 262144 + b * 4096 + c * 64 + d := by
  have h1 : c <<< 6 + d < 2 ^ 12 := by rw [Nat.shiftLeft_eq]; omega
  have h2 : b <<< 12 + (c <<< 6 + d) < 2 ^ 18 := by rw [Nat.shiftLeft_eq, Nat.shiftLeft_eq]; omega
  rw [Nat.or_assoc, Nat.or_assoc, ← Nat.shiftLeft_add_eq_or_of_lt (i := 6) (by omega : d < 2 ^ 6) c,
    ← Nat.shiftLeft_add_eq_or_of_lt h1 b, ← Nat.shiftLeft_add_eq_or_of_lt h2 a]
  simp only [Nat.shiftLeft_eq]
  omega
theorem and63 (x : Nat) : x &&& 63 = x % 64 := Nat.and_two_pow_sub_one_eq_mod x 6
theorem and31 (x : Nat) : x &&& 31 = x % 32 := Nat.and_two_pow_sub_one_eq_mod x 5
theorem and15 (x : Nat) : x &&& 15 = x % 16 := Nat.and_two_pow_sub_one_eq_mod x 4
theorem and7 (x : Nat) : x &&& 7 = x % 8 := Nat.and_two_pow_sub_one_eq_mod x 3

/-! ## RFC 3629 §4: the well-formed multi-byte sequences

    UTF8-2 = %xC2-DF UTF8-tail
    UTF8-3 = %xE0 %xA0-BF UTF8-tail / %xE1-EC 2( UTF8-tail ) /
             %xED %x80-9F UTF8-tail / %xEE-EF 2( UTF8-tail )
    UTF8-4 = %xF0 %x90-BF 2( UTF8-tail ) / %xF1-F3 3( UTF8-tail ) /
             %xF4 %x80-8F 2( UTF8-tail )
    UTF8-tail = %x80-BF                                                        -/

abbrev isTail (b : Nat) : Prop := 0x80 ≤ b ∧ b ≤ 0xBF
abbrev V2 (b0 b1 : Nat) : Prop := 0xC2 ≤ b0 ∧ b0 ≤ 0xDF ∧ isTail b1
abbrev V3 (b0 b1 b2 : Nat) : Prop :=
  (b0 = 0xE0 ∧ 0xA0 ≤ b1 ∧ b1 ≤ 0xBF ∨ 0xE1 ≤ b0 ∧ b0 ≤ 0xEC ∧ isTail b1 ∨
   b0 = 0xED ∧ 0x80 ≤ b1 ∧ b1 ≤ 0x9F ∨ 0xEE ≤ b0 ∧ b0 ≤ 0xEF ∧ isTail b1) ∧ isTail b2
abbrev V4 (b0 b1 b2 b3 : Nat) : Prop :=
  (b0 = 0xF0 ∧ 0x90 ≤ b1 ∧ b1 ≤ 0xBF ∨ 0xF1 ≤ b0 ∧ b0 ≤ 0xF3 ∧ isTail b1 ∨
   b0 = 0xF4 ∧ 0x80 ≤ b1 ∧ b1 ≤ 0x8F) ∧ isTail b2 ∧ isTail b3


/-- the code point and the length of the well-formed multi-byte UTF-8 sequence at the head
of `p`, if there is one -/
def mbDecode : Bytes → Option (Nat × Nat)
  | b0 :: b1 :: rest =>
    if V2 b0.toNat b1.toNat then some ((b0.toNat % 32) * 64 + b1.toNat % 64, 2)
    else match rest with
      | b2 :: rest =>
        if V3 b0.toNat b1.toNat b2.toNat then
          some ((b0.toNat % 16) * 4096 + (b1.toNat % 64) * 64 + b2.toNat % 64, 3)
        else match rest with
          | b3 :: _ =>
            if V4 b0.toNat b1.toNat b2.toNat b3.toNat then
              some ((b0.toNat % 8) * 262144 + (b1.toNat % 64) * 4096 + (b2.toNat % 64) * 64 + b3.toNat % 64, 4)
            else none
          | [] => none
      | [] => none
  | _ => none

theorem first_cases (b : UInt8) :
    (first b = none ∧ (b.toNat < 0xC2 ∨ 0xF5 ≤ b.toNat)) ∨
    (first b = some (2, 0x80, 0xBF) ∧ 0xC2 ≤ b.toNat ∧ b.toNat ≤ 0xDF) ∨
    (first b = some (3, 0xA0, 0xBF) ∧ b.toNat = 0xE0) ∨
    (first b = some (3, 0x80, 0xBF) ∧ (0xE1 ≤ b.toNat ∧ b.toNat ≤ 0xEC ∨ 0xEE ≤ b.toNat ∧ b.toNat ≤ 0xEF)) ∨
    (first b = some (3, 0x80, 0x9F) ∧ b.toNat = 0xED) ∨
    (first b = some (4, 0x90, 0xBF) ∧ b.toNat = 0xF0) ∨
    (first b = some (4, 0x80, 0xBF) ∧ 0xF1 ≤ b.toNat ∧ b.toNat ≤ 0xF3) ∨
    (first b = some (4, 0x80, 0x8F) ∧ b.toNat = 0xF4) := by
  have := forall_uint8 (fun b => decide (
    (first b = none ∧ (b.toNat < 0xC2 ∨ 0xF5 ≤ b.toNat)) ∨
    (first b = some (2, 0x80, 0xBF) ∧ 0xC2 ≤ b.toNat ∧ b.toNat ≤ 0xDF) ∨
    (first b = some (3, 0xA0, 0xBF) ∧ b.toNat = 0xE0) ∨
    (first b = some (3, 0x80, 0xBF) ∧ (0xE1 ≤ b.toNat ∧ b.toNat ≤ 0xEC ∨ 0xEE ≤ b.toNat ∧ b.toNat ≤ 0xEF)) ∨
    (first b = some (3, 0x80, 0x9F) ∧ b.toNat = 0xED) ∨
    (first b = some (4, 0x90, 0xBF) ∧ b.toNat = 0xF0) ∨
    (first b = some (4, 0x80, 0xBF) ∧ 0xF1 ≤ b.toNat ∧ b.toNat ≤ 0xF3) ∨
    (first b = some (4, 0x80, 0x8F) ∧ b.toNat = 0xF4))) (by decide +kernel) b
  simpa using this

set_option hygiene false in
/-- shared tactic: after unfolding both sides, case on the leading byte's table entry -/
local macro "utf8_cases" : tactic => `(tactic|
  (rcases first_cases b0 with ⟨h, h'⟩ | ⟨h, h'⟩ | ⟨h, h'⟩ | ⟨h, h'⟩ | ⟨h, h'⟩ | ⟨h, h'⟩ | ⟨h, h'⟩ | ⟨h, h'⟩ <;>
    simp only [h, lenLt] <;>
    (try simp [UInt8.le_iff_toNat_le, UInt8.lt_iff_toNat_lt, ← UInt8.toNat_inj]) <;>
    (repeat' split) <;>
    first | (simp only [Option.getD_some, Option.getD_none]; done) | omega | (exfalso; omega) | (simp_all; done)))

theorem m64 (x : Nat) : x % 64 < 64 := Nat.mod_lt _ (by omega)

theorem decodeRune_mb1 (b0 : UInt8) (h0 : 0x80 ≤ b0.toNat) :
    decodeRune [b0] = ((mbDecode [b0]).getD (runeError, 1)) := by
  have hb0 : ¬ (b0 < runeSelf) := by simp [runeSelf, UInt8.lt_iff_toNat_lt]; omega
  simp only [decodeRune, hb0, if_false, mbDecode, Option.getD_none]
  rcases first_cases b0 with ⟨h, h'⟩ | ⟨h, h'⟩ | ⟨h, h'⟩ | ⟨h, h'⟩ | ⟨h, h'⟩ | ⟨h, h'⟩ | ⟨h, h'⟩ | ⟨h, h'⟩ <;>
    simp [h, lenLt]

theorem decodeRune_mb2 (b0 b1 : UInt8) (h0 : 0x80 ≤ b0.toNat) :
    decodeRune [b0, b1] = ((mbDecode [b0, b1]).getD (runeError, 1)) := by
  have hb0 : ¬ (b0 < runeSelf) := by simp [runeSelf, UInt8.lt_iff_toNat_lt]; omega
  simp only [decodeRune, hb0, if_false, mbDecode, V2, isTail, and31, and63,
    or2 _ _ (m64 _)]
  utf8_cases


theorem decodeRune_mb3 (b0 b1 b2 : UInt8) (h0 : 0x80 ≤ b0.toNat) :
    decodeRune [b0, b1, b2] = ((mbDecode [b0, b1, b2]).getD (runeError, 1)) := by
  have hb0 : ¬ (b0 < runeSelf) := by simp [runeSelf, UInt8.lt_iff_toNat_lt]; omega
  simp only [decodeRune, hb0, if_false, mbDecode, V2, V3, isTail, locb, hicb, and31, and63, and15,
    or2 _ _ (m64 _), or3 _ _ _ (m64 _) (m64 _)]
  utf8_cases

theorem decodeRune_mb4 (b0 b1 b2 b3 : UInt8) (tl : Bytes) (h0 : 0x80 ≤ b0.toNat) :
    decodeRune (b0 :: b1 :: b2 :: b3 :: tl) = ((mbDecode (b0 :: b1 :: b2 :: b3 :: tl)).getD (runeError, 1)) := by
  have hb0 : ¬ (b0 < runeSelf) := by simp [runeSelf, UInt8.lt_iff_toNat_lt]; omega
  simp only [decodeRune, hb0, if_false, mbDecode, V2, V3, V4, isTail, locb, hicb, and31, and63, and15, and7,
    or2 _ _ (m64 _), or3 _ _ _ (m64 _) (m64 _), or4 _ _ _ _ (m64 _) (m64 _) (m64 _)]
  utf8_cases

/-- Go's DecodeRune on a non-ASCII leading byte = the RFC 3629 specification -/
theorem decodeRune_mb (b0 : UInt8) (tl : Bytes) (h0 : 0x80 ≤ b0.toNat) :
    decodeRune (b0 :: tl) = ((mbDecode (b0 :: tl)).getD (runeError, 1)) := by
  match tl with
  | [] => exact decodeRune_mb1 b0 h0
  | [b1] => exact decodeRune_mb2 b0 b1 h0
  | [b1, b2] => exact decodeRune_mb3 b0 b1 b2 h0
  | b1 :: b2 :: b3 :: tl => exact decodeRune_mb4 b0 b1 b2 b3 tl h0

theorem u8_eq_of_toNat (b : UInt8) (n : Nat) (hn : n < 256) (h : b.toNat = n) : b = UInt8.ofNat n := by
  apply UInt8.toNat_inj.mp
  simp [h, Nat.mod_eq_of_lt hn]

/-- everything the string theorems need to know about a well-formed multi-byte sequence -/
theorem mbDecode_some {p : Bytes} {c n : Nat} (h : mbDecode p = some (c, n)) :
    2 ≤ n ∧ n ≤ 4 ∧ n ≤ p.length ∧ (∀ x ∈ p.take n, 0x80 ≤ x.toNat) ∧
    (∀ tl', mbDecode (p.take n ++ tl') = some (c, n)) ∧ 0x80 ≤ c ∧
    (c = 0x2028 → p.take n = [0xE2, 0x80, 0xA8]) ∧ (c = 0x2029 → p.take n = [0xE2, 0x80, 0xA9]) := by
  match p with
  | [] => simp [mbDecode] at h
  | [_] => simp [mbDecode] at h
  | b0 :: b1 :: rest =>
    simp only [mbDecode] at h
    split at h
    · rename_i hv
      simp only [Option.some.injEq, Prod.mk.injEq] at h
      obtain ⟨hc, hn⟩ := h
      subst hn
      refine ⟨by omega, by omega, by simp, ?_, ?_, ?_, ?_, ?_⟩
      · simp only [List.take_succ_cons, List.take_zero, List.mem_cons, List.not_mem_nil, or_false]
        rintro x (rfl | rfl) <;> omega
      · intro tl'; simp [mbDecode, hv, hc]
      · omega
      · intro h; omega
      · intro h; omega
    · rename_i hv2
      match rest with
      | [] => simp at h
      | b2 :: rest =>
        simp only at h
        split at h
        · rename_i hv
          simp only [Option.some.injEq, Prod.mk.injEq] at h
          obtain ⟨hc, hn⟩ := h
          subst hn
          refine ⟨by omega, by omega, by simp, ?_, ?_, ?_, ?_, ?_⟩
          · simp only [List.take_succ_cons, List.take_zero, List.mem_cons, List.not_mem_nil, or_false]
            rintro x (rfl | rfl | rfl) <;> omega
          · intro tl'; simp [mbDecode, hv, hv2, hc]
          · omega
          · intro h
            have e0 : b0.toNat = 0xE2 := by omega
            have e1 : b1.toNat = 0x80 := by omega
            have e2 : b2.toNat = 0xA8 := by omega
            simp [u8_eq_of_toNat _ _ (by omega) e0, u8_eq_of_toNat _ _ (by omega) e1, u8_eq_of_toNat _ _ (by omega) e2]
          · intro h
            have e0 : b0.toNat = 0xE2 := by omega
            have e1 : b1.toNat = 0x80 := by omega
            have e2 : b2.toNat = 0xA9 := by omega
            simp [u8_eq_of_toNat _ _ (by omega) e0, u8_eq_of_toNat _ _ (by omega) e1, u8_eq_of_toNat _ _ (by omega) e2]
        · rename_i hv3
          match rest with
          | [] => simp at h
          | b3 :: rest =>
            simp only at h
            split at h
            · rename_i hv
              simp only [Option.some.injEq, Prod.mk.injEq] at h
              obtain ⟨hc, hn⟩ := h
              subst hn
              refine ⟨by omega, by omega, by simp, ?_, ?_, ?_, ?_, ?_⟩
              · simp only [List.take_succ_cons, List.take_zero, List.mem_cons, List.not_mem_nil, or_false]
                rintro x (rfl | rfl | rfl | rfl) <;> omega
              · intro tl'; simp [mbDecode, hv, hv2, hv3, hc]
              · omega
              · intro h; omega
              · intro h; omega
            · simp at h
end SF.Json.Utf8
