/-
  The UBJSON encoder theorem under a WEAKER size condition: `smallU` bounds the number of
  elements of a container only when its length is ANNOUNCED (then the count is written as an
  int64); a container of unknown length (`len ≤ 0`: written `[ … ]` / `{ … }`) may have any
  number of elements.  `small t → smallU t`.  (Used for UBJSON → UBJSON transcoding, where plain
  containers of the source have no a-priori bound.)
-/
import SF.Proofs.UbjEncValue
namespace SF.Ubjson.Enc
open SF SF.Ubjson SF.Ubjson.Wire
open SF.Cbor.Enc (small smallList smallMems)

mutual
def smallU : ETree → Bool
  | .num k v => k.inRange v
  | .str s => decide (s.length < 9223372036854775808)
  | .arr len _ xs => (decide (len ≤ 0) || decide (xs.length < 9223372036854775808)) && smallUList xs
  | .obj len _ ms => (decide (len ≤ 0) || decide (ms.length < 9223372036854775808)) && smallUMems ms
  | _ => true
def smallUList : List ETree → Bool
  | [] => true
  | x :: xs => smallU x && smallUList xs
def smallUMems : List (Bytes × ETree) → Bool
  | [] => true
  | (k, v) :: ms => decide (k.length < 9223372036854775808) && smallU v && smallUMems ms
end

mutual
theorem smallU_of_small (t : ETree) (h : small t = true) : smallU t = true := by
  match t with
  | .null | .bool _ | .f32 _ | .f64 _ => rfl
  | .num k v => simpa only [small, smallU] using h
  | .str s => simpa only [small, smallU] using h
  | .arr len bt xs =>
    simp only [small, Bool.and_eq_true] at h
    simp only [smallU, h.1, Bool.or_true, Bool.true_and, smallUList_of_small xs h.2]
  | .obj len bt ms =>
    simp only [small, Bool.and_eq_true] at h
    simp only [smallU, h.1, Bool.or_true, Bool.true_and, smallUMems_of_small ms h.2]
theorem smallUList_of_small (xs : List ETree) (h : smallList xs = true) : smallUList xs = true := by
  match xs with
  | [] => rfl
  | x :: xs' =>
    simp only [smallList, Bool.and_eq_true] at h
    simp only [smallUList, smallU_of_small x h.1, smallUList_of_small xs' h.2, Bool.and_self]
theorem smallUMems_of_small (ms : List (Bytes × ETree)) (h : smallMems ms = true) : smallUMems ms = true := by
  match ms with
  | [] => rfl
  | (k, v) :: ms' =>
    simp only [smallMems, Bool.and_eq_true] at h
    simp only [smallUMems, h.1.1, smallU_of_small v h.1.2, smallUMems_of_small ms' h.2, Bool.and_self]
end

mutual
theorem toItem_okU (t : ETree) (hs : smallU t = true) : (toItem t).ok = true := by
  match t with
  | .null | .f32 _ | .f64 _ => rfl
  | .bool b => cases b <;> rfl
  | .str sv =>
    simp only [smallU, decide_eq_true_eq] at hs
    simp only [toItem, UItem.ok]
    exact minM_fits _ (by omega) (by omega)
  | .num k v =>
    simp only [smallU] at hs
    exact numItem_ok k v hs
  | .arr len bt xs =>
    simp only [smallU, Bool.and_eq_true, Bool.or_eq_true, decide_eq_true_eq] at hs
    simp only [toItem]
    split
    · simp only [UItem.ok]; exact toItems_okU xs hs.2
    · rename_i hl
      have hb : xs.length < 9223372036854775808 := by
        rcases hs.1 with h | h
        · exact absurd h hl
        · exact h
      simp only [UItem.ok, Bool.and_eq_true, toItems_length]
      exact ⟨minM_fits (xs.length : Int) (by omega) (by omega), toItems_okU xs hs.2⟩
  | .obj len bt ms =>
    simp only [smallU, Bool.and_eq_true, Bool.or_eq_true, decide_eq_true_eq] at hs
    simp only [toItem]
    split
    · simp only [UItem.ok]; exact toMems_okU ms hs.2
    · rename_i hl
      have hb : ms.length < 9223372036854775808 := by
        rcases hs.1 with h | h
        · exact absurd h hl
        · exact h
      simp only [UItem.ok, Bool.and_eq_true, toMems_length]
      exact ⟨minM_fits (ms.length : Int) (by omega) (by omega), toMems_okU ms hs.2⟩
theorem toItems_okU (xs : List ETree) (hs : smallUList xs = true) : okList (toItems xs) = true := by
  match xs with
  | [] => rfl
  | x :: xs' =>
    simp only [smallUList, Bool.and_eq_true] at hs
    simp [toItems, okList, toItem_okU x hs.1, toItems_okU xs' hs.2]
theorem toMems_okU (ms : List (Bytes × ETree)) (hs : smallUMems ms = true) : okMems (toMems ms) = true := by
  match ms with
  | [] => rfl
  | (k, v) :: ms' =>
    simp only [smallUMems, Bool.and_eq_true, decide_eq_true_eq] at hs
    simp [toMems, okMems, toItem_okU v hs.1.2, toMems_okU ms' hs.2, minM_fits k.length (by omega) (by omega)]
end

mutual
theorem toItem_approxU (t : ETree) (hs : smallU t = true) : approx t.value (toItem t).value = true := by
  match t with
  | .null => rfl
  | .bool b => cases b <;> rfl
  | .f32 _ => simp [ETree.value, toItem, UItem.value, approx]
  | .f64 _ => simp [ETree.value, toItem, UItem.value, approx]
  | .str sv => simp [ETree.value, toItem, UItem.value, approx]
  | .num k v =>
    simp only [smallU] at hs
    exact approx_num k v hs
  | .arr len bt xs =>
    simp only [smallU, Bool.and_eq_true] at hs
    simp only [ETree.value, toItem_arr_value, approx, toItems_approxU xs hs.2, Bool.true_or]
  | .obj len bt ms =>
    simp only [smallU, Bool.and_eq_true] at hs
    simp only [ETree.value, toItem_obj_value, approx, toMems_approxU ms hs.2, Bool.true_or]
theorem toItems_approxU (xs : List ETree) (hs : smallUList xs = true) :
    approxList (ETree.valueList xs) (Wire.valueList (toItems xs)) = true := by
  match xs with
  | [] => rfl
  | x :: xs' =>
    simp only [smallUList, Bool.and_eq_true] at hs
    simp [ETree.valueList, toItems, Wire.valueList, approxList, toItem_approxU x hs.1, toItems_approxU xs' hs.2]
theorem toMems_approxU (ms : List (Bytes × ETree)) (hs : smallUMems ms = true) :
    approxMems (ETree.valueMems ms) (Wire.valueMems (toMems ms)) = true := by
  match ms with
  | [] => rfl
  | (k, v) :: ms' =>
    simp only [smallUMems, Bool.and_eq_true] at hs
    simp [ETree.valueMems, toMems, Wire.valueMems, approxMems, toItem_approxU v hs.1.2, toMems_approxU ms' hs.2]
end

mutual
theorem toItem_exactU (t : ETree) (hs : smallU t = true) (hb : noBig t = true) : (toItem t).value = t.value := by
  match t with
  | .null => rfl
  | .bool b => cases b <;> rfl
  | .f32 _ => rfl
  | .f64 _ => rfl
  | .str sv => rfl
  | .num k v =>
    simp only [smallU] at hs
    simp only [noBig, decide_eq_true_eq] at hb
    have : ¬ (9223372036854775807 < v) := by omega
    simp only [toItem, numItem_value k v hs, this, if_false, ETree.value]
  | .arr len bt xs =>
    simp only [smallU, Bool.and_eq_true] at hs
    simp only [noBig] at hb
    simp only [ETree.value, toItem_arr_value, toItems_exactU xs hs.2 hb]
  | .obj len bt ms =>
    simp only [smallU, Bool.and_eq_true] at hs
    simp only [noBig] at hb
    simp only [ETree.value, toItem_obj_value, toMems_exactU ms hs.2 hb]
theorem toItems_exactU (xs : List ETree) (hs : smallUList xs = true) (hb : noBigList xs = true) :
    Wire.valueList (toItems xs) = ETree.valueList xs := by
  match xs with
  | [] => rfl
  | x :: xs' =>
    simp only [smallUList, Bool.and_eq_true] at hs
    simp only [noBigList, Bool.and_eq_true] at hb
    simp [ETree.valueList, toItems, Wire.valueList, toItem_exactU x hs.1 hb.1, toItems_exactU xs' hs.2 hb.2]
theorem toMems_exactU (ms : List (Bytes × ETree)) (hs : smallUMems ms = true) (hb : noBigMems ms = true) :
    Wire.valueMems (toMems ms) = ETree.valueMems ms := by
  match ms with
  | [] => rfl
  | (k, v) :: ms' =>
    simp only [smallUMems, Bool.and_eq_true] at hs
    simp only [noBigMems, Bool.and_eq_true] at hb
    simp [ETree.valueMems, toMems, Wire.valueMems, toItem_exactU v hs.1.2 hb.1, toMems_exactU ms' hs.2 hb.2]
end

end SF.Ubjson.Enc
