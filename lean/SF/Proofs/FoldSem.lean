/-
  What the control structures of the mirror deliver to a healthy user visitor: `ValOut`
  (events describing one value that matches the wanted `RVal`) and `MemsOut` (events
  describing object members that match the wanted segments), composed over `emit`,
  `seqM`, `rangeM`.
-/
import SF.Proofs.FoldRun
namespace SF.FoldProofs
open SF SF.Gotype SF.Gotype.Fold SF.Gotype.Rules

/-- the step succeeded and delivered events describing one value matching `r` -/
def ValOut (s : St) (out : St × Res) (r : RVal) : Prop :=
  ∃ s' xs g, out = (s', .ok) ∧ Adv s s' xs ∧ Enc (expandAll xs) g ∧ Rel r g

/-- the step succeeded and delivered events describing object members matching `segs` -/
def MemsOut (s : St) (out : St × Res) (segs : List Seg) : Prop :=
  ∃ s' xs ms, out = (s', .ok) ∧ Adv s s' xs ∧ EncMems (expandAll xs) ms ∧ RelSegs segs ms

/-- the step succeeded and delivered events describing array elements matching `rs` -/
def ElemsOut (s : St) (out : St × Res) (rs : List RVal) : Prop :=
  ∃ s' xs gs, out = (s', .ok) ∧ Adv s s' xs ∧ EncElems (expandAll xs) gs ∧ RelList rs gs

theorem emit_scalar {s : St} (hs : Inv s) {e : Ev} {g : Val} {r : RVal}
    (he : Enc [e] g) (hr : Rel r g) : ValOut s (emit s .user (.ev e)) r := by
  obtain ⟨s', h1, h2⟩ := emit_ev s e hs
  exact ⟨s', [.ev e], g, h1, h2, by simpa [expandAll_single, XEv.expand] using he, hr⟩

theorem MemsOut_nil {s : St} (hs : Inv s) : MemsOut s (s, .ok) [] :=
  ⟨s, [], [], rfl, Adv.refl s hs, by simpa [expandAll] using EncMems_nil, RelSegs_nil⟩

/-- `arrStart; inner; arrEnd` -/
theorem wrap_arr {s : St} (hs : Inv s) (l : Int) (bt : Nat) (inner : St → St × Res) (rs : List RVal)
    (h : ∀ s, Inv s → ElemsOut s (inner s) rs) :
    ValOut s (match emit s .user (.ev (.arrStart l bt)) with
      | (s, .ok) =>
        match inner s with
        | (s, .ok) => emit s .user (.ev .arrEnd)
        | r => r
      | r => r) (.arr rs) := by
  obtain ⟨s1, h1, a1⟩ := emit_ev s (.arrStart l bt) hs
  obtain ⟨s2, xs, gs, h2, a2, henc, hrel⟩ := h s1 a1.2
  obtain ⟨s3, h3, a3⟩ := emit_ev s2 .arrEnd a2.2
  refine ⟨s3, [.ev (.arrStart l bt)] ++ xs ++ [.ev .arrEnd], .arr gs, ?_, (a1.trans a2).trans a3, ?_, ?_⟩
  · simp only [h1, h2, h3]
  · have := Enc_arr l bt henc
    simpa [expandAll_append, expandAll_cons, expandAll_nil, XEv.expand] using this
  · simp only [Rel]; exact ⟨gs, rfl, hrel⟩

/-- `objStart; inner; objEnd` -/
theorem wrap_obj {s : St} (hs : Inv s) (l : Int) (bt : Nat) (inner : St → St × Res) (segs : List Seg)
    (h : ∀ s, Inv s → MemsOut s (inner s) segs) :
    ValOut s (match emit s .user (.ev (.objStart l bt)) with
      | (s, .ok) =>
        match inner s with
        | (s, .ok) => emit s .user (.ev .objEnd)
        | r => r
      | r => r) (.obj segs) := by
  obtain ⟨s1, h1, a1⟩ := emit_ev s (.objStart l bt) hs
  obtain ⟨s2, xs, ms, h2, a2, henc, hrel⟩ := h s1 a1.2
  obtain ⟨s3, h3, a3⟩ := emit_ev s2 .objEnd a2.2
  refine ⟨s3, [.ev (.objStart l bt)] ++ xs ++ [.ev .objEnd], .obj ms, ?_, (a1.trans a2).trans a3, ?_, ?_⟩
  · simp only [h1, h2, h3]
  · have := Enc_obj l bt henc
    simpa [expandAll_append, expandAll_cons, expandAll_nil, XEv.expand] using this
  · simp only [Rel]; exact ⟨ms, rfl, hrel⟩

/-- `key; inner` -/
theorem key_then {s : St} (hs : Inv s) (k : Bytes) (inner : St → St × Res) (r : RVal)
    (h : ∀ s, Inv s → ValOut s (inner s) r) :
    MemsOut s (match emit s .user (.ev (.key k)) with
      | (s, .ok) => inner s
      | r => r) (memberSeg k r) := by
  obtain ⟨s1, h1, a1⟩ := emit_ev s (.key k) hs
  obtain ⟨s2, xs, g, h2, a2, henc, hrel⟩ := h s1 a1.2
  refine ⟨s2, [.ev (.key k)] ++ xs, [(k, g)], ?_, a1.trans a2, ?_, RelSegs_member hrel⟩
  · simp only [h1, h2]
  · have := EncMems_member k henc
    simpa [expandAll_append, expandAll_cons, expandAll_nil, XEv.expand] using this

/-- a sequence of element folders -/
theorem seq_elems {α : Type} (step : St → α → St × Res) {xs : List α} {rs : List RVal}
    (h : All2 (fun x r => ∀ s, Inv s → ValOut s (step s x) r) xs rs) :
    ∀ s, Inv s → ElemsOut s (seqM step s xs) rs := by
  induction h with
  | nil =>
    intro s hs
    exact ⟨s, [], [], rfl, Adv.refl s hs, by simpa [expandAll] using EncElems_nil, by simp [RelList]⟩
  | @cons x r xs rs h1 _ ih =>
    intro s hs
    obtain ⟨s1, e1, g, hs1, a1, henc1, hrel1⟩ := h1 s hs
    obtain ⟨s2, e2, gs, hs2, a2, henc2, hrel2⟩ := ih s1 a1.2
    refine ⟨s2, e1 ++ e2, g :: gs, ?_, a1.trans a2, ?_, ?_⟩
    · simp only [seqM, hs1, hs2]
    · rw [expandAll_append]
      exact EncElems_append (EncElems_one henc1) henc2
    · simp only [RelList]; exact ⟨g, gs, rfl, hrel1, hrel2⟩

/-- a sequence of member folders -/
theorem seq_mems {α : Type} (step : St → α → St × Res) {xs : List α} {segss : List (List Seg)}
    (h : All2 (fun x segs => ∀ s, Inv s → MemsOut s (step s x) segs) xs segss) :
    ∀ s, Inv s → MemsOut s (seqM step s xs) segss.flatten := by
  induction h with
  | nil => intro s hs; exact MemsOut_nil hs
  | @cons x r xs rs h1 _ ih =>
    intro s hs
    obtain ⟨s1, e1, m1, hs1, a1, henc1, hrel1⟩ := h1 s hs
    obtain ⟨s2, e2, m2, hs2, a2, henc2, hrel2⟩ := ih s1 a1.2
    refine ⟨s2, e1 ++ e2, m1 ++ m2, ?_, a1.trans a2, ?_, ?_⟩
    · simp only [seqM, hs1, hs2]
    · rw [expandAll_append]
      exact EncMems_append henc1 henc2
    · simp only [List.flatten_cons]; exact RelSegs_append hrel1 hrel2

/-- `for k, v := range m { key k; inner v }`: the members of one unordered segment -/
theorem range_mems {α ε : Type} (inner : St → Bytes × α → St × Res)
    (spec : Bytes × α → Except ε RVal) {es : List (Bytes × α)} {mems : List (Bytes × RVal)}
    (hspec : All2 (fun e m => e.1 = m.1 ∧ spec e = .ok m.2) es mems)
    (hnd : (keysOf mems).Nodup)
    (h : ∀ e ∈ es, ∀ r, spec e = .ok r → ∀ s, Inv s → ValOut s (inner s e) r)
    (n : Nat) (hn : es.length ≤ n) :
    ∀ s, Inv s → MemsOut s (rangeM (fun s m =>
      match emit s .user (.ev (.key m.1)) with
      | (s, .ok) => inner s m
      | r => r) n s es) [(true, mems)] := by
  intro s hs
  let Q : Bytes × α → List XEv → Prop := fun e xs =>
    ∃ r g, spec e = .ok r ∧ EncMems (expandAll xs) [(e.1, g)] ∧ Rel r g
  have hstep : ∀ e ∈ es, StepOK (fun s m =>
      match emit s .user (.ev (.key m.1)) with
      | (s, .ok) => inner s m
      | r => r) Q e := by
    intro e he s hs
    obtain ⟨m, _, hm⟩ := hspec.mem_left he
    obtain ⟨s', xs, ms, h1, a1, henc, hrel⟩ := key_then hs e.1 (fun s => inner s e) m.2 (h e he m.2 hm.2)
    simp only [memberSeg, RelSegs, RelMems] at hrel
    obtain ⟨m1, m1', m2, e1, ⟨g, ms', e2, hg, e3⟩, e4, e5⟩ := hrel
    simp only [Bool.false_eq_true, if_false] at e4
    subst e5 e3 e4 e2
    simp only [List.append_nil] at e1
    subst e1
    exact ⟨s', xs, h1, a1, m.2, g, hm.2, henc, hg⟩
  obtain ⟨s', es', xss, hrun, hperm, hall, hadv⟩ := rangeM_ok _ Q n es hstep hn s hs
  -- the members in the order they were delivered
  have hgot : ∃ got : List (Bytes × Val),
      All2 (fun (e : Bytes × α) (p : Bytes × Val) => p.1 = e.1 ∧ ∃ r, spec e = .ok r ∧ Rel r p.2) es' got ∧
      EncMems (expandAll xss.flatten) got := by
    clear hrun hadv hperm
    induction hall with
    | nil => exact ⟨[], .nil, by simpa [expandAll] using EncMems_nil⟩
    | @cons e xs es' xss hq _ ih =>
      obtain ⟨got, hg1, hg2⟩ := ih
      obtain ⟨r, g, hr, henc, hrel⟩ := hq
      refine ⟨(e.1, g) :: got, .cons ⟨rfl, r, hr, hrel⟩ hg1, ?_⟩
      simp only [List.flatten_cons, expandAll_append]
      exact EncMems_append henc hg2
  obtain ⟨got, hg1, hg2⟩ := hgot
  obtain ⟨got', hp', hg'⟩ := All2.perm hperm hg1
  have hrel : RelMems mems got' := by
    apply RelMems_of_All2
    refine All2.zip hg' hspec ?_
    intro e p m hp hm
    obtain ⟨hk, r, hr, hrel⟩ := hp
    rw [hm.2] at hr
    cases hr
    exact ⟨by rw [← hm.1, hk], hrel⟩
  exact ⟨s', xss.flatten, got, hrun, hadv, hg2, RelSegs_bag hrel hp' hnd⟩

end SF.FoldProofs
