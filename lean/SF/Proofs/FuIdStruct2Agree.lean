/-
  C11, direct path, STRUCT types with fields of primitive kind and OMITEMPTY members — the ORACLE's comparison
  (`agreeF "direct"`): for an `omitempty` member the oracle accepts the zero value or agreement when the
  original is empty, and wants agreement otherwise; the translated value agrees in both cases.
-/
import SF.Proofs.FuIdStruct2Run
namespace SF.FuId
open SF SF.Gotype SF.Gotype.Fold SF.FoldProofs
open SF.Ops.Fu (agreeF isZeroF)

/-- the EXACT translation of a field value (no NaN quieting) -/
def trFieldX2 : FD2 → GoVal → Unf.GoVal
  | .drop p, _ => zeroPrim p
  | .mem _ p, v => trPrim p v
  | .oe _ p, v => trPrim p v

theorem fk_omitEmpty {f : Field} {nm : Bytes} (h : fieldKind f = .omitEmpty nm) :
    (!f.exported || (Rules.parseTag f.tag).dash || (Rules.parseTag f.tag).omit') = false ∧
      (Rules.parseTag f.tag).inline = false ∧ (Rules.parseTag f.tag).omitEmpty = true := by
  unfold fieldKind at h
  simp only [] at h
  split at h
  · cases h
  · rename_i h1
    split at h
    · cases h
    · split at h
      · cases h
      · rename_i h3
        split at h
        · cases h
        · rename_i h4
          split at h
          · rename_i h5
            refine ⟨?_, by simpa using h4, h5⟩
            have h1' : (!f.exported || (Rules.parseTag f.tag).dash) = false := by simpa using h1
            have h3' : (Rules.parseTag f.tag).omit' = false := by simpa using h3
            rw [h1', h3']; rfl
          · cases h

theorem all_fields2 (P : Field × GoVal × GoVal → Bool) : ∀ (fs : List Field) (ds : List FD2), Desc2 fs ds →
    ∀ (vs : List GoVal), Vals2 ds vs →
    (∀ f d v, DescF2 f d → hasPrim d.prim v = true → (d, v) ∈ ds.zip vs → P (f, v, back (trField2 d v)) = true) →
    (fs.zip (vs.zip (backList (trFields2 ds vs)))).all P = true := by
  intro fs ds h
  induction h with
  | nil => intro vs _ _; rfl
  | @cons f d fs ds hf _ ih =>
    intro vs hv hP
    cases hv with
    | @cons _ v _ vs' hp hv' =>
      simp only [trFields2, backList, List.zip_cons_cons, List.all_cons, Bool.and_eq_true]
      exact ⟨hP f d v hf hp (by simp), ih vs' hv' (fun f' d' v' a b c => hP f' d' v' a b (by simp [c]))⟩

theorem len_desc2 {fs : List Field} {ds : List FD2} (h : Desc2 fs ds) : fs.length = ds.length := by
  induction h with
  | nil => rfl
  | cons _ _ ih => simp [ih]
theorem len_vals2 {ds : List FD2} {vs : List GoVal} (h : Vals2 ds vs) : vs.length = ds.length := by
  induction h with
  | nil => rfl
  | cons _ _ ih => simp [ih]
theorem len_trFields2 : ∀ {ds : List FD2} {vs : List GoVal}, Vals2 ds vs → (backList (trFields2 ds vs)).length = ds.length := by
  intro ds vs h
  induction h with
  | nil => rfl
  | cons _ _ ih => simp [trFields2, backList, ih]

/-- the oracle's comparison, under the side condition that the reflection path did not touch the bits of a
float32 member (everything but a signalling NaN) -/
theorem agree_struct2 (n : Nat) (S : GoType) (fs : List Field) (ds : List FD2) (vs : List GoVal)
    (hu : S.under = .struct fs) (hd : Desc2 fs ds) (hv : Vals2 ds vs)
    (hq : ∀ d v, (d, v) ∈ ds.zip vs → trField2 d v = trFieldX2 d v) :
    agreeF "direct" (n + 2) S (.struct vs) (back (.struct (trFields2 ds vs))) = true := by
  rw [SF.Ops.Fu.agreeF.eq_def]
  simp only [hu, back]
  have hj : ("direct" == "json") = false := by decide
  simp only [len_vals2 hv, len_desc2 hd, len_trFields2 hv, beq_self_eq_true, Bool.true_and]
  apply all_fields2 _ fs ds hd vs hv
  intro f d v hf hp hm
  cases d with
  | drop p =>
    obtain ⟨hk, _⟩ := hf
    simp only [fk_drop hk, if_true, trField2]
    exact isZero_zeroPrim p
  | mem nm p =>
    obtain ⟨hk, ht⟩ := hf
    obtain ⟨h1, h2, h3⟩ := fk_plain hk
    have hb : back (trField2 (.mem nm p) v) = v := by
      rw [hq _ _ hm]; exact back_trPrim p v hp
    simp only [h1, h2, h3, hj, Bool.false_eq_true, if_false, Bool.false_and, hb, ht]
    exact agree_prim n p v hp
  | oe nm p =>
    obtain ⟨hk, ht⟩ := hf
    obtain ⟨h1, h2, h3⟩ := fk_omitEmpty hk
    have hb : back (trField2 (.oe nm p) v) = v := by
      rw [hq _ _ hm]; exact back_trPrim p v hp
    have ha := agree_prim n p v hp
    simp only [h1, h2, h3, hj, Bool.false_eq_true, if_false, Bool.false_and, Bool.true_and, hb, ht, ha,
      Bool.or_true, ite_self]

theorem field_side_condition2 (d : FD2) (v : GoVal) (h : d.prim ≠ .f32 ∨ isNaN32 (getF32 v) = false) :
    trField2 d v = trFieldX2 d v := by
  cases d with
  | drop p => rfl
  | mem nm p =>
    cases p <;> first | rfl | skip
    rcases h with h | h
    · exact absurd rfl h
    · simp [trField2, trFieldX2, trPtrElem, trPrim, quiet32, h]
  | oe nm p =>
    cases p <;> first | rfl | skip
    rcases h with h | h
    · exact absurd rfl h
    · simp [trField2, trFieldX2, trPtrElem, trPrim, quiet32, h]

end SF.FuId
