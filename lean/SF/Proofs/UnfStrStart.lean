/-
  Targets with structs, part 10: ANY container start in ANY reachable context (port of `UnfTyStart`).
-/
import SF.Proofs.UnfStrScalar
namespace SF.Unf.Str
open SF SF.Unf

variable {tbl : TypeTable} {R : Reg} {D : Nat} {base : S6}

/-- the outcome of a container start announcing element type code `bt`: refused, the documented
panic for an invalid code, or accepted with the invariant kept -/
def StartOut (tbl : TypeTable) (R : Reg) (D : Nat) (base : S6) (bt : Nat) (r : Unf.R Unit) : Prop :=
  (∃ e c', r = .err e c') ∨ (∃ c', r = .panic c' ∧ 17 ≤ bt) ∨
  (∃ c' fs', r = .ok () c' ∧ Inv tbl R D base fs' c' ∧ Rest fs')

/-- the struct states refuse the start of an array; `unfolderStruct` refuses the start of an object -/
theorem arrStart_err_st (f : Nat) (l : Int) (bt : Nat) (c : Ctx)
    (hcur : c.unfolder.current = .structStart ∨ ∃ fields, c.unfolder.current = .struct fields) :
    ∃ e, onArrayStart (f + 1) l bt c = .err e c := by
  rcases hcur with h | ⟨fields, h⟩ <;> exact ⟨_, by simp [onArrayStart, bind_def, currentU, h, throwErr] <;> rfl⟩

theorem objStart_err_st (f : Nat) (l : Int) (bt : Nat) (c : Ctx) (fields : Fields)
    (hcur : c.unfolder.current = .struct fields) : ∃ e, onObjectStart (f + 1) l bt c = .err e c :=
  ⟨_, by simp [onObjectStart, bind_def, currentU, hcur, throwErr] <;> rfl⟩

/-- forwarding a start event through a reflection frame: one more slice element / a fresh cell,
the element unfolder's frame on it -/
theorem forward_frames {F : Frame} {fs : List Frame} {c : Ctx} (h : Inv tbl R D base (F :: fs) c) :
    (∀ e ru t p i d, F = .rsl e ru t p i → Pch tbl e d →
      ∃ G c2 fs2, (reflSlicePrepare >>= fun q => initStateRU ru q) c = .ok () c2 ∧
        Inv tbl R D base (G :: fs2) c2 ∧ G.hasU ∧ NeedLe tbl G (d + 1)) ∧
    (∀ e ru d, (∃ t p key, F = .rmE e ru t p key) ∨ (∃ t p, F = .rp e ru t p) → Pch tbl e d →
      ∃ G c2 fs2, (reflMapOnElemPrepare e >>= fun q => initStateRU ru q) c = .ok () c2 ∧
        Inv tbl R D base (G :: fs2) c2 ∧ G.hasU ∧ NeedLe tbl G (d + 1)) := by
  constructor
  · intro e ru t p i d hF hpd
    subst hF
    obtain ⟨_, _, _, hru⟩ := h.wfs.1.2.1.slice_inv
    obtain ⟨c1, hprep, hinv1, ⟨x, hx, hxok⟩, _⟩ := prepare_rsl e ru t p i h
    obtain ⟨ru', c2, hinit, _, hok', hinv2, _⟩ := init_at ru e (p.push (.index i.toNat)) hru hinv1
      (fun a => ⟨⟨_, rfl⟩, rfl⟩) x hx hxok
    exact ⟨_, c2, _, by rw [bind_ok _ _ c c1 _ hprep]; exact hinit, hinv2, hasU_waitF _ _ _,
      need_waitF ru' e _ d hok' hpd⟩
  · intro e ru d hF hpd
    have hG : F.cellTy = some e := by
      rcases hF with ⟨t, p, key, rfl⟩ | ⟨t, p, rfl⟩ <;> rfl
    have hok : ZeroOK tbl e ∧ RUOk tbl R D e ru := by
      rcases hF with ⟨t, p, key, rfl⟩ | ⟨t, p, rfl⟩
      · exact ⟨h.wfs.1.2.map_inv.2.1, h.wfs.1.2.map_inv.2.2.2⟩
      · exact ⟨h.wfs.1.2.ptr_inv.2.1, h.wfs.1.2.ptr_inv.2.2.2⟩
    obtain ⟨hz, hru⟩ := hok
    obtain ⟨c1, hprep, hinv1, hx, _⟩ := prepare_cell e F hG hz h
    obtain ⟨ru', c2, hinit, _, hok', hinv2, _⟩ := init_at ru e ⟨.cell c.cells.size, []⟩ hru hinv1
      (fun a => ⟨rfl, rfl⟩) _ hx hz
    exact ⟨_, c2, _, by rw [bind_ok _ _ c c1 _ hprep]; exact hinit, hinv2, hasU_waitF _ _ _,
      need_waitF ru' e _ d hok' hpd⟩

theorem Frame.isSinkF_of {F : Frame} (k : PK) (hk : k = .ifc)
    (hF : (∃ t p, F = .prim k t p) ∨ (∃ t p i, F = .arr k t p i) ∨ (∃ t p key, F = .mapV k t p key)) : F.isSinkF := by
  subst hk
  rcases hF with ⟨t, p, rfl⟩ | ⟨t, p, i, rfl⟩ | ⟨t, p, key, rfl⟩ <;> trivial

/-- ANY ARRAY START, ANY FRAME -/
theorem arrStart_step : ∀ (n : Nat) (F : Frame) (fs : List Frame) (c : Ctx) (l : Int) (bt : Nat),
    Inv tbl R D base (F :: fs) c → F.hasU → NeedLe tbl F n → StartOut tbl R D base bt (onArrayStart n l bt c) := by
  intro n
  induction n with
  | zero => intro F fs c l bt _ _ hn; have := hn.pos; omega
  | succ n ih =>
    intro F fs c l bt h hU hn
    have hcur := h.cur hU
    have sink : ∀ k : PK,
        ((∃ t p, F = .prim k t p) ∨ (∃ t p i, F = .arr k t p i) ∨ (∃ t p key, F = .mapV k t p key)) →
        F.cur = .prim k ∨ F.cur = .arr k ∨ F.cur = .mapVal k →
        StartOut tbl R D base bt (onArrayStart (n + 1) l bt c) := by
      intro k hF hc
      by_cases hk : k = .ifc
      · have hs := Frame.isSinkF_of k hk hF
        cases hbk : btKind bt with
        | none =>
          exact Or.inr (Or.inl ⟨c, arrStart_invalid n l bt c (hs.cur h) hbk, (btKind_none_iff bt).mp hbk⟩)
        | some k' =>
          obtain ⟨c', h1, h2⟩ := arrStart_sinkF hs n l bt k' hbk h
          exact Or.inr (Or.inr ⟨c', _, h1, h2, ⟨trivial, fun h => h.elim⟩⟩)
      · have : F.cur.noArrStart := by rcases hc with hc | hc | hc <;> rw [hc] <;> exact hk
        obtain ⟨e, he⟩ := arrStart_errU n l bt c _ hcur this
        exact Or.inl ⟨e, c, he⟩
    have fwd : ∀ (c2 : Ctx) (G : Frame) (fs2 : List Frame), Inv tbl R D base (G :: fs2) c2 → G.hasU → NeedLe tbl G n →
        StartOut tbl R D base bt (onArrayStart n l bt c2) := fun c2 G fs2 h2 hG hn2 => ih G fs2 c2 l bt h2 hG hn2
    have ign : F.isIgn → ∀ G : Frame, G.isIgn → (∀ t p, G ≠ .ign t p) → G.live = F.live → G.cur = .ignoreArr →
        StartOut tbl R D base bt (onArrayStart (n + 1) l bt c) := by
      intro hF G hG hGi hGl hGc
      have hc : inIgn c.unfolder.current ∨ c.unfolder.current = .ignore := by
        rw [hcur]
        cases F <;> first | exact hF.elim | exact Or.inr rfl | exact Or.inl (Or.inl rfl) | exact Or.inl (Or.inr rfl)
      refine Or.inr (Or.inr ⟨_, G :: F :: fs, arrStart_ign n l bt c hc, ?_, ?_⟩)
      · have := push_ign hF G hG hGi hGl h
        rw [hGc] at this
        exact this
      · exact ⟨by cases G <;> first | trivial | exact hG.elim, fun hp => by
          cases G <;> first | exact hG.elim | exact hp.elim | exact absurd rfl (hGi _ _)⟩
    cases F with
    | sub a bt' sl k => exact hU.elim
    | cellx e C => exact hU.elim
    | prim k t p => exact sink k (Or.inl ⟨t, p, rfl⟩) (Or.inl rfl)
    | arr k t p i => exact sink k (Or.inr (Or.inl ⟨t, p, i, rfl⟩)) (Or.inr (Or.inl rfl))
    | mapV k t p key => exact sink k (Or.inr (Or.inr ⟨t, p, key, rfl⟩)) (Or.inr (Or.inr rfl))
    | arrS k t p =>
      obtain ⟨c', h1, h2⟩ := arrStart_arrS k t p n l bt h
      exact Or.inr (Or.inr ⟨c', _, h1, h2, ⟨trivial, fun h => h.elim⟩⟩)
    | rslS e ru t p =>
      obtain ⟨c', h1, h2⟩ := arrStart_rslS e ru t p n l bt h
      exact Or.inr (Or.inr ⟨c', _, h1, h2, ⟨trivial, fun h => h.elim⟩⟩)
    | mapS k t p => obtain ⟨e, he⟩ := arrStart_errU n l bt c _ hcur trivial; exact Or.inl ⟨e, c, he⟩
    | mapK k t p => obtain ⟨e, he⟩ := arrStart_errU n l bt c _ hcur trivial; exact Or.inl ⟨e, c, he⟩
    | rmS e ru t p => obtain ⟨e, he⟩ := arrStart_errU n l bt c _ hcur trivial; exact Or.inl ⟨e, c, he⟩
    | rmK e ru t p => obtain ⟨e, he⟩ := arrStart_errU n l bt c _ hcur trivial; exact Or.inl ⟨e, c, he⟩
    | stS fields t p => obtain ⟨e, he⟩ := arrStart_err_st n l bt c (Or.inl hcur); exact Or.inl ⟨e, c, he⟩
    | st fields t p => obtain ⟨e, he⟩ := arrStart_err_st n l bt c (Or.inr ⟨_, hcur⟩); exact Or.inl ⟨e, c, he⟩
    | ign t p => exact ign trivial (.ignA t p) trivial (fun _ _ h => by cases h) rfl rfl
    | ignA t p => exact ign trivial (.ignA t p) trivial (fun _ _ h => by cases h) rfl rfl
    | ignO t p => exact ign trivial (.ignA t p) trivial (fun _ _ h => by cases h) rfl rfl
    | rsl e ru t p i =>
      obtain ⟨d, hpd, hd⟩ := hn
      obtain ⟨G, c2, fs2, hrun, hinv2, hGU, hneed⟩ := (forward_frames h).1 e ru t p i d rfl hpd
      rw [onArrayStart_rsl n l bt c e ru hcur, bind_assoc3, bind_ok _ _ c c2 _ hrun]
      exact fwd c2 _ fs2 hinv2 hGU (hneed.mono (by omega))
    | rmE e ru t p key =>
      obtain ⟨d, hpd, hd⟩ := hn
      obtain ⟨G, c2, fs2, hrun, hinv2, hGU, hneed⟩ := (forward_frames h).2 e ru d (Or.inl ⟨t, p, key, rfl⟩) hpd
      rw [onArrayStart_rmE n l bt c e ru hcur, bind_assoc3, bind_ok _ _ c c2 _ hrun]
      exact fwd c2 _ fs2 hinv2 hGU (hneed.mono (by omega))
    | rp e ru t p =>
      obtain ⟨d, hpd, hd⟩ := hn
      obtain ⟨G, c2, fs2, hrun, hinv2, hGU, hneed⟩ := (forward_frames h).2 e ru d (Or.inr ⟨t, p, rfl⟩) hpd
      rw [onArrayStart_rp n l bt c e ru hcur, bind_assoc3, bind_ok _ _ c c2 _ hrun]
      exact fwd c2 _ fs2 hinv2 hGU (hneed.mono (by omega))

/-- ANY OBJECT START, ANY FRAME -/
theorem objStart_step : ∀ (n : Nat) (F : Frame) (fs : List Frame) (c : Ctx) (l : Int) (bt : Nat),
    Inv tbl R D base (F :: fs) c → F.hasU → NeedLe tbl F n → StartOut tbl R D base bt (onObjectStart n l bt c) := by
  intro n
  induction n with
  | zero => intro F fs c l bt _ _ hn; have := hn.pos; omega
  | succ n ih =>
    intro F fs c l bt h hU hn
    have hcur := h.cur hU
    have sink : ∀ k : PK,
        ((∃ t p, F = .prim k t p) ∨ (∃ t p i, F = .arr k t p i) ∨ (∃ t p key, F = .mapV k t p key)) →
        F.cur = .prim k ∨ F.cur = .arr k ∨ F.cur = .mapVal k →
        StartOut tbl R D base bt (onObjectStart (n + 1) l bt c) := by
      intro k hF hc
      by_cases hk : k = .ifc
      · have hs := Frame.isSinkF_of k hk hF
        cases hbk : btKind bt with
        | none =>
          exact Or.inr (Or.inl ⟨c, objStart_invalid n l bt c (hs.cur h) hbk, (btKind_none_iff bt).mp hbk⟩)
        | some k' =>
          obtain ⟨c', h1, h2⟩ := objStart_sinkF hs n l bt k' hbk h
          exact Or.inr (Or.inr ⟨c', _, h1, h2, ⟨trivial, fun h => h.elim⟩⟩)
      · have : F.cur.noObjStart := by rcases hc with hc | hc | hc <;> rw [hc] <;> exact hk
        obtain ⟨e, he⟩ := objStart_errU n l bt c _ hcur this
        exact Or.inl ⟨e, c, he⟩
    have fwd : ∀ (c2 : Ctx) (G : Frame) (fs2 : List Frame), Inv tbl R D base (G :: fs2) c2 → G.hasU → NeedLe tbl G n →
        StartOut tbl R D base bt (onObjectStart n l bt c2) := fun c2 G fs2 h2 hG hn2 => ih G fs2 c2 l bt h2 hG hn2
    have ign : F.isIgn → ∀ G : Frame, G.isIgn → (∀ t p, G ≠ .ign t p) → G.live = F.live → G.cur = .ignoreObj →
        StartOut tbl R D base bt (onObjectStart (n + 1) l bt c) := by
      intro hF G hG hGi hGl hGc
      have hc : inIgn c.unfolder.current ∨ c.unfolder.current = .ignore := by
        rw [hcur]
        cases F <;> first | exact hF.elim | exact Or.inr rfl | exact Or.inl (Or.inl rfl) | exact Or.inl (Or.inr rfl)
      refine Or.inr (Or.inr ⟨_, G :: F :: fs, objStart_ign n l bt c hc, ?_, ?_⟩)
      · have := push_ign hF G hG hGi hGl h
        rw [hGc] at this
        exact this
      · exact ⟨by cases G <;> first | trivial | exact hG.elim, fun hp => by
          cases G <;> first | exact hG.elim | exact hp.elim | exact absurd rfl (hGi _ _)⟩
    cases F with
    | sub a bt' sl k => exact hU.elim
    | cellx e C => exact hU.elim
    | prim k t p => exact sink k (Or.inl ⟨t, p, rfl⟩) (Or.inl rfl)
    | arr k t p i => exact sink k (Or.inr (Or.inl ⟨t, p, i, rfl⟩)) (Or.inr (Or.inl rfl))
    | mapV k t p key => exact sink k (Or.inr (Or.inr ⟨t, p, key, rfl⟩)) (Or.inr (Or.inr rfl))
    | mapS k t p =>
      obtain ⟨c', h1, h2⟩ := objStart_mapS k t p n l bt h
      exact Or.inr (Or.inr ⟨c', _, h1, h2, ⟨trivial, fun h => h.elim⟩⟩)
    | rmS e ru t p =>
      obtain ⟨c', h1, h2⟩ := objStart_rmS e ru t p n l bt h
      exact Or.inr (Or.inr ⟨c', _, h1, h2, ⟨trivial, fun h => h.elim⟩⟩)
    | stS fields t p =>
      obtain ⟨c', h1, h2⟩ := objStart_stS fields t p n l bt h
      exact Or.inr (Or.inr ⟨c', _, h1, h2, ⟨trivial, fun h => h.elim⟩⟩)
    | arrS k t p => obtain ⟨e, he⟩ := objStart_errU n l bt c _ hcur trivial; exact Or.inl ⟨e, c, he⟩
    | mapK k t p => obtain ⟨e, he⟩ := objStart_errU n l bt c _ hcur trivial; exact Or.inl ⟨e, c, he⟩
    | rslS e ru t p => obtain ⟨e, he⟩ := objStart_errU n l bt c _ hcur trivial; exact Or.inl ⟨e, c, he⟩
    | rmK e ru t p => obtain ⟨e, he⟩ := objStart_errU n l bt c _ hcur trivial; exact Or.inl ⟨e, c, he⟩
    | st fields t p => obtain ⟨e, he⟩ := objStart_err_st n l bt c fields hcur; exact Or.inl ⟨e, c, he⟩
    | ign t p => exact ign trivial (.ignO t p) trivial (fun _ _ h => by cases h) rfl rfl
    | ignA t p => exact ign trivial (.ignO t p) trivial (fun _ _ h => by cases h) rfl rfl
    | ignO t p => exact ign trivial (.ignO t p) trivial (fun _ _ h => by cases h) rfl rfl
    | rsl e ru t p i =>
      obtain ⟨d, hpd, hd⟩ := hn
      obtain ⟨G, c2, fs2, hrun, hinv2, hGU, hneed⟩ := (forward_frames h).1 e ru t p i d rfl hpd
      rw [onObjectStart_rsl n l bt c e ru hcur, bind_assoc3, bind_ok _ _ c c2 _ hrun]
      exact fwd c2 _ fs2 hinv2 hGU (hneed.mono (by omega))
    | rmE e ru t p key =>
      obtain ⟨d, hpd, hd⟩ := hn
      obtain ⟨G, c2, fs2, hrun, hinv2, hGU, hneed⟩ := (forward_frames h).2 e ru d (Or.inl ⟨t, p, key, rfl⟩) hpd
      rw [onObjectStart_rmE n l bt c e ru hcur, bind_assoc3, bind_ok _ _ c c2 _ hrun]
      exact fwd c2 _ fs2 hinv2 hGU (hneed.mono (by omega))
    | rp e ru t p =>
      obtain ⟨d, hpd, hd⟩ := hn
      obtain ⟨G, c2, fs2, hrun, hinv2, hGU, hneed⟩ := (forward_frames h).2 e ru d (Or.inr ⟨t, p, rfl⟩) hpd
      rw [onObjectStart_rp n l bt c e ru hcur, bind_assoc3, bind_ok _ _ c c2 _ hrun]
      exact fwd c2 _ fs2 hinv2 hGU (hneed.mono (by omega))

end SF.Unf.Str
