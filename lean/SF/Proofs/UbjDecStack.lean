/-
  UBJSON parser mirror (SF/Ubjson/Parse.lean): three facts about the state stack.

  * `execStep_keepsOpen` — the converse direction of `execStep_di` (UbjProgDone.lean): a step
    that neither fails nor reports `done` does not empty a non-empty state stack.
  * `finalize_open` — at the end of the input (nothing pending) an open value is an error.
  * `execStep_bottom` — from the bottom of the stack a successful step that is not `done`
    either opens a value or skipped one no-op byte.

  The case analysis over the step functions follows UbjProgDone.lean / UbjProgCons.lean.
-/
import SF.Proofs.UbjProgFeed
namespace SF.Ubjson.Parse
open SF SF.Ubjson
open StateType StateStep

/-! ## the state stack of a step result -/

/-- the state stack of `q` is non-empty if that of `p` is -/
def Ge (p q : P) : Prop := p.state.stack ≠ [] → q.state.stack ≠ []

/-- `r` keeps a non-empty stack of `p` non-empty, whatever it reports (no pop) -/
def Keeps (p : P) (r : R) : Prop := Ge p r.p

/-- `r` keeps a non-empty stack of `p` non-empty unless it reports done or fails -/
def KeepsOpen (p : P) (r : R) : Prop :=
  r.err = none → r.done = false → p.state.stack ≠ [] → r.p.state.stack ≠ []

theorem Ge.refl (p : P) : Ge p p := id

theorem Ge.of_eq {p q : P} (h : q.state.stack = p.state.stack) : Ge p q := by
  intro h0; rw [h]; exact h0

theorem Ge.trans {p q r : P} (h1 : Ge p q) (h2 : Ge q r) : Ge p r := fun h => h2 (h1 h)

/-- a push never empties the stack -/
theorem Ge.push (p : P) (s : St) : Ge p (pushState p s) := by
  intro h0
  simp only [pushState, StateStack.push]
  split
  · simp
  · exact h0

theorem Keeps.from {p0 p : P} {r : R} (hr : Keeps p r) (h : Ge p0 p) : Keeps p0 r := Ge.trans h hr

theorem KeepsOpen.from {p0 p : P} {r : R} (hr : KeepsOpen p r) (h : Ge p0 p) : KeepsOpen p0 r :=
  fun he hd h0 => hr he hd (h h0)

theorem KeepsOpen.of_keeps {p : P} {r : R} (h : Keeps p r) : KeepsOpen p r := fun _ _ => h

theorem KeepsOpen.setFalse {p : P} {r : R} (h : Keeps p r) : KeepsOpen p { r with done := false } :=
  fun _ _ => h

theorem KeepsOpen.err {p : P} {r : R} {e : Err} (h : r.err = some e) : KeepsOpen p r := by
  intro he; rw [h] at he; cases he

theorem KeepsOpen.done {p : P} {r : R} (h : r.done = true) : KeepsOpen p r := by
  intro _ hd; rw [h] at hd; cases hd

/-- the only place the stack shrinks: `done` is "the popped stack is empty" -/
theorem ko_popState (p0 p : P) (b : Bytes) :
    KeepsOpen p0 (let (q, d) := popState p; ({ p := q, rest := b, done := d } : R)) := by
  intro _ hd _
  simpa [popState] using hd

theorem ko_popLenState (p0 p : P) (b : Bytes) :
    KeepsOpen p0 (let (q, d) := popLenState p; ({ p := q, rest := b, done := d } : R)) := by
  intro _ hd _
  simpa [popLenState, popState] using hd

/-! ### stepValue, stepLen: no pop -/

theorem stepValue_keeps (p : P) (b : Bytes) : Keeps p (stepValue p b) := by
  unfold stepValue
  cases b with
  | nil => exact Ge.refl p
  | cons x bs =>
    simp only []
    split
    · exact Ge.refl p
    · split
      · simp only [visit_eq]; exact Ge.of_eq rfl
      · exact Ge.refl p
      · simp only [visit_eq]; exact Ge.of_eq rfl
      · simp only [visit_eq]; exact Ge.of_eq rfl
      · exact Ge.push p _

theorem lenFin_keeps (cont : St) (p : P) (b : Bytes) (L : Int) : Keeps p (lenFin cont p b L) := by
  unfold lenFin
  split
  · exact Ge.refl p
  · exact Ge.of_eq rfl

theorem lenColl_keeps (cont : St) (p : P) (b : Bytes) (n : Nat) (rd : Bytes → Int) :
    Keeps p (match collectP p b n with
      | (p, rest, none) => ({ p := p, rest := rest } : R)
      | (p, rest, some tmp) => lenFin cont p rest (rd tmp)) := by
  rcases h : collectP p b n with ⟨q, rest, tmp⟩
  have hq : q = (collectP p b n).1 := by rw [h]
  have hqs : Ge p q := by rw [hq]; exact Ge.of_eq rfl
  cases tmp with
  | none => exact hqs
  | some t => exact (lenFin_keeps cont q rest _).from hqs

theorem lenValue_keeps (cont : St) (p : P) (b : Bytes) : Keeps p (lenValue cont p b) := by
  unfold lenValue
  simp only []
  split
  · split
    · exact Ge.refl p
    · exact lenFin_keeps _ _ _ _
  split
  · split
    · exact Ge.refl p
    · exact lenFin_keeps _ _ _ _
  split
  · exact lenColl_keeps _ _ _ _ _
  split
  · exact lenColl_keeps _ _ _ _ _
  split
  · exact lenColl_keeps _ _ _ _ _
  exact Ge.refl p

theorem stepLen_keeps (p : P) (b : Bytes) (cont : St) : Keeps p (stepLen p b cont) := by
  rw [stepLen_eq]
  split
  · split
    · exact Ge.refl p
    · simp only []
      split
      · split
        · exact Ge.of_eq rfl
        · exact (lenValue_keeps cont _ _).from (Ge.of_eq rfl)
      · exact Ge.refl p
  · exact lenValue_keeps cont p b

/-! ### stepFixedValue -/

theorem fixFin_ko (p : P) (b : Bytes) (done : Bool) (err : Option Err) : KeepsOpen p (fixFin p b done err) := by
  unfold fixFin
  split
  · exact ko_popState p p b
  · exact KeepsOpen.of_keeps (Ge.refl p)

theorem fixNow_ko (p : P) (b : Bytes) (e : Ev) :
    KeepsOpen p (let (q, err) := visit p e; fixFin q b true err) := by
  simp only [visit_eq]
  exact (fixFin_ko _ _ _ _).from (Ge.of_eq rfl)

theorem fixColl_ko (p : P) (b : Bytes) (n : Nat) (mk : Bytes → Ev) :
    KeepsOpen p (match collectP p b n with
      | (p, rest, none) => fixFin p rest false none
      | (p, rest, some tmp) => let (p, err) := visit p (mk tmp); fixFin p rest true err) := by
  rcases h : collectP p b n with ⟨q, rest, tmp⟩
  have hq : q = (collectP p b n).1 := by rw [h]
  have hqs : Ge p q := by rw [hq]; exact Ge.of_eq rfl
  cases tmp with
  | none => exact (fixFin_ko _ _ _ _).from hqs
  | some t => exact (fixNow_ko q rest _).from hqs

theorem stepFixedValue_ko (p : P) (b : Bytes) : KeepsOpen p (stepFixedValue p b) := by
  rw [stepFixedValue_eq]
  split
  · exact fixNow_ko _ _ _
  · exact fixFin_ko _ _ _ _
  · exact fixNow_ko _ _ _
  · exact fixNow_ko _ _ _
  · cases b with
    | nil => exact KeepsOpen.err rfl
    | cons b0 bs => exact fixNow_ko _ _ _
  · cases b with
    | nil => exact KeepsOpen.err rfl
    | cons b0 bs => exact fixNow_ko _ _ _
  · exact fixColl_ko _ _ _ _
  · exact fixColl_ko _ _ _ _
  · exact fixColl_ko _ _ _ _
  · exact fixColl_ko _ _ _ _
  · exact fixColl_ko _ _ _ _
  · exact fixColl_ko _ _ _ _
  · exact KeepsOpen.of_keeps (Ge.refl p)

/-! ### stepString -/

theorem strFin_ko (p : P) (b : Bytes) (done : Bool) (err : Option Err) : KeepsOpen p (strFin p b done err) := by
  unfold strFin
  split
  · exact ko_popLenState p p b
  · exact KeepsOpen.of_keeps (Ge.refl p)

theorem strWithLen_ko (p : P) (b : Bytes) : KeepsOpen p (strWithLen p b) := by
  unfold strWithLen
  simp only []
  split
  · simp only [visit_eq]; exact (strFin_ko _ _ _ _).from (Ge.of_eq rfl)
  · split
    · exact KeepsOpen.err rfl
    · rcases h : collectP p b p.length.current.toNat with ⟨q, rest, tmp⟩
      have hq : q = (collectP p b p.length.current.toNat).1 := by rw [h]
      have hqs : Ge p q := by rw [hq]; exact Ge.of_eq rfl
      cases tmp with
      | none => exact (strFin_ko _ _ _ _).from hqs
      | some t => simp only [visit_eq]; exact (strFin_ko _ _ _ _).from (Ge.trans hqs (Ge.of_eq rfl))

theorem stepString_ko (p : P) (b : Bytes) : KeepsOpen p (stepString p b) := by
  rw [stepString_eq]
  split
  · simp only []
    split
    · exact (strFin_ko _ _ _ _).from (stepLen_keeps p b _)
    · exact (strWithLen_ko _ _).from (stepLen_keeps p b _)
  · exact strWithLen_ko _ _
  · exact strFin_ko _ _ _ _

/-! ### arrays -/

theorem stepArrayInit_keeps (p : P) (b : Bytes) : Keeps p (stepArrayInit p b) := by
  unfold stepArrayInit
  cases b with
  | nil => exact Ge.refl p
  | cons x bs =>
    simp only []
    split
    · exact Ge.of_eq rfl
    split
    · exact Ge.of_eq rfl
    · simp only [visit_eq]; exact Ge.of_eq rfl

theorem stepArrayDyn_ko (p : P) (b : Bytes) : KeepsOpen p (stepArrayDyn p b) := by
  unfold stepArrayDyn
  cases b with
  | nil => exact KeepsOpen.err rfl
  | cons x bs =>
    simp only []
    split
    · simp only [visit_eq]
      verr_split p
      · exact ko_popState _ _ _
      · exact KeepsOpen.err rfl
    · refine KeepsOpen.setFalse ?_
      split
      · exact (stepValue_keeps (setStep p stCont) (x :: bs)).from (Ge.of_eq rfl)
      · exact stepValue_keeps p (x :: bs)

theorem acContent_ko (l : Int) (b : Bytes) (p : P) : KeepsOpen p (acContent l b p) := by
  unfold acContent
  split
  · simp only [visit_eq]
    verr_split p
    · exact ko_popLenState _ _ _
    · exact KeepsOpen.err rfl
  · cases b with
    | nil => exact KeepsOpen.err rfl
    | cons x bs =>
      simp only []
      split
      · exact KeepsOpen.of_keeps (Ge.refl p)
      · exact KeepsOpen.setFalse ((stepValue_keeps (decLen p) (x :: bs)).from (Ge.of_eq rfl))

theorem stepArrayCount_ko (p : P) (b : Bytes) : KeepsOpen p (stepArrayCount p b) := by
  rw [stepArrayCount_eq]
  split
  · exact KeepsOpen.setFalse (stepLen_keeps p b _)
  · split
    · simp only [visit_eq]
      split
      · exact KeepsOpen.of_keeps (Ge.of_eq rfl)
      · exact (acContent_ko _ _ _).from (Ge.of_eq rfl)
    · exact acContent_ko _ _ _

theorem stepType_keeps (p : P) (b : Bytes) (cont : St) : Keeps p (stepType p b cont) := by
  unfold stepType
  cases b with
  | nil => exact Ge.refl p
  | cons x bs =>
    simp only []
    split
    · exact Ge.of_eq rfl
    · split
      · exact Ge.of_eq rfl
      · exact Ge.of_eq rfl

theorem stepTypeLenHeader_keeps (p : P) (b : Bytes) (cont : StateStep) :
    Keeps p (stepTypeLenHeader p b cont) := by
  unfold stepTypeLenHeader
  simp only []
  split
  · exact stepType_keeps _ _ _
  · cases b with
    | nil => exact Ge.refl p
    | cons x bs =>
      simp only []
      split
      · exact Ge.refl p
      · exact Ge.of_eq rfl
  · exact stepLen_keeps _ _ _
  · exact Ge.refl p

theorem atContent_ko (l : Int) (b : Bytes) (p : P) : KeepsOpen p (atContent l b p) := by
  unfold atContent
  split
  · simp only [visit_eq]
    verr_split p
    · exact ko_popLenState _ _ _
    · exact KeepsOpen.err rfl
  · exact KeepsOpen.of_keeps (Ge.trans (Ge.of_eq rfl) (Ge.push (decLen p) _))

theorem stepArrayTyped_ko (p : P) (b : Bytes) : KeepsOpen p (stepArrayTyped p b) := by
  rw [stepArrayTyped_eq]
  split
  · exact KeepsOpen.setFalse (stepTypeLenHeader_keeps p b _)
  · split
    · simp only [visit_eq]
      verr_split (setStep p stCont)
      · exact (atContent_ko _ _ _).from (Ge.of_eq rfl)
      · exact KeepsOpen.err rfl
    · exact atContent_ko _ _ _

/-! ### objects -/

theorem stepObjectInit_keeps (p : P) (b : Bytes) : Keeps p (stepObjectInit p b) := by
  unfold stepObjectInit
  cases b with
  | nil => exact Ge.refl p
  | cons x bs =>
    simp only []
    split
    · exact Ge.of_eq rfl
    split
    · exact Ge.of_eq rfl
    · simp only [visit_eq]; exact Ge.of_eq rfl

theorem fieldName_keeps (p : P) (b : Bytes) : Keeps p (fieldName p b) := by
  unfold fieldName
  simp only []
  split
  · exact Ge.refl p
  · rcases h : collectP p b p.length.current.toNat with ⟨q, rest, tmp⟩
    have hq : q = (collectP p b p.length.current.toNat).1 := by rw [h]
    have hqs : Ge p q := by rw [hq]; exact Ge.of_eq rfl
    cases tmp with
    | none => exact hqs
    | some t => simp only [visit_eq]; exact Ge.trans hqs (Ge.of_eq rfl)

theorem odBody_keeps (step : StateStep) (b : Bytes) (p : P) : Keeps p (odBody step b p) := by
  unfold odBody
  split
  · exact stepLen_keeps p b _
  · exact fieldName_keeps p b
  · cases b with
    | nil => exact Ge.refl p
    | cons x bs =>
      simp only []
      split
      · exact Ge.refl p
      · exact (stepValue_keeps (setStep p stStart) (x :: bs)).from (Ge.of_eq rfl)
  · exact Ge.refl p

theorem stepObjectDyn_ko (p : P) (b : Bytes) : KeepsOpen p (stepObjectDyn p b) := by
  rw [stepObjectDyn_eq]
  split
  · cases b with
    | nil => exact KeepsOpen.err rfl
    | cons x bs =>
      simp only []
      split
      · simp only [visit_eq]
        verr_split p
        · exact ko_popState _ _ _
        · exact KeepsOpen.err rfl
      · exact KeepsOpen.of_keeps (odBody_keeps _ _ _)
  · exact KeepsOpen.of_keeps (odBody_keeps _ _ _)

theorem ocFin_keeps (p : P) (end_ : Bool) (b : Bytes) (err : Option Err) : Keeps p (ocFin p end_ b err) := by
  unfold ocFin
  split
  · simp only [visit_eq]; exact Ge.of_eq rfl
  · exact Ge.refl p

theorem ocAtFieldName_keeps (p : P) (b : Bytes) : Keeps p (ocAtFieldName p b) := by
  unfold ocAtFieldName
  split
  · exact ocFin_keeps _ _ _ _
  · exact (ocFin_keeps _ _ _ _).from (stepLen_keeps p b _)

theorem ocValue_keeps (typed : Bool) (b : Bytes) (p : P) : Keeps p (ocValue typed b p) := by
  unfold ocValue
  simp only []
  split
  · exact (ocFin_keeps _ _ _ _).from (Ge.trans (Ge.of_eq rfl) (Ge.push (setStep (decLen p) stFieldName) _))
  · exact (ocFin_keeps _ _ _ _).from
      (Ge.trans (Ge.of_eq rfl) (stepValue_keeps (setStep (decLen p) stFieldName) b))

theorem stepObjectCountedContent_keeps (p : P) (b : Bytes) (typed : Bool) :
    Keeps p (stepObjectCountedContent p b typed) := by
  rw [stepObjectCountedContent_eq]
  split
  · simp only [visit_eq]
    verr_split p
    · split
      · exact (ocFin_keeps _ _ _ _).from (Ge.of_eq rfl)
      · split
        · exact (ocFin_keeps _ _ _ _).from (Ge.of_eq rfl)
        · exact (ocAtFieldName_keeps _ _).from (Ge.of_eq rfl)
    · exact Ge.of_eq rfl
  · exact ocAtFieldName_keeps _ _
  · exact (ocFin_keeps _ _ _ _).from (fieldName_keeps p b)
  · split
    · cases b with
      | nil => exact Ge.refl p
      | cons x bs =>
        simp only []
        split
        · exact Ge.refl p
        · exact ocValue_keeps _ _ _
    · exact ocValue_keeps _ _ _
  · exact ocFin_keeps _ _ _ _

theorem stepObjectCount_ko (p : P) (b : Bytes) : KeepsOpen p (stepObjectCount p b) := by
  unfold stepObjectCount
  split
  · exact KeepsOpen.setFalse (stepLen_keeps p b _)
  · simp only []
    split
    · exact ko_popLenState _ _ _
    · exact KeepsOpen.of_keeps (stepObjectCountedContent_keeps p b false)

theorem stepObjectTyped_ko (p : P) (b : Bytes) : KeepsOpen p (stepObjectTyped p b) := by
  unfold stepObjectTyped
  simp only []
  split
  · exact KeepsOpen.setFalse (stepTypeLenHeader_keeps p b _)
  · split
    · exact ko_popLenState _ _ _
    · exact KeepsOpen.of_keeps (stepObjectCountedContent_keeps p b true)

/-! ### execStep -/

theorem dispatch_ko (p : P) (b : Bytes) : KeepsOpen p (dispatch p b) := by
  unfold dispatch
  split
  · exact KeepsOpen.of_keeps (Ge.refl p)
  · exact KeepsOpen.of_keeps (stepValue_keeps _ _)
  · exact stepFixedValue_ko _ _
  · exact stepString_ko _ _
  · exact stepString_ko _ _
  · exact KeepsOpen.of_keeps (stepArrayInit_keeps _ _)
  · exact stepArrayDyn_ko _ _
  · exact stepArrayCount_ko _ _
  · exact stepArrayTyped_ko _ _
  · exact KeepsOpen.of_keeps (stepObjectInit_keeps _ _)
  · exact stepObjectDyn_ko _ _
  · exact stepObjectCount_ko _ _
  · exact stepObjectTyped_ko _ _

/-- LEMMA 1 (the converse direction of `execStep_di`): a step that neither fails nor reports
`done` does not empty a non-empty state stack.  No invariant is needed. -/
theorem execStep_keepsOpen (p : P) (b : Bytes) : KeepsOpen p (execStep p b) := by
  have := dispatch_ko p b
  rw [execStep_eq]
  cases he : (dispatch p b).err with
  | none => simp only []; exact this
  | some e => simp only []; exact KeepsOpen.err he

/-- the same, unfolded -/
theorem execStep_keepsOpen' (p : P) (b : Bytes) (he : (execStep p b).err = none)
    (hd : (execStep p b).done = false) (hs : p.state.stack ≠ []) : (execStep p b).p.state.stack ≠ [] :=
  execStep_keepsOpen p b he hd hs

/-- non-vacuity: inside `[` (dynamic array, one level above the bottom) the byte `[` opens a
nested array: no error, not done, the stack grows from 1 to 2 -/
example :
    let p : P := { state := { stack := [⟨stNext, stStart⟩], current := ⟨stArrayDyn, stCont⟩ } }
    (execStep p [arrStartMarker]).err = none ∧ (execStep p [arrStartMarker]).done = false ∧
      p.state.stack ≠ [] ∧ (execStep p [arrStartMarker]).p.state.stack.length = 2 := by
  decide +kernel

/-- non-vacuity, a pop: two levels deep, the payload byte of an `i` value completes it; the
stack shrinks from 2 to 1 (the step is not `done`), and the lemma applies -/
example :
    let p : P := { state := { stack := [⟨stArrayDyn, stCont⟩, ⟨stNext, stStart⟩], current := ⟨stFixed, stInt8⟩ } }
    (execStep p [5]).err = none ∧ (execStep p [5]).done = false ∧
      p.state.stack.length = 2 ∧ (execStep p [5]).p.state.stack.length = 1 := by
  decide +kernel

example :
    (execStep { state := { stack := [⟨stArrayDyn, stCont⟩, ⟨stNext, stStart⟩], current := ⟨stFixed, stInt8⟩ } }
      [5]).p.state.stack ≠ [] :=
  execStep_keepsOpen _ _ (by decide +kernel) (by decide +kernel) (by decide +kernel)

/-! ## LEMMA 2: at the end of the input an open value is an error -/

theorem finalizeLoop_open (n : Nat) (p : P) (hp : pending p = false) (hs : p.state.stack ≠ []) :
    (finalizeLoop (n + 1) p).2 = some .incomplete ∨ (finalizeLoop (n + 1) p).2 = some .missingArrEnd
      ∨ (finalizeLoop (n + 1) p).2 = some .missingObjEnd := by
  have hne : p.state.stack.isEmpty = false := by
    cases h : p.state.stack with
    | nil => exact absurd h hs
    | cons a l => rfl
  simp only [finalizeLoop, hne, Bool.false_eq_true, if_false]
  split
  · rename_i ht
    split
    · exact Or.inr (Or.inl rfl)
    · rename_i hc
      simp only [pending, ht] at hp
      simp_all
  · rename_i ht
    split
    · exact Or.inr (Or.inl rfl)
    · rename_i hc
      simp only [pending, ht] at hp
      simp_all
  · rename_i ht
    split
    · exact Or.inr (Or.inr rfl)
    · rename_i hc
      simp only [pending, ht] at hp
      simp_all
  · rename_i ht
    split
    · exact Or.inr (Or.inr rfl)
    · rename_i hc
      simp only [pending, ht] at hp
      simp_all
  · exact Or.inl rfl

/-- LEMMA 2: with nothing pending, `finalize` on a non-empty state stack fails, with one of
the three "input ended inside a value" errors -/
theorem finalize_open (p : P) (hp : pending p = false) (hs : p.state.stack ≠ []) :
    (finalize p).2 = some .incomplete ∨ (finalize p).2 = some .missingArrEnd ∨ (finalize p).2 = some .missingObjEnd := by
  obtain ⟨n, hn⟩ : ∃ n, p.state.stack.length = n + 1 := by
    cases h : p.state.stack with
    | nil => exact absurd h hs
    | cons a l => exact ⟨l.length, by simp⟩
  have := finalizeLoop_open n p hp hs
  unfold finalize
  rw [hn]
  rcases h : finalizeLoop (n + 1) p with ⟨q, e⟩
  rw [h] at this
  simp only at this
  rcases this with h1 | h1 | h1 <;> subst h1 <;> simp

/-- non-vacuity: input ended inside `[` → incomplete; inside `[#U\x02` with both elements
outstanding → missingArrEnd; inside `{#U\x01` before the field name → missingObjEnd -/
example :
    let p : P := { state := { stack := [⟨stNext, stStart⟩], current := ⟨stArrayDyn, stCont⟩ } }
    pending p = false ∧ p.state.stack ≠ [] ∧ (finalize p).2 = some .incomplete := by
  decide +kernel

example :
    let p : P := { state := { stack := [⟨stNext, stStart⟩], current := ⟨stArrayCount, stCont⟩ },
                   length := { stack := [0], current := 2 } }
    pending p = false ∧ p.state.stack ≠ [] ∧ (finalize p).2 = some .missingArrEnd := by
  decide +kernel

example :
    let p : P := { state := { stack := [⟨stNext, stStart⟩], current := ⟨stObjectCount, stFieldName⟩ },
                   length := { stack := [0], current := 1 } }
    pending p = false ∧ p.state.stack ≠ [] ∧ (finalize p).2 = some .missingObjEnd := by
  decide +kernel

/-! ## LEMMA 3: a step from the bottom of the stack -/

theorem noop_of_start {m : UInt8} {s : St} (h : markerToStartState m = some s) (hn : s.step = stNoop) :
    m = noopMarker := by
  have := noop_start ⟨m.toNat, m.toNat_lt⟩
  simp only [UInt8.ofNat_toNat] at this
  rw [h] at this
  simp only [Option.all_some, Bool.or_eq_true, bne_iff_ne, ne_eq, beq_iff_eq] at this
  rcases this with h1 | h1
  · exact absurd hn h1
  · exact h1

/-- `stepValue` from a state that is not `stFail`: without error and `done` it pushed a state
or skipped a no-op byte -/
theorem stepValue_bottom (p : P) (b : Bytes) (ht : p.state.current.type ≠ stFail)
    (he : (stepValue p b).err = none) (hd : (stepValue p b).done = false) :
    (stepValue p b).p.state.stack ≠ [] ∨ (∃ bs, b = noopMarker :: bs ∧ stepValue p b = { p := p, rest := bs }) := by
  cases b with
  | nil => simp [stepValue, panicR] at he
  | cons x bs =>
    cases hm : markerToStartState x with
    | none => simp [stepValue, hm] at he
    | some s =>
      obtain ⟨ty, st⟩ := s
      cases st
      case stNoop =>
        have hx := noop_of_start hm rfl
        subst hx
        exact Or.inr ⟨bs, rfl, by simp only [stepValue, hm]⟩
      case stNil => simp [stepValue, hm, visit_eq] at hd
      case stTrue => simp [stepValue, hm, visit_eq] at hd
      case stFalse => simp [stepValue, hm, visit_eq] at hd
      all_goals
        left
        simp [stepValue, hm, advanceMarker, pushState, StateStack.push, ht]

/-- LEMMA 3: from the bottom of the stack, a successful step that is not `done` either opens
a value or skipped one no-op byte.  (`hs` is not needed for the proof: the disjunction only
speaks about the stack after the step.) -/
theorem execStep_bottom (p : P) (b : Bytes) (ht : p.state.current.type = stNext) (_hs : p.state.stack = [])
    (he : (execStep p b).err = none) (hd : (execStep p b).done = false) :
    (execStep p b).p.state.stack ≠ [] ∨ (∃ bs, b = noopMarker :: bs ∧ execStep p b = { p := p, rest := bs }) := by
  have hdis : dispatch p b = stepValue p b := by simp [dispatch, ht]
  rw [execStep_eq, hdis] at he hd ⊢
  cases hsv : (stepValue p b).err with
  | some e => simp only [hsv] at he; cases he
  | none =>
    simp only [hsv] at hd ⊢
    exact stepValue_bottom p b (by rw [ht]; decide) hsv hd

/-- non-vacuity: from the initial state `[` opens a value … -/
example : (execStep {} [arrStartMarker]).p.state.stack ≠ [] := by
  have := execStep_bottom {} [arrStartMarker] (by decide +kernel) (by decide +kernel) (by decide +kernel)
    (by decide +kernel)
  rcases this with h | ⟨bs, h, _⟩
  · exact h
  · injection h with h1 _
    exact absurd h1 (by decide)

/-- … and `N` is skipped: the hypotheses hold and the stack stays empty, so the second
alternative is really needed -/
example :
    ({} : P).state.current.type = stNext ∧ ({} : P).state.stack = [] ∧
      (execStep {} [noopMarker, nullMarker]).err = none ∧ (execStep {} [noopMarker, nullMarker]).done = false ∧
      (execStep {} [noopMarker, nullMarker]).p.state.stack = [] ∧
      (execStep {} [noopMarker, nullMarker]).p = {} ∧ (execStep {} [noopMarker, nullMarker]).rest = [nullMarker] := by
  decide +kernel

end SF.Ubjson.Parse
