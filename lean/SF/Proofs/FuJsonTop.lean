/-
  C11, JSON path (Fold → JSON encoder → bytes → JSON parser → Unfolder), composed statement for the
  FLOAT-FREE scalar kinds, in the vocabulary of the op `fu` (SF/Ops/Fu.lean), branch `path == "json"`:

      Fu.model t v "json" =
        match Tr.trType t with | some ut =>
        match setTarget fuTable ut (zero fuTable ut) newUnfolder with | .ok c0 =>
        let o := Fold.impl {folders := true} t v
        match (Json.encModel "" (-1) o.evs).splitOn "|" with    -- = Json.Enc.run (visitorOf "") o.evs, printed
        | [h, r, _, _] => if r != "ok" then "-|err:fold" else if o.res != .ok then … else
          let bytes := ofHex h
          let (evs, pv) := Json.parseEvents (if bytes.isEmpty then [] else [bytes])
                                      -- = Parse.writeChunks {} [bytes]: ONE Write, then end of input (`finalize`)
          match feed c0 (evs.map fun e => [evToUEv e]) with
          | (c, none) => if pv == "ok" then printFu c.target ++ "|ok" else "-|err:parse"

  (the hex printing / `splitOn` / `ofHex` are String functions the kernel does not evaluate; the
  theorems speak about the structural composition they print and re-read.)  The encoder `e` is ANY
  json.Visitor with a fresh writer at top level (`e.w = {}`, `e.inArray.current = false`) — every
  setting of escapeHTML / explicitRadixPoint / ignoreInvalidFloat; the one `Fu.model` uses is `fuEnc`.

  Each theorem says, for EVERY Go value `v` of the type:
    (a) `Tr.trType T = some ut`, (b) the fresh zero target is accepted (`c0`), (c) the fold succeeds,
    (d) the ENCODER accepts the event: `Enc.run e (impl o T v).evs = (s, none, .ok)`; the bytes `s.w.out`
        are given explicitly (the decimal literal / `true` `false` / the string token) and are not empty,
    (e) the PARSER accepts these bytes — one `Write`, then end of input; a top-level NUMBER is only
        complete at the end of input, `finalize` reports it — and is IDLE again (`IdleJ`: empty state
        stack, start state, no error), `Json.parseEvents` answers "ok", and the ONE event delivered is
        given explicitly: an integer arrives as `OnInt64`, above MaxInt64 as `OnUint64` (`jk`),
    (f) the UNFOLDER accepts it (`feed … = (c1, none)`),
    (g) `c1.target` explicitly — integers exact at every width incl. uint64 MaxUint64 and int64 MinInt64
        (`trPrim`); a string with every byte outside a well-formed UTF-8 sequence replaced by U+FFFD
        (`sanitize`), hence EXACTLY the string when it is valid UTF-8 —, `c1` is the fresh Unfolder again,
    (h) `agreeF "json" 1000 T v (back c1.target) = true` (for strings `agreeF "json"` compares modulo the
        oracle's own `fixUtf8`; `fixU_sanitize` proves it is `sanitize`).
  No side condition is needed: no corner of the float-free scalars fails.
-/
import SF.Proofs.FuJsonRun
import SF.Proofs.FuCborAgree
namespace SF.Props.FuJson
open SF SF.Gotype SF.Gotype.Fold SF.FoldProofs SF.FuId SF.FuJson
open SF.Json
open SF.Json.Enc (intLit strToken sanitize validUtf8)
open SF.Unf (Ctx newUnfolder setTarget)
open SF.Ops.Unf (evToUEv)
open SF.Ops.Fu (feed agreeF)

/-- the json.Visitor `Fu.model` folds into (`encModel "" (-1)`: no option set, so escapeHTML off) -/
def fuEnc : Enc.Enc := { escapeHTML := false }

theorem fuEnc_fresh : fuEnc.w = {} ∧ fuEnc.inArray.current = false := ⟨rfl, rfl⟩

/-- it is the visitor `Json.encModel "" (-1)` builds (`visitorOf ""`, never-failing writer) -/
theorem fuEnc_eq : SF.Ops.Json.visitorOf "" = fuEnc := rfl

/-- STAGE 1 — every integer kind `k` (int8 … int64, int, uint8 … uint64, uint, byte), every value of it
(`hasPrim (.num k) v`: `v = .int x` with `x` in the range of `k`). -/
theorem fold_json_unfold_int (o : FoldOpts) (hfail : o.failAt = none) (e : Enc.Enc) (hw : e.w = {})
    (ha : e.inArray.current = false) (k : NumKind) (v : GoVal) (hv : hasPrim (.num k) v = true) :
    ∃ ut c0 c1 s pr,
      Unf.Tr.trType (.int k) = some ut ∧
      setTarget Unf.Tr.fuTable ut (Unf.zero Unf.Tr.fuTable ut) newUnfolder = .ok c0 ∧
      (impl o (.int k) v).res = .ok ∧
      Enc.run e (impl o (.int k) v).evs = (s, none, .ok) ∧ s.w.out = intLit (getI v) ∧ s.w.out ≠ [] ∧
      Parse.writeChunks {} [s.w.out] = (pr, none) ∧ IdleJ pr ∧
      SF.Ops.Json.parseEvents [s.w.out] = (Parse.events pr, "ok") ∧
      Parse.events pr = [.num (jk (getI v)) (getI v)] ∧
      feed c0 ((Parse.events pr).map fun e => [evToUEv e]) = (c1, none) ∧
      c1.target = trPrim (.num k) v ∧
      c1 = { newUnfolder with target := trPrim (.num k) v, env := Unf.Tr.fuTable } ∧
      back c1.target = v ∧
      agreeF "json" 1000 (.int k) v (back c1.target) = true := by
  obtain ⟨c0, s, pr, h1, h2, h3, h4, h5, h6, h7, h8, h9⟩ := scalar_json_run o hfail e hw ha (.num k) v hv rfl
  exact ⟨_, c0, _, s, pr, trType_primTy (.num k), h2, h1, h3, h4, h5, h6, h7, parseEvents_of h6, h8, h9, rfl, rfl,
    back_trPrim (.num k) v hv, agree_json 999 (.num k) v hv rfl⟩

/-- STAGE 2a — bool -/
theorem fold_json_unfold_bool (o : FoldOpts) (hfail : o.failAt = none) (e : Enc.Enc) (hw : e.w = {})
    (ha : e.inArray.current = false) (v : GoVal) (hv : hasPrim .bool v = true) :
    ∃ ut c0 c1 s pr,
      Unf.Tr.trType .bool = some ut ∧
      setTarget Unf.Tr.fuTable ut (Unf.zero Unf.Tr.fuTable ut) newUnfolder = .ok c0 ∧
      (impl o .bool v).res = .ok ∧
      Enc.run e (impl o .bool v).evs = (s, none, .ok) ∧
      s.w.out = (if getB v then [0x74, 0x72, 0x75, 0x65] else [0x66, 0x61, 0x6c, 0x73, 0x65]) ∧ s.w.out ≠ [] ∧
      Parse.writeChunks {} [s.w.out] = (pr, none) ∧ IdleJ pr ∧
      SF.Ops.Json.parseEvents [s.w.out] = (Parse.events pr, "ok") ∧
      Parse.events pr = [.bool (getB v)] ∧
      feed c0 ((Parse.events pr).map fun e => [evToUEv e]) = (c1, none) ∧
      c1.target = trPrim .bool v ∧
      c1 = { newUnfolder with target := trPrim .bool v, env := Unf.Tr.fuTable } ∧
      back c1.target = v ∧
      agreeF "json" 1000 .bool v (back c1.target) = true := by
  obtain ⟨c0, s, pr, h1, h2, h3, h4, h5, h6, h7, h8, h9⟩ := scalar_json_run o hfail e hw ha .bool v hv rfl
  refine ⟨_, c0, _, s, pr, trType_primTy .bool, h2, h1, h3, ?_, h5, h6, h7, parseEvents_of h6, h8, h9, rfl, rfl,
    back_trPrim .bool v hv, agree_json 999 .bool v hv rfl⟩
  rw [h4]
  cases v <;> simp [hasPrim] at hv
  rename_i b
  cases b <;> rfl

/-- STAGE 2b — string, ARBITRARY bytes: the target holds `sanitize s` (each byte outside a well-formed
UTF-8 sequence ↦ U+FFFD, the encoder's documented replacement); for VALID UTF-8 that is `s` itself, the
value comes back exactly.  `agreeF "json"` (which compares modulo the oracle's `fixUtf8`) holds for
every string. -/
theorem fold_json_unfold_string (o : FoldOpts) (hfail : o.failAt = none) (e : Enc.Enc) (hw : e.w = {})
    (ha : e.inArray.current = false) (v : GoVal) (hv : hasPrim .string v = true) :
    ∃ ut c0 c1 s pr,
      Unf.Tr.trType .string = some ut ∧
      setTarget Unf.Tr.fuTable ut (Unf.zero Unf.Tr.fuTable ut) newUnfolder = .ok c0 ∧
      (impl o .string v).res = .ok ∧
      Enc.run e (impl o .string v).evs = (s, none, .ok) ∧
      s.w.out = strToken e.escapeHTML (getS v) ∧ s.w.out ≠ [] ∧
      Parse.writeChunks {} [s.w.out] = (pr, none) ∧ IdleJ pr ∧
      SF.Ops.Json.parseEvents [s.w.out] = (Parse.events pr, "ok") ∧
      Parse.events pr = [.str (sanitize (getS v))] ∧
      feed c0 ((Parse.events pr).map fun e => [evToUEv e]) = (c1, none) ∧
      c1.target = .str (sanitize (getS v)) ∧
      c1 = { newUnfolder with target := .str (sanitize (getS v)), env := Unf.Tr.fuTable } ∧
      back c1.target = .str (sanitize (getS v)) ∧
      SF.Ops.Fu.fixU (getS v) = sanitize (getS v) ∧
      (validUtf8 (getS v) = true → c1.target = trPrim .string v ∧ back c1.target = v) ∧
      agreeF "json" 1000 .string v (back c1.target) = true := by
  obtain ⟨c0, s, pr, h1, h2, h3, h4, h5, h6, h7, h8, h9⟩ := scalar_json_run o hfail e hw ha .string v hv rfl
  refine ⟨_, c0, _, s, pr, trType_primTy .string, h2, h1, h3, ?_, h5, h6, h7, parseEvents_of h6, h8, h9, rfl, rfl,
    rfl, fixU_sanitize _, ?_, agree_json 999 .string v hv rfl⟩
  · rw [h4]
    exact (Enc.strRaw_spec e.escapeHTML (getS v)).1.symm
  · intro hu
    cases v <;> simp [hasPrim] at hv
    rename_i b
    have : sanitize b = b := Enc.sanitize_valid b hu
    show Unf.GoVal.str (sanitize b) = .str b ∧ GoVal.str (sanitize b) = .str b
    rw [this]
    exact ⟨rfl, rfl⟩

/-! ## non-vacuity: the pipeline of `Fu.model … "json"`, evaluated by the kernel -/

/-- the final target of the `fu` model on the JSON path (the hex printing of the bytes left out) -/
def pipe (o : FoldOpts) (T : GoType) (v : GoVal) : Option Unf.GoVal :=
  match Unf.Tr.trType T with
  | none => none
  | some ut =>
    match setTarget Unf.Tr.fuTable ut (Unf.zero Unf.Tr.fuTable ut) newUnfolder with
    | .error _ => none
    | .ok c0 =>
      match Enc.run fuEnc (impl o T v).evs with
      | (s, none, .ok) =>
        match Parse.writeChunks {} (if s.w.out.isEmpty then [] else [s.w.out]) with
        | (pr, none) =>
          match feed c0 ((Parse.events pr).map fun e => [evToUEv e]) with
          | (c1, none) => if (impl o T v).res == .ok then some c1.target else none
          | _ => none
        | _ => none
      | _ => none

/-- the bytes on the wire and the events the parser delivers on the way -/
def wire (o : FoldOpts) (T : GoType) (v : GoVal) : Bytes := (Enc.run fuEnc (impl o T v).evs).1.w.out
def wireEvents (o : FoldOpts) (T : GoType) (v : GoVal) : List Ev :=
  Parse.events (Parse.writeChunks {} [wire o T v]).1

/- stage 1: `uint64` MaxUint64 (arrives as OnUint64), `int64` MinInt64, `int8(-128)`, `int(7)`,
`uint8(255)`: bytes, event, target -/
example : hasPrim (.num .u64) (.int 18446744073709551615) = true ∧
    hasPrim (.num .i64) (.int (-9223372036854775808)) = true ∧
    wireEvents {} (.int .u64) (.int 18446744073709551615) = [.num .u64 18446744073709551615] ∧
    (match pipe {} (.int .u64) (.int 18446744073709551615) with
     | some (.int .u64 18446744073709551615) => true | _ => false) = true ∧
    wireEvents {} (.int .i64) (.int (-9223372036854775808)) = [.num .i64 (-9223372036854775808)] ∧
    (match pipe {} (.int .i64) (.int (-9223372036854775808)) with
     | some (.int .i64 (-9223372036854775808)) => true | _ => false) = true ∧
    wire {} (.int .i8) (.int (-128)) = [0x2d, 0x31, 0x32, 0x38] ∧
    wireEvents {} (.int .i8) (.int (-128)) = [.num .i64 (-128)] ∧
    (match pipe {} (.int .i8) (.int (-128)) with
     | some (.int .i8 (-128)) => true | _ => false) = true ∧
    (match pipe {} (.int .int) (.int 7) with
     | some (.int .int 7) => true | _ => false) = true ∧
    (match pipe {} (.int .u8) (.int 255) with
     | some (.int .u8 255) => true | _ => false) = true := by decide +kernel

/- stage 2a: bool -/
example : hasPrim .bool (.bool true) = true ∧
    wire {} .bool (.bool false) = [0x66, 0x61, 0x6c, 0x73, 0x65] ∧
    wireEvents {} .bool (.bool true) = [.bool true] ∧
    (match pipe {} .bool (.bool true) with | some (.bool true) => true | _ => false) = true ∧
    (match pipe {} .bool (.bool false) with | some (.bool false) => true | _ => false) = true := by decide +kernel

/- stage 2b: the valid string `a"é\n` (escapes on the wire, back exactly); the invalid bytes `a 0xFF b`
come back as `a U+FFFD b` -/
example : hasPrim .string (.str [0x61, 0x22, 0xc3, 0xa9, 0x0a]) = true ∧
    validUtf8 [0x61, 0x22, 0xc3, 0xa9, 0x0a] = true ∧
    wire {} .string (.str [0x61, 0x22, 0xc3, 0xa9, 0x0a]) = [0x22, 0x61, 0x5c, 0x22, 0xc3, 0xa9, 0x5c, 0x6e, 0x22] ∧
    (match pipe {} .string (.str [0x61, 0x22, 0xc3, 0xa9, 0x0a]) with
     | some (.str [0x61, 0x22, 0xc3, 0xa9, 0x0a]) => true | _ => false) = true ∧
    validUtf8 [0x61, 0xff, 0x62] = false ∧ sanitize [0x61, 0xff, 0x62] = [0x61, 0xef, 0xbf, 0xbd, 0x62] ∧
    (match pipe {} .string (.str [0x61, 0xff, 0x62]) with
     | some (.str [0x61, 0xef, 0xbf, 0xbd, 0x62]) => true | _ => false) = true ∧
    (match pipe {} .string (.str []) with | some (.str []) => true | _ => false) = true := by decide +kernel

end SF.Props.FuJson
