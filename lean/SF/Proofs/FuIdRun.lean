/-
  C11, direct path, the COMPOSITION at mirror level: Fold's events for a scalar / `[]T` /
  `map[string]T`, handed to the Unfold mirror on a fresh zero target of the translated type the way
  `SF.Ops.Fu.model` does (`feed` over `xevToUEvs`), are accepted and leave the translated value.
-/
import SF.Proofs.FuIdTokens
import SF.Ops.Fu
namespace SF.FuId
open SF SF.Gotype SF.Gotype.Fold SF.FoldProofs
open SF.Unf (Sc UEv PK memberEvents convList putAll mapSet Ctx newUnfolder setTarget typeFuel)
open SF.Ops.Unf (xevToUEvs evToUEv runToken)
open SF.Ops.Fu (feed)

abbrev tbl : Unf.TypeTable := Unf.Tr.fuTable

theorem runToken_of_run : ∀ (es : List UEv) (c c' : Ctx), Unf.run typeFuel es c = .ok () c' → runToken c es = (.ok, c')
  | [], c, c', h => by simp [Unf.run] at h; subst h; rfl
  | e :: es, c, c', h => by
    rw [Unf.run] at h
    rw [runToken]
    cases hs : Unf.stepEv typeFuel e c with
    | ok u c1 => rw [hs] at h; simp only at h ⊢; exact runToken_of_run es c1 c' h
    | err e' c1 => rw [hs] at h; cases h
    | panic c1 => rw [hs] at h; cases h
    | outOfFuel => rw [hs] at h; cases h
    | gap m => rw [hs] at h; cases h

/-- ONE token (the expansion of one extended event) that the Unfolder accepts -/
theorem feed_single (c c' : Ctx) (es : List UEv) (h : Unf.run typeFuel es c = .ok () c') :
    feed c [es] = (c', none) := by
  simp [feed, runToken_of_run es c c' h]

/-- the context after the document: the fresh Unfolder again, holding `w` -/
def doneCtx (w : Unf.GoVal) : Ctx := { newUnfolder with target := w, env := tbl }

theorem typeFuel_succ : typeFuel = 255 + 1 := rfl

/-! ## STAGE 1: scalars -/

theorem scalar_run (o : FoldOpts) (hfail : o.failAt = none) (p : Prim) (v : GoVal) (hv : hasPrim p v = true) :
    ∃ c0, (impl o (primTy p) v).res = .ok ∧
      setTarget tbl (uPrimTy p) (Unf.zero tbl (uPrimTy p)) newUnfolder = .ok c0 ∧
      feed c0 ((impl o (primTy p) v).evs.map xevToUEvs) = (doneCtx (trPrim p v), none) := by
  obtain ⟨e, he, hev⟩ := primEv_top p v hv
  rw [impl_scalar o hfail p v _ he]
  refine ⟨_, rfl, Unf.setTarget_prim tbl _ (pkOf p) _ newUnfolder (ofExact_uPrimTy p), ?_⟩
  apply feed_single
  simp only [xevToUEvs, hev]
  rw [Unf.run_single, typeFuel_succ]
  exact Unf.scalar_primCtx 255 tbl (pkOf p) _ _ newUnfolder _ (conv_top p v hv)

/-! ## STAGE 2: `[]T` -/

/-- nil ≙ empty: the target after an array of `ws` into a nil slice -/
theorem slice_run (o : FoldOpts) (hfail : o.failAt = none) (p : Prim) (v : GoVal) (xs : List GoVal)
    (hv : sliceElems? v = some xs) (hxs : ∀ x ∈ xs, hasPrim p x = true) :
    ∃ c0, (impl o (.slice (primTy p)) v).res = .ok ∧
      setTarget tbl (.slice (uPrimTy p)) (Unf.zero tbl (.slice (uPrimTy p))) newUnfolder = .ok c0 ∧
      feed c0 ((impl o (.slice (primTy p)) v).evs.map xevToUEvs) =
        (doneCtx (Unf.sliceFin (uPrimTy p) (xs.map (trPrim p))), none) := by
  rw [impl_slice o hfail p v xs _ hv (arrEv_eq true p xs hxs)]
  refine ⟨_, rfl, Unf.setTarget_sliceK tbl _ (pkOf p) _ newUnfolder (ofExact_uPrimTy p), ?_⟩
  apply feed_single
  rw [arrX_tokens, typeFuel_succ]
  have hz : Unf.zero tbl (.slice (uPrimTy p)) = .sliceNil (uPrimTy p) := rfl
  rw [hz, Unf.run_array_into_sliceK 255 tbl (pkOf p) (.sliceNil (uPrimTy p)) newUnfolder _ _ _ _ trivial rfl
    (by simp) (convList_elems true p xs hxs)]
  rfl

/-! ## STAGE 2: `map[string]T` -/

theorem map_run (o : FoldOpts) (hfail : o.failAt = none) (hord : hintOK o.order) (p : Prim) (v : GoVal)
    (ms : List (GoVal × GoVal)) (hv : mapEntries? v = some ms) (hms : ∀ m ∈ ms, hasEntry p m = true)
    (hnd : (ms.map fun m => getS m.1).Nodup) :
    ∃ c0 fin, (impl o (.map .string (primTy p)) v).res = .ok ∧
      setTarget tbl (.map (uPrimTy p)) (Unf.zero tbl (.map (uPrimTy p))) newUnfolder = .ok c0 ∧
      fin.Perm (ms.map fun m => (getS m.1, trPrim p m.2)) ∧
      feed c0 ((impl o (.map .string (primTy p)) v).evs.map xevToUEvs) =
        (doneCtx (Unf.mapSt (uPrimTy p) fin), none) := by
  rw [impl_map o hfail p v ms _ hv (objEv_eq p ms hms)]
  obtain ⟨mems, htok, hperm⟩ := objX_tokens (st0 o) hord p ms hnd
  have hmem : ∀ m ∈ mems, ∃ m0 ∈ ms, m = (getS m0.1, scOfElem false p m0.2) := by
    intro m hm
    have := hperm.mem_iff.mp hm
    simp only [memsOf, List.mem_map] at this
    obtain ⟨m0, h0, rfl⟩ := this
    exact ⟨m0, h0, rfl⟩
  have hconv : ∀ m ∈ mems, (pkOf p).conv m.2 = some (convD (pkOf p) m.2) ∧
      ∃ m0 ∈ ms, m = (getS m0.1, scOfElem false p m0.2) ∧ convD (pkOf p) m.2 = trPrim p m0.2 := by
    intro m hm
    obtain ⟨m0, h0, rfl⟩ := hmem m hm
    have hc := conv_elem false p m0.2 (hasEntry_key (hms m0 h0)).2
    exact ⟨by simp [convD, hc], m0, h0, rfl, by simp [convD, hc]⟩
  have hkeys : (mems.map (·.1)).Nodup := by
    have h1 := hperm.map (·.1)
    rw [h1.nodup_iff]
    simpa [memsOf, List.map_map, Function.comp_def] using hnd
  have hput := putAll_nodup (pkOf p) mems [] (fun m hm => by rw [(hconv m hm).1]; rfl) hkeys
    (fun _ _ a ha => by cases ha)
  have hfin : (mems.map fun m => (m.1, convD (pkOf p) m.2)).Perm (ms.map fun m => (getS m.1, trPrim p m.2)) := by
    have h1 := hperm.map (fun m : Bytes × Sc => (m.1, convD (pkOf p) m.2))
    refine h1.trans (List.Perm.of_eq ?_)
    simp only [memsOf, List.map_map]
    apply List.map_congr_left
    intro m0 h0
    have hc := conv_elem false p m0.2 (hasEntry_key (hms m0 h0)).2
    simp [convD, hc]
  refine ⟨_, _, rfl, Unf.setTarget_mapK tbl _ (pkOf p) _ newUnfolder (ofExact_uPrimTy p), hfin, ?_⟩
  apply feed_single
  have hz : Unf.zero tbl (.map (uPrimTy p)) = .mapNil (uPrimTy p) := rfl
  rw [htok, typeFuel_succ, hz,
    Unf.run_object_into_mapK 255 tbl (pkOf p) (.mapNil (uPrimTy p)) (uPrimTy p) [] _ newUnfolder _ _ mems rfl rfl hput]
  congr 1
  simp only [List.nil_append, Unf.mapFinK, Unf.mapSt, doneCtx]
  cases mems <;> rfl

end SF.FuId
