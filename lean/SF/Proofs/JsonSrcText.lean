/-
  C01 for JSON through the PARSER mirror: the text the JSON encoder writes for a `plain` tree
  (`SF.Json.Enc.text`, SF/Proofs/JsonEncTree.lean) is the wire form of a grammatical JSON text
  `toJ o t` of SF/Proofs/JsonGrammar.lean — no white space, every string token as `OnString`
  writes it, every number the canonical literal — all of whose tokens denote, and whose value
  is the tree's value (strings and keys sanitized).
-/
import SF.Proofs.JsonRefineSem
import SF.Proofs.JsonRefineStep
import SF.Proofs.JsonEncParse
namespace SF.Json.Enc
open SF SF.Json SF.Json.Parse SF.Json.ParseP SF.Json.Grammar SF.Json.Utf8 SF.Json.Float ETree
set_option linter.unusedSimpArgs false

/-! ## string tokens -/

theorem body_last {html : Bool} {s out san : Bytes} (h : Body html s out san) : ∃ raw, out = raw ++ [0x22] := by
  induction h with
  | nil => exact ⟨[], by rw [ch_quote]; rfl⟩
  | cons _ _ ih =>
    obtain ⟨raw, hr⟩ := ih
    exact ⟨_ ++ raw, by rw [hr, List.append_assoc]⟩

/-- the body (between the quotes) of the token `OnString s` writes -/
def strRaw (html : Bool) (s : Bytes) : Bytes := ((strToken html s).drop 1).dropLast

theorem strRaw_spec (html : Bool) (s : Bytes) :
    strToken html s = 0x22 :: (strRaw html s ++ [0x22]) ∧ strVal (strRaw html s) = some (sanitize s) := by
  obtain ⟨out, hB, htok, _⟩ := onString_spec html s
  obtain ⟨raw, hr⟩ := body_last hB
  have e : strRaw html s = raw := by simp [strRaw, htok, hr]
  rw [e]
  refine ⟨by rw [htok, hr], ?_⟩
  have := body_lex hB (raw.length + 1) [] [] (by rw [hr]; simp)
  rw [hr] at this
  simp only [List.append_nil, List.reverse_nil, List.nil_append] at this
  simp [strVal, this]

/-! ## integer literals -/

theorem digit_not_stop (c : UInt8) (h : Cst.isDigit c = true) : isStopChar c = false := by
  have := Utf8.forall_uint8 (fun c => !(Cst.isDigit c) || !(isStopChar c)) (by decide +kernel) c
  simpa [h] using this

theorem all_digit_not_stop (ds : Bytes) (h : ds.all Cst.isDigit = true) :
    ds.all (fun x => !isStopChar x) = true := by
  induction ds with
  | nil => rfl
  | cons c ds ih =>
    simp only [List.all_cons, Bool.and_eq_true] at h
    simp only [List.all_cons, digit_not_stop c h.1, Bool.not_false, ih h.2, Bool.and_self]

theorem intLit_tokOk (v : Int) : tokOk (intLit v) = true := by
  obtain ⟨a1, _, d, ds, a3, _⟩ := decBytes_spec v.natAbs
  have hns := all_digit_not_stop _ a1
  unfold intLit
  split
  · simp only [tokOk, List.all_cons, hns, Bool.and_true]
    decide
  · rw [a3] at a1 hns ⊢
    simp only [List.all_cons, Bool.and_eq_true] at a1
    simp only [tokOk, hns, Bool.and_true, ← (isDigit_agree d).1, a1.1, Bool.or_true]

/-- the parser-side denotation of the canonical literal of every integer in [-2^63, 2^64): an
int64 / uint64 event carrying exactly that integer -/
theorem numEv_intLit (v : Int) (h1 : -9223372036854775808 ≤ v) (h2 : v ≤ 18446744073709551615) :
    ∃ k, numEv (intLit v) = some (.num k v) := by
  obtain ⟨a1, a2, d, ds, a3, _⟩ := decBytes_spec v.natAbs
  obtain ⟨hd2, hnd⟩ := all_digit_agree _ a1
  have hval : digitsVal (decBytes v.natAbs) = v.natAbs := a2
  have hminus : ch '-' = 0x2D := by decide
  by_cases hv : v < 0
  · have e : intLit v = 0x2D :: decBytes v.natAbs := by simp [intLit, hv]
    have hdbl : isDblTok (intLit v) = false := by
      rw [e]; simp only [isDblTok, List.any_cons] at hnd ⊢; rw [hnd]; decide
    have hne : (decBytes v.natAbs).isEmpty = false := by rw [a3]; rfl
    have hparts : intParts (intLit v) = some (true, decBytes v.natAbs) := by
      rw [e]
      simp only [intParts, ← hminus, beq_self_eq_true, if_true, hd2, hne, Bool.not_false, Bool.and_self]
    refine ⟨.i64, ?_⟩
    have hle : v.natAbs ≤ 9223372036854775808 := by omega
    have hneg : -(v.natAbs : Int) = v := by omega
    simp only [numEv, hdbl, Bool.false_eq_true, if_false, hparts, hval, intEv, if_true, hle, hneg]
  · have e : intLit v = decBytes v.natAbs := by simp [intLit, hv]
    have hdm : (d == ch '-') = false := by
      rw [a3] at a1
      simp only [List.all_cons, Bool.and_eq_true] at a1
      exact ((isDigit_agree d).2 a1.1).2
    have hparts : intParts (intLit v) = some (false, decBytes v.natAbs) := by
      rw [e]
      have : intParts (d :: ds) = some (false, d :: ds) := by
        rw [a3] at hd2
        simp only [intParts, hdm, Bool.false_eq_true, if_false, hd2, List.isEmpty_cons, Bool.not_false,
          Bool.and_self, if_true]
      rw [a3]; exact this
    have hdbl : isDblTok (intLit v) = false := by rw [e]; exact hnd
    have hnat : (v.natAbs : Int) = v := by omega
    by_cases hle : v.natAbs ≤ 9223372036854775807
    · refine ⟨.i64, ?_⟩
      simp only [numEv, hdbl, Bool.false_eq_true, if_false, hparts, hval, intEv, hle, if_true, hnat]
    · have hle2 : v.natAbs ≤ 18446744073709551615 := by omega
      refine ⟨.u64, ?_⟩
      simp only [numEv, hdbl, Bool.false_eq_true, if_false, hparts, hval, intEv, hle, hle2, if_true, hnat]

/-! ## the grammatical text of a tree -/

mutual
/-- the text the encoder (options `o`) writes for a `plain` tree, as a grammatical JSON text
(a float leaf — not `plain` — is mapped to `null`) -/
def toJ (o : Enc) : ETree → J
  | .null => .lit .null
  | .bool b => .lit (if b then .tru else .fals)
  | .str s => .str (strRaw o.escapeHTML s)
  | .num _ v => .num (intLit v)
  | .f32 _ => .lit .null
  | .f64 _ => .lit .null
  | .arr _ _ xs => .arr [] (toABody o xs)
  | .obj _ _ ms => .obj [] (toOBody o ms)
def toABody (o : Enc) : List ETree → ABody
  | [] => .close
  | x :: xs => .elems (toJ o x) [] (toATail o xs)
def toATail (o : Enc) : List ETree → ATail
  | [] => .close
  | x :: xs => .more [] (toJ o x) [] (toATail o xs)
def toOBody (o : Enc) : List (Bytes × ETree) → OBody
  | [] => .close
  | (k, v) :: ms => .mems (strRaw o.escapeHTML k) [] [] (toJ o v) [] (toOTail o ms)
def toOTail (o : Enc) : List (Bytes × ETree) → OTail
  | [] => .close
  | (k, v) :: ms => .more [] (strRaw o.escapeHTML k) [] [] (toJ o v) [] (toOTail o ms)
end

/-! ### its wire form is the encoder's text -/

mutual
theorem toJ_wire (o : Enc) : (t : ETree) → plain t = true → (toJ o t).wire = text o t
  | .null, _ => by rw [text_null]; simp only [toJ, J.wire]; decide
  | .bool true, _ => by rw [text_bool]; simp only [toJ, J.wire]; decide
  | .bool false, _ => by rw [text_bool]; simp only [toJ, J.wire]; decide
  | .str s, _ => by rw [text_str]; simp only [toJ, J.wire]; exact (strRaw_spec _ s).1.symm
  | .num k v, hp => by simp only [plain] at hp; rw [text_num o k v hp]; rfl
  | .f32 _, hp => by simp [plain] at hp
  | .f64 _, hp => by simp [plain] at hp
  | .arr _ _ xs, hp => by
    simp only [plain] at hp
    simp only [toJ, J.wire, text, ch_lbrack, List.nil_append, toABody_wire o xs hp]
  | .obj _ _ ms, hp => by
    simp only [plain] at hp
    simp only [toJ, J.wire, text, ch_lbrace, List.nil_append, toOBody_wire o ms hp]
theorem toABody_wire (o : Enc) : (xs : List ETree) → plainList xs = true →
    (toABody o xs).wire = textList o true xs ++ [ch ']']
  | [], _ => by simp [toABody, ABody.wire, textList, ch_rbrack]
  | x :: xs, hp => by
    simp only [plainList, Bool.and_eq_true] at hp
    simp only [toABody, ABody.wire, textList, if_true, List.nil_append, toJ_wire o x hp.1, toATail_wire o xs hp.2,
      List.append_assoc]
theorem toATail_wire (o : Enc) : (xs : List ETree) → plainList xs = true →
    (toATail o xs).wire = textList o false xs ++ [ch ']']
  | [], _ => by simp [toATail, ATail.wire, textList, ch_rbrack]
  | x :: xs, hp => by
    simp only [plainList, Bool.and_eq_true] at hp
    simp only [toATail, ATail.wire, textList, Bool.false_eq_true, if_false, List.nil_append, toJ_wire o x hp.1,
      toATail_wire o xs hp.2, List.append_assoc, ch_comma, List.cons_append]
theorem toOBody_wire (o : Enc) : (ms : List (Bytes × ETree)) → plainMems ms = true →
    (toOBody o ms).wire = textMems o true ms ++ [ch '}']
  | [], _ => by simp [toOBody, OBody.wire, textMems, ch_rbrace]
  | (k, v) :: ms, hp => by
    simp only [plainMems, Bool.and_eq_true] at hp
    simp only [toOBody, OBody.wire, textMems, if_true, List.nil_append, toJ_wire o v hp.1, toOTail_wire o ms hp.2,
      List.append_assoc, (strRaw_spec o.escapeHTML k).1, ch_colon, List.cons_append]
theorem toOTail_wire (o : Enc) : (ms : List (Bytes × ETree)) → plainMems ms = true →
    (toOTail o ms).wire = textMems o false ms ++ [ch '}']
  | [], _ => by simp [toOTail, OTail.wire, textMems, ch_rbrace]
  | (k, v) :: ms, hp => by
    simp only [plainMems, Bool.and_eq_true] at hp
    simp only [toOTail, OTail.wire, textMems, Bool.false_eq_true, if_false, List.nil_append, toJ_wire o v hp.1,
      toOTail_wire o ms hp.2, List.append_assoc, (strRaw_spec o.escapeHTML k).1, ch_colon, ch_comma,
      List.cons_append]
end

/-! ### it is grammatical and every token denotes -/

theorem strRaw_bodyOk (html : Bool) (s : Bytes) : bodyOk (strRaw html s) = true :=
  strVal_bodyOk _ _ (strRaw_spec html s).2

theorem strRaw_sem (html : Bool) (s : Bytes) : (strVal (strRaw html s)).isSome = true := by
  rw [(strRaw_spec html s).2]; rfl

mutual
theorem toJ_ok (o : Enc) : (t : ETree) → (toJ o t).ok = true
  | .null => rfl
  | .bool b => by cases b <;> rfl
  | .str s => by simp only [toJ, J.ok]; exact strRaw_bodyOk _ s
  | .num _ v => by simp only [toJ, J.ok]; exact intLit_tokOk v
  | .f32 _ => rfl
  | .f64 _ => rfl
  | .arr _ _ xs => by simp only [toJ, J.ok, toABody_ok o xs]; rfl
  | .obj _ _ ms => by simp only [toJ, J.ok, toOBody_ok o ms]; rfl
theorem toABody_ok (o : Enc) : (xs : List ETree) → (toABody o xs).ok = true
  | [] => rfl
  | x :: xs => by simp only [toABody, ABody.ok, toJ_ok o x, toATail_ok o xs]; rfl
theorem toATail_ok (o : Enc) : (xs : List ETree) → (toATail o xs).ok = true
  | [] => rfl
  | x :: xs => by simp only [toATail, ATail.ok, toJ_ok o x, toATail_ok o xs]; rfl
theorem toOBody_ok (o : Enc) : (ms : List (Bytes × ETree)) → (toOBody o ms).ok = true
  | [] => rfl
  | (k, v) :: ms => by
    simp only [toOBody, OBody.ok, strRaw_bodyOk, toJ_ok o v, toOTail_ok o ms]; rfl
theorem toOTail_ok (o : Enc) : (ms : List (Bytes × ETree)) → (toOTail o ms).ok = true
  | [] => rfl
  | (k, v) :: ms => by
    simp only [toOTail, OTail.ok, strRaw_bodyOk, toJ_ok o v, toOTail_ok o ms]; rfl
end

mutual
theorem toJ_sem (o : Enc) : (t : ETree) → plain t = true → (toJ o t).sem = true
  | .null, _ => rfl
  | .bool b, _ => by cases b <;> rfl
  | .str s, _ => by simp only [toJ, J.sem]; exact strRaw_sem _ s
  | .num k v, hp => by
    simp only [plain] at hp
    obtain ⟨k', hk⟩ := numEv_intLit v (inRange_bounds k v hp).1 (inRange_bounds k v hp).2
    simp only [toJ, J.sem, hk]; rfl
  | .f32 _, _ => rfl
  | .f64 _, _ => rfl
  | .arr _ _ xs, hp => by simp only [plain] at hp; simp only [toJ, J.sem]; exact toABody_sem o xs hp
  | .obj _ _ ms, hp => by simp only [plain] at hp; simp only [toJ, J.sem]; exact toOBody_sem o ms hp
theorem toABody_sem (o : Enc) : (xs : List ETree) → plainList xs = true → (toABody o xs).sem = true
  | [], _ => rfl
  | x :: xs, hp => by
    simp only [plainList, Bool.and_eq_true] at hp
    simp only [toABody, ABody.sem, toJ_sem o x hp.1, toATail_sem o xs hp.2]; rfl
theorem toATail_sem (o : Enc) : (xs : List ETree) → plainList xs = true → (toATail o xs).sem = true
  | [], _ => rfl
  | x :: xs, hp => by
    simp only [plainList, Bool.and_eq_true] at hp
    simp only [toATail, ATail.sem, toJ_sem o x hp.1, toATail_sem o xs hp.2]; rfl
theorem toOBody_sem (o : Enc) : (ms : List (Bytes × ETree)) → plainMems ms = true → (toOBody o ms).sem = true
  | [], _ => rfl
  | (k, v) :: ms, hp => by
    simp only [plainMems, Bool.and_eq_true] at hp
    simp only [toOBody, OBody.sem, strRaw_sem, toJ_sem o v hp.1, toOTail_sem o ms hp.2]; rfl
theorem toOTail_sem (o : Enc) : (ms : List (Bytes × ETree)) → plainMems ms = true → (toOTail o ms).sem = true
  | [], _ => rfl
  | (k, v) :: ms, hp => by
    simp only [plainMems, Bool.and_eq_true] at hp
    simp only [toOTail, OTail.sem, strRaw_sem, toJ_sem o v hp.1, toOTail_sem o ms hp.2]; rfl
end

/-! ### its value is the tree's value, strings and keys sanitized -/

theorem strRaw_getD (html : Bool) (s : Bytes) : (strVal (strRaw html s)).getD [] = sanitize s := by
  rw [(strRaw_spec html s).2]; rfl

mutual
theorem toJ_value (o : Enc) : (t : ETree) → plain t = true → (toJ o t).tree.value = jvalue t
  | .null, _ => rfl
  | .bool b, _ => by cases b <;> rfl
  | .str s, _ => by simp only [toJ, J.tree, ETree.value, jvalue, strRaw_getD]
  | .num k v, hp => by
    simp only [plain] at hp
    obtain ⟨k', hk⟩ := numEv_intLit v (inRange_bounds k v hp).1 (inRange_bounds k v hp).2
    simp only [toJ, J.tree, numTree, hk, evTree, ETree.value, jvalue]
  | .f32 _, hp => by simp [plain] at hp
  | .f64 _, hp => by simp [plain] at hp
  | .arr _ _ xs, hp => by
    simp only [plain] at hp
    simp only [toJ, J.tree, ETree.value, jvalue, toABody_value o xs hp]
  | .obj _ _ ms, hp => by
    simp only [plain] at hp
    simp only [toJ, J.tree, ETree.value, jvalue, toOBody_value o ms hp]
theorem toABody_value (o : Enc) : (xs : List ETree) → plainList xs = true →
    valueList (toABody o xs).trees = jvalueList xs
  | [], _ => rfl
  | x :: xs, hp => by
    simp only [plainList, Bool.and_eq_true] at hp
    simp only [toABody, ABody.trees, valueList, jvalueList, toJ_value o x hp.1, toATail_value o xs hp.2]
theorem toATail_value (o : Enc) : (xs : List ETree) → plainList xs = true →
    valueList (toATail o xs).trees = jvalueList xs
  | [], _ => rfl
  | x :: xs, hp => by
    simp only [plainList, Bool.and_eq_true] at hp
    simp only [toATail, ATail.trees, valueList, jvalueList, toJ_value o x hp.1, toATail_value o xs hp.2]
theorem toOBody_value (o : Enc) : (ms : List (Bytes × ETree)) → plainMems ms = true →
    valueMems (toOBody o ms).members = jvalueMems ms
  | [], _ => rfl
  | (k, v) :: ms, hp => by
    simp only [plainMems, Bool.and_eq_true] at hp
    simp only [toOBody, OBody.members, valueMems, jvalueMems, strRaw_getD, toJ_value o v hp.1,
      toOTail_value o ms hp.2]
theorem toOTail_value (o : Enc) : (ms : List (Bytes × ETree)) → plainMems ms = true →
    valueMems (toOTail o ms).members = jvalueMems ms
  | [], _ => rfl
  | (k, v) :: ms, hp => by
    simp only [plainMems, Bool.and_eq_true] at hp
    simp only [toOTail, OTail.members, valueMems, jvalueMems, strRaw_getD, toJ_value o v hp.1,
      toOTail_value o ms hp.2]
end

/-- THE ENCODER WRITES GRAMMATICAL JSON: for every `plain` tree and all options, the text the
encoder writes is the wire form of a grammatical text all of whose tokens denote, whose value is
the value of the tree with every string and key sanitized -/
theorem text_grammatical (o : Enc) (t : ETree) (hp : plain t = true) :
    (toJ o t).wire = text o t ∧ (toJ o t).ok = true ∧ (toJ o t).sem = true ∧ (toJ o t).value = jvalue t :=
  ⟨toJ_wire o t hp, toJ_ok o t, toJ_sem o t hp, toJ_value o t hp⟩

end SF.Json.Enc
