/-
  The specification tree of a value tree IS the tree the specification's own reader
  (`Spec.sbuild`, which the C13 oracle runs on the event stream) builds from the tree's events:
  `sbuild (t.events as Ev) = some t.toS`.
-/
import SF.Proofs.UnfGenDefs
namespace SF.Unf
open SF SF.Unf.Spec

/-- the basic event behind an Unfolder call (by-reference strings / keys carry the same bytes) -/
def UEv.toEv : UEv → Ev
  | .scalar .nil => .null
  | .scalar (.bool b) => .bool b
  | .scalar (.str s) => .str s
  | .scalar (.num k v) => .num k v
  | .scalar (.f32 b) => .f32 b
  | .scalar (.f64 b) => .f64 b
  | .strRef s => .str s
  | .key k => .key k
  | .keyRef k => .key k
  | .arrStart l bt => .arrStart l bt
  | .arrEnd => .arrEnd
  | .objStart l bt => .objStart l bt
  | .objEnd => .objEnd

theorem step_scalar (st : SState) (s : Sc) : st.step (UEv.toEv (.scalar s)) = st.put (.sc s) := by
  cases s <;> rfl

theorem go_cons (st : SState) (e : Ev) (es : List Ev) :
    sbuild.go st (e :: es) = match st.step e with
      | none => none
      | some st' => sbuild.go st' es := by
  rw [sbuild.go]
  rfl

theorem map_toEv_keys (b : Bool) (k : Bytes) :
    UEv.toEv (if b then UEv.keyRef k else UEv.key k) = .key k := by
  cases b <;> rfl

mutual
theorem go_tree (t : UTree) (st : SState) (rest : List Ev) :
    sbuild.go st (t.events.map UEv.toEv ++ rest) =
      match st.put t.toS with
      | none => none
      | some st' => sbuild.go st' rest := by
  match t with
  | .scalar s =>
    simp only [UTree.events, List.map_cons, List.map_nil, List.cons_append, List.nil_append, go_cons, step_scalar,
      UTree.toS]
  | .strRef s =>
    simp only [UTree.events, List.map_cons, List.map_nil, List.cons_append, List.nil_append, go_cons, UTree.toS]
    rfl
  | .arr l bt xs =>
    simp only [UTree.events, List.map_cons, List.map_append, List.map_nil, List.cons_append, List.append_assoc,
      go_cons, UEv.toEv, SState.step, UTree.toS]
    rw [go_list xs bt [] st.stack st.done]
    simp only [List.nil_append, go_cons, SState.step, List.append_nil, List.reverse_reverse]
  | .obj l bt ms =>
    simp only [UTree.events, List.map_cons, List.map_append, List.map_nil, List.cons_append, List.append_assoc,
      go_cons, UEv.toEv, SState.step, UTree.toS]
    rw [go_mems ms bt [] st.stack st.done]
    simp only [List.nil_append, go_cons, SState.step, List.append_nil, List.reverse_reverse]
theorem go_list (xs : List UTree) (bt : Nat) (acc : List STree) (S : List SFrame) (D : List STree)
    (rest : List Ev) :
    sbuild.go { stack := .arr bt acc :: S, done := D } ((eventsList xs).map UEv.toEv ++ rest) =
      sbuild.go { stack := .arr bt ((toSList xs).reverse ++ acc) :: S, done := D } rest := by
  match xs with
  | [] => simp [eventsList, toSList]
  | x :: r =>
    simp only [eventsList, List.map_append, List.append_assoc, toSList, List.reverse_cons]
    rw [go_tree x, SState.put]
    simp only
    rw [go_list r]
    simp
theorem go_mems (ms : List (Bool × Bytes × UTree)) (bt : Nat) (acc : List (Bytes × STree)) (S : List SFrame)
    (D : List STree) (rest : List Ev) :
    sbuild.go { stack := .obj bt acc none :: S, done := D } ((eventsMems ms).map UEv.toEv ++ rest) =
      sbuild.go { stack := .obj bt ((toSMems ms).reverse ++ acc) none :: S, done := D } rest := by
  match ms with
  | [] => simp [eventsMems, toSMems]
  | (b, k, x) :: r =>
    simp only [eventsMems, List.map_cons, List.map_append, List.cons_append, List.append_assoc, toSMems,
      List.reverse_cons, map_toEv_keys, go_cons, SState.step]
    rw [go_tree x, SState.put]
    simp only
    rw [go_mems r]
    simp
end

/-- the specification's reader builds exactly `t.toS` from the events of `t` -/
theorem sbuild_events (t : UTree) : sbuild (t.events.map UEv.toEv) = some t.toS := by
  have h := go_tree t {} []
  rw [List.append_nil] at h
  unfold sbuild
  rw [h]
  simp [SState.put, sbuild.go]

end SF.Unf

namespace SF.Unf
open SF SF.Unf.Spec

/-- the specification's claim for a target of type `interface{}`: the generic value, whatever
the target held -/
theorem assign_ifc (tbl : TypeTable) (b : Bool) (n : Nat) (old : GoVal) (s : STree) :
    assign tbl b (n + 1) .ifc old s = some (generic s) := by
  rw [assign]
  simp [GoType.un, GoType.under, resolveFuel]

theorem expected_ifc (tbl : TypeTable) (old : GoVal) (s : STree) :
    expected tbl .ifc old s = some (generic s) := by
  unfold expected
  rw [show (100000 : Nat) = 99999 + 1 from rfl, assign_ifc, assign_ifc]
  simp [sameVal]

end SF.Unf
