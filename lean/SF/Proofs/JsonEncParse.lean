/-
  The reference parser (SF/Json/Cst.lean `pValue` / `decode`) on the tokens of the text the JSON
  encoder writes for a tree without floats: it returns the tree's value.
-/
import SF.Proofs.JsonEncLex
namespace SF.Json.Enc
open SF SF.Json SF.Json.Float ETree SF.Json.Cst

/- the value a reader gets: the value of the tree, strings and keys sanitized -/
mutual
def jvalue : ETree → Val
  | .null => .null
  | .bool b => .bool b
  | .str s => .str (sanitize s)
  | .num _ v => .int v
  | .f32 b => .f32 b
  | .f64 b => .f64 b
  | .arr _ _ xs => .arr (jvalueList xs)
  | .obj _ _ ms => .obj (jvalueMems ms)
def jvalueList : List ETree → List Val
  | [] => []
  | x :: xs => jvalue x :: jvalueList xs
def jvalueMems : List (Bytes × ETree) → List (Bytes × Val)
  | [] => []
  | (k, v) :: ms => (sanitize k, jvalue v) :: jvalueMems ms
end

def Tok.isClose : Tok → Bool
  | .rbrack | .rbrace => true
  | _ => false

theorem toks_head (t : ETree) : ∃ tk tl, toks t = tk :: tl ∧ Tok.isClose tk = false := by
  cases t <;> simp [toks, Tok.isClose]

theorem toksList_false_cons (y : ETree) (ys : List ETree) :
    toksList false (y :: ys) = .comma :: toksList true (y :: ys) := by simp [toksList]
theorem toksMems_false_cons (m : Bytes × ETree) (ms : List (Bytes × ETree)) :
    toksMems false (m :: ms) = .comma :: toksMems true (m :: ms) := by
  obtain ⟨k, v⟩ := m; simp [toksMems]

theorem pValue_lbrack_empty (f : Nat) (rest : List Tok) :
    pValue (f + 1) (.lbrack :: .rbrack :: rest) = .ok (.arr [], false, rest) := by
  simp [pValue]

theorem pValue_lbrack (f : Nat) (tk : Tok) (tl : List Tok) (h : Tok.isClose tk = false) :
    pValue (f + 1) (.lbrack :: tk :: tl) =
      match pElems f (tk :: tl) with
      | .error e => .error e
      | .ok (xs, mr, rest') => .ok (.arr xs, mr, rest') := by
  cases tk <;> simp [Tok.isClose] at h <;> (simp [pValue] <;> rfl)

theorem pValue_lbrace_empty (f : Nat) (rest : List Tok) :
    pValue (f + 1) (.lbrace :: .rbrace :: rest) = .ok (.obj [], false, rest) := by
  simp [pValue]

theorem pValue_lbrace (f : Nat) (tk : Tok) (tl : List Tok) (h : Tok.isClose tk = false) :
    pValue (f + 1) (.lbrace :: tk :: tl) =
      match pMems f (tk :: tl) with
      | .error e => .error e
      | .ok (xs, mr, rest') => .ok (.obj xs, mr, rest') := by
  cases tk <;> simp [Tok.isClose] at h <;> (simp [pValue] <;> rfl)


theorem pElems_succ (f : Nat) (ts : List Tok) :
    pElems (f + 1) ts =
      match pValue f ts with
      | .error e => .error e
      | .ok (v, mr, rest) =>
        match rest with
        | [] => .error .truncated
        | .rbrack :: rest' => .ok ([v], mr, rest')
        | .comma :: rest' =>
          match pElems f rest' with
          | .error e => .error e
          | .ok (vs, mr', rest'') => .ok (v :: vs, mr || mr', rest'')
        | _ => .error .bad := by
  rw [pElems]; rfl

theorem pMems_succ (f : Nat) (k : Bytes) (ts : List Tok) :
    pMems (f + 1) (.str k :: .colon :: ts) =
      match pValue f ts with
      | .error e => .error e
      | .ok (v, mr, rest2) =>
        match rest2 with
        | [] => .error .truncated
        | .rbrace :: rest3 => .ok ([(k, v)], mr, rest3)
        | .comma :: rest3 =>
          match pMems f rest3 with
          | .error e => .error e
          | .ok (ms, mr', rest4) => .ok ((k, v) :: ms, mr || mr', rest4)
        | _ => .error .bad := by
  rw [pMems]; rfl

mutual
theorem parse_tree (t : ETree) (hp : plain t = true) (f : Nat) (rest : List Tok) (hf : 2 * (toks t).length ≤ f) :
    pValue f (toks t ++ rest) = .ok (jvalue t, false, rest) := by
  match t with
  | .null | .bool _ | .str _ | .num _ _ =>
    simp only [toks, List.length_singleton] at hf
    obtain ⟨f0, rfl⟩ : ∃ f0, f = f0 + 1 := ⟨f - 1, by omega⟩
    simp [toks, pValue, jvalue]
  | .f32 _ => simp [plain] at hp
  | .f64 _ => simp [plain] at hp
  | .arr len bt xs =>
    simp only [plain] at hp
    simp only [toks, List.length_cons, List.length_append, List.length_nil] at hf
    obtain ⟨f0, rfl⟩ : ∃ f0, f = f0 + 1 := ⟨f - 1, by omega⟩
    match xs with
    | [] => simp [toks, toksList, pValue_lbrack_empty, jvalue, jvalueList]
    | x :: xs' =>
      have hl := parse_list (x :: xs') (by simp) hp f0 rest (by omega)
      obtain ⟨tk, tl, h1, h2⟩ := toks_head x
      have hshape : toksList true (x :: xs') ++ Tok.rbrack :: rest =
          tk :: (tl ++ toksList false xs' ++ Tok.rbrack :: rest) := by
        simp [toksList, h1]
      simp only [toks, List.cons_append, List.append_assoc, List.nil_append]
      rw [hshape] at hl ⊢
      rw [pValue_lbrack _ _ _ h2, hl]
      simp [jvalue]
  | .obj len bt ms =>
    simp only [plain] at hp
    simp only [toks, List.length_cons, List.length_append, List.length_nil] at hf
    obtain ⟨f0, rfl⟩ : ∃ f0, f = f0 + 1 := ⟨f - 1, by omega⟩
    match ms with
    | [] => simp [toks, toksMems, pValue_lbrace_empty, jvalue, jvalueMems]
    | (k, v) :: ms' =>
      have hl := parse_mems ((k, v) :: ms') (by simp) hp f0 rest (by omega)
      have hshape : toksMems true ((k, v) :: ms') ++ Tok.rbrace :: rest =
          Tok.str (sanitize k) :: ([Tok.colon] ++ toks v ++ toksMems false ms' ++ Tok.rbrace :: rest) := by
        simp [toksMems]
      simp only [toks, List.cons_append, List.append_assoc, List.nil_append]
      rw [hshape] at hl ⊢
      rw [pValue_lbrace _ _ _ (by rfl), hl]
      simp [jvalue]
theorem parse_list (xs : List ETree) (hne : xs ≠ []) (hp : plainList xs = true) (f : Nat) (rest : List Tok)
    (hf : 2 * ((toksList true xs).length + 1) ≤ f) :
    pElems f (toksList true xs ++ .rbrack :: rest) = .ok (jvalueList xs, false, rest) := by
  match xs with
  | [] => exact absurd rfl hne
  | x :: xs' =>
    simp only [plainList, Bool.and_eq_true] at hp
    simp only [toksList, if_true, List.nil_append, List.length_append] at hf
    obtain ⟨f0, rfl⟩ : ∃ f0, f = f0 + 1 := ⟨f - 1, by omega⟩
    simp only [toksList, if_true, List.nil_append, List.append_assoc]
    rw [pElems_succ, parse_tree x hp.1 f0 _ (by omega)]
    match xs' with
    | [] => simp [toksList, jvalueList]
    | y :: ys =>
      rw [toksList_false_cons] at hf ⊢
      simp only [List.length_cons] at hf
      simp only [List.cons_append]
      rw [parse_list (y :: ys) (by simp) hp.2 f0 rest (by omega)]
      simp [jvalueList]
theorem parse_mems (ms : List (Bytes × ETree)) (hne : ms ≠ []) (hp : plainMems ms = true) (f : Nat)
    (rest : List Tok) (hf : 2 * ((toksMems true ms).length + 1) ≤ f) :
    pMems f (toksMems true ms ++ .rbrace :: rest) = .ok (jvalueMems ms, false, rest) := by
  match ms with
  | [] => exact absurd rfl hne
  | (k, v) :: ms' =>
    simp only [plainMems, Bool.and_eq_true] at hp
    simp only [toksMems, if_true, List.nil_append, List.length_append, List.length_cons, List.length_nil] at hf
    obtain ⟨f0, rfl⟩ : ∃ f0, f = f0 + 1 := ⟨f - 1, by omega⟩
    simp only [toksMems, if_true, List.nil_append, List.append_assoc, List.cons_append]
    rw [pMems_succ, parse_tree v hp.1 f0 _ (by omega)]
    match ms' with
    | [] => simp [toksMems, jvalueMems]
    | m :: ms'' =>
      rw [toksMems_false_cons] at hf ⊢
      simp only [List.length_cons] at hf
      simp only [List.cons_append]
      rw [parse_mems (m :: ms'') (by simp) hp.2 f0 rest (by omega)]
      simp [jvalueMems]
end


theorem strToken_length_pos (html : Bool) (s : Bytes) : 1 ≤ (strToken html s).length := by
  obtain ⟨out, _, h, _⟩ := onString_spec html s
  rw [h]; simp

mutual
theorem toks_le_text (o : Enc) (t : ETree) (hp : plain t = true) : (toks t).length ≤ (text o t).length := by
  match t with
  | .null => rw [text_null]; decide
  | .bool true => rw [text_bool]; decide
  | .bool false => rw [text_bool]; decide
  | .str s => rw [text_str]; simpa [toks] using strToken_length_pos _ s
  | .num k v =>
    simp only [plain] at hp
    rw [text_num o k v hp]
    obtain ⟨c, tl, h, _⟩ := intLit_head v
    rw [h]; simp [toks]
  | .f32 _ => simp [plain] at hp
  | .f64 _ => simp [plain] at hp
  | .arr _ _ xs =>
    simp only [plain] at hp
    have := toksList_le_text o xs hp true
    simp only [toks, text, List.length_cons, List.length_append, List.length_nil]
    omega
  | .obj _ _ ms =>
    simp only [plain] at hp
    have := toksMems_le_text o ms hp true
    simp only [toks, text, List.length_cons, List.length_append, List.length_nil]
    omega
theorem toksList_le_text (o : Enc) (xs : List ETree) (hp : plainList xs = true) (first : Bool) :
    (toksList first xs).length ≤ (textList o first xs).length := by
  match xs with
  | [] => simp [toksList]
  | x :: xs' =>
    simp only [plainList, Bool.and_eq_true] at hp
    have h1 := toks_le_text o x hp.1
    have h2 := toksList_le_text o xs' hp.2 false
    cases first <;> simp [toksList, textList] <;> omega
theorem toksMems_le_text (o : Enc) (ms : List (Bytes × ETree)) (hp : plainMems ms = true) (first : Bool) :
    (toksMems first ms).length ≤ (textMems o first ms).length := by
  match ms with
  | [] => simp [toksMems]
  | (k, v) :: ms' =>
    simp only [plainMems, Bool.and_eq_true] at hp
    have h1 := toks_le_text o v hp.1
    have h2 := toksMems_le_text o ms' hp.2 false
    have h3 := strToken_length_pos o.escapeHTML k
    cases first <;> simp [toksMems, textMems] <;> omega
end

/-- the reference lexer on the whole text -/
theorem lex_text (o : Enc) (t : ETree) (hp : plain t = true) :
    lex ((text o t).length + 1) (text o t) [] = .ok (toks t) := by
  have hle := toks_le_text o t hp
  have h := lex_tree o t hp ((text o t).length - (toks t).length + 1) ((text o t).length + 1) [] []
    (Or.inl rfl) (by omega)
  rw [List.append_nil] at h
  rw [h, lex_succ]
  simp [skipWs]

/-- E: the reference decoder accepts the whole text as ONE value, the tree's -/
theorem decode_text (o : Enc) (t : ETree) (hp : plain t = true) :
    ∃ v, decode (text o t) = .ok [v] false ∧ v = jvalue t := by
  refine ⟨jvalue t, ?_, rfl⟩
  unfold decode
  rw [lex_text o t hp]
  simp only
  obtain ⟨tk, tl, h1, _⟩ := toks_head t
  have hv := parse_tree t hp (2 * (toks t).length + 2) [] (by omega)
  rw [List.append_nil] at hv
  rw [h1] at hv ⊢
  simp only [List.length_cons]
  rw [pStream]
  · simp only [hv]
    simp [pStream]
  · intro h; simp at h


/- all strings and keys of the tree are well-formed UTF-8 -/
mutual
def utf8Tree : ETree → Bool
  | .str s => validUtf8 s
  | .arr _ _ xs => utf8List xs
  | .obj _ _ ms => utf8Mems ms
  | _ => true
def utf8List : List ETree → Bool
  | [] => true
  | x :: xs => utf8Tree x && utf8List xs
def utf8Mems : List (Bytes × ETree) → Bool
  | [] => true
  | (k, v) :: ms => validUtf8 k && utf8Tree v && utf8Mems ms
end

mutual
theorem jvalue_eq (t : ETree) (h : utf8Tree t = true) : jvalue t = t.value := by
  match t with
  | .null | .bool _ | .num _ _ | .f32 _ | .f64 _ => simp [jvalue, ETree.value]
  | .str s => simp only [utf8Tree] at h; simp [jvalue, ETree.value, sanitize_valid s h]
  | .arr _ _ xs => simp only [utf8Tree] at h; simp [jvalue, ETree.value, jvalueList_eq xs h]
  | .obj _ _ ms => simp only [utf8Tree] at h; simp [jvalue, ETree.value, jvalueMems_eq ms h]
theorem jvalueList_eq (xs : List ETree) (h : utf8List xs = true) : jvalueList xs = ETree.valueList xs := by
  match xs with
  | [] => rfl
  | x :: xs' =>
    simp only [utf8List, Bool.and_eq_true] at h
    simp [jvalueList, ETree.valueList, jvalue_eq x h.1, jvalueList_eq xs' h.2]
theorem jvalueMems_eq (ms : List (Bytes × ETree)) (h : utf8Mems ms = true) :
    jvalueMems ms = ETree.valueMems ms := by
  match ms with
  | [] => rfl
  | (k, v) :: ms' =>
    simp only [utf8Mems, Bool.and_eq_true] at h
    simp [jvalueMems, ETree.valueMems, jvalue_eq v h.1.2, jvalueMems_eq ms' h.2, sanitize_valid k h.1.1]
end

end SF.Json.Enc
