/-
  C11, JSON path, `map[string]T`: the target when the sanitised keys are pairwise distinct, and the
  oracle's comparison `agreeF "json"` (keys compared modulo `fixU` = `sanitize`; colliding keys: no claim).
-/
import SF.Proofs.FuJson2Run
namespace SF.FuJson
open SF SF.Gotype SF.Gotype.Fold SF.FoldProofs SF.FuId
open SF.Json.Enc (sanitize)
open SF.Unf (Sc PK putAll)
open SF.Ops.Fu (agreeF)

theorem json_is_json : ("json" == "json") = true := by decide

theorem agree_json_map_core (m : Nat) (p : Prim) (hf : isFloatP p = false) (ms : List (GoVal × GoVal))
    (fin : List (Bytes × Unf.GoVal))
    (hms : ∀ m ∈ ms, hasEntry p m = true)
    (hnds : (ms.map fun m => sanitize (getS m.1)).Nodup)
    (hfin : fin.Perm (ms.map fun m => (sanitize (getS m.1), trPrimJ p m.2))) :
    agreeF "json" (m + 2) (.map .string (primTy p)) (.map ms) (.map (backMems fin)) = true := by
  rw [SF.Ops.Fu.agreeF.eq_def]
  simp only [under_map]
  rw [mapM_some_of _ (fun m : GoVal × GoVal => (getS m.1, m.2)) ms ?h1,
    mapM_some_of _ (fun m : GoVal × GoVal => (getS m.1, m.2)) (backMems fin) ?h2]
  case h1 =>
    intro m hm
    obtain ⟨a, b⟩ := m
    have := (hasEntry_key (hms (a, b) hm)).1
    cases a <;> simp [asStr] at this <;> rfl
  case h2 =>
    intro m hm
    rw [backMems_eq] at hm
    obtain ⟨m1, _, rfl⟩ := List.mem_map.mp hm
    rfl
  have hys : (backMems fin).map (fun m : GoVal × GoVal => (getS m.1, m.2)) = fin.map fun m => (m.1, back m.2) := by
    rw [backMems_eq, List.map_map]; rfl
  simp only [json_is_json, if_true, fixU_sanitize, List.map_map, Function.comp_def, hys]
  have hed := eraseDups_of_nodup _ hnds
  have hlen : fin.length = ms.length := by simpa using hfin.length_eq
  simp only [hed, List.length_map, bne_self_eq_false, Bool.false_eq_true, if_false, hlen, beq_self_eq_true,
    Bool.true_and]
  rw [List.all_eq_true]
  intro kx hkx
  obtain ⟨m0, h0, rfl⟩ := List.mem_map.mp hkx
  have hp2 := hfin.map (fun m : Bytes × Unf.GoVal => (m.1, back m.2))
  have hndf : ((fin.map fun m => (m.1, back m.2)).map (·.1)).Nodup := by
    rw [(hp2.map (·.1)).nodup_iff]
    simpa [List.map_map, Function.comp_def] using hnds
  have hmem : (sanitize (getS m0.1), back (trPrimJ p m0.2)) ∈ fin.map fun m => (m.1, back m.2) := by
    rw [hp2.mem_iff]
    simp only [List.map_map, List.mem_map, Function.comp]
    exact ⟨m0, h0, rfl⟩
  dsimp only
  rw [find_of_mem_nodup _ _ _ hndf hmem]
  exact agree_json m p m0.2 (hasEntry_key (hms m0 h0)).2 hf

/-! ## colliding keys: `agreeF "json"` makes no claim -/

theorem eraseDups_length_le {α : Type} [BEq α] [LawfulBEq α] : ∀ (n : Nat) (l : List α), l.length ≤ n →
    l.eraseDups.length ≤ l.length ∧ (l.eraseDups.length = l.length → l.Nodup)
  | _, [], _ => by simp
  | 0, _ :: _, h => by simp at h
  | n + 1, a :: r, h => by
    have hr : r.length ≤ n := by simp at h; omega
    have hfl : (r.filter fun b => !b == a).length ≤ r.length := List.length_filter_le _ _
    obtain ⟨i1, i2⟩ := eraseDups_length_le n (r.filter fun b => !b == a) (by omega)
    rw [List.eraseDups_cons]
    refine ⟨by simp only [List.length_cons]; omega, ?_⟩
    intro he
    simp only [List.length_cons] at he
    have h1 : (r.filter fun b => !b == a).length = r.length := by omega
    have h2 : (r.filter fun b => !b == a) = r := List.filter_eq_self.mpr (List.length_filter_eq_length_iff.mp h1)
    rw [h2] at i2
    have hnr : r.Nodup := i2 (by rw [h2] at he; omega)
    have hna : a ∉ r := by
      intro ha
      have := List.filter_eq_self.mp h2 a ha
      simp at this
    exact List.nodup_cons.mpr ⟨hna, hnr⟩

theorem eraseDups_ne_of_not_nodup {α : Type} [BEq α] [LawfulBEq α] (l : List α) (h : ¬ l.Nodup) :
    (l.eraseDups.length != l.length) = true := by
  simp only [bne_iff_ne, ne_eq]
  exact fun he => h ((eraseDups_length_le l.length l (Nat.le_refl _)).2 he)

theorem agree_json_map_collide (m : Nat) (p : Prim) (ms : List (GoVal × GoVal)) (fin : List (Bytes × Unf.GoVal))
    (hms : ∀ m ∈ ms, hasEntry p m = true)
    (hcol : ¬ (ms.map fun m => sanitize (getS m.1)).Nodup) :
    agreeF "json" (m + 1) (.map .string (primTy p)) (.map ms) (.map (backMems fin)) = true := by
  rw [SF.Ops.Fu.agreeF.eq_def]
  simp only [under_map]
  rw [mapM_some_of _ (fun m : GoVal × GoVal => (getS m.1, m.2)) ms ?h1,
    mapM_some_of _ (fun m : GoVal × GoVal => (getS m.1, m.2)) (backMems fin) ?h2]
  case h1 =>
    intro m hm
    obtain ⟨a, b⟩ := m
    have := (hasEntry_key (hms (a, b) hm)).1
    cases a <;> simp [asStr] at this <;> rfl
  case h2 =>
    intro m hm
    rw [backMems_eq] at hm
    obtain ⟨m1, _, rfl⟩ := List.mem_map.mp hm
    rfl
  simp only [json_is_json, if_true, fixU_sanitize, List.map_map, Function.comp_def, List.length_map]
  have := eraseDups_ne_of_not_nodup _ hcol
  simp only [List.length_map] at this
  simp only [this, if_true]

/-! ## whole values -/

/-- `agreeF "json"` for `map[string]T` after the JSON leg — for EVERY map: distinct sanitised keys by
`agree_json_map_core`, colliding ones because the oracle makes no claim -/
theorem agree_json_map (n : Nat) (p : Prim) (hf : isFloatP p = false) (v : GoVal) (ms : List (GoVal × GoVal))
    (fin : List (Bytes × Unf.GoVal))
    (hv : mapEntries? v = some ms) (hms : ∀ m ∈ ms, hasEntry p m = true)
    (hfin : (ms.map fun m => sanitize (getS m.1)).Nodup →
      fin.Perm (ms.map fun m => (sanitize (getS m.1), trPrimJ p m.2))) :
    agreeF "json" (n + 3) (.map .string (primTy p)) v
      (back (if ms.isEmpty then .mapNil (uPrimTy p) else .map (uPrimTy p) fin)) = true := by
  cases v with
  | nilMap =>
    have : ms = [] := by simpa [mapEntries?] using hv.symm
    subst this
    rw [SF.Ops.Fu.agreeF.eq_def]
    simp [under_map, back]
  | map ms' =>
    have : ms' = ms := by simpa [mapEntries?] using hv
    subst this
    cases hm : ms' with
    | nil =>
      rw [SF.Ops.Fu.agreeF.eq_def]
      simp [under_map, back]
    | cons m0 mr =>
      rw [← hm]
      have hne : ms'.isEmpty = false := by rw [hm]; rfl
      simp only [hne, Bool.false_eq_true, if_false, back]
      by_cases hnds : (ms'.map fun m => sanitize (getS m.1)).Nodup
      · exact agree_json_map_core (n + 1) p hf ms' fin hms hnds (hfin hnds)
      · exact agree_json_map_collide (n + 2) p ms' fin hms hnds
  | _ => simp [mapEntries?] at hv

/-- distinct sanitised keys: the target holds exactly the translated entries -/
theorem fin_of_nodup (p : Prim) (hf : isFloatP p = false) (ms : List (GoVal × GoVal)) (mems : List (Bytes × Sc))
    (fin : List (Bytes × Unf.GoVal)) (hms : ∀ m ∈ ms, hasEntry p m = true)
    (hperm : mems.Perm (memsOf p ms))
    (hput : putAll (pkOf p) (mems.map jm) [] = some fin)
    (hnds : (ms.map fun m => sanitize (getS m.1)).Nodup) :
    fin.Perm (ms.map fun m => (sanitize (getS m.1), trPrimJ p m.2)) := by
  have hconv : ∀ m0 ∈ ms, (pkOf p).conv (jsonSc (scOfElem false p m0.2)) = some (trPrimJ p m0.2) :=
    fun m0 h0 => conv_json_elem false p m0.2 (hasEntry_key (hms m0 h0)).2 hf
  have hkeys : ((mems.map jm).map (·.1)).Nodup := by
    have h1 := hperm.map (fun m : Bytes × Sc => sanitize m.1)
    simp only [List.map_map, Function.comp_def, jm]
    rw [h1.nodup_iff]
    simpa [memsOf, List.map_map, Function.comp_def] using hnds
  have hput2 := putAll_nodup (pkOf p) (mems.map jm) [] (by
    intro m hm
    obtain ⟨m1, h1, rfl⟩ := List.mem_map.mp hm
    have := hperm.mem_iff.mp h1
    simp only [memsOf, List.mem_map] at this
    obtain ⟨m0, h0, rfl⟩ := this
    simp only [jm, hconv m0 h0]; rfl) hkeys (fun _ _ a ha => by cases ha)
  rw [hput] at hput2
  injection hput2 with hfin
  rw [hfin, List.nil_append, List.map_map]
  have h1 := hperm.map (fun m : Bytes × Sc => (sanitize m.1, convD (pkOf p) (jsonSc m.2)))
  refine (List.Perm.of_eq ?_).trans (h1.trans (List.Perm.of_eq ?_))
  · apply List.map_congr_left; intro m _; rfl
  · simp only [memsOf, List.map_map]
    apply List.map_congr_left
    intro m0 h0
    simp only [Function.comp, convD, hconv m0 h0, Option.getD_some]

end SF.FuJson
