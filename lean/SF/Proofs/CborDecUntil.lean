/-
  Helper lemmas for C18 (CBOR pull decoder over a reader): the loop `feedUntil` of
  `Decoder.Next`, without fuel (`Until`), and its SPLIT LAW across a read boundary.

  `Until p b r`: stepping from `p` over input `b` as `feedUntil` does — until a top-level
  value is complete (`done`), an error occurs, or the input is used up with no start state
  pending — ends with the result `r`.  From every reachable state (`Good`):
    * `feedUntil` with the fuel the model hands out computes `Until` (fuel adequacy);
    * running over `a ++ b` is running over `a` and — if that neither completed a value nor
      failed — running over `b` from the state reached (`until_split`).
  Property theorems: SF/Proofs/CborDecReaderTop.lean.
-/
import SF.Proofs.CborChunkTop
import SF.Proofs.CborTermTop
import SF.Proofs.CborFailAt
set_option linter.unusedSimpArgs false
set_option linter.unusedVariables false
namespace SF.Cbor.DecR
open SF SF.Cbor SF.Cbor.Cst SF.Cbor.Parse
open SF.Props.C03 (startPending)
open SF.Cbor.Chunk

/-! ## the reachable parser states of a decoder -/

/-- the invariant of the parser inside a decoder between two steps: both invariants of the
reachable states (the structural one of the C02 proof and the ghost-context one of the C03
proof) and no injected visitor fault -/
structure Good (p : P) : Prop where
  inv : Chunk.Inv p
  reach : SF.Cbor.Term.Reach p
  nofail : p.failAt = none

theorem good_idle (evs : List Ev) : Good (idle evs) :=
  ⟨Chunk.inv_init none evs, ⟨SF.Cbor.Sim.idleCtx, SF.Cbor.Sim.idle_valid, ⟨rfl, rfl, rfl⟩⟩, rfl⟩

theorem good_init : Good {} := good_idle []

/-- `Good` does not depend on the event log -/
theorem Good.setEvs {p : P} (h : Good p) (evs : List Ev) : Good { p with evs := evs } := by
  obtain ⟨hi, ⟨c, hv, hr⟩, hf⟩ := h
  refine ⟨?_, ⟨c, hv, ⟨hr.st, hr.ln, hr.buf⟩⟩, hf⟩
  cases hi with
  | val hq => exact Inv.val ⟨hq.vs, hq.buf, hq.len⟩
  | uint w h1 h2 h3 h4 => exact Inv.uint w h1 h2 h3 h4
  | neg w h1 h2 h3 h4 => exact Inv.neg w h1 h2 h3 h4
  | f32 h1 h2 h3 => exact Inv.f32 h1 h2 h3
  | f64 h1 h2 h3 => exact Inv.f64 h1 h2 h3
  | len w s t h1 h2 h3 h4 h5 => exact Inv.len w s t h1 h2 h3 h4 h5
  | startSeq h1 h2 h3 h4 => exact Inv.startSeq h1 h2 h3 h4
  | startSub c t h1 h2 h3 h4 => exact Inv.startSub c t h1 h2 h3 h4
  | bytes h1 h2 h3 h4 => exact Inv.bytes h1 h2 h3 h4
  | text h1 h2 h3 => exact Inv.text h1 h2 h3
  | key h1 h2 h3 => exact Inv.key h1 h2 h3
  | elem h1 h2 h3 => exact Inv.elem h1 h2 h3

/-- one successful step preserves `Good` -/
theorem good_step {p : P} {b : Bytes} (h : Good p) (hm : More p b) (he : (execStep p b).err = none) :
    Good (execStep p b).p :=
  ⟨(execStep_ok p b h.inv hm he).inv, (SF.Cbor.Term.reach_step p h.reach b hm he).1,
    by rw [SF.Props.C16F.execStep_fAt]; exact h.nofail⟩

/-! ## a step that reports `done` has not merely parked its input -/

theorem idle_of_rel {q : P} (h : SF.Cbor.Sim.Rel q SF.Cbor.Sim.idleCtx) :
    q.state.current = ⟨stValue, stStart⟩ ∧ q.state.stack = [] ∧ q.buffer = [] := by
  have h1 := h.st
  have h2 := h.buf
  simp only [SF.Cbor.Sim.Ctx.sts, SF.Cbor.Sim.idleCtx, SF.Cbor.Sim.Top.sts, SF.Cbor.Sim.contsSts,
    List.nil_append, List.cons.injEq] at h1
  exact ⟨h1.1, h1.2, h2⟩

theorem vfail_of_nofail {q : P} (h : q.failAt = none) : vfail q = false := by
  simp [vfail, h]

/-- `false` (0xf4) read in the idle state: a complete value -/
theorem step_false_idle (q : P) (hc : q.state.current = ⟨stValue, stStart⟩) (hf : q.failAt = none) :
    (execStep q [0xf4]).err = none ∧ (execStep q [0xf4]).done = true ∧ (execStep q [0xf4]).rest = [] := by
  have hmaj : q.state.current.major = 2 := by rw [hc]; rfl
  rw [Chunk.execStep_val q _ hmaj]
  have hm : ((0xf4 : UInt8) &&& majorMask) = 0xe0 := by decide
  have hs : stepValue q [0xf4] = scalar q (.bool false) [] := by
    simp +decide [stepValue, hm]
  rw [hs]
  unfold scalar
  rw [visit_eq, vfail_of_nofail hf]
  simp only [Bool.false_eq_true, if_false, onValueR]
  rw [Chunk.onValue_val _ _ (by simpa using hmaj)]
  simp

/-- the result of a step that consumed all of `a` and reported `done` cannot be "the step on
`a` parked `a`": otherwise `a ++ [0xf4]` would complete a second well-formed item of which
the first is a proper prefix -/
theorem done_not_parked (p : P) (a : Bytes) (hg : Good p) (hm : More p a)
    (he : (execStep p a).err = none) (hd : (execStep p a).done = true)
    (hrest : (execStep p a).rest = [])
    (hsim : Chunk.Sim (execStep (execStep p a).p [0xf4]) (execStep p (a ++ [0xf4]))) : False := by
  obtain ⟨c, hv, hr⟩ := hg.reach
  have hpend := SF.Cbor.Sim.rel_pending hr
  -- the step on `a`
  rcases SF.Cbor.Sim.step_sim c hv p hr a (by rw [← hpend]; exact hm) with h | ⟨used, o, ha, hro, hgo, _⟩
  · exact h he
  · rw [hrest, List.append_nil] at ha
    subst ha
    cases o with
    | cont c' => rw [hro.1] at hd; cases hd
    | done t =>
      obtain ⟨hokt, hwt⟩ := hgo
      obtain ⟨hcur, _, _⟩ := idle_of_rel hro.2
      have hf' : (execStep p a).p.failAt = none := by rw [SF.Props.C16F.execStep_fAt]; exact hg.nofail
      obtain ⟨s1, s2, s3⟩ := step_false_idle _ hcur hf'
      have heq : execStep p (a ++ [0xf4]) = execStep (execStep p a).p [0xf4] := hsim.2.2 s1
      -- the step on `a ++ [0xf4]`
      have hm2 : a ++ [0xf4] ≠ [] ∨ c.pending = true := Or.inl (by simp)
      rcases SF.Cbor.Sim.step_sim c hv p hr (a ++ [0xf4]) hm2 with h | ⟨used2, o2, ha2, hro2, hgo2, _⟩
      · rw [heq] at h; exact h s1
      · rw [heq, s3, List.append_nil] at ha2
        rw [heq] at hro2
        cases o2 with
        | cont c2 => rw [hro2.1] at s2; cases s2
        | done t2 =>
          obtain ⟨hokt2, hwt2⟩ := hgo2
          have hw : t.wire ++ [0xf4] = t2.wire ++ [] := by
            rw [hwt, hwt2, ← ha2, List.append_nil, List.append_assoc]
          have := SF.Cbor.Term.wire_prefix_free t t2 hokt hokt2 _ _ hw
          simp at this

/-! ## `feedUntil` without fuel -/

/-- the loop of `feedUntil` stops after the step with result `r` -/
def Stops (r : R) : Prop := (r.done || r.err.isSome) = true ∨ ¬ More r.p r.rest

/-- `Until p b r`: `feedUntil`, started in `p` on input `b`, ends with `r` (fuel-free) -/
inductive Until : P → Bytes → R → Prop
  | halt {p : P} {b : Bytes} : Stops (execStep p b) → Until p b (execStep p b)
  | step {p : P} {b : Bytes} {r : R} : (execStep p b).done = false → (execStep p b).err = none →
      More (execStep p b).p (execStep p b).rest →
      Until (execStep p b).p (execStep p b).rest r → Until p b r

theorem Until.det {p : P} {b : Bytes} {r1 r2 : R} (h1 : Until p b r1) (h2 : Until p b r2) : r1 = r2 := by
  induction h1 generalizing r2 with
  | halt hs =>
    cases h2 with
    | halt _ => rfl
    | step hd he hm _ =>
      rcases hs with hs | hs
      · simp [hd, he] at hs
      · exact absurd hm hs
  | step hd he hm _ ih =>
    cases h2 with
    | halt hs =>
      rcases hs with hs | hs
      · simp [hd, he] at hs
      · exact absurd hm hs
    | step _ _ _ h2' => exact ih h2'

/-- FUEL ADEQUACY: from an invariant state, `feedUntil` with more fuel than the measure of
the input computes the fuel-free loop -/
theorem feedUntil_until (n : Nat) (p : P) (b : Bytes) (hI : Chunk.Inv p) (hm : More p b)
    (hn : mu p b < n) : Until p b (feedUntil n p b) := by
  induction n generalizing p b with
  | zero => omega
  | succ n ih =>
    rw [feedUntil_succ]
    cases hre : (execStep p b).err with
    | some e =>
      have : loopFrom n (execStep p b) = execStep p b := by simp [loopFrom, hre]
      rw [this]
      exact Until.halt (Or.inl (by simp [hre]))
    | none =>
      have hok := execStep_ok p b hI hm hre
      by_cases hd : (execStep p b).done = true
      · rw [loopFrom_done _ _ hd]
        exact Until.halt (Or.inl (by simp [hd]))
      · have hd' : (execStep p b).done = false := by simpa using hd
        by_cases hc : contParse (execStep p b) = true
        · rw [loopFrom_cont _ _ hd' hre hc]
          have hm' := (contParse_iff _).mp hc
          have hdec := hok.dec
          exact Until.step hd' hre hm' (ih _ _ hok.inv hm' (by omega))
        · have : loopFrom n (execStep p b) = execStep p b := by simp [loopFrom, hc]
          rw [this]
          exact Until.halt (Or.inr (fun h => hc ((contParse_iff _).mpr h)))

theorem mu_lt_fuelFor (p : P) (b : Bytes) : mu p b < fuelFor b := by
  have := mu_le p b
  unfold fuelFor; omega

/-- the loop as the model runs it (`fuelFor` iterations) -/
theorem feedUntil_fuelFor (p : P) (b : Bytes) (hI : Chunk.Inv p) (hm : More p b) :
    Until p b (feedUntil (fuelFor b) p b) :=
  feedUntil_until _ p b hI hm (mu_lt_fuelFor p b)

/-- what a run without error establishes -/
theorem Until.post {p : P} {b : Bytes} {r : R} (h : Until p b r) (hg : Good p) (hm : More p b)
    (he : r.err = none) :
    Good r.p ∧ (r.done = true → startPending r.p = false) ∧
      (r.done = false → r.rest = [] ∧ startPending r.p = false) := by
  induction h with
  | @halt p b hs =>
    refine ⟨good_step hg hm he, (execStep_ok p b hg.inv hm he).done, fun hd => ?_⟩
    rcases hs with hs | hs
    · simp [hd, he] at hs
    · constructor
      · cases hr : (execStep p b).rest with
        | nil => rfl
        | cons x xs => exact absurd (Or.inl (by rw [hr]; simp)) hs
      · cases hp : startPending (execStep p b).p with
        | false => rfl
        | true => exact absurd (Or.inr hp) hs
  | step hd he' hm' _ ih => exact ih (good_step hg hm he') hm' he

/-! ## the split law -/

theorem app_nil (r : R) : app r [] = r := by
  cases r; simp [app]

/-- THE SPLIT LAW OF `feedUntil` ACROSS A READ BOUNDARY.  Let the loop over `a` end with `r`.
Then over `a ++ b`:
  * if `r` is an error, the loop ends with the same error after the same events;
  * if `r` completed a value, the loop ends with the same result and `b` left over in addition;
  * otherwise (all of `a` consumed or parked, no value complete) the loop continues as the
    loop over `b` from `r.p` — same result (after an error: same error, same events). -/
theorem until_split {p : P} {a : Bytes} {r : R} (h : Until p a r) (b : Bytes) :
    Good p → More p a →
    (∀ e, r.err = some e → ∃ r', Until p (a ++ b) r' ∧ r'.err = some e ∧ r'.p.evs = r.p.evs) ∧
    (r.err = none → r.done = true → Until p (a ++ b) (app r b)) ∧
    (r.err = none → r.done = false → b ≠ [] → ∀ r2, Until r.p b r2 →
      ∃ r2', Until p (a ++ b) r2' ∧ Chunk.Sim r2 r2') := by
  induction h with
  | @halt p a hs =>
    intro hg hm
    rcases execStep_split p a hg.inv hm with hext | ⟨k1, k2, k3, k4⟩
    · obtain ⟨x1, x2, x3⟩ := hext b
      refine ⟨fun e he => ?_, fun he hd => ?_, fun he hd hb r2 h2 => ?_⟩
      · exact ⟨_, Until.halt (Or.inl (by simp [x1, he])), by rw [x1, he], x2⟩
      · rw [← x3 he]
        exact Until.halt (Or.inl (by rw [x3 he]; simp [app, hd]))
      · have hx := x3 he
        have hnm : ¬ More (execStep p a).p (execStep p a).rest := by
          rcases hs with hs | hs
          · simp [hd, he] at hs
          · exact hs
        have hrest : (execStep p a).rest = [] := by
          cases hr : (execStep p a).rest with
          | nil => rfl
          | cons x xs => exact absurd (Or.inl (by rw [hr]; simp)) hnm
        refine ⟨r2, Until.step (by rw [hx]; exact hd) (by rw [hx]; exact he) ?_ ?_, Chunk.Sim.refl _⟩
        · rw [hx]; exact Or.inl (by simp [app, hrest, hb])
        · rw [hx]; simpa [app, hrest] using h2
    · refine ⟨fun e he => (by rw [k1] at he; cases he), fun he hd => ?_, fun he hd hb r2 h2 => ?_⟩
      · exact absurd (k4 [0xf4] (by simp)) (fun hsim => done_not_parked p a hg hm he hd k2 hsim)
      · obtain ⟨s1, s2, s3⟩ := k4 b hb
        cases h2 with
        | halt hs2 =>
          cases he2 : (execStep (execStep p a).p b).err with
          | some e =>
            exact ⟨_, Until.halt (Or.inl (by simp [s1, he2])), s1, s2, s3⟩
          | none =>
            have hx := s3 he2
            exact ⟨_, Until.halt (by rw [hx]; exact hs2), Chunk.Sim.of_eq hx⟩
        | step hd2 he2 hm2 h2' =>
          have hx := s3 he2
          refine ⟨r2, Until.step (by rw [hx]; exact hd2) (by rw [hx]; exact he2) (by rw [hx]; exact hm2)
            (by rw [hx]; exact h2'), Chunk.Sim.refl _⟩
  | @step p a r hd he hm' h' ih =>
    intro hg hm
    rcases execStep_split p a hg.inv hm with hext | ⟨k1, k2, k3, k4⟩
    · obtain ⟨x1, x2, x3⟩ := hext b
      have hx := x3 he
      obtain ⟨i1, i2, i3⟩ := ih (good_step hg hm he) hm'
      have hstep : ∀ X, Until (execStep p a).p ((execStep p a).rest ++ b) X → Until p (a ++ b) X := by
        intro X hX
        refine Until.step (by rw [hx]; exact hd) (by rw [hx]; exact he) ?_ (by rw [hx]; exact hX)
        rw [hx]; exact hm'.append b
      refine ⟨fun e he1 => ?_, fun he1 hd1 => hstep _ (i2 he1 hd1), fun he1 hd1 hb r2 h2 => ?_⟩
      · obtain ⟨r', q1, q2, q3⟩ := i1 e he1
        exact ⟨r', hstep _ q1, q2, q3⟩
      · obtain ⟨r2', q1, q2⟩ := i3 he1 hd1 hb r2 h2
        exact ⟨r2', hstep _ q1, q2⟩
    · exfalso
      rw [k2] at hm'
      rcases hm' with h | h
      · exact h rfl
      · rw [k3] at h; cases h

end SF.Cbor.DecR
