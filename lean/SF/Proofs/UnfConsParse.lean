/-
  Completeness of value trees: every basic event list that obeys the Visitor contract automaton
  (`WF1`: exactly one complete document), announces valid base types (`btsValid`) and carries
  numbers inside their kind's range (`numsValid`) IS the event list of a well-formed value tree
  (`UTree.wf`), delivered by value (no `.strRef` leaves, no by-reference keys).

  Proof: a stack of PARTIAL frames (`PF`) mirrors the automaton's stack; the invariant says that
  the events processed so far are the events of the completed top-level trees followed by the
  events emitted by the open frames (`openEvents`); one step of the automaton preserves it.
-/
import SF.Proofs.UnfGenDefs
import SF.Proofs.UnfGenSpec
import SF.Ops.Unfold
namespace SF.Unf.Parse
open SF

/-! ## lists of trees / members: append -/

/-- the per-element condition of `UTree.wf` for a container announced with element type `bt` -/
def elemOk (bt : Nat) (t : UTree) : Bool := if isAnyBT bt then t.wf else t.fits bt

theorem wfList_nil (bt : Nat) : wfList bt [] = true := by rw [wfList]

theorem wfList_cons (bt : Nat) (x : UTree) (r : List UTree) :
    wfList bt (x :: r) = (elemOk bt x && wfList bt r) := by rw [wfList]; rfl

theorem wfMems_nil (bt : Nat) : wfMems bt [] = true := by rw [wfMems]

theorem wfMems_cons (bt : Nat) (b : Bool) (k : Bytes) (x : UTree) (r : List (Bool × Bytes × UTree)) :
    wfMems bt ((b, k, x) :: r) = (elemOk bt x && wfMems bt r) := by rw [wfMems]; rfl

theorem wfList_snoc (bt : Nat) (xs : List UTree) (t : UTree) :
    wfList bt (xs ++ [t]) = (wfList bt xs && elemOk bt t) := by
  induction xs with
  | nil => simp [wfList_cons, wfList_nil]
  | cons x r ih => simp [wfList_cons, ih, Bool.and_assoc]

theorem wfMems_snoc (bt : Nat) (ms : List (Bool × Bytes × UTree)) (b : Bool) (k : Bytes) (t : UTree) :
    wfMems bt (ms ++ [(b, k, t)]) = (wfMems bt ms && elemOk bt t) := by
  induction ms with
  | nil => simp [wfMems_cons, wfMems_nil]
  | cons m r ih =>
    obtain ⟨b', k', x⟩ := m
    simp [wfMems_cons, ih, Bool.and_assoc]

theorem eventsList_nil : eventsList [] = [] := by rw [eventsList]

theorem eventsList_cons (x : UTree) (r : List UTree) : eventsList (x :: r) = x.events ++ eventsList r := by
  rw [eventsList]

theorem eventsMems_nil : eventsMems [] = [] := by rw [eventsMems]

theorem eventsMems_cons (b : Bool) (k : Bytes) (x : UTree) (r : List (Bool × Bytes × UTree)) :
    eventsMems ((b, k, x) :: r) = (if b then UEv.keyRef k else UEv.key k) :: x.events ++ eventsMems r := by
  rw [eventsMems]

theorem eventsList_snoc (xs : List UTree) (t : UTree) :
    eventsList (xs ++ [t]) = eventsList xs ++ t.events := by
  induction xs with
  | nil => simp [eventsList_cons, eventsList_nil]
  | cons x r ih => simp [eventsList_cons, ih]

theorem eventsMems_snoc (ms : List (Bool × Bytes × UTree)) (k : Bytes) (t : UTree) :
    eventsMems (ms ++ [(false, k, t)]) = eventsMems ms ++ UEv.key k :: t.events := by
  induction ms with
  | nil => simp [eventsMems_cons, eventsMems_nil]
  | cons m r ih =>
    obtain ⟨b', k', x⟩ := m
    simp [eventsMems_cons, ih]

/-! ## partial frames -/

/-- an open container: what was announced, the finished elements / members in order, and (objects)
the key whose value is still to come -/
inductive PF
  | arr (l : Int) (bt : Nat) (done : List UTree)
  | obj (l : Int) (bt : Nat) (done : List (Bool × Bytes × UTree)) (key : Option Bytes)

/-- the events an open frame has emitted so far -/
def PF.events : PF → List UEv
  | .arr l bt done => .arrStart l bt :: eventsList done
  | .obj l bt done none => .objStart l bt :: eventsMems done
  | .obj l bt done (some k) => .objStart l bt :: eventsMems done ++ [.key k]

/-- the events a stack of open frames (innermost first) has emitted so far -/
def openEvents : List PF → List UEv
  | [] => []
  | f :: fs => openEvents fs ++ f.events

/-- a finished value goes into the frame -/
def PF.put (t : UTree) : PF → PF
  | .arr l bt done => .arr l bt (done ++ [t])
  | .obj l bt done (some k) => .obj l bt (done ++ [(false, k, t)]) none
  | .obj l bt done none => .obj l bt done none

/-- the frame is closed -/
def PF.close : PF → UTree
  | .arr l bt done => .arr l bt done
  | .obj l bt done _ => .obj l bt done

/-- announced length `l`, the automaton's `remaining`, `n` values accounted for so far -/
def lenRel (l : Int) (rem : Option Nat) (n : Nat) : Prop :=
  (l = -1 ∧ rem = none) ∨ (∃ r : Nat, rem = some r ∧ l = ((n + r : Nat) : Int))

/-- the automaton's frame `w` describes the partial frame; `below = true`: a value of this frame
has been started (accounted for in `w`) and is not finished yet -/
def FrameRel (below : Bool) (w : WFrame) : PF → Prop
  | .arr l bt done =>
    w.isObj = false ∧ w.elem = bt ∧ bt ≤ 16 ∧ wfList bt done = true ∧
      lenRel l w.remaining (done.length + below.toNat)
  | .obj l bt done key =>
    w.isObj = true ∧ w.elem = bt ∧ bt ≤ 16 ∧ wfMems bt done = true ∧
      lenRel l w.remaining (done.length + below.toNat) ∧
      (below = true → w.expectKey = true ∧ key.isSome = true) ∧
      (below = false → (w.expectKey = true ↔ key = none))

/-- frames with an open child: the child is a container, so the element type is `any` -/
def StackRel : List WFrame → List PF → Prop
  | [], [] => True
  | w :: ws, f :: fs => FrameRel true w f ∧ w.elem = BT.any ∧ StackRel ws fs
  | _, _ => False

/-- the whole stack, the innermost frame in state `below` -/
def TopRel (below : Bool) : List WFrame → List PF → Prop
  | [], [] => True
  | w :: ws, f :: fs => FrameRel below w f ∧ StackRel ws fs
  | _, _ => False

/-- the invariant: `top` = the finished documents -/
def Inv (below : Bool) (st : WState) (top : List UTree) (fs : List PF) : Prop :=
  st.docs = top.length ∧ wfList BT.any top = true ∧ TopRel below st.stack fs

/-! ## the automaton, per frame -/

/-- `WState.onValueStart` on the innermost frame -/
def _root_.SF.WFrame.adv (f : WFrame) : Option WFrame :=
  if f.isObj && f.expectKey then none else
  match f.remaining with
  | some 0 => none
  | some (n + 1) => some { f with remaining := some n, expectKey := f.isObj }
  | none => some { f with expectKey := f.isObj }

theorem onValueStart_nil (st : WState) (h : st.stack = []) : st.onValueStart = some st := by
  unfold WState.onValueStart; rw [h]

theorem onValueStart_cons (st : WState) (f : WFrame) (rest : List WFrame) (h : st.stack = f :: rest) :
    st.onValueStart = f.adv.map (fun f' => { st with stack := f' :: rest }) := by
  unfold WState.onValueStart WFrame.adv
  rw [h]
  obtain ⟨io, rem, el, ek⟩ := f
  simp only
  split
  · rfl
  · cases rem with
    | none => rfl
    | some n => cases n <;> rfl

theorem adv_spec (w w' : WFrame) (h : w.adv = some w') :
    w'.isObj = w.isObj ∧ w'.elem = w.elem ∧ w'.expectKey = w.isObj ∧
      (w.isObj = true → w.expectKey = false) ∧
      ((w.remaining = none ∧ w'.remaining = none) ∨
        (∃ n, w.remaining = some (n + 1) ∧ w'.remaining = some n)) := by
  unfold WFrame.adv at h
  split at h
  · cases h
  · rename_i hk
    have hk' : w.isObj = true → w.expectKey = false := by
      intro ho
      cases hx : w.expectKey
      · rfl
      · simp [ho, hx] at hk
    split at h
    · cases h
    · rename_i n hr
      cases h
      exact ⟨rfl, rfl, rfl, hk', Or.inr ⟨n, hr, rfl⟩⟩
    · rename_i hr
      cases h
      exact ⟨rfl, rfl, rfl, hk', Or.inl ⟨hr, hr⟩⟩

theorem lenRel_adv (l : Int) (r r' : Option Nat) (n : Nat) (h : lenRel l r n)
    (hr : (r = none ∧ r' = none) ∨ (∃ m, r = some (m + 1) ∧ r' = some m)) : lenRel l r' (n + 1) := by
  rcases hr with ⟨h1, h2⟩ | ⟨m, h1, h2⟩
  · subst h1 h2
    rcases h with ⟨hl, _⟩ | ⟨r, hr, _⟩
    · exact Or.inl ⟨hl, rfl⟩
    · cases hr
  · subst h1 h2
    rcases h with ⟨_, hr⟩ | ⟨r, hr, hl⟩
    · cases hr
    · cases hr
      exact Or.inr ⟨m, rfl, by omega⟩

/-- a value of the innermost frame starts -/
theorem FrameRel_adv (w w' : WFrame) (f : PF) (h : FrameRel false w f) (ha : w.adv = some w') :
    FrameRel true w' f := by
  obtain ⟨ho, he, hk, hno, hrem⟩ := adv_spec w w' ha
  cases f with
  | arr l bt done =>
    obtain ⟨h1, h2, h3, h4, h5⟩ := h
    refine ⟨by rw [ho, h1], by rw [he, h2], h3, h4, ?_⟩
    exact lenRel_adv l _ _ _ h5 hrem
  | obj l bt done key =>
    obtain ⟨h1, h2, h3, h4, h5, _, h7⟩ := h
    refine ⟨by rw [ho, h1], by rw [he, h2], h3, h4, lenRel_adv l _ _ _ h5 hrem, ?_, ?_⟩
    · intro _
      refine ⟨by rw [hk, h1], ?_⟩
      have hf := hno h1
      cases key with
      | none => have := (h7 rfl).2 rfl; rw [hf] at this; cases this
      | some k => rfl
    · intro hc; cases hc

/-- the started value of the innermost frame is finished -/
theorem FrameRel_put (w : WFrame) (f : PF) (t : UTree) (h : FrameRel true w f) (ht : elemOk w.elem t = true) :
    FrameRel false w (f.put t) ∧ (f.put t).events = f.events ++ t.events := by
  cases f with
  | arr l bt done =>
    obtain ⟨h1, h2, h3, h4, h5⟩ := h
    rw [h2] at ht
    refine ⟨⟨h1, h2, h3, ?_, ?_⟩, ?_⟩
    · rw [wfList_snoc, h4, ht]; rfl
    · simpa [Bool.toNat] using h5
    · simp [PF.put, PF.events, eventsList_snoc]
  | obj l bt done key =>
    obtain ⟨h1, h2, h3, h4, h5, h6, _⟩ := h
    obtain ⟨h6a, h6b⟩ := h6 rfl
    rw [h2] at ht
    cases key with
    | none => cases h6b
    | some k =>
      refine ⟨⟨h1, h2, h3, ?_, ?_, ?_, ?_⟩, ?_⟩
      · rw [wfMems_snoc, h4, ht]; rfl
      · simpa [Bool.toNat] using h5
      · intro hc; cases hc
      · intro _; exact ⟨fun _ => rfl, fun _ => h6a⟩
      · simp [PF.put, PF.events, eventsMems_snoc]

/-! ## the automaton, on the state -/

theorem topElem_nil (st : WState) (h : st.stack = []) : st.topElem = BT.any := by
  unfold WState.topElem; rw [h]

theorem topElem_cons (st : WState) (w : WFrame) (ws : List WFrame) (h : st.stack = w :: ws) :
    st.topElem = w.elem := by
  unfold WState.topElem; rw [h]

/-- a value starts: `onValueStart` -/
theorem Inv_start (st st' : WState) (top : List UTree) (fs : List PF) (h : Inv false st top fs)
    (hs : st.onValueStart = some st') :
    Inv true st' top fs ∧ st'.topElem = st.topElem := by
  obtain ⟨hd, ht, hr⟩ := h
  cases hst : st.stack with
  | nil =>
    rw [onValueStart_nil st hst] at hs
    cases hs
    exact ⟨⟨hd, ht, by rw [hst] at hr ⊢; cases fs <;> exact hr⟩, rfl⟩
  | cons w ws =>
    rw [onValueStart_cons st w ws hst] at hs
    cases ha : w.adv with
    | none => rw [ha] at hs; cases hs
    | some w' =>
      rw [ha] at hs
      cases hs
      rw [hst] at hr
      cases fs with
      | nil => exact hr.elim
      | cons f fs =>
        obtain ⟨hf, hrest⟩ := hr
        refine ⟨⟨hd, ht, FrameRel_adv w w' f hf ha, hrest⟩, ?_⟩
        rw [topElem_cons _ w' ws rfl, topElem_cons st w ws hst]
        exact (adv_spec w w' ha).2.1

/-- the started value `t` is finished: `countDoc` -/
theorem Inv_finish (st : WState) (top : List UTree) (fs : List PF) (t : UTree) (h : Inv true st top fs)
    (ht : elemOk st.topElem t = true) :
    ∃ top1 fs1, Inv false st.countDoc top1 fs1 ∧
      eventsList top1 ++ openEvents fs1 = eventsList top ++ openEvents fs ++ t.events := by
  obtain ⟨hd, hw, hr⟩ := h
  cases hst : st.stack with
  | nil =>
    rw [hst] at hr
    cases fs with
    | cons f fs => exact hr.elim
    | nil =>
      rw [topElem_nil st hst] at ht
      refine ⟨top ++ [t], [], ⟨?_, ?_, ?_⟩, ?_⟩
      · simp [WState.countDoc, hst, hd]
      · rw [wfList_snoc, hw, ht]; rfl
      · simp only [WState.countDoc, hst, List.isEmpty_nil, if_true]; exact True.intro
      · simp [eventsList_snoc, openEvents]
  | cons w ws =>
    rw [hst] at hr
    cases fs with
    | nil => exact hr.elim
    | cons f fs =>
      obtain ⟨hf, hrest⟩ := hr
      rw [topElem_cons st w ws hst] at ht
      obtain ⟨hp, he⟩ := FrameRel_put w f t hf ht
      have hc : st.countDoc = st := by simp [WState.countDoc, hst]
      refine ⟨top, f.put t :: fs, ⟨?_, hw, ?_⟩, ?_⟩
      · rw [hc]; exact hd
      · rw [hc, hst]; exact ⟨hp, hrest⟩
      · simp [openEvents, he]

/-! ## one event -/

/-- the per-event conditions of `btsValid` and `numsValid` -/
def evOk : Ev → Bool
  | .arrStart _ bt => decide (bt ≤ 16)
  | .objStart _ bt => decide (bt ≤ 16)
  | .num k v => k.inRange v
  | _ => true

theorem lenOk_rel (len : Int) (rem : Option Nat) (h : lenOk len = some rem) : lenRel len rem 0 := by
  unfold lenOk at h
  split at h
  · rename_i h1
    cases h
    exact Or.inl ⟨by simpa using h1, rfl⟩
  · split at h
    · rename_i h2
      cases h
      exact Or.inr ⟨len.toNat, rfl, by simp only [Nat.zero_add]; omega⟩
    · cases h

/-- a scalar event is a value of the enclosing frame -/
theorem step_scalar_inv (st st1 : WState) (e : Ev) (s : Sc) (top : List UTree) (fs : List PF)
    (h : Inv false st top fs)
    (hm : e.matchesBT st.topElem = true → elemOk st.topElem (.scalar s) = true)
    (hs : (if !e.matchesBT st.topElem then none else
            match st.onValueStart with
            | none => none
            | some st' => some st'.countDoc) = some st1) :
    ∃ top1 fs1, Inv false st1 top1 fs1 ∧
      eventsList top1 ++ openEvents fs1 = eventsList top ++ openEvents fs ++ [UEv.scalar s] := by
  cases hmb : e.matchesBT st.topElem with
  | false => simp [hmb] at hs
  | true =>
    simp only [hmb, Bool.not_true, Bool.false_eq_true, if_false] at hs
    cases hv : st.onValueStart with
    | none => rw [hv] at hs; cases hs
    | some st' =>
      rw [hv] at hs
      cases hs
      obtain ⟨hi, hte⟩ := Inv_start st st' top fs h hv
      have := Inv_finish st' top fs (.scalar s) hi (by rw [hte]; exact hm hmb)
      simpa [UTree.events] using this

theorem elemOk_any (t : UTree) : elemOk BT.any t = t.wf := rfl

theorem scalar_ok_nil (bt : Nat) (h : Ev.null.matchesBT bt = true) : elemOk bt (.scalar .nil) = true := by
  have h' : isAnyBT bt = true := h
  simp [elemOk, h', UTree.wf, Sc.inRange]

theorem scalar_ok_bool (bt : Nat) (b : Bool) (h : (Ev.bool b).matchesBT bt = true) :
    elemOk bt (.scalar (.bool b)) = true := by
  unfold elemOk
  split
  · simp [UTree.wf, Sc.inRange]
  · rename_i hn
    simp only [Ev.matchesBT, Bool.or_eq_true] at h
    simp only [isAnyBT, Bool.or_eq_true, not_or] at hn
    simp only [UTree.fits, Sc.fits]
    rcases h with h | h
    · exact (hn.1 h).elim
    · exact h

theorem scalar_ok_str (bt : Nat) (x : Bytes) (h : (Ev.str x).matchesBT bt = true) :
    elemOk bt (.scalar (.str x)) = true := by
  unfold elemOk
  split
  · simp [UTree.wf, Sc.inRange]
  · rename_i hn
    simp only [Ev.matchesBT, Bool.or_eq_true] at h
    simp only [isAnyBT, Bool.or_eq_true, not_or] at hn
    simp only [UTree.fits, Sc.fits]
    rcases h with h | h
    · exact (hn.1 h).elim
    · exact h

theorem scalar_ok_f32 (bt : Nat) (x : UInt32) (h : (Ev.f32 x).matchesBT bt = true) :
    elemOk bt (.scalar (.f32 x)) = true := by
  unfold elemOk
  split
  · simp [UTree.wf, Sc.inRange]
  · rename_i hn
    simp only [Ev.matchesBT, Bool.or_eq_true] at h
    simp only [isAnyBT, Bool.or_eq_true, not_or] at hn
    simp only [UTree.fits, Sc.fits]
    rcases h with h | h
    · exact (hn.1 h).elim
    · exact h

theorem scalar_ok_f64 (bt : Nat) (x : UInt64) (h : (Ev.f64 x).matchesBT bt = true) :
    elemOk bt (.scalar (.f64 x)) = true := by
  unfold elemOk
  split
  · simp [UTree.wf, Sc.inRange]
  · rename_i hn
    simp only [Ev.matchesBT, Bool.or_eq_true] at h
    simp only [isAnyBT, Bool.or_eq_true, not_or] at hn
    simp only [UTree.fits, Sc.fits]
    rcases h with h | h
    · exact (hn.1 h).elim
    · exact h

theorem scalar_ok_num (bt : Nat) (k : NumKind) (v : Int) (hr : k.inRange v = true)
    (h : (Ev.num k v).matchesBT bt = true) : elemOk bt (.scalar (.num k v)) = true := by
  unfold elemOk
  split
  · simp [UTree.wf, Sc.inRange, hr]
  · rename_i hn
    simp only [Ev.matchesBT, Bool.or_eq_true] at h
    simp only [isAnyBT, Bool.or_eq_true, not_or] at hn
    simp only [UTree.fits, Sc.fits, hr, Bool.true_and, Bool.or_eq_true]
    rcases h with (h | h) | h
    · exact (hn.1 h).elim
    · exact Or.inl h
    · exact Or.inr h

/-- a container starts -/
theorem step_start_inv (st st' : WState) (top : List UTree) (fs : List PF) (w : WFrame) (f : PF)
    (h : Inv false st top fs) (hany : (st.topElem != BT.any) = false)
    (hv : st.onValueStart = some st') (hf : FrameRel false w f) :
    Inv false { st' with stack := w :: st'.stack } top (f :: fs) := by
  obtain ⟨⟨hd, ht, hr⟩, hte⟩ := Inv_start st st' top fs h hv
  have hany' : st'.topElem = BT.any := by
    rw [hte]; simpa using hany
  refine ⟨hd, ht, hf, ?_⟩
  cases hst : st'.stack with
  | nil =>
    rw [hst] at hr
    cases fs with
    | nil => exact True.intro
    | cons _ _ => exact hr.elim
  | cons w2 ws =>
    rw [hst] at hr
    cases fs with
    | nil => exact hr.elim
    | cons f2 fs =>
      rw [topElem_cons st' w2 ws hst] at hany'
      exact ⟨hr.1, hany', hr.2⟩

/-- a container ends -/
theorem step_end_inv (st : WState) (top : List UTree) (fs : List PF) (w : WFrame) (ws : List WFrame)
    (f : PF) (hst : st.stack = w :: ws) (h : Inv false st top (f :: fs)) (hwf : f.close.wf = true) :
    ∃ top1 fs1, Inv false ({ st with stack := ws } : WState).countDoc top1 fs1 ∧
      eventsList top1 ++ openEvents fs1 = eventsList top ++ openEvents fs ++ f.close.events := by
  obtain ⟨hd, ht, hr⟩ := h
  rw [hst] at hr
  obtain ⟨_, hrest⟩ := hr
  apply Inv_finish
  · refine ⟨hd, ht, ?_⟩
    show TopRel true ws fs
    cases ws with
    | nil => cases fs with
      | nil => exact True.intro
      | cons _ _ => exact hrest.elim
    | cons w2 ws => cases fs with
      | nil => exact hrest.elim
      | cons f2 fs => exact ⟨hrest.1, hrest.2.2⟩
  · show elemOk (WState.topElem { st with stack := ws }) f.close = true
    cases ws with
    | nil => rw [topElem_nil _ rfl, elemOk_any]; exact hwf
    | cons w2 ws =>
      rw [topElem_cons _ w2 ws rfl]
      cases fs with
      | nil => exact hrest.elim
      | cons f2 fs => rw [hrest.2.1, elemOk_any]; exact hwf

theorem close_arr_events (l : Int) (bt : Nat) (done : List UTree) :
    (PF.arr l bt done).close.events = (PF.arr l bt done).events ++ [.arrEnd] := by
  simp [PF.close, PF.events, UTree.events]

theorem close_obj_events (l : Int) (bt : Nat) (done : List (Bool × Bytes × UTree)) :
    (PF.obj l bt done none).close.events = (PF.obj l bt done none).events ++ [.objEnd] := by
  simp [PF.close, PF.events, UTree.events]

theorem lenRel_end (l : Int) (rem : Option Nat) (n : Nat) (h : lenRel l rem n)
    (hr : (rem == none || rem == some 0) = true) : l ≤ (n : Int) := by
  rcases h with ⟨hl, _⟩ | ⟨r, h1, hl⟩
  · omega
  · subst h1
    have : r = 0 := by simpa using hr
    omega

/-- one step of the contract automaton keeps the invariant and emits the event -/
theorem step_inv (st st1 : WState) (e : Ev) (top : List UTree) (fs : List PF)
    (h : Inv false st top fs) (hs : st.step e = some st1) (hok : evOk e = true) :
    ∃ top1 fs1, Inv false st1 top1 fs1 ∧
      eventsList top1 ++ openEvents fs1 =
        eventsList top ++ openEvents fs ++ [SF.Ops.Unf.evToUEv e] := by
  cases e with
  | null => exact step_scalar_inv st st1 _ .nil top fs h (scalar_ok_nil _) hs
  | bool b => exact step_scalar_inv st st1 _ (.bool b) top fs h (scalar_ok_bool _ b) hs
  | str x => exact step_scalar_inv st st1 _ (.str x) top fs h (scalar_ok_str _ x) hs
  | f32 x => exact step_scalar_inv st st1 _ (.f32 x) top fs h (scalar_ok_f32 _ x) hs
  | f64 x => exact step_scalar_inv st st1 _ (.f64 x) top fs h (scalar_ok_f64 _ x) hs
  | num k v => exact step_scalar_inv st st1 _ (.num k v) top fs h (scalar_ok_num _ k v hok) hs
  | key k =>
    simp only [WState.step] at hs
    obtain ⟨hd, ht, hr⟩ := h
    cases hst : st.stack with
    | nil => rw [hst] at hs; cases hs
    | cons w ws =>
      rw [hst] at hs hr
      simp only at hs
      split at hs
      · rename_i hc
        cases hs
        cases fs with
        | nil => exact hr.elim
        | cons f fs =>
          obtain ⟨hf, hrest⟩ := hr
          simp only [Bool.and_eq_true] at hc
          cases f with
          | arr l bt done => rw [hf.1] at hc; cases hc.1
          | obj l bt done key =>
            obtain ⟨h1, h2, h3, h4, h5, _, h7⟩ := hf
            have hkey : key = none := (h7 rfl).1 hc.2
            subst hkey
            refine ⟨top, .obj l bt done (some k) :: fs, ⟨hd, ht, ⟨h1, h2, h3, h4, h5, ?_, ?_⟩, hrest⟩, ?_⟩
            · intro hc; cases hc
            · intro _; exact ⟨fun hc => (by cases hc), fun hc => (by cases hc)⟩
            · simp [openEvents, PF.events, SF.Ops.Unf.evToUEv]
      · cases hs
  | arrStart len bt =>
    simp only [WState.step] at hs
    cases hl : lenOk len with
    | none => rw [hl] at hs; cases hs
    | some rem =>
      rw [hl] at hs
      simp only at hs
      cases hany : (st.topElem != BT.any) with
      | true => simp [hany] at hs
      | false =>
        simp only [hany, Bool.false_eq_true, if_false] at hs
        cases hv : st.onValueStart with
        | none => rw [hv] at hs; cases hs
        | some st' =>
          rw [hv] at hs
          cases hs
          refine ⟨top, .arr len bt [] :: fs, ?_, ?_⟩
          · apply step_start_inv st st' top fs _ _ h hany hv
            exact ⟨rfl, rfl, by simpa [evOk] using hok, wfList_nil bt, by simpa using lenOk_rel len rem hl⟩
          · simp [openEvents, PF.events, eventsList_nil, SF.Ops.Unf.evToUEv]
  | objStart len bt =>
    simp only [WState.step] at hs
    cases hl : lenOk len with
    | none => rw [hl] at hs; cases hs
    | some rem =>
      rw [hl] at hs
      simp only at hs
      cases hany : (st.topElem != BT.any) with
      | true => simp [hany] at hs
      | false =>
        simp only [hany, Bool.false_eq_true, if_false] at hs
        cases hv : st.onValueStart with
        | none => rw [hv] at hs; cases hs
        | some st' =>
          rw [hv] at hs
          cases hs
          refine ⟨top, .obj len bt [] none :: fs, ?_, ?_⟩
          · apply step_start_inv st st' top fs _ _ h hany hv
            refine ⟨rfl, rfl, by simpa [evOk] using hok, wfMems_nil bt, by simpa using lenOk_rel len rem hl, ?_, ?_⟩
            · intro hc; cases hc
            · intro _; exact ⟨fun _ => rfl, fun _ => rfl⟩
          · simp [openEvents, PF.events, eventsMems_nil, SF.Ops.Unf.evToUEv]
  | arrEnd =>
    simp only [WState.step] at hs
    cases hst : st.stack with
    | nil => rw [hst] at hs; cases hs
    | cons w ws =>
      rw [hst] at hs
      simp only at hs
      split at hs
      · rename_i hc
        cases hs
        simp only [Bool.and_eq_true, Bool.not_eq_true'] at hc
        cases fs with
        | nil => have := h.2.2; rw [hst] at this; exact this.elim
        | cons f fs =>
          have hf : FrameRel false w f := by have := h.2.2; rw [hst] at this; exact this.1
          cases f with
          | obj l bt done key => rw [hf.1] at hc; cases hc.1
          | arr l bt done =>
            obtain ⟨h1, h2, h3, h4, h5⟩ := hf
            have hlen := lenRel_end l _ _ h5 hc.2
            have hwf : (PF.arr l bt done).close.wf = true := by
              simp only [PF.close, UTree.wf, h4, Bool.and_true, Bool.and_eq_true, decide_eq_true_eq]
              exact ⟨by simpa [Bool.toNat] using hlen, h3⟩
            have := step_end_inv st top fs w ws _ hst h hwf
            rw [close_arr_events] at this
            simpa [openEvents, SF.Ops.Unf.evToUEv, List.append_assoc] using this
      · cases hs
  | objEnd =>
    simp only [WState.step] at hs
    cases hst : st.stack with
    | nil => rw [hst] at hs; cases hs
    | cons w ws =>
      rw [hst] at hs
      simp only at hs
      split at hs
      · rename_i hc
        cases hs
        simp only [Bool.and_eq_true] at hc
        cases fs with
        | nil => have := h.2.2; rw [hst] at this; exact this.elim
        | cons f fs =>
          have hf : FrameRel false w f := by have := h.2.2; rw [hst] at this; exact this.1
          cases f with
          | arr l bt done => rw [hf.1] at hc; cases hc.1.1
          | obj l bt done key =>
            obtain ⟨h1, h2, h3, h4, h5, _, h7⟩ := hf
            have hkey : key = none := (h7 rfl).1 hc.1.2
            subst hkey
            have hwf : (PF.obj l bt done none).close.wf = true := by
              simp only [PF.close, UTree.wf, h4, Bool.and_true, decide_eq_true_eq]
              exact h3
            have := step_end_inv st top fs w ws _ hst h hwf
            rw [close_obj_events] at this
            simpa [openEvents, SF.Ops.Unf.evToUEv, List.append_assoc] using this
      · cases hs

/-! ## the whole run -/

theorem evOk_of_valid (e : Ev) (evs : List Ev) (hb : SF.Ops.Unf.btsValid (e :: evs) = true)
    (hn : SF.Ops.Unf.numsValid (e :: evs) = true) :
    evOk e = true ∧ SF.Ops.Unf.btsValid evs = true ∧ SF.Ops.Unf.numsValid evs = true := by
  simp only [SF.Ops.Unf.btsValid, SF.Ops.Unf.numsValid, List.all_cons, Bool.and_eq_true] at hb hn ⊢
  refine ⟨?_, hb.2, hn.2⟩
  cases e <;> first | rfl | exact hb.1 | exact hn.1

theorem run_inv (evs : List Ev) (st st1 : WState) (top : List UTree) (fs : List PF)
    (h : Inv false st top fs) (hs : st.run evs = some st1)
    (hb : SF.Ops.Unf.btsValid evs = true) (hn : SF.Ops.Unf.numsValid evs = true) :
    ∃ top1 fs1, Inv false st1 top1 fs1 ∧
      eventsList top1 ++ openEvents fs1 =
        eventsList top ++ openEvents fs ++ evs.map SF.Ops.Unf.evToUEv := by
  induction evs generalizing st top fs with
  | nil =>
    simp only [WState.run] at hs
    cases hs
    exact ⟨top, fs, h, by simp⟩
  | cons e evs ih =>
    obtain ⟨hok, hb', hn'⟩ := evOk_of_valid e evs hb hn
    simp only [WState.run] at hs
    cases hst : st.step e with
    | none => rw [hst] at hs; cases hs
    | some st2 =>
      rw [hst] at hs
      obtain ⟨top2, fs2, hi2, he2⟩ := step_inv st st2 e top fs h hst hok
      obtain ⟨top1, fs1, hi1, he1⟩ := ih st2 top2 fs2 hi2 hs hb' hn'
      refine ⟨top1, fs1, hi1, ?_⟩
      rw [he1, he2]
      simp

/-- COMPLETENESS OF TREES: a contract-conforming single document with valid base types and
in-range numbers is the event list of a well-formed value tree -/
theorem tree_of_wf1 (evs : List Ev) (h1 : WF1 evs = true)
    (hb : SF.Ops.Unf.btsValid evs = true) (hn : SF.Ops.Unf.numsValid evs = true) :
    ∃ t : UTree, t.wf = true ∧ t.events = evs.map SF.Ops.Unf.evToUEv := by
  unfold WF1 at h1
  cases hr : ({} : WState).run evs with
  | none => rw [hr] at h1; cases h1
  | some st1 =>
    rw [hr] at h1
    simp only [Bool.and_eq_true, List.isEmpty_iff, beq_iff_eq] at h1
    obtain ⟨hstk, hdocs⟩ := h1
    have h0 : Inv false ({} : WState) [] [] := ⟨rfl, wfList_nil _, True.intro⟩
    obtain ⟨top1, fs1, ⟨hd, hw, hrel⟩, he⟩ := run_inv evs {} st1 [] [] h0 hr hb hn
    rw [hstk] at hrel
    cases fs1 with
    | cons _ _ => exact hrel.elim
    | nil =>
      rw [hdocs] at hd
      match top1, hd with
      | [t], _ =>
        refine ⟨t, ?_, ?_⟩
        · rw [wfList_cons, wfList_nil, Bool.and_true, elemOk_any] at hw
          exact hw
        · simpa [eventsList_cons, eventsList_nil, openEvents] using he

/-! ## corollary: the specification's reader -/

theorem toEv_evToUEv (e : Ev) : UEv.toEv (SF.Ops.Unf.evToUEv e) = e := by
  cases e <;> rfl

theorem map_toEv_evToUEv (evs : List Ev) : (evs.map SF.Ops.Unf.evToUEv).map UEv.toEv = evs := by
  induction evs with
  | nil => rfl
  | cons e r ih => simp only [List.map_cons, toEv_evToUEv, ih]

/-- … and the specification's own reader (`Spec.sbuild`, the C13 oracle) builds exactly the
specification tree of that value tree from the events -/
theorem tree_of_wf1_spec (evs : List Ev) (h1 : WF1 evs = true)
    (hb : SF.Ops.Unf.btsValid evs = true) (hn : SF.Ops.Unf.numsValid evs = true) :
    ∃ t : UTree, t.wf = true ∧ t.events = evs.map SF.Ops.Unf.evToUEv ∧
      Spec.sbuild evs = some t.toS := by
  obtain ⟨t, hw, he⟩ := tree_of_wf1 evs h1 hb hn
  refine ⟨t, hw, he, ?_⟩
  have := sbuild_events t
  rw [he, map_toEv_evToUEv] at this
  exact this

/-! ## non-vacuity -/

/-- `{"a": [null, [i8: 1, -2]], "b": null, "c": [zero: null, null]}` with announced and unknown
lengths -/
example :
    let evs : List Ev :=
      [.objStart 3 BT.any,
        .key [97], .arrStart (-1) BT.any, .null,
          .arrStart 2 BT.int8, .num .i8 1, .num .i8 (-2), .arrEnd, .arrEnd,
        .key [98], .null,
        .key [99], .arrStart 2 BT.zero, .null, .null, .arrEnd,
       .objEnd]
    WF1 evs = true ∧ SF.Ops.Unf.btsValid evs = true ∧ SF.Ops.Unf.numsValid evs = true := by
  decide +kernel

end SF.Unf.Parse
