/-
  Targets with structs, part 13: the FAMILY of target types `tts` as a decidable predicate, with the
  decidable checks it is made of: equality of types (`beqTy`; the universe derives none), the layout of a
  value (`hasTyB`, sound for `HasTy`), the length of the pointer chain a type starts with (`pchB`).
-/
import SF.Proofs.UnfStrStep
namespace SF.Unf.Str
open SF SF.Unf

/-! ## decidable equality of types -/

mutual
def beqTy : GoType → GoType → Bool
  | .bool, .bool | .string, .string | .float32, .float32 | .float64, .float64 | .ifc, .ifc => true
  | .int a, .int b => decide (a = b)
  | .slice a, .slice b | .map a, .map b | .ptr a, .ptr b | .imap a, .imap b => beqTy a b
  | .array n a, .array m b => decide (n = m) && beqTy a b
  | .other k, .other k' => decide (k = k')
  | .struct n fs, .struct m gs => decide (n = m) && beqFs fs gs
  | .named n u, .named n' u' => decide (n = n') && beqTy u u'
  | .ref n, .ref n' => decide (n = n')
  | _, _ => false
def beqFs : List (String × String × GoType) → List (String × String × GoType) → Bool
  | [], [] => true
  | (a, b, t) :: fs, (a', b', t') :: gs => decide (a = a') && decide (b = b') && beqTy t t' && beqFs fs gs
  | _, _ => false
end

mutual
theorem beqTy_eq : ∀ (a b : GoType), beqTy a b = true → a = b
  | .bool, b, h => by cases b <;> simp_all [beqTy]
  | .string, b, h => by cases b <;> simp_all [beqTy]
  | .float32, b, h => by cases b <;> simp_all [beqTy]
  | .float64, b, h => by cases b <;> simp_all [beqTy]
  | .ifc, b, h => by cases b <;> simp_all [beqTy]
  | .int k, b, h => by cases b <;> simp_all [beqTy]
  | .ref n, b, h => by cases b <;> simp_all [beqTy]
  | .other k, b, h => by cases b <;> simp_all [beqTy]
  | .slice a, b, h => by
    cases b <;> simp only [beqTy, Bool.false_eq_true] at h
    rw [beqTy_eq a _ h]
  | .map a, b, h => by
    cases b <;> simp only [beqTy, Bool.false_eq_true] at h
    rw [beqTy_eq a _ h]
  | .ptr a, b, h => by
    cases b <;> simp only [beqTy, Bool.false_eq_true] at h
    rw [beqTy_eq a _ h]
  | .imap a, b, h => by
    cases b <;> simp only [beqTy, Bool.false_eq_true] at h
    rw [beqTy_eq a _ h]
  | .array n a, b, h => by
    cases b <;> simp only [beqTy, Bool.false_eq_true, Bool.and_eq_true, decide_eq_true_eq] at h
    rw [h.1, beqTy_eq a _ h.2]
  | .struct n fs, b, h => by
    cases b <;> simp only [beqTy, Bool.false_eq_true, Bool.and_eq_true, decide_eq_true_eq] at h
    rw [h.1, beqFs_eq fs _ h.2]
  | .named n u, b, h => by
    cases b <;> simp only [beqTy, Bool.false_eq_true, Bool.and_eq_true, decide_eq_true_eq] at h
    rw [h.1, beqTy_eq u _ h.2]
theorem beqFs_eq : ∀ (a b : List (String × String × GoType)), beqFs a b = true → a = b
  | [], b, h => by cases b <;> simp_all [beqFs]
  | (x, y, t) :: fs, b, h => by
    cases b with
    | nil => simp [beqFs] at h
    | cons g gs =>
      obtain ⟨x', y', t'⟩ := g
      simp only [beqFs, Bool.and_eq_true, decide_eq_true_eq] at h
      rw [h.1.1.1, h.1.1.2, beqTy_eq t _ h.1.2, beqFs_eq fs _ h.2]
end

/-! ## the layout of a value, decidably -/

def isMapValB : GoVal → Bool
  | .mapNil _ => true
  | .map _ _ => true
  | _ => false

theorem isMapValB_iff (v : GoVal) (h : isMapValB v = true) : isMapVal v := by
  cases v <;> first | trivial | (simp [isMapValB] at h)

mutual
def hasTyB (tbl : TypeTable) : GoType → GoVal → Bool
  | t, .sliceNil e' => match t.un tbl with
    | .slice e => beqTy e e'
    | .map _ => false
    | .struct _ _ => false
    | _ => true
  | t, .slice e' es h => match t.un tbl with
    | .slice e => beqTy e e' && allTyB tbl e' es && allTyB tbl e' h
    | .map _ => false
    | .struct _ _ => false
    | _ => true
  | t, .struct vs => match t.un tbl with
    | .slice _ => false
    | .map _ => false
    | .struct _ fs => fieldsTyB tbl fs vs
    | _ => true
  | t, v => match t.un tbl with
    | .slice _ => false
    | .map _ => isMapValB v
    | .struct _ _ => false
    | _ => true
def allTyB (tbl : TypeTable) : GoType → List GoVal → Bool
  | _, [] => true
  | e, x :: r => hasTyB tbl e x && allTyB tbl e r
def fieldsTyB (tbl : TypeTable) : List (String × String × GoType) → List GoVal → Bool
  | [], [] => true
  | f :: fs, v :: vs => hasTyB tbl f.2.2 v && fieldsTyB tbl fs vs
  | _, _ => false
end

theorem flat_of_un {tbl : TypeTable} {t : GoType} (h1 : ∀ e, t.un tbl ≠ .slice e) (h2 : ∀ e, t.un tbl ≠ .map e)
    (h3 : ∀ n fs, t.un tbl ≠ .struct n fs) : Flat tbl t := by
  unfold Flat
  split
  · rename_i e h; exact absurd h (h1 e)
  · rename_i e h; exact absurd h (h2 e)
  · rename_i n fs h; exact absurd h (h3 n fs)
  · trivial

theorem hasTyB_other (tbl : TypeTable) (t : GoType) (v : GoVal)
    (h : (match t.un tbl with | .slice _ => false | .map _ => isMapValB v | .struct _ _ => false | _ => true) = true)
    (hv : isMapValB v = false) : HasTy tbl t v := by
  split at h
  · cases h
  · rw [hv] at h; cases h
  · cases h
  · rename_i h1 h2 h3; exact .flat _ _ (flat_of_un (fun e he => h1 e he) (fun e he => h2 e he) (fun n fs he => h3 n fs he))
theorem hasTyB_map (tbl : TypeTable) (t : GoType) (v : GoVal)
    (h : (match t.un tbl with | .slice _ => false | .map _ => isMapValB v | .struct _ _ => false | _ => true) = true)
    (hv : isMapVal v) : HasTy tbl t v := by
  split at h
  · cases h
  · rename_i e hu; exact .map _ e _ hu hv
  · cases h
  · rename_i h1 h2 h3; exact .flat _ _ (flat_of_un (fun e he => h1 e he) (fun e he => h2 e he) (fun n fs he => h3 n fs he))


mutual
theorem hasTyB_sound (tbl : TypeTable) : ∀ (v : GoVal) (t : GoType), hasTyB tbl t v = true → HasTy tbl t v
  | .sliceNil e', t, h => by
    rw [hasTyB] at h
    split at h
    · rename_i e hu; rw [← beqTy_eq _ _ h]; exact .sliceNil _ _ hu
    · cases h
    · cases h
    · rename_i h1 h2 h3; exact .flat _ _ (flat_of_un (fun e he => h1 e he) (fun e he => h2 e he) (fun n fs he => h3 n fs he))
  | .slice e' es hd, t, h => by
    rw [hasTyB] at h
    split at h
    · rename_i e hu
      simp only [Bool.and_eq_true] at h
      have := beqTy_eq _ _ h.1.1
      subst this
      exact .slice _ _ _ _ hu (allTyB_sound tbl es e h.1.2) (allTyB_sound tbl hd e h.2)
    · cases h
    · cases h
    · rename_i h1 h2 h3; exact .flat _ _ (flat_of_un (fun e he => h1 e he) (fun e he => h2 e he) (fun n fs he => h3 n fs he))
  | .struct vs, t, h => by
    rw [hasTyB] at h
    split at h
    · cases h
    · cases h
    · rename_i n fs hu
      obtain ⟨hl, hall⟩ := fieldsTyB_sound tbl vs fs h
      exact .struct _ n fs vs hu hl hall
    · rename_i h1 h2 h3; exact .flat _ _ (flat_of_un (fun e he => h1 e he) (fun e he => h2 e he) (fun n fs he => h3 n fs he))
  | .bool b, t, h => hasTyB_other tbl t _ (by simpa [hasTyB] using h) (by simp [isMapValB])
  | .str s, t, h => hasTyB_other tbl t _ (by simpa [hasTyB] using h) (by simp [isMapValB])
  | .int k v, t, h => hasTyB_other tbl t _ (by simpa [hasTyB] using h) (by simp [isMapValB])
  | .f32 b, t, h => hasTyB_other tbl t _ (by simpa [hasTyB] using h) (by simp [isMapValB])
  | .f64 b, t, h => hasTyB_other tbl t _ (by simpa [hasTyB] using h) (by simp [isMapValB])
  | .ifcNil, t, h => hasTyB_other tbl t _ (by simpa [hasTyB] using h) (by simp [isMapValB])
  | .ifc v, t, h => hasTyB_other tbl t _ (by simpa [hasTyB] using h) (by simp [isMapValB])
  | .mapNil et, t, h => hasTyB_map tbl t _ (by simpa [hasTyB] using h) trivial
  | .map et ms, t, h => hasTyB_map tbl t _ (by simpa [hasTyB] using h) trivial
  | .ptrNil et, t, h => hasTyB_other tbl t _ (by simpa [hasTyB] using h) (by simp [isMapValB])
  | .ptr et v, t, h => hasTyB_other tbl t _ (by simpa [hasTyB] using h) (by simp [isMapValB])
  | .opaque p, t, h => hasTyB_other tbl t _ (by simpa [hasTyB] using h) (by simp [isMapValB])
  | .invalid, t, h => hasTyB_other tbl t _ (by simpa [hasTyB] using h) (by simp [isMapValB])
theorem allTyB_sound (tbl : TypeTable) : ∀ (vs : List GoVal) (e : GoType), allTyB tbl e vs = true →
    ∀ x ∈ vs, HasTy tbl e x
  | [], e, _ => by intro x hx; cases hx
  | v :: vs, e, h => by
    simp only [allTyB, Bool.and_eq_true] at h
    intro x hx
    rcases List.mem_cons.mp hx with hxv | hx
    · rw [hxv]; exact hasTyB_sound tbl v e h.1
    · exact allTyB_sound tbl vs e h.2 x hx
theorem fieldsTyB_sound (tbl : TypeTable) : ∀ (vs : List GoVal) (fs : List (String × String × GoType)),
    fieldsTyB tbl fs vs = true →
    vs.length = fs.length ∧ ∀ (i : Nat) (f : String × String × GoType) (x : GoVal), fs[i]? = some f → vs[i]? = some x →
      HasTy tbl f.2.2 x
  | [], fs, h => by
    cases fs with
    | nil => exact ⟨rfl, fun i f x hf => by simp at hf⟩
    | cons f fs => simp [fieldsTyB] at h
  | v :: vs, fs, h => by
    cases fs with
    | nil => simp [fieldsTyB] at h
    | cons f fs =>
      simp only [fieldsTyB, Bool.and_eq_true] at h
      obtain ⟨hl, hall⟩ := fieldsTyB_sound tbl vs fs h.2
      refine ⟨by simp [hl], ?_⟩
      intro i g x hg hx
      cases i with
      | zero =>
        simp only [List.getElem?_cons_zero, Option.some.injEq] at hg hx
        rw [← hg, ← hx]
        exact hasTyB_sound tbl v _ h.1
      | succ i =>
        simp only [List.getElem?_cons_succ] at hg hx
        exact hall i g x hg hx
end
/-! ## the pointer chain a type starts with -/

def pchB (tbl : TypeTable) : Nat → GoType → Bool
  | 0, _ => false
  | f + 1, t => match t.un tbl with
    | .ptr e => pchB tbl f e
    | _ => true

theorem pchB_sound (tbl : TypeTable) : ∀ (f : Nat) (t : GoType), pchB tbl f t = true → Pch tbl t f := by
  intro f
  induction f with
  | zero => intro t h; simp [pchB] at h
  | succ f ih =>
    intro t h
    rw [pchB] at h
    split at h
    · rename_i e hu; exact .step _ e f hu (ih e h)
    · rename_i hn; exact .stop _ _ (fun e he => hn e he)

/-! ## the family -/

/-- bound on the pointer chains of element types (`typeFuel` = 256 = `chainMax + 2`) -/
def chainMax : Nat := 254

/-- what is asked of the element type of a slice, map or pointer type: the zero value the mirror makes
for it is laid out like a value of the type (fails only where `zero`'s fuel, 256, is exhausted: types nested
BY VALUE deeper than that), and the pointer chain it starts with ends (`type P *P` does not) -/
def elemOK (tbl : TypeTable) (e : GoType) : Bool := hasTyB tbl e (zero tbl e) && pchB tbl chainMax e

/-- the name `n` means, in the type table, the type this occurrence spells out -/
def nameOK (tbl : TypeTable) (n : String) (t : GoType) : Bool := beqTy (t.un tbl) ((GoType.ref n).un tbl)

mutual
/-- THE FAMILY, local part: bool, string, the integer and float kinds, `interface{}`; `[]T`, `map[string]T`,
`*T`; struct types (all fields in the family); named types; references to the named types `ns` of the
table.  Not in the family: arrays, maps with other keys, chan / func / complex / uintptr (`SetTarget`
refuses them in exported fields; here they are excluded everywhere). -/
def tts (tbl : TypeTable) (ns : List String) : GoType → Bool
  | .bool | .string | .int _ | .float32 | .float64 | .ifc => true
  | .slice e => tts tbl ns e && elemOK tbl e
  | .map e => tts tbl ns e && elemOK tbl e
  | .ptr e => tts tbl ns e && elemOK tbl e
  | .struct n fs => ttsFs tbl ns fs && (n.isEmpty || (ns.contains n && nameOK tbl n (.struct n fs)))
  | .named n u => tts tbl ns u && ns.contains n && nameOK tbl n (.named n u)
  | .ref n => ns.contains n
  | .array _ _ => false
  | .imap _ => false
  | .other _ => false
def ttsFs (tbl : TypeTable) (ns : List String) : List (String × String × GoType) → Bool
  | [] => true
  | f :: r => tts tbl ns f.2.2 && ttsFs tbl ns r
end

/-- the named types `ns` of the table are in the family (`ns` is closed: every reference inside them is
to a name of `ns` again) -/
def ttsTbl (tbl : TypeTable) (ns : List String) : Bool :=
  ns.all fun n => match tbl n with
    | some t => tts tbl ns t
    | none => false

/-- THE FAMILY `TTS`: `t` and the named types `ns` it refers to (directly or indirectly) are in the family -/
def TTS (tbl : TypeTable) (ns : List String) (t : GoType) : Bool := tts tbl ns t && ttsTbl tbl ns

end SF.Unf.Str
