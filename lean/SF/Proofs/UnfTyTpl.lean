/-
  Typed targets, part 7: the template frames (`unfolderX`, `unfolderArrX`, `unfolderMapX`) —
  scalars, keys, their own start events.
-/
import SF.Proofs.UnfTyInv
namespace SF.Unf
open SF

variable {D : Nat} {base : S6} {fs : List Frame} {c : Ctx}

theorem sliceFlat_ok (v : GoVal) : (Sh.slice 0 .flat).ok v ↔ isSliceVal v := by
  constructor
  · exact Sh.ok_isSlice
  · intro h
    unfold Sh.ok
    cases v <;> try exact h.elim
    · rename_i et; exact Or.inl ⟨et, fun _ => trivial, rfl, rfl⟩
    · rename_i et es hd
      exact Or.inr ⟨et, es, hd, fun _ => trivial, rfl, fun _ _ => trivial, fun _ _ => trivial, Nat.zero_le _⟩

theorem map_ok (v : GoVal) : Sh.map.ok v ↔ isMapVal v := by unfold Sh.ok; exact Iff.rfl
theorem mapNN_ok (v : GoVal) : Sh.mapNN.ok v ↔ isMapNN v := by unfold Sh.ok; exact Iff.rfl
theorem flat_ok (v : GoVal) : Sh.flat.ok v := by unfold Sh.ok; trivial

/-! ## `unfolderX` -/

/-- a scalar the kind converts: assigned, the frame is gone -/
theorem scalar_prim (k : PK) (p : Path) (f : Nat) (s : Sc) (v : GoVal)
    (h : Inv D base (.prim k p :: fs) c) (hc : k.conv s = some v) :
    ∃ c', onScalar (f + 1) s c = .ok () c' ∧ Inv D base fs c' := by
  obtain ⟨hu, hp, hv, hk, hi, hb⟩ := s6_eq _ _ h.stacks
  simp only [stacksOf, Frame.push] at hu hp hv hk hi hb
  obtain ⟨old, hd, _⟩ := h.top_deref
  have hrun : onScalar (f + 1) s c =
      .ok () { storeAt c p v with unfolder := (stacksOf base fs).u, ptr := (stacksOf base fs).p } := by
    simp [onScalar, bind_def, currentU, hu, hc, pukDeliver, primAssign, currentPtr, hp, store_at_ok c p v old hd,
      primCleanup, popU, popPtr, pure_def]
  refine ⟨_, hrun, h.pop_store c rfl v (flat_ok v) ?_ rfl rfl rfl rfl⟩
  exact s6_mk _ _ rfl rfl (by simp [hv]) (by simp [hk]) (by simp [hi]) (by simp [hb])

/-- the value frames that take scalars: a scalar the kind does not convert is refused -/
theorem scalar_conv_none (k : PK) (f : Nat) (s : Sc) (c : Ctx)
    (hu : c.unfolder.current = .prim k ∨ c.unfolder.current = .arr k ∨ c.unfolder.current = .mapVal k)
    (hc : k.conv s = none) : onScalar (f + 1) s c = .err .unsupported c := by
  rcases hu with h | h | h <;> simp [onScalar, bind_def, currentU, h, hc, throwErr]

/-! ## `unfolderArrX` -/

theorem appendTo_ok (sl : GoVal) (i : Int) (v : GoVal) (h : isSliceVal sl) : isSliceVal (appendTo sl i v) := by
  cases sl <;> try exact h.elim
  · trivial
  · simp only [appendTo]; split <;> trivial

theorem arrAppend_at (v : GoVal) (c : Ctx) (p : Path) (sl : GoVal) (hptr : c.ptr.current = some p)
    (hsl : deref c p = some sl) (hs : isSliceVal sl) :
    arrAppend v c = .ok ()
      { storeAt c p (appendTo sl c.idx.current v) with idx := { c.idx with current := c.idx.current + 1 } } := by
  cases sl with
  | sliceNil et =>
    simp [arrAppend, bind_def, currentIdx, currentPtr, hptr, load_def, hsl, store_at_ok c p _ _ hsl, setCurrentIdx,
      modifyCtx, appendTo]
  | slice et es h =>
    by_cases hle : (es.length : Int) ≤ c.idx.current
    · simp [arrAppend, bind_def, currentIdx, currentPtr, hptr, load_def, hsl, store_at_ok c p _ _ hsl, setCurrentIdx,
        modifyCtx, appendTo, hle]
    · simp [arrAppend, bind_def, currentIdx, currentPtr, hptr, load_def, hsl, store_at_ok c p _ _ hsl, setCurrentIdx,
        modifyCtx, appendTo, hle]
  | _ => exact absurd hs (by simp [isSliceVal])

/-- an element the kind converts: appended -/
theorem scalar_arrF (k : PK) (p : Path) (i : Int) (f : Nat) (s : Sc) (v : GoVal)
    (h : Inv D base (.arr k p i :: fs) c) (hc : k.conv s = some v) :
    ∃ c', onScalar (f + 1) s c = .ok () c' ∧ Inv D base (.arr k p (i + 1) :: fs) c' := by
  obtain ⟨hu, hp, hv, hk, hi, hb⟩ := s6_eq _ _ h.stacks
  simp only [stacksOf, Frame.push] at hu hp hv hk hi hb
  obtain ⟨sl, hd, hok⟩ := h.top_deref
  have hsl : isSliceVal sl := (sliceFlat_ok sl).mp hok
  have hrun : onScalar (f + 1) s c = arrAppend v c := by
    simp [onScalar, bind_def, currentU, hu, hc, pukDeliver]
  rw [hrun, arrAppend_at v c p sl (by rw [hp]; rfl) hd hsl]
  refine ⟨_, rfl, h.replace_store (F' := .arr k p (i + 1)) c rfl (appendTo sl c.idx.current v)
    ((sliceFlat_ok _).mpr (appendTo_ok _ _ _ hsl)) rfl ((sliceFlat_ok _).mpr (appendTo_ok _ _ _ hsl)) h.wfs.1 ?_ rfl
    rfl rfl rfl⟩
  refine s6_mk _ _ (by simp [hu, stacksOf, Frame.push]) (by simp [hp, stacksOf, Frame.push])
    (by simp [hv, stacksOf, Frame.push]) (by simp [hk, stacksOf, Frame.push]) ?_ (by simp [hb, stacksOf, Frame.push])
  simp [hi, stacksOf, Frame.push, Stk.push]

/-- `unfoldArrStartX.OnArrayStart` through a pointer to a slice: maybe a store of a slice, then the
start state is popped -/
theorem arrStartOnArrayStart_at (k : PK) (l : Int) (c : Ctx) (p : Path) (sl : GoVal) (u : Stk U) (x : U)
    (hptr : c.ptr.current = some p) (hsl : deref c p = some sl) (hs : isSliceVal sl) (hu : c.unfolder = u.push x) :
    arrStartOnArrayStart k l c = .ok () { c with unfolder := u } ∨
    ∃ w, isSliceVal w ∧ arrStartOnArrayStart k l c = .ok () { storeAt c p w with unfolder := u } := by
  cases sl with
  | sliceNil et =>
    by_cases hl : 0 < (if l < 0 then 0 else l)
    · refine Or.inr ⟨.slice et (List.replicate (arrPreallocLen (if l < 0 then 0 else l)).toNat (zero c.env k.goType)) [],
        ?_, ?_⟩
      rotate_left
      · simp [arrStartOnArrayStart, bind_def, currentPtr, hptr, load_def, hsl, hl, zeroM, store_at_ok c p _ _ hsl, popU, hu,
          pure_def]
      · trivial
    · refine Or.inl ?_
      simp [arrStartOnArrayStart, bind_def, currentPtr, hptr, load_def, hsl, hl, popU, hu, pure_def]
  | slice et es h =>
    by_cases hl : (if l < 0 then 0 else l) < (es.length : Int)
    · refine Or.inr ⟨.slice et (es.take (if l < 0 then 0 else l).toNat) (es.drop (if l < 0 then 0 else l).toNat ++ h),
        ?_, ?_⟩
      rotate_left
      · simp [arrStartOnArrayStart, bind_def, currentPtr, hptr, load_def, hsl, hl, store_at_ok c p _ _ hsl, popU, hu,
          pure_def]
      · trivial
    · refine Or.inl ?_
      simp [arrStartOnArrayStart, bind_def, currentPtr, hptr, load_def, hsl, hl, popU, hu, pure_def]
  | _ => exact absurd hs (by simp [isSliceVal])

/-- the array starts -/
theorem arrStart_arrS (k : PK) (p : Path) (f : Nat) (l : Int) (bt : Nat)
    (h : Inv D base (.arrS k p :: fs) c) :
    ∃ c', onArrayStart (f + 1) l bt c = .ok () c' ∧ Inv D base (.arr k p 0 :: fs) c' := by
  obtain ⟨hu, hp, hv, hk, hi, hb⟩ := s6_eq _ _ h.stacks
  simp only [stacksOf, Frame.push] at hu hp hv hk hi hb
  obtain ⟨sl, hd, hok⟩ := h.top_deref
  have hsl : isSliceVal sl := (sliceFlat_ok sl).mp hok
  have hrun : onArrayStart (f + 1) l bt c = arrStartOnArrayStart k l c := by
    simp [onArrayStart, bind_def, currentU, hu]
  rw [hrun]
  have hs6 : ∀ c1 : Ctx, c1.s6 = c.s6 →
      ({ c1 with unfolder := (stacksOf base fs).u.push (.arr k) } : Ctx).s6 = stacksOf base (.arr k p 0 :: fs) := by
    intro c1 h1
    obtain ⟨e1, e2, e3, e4, e5, e6⟩ := s6_eq _ _ h1
    simp only [Ctx.s6] at e1 e2 e3 e4 e5 e6
    exact s6_mk _ _ rfl (by simp [e2, hp, stacksOf, Frame.push]) (by simp [e3, hv, stacksOf, Frame.push])
      (by simp [e4, hk, stacksOf, Frame.push]) (by simp [e5, hi, stacksOf, Frame.push])
      (by simp [e6, hb, stacksOf, Frame.push])
  rcases arrStartOnArrayStart_at k l c p sl _ _ (by rw [hp]; rfl) hd hsl hu with hr | ⟨w, hw, hr⟩
  · exact ⟨_, hr, h.replace (F' := .arr k p 0) rfl (fun _ _ hv => hv) h.wfs.1 (hs6 c rfl) rfl rfl rfl rfl⟩
  · exact ⟨_, hr, h.replace_store (F' := .arr k p 0) c rfl w ((sliceFlat_ok _).mpr hw) rfl ((sliceFlat_ok _).mpr hw)
      h.wfs.1 (hs6 _ (storeAt_s6 c p w)) rfl rfl rfl rfl⟩

/-! ## `unfolderMapX` -/

/-- the object starts -/
theorem objStart_mapS (k : PK) (p : Path) (f : Nat) (l : Int) (bt : Nat)
    (h : Inv D base (.mapS k p :: fs) c) :
    ∃ c', onObjectStart (f + 1) l bt c = .ok () c' ∧ Inv D base (.mapK k p :: fs) c' := by
  obtain ⟨hu, hp, hv, hk, hi, hb⟩ := s6_eq _ _ h.stacks
  simp only [stacksOf, Frame.push] at hu hp hv hk hi hb
  have hrun : onObjectStart (f + 1) l bt c = .ok () { c with unfolder := (stacksOf base fs).u.push (.mapKey k) } := by
    simp [onObjectStart, bind_def, currentU, hu, popU, pure_def]
  refine ⟨_, hrun, h.replace (F' := .mapK k p) rfl (fun _ _ hv => hv) h.wfs.1 ?_ rfl rfl rfl rfl⟩
  exact s6_mk _ _ rfl (by simp [hp, stacksOf, Frame.push]) (by simp [hv, stacksOf, Frame.push])
    (by simp [hk, stacksOf, Frame.push]) (by simp [hi, stacksOf, Frame.push]) (by simp [hb, stacksOf, Frame.push])

/-- a key -/
theorem key_mapK (k : PK) (p : Path) (key : Bytes) (h : Inv D base (.mapK k p :: fs) c) :
    ∃ c', onKey key c = .ok () c' ∧ Inv D base (.mapV k p key :: fs) c' := by
  obtain ⟨hu, hp, hv, hk, hi, hb⟩ := s6_eq _ _ h.stacks
  simp only [stacksOf, Frame.push] at hu hp hv hk hi hb
  have hrun : onKey key c = .ok ()
      { c with key := c.key.push key, unfolder := { c.unfolder with current := .mapVal k } } := by
    simp [onKey, bind_def, currentU, hu, mapKeyOnKey, pushKey, setCurrentU, modifyCtx]
  refine ⟨_, hrun, h.replace (F' := .mapV k p key) rfl (fun _ _ hv => hv) h.wfs.1 ?_ rfl rfl rfl rfl⟩
  exact s6_mk _ _ (by simp [hu, stacksOf, Frame.push, Stk.push]) (by simp [hp, stacksOf, Frame.push])
    (by simp [hv, stacksOf, Frame.push]) (by simp [hk, stacksOf, Frame.push]) (by simp [hi, stacksOf, Frame.push])
    (by simp [hb, stacksOf, Frame.push])

/-- the map after `unfolderMapX.put` -/
def putTo (m : GoVal) (key : Bytes) (v : GoVal) : GoVal :=
  match m with
  | .mapNil et => .map et (mapSet [] key v)
  | .map et ms => .map et (mapSet ms key v)
  | x => x

theorem mapPut_at (k : PK) (v : GoVal) (c : Ctx) (p : Path) (m : GoVal) (ks : Stk Bytes) (key : Bytes)
    (hptr : c.ptr.current = some p) (hm : deref c p = some m) (hs : isMapVal m) (hk : c.key = ks.push key) :
    mapPut k v c = .ok ()
      { storeAt { c with key := ks } p (putTo m key v) with
        unfolder := { c.unfolder with current := .mapKey k } } := by
  cases m with
  | mapNil et =>
    simp [mapPut, bind_def, currentPtr, hptr, load_def, hm, pure_def, popKey, hk, setCurrentU, modifyCtx, putTo]
    rw [store_at_ok _ p _ _ (show deref { c with key := ks } p = some _ from (deref_congr c _ rfl p).trans hm)]
    simp
  | map et ms =>
    simp [mapPut, bind_def, currentPtr, hptr, load_def, hm, pure_def, popKey, hk, setCurrentU, modifyCtx, putTo]
    rw [store_at_ok _ p _ _ (show deref { c with key := ks } p = some _ from (deref_congr c _ rfl p).trans hm)]
    simp
  | _ => exact absurd hs (by simp [isMapVal])

theorem putTo_ok (m : GoVal) (key : Bytes) (v : GoVal) (h : isMapVal m) : isMapVal (putTo m key v) := by
  cases m <;> first | trivial | exact h.elim

/-- a value the kind converts: put -/
theorem scalar_mapV (k : PK) (p : Path) (key : Bytes) (f : Nat) (s : Sc) (v : GoVal)
    (h : Inv D base (.mapV k p key :: fs) c) (hc : k.conv s = some v) :
    ∃ c', onScalar (f + 1) s c = .ok () c' ∧ Inv D base (.mapK k p :: fs) c' := by
  obtain ⟨hu, hp, hv, hk, hi, hb⟩ := s6_eq _ _ h.stacks
  simp only [stacksOf, Frame.push] at hu hp hv hk hi hb
  obtain ⟨m, hd, hok⟩ := h.top_deref
  have hm : isMapVal m := (map_ok m).mp hok
  have hrun : onScalar (f + 1) s c = mapPut k v c := by
    simp [onScalar, bind_def, currentU, hu, hc, pukDeliver]
  rw [hrun, mapPut_at k v c p m _ key (by rw [hp]; rfl) hd hm hk]
  refine ⟨_, rfl, h.replace_store (F' := .mapK k p) { c with key := (stacksOf base fs).k } rfl (putTo m key v)
    ((map_ok _).mpr (putTo_ok _ _ _ hm)) rfl ((map_ok _).mpr (putTo_ok _ _ _ hm)) h.wfs.1 ?_ rfl rfl rfl rfl⟩
  exact s6_mk _ _ (by simp [hu, stacksOf, Frame.push, Stk.push]) (by simp [hp, stacksOf, Frame.push])
    (by simp [hv, stacksOf, Frame.push]) (by simp [stacksOf, Frame.push]) (by simp [hi, stacksOf, Frame.push])
    (by simp [hb, stacksOf, Frame.push])

/-! ## the frames finish (before the parent is told) -/

theorem arrFin_arr (k : PK) (p : Path) (i : Int) (h : Inv D base (.arr k p i :: fs) c) :
    ∃ c', onArrayFinished c = .ok () c' ∧ Inv D base fs c' ∧
      c.unfolder.stack.length = c'.unfolder.stack.length + 1 := by
  obtain ⟨hu, hp, hv, hk, hi, hb⟩ := s6_eq _ _ h.stacks
  simp only [stacksOf, Frame.push] at hu hp hv hk hi hb
  have hrun : onArrayFinished c = .ok ()
      { c with unfolder := (stacksOf base fs).u, idx := (stacksOf base fs).i, ptr := (stacksOf base fs).p } := by
    simp [onArrayFinished, bind_def, currentU, hu, arrCleanup, popU, popIdx, hi, popPtr, hp, pure_def]
  refine ⟨_, hrun, h.pop (s6_mk _ _ rfl rfl (by simp [hv]) (by simp [hk]) rfl (by simp [hb])) rfl rfl rfl rfl, ?_⟩
  simp [hu, Stk.push]

theorem objFin_mapK (k : PK) (p : Path) (h : Inv D base (.mapK k p :: fs) c) :
    ∃ c', onObjectFinished c = .ok () c' ∧ Inv D base fs c' ∧
      c.unfolder.stack.length = c'.unfolder.stack.length + 1 := by
  obtain ⟨hu, hp, hv, hk, hi, hb⟩ := s6_eq _ _ h.stacks
  simp only [stacksOf, Frame.push] at hu hp hv hk hi hb
  have hrun : onObjectFinished c = .ok ()
      { c with unfolder := (stacksOf base fs).u, ptr := (stacksOf base fs).p } := by
    simp [onObjectFinished, bind_def, currentU, hu, mapKeyCleanup, popU, popPtr, hp, pure_def]
  refine ⟨_, hrun, h.pop (s6_mk _ _ rfl rfl (by simp [hv]) (by simp [hk]) (by simp [hi]) (by simp [hb])) rfl rfl rfl rfl,
    ?_⟩
  simp [hu, Stk.push]

end SF.Unf
