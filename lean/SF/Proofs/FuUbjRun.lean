/-
  C11, UBJSON path, the COMPOSITION at mirror level: Fold's one event for a scalar / `[]T` →
  UBJSON encoder mirror → bytes → UBJSON parser mirror → events, one token each → Unfold mirror on a
  fresh zero target (the "ubjson" branch of `SF.Ops.Fu.model`).
-/
import SF.Proofs.FuUbjCodec
namespace SF.FuUbj
open SF SF.Gotype SF.Gotype.Fold SF.FoldProofs SF.FuId SF.FuCbor
open SF.Ubjson SF.Ubjson.Bridge
open SF.Unf (Sc UEv PK convList Ctx newUnfolder setTarget typeFuel)
open SF.Ops.Unf (evToUEv)
open SF.Ops.Fu (feed)

/-- what UBJSON carries: an integer up to MaxInt64.  (Given `hasPrim p v` this excludes exactly
the values above MaxInt64 of the unsigned 64-bit kinds `uint64` / `uint` / `uintptr`.) -/
def fitsV : GoVal → Bool
  | .int n => decide (n ≤ 9223372036854775807)
  | _ => true

theorem fits_elem (bytes : Bool) (p : Prim) (x : GoVal) (h : hasPrim p x = true) (hf : fitsV x = true) :
    scFits (scOfElem bytes p x) = true := by
  cases p <;> cases x <;> simp [hasPrim] at h <;> first | rfl | exact hf

theorem fits_top (p : Prim) (x : GoVal) (h : hasPrim p x = true) (hf : fitsV x = true) :
    scFits (scOfTop p x) = true := by
  cases p <;> cases x <;> simp [hasPrim] at h <;> first | rfl | exact hf

/-! ## STAGE 1: scalars -/

theorem scalar_ubj_run (o : FoldOpts) (hfail : o.failAt = none) (p : Prim) (v : GoVal) (hv : hasPrim p v = true)
    (hz : sizedV v = true) (hf : fitsV v = true) :
    ∃ c0 s pr, (impl o (primTy p) v).res = .ok ∧
      setTarget tbl (uPrimTy p) (Unf.zero tbl (uPrimTy p)) newUnfolder = .ok c0 ∧
      Enc.run {} (impl o (primTy p) v).evs = (s, none) ∧ s.w.out ≠ [] ∧
      Parse.parse {} s.w.out = (pr, none) ∧ Idle pr ∧
      Parse.events pr = [scEv (ubjSc (scOfTop p v))] ∧
      feed c0 ((Parse.events pr).map fun e => [evToUEv e]) = (doneCtx (trPrim p v), none) := by
  rw [impl_scalar o hfail p v _ (primEv_top_eq p v hv)]
  have hs := small_top p v hv hz
  have hft := fits_top p v hv hf
  obtain ⟨hl1, hl2, hl3⟩ := leaf_scEv (scOfTop p v)
  obtain ⟨s, pr, h1, _, h3, h4, h5, h6⟩ := leaf_leg (.ev (scEv (scOfTop p v))) hl1 (by rw [hl2]; exact hs)
  rw [hl3, scUItem_events _ hs hft] at h6
  refine ⟨_, s, pr, rfl, Unf.setTarget_prim tbl _ (pkOf p) _ newUnfolder (ofExact_uPrimTy p), h1, h3, h4, h5, h6, ?_⟩
  rw [h6]
  have : ([scEv (ubjSc (scOfTop p v))].map fun e => [evToUEv e]) =
      [UEv.scalar (ubjSc (scOfTop p v))].map fun e => [e] := by simp [evToUEv_scEv]
  rw [this]
  apply feed_singles
  rw [Unf.run_single, typeFuel_succ]
  exact Unf.scalar_primCtx 255 tbl (pkOf p) _ _ newUnfolder _
    (by rw [conv_ubjSc _ (pkOf_ne_ifc p) _ hs hft]; exact conv_top p v hv)

end SF.FuUbj
