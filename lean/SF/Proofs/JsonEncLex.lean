/-
  The reference lexer (SF/Json/Cst.lean `lex`) on the text the JSON encoder writes for a tree
  without floats: it produces exactly the expected token list.
-/
import SF.Proofs.JsonEncTree
namespace SF.Json.Enc
open SF SF.Json SF.Json.Float ETree SF.Json.Cst

theorem lex_succ (f : Nat) (b : Bytes) (acc : List Tok) :
    lex (f + 1) b acc =
    match skipWs b with
    | [] => .ok acc.reverse
    | c :: rest =>
      if c == 0x7b then lex f rest (.lbrace :: acc)
      else if c == 0x7d then lex f rest (.rbrace :: acc)
      else if c == 0x5b then lex f rest (.lbrack :: acc)
      else if c == 0x5d then lex f rest (.rbrack :: acc)
      else if c == 0x2c then lex f rest (.comma :: acc)
      else if c == 0x3a then lex f rest (.colon :: acc)
      else if c == 0x22 then
        match lexString (rest.length + 1) rest [] with
        | .error e => .error e
        | .ok (s, rest') => lex f rest' (.str s :: acc)
      else if c == 0x2d || Cst.isDigit c then
        match lexNumber (c :: rest) with
        | .error e => .error e
        | .ok (v, mr, rest') => lex f rest' (.num v mr :: acc)
      else if c == 0x6e then
        match lexLit (c :: rest) (Cst.strBytes "null") .null with
        | .error e => .error e
        | .ok (v, rest') => lex f rest' (.lit v :: acc)
      else if c == 0x74 then
        match lexLit (c :: rest) (Cst.strBytes "true") (.bool true) with
        | .error e => .error e
        | .ok (v, rest') => lex f rest' (.lit v :: acc)
      else if c == 0x66 then
        match lexLit (c :: rest) (Cst.strBytes "false") (.bool false) with
        | .error e => .error e
        | .ok (v, rest') => lex f rest' (.lit v :: acc)
      else .error .invalid := by
  rw [lex]; rfl

theorem skipWs_cons (c : UInt8) (rest : Bytes) (h : isWs c = false) : skipWs (c :: rest) = c :: rest := by
  simp [skipWs, h]


theorem lex_lbrace (f : Nat) (rest : Bytes) (acc : List Tok) :
    lex (f + 1) (0x7b :: rest) acc = lex f rest (.lbrace :: acc) := by
  rw [lex_succ, skipWs_cons _ _ (by decide)]; simp
theorem lex_rbrace (f : Nat) (rest : Bytes) (acc : List Tok) :
    lex (f + 1) (0x7d :: rest) acc = lex f rest (.rbrace :: acc) := by
  rw [lex_succ, skipWs_cons _ _ (by decide)]; simp
theorem lex_lbrack (f : Nat) (rest : Bytes) (acc : List Tok) :
    lex (f + 1) (0x5b :: rest) acc = lex f rest (.lbrack :: acc) := by
  rw [lex_succ, skipWs_cons _ _ (by decide)]; simp
theorem lex_rbrack (f : Nat) (rest : Bytes) (acc : List Tok) :
    lex (f + 1) (0x5d :: rest) acc = lex f rest (.rbrack :: acc) := by
  rw [lex_succ, skipWs_cons _ _ (by decide)]; simp
theorem lex_comma (f : Nat) (rest : Bytes) (acc : List Tok) :
    lex (f + 1) (0x2c :: rest) acc = lex f rest (.comma :: acc) := by
  rw [lex_succ, skipWs_cons _ _ (by decide)]; simp
theorem lex_colon (f : Nat) (rest : Bytes) (acc : List Tok) :
    lex (f + 1) (0x3a :: rest) acc = lex f rest (.colon :: acc) := by
  rw [lex_succ, skipWs_cons _ _ (by decide)]; simp

/-- a string token written by the encoder -/
theorem lex_strToken (html : Bool) (s : Bytes) (f : Nat) (rest : Bytes) (acc : List Tok) :
    lex (f + 1) (strToken html s ++ rest) acc = lex f rest (.str (sanitize s) :: acc) := by
  obtain ⟨out, hB, htok, _⟩ := onString_spec html s
  rw [htok, List.cons_append, lex_succ, skipWs_cons _ _ (by decide)]
  have := body_lex hB ((out ++ rest).length + 1) rest [] (by simp; omega)
  simp only [List.reverse_nil, List.nil_append] at this
  rw [List.length_append] at this
  simp [this]

theorem lexLit_word (word rest : Bytes) (v : Val) (hr : EndOk rest) :
    lexLit (word ++ rest) word v = .ok (v, rest) := by
  unfold lexLit
  have h1 : word.isPrefixOf (word ++ rest) = true := by simp
  simp only [h1, if_true, List.drop_left']
  rcases hr with rfl | ⟨c, tl, rfl, hc⟩
  · rfl
  · simp [hc]

theorem lex_null (f : Nat) (rest : Bytes) (acc : List Tok) (hr : EndOk rest) :
    lex (f + 1) (Float.strBytes "null" ++ rest) acc = lex f rest (.lit .null :: acc) := by
  have e : Float.strBytes "null" = Cst.strBytes "null" := by decide
  have e2 : Cst.strBytes "null" = [0x6e, 0x75, 0x6c, 0x6c] := by decide
  have := lexLit_word (Cst.strBytes "null") rest .null hr
  rw [e]
  rw [e2] at this ⊢
  rw [List.cons_append, lex_succ, skipWs_cons _ _ (by decide)]
  simp only [List.cons_append, List.nil_append] at this
  simp [this, Cst.isDigit, e2]

theorem lex_true (f : Nat) (rest : Bytes) (acc : List Tok) (hr : EndOk rest) :
    lex (f + 1) (Float.strBytes "true" ++ rest) acc = lex f rest (.lit (.bool true) :: acc) := by
  have e : Float.strBytes "true" = Cst.strBytes "true" := by decide
  have e2 : Cst.strBytes "true" = [0x74, 0x72, 0x75, 0x65] := by decide
  have := lexLit_word (Cst.strBytes "true") rest (.bool true) hr
  rw [e]
  rw [e2] at this ⊢
  rw [List.cons_append, lex_succ, skipWs_cons _ _ (by decide)]
  simp only [List.cons_append, List.nil_append] at this
  simp [this, Cst.isDigit, e2]

theorem lex_false (f : Nat) (rest : Bytes) (acc : List Tok) (hr : EndOk rest) :
    lex (f + 1) (Float.strBytes "false" ++ rest) acc = lex f rest (.lit (.bool false) :: acc) := by
  have e : Float.strBytes "false" = Cst.strBytes "false" := by decide
  have e2 : Cst.strBytes "false" = [0x66, 0x61, 0x6c, 0x73, 0x65] := by decide
  have := lexLit_word (Cst.strBytes "false") rest (.bool false) hr
  rw [e]
  rw [e2] at this ⊢
  rw [List.cons_append, lex_succ, skipWs_cons _ _ (by decide)]
  simp only [List.cons_append, List.nil_append] at this
  simp [this, Cst.isDigit, e2]


theorem numStart_facts (c : UInt8) (h : (c == 0x2d || Cst.isDigit c) = true) :
    isWs c = false ∧ (c == 0x7b) = false ∧ (c == 0x7d) = false ∧ (c == 0x5b) = false ∧ (c == 0x5d) = false ∧
      (c == 0x2c) = false ∧ (c == 0x3a) = false ∧ (c == 0x22) = false := by
  have := Utf8.forall_uint8 (fun c => !(c == 0x2d || Cst.isDigit c) ||
    (!(isWs c) && !(c == 0x7b) && !(c == 0x7d) && !(c == 0x5b) && !(c == 0x5d) && !(c == 0x2c) && !(c == 0x3a) &&
      !(c == 0x22))) (by decide +kernel) c
  rw [h] at this
  simp only [Bool.not_true, Bool.false_or, Bool.and_eq_true, Bool.not_eq_true'] at this
  obtain ⟨⟨⟨⟨⟨⟨⟨a, b⟩, c⟩, d⟩, e⟩, f⟩, g⟩, h⟩ := this
  exact ⟨a, b, c, d, e, f, g, h⟩

theorem intLit_head (v : Int) : ∃ c tl, intLit v = c :: tl ∧ (c == 0x2d || Cst.isDigit c) = true := by
  obtain ⟨a1, _, d, ds, a3, _⟩ := decBytes_spec v.natAbs
  unfold intLit
  split
  · exact ⟨_, _, rfl, by decide⟩
  · rw [a3] at a1 ⊢
    simp only [List.all_cons, Bool.and_eq_true] at a1
    exact ⟨_, _, rfl, by simp [a1.1]⟩

/-- an integer literal written by the encoder -/
theorem lex_intLit (v : Int) (f : Nat) (rest : Bytes) (acc : List Tok) (hr : EndOk rest)
    (h1 : -9223372036854775808 ≤ v) (h2 : v ≤ 18446744073709551615) :
    lex (f + 1) (intLit v ++ rest) acc = lex f rest (.num (.int v) false :: acc) := by
  have hn := lexNumber_intLit v rest hr h1 h2
  obtain ⟨c, tl, hc, hs⟩ := intLit_head v
  rw [hc] at hn ⊢
  obtain ⟨g0, g1, g2, g3, g4, g5, g6, g7⟩ := numStart_facts c hs
  rw [List.cons_append] at hn ⊢
  rw [lex_succ, skipWs_cons _ _ g0]
  simp only [g1, g2, g3, g4, g5, g6, g7, hs, hn, Bool.false_eq_true, if_false, if_true]


/- trees the structure theorem covers: no floats, every number in the range of its kind -/
mutual
def plain : ETree → Bool
  | .num k v => k.inRange v
  | .f32 _ => false
  | .f64 _ => false
  | .arr _ _ xs => plainList xs
  | .obj _ _ ms => plainMems ms
  | _ => true
def plainList : List ETree → Bool
  | [] => true
  | x :: xs => plain x && plainList xs
def plainMems : List (Bytes × ETree) → Bool
  | [] => true
  | (_, v) :: ms => plain v && plainMems ms
end

mutual
theorem plain_supported (o : Enc) (t : ETree) (h : plain t = true) : supported o t = true := by
  match t with
  | .null | .bool _ | .str _ => simp [supported, leafOk]
  | .num k v => simpa [supported, leafOk, plain] using h
  | .f32 _ => simp [plain] at h
  | .f64 _ => simp [plain] at h
  | .arr _ _ xs => simp only [plain] at h; simp only [supported]; exact plainList_supported o xs h
  | .obj _ _ ms => simp only [plain] at h; simp only [supported]; exact plainMems_supported o ms h
theorem plainList_supported (o : Enc) (xs : List ETree) (h : plainList xs = true) : supportedList o xs = true := by
  match xs with
  | [] => rfl
  | x :: xs' =>
    simp only [plainList, Bool.and_eq_true] at h
    simp [supportedList, plain_supported o x h.1, plainList_supported o xs' h.2]
theorem plainMems_supported (o : Enc) (ms : List (Bytes × ETree)) (h : plainMems ms = true) :
    supportedMems o ms = true := by
  match ms with
  | [] => rfl
  | (k, v) :: ms' =>
    simp only [plainMems, Bool.and_eq_true] at h
    simp [supportedMems, plain_supported o v h.1, plainMems_supported o ms' h.2]
end

/- the tokens of the text of a tree -/
mutual
def toks : ETree → List Tok
  | .null => [.lit .null]
  | .bool b => [.lit (.bool b)]
  | .str s => [.str (sanitize s)]
  | .num _ v => [.num (.int v) false]
  | .f32 b => [.num (.f32 b) false]
  | .f64 b => [.num (.f64 b) false]
  | .arr _ _ xs => .lbrack :: (toksList true xs ++ [.rbrack])
  | .obj _ _ ms => .lbrace :: (toksMems true ms ++ [.rbrace])
def toksList : Bool → List ETree → List Tok
  | _, [] => []
  | first, x :: xs => (if first then [] else [.comma]) ++ toks x ++ toksList false xs
def toksMems : Bool → List (Bytes × ETree) → List Tok
  | _, [] => []
  | first, (k, v) :: ms =>
    (if first then [] else [.comma]) ++ [.str (sanitize k), .colon] ++ toks v ++ toksMems false ms
end

theorem text_null (o : Enc) : text o .null = Float.strBytes "null" := by simp [text, acts, outOf]
theorem text_bool (o : Enc) (b : Bool) : text o (.bool b) = Float.strBytes (if b then "true" else "false") := by
  simp [text, acts, outOf]
theorem text_str (o : Enc) (s : Bytes) : text o (.str s) = strToken o.escapeHTML s := by
  simp [text, acts, strToken]
theorem text_num (o : Enc) (k : NumKind) (v : Int) (h : k.inRange v = true) : text o (.num k v) = intLit v := by
  simp [text, acts_num o k v (inRange_cases k v h), outOf]

theorem endOk_cons (c : UInt8) (tl : Bytes) (h : endsScalar c = true) : EndOk (c :: tl) := Or.inr ⟨c, tl, rfl, h⟩

theorem endOk_textList (o : Enc) (xs : List ETree) (rest : Bytes) (hr : EndOk rest) :
    EndOk (textList o false xs ++ rest) := by
  cases xs with
  | nil => simpa [textList] using hr
  | cons x xs => simp only [textList, Bool.false_eq_true, if_false, List.append_assoc, List.cons_append, List.nil_append]
                 exact endOk_cons _ _ (by decide)

theorem endOk_textMems (o : Enc) (ms : List (Bytes × ETree)) (rest : Bytes) (hr : EndOk rest) :
    EndOk (textMems o false ms ++ rest) := by
  cases ms with
  | nil => simpa [textMems] using hr
  | cons m ms =>
    obtain ⟨k, v⟩ := m
    simp only [textMems, Bool.false_eq_true, if_false, List.append_assoc, List.cons_append, List.nil_append]
    exact endOk_cons _ _ (by decide)

theorem inRange_bounds (k : NumKind) (v : Int) (h : k.inRange v = true) :
    -9223372036854775808 ≤ v ∧ v ≤ 18446744073709551615 := by
  rcases inRange_cases k v h with ⟨_, a, b⟩ | ⟨_, a, b⟩ <;> omega


theorem ch_lbrack : ch '[' = 0x5b := by decide
theorem ch_rbrack : ch ']' = 0x5d := by decide
theorem ch_lbrace : ch '{' = 0x7b := by decide
theorem ch_rbrace : ch '}' = 0x7d := by decide
theorem ch_comma : ch ',' = 0x2c := by decide
theorem ch_colon : ch ':' = 0x3a := by decide

mutual
theorem lex_tree (o : Enc) (t : ETree) (hp : plain t = true) (n f : Nat) (rest : Bytes) (acc : List Tok)
    (hr : EndOk rest) (hf : f = n + (toks t).length) :
    lex f (text o t ++ rest) acc = lex n rest ((toks t).reverse ++ acc) := by
  match t with
  | .null => subst hf; rw [text_null]; exact lex_null n rest acc hr
  | .bool true => subst hf; rw [text_bool]; exact lex_true n rest acc hr
  | .bool false => subst hf; rw [text_bool]; exact lex_false n rest acc hr
  | .str s => subst hf; rw [text_str]; exact lex_strToken _ s n rest acc
  | .num k v =>
    subst hf
    simp only [plain] at hp
    rw [text_num o k v hp]
    exact lex_intLit v n rest acc hr (inRange_bounds k v hp).1 (inRange_bounds k v hp).2
  | .f32 _ => simp [plain] at hp
  | .f64 _ => simp [plain] at hp
  | .arr len bt xs =>
    simp only [plain] at hp
    simp only [toks, List.length_cons, List.length_append, List.length_nil] at hf
    obtain ⟨f0, rfl⟩ : ∃ f0, f = f0 + 1 := ⟨f - 1, by omega⟩
    simp only [text, toks, ch_lbrack, ch_rbrack, List.cons_append, List.append_assoc]
    rw [lex_lbrack, lex_list o xs hp true (n + 1) f0 _ _ (endOk_cons _ _ (by decide)) (by omega),
      List.nil_append, lex_rbrack]
    simp
  | .obj len bt ms =>
    simp only [plain] at hp
    simp only [toks, List.length_cons, List.length_append, List.length_nil] at hf
    obtain ⟨f0, rfl⟩ : ∃ f0, f = f0 + 1 := ⟨f - 1, by omega⟩
    simp only [text, toks, ch_lbrace, ch_rbrace, List.cons_append, List.append_assoc]
    rw [lex_lbrace, lex_mems o ms hp true (n + 1) f0 _ _ (endOk_cons _ _ (by decide)) (by omega),
      List.nil_append, lex_rbrace]
    simp
theorem lex_list (o : Enc) (xs : List ETree) (hp : plainList xs = true) (first : Bool) (n f : Nat) (rest : Bytes)
    (acc : List Tok) (hr : EndOk rest) (hf : f = n + (toksList first xs).length) :
    lex f (textList o first xs ++ rest) acc = lex n rest ((toksList first xs).reverse ++ acc) := by
  match xs with
  | [] => subst hf; simp [toksList, textList]
  | x :: xs' =>
    simp only [plainList, Bool.and_eq_true] at hp
    have hrest := endOk_textList o xs' rest hr
    cases first with
    | true =>
      simp only [toksList, if_true, List.nil_append, List.length_append] at hf
      simp only [toksList, textList, if_true, List.nil_append, List.append_assoc]
      rw [lex_tree o x hp.1 (n + (toksList false xs').length) f _ _ hrest (by omega),
        lex_list o xs' hp.2 false n _ _ _ hr rfl]
      simp
    | false =>
      simp only [toksList, Bool.false_eq_true, if_false, List.length_append, List.length_cons, List.length_nil] at hf
      obtain ⟨f0, rfl⟩ : ∃ f0, f = f0 + 1 := ⟨f - 1, by omega⟩
      simp only [toksList, textList, Bool.false_eq_true, if_false, List.append_assoc, ch_comma, List.cons_append,
        List.nil_append]
      rw [lex_comma, lex_tree o x hp.1 (n + (toksList false xs').length) f0 _ _ hrest (by omega),
        lex_list o xs' hp.2 false n _ _ _ hr rfl]
      simp
theorem lex_mems (o : Enc) (ms : List (Bytes × ETree)) (hp : plainMems ms = true) (first : Bool) (n f : Nat)
    (rest : Bytes) (acc : List Tok) (hr : EndOk rest) (hf : f = n + (toksMems first ms).length) :
    lex f (textMems o first ms ++ rest) acc = lex n rest ((toksMems first ms).reverse ++ acc) := by
  match ms with
  | [] => subst hf; simp [toksMems, textMems]
  | (k, v) :: ms' =>
    simp only [plainMems, Bool.and_eq_true] at hp
    have hrest := endOk_textMems o ms' rest hr
    cases first with
    | true =>
      simp only [toksMems, if_true, List.nil_append, List.length_append, List.length_cons, List.length_nil] at hf
      obtain ⟨f0, rfl⟩ : ∃ f0, f = f0 + 1 + 1 := ⟨f - 2, by omega⟩
      simp only [toksMems, textMems, if_true, List.nil_append, List.append_assoc, List.cons_append, ch_colon]
      rw [lex_strToken, lex_colon, lex_tree o v hp.1 (n + (toksMems false ms').length) f0 _ _ hrest (by omega),
        lex_mems o ms' hp.2 false n _ _ _ hr rfl]
      simp
    | false =>
      simp only [toksMems, Bool.false_eq_true, if_false, List.length_append, List.length_cons, List.length_nil] at hf
      obtain ⟨f0, rfl⟩ : ∃ f0, f = f0 + 1 + 1 + 1 := ⟨f - 3, by omega⟩
      simp only [toksMems, textMems, Bool.false_eq_true, if_false, List.nil_append, List.append_assoc,
        List.cons_append, ch_colon, ch_comma]
      rw [lex_comma, lex_strToken, lex_colon,
        lex_tree o v hp.1 (n + (toksMems false ms').length) f0 _ _ hrest (by omega),
        lex_mems o ms' hp.2 false n _ _ _ hr rfl]
      simp
end


end SF.Json.Enc
