/-
  Targets with structs, part 16: a decidable CHECK that a compiled unfolder is consistent with a type
  (`ruOKb`, sound for `RUOk`) and that a registry is consistent (`regOKb`): with it the invariant can be
  established for a concrete compiled unfolder without running the tag parser of `SetTarget` (whose `String`
  functions the kernel does not evaluate).
-/
import SF.Proofs.UnfStrSet
namespace SF.Unf.Str
open SF SF.Unf

def flatB (tbl : TypeTable) (t : GoType) : Bool :=
  match t.un tbl with
  | .slice _ => false
  | .map _ => false
  | .struct _ _ => false
  | _ => true

theorem flatB_sound {tbl : TypeTable} {t : GoType} (h : flatB tbl t = true) : Flat tbl t := by
  unfold flatB at h
  split at h
  · cases h
  · cases h
  · cases h
  · rename_i h1 h2 h3; exact flat_of_un (fun e he => h1 e he) (fun e he => h2 e he) (fun n fs he => h3 n fs he)

/-- the type at a field path -/
def tyAtB (tbl : TypeTable) : GoType → List Nat → Option GoType
  | t, [] => some t
  | t, i :: r =>
    match t.un tbl with
    | .struct _ fs =>
      match fs[i]? with
      | some f => tyAtB tbl f.2.2 r
      | none => none
    | _ => none

theorem tyAtB_sound {tbl : TypeTable} : ∀ (off : List Nat) (t tf : GoType), tyAtB tbl t off = some tf →
    TyAt tbl t (off.map Step.field) tf := by
  intro off
  induction off with
  | nil => intro t tf h; simp only [tyAtB, Option.some.injEq] at h; subst h; exact .nil _
  | cons i r ih =>
    intro t tf h
    rw [tyAtB] at h
    split at h
    · rename_i n fs hu
      split at h
      · rename_i f hf
        exact .field _ n fs i f _ tf hu hf (ih _ _ h)
      · cases h
    · cases h

def slElem (tbl : TypeTable) (t e : GoType) : Bool := match t.un tbl with | .slice e' => beqTy e' e | _ => false
def mpElem (tbl : TypeTable) (t e : GoType) : Bool := match t.un tbl with | .map e' => beqTy e' e | _ => false
def ptElem (tbl : TypeTable) (t e : GoType) : Bool := match t.un tbl with | .ptr e' => beqTy e' e | _ => false

theorem slElem_sound {tbl : TypeTable} {t e : GoType} (h : slElem tbl t e = true) : t.un tbl = .slice e := by
  unfold slElem at h; split at h
  · rename_i e' hu; rw [hu, beqTy_eq _ _ h]
  · cases h
theorem mpElem_sound {tbl : TypeTable} {t e : GoType} (h : mpElem tbl t e = true) : t.un tbl = .map e := by
  unfold mpElem at h; split at h
  · rename_i e' hu; rw [hu, beqTy_eq _ _ h]
  · cases h
theorem ptElem_sound {tbl : TypeTable} {t e : GoType} (h : ptElem tbl t e = true) : t.un tbl = .ptr e := by
  unfold ptElem at h; split at h
  · rename_i e' hu; rw [hu, beqTy_eq _ _ h]
  · cases h

mutual
/-- the compiled unfolder `ru` is consistent with the type `t` (registry `R`) -/
def ruOKb (tbl : TypeTable) (R : Reg) : RU → GoType → Bool
  | .lifted (.prim _), t => flatB tbl t
  | .lifted (.arr _), t => match t.un tbl with | .slice e => flatB tbl e | _ => false
  | .lifted (.map _), t => match t.un tbl with | .map _ => true | _ => false
  | .slice e elem, t => slElem tbl t e && elemOK tbl e && ruOKb tbl R elem e
  | .map e elem, t => mpElem tbl t e && elemOK tbl e && ruOKb tbl R elem e
  | .ptr e elem, t => ptElem tbl t e && elemOK tbl e && ruOKb tbl R elem e
  | .struct fields, t => fieldsOKb tbl R fields t
  | .ref n, t => (R.lookup n).isSome && beqTy (t.un tbl) ((GoType.ref n).un tbl)
def fieldsOKb (tbl : TypeTable) (R : Reg) : Fields → GoType → Bool
  | [], _ => true
  | (_, off, ru) :: r, t =>
    !off.isEmpty && (match tyAtB tbl t off with
     | some tf => ruOKb tbl R ru tf
     | none => false) && fieldsOKb tbl R r t
end

mutual
theorem ruOKb_sound (tbl : TypeTable) (R : Reg) : ∀ (ru : RU) (t : GoType), ruOKb tbl R ru t = true →
    RUOk tbl R chainMax t ru
  | .lifted (.prim k), t, h => by rw [ruOKb] at h; exact .prim _ k (flatB_sound h)
  | .lifted (.arr k), t, h => by
    rw [ruOKb] at h
    split at h
    · rename_i e hu; exact .arr _ e k hu (flatB_sound h)
    · cases h
  | .lifted (.map k), t, h => by
    rw [ruOKb] at h
    split at h
    · rename_i e hu; exact .map _ e k hu
    · cases h
  | .slice e elem, t, h => by
    rw [ruOKb] at h
    simp only [Bool.and_eq_true] at h
    exact .slice _ e elem (slElem_sound h.1.1) (elemOK_spec h.1.2).1 (elemOK_spec h.1.2).2 (ruOKb_sound tbl R elem e h.2)
  | .map e elem, t, h => by
    rw [ruOKb] at h
    simp only [Bool.and_eq_true] at h
    exact .rmap _ e elem (mpElem_sound h.1.1) (elemOK_spec h.1.2).1 (elemOK_spec h.1.2).2 (ruOKb_sound tbl R elem e h.2)
  | .ptr e elem, t, h => by
    rw [ruOKb] at h
    simp only [Bool.and_eq_true] at h
    exact .ptr _ e elem (ptElem_sound h.1.1) (elemOK_spec h.1.2).1 (elemOK_spec h.1.2).2 (ruOKb_sound tbl R elem e h.2)
  | .struct fields, t, h => by
    rw [ruOKb] at h
    exact RUOk.struct' _ _ (fieldsOKb_sound tbl R fields t h)
  | .ref n, t, h => by
    rw [ruOKb] at h
    simp only [Bool.and_eq_true] at h
    cases hl : R.lookup n with
    | none => rw [hl] at h; simp at h
    | some x => exact .ref _ n x hl (beqTy_eq _ _ h.2)
theorem fieldsOKb_sound (tbl : TypeTable) (R : Reg) : ∀ (fields : Fields) (t : GoType), fieldsOKb tbl R fields t = true →
    ∀ (key : Bytes) (off : List Nat) (ru : RU), (key, off, ru) ∈ fields →
      off ≠ [] ∧ ∃ tf, TyAt tbl t (off.map Step.field) tf ∧ RUOk tbl R chainMax tf ru
  | [], t, _ => by intro key off ru hm; cases hm
  | (k0, off0, ru0) :: r, t, h => by
    rw [fieldsOKb] at h
    simp only [Bool.and_eq_true] at h
    intro key off ru hm
    rcases List.mem_cons.mp hm with heq | hm
    · simp only [Prod.mk.injEq] at heq
      obtain ⟨_, h2, h3⟩ := heq
      rw [h2, h3]
      have h1 := h.1.2
      have h0 : off0 ≠ [] := by
        intro he; rw [he] at h; simp at h
      split at h1
      · rename_i tf htf
        exact ⟨h0, tf, tyAtB_sound _ _ _ htf, ruOKb_sound tbl R ru0 tf h1⟩
      · cases h1
    · exact fieldsOKb_sound tbl R r t h.2 key off ru hm
end

def notRefB : RU → Bool
  | .ref _ => false
  | _ => true

theorem notRefB_sound {ru : RU} (h : notRefB ru = true) : ru.notRef := by
  cases ru <;> first | trivial | (simp [notRefB] at h)

/-- every entry of the registry is a real unfolder consistent with the type of its name -/
def regOKb (tbl : TypeTable) (R : Reg) : Bool :=
  R.all fun (n, ru) => notRefB ru && ruOKb tbl R ru (.ref n)

theorem lookup_mem : ∀ (R : Reg) (n : String) (x : RU), R.lookup n = some x → (n, x) ∈ R := by
  intro R
  induction R with
  | nil => intro n x h; simp [List.lookup] at h
  | cons a R ih =>
    intro n x h
    obtain ⟨m, y⟩ := a
    simp only [List.lookup] at h
    split at h
    · rename_i heq
      injection h with h
      subst h
      have : n = m := by simpa using heq
      subst this
      exact List.mem_cons_self
    · exact List.mem_cons_of_mem _ (ih n x h)

theorem regOKb_sound {tbl : TypeTable} {R : Reg} (h : regOKb tbl R = true) : RegOK tbl R chainMax := by
  intro n ru hl
  unfold regOKb at h
  rw [List.all_eq_true] at h
  have := h (n, ru) (lookup_mem R n ru hl)
  simp only [Bool.and_eq_true] at this
  exact ⟨notRefB_sound this.1, ruOKb_sound tbl R ru _ this.2⟩

end SF.Unf.Str
