/-
  Helper lemmas for C02 (CBOR parser mirror): the SPLIT LAW of a single step.  A step on
  input `a ++ b` either is the step on `a` with `b` left over in addition, or -- when `a`
  ends inside a token -- the step on `a` parks `a` and the step on `b` from the parked
  configuration completes it.
  Property theorems: SF/Proofs/CborChunkTop.lean.
-/
import SF.Proofs.CborChunkRun
set_option linter.unusedSimpArgs false
set_option linter.unusedVariables false
namespace SF.Cbor.Chunk
open SF SF.Cbor SF.Cbor.Parse
open SF.Props.C03 (startPending)

/-! ## comparing two step results -/

/-- the same result, with `b` appended to the unconsumed input -/
def app (r : R) (b : Bytes) : R := { r with rest := r.rest ++ b }

/-- `r'` is `r` with `b` left over in addition (after an error: same error, same events) -/
def Ext (r r' : R) (b : Bytes) : Prop :=
  r'.err = r.err ∧ r'.p.evs = r.p.evs ∧ (r.err = none → r' = app r b)

/-- the same outcome (after an error: same error, same events) -/
def Sim (r r' : R) : Prop :=
  r'.err = r.err ∧ r'.p.evs = r.p.evs ∧ (r.err = none → r' = r)

theorem Ext.of_app {r r' : R} {b : Bytes} (h : r' = app r b) : Ext r r' b := by
  subst h; exact ⟨rfl, rfl, fun _ => rfl⟩

theorem Ext.of_eq_err {r r' : R} {b : Bytes} (h : r' = r) (he : r.err ≠ none) : Ext r r' b := by
  subst h; exact ⟨rfl, rfl, fun h => absurd h he⟩

theorem Sim.refl (r : R) : Sim r r := ⟨rfl, rfl, fun _ => rfl⟩

theorem Sim.of_eq {r r' : R} (h : r' = r) : Sim r r' := by subst h; exact Sim.refl _

/-! ## the building blocks only pass the remaining input through -/

theorem onValueR_app (p : P) (rest b : Bytes) : onValueR p (rest ++ b) = app (onValueR p rest) b := by
  simp [onValueR, app]

theorem popStateR_app (p : P) (rest b : Bytes) : popStateR p (rest ++ b) = app (popStateR p rest) b := by
  simp [popStateR, app]

theorem scalar_app (p : P) (e : Ev) (rest b : Bytes) : scalar p e (rest ++ b) = app (scalar p e rest) b := by
  unfold scalar
  rw [visit_eq]
  by_cases hf : vfail p = true
  · simp [hf, app]
  · simp only [hf, Bool.false_eq_true, if_false]; exact onValueR_app _ _ _

theorem scalarPop_app (p : P) (e : Ev) (rest b : Bytes) :
    scalarPop p e (rest ++ b) = app (scalarPop p e rest) b := by
  unfold scalarPop
  rw [visit_eq]
  by_cases hf : vfail p = true
  · simp [hf, app]
  · simp only [hf, Bool.false_eq_true, if_false]; exact popStateR_app _ _ _

theorem initByteSeq_ext (p : P) (major minor : UInt8) (bs b : Bytes) :
    Ext (initByteSeq p major minor bs) (initByteSeq p major minor (bs ++ b)) b := by
  unfold initByteSeq
  by_cases h1 : minor < len8b
  · simp only [h1, if_true]; exact Ext.of_app rfl
  · by_cases h2 : minor > len64b
    · simp only [h1, h2, if_true, if_false]; exact Ext.of_eq_err rfl (by simp)
    · simp only [h1, h2, if_false]; exact Ext.of_app rfl

theorem initSub_ext (p : P) (major minor : UInt8) (bs b : Bytes) :
    Ext (initSub p major minor bs) (initSub p major minor (bs ++ b)) b := by
  unfold initSub
  by_cases h0 : (minor == lenIndef) = true
  · simp only [h0, if_true]; exact Ext.of_app rfl
  · simp only [h0, Bool.false_eq_true, if_false]
    by_cases h1 : minor < len8b
    · simp only [h1, if_true]; exact Ext.of_app rfl
    · by_cases h2 : minor > len64b
      · simp only [h1, h2, if_true, if_false]; exact Ext.of_eq_err rfl (by simp)
      · simp only [h1, h2, if_false]; exact Ext.of_app rfl

theorem stepValue_ext (p : P) (x : UInt8) (bs b : Bytes) :
    Ext (stepValue p (x :: bs)) (stepValue p (x :: (bs ++ b))) b := by
  rcases stepValue_cases x with ⟨e, h⟩ | ⟨e, h⟩ | ⟨m, minor, w, hm, hw, h⟩ | ⟨m, hm, h⟩ |
      ⟨m, minor, hm, h⟩ | ⟨m, minor, hm, h⟩
  · rw [h, h]; exact Ext.of_app (scalar_app _ _ _ _)
  · rw [h, h]; exact Ext.of_eq_err rfl (by simp)
  · rw [h, h]; exact Ext.of_app rfl
  · rw [h, h]; exact Ext.of_app rfl
  · rw [h, h]; exact initByteSeq_ext _ _ _ _ _
  · rw [h, h]; exact initSub_ext _ _ _ _ _

theorem initMapKey_ext (p : P) (x : UInt8) (bs b : Bytes) :
    Ext (initMapKey p (x :: bs)) (initMapKey p (x :: (bs ++ b))) b := by
  unfold initMapKey
  simp only []
  by_cases h1 : ((x &&& majorMask) != majorText) = true
  · simp only [h1, if_true]; exact Ext.of_eq_err rfl (by simp)
  · by_cases h2 : ((x &&& minorMask) == lenIndef) = true
    · simp only [h1, h2, if_true, if_false]; exact Ext.of_eq_err rfl (by simp)
    · simp only [h1, h2, Bool.false_eq_true, if_false]; exact initByteSeq_ext _ _ _ _ _

theorem indefArr_ext (p : P) (x : UInt8) (bs b : Bytes) :
    Ext (indefArr p (x :: bs)) (indefArr p (x :: (bs ++ b))) b := by
  simp only [indefArr]
  by_cases hx : (x == codeBreak) = true
  · simp only [hx, if_true]
    rw [visit_eq]
    by_cases hf : vfail p = true
    · simp only [hf, if_true]; exact Ext.of_app rfl
    · simp only [hf, Bool.false_eq_true, if_false]; exact Ext.of_app (popStateR_app _ _ _)
  · simp only [hx, Bool.false_eq_true, if_false]; exact stepValue_ext _ _ _ _

theorem indefMap_ext (p : P) (x : UInt8) (bs b : Bytes) :
    Ext (indefMap p (x :: bs)) (indefMap p (x :: (bs ++ b))) b := by
  simp only [indefMap]
  by_cases hx : (x == codeBreak) = true
  · simp only [hx, if_true]
    rw [visit_eq]
    by_cases hf : vfail p = true
    · simp only [hf, if_true]; exact Ext.of_app rfl
    · simp only [hf, Bool.false_eq_true, if_false]; exact Ext.of_app (popStateR_app _ _ _)
  · simp only [hx, Bool.false_eq_true, if_false]; exact initMapKey_ext _ _ _ _


/-! ## the token-collecting steps -/

/-- SPLIT LAW of a step function `f` at state `q`, input `a`: either the step on `a ++ b` is
the step on `a` with `b` left over in addition, or the step on `a` parks all of `a`, stays in
its state (`K`), and the step on `a ++ b` is the step on `b` from the parked configuration -/
def SplitK (K : P → P → Prop) (f : P → Bytes → R) (q : P) (a : Bytes) : Prop :=
  (∀ b, Ext (f q a) (f q (a ++ b)) b) ∨
  ((f q a).err = none ∧ (f q a).rest = [] ∧ K q (f q a).p ∧
    ∀ b, b ≠ [] → Sim (f (f q a).p b) (f q (a ++ b)))

/-- … where the parked configuration has the same state stack -/
abbrev SplitF := SplitK (fun q q' => q'.state = q.state)

theorem getArg_split (p : P) (a : Bytes) (w : Nat) (hw : w = 1 ∨ w = 2 ∨ w = 4 ∨ w = 8)
    (hb : p.buffer.length < w) (ha : a ≠ []) :
    (∃ v rest, getArg p a w = .ok ({ p with buffer := [] }, rest, some v) ∧
        ∀ b, getArg p (a ++ b) w = .ok ({ p with buffer := [] }, rest ++ b, some v)) ∨
    (getArg p a w = .ok ({ p with buffer := p.buffer ++ a }, [], none) ∧
        ∀ b, ∃ res, getArg p (a ++ b) w = .ok res ∧
          getArg { p with buffer := p.buffer ++ a } b w = .ok res) := by
  by_cases h1 : w = 1
  · rcases getArg_cases p a w hw hb ha with ⟨v, rest, _, hg, hgb⟩ | ⟨hl, _, _⟩
    · exact Or.inl ⟨v, rest, hg, hgb⟩
    · subst h1
      have := ne_nil_length_pos ha
      rw [List.length_append] at hl
      omega
  · have hne : (w == 1) = false := by simpa using h1
    rcases getArg_cases p a w hw hb ha with ⟨v, rest, _, hg, hgb⟩ | ⟨hl, hg, hgb⟩
    · exact Or.inl ⟨v, rest, hg, hgb⟩
    · refine Or.inr ⟨hg, fun b => ?_⟩
      rw [hgb b]
      simp only [getArg, hne, Bool.false_eq_true, if_false]
      exact ⟨_, rfl, rfl⟩

theorem stepUint_split (p : P) (a : Bytes) (w : Nat) (hm : widthOf p.state.current.minor = some w)
    (hb : p.buffer.length < w) (ha : a ≠ []) : SplitF stepUint p a := by
  rcases getArg_split p a w (widthOf_cases hm) hb ha with ⟨v, rest, hg, hgb⟩ | ⟨hg, hgb⟩
  · left
    intro b
    unfold stepUint
    simp only [hm, hg, hgb b]
    exact Ext.of_app (scalarPop_app _ _ _ _)
  · right
    have hr : stepUint p a = { p := { p with buffer := p.buffer ++ a }, rest := [] } := by
      unfold stepUint; simp only [hm, hg]
    rw [hr]
    refine ⟨rfl, rfl, rfl, fun b _ => Sim.of_eq ?_⟩
    obtain ⟨res, h1, h2⟩ := hgb b
    have hm' : widthOf ({ p with buffer := p.buffer ++ a } : P).state.current.minor = some w := hm
    unfold stepUint
    simp only [hm, hm', h1, h2]
    obtain ⟨q, rest, v⟩ := res
    cases v <;> rfl

theorem stepNeg_split (p : P) (a : Bytes) (w : Nat) (hm : widthOf p.state.current.minor = some w)
    (hb : p.buffer.length < w) (ha : a ≠ []) : SplitF stepNeg p a := by
  rcases getArg_split p a w (widthOf_cases hm) hb ha with ⟨v, rest, hg, hgb⟩ | ⟨hg, hgb⟩
  · left
    intro b
    unfold stepNeg
    simp only [hm, hg, hgb b]
    cases negEvent w v with
    | error e => exact Ext.of_app rfl
    | ok ev => exact Ext.of_app (scalarPop_app _ _ _ _)
  · right
    have hr : stepNeg p a = { p := { p with buffer := p.buffer ++ a }, rest := [] } := by
      unfold stepNeg; simp only [hm, hg]
    rw [hr]
    refine ⟨rfl, rfl, rfl, fun b _ => Sim.of_eq ?_⟩
    obtain ⟨res, h1, h2⟩ := hgb b
    have hm' : widthOf ({ p with buffer := p.buffer ++ a } : P).state.current.minor = some w := hm
    unfold stepNeg
    simp only [hm, hm', h1, h2]
    obtain ⟨q, rest, v⟩ := res
    cases v <;> rfl

theorem stepLen_split (p : P) (a : Bytes) (w : Nat) (hm : widthOf p.state.current.minor = some w)
    (hb : p.buffer.length < w) (ha : a ≠ []) : SplitF stepLen p a := by
  rcases getArg_split p a w (widthOf_cases hm) hb ha with ⟨v, rest, hg, hgb⟩ | ⟨hg, hgb⟩
  · left
    intro b
    unfold stepLen
    simp only [hm, hg, hgb b]
    by_cases hv : v > 9223372036854775807
    · simp only [hv, if_true]; exact Ext.of_eq_err rfl (by simp)
    · simp only [hv, if_false]; exact Ext.of_app rfl
  · right
    have hr : stepLen p a = { p := { p with buffer := p.buffer ++ a }, rest := [] } := by
      unfold stepLen; simp only [hm, hg]
    rw [hr]
    refine ⟨rfl, rfl, rfl, fun b _ => Sim.of_eq ?_⟩
    obtain ⟨res, h1, h2⟩ := hgb b
    have hm' : widthOf ({ p with buffer := p.buffer ++ a } : P).state.current.minor = some w := hm
    unfold stepLen
    simp only [hm, hm', h1, h2]
    obtain ⟨q, rest, v⟩ := res
    cases v <;> rfl

theorem stepFloat_split (p : P) (a : Bytes) (w : Nat) (hw : 0 < w) (hb : p.buffer.length < w) :
    SplitF (fun q c => stepFloat q c w) p a := by
  rcases collectP_cases p a w hw hb with ⟨t, rest, _, hc, hcb⟩ | ⟨_, hc, hcb⟩
  · left
    intro b
    simp only []
    unfold stepFloat
    rw [hc, hcb b]
    simp only []
    rw [visit_eq]
    by_cases hf : vfail { p with buffer := [] } = true
    · simp only [hf, if_true]; exact Ext.of_app rfl
    · simp only [hf, Bool.false_eq_true, if_false]; exact Ext.of_app (popStateR_app _ _ _)
  · right
    have hr : stepFloat p a w = { p := { p with buffer := p.buffer ++ a }, rest := [] } := by
      unfold stepFloat; rw [hc]
    simp only []
    rw [hr]
    refine ⟨rfl, rfl, rfl, fun b _ => Sim.of_eq ?_⟩
    unfold stepFloat
    rw [hcb b]

theorem stepText_split (p : P) (a : Bytes) (hb : (p.buffer.length : Int) < p.length.current) :
    SplitF stepText p a := by
  rcases collectP_cases p a p.length.current.toNat (by omega) (by omega) with
    ⟨t, rest, _, hc, hcb⟩ | ⟨_, hc, hcb⟩
  · left
    intro b
    unfold stepText
    rw [hc, hcb b]
    simp only []
    rw [visit_eq]
    by_cases hf : vfail (popLen { p with buffer := [] }) = true
    · simp only [hf, if_true]; exact Ext.of_app rfl
    · simp only [hf, Bool.false_eq_true, if_false]; exact Ext.of_app (popStateR_app _ _ _)
  · right
    have hr : stepText p a = { p := { p with buffer := p.buffer ++ a }, rest := [] } := by
      unfold stepText; rw [hc]
    rw [hr]
    refine ⟨rfl, rfl, rfl, fun b _ => Sim.of_eq ?_⟩
    unfold stepText
    rw [hcb b]

theorem stepKey_split (p : P) (a : Bytes) (hb : (p.buffer.length : Int) < p.length.current) :
    SplitF stepKey p a := by
  rcases collectP_cases p a p.length.current.toNat (by omega) (by omega) with
    ⟨t, rest, _, hc, hcb⟩ | ⟨_, hc, hcb⟩
  · left
    intro b
    unfold stepKey
    rw [hc, hcb b]
    simp only []
    rw [visit_eq]
    by_cases hf : vfail { p with buffer := [] } = true
    · simp only [hf, if_true]; exact Ext.of_app rfl
    · simp only [hf, Bool.false_eq_true, if_false]; exact Ext.of_app rfl
  · right
    have hr : stepKey p a = { p := { p with buffer := p.buffer ++ a }, rest := [] } := by
      unfold stepKey; rw [hc]
    rw [hr]
    refine ⟨rfl, rfl, rfl, fun b _ => Sim.of_eq ?_⟩
    unfold stepKey
    rw [hcb b]

/-! ## byte strings (reported element-wise, possibly in several steps) -/

def byteEv (c : UInt8) : Ev := Ev.num NumKind.byte c.toNat

/-- the end of a byte string: `arrEnd`, then leave the state -/
def bytesDone (X : P) (rest : Bytes) : R :=
  match visit X .arrEnd with
  | (p, some e) => { p := popLen p, rest := rest, done := true, err := some e }
  | (p, none) => popStateR (popLen p) rest

def bytesFin (res : P × Option Err) (k : P → R) : R :=
  match res with
  | (p, some e) => { p := p, rest := [], err := some e }
  | (p, none) => k p

theorem stepBytesGo_done (q : P) (a : Bytes) (h : a.length ≥ q.length.current.toNat) :
    stepBytesGo q a = bytesFin (visitAll q ((a.take q.length.current.toNat).map byteEv))
      (fun p => bytesDone p (a.drop q.length.current.toNat)) := by
  unfold stepBytesGo
  simp only [h, decide_true, if_true]
  rfl

theorem stepBytesGo_part (q : P) (a : Bytes) (h : a.length < q.length.current.toNat) :
    stepBytesGo q a = bytesFin (visitAll (decLen q a.length) (a.map byteEv))
      (fun p => { p := p, rest := [] }) := by
  have h' : ¬ a.length ≥ q.length.current.toNat := by omega
  unfold stepBytesGo
  simp only [h', decide_false, Bool.false_eq_true, if_false, List.take_length, List.drop_length]
  rfl


theorem vfail_decLen (p : P) (k : Int) : vfail (decLen p k) = vfail p := rfl

theorem visitAll_decLen (p : P) (k : Int) (es : List Ev) :
    visitAll (decLen p k) es = (decLen (visitAll p es).1 k, (visitAll p es).2) := by
  induction es generalizing p with
  | nil => rfl
  | cons e es ih =>
    simp only [visitAll]
    rw [visit_eq, visit_eq, vfail_decLen]
    by_cases hf : vfail p = true
    · simp only [hf, if_true]; rfl
    · simp only [hf, Bool.false_eq_true, if_false]
      exact ih (addEv p e)

theorem visitAll_append (p : P) (xs ys : List Ev) :
    visitAll p (xs ++ ys) =
      match visitAll p xs with
      | (q, some e) => (q, some e)
      | (q, none) => visitAll q ys := by
  induction xs generalizing p with
  | nil => rfl
  | cons x xs ih =>
    simp only [List.cons_append, visitAll]
    rw [visit_eq]
    by_cases hf : vfail p = true
    · simp only [hf, if_true]
    · simp only [hf, Bool.false_eq_true, if_false]
      exact ih (addEv p x)

theorem popLen_decLen (p : P) (k : Int) : popLen (decLen p k) = popLen p := by
  simp only [popLen, decLen, LenStack.pop]
  cases p.length.stack <;> rfl

theorem bytesDone_decLen (X : P) (k : Int) (rest : Bytes) :
    bytesDone (decLen X k) rest = bytesDone X rest := by
  unfold bytesDone
  rw [visit_eq, visit_eq, vfail_decLen]
  have : popLen (addEv (decLen X k) Ev.arrEnd) = popLen (addEv X Ev.arrEnd) :=
    popLen_decLen (addEv X Ev.arrEnd) k
  by_cases hf : vfail X = true
  · simp only [hf, if_true, this]
  · simp only [hf, Bool.false_eq_true, if_false, this]

theorem bytesDone_app (X : P) (rest b : Bytes) :
    bytesDone X (rest ++ b) = app (bytesDone X rest) b := by
  unfold bytesDone
  rw [visit_eq]
  by_cases hf : vfail X = true
  · simp only [hf, if_true]; rfl
  · simp only [hf, Bool.false_eq_true, if_false]; exact popStateR_app _ _ _

theorem decLen_decLen (p : P) (a b : Int) : decLen (decLen p a) b = decLen p (a + b) := by
  simp only [decLen, Int.sub_sub]


theorem stepBytesGo_split (q : P) (a : Bytes) (hl : q.length.current > 0) : SplitF stepBytesGo q a := by
  by_cases hd : a.length ≥ q.length.current.toNat
  · left
    intro b
    have hd2 : (a ++ b).length ≥ q.length.current.toNat := by simp; omega
    rw [stepBytesGo_done q a hd, stepBytesGo_done q (a ++ b) hd2,
      List.take_append_of_le_length hd, List.drop_append_of_le_length hd]
    rcases visitAll q ((a.take q.length.current.toNat).map byteEv) with ⟨X, _ | e⟩
    · simp only [bytesFin]; exact Ext.of_app (bytesDone_app _ _ _)
    · simp only [bytesFin]; exact Ext.of_eq_err rfl (by simp)
  · have hlt : a.length < q.length.current.toNat := by omega
    unfold SplitF SplitK
    rw [stepBytesGo_part q a hlt, visitAll_decLen]
    have htake : ∀ b : Bytes, (a ++ b).take q.length.current.toNat
        = a ++ b.take (q.length.current.toNat - a.length) := by
      intro b; rw [List.take_append, List.take_of_length_le (Nat.le_of_lt hlt)]
    have hdrop : ∀ b : Bytes, (a ++ b).drop q.length.current.toNat
        = b.drop (q.length.current.toNat - a.length) := by
      intro b; rw [List.drop_append, List.drop_of_length_le (Nat.le_of_lt hlt), List.nil_append]
    have hcast : ∀ b : Bytes, ((a ++ b).length : Int) = (a.length : Int) + (b.length : Int) := by
      intro b; simp
    rcases hX : visitAll q (a.map byteEv) with ⟨X, _ | e⟩
    · right
      have hXq : X = withEvs q X.evs := visitAll_fst' hX
      have hXl : X.length = q.length := by rw [hXq]; rfl
      refine ⟨rfl, rfl, by rw [hXq]; rfl, fun b hb => ?_⟩
      show Sim (stepBytesGo (decLen X ↑a.length) b) (stepBytesGo q (a ++ b))
      have hL1 : (decLen X ↑a.length).length.current.toNat = q.length.current.toNat - a.length := by
        simp only [decLen, hXl]; omega
      by_cases hd2 : (a ++ b).length ≥ q.length.current.toNat
      · have hd1 : b.length ≥ (decLen X ↑a.length).length.current.toNat := by
          rw [hL1]; rw [List.length_append] at hd2; omega
        have hW : stepBytesGo q (a ++ b) =
            bytesFin (visitAll X ((b.take (q.length.current.toNat - a.length)).map byteEv))
              (fun p => bytesDone p (b.drop (q.length.current.toNat - a.length))) := by
          rw [stepBytesGo_done q (a ++ b) hd2, htake, hdrop, List.map_append, visitAll_append, hX]
        have hC : stepBytesGo (decLen X ↑a.length) b =
            bytesFin (decLen (visitAll X ((b.take (q.length.current.toNat - a.length)).map byteEv)).1 ↑a.length,
                (visitAll X ((b.take (q.length.current.toNat - a.length)).map byteEv)).2)
              (fun p => bytesDone p (b.drop (q.length.current.toNat - a.length))) := by
          rw [stepBytesGo_done _ b hd1, hL1, visitAll_decLen]
        rw [hW, hC]
        rcases visitAll X ((b.take (q.length.current.toNat - a.length)).map byteEv) with ⟨Y, _ | e⟩
        · simp only [bytesFin]; exact Sim.of_eq (by rw [bytesDone_decLen])
        · simp only [bytesFin]; exact ⟨rfl, rfl, fun h => by cases h⟩
      · have hlt2 : (a ++ b).length < q.length.current.toNat := by omega
        have hlt1 : b.length < (decLen X ↑a.length).length.current.toNat := by
          rw [hL1]; rw [List.length_append] at hlt2; omega
        have hW : stepBytesGo q (a ++ b) =
            bytesFin (decLen (visitAll X (b.map byteEv)).1 ((a.length : Int) + (b.length : Int)),
                (visitAll X (b.map byteEv)).2) (fun p => { p := p, rest := [] }) := by
          rw [stepBytesGo_part q (a ++ b) hlt2, visitAll_decLen, List.map_append, visitAll_append, hX, hcast]
        have hC : stepBytesGo (decLen X ↑a.length) b =
            bytesFin (decLen (decLen (visitAll X (b.map byteEv)).1 ↑a.length) ↑b.length,
                (visitAll X (b.map byteEv)).2) (fun p => { p := p, rest := [] }) := by
          rw [stepBytesGo_part _ b hlt1, visitAll_decLen, visitAll_decLen]
        rw [hW, hC, decLen_decLen]
        exact Sim.refl _
    · left
      intro b
      show Ext { p := decLen X ↑a.length, rest := [], err := some e } (stepBytesGo q (a ++ b)) b
      by_cases hd2 : (a ++ b).length ≥ q.length.current.toNat
      · rw [stepBytesGo_done q (a ++ b) hd2, htake, List.map_append, visitAll_append, hX]
        exact ⟨rfl, rfl, fun h => by cases h⟩
      · have hlt2 : (a ++ b).length < q.length.current.toNat := by omega
        rw [stepBytesGo_part q (a ++ b) hlt2, visitAll_decLen, List.map_append, visitAll_append, hX]
        exact ⟨rfl, rfl, fun h => by cases h⟩


theorem stepBytes_split (p : P) (a : Bytes) (hl : p.length.current > 0) :
    SplitK (fun q q' => q'.state.current.major = q.state.current.major) stepBytes p a := by
  by_cases hmin : (p.state.current.minor == stStart) = true
  · by_cases hf : vfail p = true
    · left
      intro b
      simp only [stepBytes, hmin, if_true, visit_eq, hf]
      exact Ext.of_eq_err rfl (by simp)
    · have hq : ∀ c, stepBytes p c =
          stepBytesGo (setMinor (addEv p (Ev.arrStart p.length.current BT.byte)) stCont) c := by
        intro c; simp only [stepBytes, hmin, if_true, visit_eq, hf, Bool.false_eq_true, if_false]
      rcases stepBytesGo_split (setMinor (addEv p (Ev.arrStart p.length.current BT.byte)) stCont) a hl
        with h | ⟨h1, h2, h3, h4⟩
      · left; intro b; rw [hq, hq]; exact h b
      · right
        refine ⟨by rw [hq]; exact h1, by rw [hq]; exact h2, by rw [hq]; show _ = _; rw [h3]; rfl, fun b hb => ?_⟩
        rw [hq a, hq (a ++ b)]
        have : stepBytes (stepBytesGo (setMinor (addEv p (Ev.arrStart p.length.current BT.byte)) stCont) a).p b
            = stepBytesGo (stepBytesGo (setMinor (addEv p (Ev.arrStart p.length.current BT.byte)) stCont) a).p b := by
          have hmin' : ((stepBytesGo (setMinor (addEv p (Ev.arrStart p.length.current BT.byte)) stCont) a).p.state.current.minor
              == stStart) = false := by rw [h3]; show (stCont == stStart) = false; decide
          simp only [stepBytes, hmin', Bool.false_eq_true, if_false]
        rw [this]
        exact h4 b hb
  · have hq : ∀ c, stepBytes p c = stepBytesGo p c := by
      intro c; simp only [stepBytes, hmin, Bool.false_eq_true, if_false]
    rcases stepBytesGo_split p a hl with h | ⟨h1, h2, h3, h4⟩
    · left; intro b; rw [hq, hq]; exact h b
    · right
      refine ⟨by rw [hq]; exact h1, by rw [hq]; exact h2, by rw [hq]; show _ = _; rw [h3], fun b hb => ?_⟩
      rw [hq a, hq (a ++ b)]
      have : stepBytes (stepBytesGo p a).p b = stepBytesGo (stepBytesGo p a).p b := by
        have hmin' : ((stepBytesGo p a).p.state.current.minor == stStart) = false := by
          rw [h3]; simpa using hmin
        simp only [stepBytes, hmin', Bool.false_eq_true, if_false]
      rw [this]
      exact h4 b hb

/-! ## the split law of one step of the main loop -/

/-- the step on `a` parks all of `a` (or finds nothing to do) and the step on `b` from the
resulting configuration is the step on `a ++ b` -/
def Parked (p : P) (a : Bytes) : Prop :=
  (execStep p a).err = none ∧ (execStep p a).rest = [] ∧ startPending (execStep p a).p = false ∧
  ∀ b, b ≠ [] → Sim (execStep (execStep p a).p b) (execStep p (a ++ b))

def Split (p : P) (a : Bytes) : Prop :=
  (∀ b, Ext (execStep p a) (execStep p (a ++ b)) b) ∨ Parked p a

theorem split_of_splitK {K : P → P → Prop} {f : P → Bytes → R} {p q : P} {a : Bytes} (m : UInt8)
    (hq : q.state.current.major = m)
    (hK : ∀ q', K q q' → q'.state.current.major = q.state.current.major)
    (hnp : ((m &&& (stStartX ||| stIndef)) == stStartX) = false)
    (hdisp : ∀ q' c, q'.state.current.major = m → execStep q' c = f q' c)
    (hp : ∀ c, (a ≠ [] → c ≠ []) → execStep p c = f q c)
    (h : SplitK K f q a) : Split p a := by
  have hpa : execStep p a = f q a := hp a id
  have hpb : ∀ b, execStep p (a ++ b) = f q (a ++ b) := fun b => hp (a ++ b) (fun h => by simp [h])
  rcases h with h | ⟨h1, h2, h3, h4⟩
  · left; intro b; rw [hpa, hpb]; exact h b
  · right
    have hmaj : (f q a).p.state.current.major = m := by rw [hK _ h3]; exact hq
    refine ⟨by rw [hpa]; exact h1, by rw [hpa]; exact h2, ?_, fun b hb => ?_⟩
    · rw [hpa]; exact not_pending_of_major hmaj hnp
    · rw [hpa, hpb, hdisp _ b hmaj]; exact h4 b hb



theorem sameState_major {q q' : P} (h : q'.state = q.state) :
    q'.state.current.major = q.state.current.major := by rw [h]

/-- THE SPLIT LAW OF ONE STEP, from every invariant state and on every input the main loop
can pass -/
theorem execStep_split (p : P) (a : Bytes) (hI : Inv p) (hm : More p a) : Split p a := by
  cases hI with
  | val hq =>
    have ha := hm.ne_nil hq.not_pending
    cases a with
    | nil => exact absurd rfl ha
    | cons x bs =>
      left
      intro b
      rcases hq.vs.head_cases with h | h | h | h | h
      · rw [execStep_val _ _ h, execStep_val _ _ h]; exact stepValue_ext p x bs b
      · have hl := hq.len (Or.inl h)
        have : ∀ c, execStep p c = stepValue p c := by
          intro c; rw [execStep_arr _ _ h]; simp [stepArray, hl]
        rw [this, this]; exact stepValue_ext p x bs b
      · have hl := hq.len (Or.inr h)
        have : ∀ y cs, execStep p (y :: cs) = initMapKey p (y :: cs) := by
          intro y cs; rw [execStep_map _ _ h]; simp [stepMap, hl]
        rw [List.cons_append, this, this]; exact initMapKey_ext p x bs b
      · rw [execStep_indefArr _ _ h, execStep_indefArr _ _ h]; exact indefArr_ext p x bs b
      · rw [execStep_indefMap _ _ h, execStep_indefMap _ _ h]; exact indefMap_ext p x bs b
  | uint w h1 h2 h3 h4 =>
    have ha := hm.ne_nil (not_pending_of_major h1 (by decide))
    exact split_of_splitK 0x00 h1 (fun _ h => sameState_major h) (by decide)
      (fun q' c h => execStep_uint q' c h) (fun c _ => execStep_uint p c h1) (stepUint_split p a w h2 h3 ha)
  | neg w h1 h2 h3 h4 =>
    have ha := hm.ne_nil (not_pending_of_major h1 (by decide))
    exact split_of_splitK 0x20 h1 (fun _ h => sameState_major h) (by decide)
      (fun q' c h => execStep_neg q' c h) (fun c _ => execStep_neg p c h1) (stepNeg_split p a w h2 h3 ha)
  | f32 h1 h2 h3 =>
    exact split_of_splitK (f := fun q c => stepFloat q c 4) 0xfa h1 (fun _ h => sameState_major h) (by decide)
      (fun q' c h => execStep_f32 q' c h) (fun c _ => execStep_f32 p c h1)
      (stepFloat_split p a 4 (by omega) h2)
  | f64 h1 h2 h3 =>
    exact split_of_splitK (f := fun q c => stepFloat q c 8) 0xfb h1 (fun _ h => sameState_major h) (by decide)
      (fun q' c h => execStep_f64 q' c h) (fun c _ => execStep_f64 p c h1)
      (stepFloat_split p a 8 (by omega) h2)
  | len w s t h1 h2 h3 h4 h5 =>
    have ha := hm.ne_nil (not_pending_of_major h1 (by decide))
    exact split_of_splitK 3 h1 (fun _ h => sameState_major h) (by decide)
      (fun q' c h => execStep_len q' c h) (fun c _ => execStep_len p c h1) (stepLen_split p a w h2 h3 ha)
  | startSeq h1 h2 h3 h4 =>
    rcases h1 with h | h | h
    · by_cases hl0 : (p.length.current == 0) = true
      · left
        intro b
        rw [execStep_bytesStart _ _ h, execStep_bytesStart _ _ h]
        simp only [hl0, if_true]
        rw [visit_eq]
        by_cases hf : vfail p = true
        · simp only [hf, if_true]; exact Ext.of_app rfl
        · simp only [hf, Bool.false_eq_true, if_false]
          rw [visit_eq]
          by_cases hf2 : vfail (addEv p (Ev.arrStart 0 BT.byte)) = true
          · simp only [hf2, if_true]; exact Ext.of_app rfl
          · simp only [hf2, Bool.false_eq_true, if_false]; exact Ext.of_app (popStateR_app _ _ _)
      · have hlpos : p.length.current > 0 := by
          have : p.length.current ≠ 0 := by simpa using hl0
          omega
        have hne : ∀ c : Bytes, c ≠ [] → execStep p c = stepBytes (setMajor p majorBytes) c := by
          intro c hc
          have hc' : (c.length == 0) = false := by
            cases c with
            | nil => exact absurd rfl hc
            | cons _ _ => simp
          rw [execStep_bytesStart _ _ h]
          simp only [hl0, hc', Bool.false_eq_true, if_false]
        by_cases ha : a = []
        · subst ha
          right
          have hr : execStep p [] = { p := setMajor p majorBytes, rest := [] } := by
            rw [execStep_bytesStart _ _ h]
            simp only [hl0, Bool.false_eq_true, if_false, List.length_nil, beq_self_eq_true, if_true]
          refine ⟨by rw [hr], by rw [hr], by rw [hr]; exact not_pending_of_major (m := majorBytes) rfl (by decide),
            fun b hb => Sim.of_eq ?_⟩
          rw [hr, List.nil_append, hne b hb]
          exact (execStep_bytes _ b rfl).symm
        · exact split_of_splitK (q := setMajor p majorBytes) 0x40 rfl (fun _ h => h) (by decide)
            (fun q' c h => execStep_bytes q' c h) (fun c hc => hne c (hc ha))
            (stepBytes_split _ a hlpos)
    · by_cases hl0 : (p.length.current == 0) = true
      · left
        intro b
        rw [execStep_textStart _ _ h, execStep_textStart _ _ h]
        simp only [hl0, if_true]
        rw [visit_eq]
        by_cases hf : vfail (popLen p) = true
        · simp only [hf, if_true]; exact Ext.of_app rfl
        · simp only [hf, Bool.false_eq_true, if_false]; exact Ext.of_app (popStateR_app _ _ _)
      · have hlpos : p.length.current > 0 := by
          have : p.length.current ≠ 0 := by simpa using hl0
          omega
        have hbl : ((setMajor p majorText).buffer.length : Int) < (setMajor p majorText).length.current := by
          simp [h2]; exact hlpos
        have hne : ∀ c : Bytes, c ≠ [] → execStep p c = stepText (setMajor p majorText) c := by
          intro c hc
          have hc' : (c.length == 0) = false := by
            cases c with
            | nil => exact absurd rfl hc
            | cons _ _ => simp
          rw [execStep_textStart _ _ h]
          simp only [hl0, hc', Bool.false_eq_true, if_false]
        by_cases ha : a = []
        · subst ha
          right
          have hr : execStep p [] = { p := setMajor p majorText, rest := [] } := by
            rw [execStep_textStart _ _ h]
            simp only [hl0, Bool.false_eq_true, if_false, List.length_nil, beq_self_eq_true, if_true]
          refine ⟨by rw [hr], by rw [hr], by rw [hr]; exact not_pending_of_major (m := majorText) rfl (by decide),
            fun b hb => Sim.of_eq ?_⟩
          rw [hr, List.nil_append, hne b hb]
          exact (execStep_text _ b rfl).symm
        · exact split_of_splitK (q := setMajor p majorText) 0x60 rfl (fun _ h => sameState_major h) (by decide)
            (fun q' c h => execStep_text q' c h) (fun c hc => hne c (hc ha))
            (stepText_split _ a hbl)
    · by_cases hl0 : (p.length.current == 0) = true
      · left
        intro b
        rw [execStep_keyStart _ _ h, execStep_keyStart _ _ h]
        simp only [hl0, if_true]
        rw [visit_eq]
        by_cases hf : vfail p = true
        · simp only [hf, if_true]; exact Ext.of_app rfl
        · simp only [hf, Bool.false_eq_true, if_false]; exact Ext.of_app rfl
      · have hlpos : p.length.current > 0 := by
          have : p.length.current ≠ 0 := by simpa using hl0
          omega
        have hbl : ((setMajor p stKey).buffer.length : Int) < (setMajor p stKey).length.current := by
          simp [h2]; exact hlpos
        have hall : ∀ c : Bytes, execStep p c = stepKey (setMajor p stKey) c := by
          intro c
          rw [execStep_keyStart _ _ h]
          simp only [hl0, Bool.false_eq_true, if_false]
        exact split_of_splitK (q := setMajor p stKey) 0xa8 rfl (fun _ h => sameState_major h) (by decide)
          (fun q' c h => execStep_key q' c h) (fun c _ => hall c)
          (stepKey_split _ a hbl)
  | startSub c t hs hpair hv hb =>
    rcases hpair with ⟨h, hc⟩ | ⟨h, hc⟩ | ⟨h, hc⟩ | ⟨h, hc⟩
    · by_cases hf : vfail p = true
      · left
        intro b
        rw [execStep_startArr _ _ h, execStep_startArr _ _ h, visit_eq]
        simp only [hf, if_true]; exact Ext.of_app rfl
      · have hst : (popSt (addEv p (Ev.arrStart p.length.current BT.any))).state = ⟨t, c⟩ :=
          popSt_state (by simpa using hs)
        have hqm : (popSt (addEv p (Ev.arrStart p.length.current BT.any))).state.current.major = 0x80 := by
          rw [hst]; exact hc
        have hall : ∀ d, execStep p d = stepArray (popSt (addEv p (Ev.arrStart p.length.current BT.any))) d := by
          intro d
          rw [execStep_startArr _ _ h, visit_eq]
          simp only [hf, Bool.false_eq_true, if_false]
        generalize popSt (addEv p (Ev.arrStart p.length.current BT.any)) = q at hst hqm hall
        by_cases hl : q.length.current > 0
        · have hsv : ∀ d, stepArray q d = stepValue q d := by
            intro d; simp [stepArray, hl]
          cases a with
          | nil =>
            right
            have hr : execStep p [] = { p := q, rest := [] } := by
              rw [hall, hsv]; rfl
            refine ⟨by rw [hr], by rw [hr], by rw [hr]; exact not_pending_of_major hqm (by decide),
              fun b hb => Sim.of_eq ?_⟩
            rw [hr, List.nil_append, hall b]
            exact (execStep_arr _ b hqm).symm
          | cons x bs =>
            left
            intro b
            rw [hall, hall, hsv, hsv]
            exact stepValue_ext _ x bs b
        · left
          intro b
          rw [hall, hall]
          simp only [stepArray, hl, if_false]
          exact Ext.of_app rfl
    · by_cases hf : vfail p = true
      · left
        intro b
        rw [execStep_startMap _ _ h, execStep_startMap _ _ h, visit_eq]
        simp only [hf, if_true]; exact Ext.of_app rfl
      · have hst : (popSt (addEv p (Ev.objStart p.length.current BT.any))).state = ⟨t, c⟩ :=
          popSt_state (by simpa using hs)
        have hqm : (popSt (addEv p (Ev.objStart p.length.current BT.any))).state.current.major = 0xa0 := by
          rw [hst]; exact hc
        have hall : ∀ d, execStep p d = stepMap (popSt (addEv p (Ev.objStart p.length.current BT.any))) d := by
          intro d
          rw [execStep_startMap _ _ h, visit_eq]
          simp only [hf, Bool.false_eq_true, if_false]
        generalize popSt (addEv p (Ev.objStart p.length.current BT.any)) = q at hst hqm hall
        by_cases hl : q.length.current > 0
        · cases a with
          | nil =>
            right
            have hr : execStep p [] = { p := q, rest := [] } := by
              rw [hall]; simp [stepMap, hl]
            refine ⟨by rw [hr], by rw [hr], by rw [hr]; exact not_pending_of_major hqm (by decide),
              fun b hb => Sim.of_eq ?_⟩
            rw [hr, List.nil_append, hall b]
            exact (execStep_map _ b hqm).symm
          | cons x bs =>
            left
            intro b
            have hsv : ∀ y cs, stepMap q (y :: cs) = initMapKey q (y :: cs) := by
              intro y cs; simp [stepMap, hl]
            rw [hall, hall, List.cons_append, hsv, hsv]
            exact initMapKey_ext _ x bs b
        · left
          intro b
          rw [hall, hall]
          simp only [stepMap, hl, if_false]
          exact Ext.of_app rfl
    · have ha := hm.ne_nil (not_pending_of_major h (by decide))
      cases a with
      | nil => exact absurd rfl ha
      | cons x bs =>
        left
        intro b
        rw [execStep_startIndefArr _ _ h, execStep_startIndefArr _ _ h, visit_eq]
        by_cases hf : vfail p = true
        · simp only [hf, if_true]; exact Ext.of_app rfl
        · simp only [hf, Bool.false_eq_true, if_false]; exact indefArr_ext _ x bs b
    · have ha := hm.ne_nil (not_pending_of_major h (by decide))
      cases a with
      | nil => exact absurd rfl ha
      | cons x bs =>
        left
        intro b
        rw [execStep_startIndefMap _ _ h, execStep_startIndefMap _ _ h, visit_eq]
        by_cases hf : vfail p = true
        · simp only [hf, if_true]; exact Ext.of_app rfl
        · simp only [hf, Bool.false_eq_true, if_false]; exact indefMap_ext _ x bs b
  | bytes h1 h2 h3 h4 =>
    exact split_of_splitK 0x40 h1 (fun _ h => h) (by decide)
      (fun q' c h => execStep_bytes q' c h) (fun c _ => execStep_bytes p c h1) (stepBytes_split p a h3)
  | text h1 h2 h3 =>
    exact split_of_splitK 0x60 h1 (fun _ h => sameState_major h) (by decide)
      (fun q' c h => execStep_text q' c h) (fun c _ => execStep_text p c h1) (stepText_split p a h2)
  | key h1 h2 h3 =>
    exact split_of_splitK 0xa8 h1 (fun _ h => sameState_major h) (by decide)
      (fun q' c h => execStep_key q' c h) (fun c _ => execStep_key p c h1) (stepKey_split p a h2)
  | elem h1 h2 h3 =>
    have ha := hm.ne_nil (not_pending_of_major h1 (by decide))
    cases a with
    | nil => exact absurd rfl ha
    | cons x bs =>
      left
      intro b
      rw [execStep_elem _ _ h1, execStep_elem _ _ h1]; exact stepValue_ext (popSt p) x bs b


/-! ## the split law of the main loop -/

theorem More.append {p : P} {a : Bytes} (h : More p a) (b : Bytes) : More p (a ++ b) := by
  rcases h with h | h
  · left; intro hc; exact h (List.append_eq_nil_iff.mp hc).1
  · exact Or.inr h

theorem Runs.of_not_more {p : P} {b : Bytes} {p' : P} {e : Option Err} (h : Runs p b p' e)
    (hm : ¬ More p b) : p' = p ∧ e = none := by
  have := Runs.det h (Runs.stop hm)
  exact this

/-- THE SPLIT LAW OF THE MAIN LOOP: running over `a ++ b` is running over `a` and then, from
the configuration reached, over `b` — with the same events and the same verdict, and (if
the verdict is "no error") the very same final parser state -/
theorem runs_split {p : P} {a : Bytes} {p1 : P} {e1 : Option Err} (h : Runs p a p1 e1) (b : Bytes) :
    Inv p →
    (∀ e, e1 = some e → ∃ p1', Runs p (a ++ b) p1' (some e) ∧ p1'.evs = p1.evs) ∧
    (e1 = none → ∀ p2 e2, Runs p1 b p2 e2 →
      ∃ p2', Runs p (a ++ b) p2' e2 ∧ p2'.evs = p2.evs ∧ (e2 = none → p2' = p2)) := by
  induction h with
  | @stop p a hm =>
    intro hI
    have ha : a = [] := by
      cases a with
      | nil => rfl
      | cons x xs => exact absurd (Or.inl (by simp)) hm
    subst ha
    refine ⟨fun e he => (by cases he), fun _ p2 e2 h2 => ⟨p2, by simpa using h2, rfl, fun _ => rfl⟩⟩
  | @err p a e hm he =>
    intro hI
    refine ⟨fun e' he' => ?_, fun h => by cases h⟩
    injection he' with he'
    subst he'
    rcases execStep_split p a hI hm with hext | ⟨k1, _, _, _⟩
    · obtain ⟨x1, x2, _⟩ := hext b
      exact ⟨_, Runs.err (hm.append b) (by rw [x1, he]), x2⟩
    · rw [he] at k1; cases k1
  | @step p a p1 e1 hm he h' ih =>
    intro hI
    have hok := execStep_ok p a hI hm he
    obtain ⟨ih1, ih2⟩ := ih hok.inv
    rcases execStep_split p a hI hm with hext | ⟨k1, k2, k3, k4⟩
    · obtain ⟨x1, x2, x3⟩ := hext b
      have hx := x3 he
      have hstep : ∀ X E, Runs (execStep p a).p ((execStep p a).rest ++ b) X E → Runs p (a ++ b) X E := by
        intro X E hr
        refine Runs.step (hm.append b) (by rw [x1, he]) ?_
        rw [hx]; exact hr
      refine ⟨fun e he1 => ?_, fun he1 p2 e2 h2 => ?_⟩
      · obtain ⟨q, hq1, hq2⟩ := ih1 e he1
        exact ⟨q, hstep _ _ hq1, hq2⟩
      · obtain ⟨q, hq1, hq2, hq3⟩ := ih2 he1 p2 e2 h2
        exact ⟨q, hstep _ _ hq1, hq2, hq3⟩
    · have hnm : ¬ More (execStep p a).p (execStep p a).rest := by
        rw [k2]
        rintro (h | h)
        · exact h rfl
        · rw [k3] at h; cases h
      obtain ⟨hp1, he1⟩ := h'.of_not_more hnm
      subst he1
      refine ⟨fun e he1 => (by cases he1), fun _ p2 e2 h2 => ?_⟩
      rw [hp1] at h2
      by_cases hb : b = []
      · subst hb
        have hnm' : ¬ More (execStep p a).p [] := by rw [k2] at hnm; exact hnm
        obtain ⟨hp2, he2⟩ := h2.of_not_more hnm'
        subst he2
        refine ⟨p1, ?_, by rw [hp2, hp1], fun _ => by rw [hp2, hp1]⟩
        rw [List.append_nil]
        exact Runs.step hm he h'
      · obtain ⟨s1, s2, s3⟩ := k4 b hb
        cases h2 with
        | stop hm2 => exact absurd (Or.inl hb) hm2
        | err hm2 he2 =>
          exact ⟨_, Runs.err (hm.append b) (by rw [s1, he2]), s2, fun h => by cases h⟩
        | step hm2 he2 h2' =>
          have hx := s3 he2
          refine ⟨p2, Runs.step (hm.append b) (by rw [s1, he2]) ?_, rfl, fun _ => rfl⟩
          rw [hx]; exact h2'


end SF.Cbor.Chunk
