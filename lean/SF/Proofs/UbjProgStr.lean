/-
  C03 no-hang (UBJSON): stepString.
-/
import SF.Proofs.UbjProgFixed
namespace SF.Ubjson.Parse
open SF SF.Ubjson
open StateType StateStep

/-! ### stepString -/

theorem pastHdr_untyped {s : St} (h1 : s.type ≠ stArrayTyped) (h2 : s.type ≠ stObjectTyped) : pastHdr s = false := by
  simp [pastHdr, h1, h2]

/-- a continuation that only changes the step of an untyped state -/
theorem contOK_untyped {p : P} {st : StateStep} (h1 : p.state.current.type ≠ stArrayTyped)
    (h2 : p.state.current.type ≠ stObjectTyped) (hv : validSt (p.state.current.withStep st) = true) :
    ContOK p (p.state.current.withStep st) :=
  ⟨hv, rfl, by rw [pastHdr_untyped h1 h2, pastHdr_untyped (by simpa [St.withStep] using h1)
    (by simpa [St.withStep] using h2)]⟩

theorem Adv.prg {p : P} {b : Bytes} {r : R} (h : Adv p b r) (ht : tS p.state.current = 0) :
    Prg p b r.p r.rest := by
  cases h with
  | consume h1 h2 => exact Or.inl ⟨h1, h2⟩
  | deliver h1 h2 => exact Or.inr ⟨h1, h2⟩
  | push h0 h0' h1 h2 => omega

theorem Prg.le {p0 p : P} {b0 b : Bytes} (h : Prg p0 b0 p b) :
    pot p b ≤ pot p0 b0 ∧ p0.evs.length ≤ p.evs.length := by
  rcases h with h | h
  · exact ⟨by omega, h.2⟩
  · exact ⟨h.1, by omega⟩

theorem strFin_step (p0 : P) (b0 : Bytes) (p : P) (b : Bytes) (done : Bool) (err : Option Err) (hg : G p)
    (ht : p.state.current.type = stString ∨ p.state.current.type = stHighPrec)
    (herr : err ≠ some .outOfFuel) (hp : Prg p0 b0 p b) :
    Step p0 b0 (strFin p b done err) := by
  unfold strFin
  split
  · refine Step.good (hg.popLenState (by rcases ht with h | h <;> simp [h])
      (by rcases ht with h | h <;> simp [pastHdr, h])) ?_
    exact (hp.congr (q := (popLenState p).1) rfl rfl).adv _ _
  · exact ⟨herr, fun he => ⟨hg, by simp only at he; subst he; exact hp.adv _ _⟩⟩

theorem strWithLen_step (p0 : P) (b0 : Bytes) (p : P) (b : Bytes) (hg : G p)
    (ht : p.state.current.type = stString ∨ p.state.current.type = stHighPrec)
    (hp : Prg p0 b0 p b ∨ (pot p b ≤ pot p0 b0 ∧ p0.evs.length ≤ p.evs.length ∧ b ≠ [])) :
    Step p0 b0 (strWithLen p b) := by
  have hle : pot p b ≤ pot p0 b0 ∧ p0.evs.length ≤ p.evs.length := by
    rcases hp with hp | hp
    · exact hp.le
    · exact ⟨hp.1, hp.2.1⟩
  unfold strWithLen
  simp only []
  split
  · simp only [visit_eq]
    exact strFin_step p0 b0 (addEv p _) b true _ (hg.addEv _) ht
      (by rcases verr_cases p with h | h <;> simp [h]) (Prg.visit hle.1 hle.2 _)
  · split
    · exact Step.error .panic rfl (by decide)
    · rename_i hz hneg
      have hn : 1 ≤ p.length.current.toNat := by
        have : p.length.current ≠ 0 := by simpa using hz
        omega
      have h1 := hg.collectP b p.length.current.toNat
      have h2 := collectP_pot p b p.length.current.toNat
      rcases h : collectP p b p.length.current.toNat with ⟨q, rest, tmp⟩
      rw [h] at h1 h2
      have hq : q = (collectP p b p.length.current.toNat).1 := by rw [h]
      have hqe : q.evs = p.evs := by rw [hq]; rfl
      have hqs : q.state = p.state := by rw [hq]; rfl
      simp only at h1 h2
      cases tmp with
      | none =>
        refine strFin_step p0 b0 q rest false none h1 (by rw [hqs]; exact ht) (by simp) ?_
        rcases hp with hp | hp
        · rcases hp with hp | hp
          · exact Or.inl ⟨by omega, by rw [hqe]; exact hp.2⟩
          · exact Or.inr ⟨by omega, by rw [hqe]; exact hp.2⟩
        · exact Or.inl ⟨by have := h2.2.1 rfl hp.2.2; omega, by rw [hqe]; exact hp.2.1⟩
      | some t =>
        simp only [visit_eq]
        exact strFin_step p0 b0 (addEv q _) rest true _ (h1.addEv _) (by simpa [addEv, hqs] using ht)
          (by rcases verr_cases q with h | h <;> simp [h])
          (Prg.visit (by omega) (by rw [hqe]; exact hle.2) _)

theorem strFin_false (p : P) (b : Bytes) (err : Option Err) : strFin p b false err = ⟨p, b, false, err⟩ := by
  simp [strFin]

theorem stepString_step (p : P) (b : Bytes) (hg : G p) (hb : b ≠ [])
    (ht : p.state.current.type = stString ∨ p.state.current.type = stHighPrec) :
    Step p b (stepString p b) := by
  have hts : tS p.state.current = 0 := by rcases ht with h | h <;> simp [tS, h]
  rw [stepString_eq]
  split
  · rename_i hs
    have hc : ContOK p (p.state.current.withStep stWithLen) := by
      rcases ht with h | h <;>
        exact contOK_untyped (by simp [h]) (by simp [h]) (by simp [St.withStep, validSt, h])
    have hl := stepLen_step p b _ hg hc hb
    have hcur := stepLen_cur p b (p.state.current.withStep stWithLen)
    simp only []
    split
    · rw [strFin_false]
      exact hl.setDone false
    · rename_i hcond
      simp only [Bool.not_eq_true, Bool.not_eq_false', Bool.and_eq_true, Option.isNone_iff_eq_none] at hcond
      obtain ⟨hg', ha⟩ := hl.ok hcond.1
      refine strWithLen_step p b _ _ hg' ?_ (Or.inl (ha.prg hts))
      rcases hcur with h | h <;> rw [h] <;> simpa [St.withStep] using ht
  · exact strWithLen_step p b p b hg ht (Or.inr ⟨Nat.le_refl _, Nat.le_refl _, hb⟩)
  · rename_i h1 h2
    have := hg.val p.state.current (by simp [sl])
    rcases ht with h | h <;> simp [validSt, h] at this <;> rcases this with h' | h' <;> simp_all

end SF.Ubjson.Parse
