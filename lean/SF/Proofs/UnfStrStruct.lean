/-
  Targets with structs, part 8: the STRUCT frames — `unfolderStructStart` (the object starts),
  `unfolderStruct` (a key: the field's unfolder is initialised on the pointer to the field — through the
  offsets of any number of inlined structs —, or, for an unknown key, the ignore state is pushed; the object
  ends) — and the three IGNORE states.
-/
import SF.Proofs.UnfStrInit
namespace SF.Unf.Str
open SF SF.Unf

variable {tbl : TypeTable} {R : Reg} {D : Nat} {base : S6} {fs : List Frame} {c : Ctx}

/-! ## between two events -/

/-- the unfolder state on top of the unfolder stack when the frame is the top frame -/
def Frame.cur : Frame → U
  | .prim k _ _ => .prim k
  | .arrS k _ _ => .arrStart k
  | .arr k _ _ _ => .arr k
  | .mapS k _ _ => .mapStart k
  | .mapK k _ _ => .mapKey k
  | .mapV k _ _ _ => .mapVal k
  | .sub _ _ _ _ => .noTarget
  | .rslS _ _ _ _ => .reflSliceStart
  | .rsl e ru _ _ _ => .reflSlice e ru
  | .rmS _ _ _ _ => .reflMapStart
  | .rmK e ru _ _ => .reflMapOnKey e ru
  | .rmE e ru _ _ _ => .reflMapOnElem e ru
  | .cellx _ _ => .noTarget
  | .rp e ru _ _ => .reflPtr e ru
  | .stS _ _ _ => .structStart
  | .st fields _ _ => .struct fields
  | .ign _ _ => .ignore
  | .ignA _ _ => .ignoreArr
  | .ignO _ _ => .ignoreObj

/-- frames with an unfolder state of their own -/
def Frame.hasU : Frame → Prop
  | .sub _ _ _ _ => False
  | .cellx _ _ => False
  | _ => True

/-- frames that are gone once they have their value -/
def Frame.pops : Frame → Prop
  | .prim _ _ _ => True
  | .rp _ _ _ _ => True
  | .ign _ _ => True
  | _ => False

def isSt : List Frame → Prop
  | .st _ _ _ :: _ => True
  | _ => False

/-- between two events: the top frame has an unfolder state, and a frame that is gone once it has its
value is on top only as the frame of the target itself or as the frame of a struct field (everywhere else
it lives inside one forwarded event) -/
def Rest : List Frame → Prop
  | [] => True
  | F :: fs => F.hasU ∧ (F.pops → fs = [] ∨ isSt fs)

theorem Inv.cur {F : Frame} (h : Inv tbl R D base (F :: fs) c) (hF : F.hasU) : c.unfolder.current = F.cur := by
  obtain ⟨hu, _⟩ := s6_eq _ _ h.stacks
  cases F <;> first | exact hF.elim | (simp only [stacksOf, Frame.push] at hu; rw [hu]; rfl)

theorem hasU_waitF (ru : RU) (t : GoType) (q : Path) : (waitF ru t q).hasU := by
  cases ru with
  | lifted pu => cases pu <;> trivial
  | _ => trivial

theorem Rest.of_not_pops {F : Frame} {fs : List Frame} (hU : F.hasU) (hp : ¬ F.pops) : Rest (F :: fs) :=
  ⟨hU, fun h => absurd h hp⟩

/-! ## field paths -/

theorem lookupField_mem {fields : Fields} {key : Bytes} {off : List Nat} {ru : RU}
    (h : lookupField fields key = some (off, ru)) : ∃ k, (k, off, ru) ∈ fields := by
  unfold lookupField at h
  split at h
  · rename_i k off' ru' hf
    injection h with h
    injection h with h1 h2
    subst h1; subst h2
    exact ⟨k, List.mem_of_find?_eq_some hf⟩
  · cases h

/-- a path of field steps that the type has resolves in every value of the type -/
theorem get_fields : ∀ (off : List Nat) (t tf : GoType) (a : GoVal), TyAt tbl t (off.map Step.field) tf →
    HasTy tbl t a → ∃ b, a.get (off.map Step.field) = some b ∧ HasTy tbl tf b := by
  intro off
  induction off with
  | nil =>
    intro t tf a hat ha
    cases hat
    exact ⟨a, by simp, ha⟩
  | cons i off ih =>
    intro t tf a hat ha
    simp only [List.map_cons] at hat ⊢
    cases hat with
    | field _ n fs' _ f _ _ hu hf hat' =>
      obtain ⟨vs, rfl, hl, hall⟩ := ha.struct_inv hu
      have hi : i < vs.length := by
        rw [hl]
        rcases Nat.lt_or_ge i fs'.length with h | h
        · exact h
        · rw [List.getElem?_eq_none h] at hf; cases hf
      have hx : vs[i]? = some vs[i] := List.getElem?_eq_getElem hi
      obtain ⟨b, hb, hbt⟩ := ih f.2.2 tf vs[i] hat' (hall i f _ hf hx)
      exact ⟨b, by simp only [GoVal.get, hx]; exact hb, hbt⟩

theorem deref_pushAll (c : Ctx) (p : Path) (r : List Step) (a b : GoVal) (hd : deref c p = some a)
    (hg : a.get r = some b) : deref c (p.pushAll r) = some b := by
  unfold deref at hd ⊢
  cases hr : rootVal c p.root with
  | none => rw [hr] at hd; cases hd
  | some rv =>
    rw [hr] at hd
    simp only [Option.bind_some] at hd
    show (rootVal c p.root).bind (fun v => v.get (p.steps ++ r)) = some b
    rw [hr]
    simp only [Option.bind_some, get_append, hd, hg]

/-! ## `unfolderStructStart`, `unfolderStruct` -/

/-- the object starts -/
theorem objStart_stS (fields : Fields) (t : GoType) (p : Path) (f : Nat) (l : Int) (bt : Nat)
    (h : Inv tbl R D base (.stS fields t p :: fs) c) :
    ∃ c', onObjectStart (f + 1) l bt c = .ok () c' ∧ Inv tbl R D base (.st fields t p :: fs) c' := by
  obtain ⟨hu, hp, hv, hk, hi, hb⟩ := s6_eq _ _ h.stacks
  simp only [stacksOf, Frame.push] at hu hp hv hk hi hb
  have hrun : onObjectStart (f + 1) l bt c = .ok () { c with unfolder := (stacksOf base fs).u.push (.struct fields) } := by
    simp [onObjectStart, bind_def, currentU, hu, popU, pure_def]
  refine ⟨_, hrun, h.replace (F' := .st fields t p) rfl rfl (fun _ _ _ hv => hv) h.wfs.1 ?_ rfl rfl rfl rfl⟩
  exact s6_mk _ _ rfl (by simp [hp, stacksOf, Frame.push]) (by simp [hv, stacksOf, Frame.push])
    (by simp [hk, stacksOf, Frame.push]) (by simp [hi, stacksOf, Frame.push]) (by simp [hb, stacksOf, Frame.push])

/-- the frame a key pushes on the struct frame: the ignore state, or the frame of a field's unfolder -/
def KeyFrame (t : GoType) (p : Path) (G : Frame) : Prop :=
  G = .ign t p ∨ ∃ ru tf q, G = waitF ru tf q ∧ ru.notRef

theorem KeyFrame.hasU {t : GoType} {p : Path} {G : Frame} (h : KeyFrame t p G) : G.hasU := by
  rcases h with rfl | ⟨ru, tf, q, rfl, _⟩
  · trivial
  · exact hasU_waitF _ _ _

/-- a key: the ignore state for an unknown one, else the field's unfolder on the pointer to the field -/
theorem key_st (fields : Fields) (t : GoType) (p : Path) (key : Bytes)
    (h : Inv tbl R D base (.st fields t p :: fs) c) :
    ∃ c' G, onKey key c = .ok () c' ∧ Inv tbl R D base (G :: .st fields t p :: fs) c' ∧ KeyFrame t p G := by
  obtain ⟨hu, hp, hv, hk, hi, hb⟩ := s6_eq _ _ h.stacks
  simp only [stacksOf, Frame.push] at hu hp hv hk hi hb
  cases hlk : lookupField fields key with
  | none =>
    have hrun : onKey key c = .ok () { c with unfolder := c.unfolder.push .ignore } := by
      simp [onKey, bind_def, currentU, hu, structOnKey, hlk, pushU, modifyCtx]
    refine ⟨_, .ign t p, hrun, h.push_same (F := .ign t p) ⟨rfl, rfl, rfl⟩ (by simp [liveOf, Frame.live]) ?_ rfl rfl rfl rfl,
      Or.inl rfl⟩
    exact s6_mk _ _ (by simp [hu, stacksOf, Frame.push]) (by simp [hp, stacksOf, Frame.push])
      (by simp [hv, stacksOf, Frame.push]) (by simp [hk, stacksOf, Frame.push]) (by simp [hi, stacksOf, Frame.push])
      (by simp [hb, stacksOf, Frame.push])
  | some x =>
    obtain ⟨off, ru⟩ := x
    obtain ⟨k, hmem⟩ := lookupField_mem hlk
    obtain ⟨hoff, tf, hat, hok⟩ := h.wfs.1.2.struct_inv k off ru hmem
    obtain ⟨a, hd, ha, _⟩ := h.top_deref
    have hd : deref c p = some a := hd
    have ha : HasTy tbl t a := ha
    obtain ⟨b, hg, hbt⟩ := get_fields off t tf a hat ha
    have hdq : deref c (p.pushAll (off.map Step.field)) = some b := deref_pushAll c p _ a b hd hg
    obtain ⟨ru', c', hinit, hnr, hok', hinv, _⟩ := init_at ru tf (p.pushAll (off.map Step.field)) hok h
      (fun _ => ⟨off, hoff, rfl, hat⟩) b hdq hbt
    refine ⟨c', _, ?_, hinv, Or.inr ⟨ru', tf, _, rfl, hnr⟩⟩
    rw [← hinit]
    simp [onKey, bind_def, currentU, hu, structOnKey, hlk, currentPtr, hp]

/-- the object is finished (before the parent is told) -/
theorem objFin_st (fields : Fields) (t : GoType) (p : Path) (h : Inv tbl R D base (.st fields t p :: fs) c) :
    ∃ c', onObjectFinished c = .ok () c' ∧ Inv tbl R D base fs c' ∧
      c.unfolder.stack.length = c'.unfolder.stack.length + 1 := by
  obtain ⟨hu, hp, hv, hk, hi, hb⟩ := s6_eq _ _ h.stacks
  simp only [stacksOf, Frame.push] at hu hp hv hk hi hb
  have hrun : onObjectFinished c = .ok ()
      { c with unfolder := (stacksOf base fs).u, ptr := (stacksOf base fs).p } := by
    simp [onObjectFinished, bind_def, currentU, hu, popU, popPtr, hp, pure_def]
  refine ⟨_, hrun, h.pop (s6_mk _ _ rfl rfl (by simp [hv]) (by simp [hk]) (by simp [hi]) (by simp [hb])) rfl rfl rfl rfl,
    ?_⟩
  simp [hu, Stk.push]

/-! ## the ignore states -/

/-- the frames of the three ignore states -/
def Frame.isIgn : Frame → Prop
  | .ign _ _ => True
  | .ignA _ _ => True
  | .ignO _ _ => True
  | _ => False

theorem Frame.isIgn.ignOn {F : Frame} (hF : F.isIgn) : ∃ t p, IgnOn t p true (F :: fs) ∧ F.live = (p, t, .none) := by
  cases F <;> first | exact hF.elim | exact ⟨_, _, ⟨rfl, rfl, rfl⟩, rfl⟩

theorem Frame.isIgn.push_eq {F : Frame} (hF : F.isIgn) (s : S6) : F.push s = { s with u := s.u.push F.cur } := by
  cases F <;> first | exact hF.elim | rfl

theorem Frame.isIgn.cnt {F : Frame} (hF : F.isIgn) (fs : List Frame) :
    cntA (F :: fs) = cntA fs ∧ cntMA (F :: fs) = cntMA fs ∧ cntMP (F :: fs) = cntMP fs := by
  cases F <;> first | exact hF.elim | exact ⟨rfl, rfl, rfl⟩

/-- an ignore frame is popped -/
theorem pop_ign {F : Frame} (hF : F.isIgn) (h : Inv tbl R D base (F :: fs) c) :
    Inv tbl R D base fs { c with unfolder := (stacksOf base fs).u } ∧ c.unfolder = (stacksOf base fs).u.push F.cur := by
  have hs : c.s6 = F.push (stacksOf base fs) := h.stacks
  rw [hF.push_eq] at hs
  obtain ⟨hu, hp, hv, hk, hi, hb⟩ := s6_eq _ _ hs
  obtain ⟨a1, a2, a3⟩ := hF.cnt fs
  exact ⟨h.pop (s6_mk _ _ rfl hp hv hk hi hb) rfl a1 a2 a3, hu⟩

/-- a container starts inside an ignored value -/
theorem push_ign {F : Frame} (hF : F.isIgn) (G : Frame) (hG : G.isIgn) (hGi : ∀ t p, G ≠ .ign t p)
    (hGl : G.live = F.live) (h : Inv tbl R D base (F :: fs) c) :
    Inv tbl R D base (G :: F :: fs) { c with unfolder := c.unfolder.push G.cur } := by
  obtain ⟨t, p, hon, hl⟩ := hF.ignOn (fs := fs)
  obtain ⟨hu, hp, hv, hk, hi, hb⟩ := s6_eq _ _ h.stacks
  obtain ⟨a1, a2, a3⟩ := hG.cnt (F :: fs)
  have hborn : Born tbl R D G (F :: fs) := by
    rw [hl] at hGl
    cases G with
    | ign t' p' => exact absurd rfl (hGi t' p')
    | ignA t' p' =>
      simp only [Frame.live, Prod.mk.injEq] at hGl
      obtain ⟨rfl, rfl, _⟩ := hGl
      exact hon
    | ignO t' p' =>
      simp only [Frame.live, Prod.mk.injEq] at hGl
      obtain ⟨rfl, rfl, _⟩ := hGl
      exact hon
    | _ => exact hG.elim
  refine h.push_same hborn (by rw [hGl]; simp [liveOf]) ?_ rfl a1 a2 a3
  show _ = G.push (stacksOf base (F :: fs))
  rw [hG.push_eq]
  exact s6_mk _ _ (by simp [hu]) hp hv hk hi hb

end SF.Unf.Str
