/-
  C02 for the UBJSON parser mirror, part 4: the SPLIT LAW of the object steps and of
  `execStep` itself (`execStep_split`).
  Property theorems: SF/Proofs/UbjChunkTop.lean.
-/
import SF.Proofs.UbjChunkSplitB
set_option linter.unusedSimpArgs false
namespace SF.Ubjson.Chunk
open SF SF.Ubjson SF.Ubjson.Parse
open StateType StateStep

/-! ### stepObjectInit, field names -/

theorem stepObjectInit_ext (p : P) (x : UInt8) (xs b : Bytes) :
    Ext (stepObjectInit p (x :: xs)) (stepObjectInit p (x :: (xs ++ b))) b := by
  unfold stepObjectInit
  simp only []
  csplit
  · eleaf
  csplit
  · eleaf
  · simp only [visit_eq]; eleaf

theorem fieldName_split (p : P) (a : Bytes) :
    (∀ b, Ext (fieldName p a) (fieldName p (a ++ b)) b) ∨
    (∃ buf, fieldName p a = { p := { p with buffer := buf }, rest := [] } ∧ p.length.current ≠ 0 ∧
      ∀ b, fieldName { p with buffer := buf } b = fieldName p (a ++ b)) := by
  by_cases h1 : p.length.current < 0
  · left; intro b
    simp only [fieldName, h1, if_true]
    eleaf
  · have := coll_split_of (f := fieldName) (n := p.length.current.toNat)
      (ks := fun q rest t => (let (q', err) := visit (popLen q) (.key t);
        ({ p := setStep q' stCont, rest := rest, err := err } : R))) p a
      (by
        intro buf c
        simp only [fieldName, h1, if_false]
        rfl)
      (by
        intro q rest t b
        simp only [visit_eq]
        eleaf)
    rcases this with h | ⟨buf, e1, hn, e2⟩
    · exact Or.inl h
    · refine Or.inr ⟨buf, e1, ?_, e2⟩
      intro h0
      rw [h0] at hn
      exact hn rfl

/-! ### stepObjectDyn -/

theorem stepObjectDyn_split (p : P) (a : Bytes) (ha : a ≠ [])
    (ht : p.state.current.type = stObjectDyn) : SplitF stepObjectDyn p a := by
  have hp : ∀ q : P, q.state = p.state → pending q = false := by
    intro q hq; simp [pending, hq, ht]
  cases hs : p.state.current.step
  case stStart =>
    have hbody : ∀ (q : P) (c : Bytes), q.state = p.state → q.marker ≠ noMarker →
        stepObjectDyn q c = { stepLen q c (p.state.current.withStep stFieldNameLen) with done := false } := by
      intro q c hq hqm
      have hqm' : (q.marker == noMarker) = false := by simpa using hqm
      rw [stepObjectDyn_eq]
      simp only [hq, hs, hqm', Bool.and_false, Bool.false_eq_true, if_false, odBody]
    by_cases hmk : (p.marker == noMarker) = true
    · cases a with
      | nil => exact absurd rfl ha
      | cons x xs =>
        by_cases hx : (x == objEndMarker) = true
        · left; intro b
          rw [stepObjectDyn_eq, stepObjectDyn_eq]
          simp only [hs, hmk, beq_self_eq_true, Bool.and_self, if_true, List.cons_append, hx, visit_eq]
          cvsplit p <;> eleaf
        · have hv : ∀ c : Bytes, stepObjectDyn p (x :: c) =
              { stepLen p (x :: c) (p.state.current.withStep stFieldNameLen) with done := false } := by
            intro c
            rw [stepObjectDyn_eq]
            simp only [hs, hmk, beq_self_eq_true, Bool.and_self, if_true, hx, Bool.false_eq_true, if_false, odBody]
          rcases stepLen_split p (x :: xs) (p.state.current.withStep stFieldNameLen) (by simp) with
            hE | ⟨m, buf, hm, e1, e2⟩
          · left; intro b
            rw [List.cons_append, hv, hv]
            exact (hE b).setDone false
          · right
            refine ⟨{ p with marker := m, buffer := buf }, by rw [hv, e1], rfl, hp _ rfl, fun b hb => ?_⟩
            rw [hbody { p with marker := m, buffer := buf } b rfl hm, List.cons_append, hv, e2 b hb]
            rfl
    · have hmk' : p.marker ≠ noMarker := by simpa using hmk
      rcases stepLen_split p a (p.state.current.withStep stFieldNameLen) ha with hE | ⟨m, buf, hm, e1, e2⟩
      · left; intro b
        rw [hbody p _ rfl hmk', hbody p _ rfl hmk']
        exact (hE b).setDone false
      · right
        refine ⟨{ p with marker := m, buffer := buf }, by rw [hbody p _ rfl hmk', e1], rfl, hp _ rfl,
          fun b hb => ?_⟩
        rw [hbody { p with marker := m, buffer := buf } b rfl hm, hbody p _ rfl hmk', e2 b hb]
  case stFieldNameLen =>
    have hv : ∀ (q : P) (c : Bytes), q.state = p.state → stepObjectDyn q c = fieldName q c := by
      intro q c hq
      rw [stepObjectDyn_eq]
      simp only [hq, hs, odBody]
      simp
    rcases fieldName_split p a with hE | ⟨buf, e1, _, e2⟩
    · left; intro b; rw [hv p _ rfl, hv p _ rfl]; exact hE b
    · right
      refine ⟨{ p with buffer := buf }, by rw [hv p _ rfl, e1], rfl, hp _ rfl, fun b _ => ?_⟩
      rw [hv { p with buffer := buf } b rfl, hv p _ rfl]; exact e2 b
  case stCont =>
    left; intro b
    cases a with
    | nil => exact absurd rfl ha
    | cons x xs =>
      rw [stepObjectDyn_eq, stepObjectDyn_eq]
      simp only [hs, odBody, List.cons_append]
      simp only [show (stCont == stStart) = false from rfl, Bool.false_and, Bool.false_eq_true, if_false]
      csplit
      · eleaf
      · exact (stepValue_ext _ x xs b).setDone false
  all_goals
    left; intro b
    rw [stepObjectDyn_eq, stepObjectDyn_eq]
    simp only [hs, odBody]
    simp only [beq_iff_eq, reduceCtorEq, false_and, Bool.false_and, Bool.false_eq_true, if_false]
    try eleaf

/-! ### stepObjectCountedContent -/

theorem ocFin_ext (p : P) (e : Bool) (a b : Bytes) (err : Option Err) :
    Ext (ocFin p e a err) (ocFin p e (a ++ b) err) b := by
  unfold ocFin
  csplit
  · simp only [visit_eq]; eleaf
  · eleaf

theorem ocFin_false (p : P) (a : Bytes) (err : Option Err) :
    ocFin p false a err = { p := p, rest := a, done := false, err := err } := by
  simp [ocFin]

theorem Ext.ocFin {r r' : R} {b : Bytes} (h : Ext r r' b) :
    Ext (ocFin r.p false r.rest r.err) (ocFin r'.p false r'.rest r'.err) b := by
  obtain ⟨h1, h2, h3⟩ := h
  rw [ocFin_false, ocFin_false]
  refine ⟨h1, h2, fun he => ?_⟩
  rw [h3 he]; rfl

theorem ocAtFieldName_split (p : P) (a : Bytes) (ha : p.length.current ≠ 0 → a ≠ []) :
    (∀ b, Ext (ocAtFieldName p a) (ocAtFieldName p (a ++ b)) b) ∨
    (∃ m buf, p.length.current ≠ 0 ∧
      ocAtFieldName p a = { p := { p with marker := m, buffer := buf }, rest := [] } ∧
      ∀ b, b ≠ [] → ocAtFieldName { p with marker := m, buffer := buf } b = ocAtFieldName p (a ++ b)) := by
  by_cases h0 : (p.length.current == 0) = true
  · left; intro b
    simp only [ocAtFieldName, h0, if_true]
    exact ocFin_ext _ _ _ _ _
  · have hl : p.length.current ≠ 0 := by simpa using h0
    have hv : ∀ (q : P) (c : Bytes), q.state = p.state → q.length = p.length → ocAtFieldName q c =
        ocFin (stepLen q c (p.state.current.withStep stFieldNameLen)).p false
          (stepLen q c (p.state.current.withStep stFieldNameLen)).rest
          (stepLen q c (p.state.current.withStep stFieldNameLen)).err := by
      intro q c hq hql
      simp only [ocAtFieldName, hq, hql, h0, Bool.false_eq_true, if_false]
    rcases stepLen_split p a (p.state.current.withStep stFieldNameLen) (ha hl) with hE | ⟨m, buf, _, e1, e2⟩
    · left; intro b
      rw [hv p _ rfl rfl, hv p _ rfl rfl]
      exact (hE b).ocFin
    · right
      refine ⟨m, buf, hl, by rw [hv p _ rfl rfl, e1, ocFin_false], fun b hb => ?_⟩
      rw [hv { p with marker := m, buffer := buf } b rfl rfl, hv p _ rfl rfl, e2 b hb]

theorem ocValue_ext (typed : Bool) (a b : Bytes) (p : P) (h : typed = false → a ≠ []) :
    Ext (ocValue typed a p) (ocValue typed (a ++ b) p) b := by
  unfold ocValue
  simp only []
  csplit
  · exact ocFin_ext _ _ _ _ _
  · have ht : typed = false := by simpa using hsp
    cases a with
    | nil => exact absurd rfl (h ht)
    | cons x xs => exact (stepValue_ext _ x xs b).ocFin

/-- the split law of the content steps of counted / typed objects; a parked configuration is
waiting for a field name (its length or its bytes) -/
theorem stepObjectCountedContent_split (p : P) (a : Bytes) (typed : Bool) (hm : a ≠ [] ∨ pending p = true)
    (ht : p.state.current.type = if typed then stObjectTyped else stObjectCount) :
    (∀ b, Ext (stepObjectCountedContent p a typed) (stepObjectCountedContent p (a ++ b) typed) b) ∨
    (∃ q, stepObjectCountedContent p a typed = { p := q, rest := [] } ∧
      q.state.current.type = p.state.current.type ∧ pending q = false ∧
      (q.state.current.step = stFieldName ∨ q.state.current.step = stFieldNameLen) ∧
      ∀ b, b ≠ [] → stepObjectCountedContent q b typed = stepObjectCountedContent p (a ++ b) typed) := by
  have ht' : p.state.current.type = stObjectTyped ∨ p.state.current.type = stObjectCount := by
    cases typed <;> simp_all
  have hpend : ∀ q : P, q.state.current.type = p.state.current.type → q.length.current ≠ 0 →
      (q.state.current.step = stFieldName ∨ q.state.current.step = stFieldNameLen) → pending q = false := by
    intro q hq hl hs
    rcases ht' with h | h <;> rcases hs with hs | hs <;> simp [pending, hq, h, hs, hl]
  cases hs : p.state.current.step
  case stWithLen =>
    have hv : ∀ c, stepObjectCountedContent p c typed =
        (match visit p (.objStart p.length.current BT.any) with
        | (p', some e) => { p := p', rest := c, done := false, err := some e }
        | (p', none) =>
          if p.length.current == 0 then ocFin p' (p'.length.current == 0) c none
          else
            let p'' := setStep p' stFieldName
            if c.isEmpty then ocFin p'' false c none
            else ocAtFieldName p'' c) := by
      intro c
      rw [stepObjectCountedContent_eq]
      simp only [hs]
      rfl
    rcases verr_cases p with hve | hve
    · by_cases h0 : (p.length.current == 0) = true
      · left; intro b
        rw [hv, hv]
        simp only [visit_eq, hve, h0, if_true]
        exact ocFin_ext _ _ _ _ _
      · have hl : p.length.current ≠ 0 := by simpa using h0
        have hq0 : (setStep (addEv p (.objStart p.length.current BT.any)) stFieldName).length.current ≠ 0 := hl
        by_cases ha : a = []
        · subst ha
          right
          refine ⟨setStep (addEv p (.objStart p.length.current BT.any)) stFieldName, ?_, rfl,
            hpend _ rfl hq0 (Or.inl rfl), Or.inl rfl, fun b hb => ?_⟩
          · rw [hv]
            simp only [visit_eq, hve, h0, Bool.false_eq_true, if_false, List.isEmpty_nil, if_true, ocFin_false]
          · have hbe : b.isEmpty = false := by cases b <;> simp_all
            rw [List.nil_append, hv, stepObjectCountedContent_eq]
            simp only [visit_eq, hve, h0, Bool.false_eq_true, if_false, hbe]
            rfl
        · have hae : a.isEmpty = false := by cases a <;> simp_all
          have habe : ∀ b : Bytes, (a ++ b).isEmpty = false := by intro b; cases a <;> simp_all
          have hw : ∀ c : Bytes, c.isEmpty = false → stepObjectCountedContent p c typed =
              ocAtFieldName (setStep (addEv p (.objStart p.length.current BT.any)) stFieldName) c := by
            intro c hc
            rw [hv]
            simp only [visit_eq, hve, h0, Bool.false_eq_true, if_false, hc]
          rcases ocAtFieldName_split (setStep (addEv p (.objStart p.length.current BT.any)) stFieldName) a
              (fun _ => ha) with hE | ⟨m, buf, _, e1, e2⟩
          · left; intro b
            rw [hw a hae, hw (a ++ b) (habe b)]
            exact hE b
          · right
            refine ⟨{ setStep (addEv p (.objStart p.length.current BT.any)) stFieldName with
                marker := m, buffer := buf }, by rw [hw a hae, e1], rfl,
              hpend _ rfl hq0 (Or.inl rfl), Or.inl rfl, fun b hb => ?_⟩
            rw [hw (a ++ b) (habe b), ← e2 b hb, stepObjectCountedContent_eq]
            rfl
    · left; intro b
      rw [hv, hv]
      simp only [visit_eq, hve]
      eleaf
  case stFieldName =>
    have hv : ∀ (q : P) (c : Bytes), q.state = p.state → stepObjectCountedContent q c typed = ocAtFieldName q c := by
      intro q c hq
      rw [stepObjectCountedContent_eq]
      simp only [hq, hs]
    have hne : p.length.current ≠ 0 → a ≠ [] := by
      intro hl hc
      subst hc
      rcases hm with hm | hm
      · exact hm rfl
      · rcases ht' with h | h <;> simp [pending, h, hs, hl] at hm
    rcases ocAtFieldName_split p a hne with hE | ⟨m, buf, hl, e1, e2⟩
    · left; intro b; rw [hv p _ rfl, hv p _ rfl]; exact hE b
    · right
      refine ⟨{ p with marker := m, buffer := buf }, by rw [hv p _ rfl, e1], rfl,
        hpend _ rfl hl (Or.inl hs), Or.inl hs, fun b hb => ?_⟩
      rw [hv { p with marker := m, buffer := buf } b rfl, hv p _ rfl, e2 b hb]
  case stFieldNameLen =>
    have hv : ∀ (q : P) (c : Bytes), q.state = p.state → stepObjectCountedContent q c typed =
        ocFin (fieldName q c).p false (fieldName q c).rest (fieldName q c).err := by
      intro q c hq
      rw [stepObjectCountedContent_eq]
      simp only [hq, hs]
    rcases fieldName_split p a with hE | ⟨buf, e1, hl, e2⟩
    · left; intro b; rw [hv p _ rfl, hv p _ rfl]; exact (hE b).ocFin
    · right
      refine ⟨{ p with buffer := buf }, by rw [hv p _ rfl, e1, ocFin_false], rfl,
        hpend _ rfl hl (Or.inr hs), Or.inr hs, fun b _ => ?_⟩
      rw [hv { p with buffer := buf } b rfl, hv p _ rfl, e2 b]
  case stCont =>
    left; intro b
    rw [stepObjectCountedContent_eq, stepObjectCountedContent_eq]
    simp only [hs]
    cases typed with
    | true =>
      simp only [Bool.not_true, Bool.false_eq_true, if_false]
      exact ocValue_ext _ _ _ _ (fun h => by cases h)
    | false =>
      have hp : pending p = false := by
        have : p.state.current.type = stObjectCount := by simpa using ht
        simp [pending, this, hs]
      simp only [Bool.not_false, if_true]
      cases a with
      | nil => exact absurd rfl (ne_nil_of hm hp)
      | cons x xs =>
        simp only [List.cons_append]
        csplit
        · eleaf
        · exact ocValue_ext false (x :: xs) b p (fun _ => by simp)
  all_goals
    left; intro b
    rw [stepObjectCountedContent_eq, stepObjectCountedContent_eq]
    simp only [hs]
    exact ocFin_ext _ _ _ _ _

/-! ### stepObjectCount, stepObjectTyped -/

/-- the post-processing of a finished counted / typed object commutes with `Ext` -/
theorem Ext.popIf {r r' : R} {b : Bytes} (h : Ext r r' b) (g : P → P) :
    Ext (if r.done && r.err.isNone then
          (let (q, d) := popLenState (g r.p); ({ p := q, rest := r.rest, done := d } : R)) else r)
        (if r'.done && r'.err.isNone then
          (let (q, d) := popLenState (g r'.p); ({ p := q, rest := r'.rest, done := d } : R)) else r') b := by
  obtain ⟨h1, h2, h3⟩ := h
  obtain ⟨rp, rrest, rdone, rerr⟩ := r
  cases rerr with
  | some e =>
    simp only at h1
    simp only [h1, Option.isNone_some, Bool.and_false, Bool.false_eq_true, if_false]
    exact ⟨h1, h2, fun h => by cases h⟩
  | none =>
    rw [h3 rfl]
    simp only [app, Option.isNone_none, Bool.and_true]
    cases rdone <;> simp only [Bool.false_eq_true, if_false, if_true] <;> eleaf

theorem stepObjectCount_split (p : P) (a : Bytes) (hm : a ≠ [] ∨ pending p = true)
    (ht : p.state.current.type = stObjectCount) : SplitF stepObjectCount p a := by
  by_cases h1 : (p.state.current.step == stStart) = true
  · have hs : p.state.current.step = stStart := by simpa using h1
    have hp : pending p = false := by simp [pending, ht, hs]
    refine splitF_of_stepLen (p.state.current.withStep stWithLen) (ne_nil_of hm hp) hp ?_
    intro m buf c _
    simp only [stepObjectCount, h1, if_true]
  · have hv : ∀ (q : P) (c : Bytes), (q.state.current.step == stStart) = false → stepObjectCount q c =
        (if (stepObjectCountedContent q c false).done && (stepObjectCountedContent q c false).err.isNone then
          (let (q', d) := popLenState (id (stepObjectCountedContent q c false).p)
           ({ p := q', rest := (stepObjectCountedContent q c false).rest, done := d } : R))
         else stepObjectCountedContent q c false) := by
      intro q c hq
      simp only [stepObjectCount, hq, Bool.false_eq_true, if_false, id]
    have h1' : (p.state.current.step == stStart) = false := by simpa using h1
    rcases stepObjectCountedContent_split p a false hm (by simpa using ht) with hE | ⟨q, e1, hty, hpq, hst, e2⟩
    · left; intro b
      rw [hv p _ h1', hv p _ h1']
      exact (hE b).popIf id
    · right
      have hq1 : (q.state.current.step == stStart) = false := by
        rcases hst with h | h <;> rw [h] <;> rfl
      refine ⟨q, ?_, hty, hpq, fun b hb => ?_⟩
      · rw [hv p _ h1', e1]
        simp
      · rw [hv q _ hq1, hv p _ h1', e2 b hb]

theorem stepObjectTyped_split (p : P) (a : Bytes) (hm : a ≠ [] ∨ pending p = true)
    (ht : p.state.current.type = stObjectTyped) : SplitF stepObjectTyped p a := by
  by_cases h1 : (p.state.current.step == stStart || p.state.current.step == stWithType0
      || p.state.current.step == stWithType1) = true
  · have hp : pending p = false := by
      simp only [Bool.or_eq_true, beq_iff_eq] at h1
      rcases h1 with (hs | hs) | hs <;> simp [pending, ht, hs]
    refine splitF_of_header stWithLen (ne_nil_of hm hp) hp ?_
    intro m buf c _
    simp only [stepObjectTyped, h1, if_true]
  · have hv : ∀ (q : P) (c : Bytes), (q.state.current.step == stStart || q.state.current.step == stWithType0
          || q.state.current.step == stWithType1) = false → stepObjectTyped q c =
        (if (stepObjectCountedContent q c true).done && (stepObjectCountedContent q c true).err.isNone then
          (let (q', d) := popLenState (popValueState (stepObjectCountedContent q c true).p)
           ({ p := q', rest := (stepObjectCountedContent q c true).rest, done := d } : R))
         else stepObjectCountedContent q c true) := by
      intro q c hq
      simp only [stepObjectTyped, hq, Bool.false_eq_true, if_false]
    have h1' : (p.state.current.step == stStart || p.state.current.step == stWithType0
        || p.state.current.step == stWithType1) = false := by simpa using h1
    rcases stepObjectCountedContent_split p a true hm (by simpa using ht) with hE | ⟨q, e1, hty, hpq, hst, e2⟩
    · left; intro b
      rw [hv p _ h1', hv p _ h1']
      exact (hE b).popIf popValueState
    · right
      have hq1 : (q.state.current.step == stStart || q.state.current.step == stWithType0
          || q.state.current.step == stWithType1) = false := by
        rcases hst with h | h <;> rw [h] <;> rfl
      refine ⟨q, ?_, hty, hpq, fun b hb => ?_⟩
      · rw [hv p _ h1', e1]
        simp
      · rw [hv q _ hq1, hv p _ h1', e2 b hb]

/-! ### dispatch, execStep -/

/-- the main loop takes (another) step: input is left, or the state can advance without -/
def More (p : P) (a : Bytes) : Prop := a ≠ [] ∨ pending p = true

instance (p : P) (a : Bytes) : Decidable (More p a) := by unfold More; infer_instance

theorem splitF_dispatch {f : P → Bytes → R} {p : P} {a : Bytes}
    (hd : ∀ q c, q.state.current.type = p.state.current.type → dispatch q c = f q c)
    (h : SplitF f p a) : SplitF dispatch p a := by
  rcases h with h | ⟨q, e1, hty, hp, e2⟩
  · left; intro b; rw [hd p _ rfl, hd p _ rfl]; exact h b
  · right
    exact ⟨q, by rw [hd p _ rfl, e1], hty, hp, fun b hb => by rw [hd q b hty, hd p _ rfl, e2 b hb]⟩

theorem dispatch_split (p : P) (a : Bytes) (hI : Inv p) (hm : More p a) : SplitF dispatch p a := by
  have hne : pending p = false → a ≠ [] := fun hp => ne_nil_of hm hp
  cases ht : p.state.current.type
  case stFail =>
    left; intro b
    simp only [dispatch, ht]
    eleaf
  case stNext =>
    refine splitF_dispatch (f := stepValue) (fun q c hq => by simp only [dispatch, hq, ht]) ?_
    left; intro b
    cases a with
    | nil => exact absurd rfl (hne (by simp [pending, ht]))
    | cons x xs => exact stepValue_ext p x xs b
  case stFixed =>
    exact splitF_dispatch (f := stepFixedValue) (fun q c hq => by simp only [dispatch, hq, ht])
      (stepFixedValue_split p a hm ht)
  case stHighPrec =>
    exact splitF_dispatch (f := stepString) (fun q c hq => by simp only [dispatch, hq, ht])
      (stepString_split p a (hne (by simp [pending, ht])) (Or.inr ht))
  case stString =>
    exact splitF_dispatch (f := stepString) (fun q c hq => by simp only [dispatch, hq, ht])
      (stepString_split p a (hne (by simp [pending, ht])) (Or.inl ht))
  case stArray =>
    refine splitF_dispatch (f := stepArrayInit) (fun q c hq => by simp only [dispatch, hq, ht]) ?_
    left; intro b
    cases a with
    | nil => exact absurd rfl (hne (by simp [pending, ht]))
    | cons x xs => exact stepArrayInit_ext p x xs b
  case stArrayDyn =>
    refine splitF_dispatch (f := stepArrayDyn) (fun q c hq => by simp only [dispatch, hq, ht]) ?_
    left; intro b
    cases a with
    | nil => exact absurd rfl (hne (by simp [pending, ht]))
    | cons x xs => exact stepArrayDyn_ext p x xs b
  case stArrayCount =>
    exact splitF_dispatch (f := stepArrayCount) (fun q c hq => by simp only [dispatch, hq, ht])
      (stepArrayCount_split p a hm ht hI)
  case stArrayTyped =>
    exact splitF_dispatch (f := stepArrayTyped) (fun q c hq => by simp only [dispatch, hq, ht])
      (stepArrayTyped_split p a hm ht)
  case stObject =>
    refine splitF_dispatch (f := stepObjectInit) (fun q c hq => by simp only [dispatch, hq, ht]) ?_
    left; intro b
    cases a with
    | nil => exact absurd rfl (hne (by simp [pending, ht]))
    | cons x xs => exact stepObjectInit_ext p x xs b
  case stObjectDyn =>
    exact splitF_dispatch (f := stepObjectDyn) (fun q c hq => by simp only [dispatch, hq, ht])
      (stepObjectDyn_split p a (hne (by simp [pending, ht])) ht)
  case stObjectCount =>
    exact splitF_dispatch (f := stepObjectCount) (fun q c hq => by simp only [dispatch, hq, ht])
      (stepObjectCount_split p a hm ht)
  case stObjectTyped =>
    exact splitF_dispatch (f := stepObjectTyped) (fun q c hq => by simp only [dispatch, hq, ht])
      (stepObjectTyped_split p a hm ht)

/-- the step on `a` parks all of `a` (or finds nothing to do) and the step on `b` from the
resulting configuration is the step on `a ++ b` -/
def Parked (p : P) (a : Bytes) : Prop :=
  (execStep p a).err = none ∧ (execStep p a).rest = [] ∧ (execStep p a).done = false ∧
  pending (execStep p a).p = false ∧
  ∀ b, b ≠ [] → Sim (execStep (execStep p a).p b) (execStep p (a ++ b))

def Split (p : P) (a : Bytes) : Prop :=
  (∀ b, Ext (execStep p a) (execStep p (a ++ b)) b) ∨ Parked p a

/-- storing the error of a step (the tail of `execStep`) commutes with `Ext` -/
theorem Ext.store {r r' : R} {b : Bytes} (h : Ext r r' b) :
    Ext (match r.err with
          | some e => { r with p := { r.p with err := some e } }
          | none => r)
        (match r'.err with
          | some e => { r' with p := { r'.p with err := some e } }
          | none => r') b := by
  obtain ⟨h1, h2, h3⟩ := h
  rw [h1]
  cases he : r.err with
  | some e => exact ⟨by simp only [h1, he], h2, fun h => by simp only [he] at h; cases h⟩
  | none =>
    simp only []
    exact ⟨h1, h2, h3⟩

/-- THE SPLIT LAW OF ONE STEP of the main loop, from every state satisfying the no-panic
invariant `Inv` and on every input the loop can pass: the step on `a ++ b` is the step on `a`
with `b` left over in addition, or `a` is parked and the next step on `b` is the step on `a ++ b` -/
theorem execStep_split (p : P) (a : Bytes) (hI : Inv p) (hm : More p a) : Split p a := by
  rcases dispatch_split p a hI hm with h | ⟨q, e1, _, hp, e2⟩
  · left
    intro b
    rw [execStep_eq, execStep_eq]
    exact (h b).store
  · right
    have hx : execStep p a = { p := q, rest := [] } := by
      rw [execStep_eq, e1]
    refine ⟨by rw [hx], by rw [hx], by rw [hx], by rw [hx]; exact hp, fun b hb => Sim.of_eq ?_⟩
    rw [hx]
    simp only []
    rw [execStep_eq, execStep_eq, e2 b hb]

end SF.Ubjson.Chunk
