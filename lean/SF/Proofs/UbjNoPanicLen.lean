/-
  C03 helper lemmas (UBJSON): stepValue and stepLen never panic and keep the invariant.
-/
import SF.Proofs.UbjNoPanic
namespace SF.Ubjson.Parse
open SF SF.Ubjson
open StateType StateStep

theorem safe_visit_done {p : P} (hi : Inv p) (e : Ev) (rest : Bytes) (d : Bool) :
    Safe p.err { p := addEv p e, rest := rest, done := d, err := verr p } :=
  ⟨verr_np p, rfl, hi.addEv e⟩

theorem stepValue_safe (p : P) (b : Bytes) (hi : Inv p) (hc : crit p.state.current = false)
    (hb : b ≠ []) : Safe p.err (stepValue p b) := by
  unfold stepValue
  cases b with
  | nil => exact absurd rfl hb
  | cons b0 bs =>
    simp only []
    split
    · exact ⟨by simp, rfl, hi⟩
    · rename_i state hst
      have hcs := crit_start hst
      split
      all_goals first
        | (simp only [visit_eq]; exact safe_visit_done hi _ _ _)
        | exact ⟨by simp, rfl, hi⟩
        | exact ⟨by simp [advanceMarker], rfl, hi.pushState hc _ hcs⟩


/-- the local `fin` of stepLen -/
def lenFin (cont : St) (p : P) (b : Bytes) (L : Int) : R :=
  if L < 0 then { p := p, rest := [], err := some .negativeLen }
  else { p := pushLen (setCurrent { p with marker := noMarker } cont) L, rest := b }

/-- the local `value` of stepLen -/
def lenValue (cont : St) (p : P) (b : Bytes) : R :=
  let m := p.marker
  if m == int8Marker then
    match b with
    | [] => panicR p b
    | b0 :: bs => lenFin cont p bs (readInt8 b0)
  else if m == uint8Marker then
    match b with
    | [] => panicR p b
    | b0 :: bs => lenFin cont p bs b0.toNat
  else if m == int16Marker then
    match collectP p b 2 with
    | (p, rest, none) => { p := p, rest := rest }
    | (p, rest, some tmp) => lenFin cont p rest (readInt16 tmp)
  else if m == int32Marker then
    match collectP p b 4 with
    | (p, rest, none) => { p := p, rest := rest }
    | (p, rest, some tmp) => lenFin cont p rest (readInt32 tmp)
  else if m == int64Marker then
    match collectP p b 8 with
    | (p, rest, none) => { p := p, rest := rest }
    | (p, rest, some tmp) => lenFin cont p rest (readInt64 tmp)
  else { p := p, rest := b }

theorem stepLen_eq (p : P) (b : Bytes) (cont : St) :
    stepLen p b cont =
      if p.marker == noMarker then
        match b with
        | [] => panicR p b
        | b0 :: bs =>
          if b0 == int8Marker || b0 == uint8Marker || b0 == int16Marker || b0 == int32Marker
              || b0 == int64Marker then
            let p := { p with marker := b0 }
            if bs.isEmpty then { p := p, rest := [] } else lenValue cont p bs
          else { p := p, rest := [], err := some .unknownMarker }
      else lenValue cont p b := rfl

theorem collectP_fst (p : P) (b : Bytes) (n : Nat) :
    (collectP p b n).1 = { p with buffer := (collect p.buffer b n).1 } := rfl

theorem lenFin_safe (cont : St) (p : P) (b : Bytes) (L : Int) (hi : Inv p) :
    Safe p.err (lenFin cont p b L) := by
  unfold lenFin
  split
  · exact ⟨by simp, rfl, hi⟩
  · exact ⟨by simp, rfl, hi.lenDone cont L (by omega)⟩

theorem lenColl_safe (cont : St) (p : P) (b : Bytes) (n : Nat) (rd : Bytes → Int) (hi : Inv p) :
    Safe p.err (match collectP p b n with
      | (p, rest, none) => ({ p := p, rest := rest } : R)
      | (p, rest, some tmp) => lenFin cont p rest (rd tmp)) := by
  have h1 := hi.collectP b n
  rcases h : collectP p b n with ⟨q, rest, tmp⟩
  have hq : q = (collectP p b n).1 := by rw [h]
  have hqe : q.err = p.err := by rw [hq]; rfl
  rw [← hq] at h1
  cases tmp with
  | none => exact ⟨by simp, hqe, h1⟩
  | some t => simp only []; rw [← hqe]; exact lenFin_safe cont q rest _ h1

theorem lenValue_safe (cont : St) (p : P) (b : Bytes) (hi : Inv p) (hb : b ≠ []) :
    Safe p.err (lenValue cont p b) := by
  unfold lenValue
  simp only []
  cases b with
  | nil => exact absurd rfl hb
  | cons b0 bs =>
    split
    · exact lenFin_safe _ _ _ _ hi
    split
    · exact lenFin_safe _ _ _ _ hi
    split
    · exact lenColl_safe _ _ _ _ _ hi
    split
    · exact lenColl_safe _ _ _ _ _ hi
    split
    · exact lenColl_safe _ _ _ _ _ hi
    exact ⟨by simp, rfl, hi⟩

theorem stepLen_safe (p : P) (b : Bytes) (cont : St) (hi : Inv p) (hb : b ≠ []) :
    Safe p.err (stepLen p b cont) := by
  rw [stepLen_eq]
  split
  · cases b with
    | nil => exact absurd rfl hb
    | cons b0 bs =>
      simp only []
      split
      · split
        · exact ⟨by simp, rfl, hi.setMarker b0⟩
        · rename_i hne
          exact lenValue_safe cont { p with marker := b0 } bs (hi.setMarker b0) (by intro hc; simp [hc] at hne)
      · exact ⟨by simp, rfl, hi⟩
  · exact lenValue_safe cont p b hi hb

end SF.Ubjson.Parse
