/-
  `toItem t` (SF/Proofs/UbjEncTree.lean) is a well-formed item for every tree with in-range
  numbers and Go-sized lengths (`small`, the side condition shared with the CBOR instance), and
  its value is the tree's value up to `approx` — exactly the tree's value when no number
  exceeds MaxInt64.
-/
import SF.Proofs.UbjEncTree
namespace SF.Ubjson.Enc
open SF SF.Ubjson SF.Ubjson.Wire
open SF.Cbor.Enc (small smallList smallMems)

theorem item16_ok (v : Int) (h1 : -32768 ≤ v) (h2 : v ≤ 32767) : (item16 v).ok = true := by
  unfold item16; split <;> simp [UItem.ok, IM.fits, *]
theorem item32_ok (v : Int) (h1 : -2147483648 ≤ v) (h2 : v ≤ 2147483647) : (item32 v).ok = true := by
  unfold item32; split
  · exact item16_ok v (by omega) (by omega)
  · simp [UItem.ok, IM.fits, *]
theorem item64_ok (v : Int) (h1 : -9223372036854775808 ≤ v) (h2 : v ≤ 9223372036854775807) :
    (item64 v).ok = true := by
  unfold item64; split
  · exact item32_ok v (by omega) (by omega)
  · simp [UItem.ok, IM.fits, *]

theorem item16_value (v : Int) : (item16 v).value = .int v := by
  unfold item16; split <;> rfl
theorem item32_value (v : Int) : (item32 v).value = .int v := by
  unfold item32; split
  · exact item16_value v
  · rfl
theorem item64_value (v : Int) : (item64 v).value = .int v := by
  unfold item64; split
  · exact item32_value v
  · rfl

theorem inRange_bounds (k : NumKind) (v : Int) (h : k.inRange v = true) : k.lo ≤ v ∧ v ≤ k.hi := by
  simpa [NumKind.inRange] using h

theorem numItem_ok (k : NumKind) (v : Int) (h : k.inRange v = true) : (numItem k v).ok = true := by
  obtain ⟨hlo, hhi⟩ := inRange_bounds k v h
  cases k <;> simp only [NumKind.lo, NumKind.hi] at hlo hhi <;> simp only [numItem]
  · simp [UItem.ok, IM.fits, *]
  · exact item16_ok v hlo hhi
  · exact item32_ok v hlo hhi
  · exact item64_ok v hlo hhi
  · exact minM_fits v hlo hhi
  · simp [UItem.ok, IM.fits, *]
  · exact utItem_ok _ _ (Nat.le_refl _) (by omega)
  · exact utItem_ok _ _ (Nat.le_refl _) (by omega)
  · exact utItem_ok _ _ (Nat.le_refl _) (by omega)
  · exact utItem_ok _ _ (Nat.le_refl _) (by omega)
  · rfl

theorem utOf_H (u : Nat) : utOf u = .H ↔ 9223372036854775807 < u := by
  unfold utOf
  repeat' split
  all_goals simp
  all_goals omega

/-- the value received for one number: the number, or its digits when it exceeds MaxInt64 -/
theorem numItem_value (k : NumKind) (v : Int) (h : k.inRange v = true) :
    (numItem k v).value = if 9223372036854775807 < v then .str (decimal v.toNat) else .int v := by
  obtain ⟨hlo, hhi⟩ := inRange_bounds k v h
  have hu : ∀ (hv : 0 ≤ v), (utItem (utOf v.toNat) v.toNat).value =
      if 9223372036854775807 < v then .str (decimal v.toNat) else .int v := by
    intro hv
    rw [utItem_value]
    have : (v.toNat : Int) = v := Int.toNat_of_nonneg hv
    by_cases hb : 9223372036854775807 < v
    · have : utOf v.toNat = .H := (utOf_H _).mpr (by omega)
      simp [this, hb]
    · have : utOf v.toNat ≠ .H := fun hc => hb (by have := (utOf_H _).mp hc; omega)
      simp [*]
  cases k <;> simp only [NumKind.lo, NumKind.hi] at hlo hhi <;> simp only [numItem]
  · have : ¬ (9223372036854775807 < v) := by omega
    simp [this, UItem.value]
  · have : ¬ (9223372036854775807 < v) := by omega
    simp [this, item16_value]
  · have : ¬ (9223372036854775807 < v) := by omega
    simp [this, item32_value]
  · have : ¬ (9223372036854775807 < v) := by omega
    simp [this, item64_value]
  · have : ¬ (9223372036854775807 < v) := by omega
    simp [this, UItem.value]
  · have : ¬ (9223372036854775807 < v) := by omega
    simp [this, UItem.value]
  · exact hu hlo
  · exact hu hlo
  · exact hu hlo
  · exact hu hlo
  · have : ¬ (9223372036854775807 < v) := by omega
    simp only [this, if_false, UItem.value]
    congr 1
    simp only [UInt8.toNat_ofNat']
    omega

theorem approx_num (k : NumKind) (v : Int) (h : k.inRange v = true) :
    approx (.int v) (numItem k v).value = true := by
  rw [numItem_value k v h]
  split
  · rename_i hb
    simp [approx, hb]
  · simp [approx]

mutual
theorem toItem_ok (t : ETree) (hs : small t = true) : (toItem t).ok = true := by
  match t with
  | .null | .f32 _ | .f64 _ => rfl
  | .bool b => cases b <;> rfl
  | .str sv =>
    simp only [small, decide_eq_true_eq] at hs
    simp only [toItem, UItem.ok]
    exact minM_fits _ (by omega) (by omega)
  | .num k v =>
    simp only [small] at hs
    exact numItem_ok k v hs
  | .arr len bt xs =>
    simp only [small, Bool.and_eq_true, decide_eq_true_eq] at hs
    simp only [toItem]
    split
    · simp only [UItem.ok]; exact toItems_ok xs hs.2
    · simp only [UItem.ok, Bool.and_eq_true, toItems_length]
      exact ⟨minM_fits (xs.length : Int) (by omega) (by omega), toItems_ok xs hs.2⟩
  | .obj len bt ms =>
    simp only [small, Bool.and_eq_true, decide_eq_true_eq] at hs
    simp only [toItem]
    split
    · simp only [UItem.ok]; exact toMems_ok ms hs.2
    · simp only [UItem.ok, Bool.and_eq_true, toMems_length]
      exact ⟨minM_fits (ms.length : Int) (by omega) (by omega), toMems_ok ms hs.2⟩
theorem toItems_ok (xs : List ETree) (hs : smallList xs = true) : okList (toItems xs) = true := by
  match xs with
  | [] => rfl
  | x :: xs' =>
    simp only [smallList, Bool.and_eq_true] at hs
    simp [toItems, okList, toItem_ok x hs.1, toItems_ok xs' hs.2]
theorem toMems_ok (ms : List (Bytes × ETree)) (hs : smallMems ms = true) : okMems (toMems ms) = true := by
  match ms with
  | [] => rfl
  | (k, v) :: ms' =>
    simp only [smallMems, Bool.and_eq_true, decide_eq_true_eq] at hs
    simp [toMems, okMems, toItem_ok v hs.1.2, toMems_ok ms' hs.2, minM_fits k.length (by omega) (by omega)]
end

theorem toItem_arr_value (len : Int) (bt : Nat) (xs : List ETree) :
    (toItem (.arr len bt xs)).value = .arr (Wire.valueList (toItems xs)) := by
  simp only [toItem]; split <;> rfl
theorem toItem_obj_value (len : Int) (bt : Nat) (ms : List (Bytes × ETree)) :
    (toItem (.obj len bt ms)).value = .obj (Wire.valueMems (toMems ms)) := by
  simp only [toItem]; split <;> rfl

mutual
/-- the value written is the value of the tree, up to the representation relation -/
theorem toItem_approx (t : ETree) (hs : small t = true) : approx t.value (toItem t).value = true := by
  match t with
  | .null => rfl
  | .bool b => cases b <;> rfl
  | .f32 _ => simp [ETree.value, toItem, UItem.value, approx]
  | .f64 _ => simp [ETree.value, toItem, UItem.value, approx]
  | .str sv => simp [ETree.value, toItem, UItem.value, approx]
  | .num k v =>
    simp only [small] at hs
    exact approx_num k v hs
  | .arr len bt xs =>
    simp only [small, Bool.and_eq_true] at hs
    simp only [ETree.value, toItem_arr_value, approx, toItems_approx xs hs.2, Bool.true_or]
  | .obj len bt ms =>
    simp only [small, Bool.and_eq_true] at hs
    simp only [ETree.value, toItem_obj_value, approx, toMems_approx ms hs.2, Bool.true_or]
theorem toItems_approx (xs : List ETree) (hs : smallList xs = true) :
    approxList (ETree.valueList xs) (Wire.valueList (toItems xs)) = true := by
  match xs with
  | [] => rfl
  | x :: xs' =>
    simp only [smallList, Bool.and_eq_true] at hs
    simp [ETree.valueList, toItems, Wire.valueList, approxList, toItem_approx x hs.1, toItems_approx xs' hs.2]
theorem toMems_approx (ms : List (Bytes × ETree)) (hs : smallMems ms = true) :
    approxMems (ETree.valueMems ms) (Wire.valueMems (toMems ms)) = true := by
  match ms with
  | [] => rfl
  | (k, v) :: ms' =>
    simp only [smallMems, Bool.and_eq_true] at hs
    simp [ETree.valueMems, toMems, Wire.valueMems, approxMems, toItem_approx v hs.1.2, toMems_approx ms' hs.2]
end

/-! ### no number above MaxInt64: the value is exact -/

mutual
def noBig : ETree → Bool
  | .num _ v => decide (v ≤ 9223372036854775807)
  | .arr _ _ xs => noBigList xs
  | .obj _ _ ms => noBigMems ms
  | _ => true
def noBigList : List ETree → Bool
  | [] => true
  | x :: xs => noBig x && noBigList xs
def noBigMems : List (Bytes × ETree) → Bool
  | [] => true
  | (_, v) :: ms => noBig v && noBigMems ms
end

mutual
theorem toItem_exact (t : ETree) (hs : small t = true) (hb : noBig t = true) : (toItem t).value = t.value := by
  match t with
  | .null => rfl
  | .bool b => cases b <;> rfl
  | .f32 _ => rfl
  | .f64 _ => rfl
  | .str sv => rfl
  | .num k v =>
    simp only [small] at hs
    simp only [noBig, decide_eq_true_eq] at hb
    have : ¬ (9223372036854775807 < v) := by omega
    simp only [toItem, numItem_value k v hs, this, if_false, ETree.value]
  | .arr len bt xs =>
    simp only [small, Bool.and_eq_true] at hs
    simp only [noBig] at hb
    simp only [ETree.value, toItem_arr_value, toItems_exact xs hs.2 hb]
  | .obj len bt ms =>
    simp only [small, Bool.and_eq_true] at hs
    simp only [noBig] at hb
    simp only [ETree.value, toItem_obj_value, toMems_exact ms hs.2 hb]
theorem toItems_exact (xs : List ETree) (hs : smallList xs = true) (hb : noBigList xs = true) :
    Wire.valueList (toItems xs) = ETree.valueList xs := by
  match xs with
  | [] => rfl
  | x :: xs' =>
    simp only [smallList, Bool.and_eq_true] at hs
    simp only [noBigList, Bool.and_eq_true] at hb
    simp [ETree.valueList, toItems, Wire.valueList, toItem_exact x hs.1 hb.1, toItems_exact xs' hs.2 hb.2]
theorem toMems_exact (ms : List (Bytes × ETree)) (hs : smallMems ms = true) (hb : noBigMems ms = true) :
    Wire.valueMems (toMems ms) = ETree.valueMems ms := by
  match ms with
  | [] => rfl
  | (k, v) :: ms' =>
    simp only [smallMems, Bool.and_eq_true] at hs
    simp only [noBigMems, Bool.and_eq_true] at hb
    simp [ETree.valueMems, toMems, Wire.valueMems, toItem_exact v hs.1.2 hb.1, toMems_exact ms' hs.2 hb.2]
end

end SF.Ubjson.Enc
