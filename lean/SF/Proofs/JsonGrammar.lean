/-
  A small grammar of JSON texts, for the input-level form of the truncation clause of C03
  (SF/Proofs/JsonTrunc.lean).  Concrete syntax trees with their white space; `wire` is the
  text.  Scalars are described by what delimits them, not by what they denote: a string is
  a body without an unescaped quote between two quotes, a number a non-empty run of bytes
  free of stop characters that begins like a number — the truncation theorem holds for all
  of them, whether or not their escapes and digits are valid (an invalid one is an error
  anyway).
-/
import SF.Json.Parse
namespace SF.Json.Grammar
open SF SF.Json SF.Json.Parse SF.Json.Float

inductive LitK | null | tru | fals
  deriving DecidableEq, Repr

def LitK.word : LitK → Bytes
  | .null => [0x6e, 0x75, 0x6c, 0x6c]
  | .tru => [0x74, 0x72, 0x75, 0x65]
  | .fals => [0x66, 0x61, 0x6c, 0x73, 0x65]

/-- RFC 8259 white space -/
def isWs (c : UInt8) : Bool := c == 0x20 || c == 0x09 || c == 0x0a || c == 0x0d

def allWs (ws : Bytes) : Bool := ws.all isWs

/-- a string body: no unescaped quote, no dangling backslash at the end -/
def bodyOk (raw : Bytes) : Bool := scanString raw false 0 == (none, false)

/-- a number token: begins like a number, contains no stop character -/
def tokOk : Bytes → Bool
  | [] => false
  | c :: rest => (c == ch '-' || c == ch '+' || c == ch '.' || Parse.isDigit c) && (c :: rest).all (fun x => !isStopChar x)

mutual
/-- a value -/
inductive J
  | lit (k : LitK)
  | num (tok : Bytes)
  | str (raw : Bytes)
  | arr (ws : Bytes) (body : ABody)          -- `[` ws body
  | obj (ws : Bytes) (body : OBody)          -- `{` ws body
/-- after `[` and white space -/
inductive ABody
  | close                                     -- `]`
  | elems (e : J) (ws : Bytes) (tl : ATail)   -- e ws tl
/-- after an element and white space -/
inductive ATail
  | close                                     -- `]`
  | more (ws1 : Bytes) (e : J) (ws2 : Bytes) (tl : ATail)   -- `,` ws1 e ws2 tl
/-- after `{` and white space -/
inductive OBody
  | close                                     -- `}`
  | mems (key ws1 ws2 : Bytes) (v : J) (ws3 : Bytes) (tl : OTail)   -- `"` key `"` ws1 `:` ws2 v ws3 tl
/-- after a member and white space -/
inductive OTail
  | close                                     -- `}`
  | more (ws0 key ws1 ws2 : Bytes) (v : J) (ws3 : Bytes) (tl : OTail)   -- `,` ws0 `"` key `"` ws1 `:` ws2 v ws3 tl
end

mutual
def J.wire : J → Bytes
  | .lit k => k.word
  | .num tok => tok
  | .str raw => 0x22 :: (raw ++ [0x22])
  | .arr ws body => 0x5b :: (ws ++ body.wire)
  | .obj ws body => 0x7b :: (ws ++ body.wire)
def ABody.wire : ABody → Bytes
  | .close => [0x5d]
  | .elems e ws tl => e.wire ++ (ws ++ tl.wire)
def ATail.wire : ATail → Bytes
  | .close => [0x5d]
  | .more ws1 e ws2 tl => 0x2c :: (ws1 ++ (e.wire ++ (ws2 ++ tl.wire)))
def OBody.wire : OBody → Bytes
  | .close => [0x7d]
  | .mems key ws1 ws2 v ws3 tl => 0x22 :: (key ++ 0x22 :: (ws1 ++ 0x3a :: (ws2 ++ (v.wire ++ (ws3 ++ tl.wire)))))
def OTail.wire : OTail → Bytes
  | .close => [0x7d]
  | .more ws0 key ws1 ws2 v ws3 tl =>
    0x2c :: (ws0 ++ 0x22 :: (key ++ 0x22 :: (ws1 ++ 0x3a :: (ws2 ++ (v.wire ++ (ws3 ++ tl.wire))))))
end

mutual
/-- well-formedness: white space is white space, string bodies and number tokens are delimited -/
def J.ok : J → Bool
  | .lit _ => true
  | .num tok => tokOk tok
  | .str raw => bodyOk raw
  | .arr ws body => allWs ws && body.ok
  | .obj ws body => allWs ws && body.ok
def ABody.ok : ABody → Bool
  | .close => true
  | .elems e ws tl => e.ok && allWs ws && tl.ok
def ATail.ok : ATail → Bool
  | .close => true
  | .more ws1 e ws2 tl => allWs ws1 && e.ok && allWs ws2 && tl.ok
def OBody.ok : OBody → Bool
  | .close => true
  | .mems key ws1 ws2 v ws3 tl => bodyOk key && allWs ws1 && allWs ws2 && v.ok && allWs ws3 && tl.ok
def OTail.ok : OTail → Bool
  | .close => true
  | .more ws0 key ws1 ws2 v ws3 tl =>
    allWs ws0 && bodyOk key && allWs ws1 && allWs ws2 && v.ok && allWs ws3 && tl.ok
end

def J.isNum : J → Bool
  | .num _ => true
  | _ => false

/-- `{"a":[1,"x"],"b":null}` with some white space -/
def sample : J :=
  .obj [] (.mems [0x61] [] [0x20] (.arr [] (.elems (.num [0x31]) [] (.more [] (.str [0x78]) [] .close))) []
    (.more [0x0a] [0x62] [] [] (.lit .null) [0x20] .close))

example : sample.ok = true ∧ sample.wire =
    [0x7b, 0x22, 0x61, 0x22, 0x3a, 0x20, 0x5b, 0x31, 0x2c, 0x22, 0x78, 0x22, 0x5d, 0x2c, 0x0a, 0x22, 0x62, 0x22,
      0x3a, 0x6e, 0x75, 0x6c, 0x6c, 0x20, 0x7d] := by decide +kernel

end SF.Json.Grammar
