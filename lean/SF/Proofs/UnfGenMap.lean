/-
  The generic (interface{}) sub-OBJECT of the Unfolder mirror, step by step
  (unfoldIfcStartSubMap, unfoldMapKeyX.OnKey / OnKeyRef, unfolderMapX.put,
  unfoldIfcFinishSubMap), on the explicit contexts `mapCtx` / `mapValCtx`.
-/
import SF.Proofs.UnfGenArr
namespace SF.Unf
open SF


theorem objStart_sink (f : Nat) (l : Int) (bt : Nat) (k : PK) (c : Ctx)
    (hu : isSink c.unfolder.current) (hk : btKind bt = some k) :
    onObjectStart (f + 1) l bt c = .ok () (mapCtx c k bt []) := by
  have h1 : onObjectStart (f + 1) l bt c = unfoldIfcStartSubMap l bt c := by
    rcases hu with h | h | h <;> simp [onObjectStart, bind_def, currentU_eq, h]
  rw [h1]
  by_cases hi : k = .ifc
  · subst hi
    simp [unfoldIfcStartSubMap, makeMapPtr, hk, bind_def, pure_def, getCtx, modifyCtx, pushPtr, pushBaseType,
      mapInitState, pushU, Stk.push, popU, Stk.pop, mapCtx, mapSt, mapBuf, mapRoot]
  · have hi' : (k == PK.ifc) = false := by simpa using hi
    simp [unfoldIfcStartSubMap, makeMapPtr, hk, bind_def, pure_def, getCtx, modifyCtx, pushPtr, pushBaseType,
      mapInitState, pushU, Stk.push, popU, Stk.pop, mapCtx, mapSt, mapBuf, mapRoot, hi, hi']

theorem onKey_mapCtx (c : Ctx) (k : PK) (bt : Nat) (acc : List (Bytes × GoVal)) (key : Bytes) :
    onKey key (mapCtx c k bt acc) = .ok () (mapValCtx c k bt acc key) := by
  simp [onKey, bind_def, currentU_eq, mapCtx, mapKeyOnKey, pushKey, modifyCtx, Stk.push, setCurrentU, mapValCtx]

theorem onKeyRef_mapCtx (c : Ctx) (k : PK) (bt : Nat) (acc : List (Bytes × GoVal)) (key : Bytes) (kc' : Symbols.Cache)
    (hg : Symbols.get c.keyCache key = .ok (kc', key)) :
    onKeyRef key (mapCtx c k bt acc) = .ok () (mapValCtx (setKC c kc') k bt acc key) := by
  have hg' : keyCacheGet key (mapCtx c k bt acc) = .ok key (setKC (mapCtx c k bt acc) kc') := by
    have : Symbols.get (mapCtx c k bt acc).keyCache key = .ok (kc', key) := hg
    simp [keyCacheGet, this, setKC]
  have hcur : (mapCtx c k bt acc).unfolder.current = .mapKey k := rfl
  simp only [onKeyRef, bind_def, currentU_eq, hcur, hg']
  simp [mapCtx, mapKeyOnKey, pushKey, modifyCtx, Stk.push, setCurrentU, mapValCtx, bind_def, setKC]

theorem mapSet_ne_nil (acc : List (Bytes × GoVal)) (key : Bytes) (v : GoVal) : (mapSet acc key v).isEmpty = false := by
  unfold mapSet
  split
  · rename_i h
    cases acc with
    | nil => simp at h
    | cons a r => simp
  · simp

theorem mapPut_mapValCtx (c : Ctx) (k : PK) (bt : Nat) (acc : List (Bytes × GoVal)) (key : Bytes) (v : GoVal) :
    mapPut k v (mapValCtx c k bt acc key) = .ok () (mapCtx c k bt (mapSet acc key v)) := by
  by_cases hi : k = .ifc
  · subst hi
    cases acc with
    | nil => 
      simp [mapPut, bind_def, currentPtr, mapValCtx, load, rootVal, mapRoot, mapBuf, mapSt, pure_def, popKey, Stk.pop,
        store, setRoot, push_setLast, setCurrentU, modifyCtx, mapCtx, mapSet_ne_nil]
    | cons a r =>
      simp [mapPut, bind_def, currentPtr, mapValCtx, load, rootVal, mapRoot, mapBuf, mapSt, pure_def, popKey, Stk.pop,
        store, setRoot, push_setLast, setCurrentU, modifyCtx, mapCtx, mapSet_ne_nil]
  · cases acc with
    | nil => 
      simp [mapPut, bind_def, currentPtr, mapValCtx, load, rootVal, mapRoot, mapBuf, mapSt, pure_def, popKey, Stk.pop,
        store, setRoot, push_setLast, setCurrentU, modifyCtx, mapCtx, mapSet_ne_nil, hi]
    | cons a r =>
      simp [mapPut, bind_def, currentPtr, mapValCtx, load, rootVal, mapRoot, mapBuf, mapSt, pure_def, popKey, Stk.pop,
        store, setRoot, push_setLast, setCurrentU, modifyCtx, mapCtx, mapSet_ne_nil, hi]


/-- the context after `unfoldMapKeyX.cleanup`, before the parent is told -/
def mapDoneCtx (c : Ctx) (k : PK) (bt : Nat) (acc : List (Bytes × GoVal)) : Ctx :=
  { c with
    ptr := ⟨some { root := mapRoot c.valueBuffer k }, c.ptr.current :: c.ptr.stack⟩
    baseType := ⟨bt, c.baseType.current :: c.baseType.stack⟩
    valueBuffer := mapBuf c.valueBuffer k (mapSt k.goType acc) }

theorem objFin_mapCtx (c : Ctx) (k : PK) (bt : Nat) (acc : List (Bytes × GoVal)) :
    onObjectFinished (mapCtx c k bt acc) = .ok () (mapDoneCtx c k bt acc) := by
  simp [onObjectFinished, bind_def, currentU_eq, mapCtx, mapKeyCleanup, popU, popPtr, Stk.pop, pure_def, mapDoneCtx]

theorem finishSubMap_eq (c : Ctx) (k : PK) (bt : Nat) (acc : List (Bytes × GoVal)) (hk : btKind bt = some k) :
    unfoldIfcFinishSubMap (mapDoneCtx c k bt acc) = .ok (mapSt k.goType acc) c := by
  by_cases hi : k = .ifc
  · subst hi
    simp [unfoldIfcFinishSubMap, bind_def, popPtr, popBaseType, Stk.pop, mapDoneCtx, hk, load, rootVal, getCtx,
      modifyCtx, pure_def, mapRoot, mapBuf]
  · simp [unfoldIfcFinishSubMap, bind_def, popPtr, popBaseType, Stk.pop, mapDoneCtx, hk, load, rootVal, getCtx,
      modifyCtx, pure_def, mapRoot, mapBuf, hi]

theorem childObjDone_eq (c : Ctx) (k : PK) (bt : Nat) (acc : List (Bytes × GoVal))
    (hu : isSink c.unfolder.current) (hk : btKind bt = some k) :
    onChildObjectDone (mapDoneCtx c k bt acc) =
      pukDeliver c.unfolder.current (.ifc (mapSt k.goType acc)) c := by
  have hcur : (mapDoneCtx c k bt acc).unfolder.current = c.unfolder.current := rfl
  have h := finishSubMap_eq c k bt acc hk
  rcases hu with hu | hu | hu <;>
    simp [onChildObjectDone, bind_def, currentU_eq, hcur, hu, h]

theorem objEnd_mapCtx (f : Nat) (c : Ctx) (k : PK) (bt : Nat) (acc : List (Bytes × GoVal))
    (hu : isSink c.unfolder.current) (hk : btKind bt = some k) (hS : c.unfolder.stack ≠ []) :
    stepEv (f + 1) .objEnd (mapCtx c k bt acc) =
      (pukDeliver c.unfolder.current (.ifc (mapSt k.goType acc)) >>= fun _ =>
        reportChildDone onChildObjectDone (c.unfolder.stack.length + 2) (c.unfolder.stack.length + 1)) c := by
  simp only [stepEv]
  rw [ctxObjFin_eq _ _ (objFin_mapCtx c k bt acc)]
  have hlen : (mapCtx c k bt acc).unfolder.stack.length = c.unfolder.stack.length + 1 := by simp [mapCtx]
  rw [hlen, reportChildDone]
  have hS' : ¬ (c.unfolder.stack.length + 1 ≤ 1) := by
    cases hs : c.unfolder.stack with
    | nil => exact absurd hs hS
    | cons a r => simp
  have h2 : ¬ (c.unfolder.stack.length + 1 + 1 ≤ c.unfolder.stack.length + 1) := by omega
  have hlen2 : (mapDoneCtx c k bt acc).unfolder.stack.length = c.unfolder.stack.length := rfl
  simp only [bind_def, getCtx, hlen2, hS', h2, decide_false, Bool.or_self, Bool.false_eq_true, if_false]
  rw [childObjDone_eq c k bt acc hu hk]
end SF.Unf
